(* Safe execution (memory safety, no integer division by zero, no bad cast,
   termination) of the MiniC program regenerated from
     src/hydrodiy/data/c_dutils.c   : c_combi
     src/hydrodiy/stat/c_olsleverage.c : c_olsleverage
     src/hydrodiy/stat/c_andersondarling.c, AnDarl.c, ADinf.c :
        c_ad_test, c_andersondarling.compare, c_ad_probn, c_ad_probexactinf,
        c_ad_probapproxinf, ADtest, AD, adinf, errfix, ADf, ADinf
   for ALL inputs satisfying the buffer-length contract of the wrappers. *)
From Coq Require Import ZArith Bool List String Lia.
From Coq Require Import PrimFloat.
From Hy Require Import Base.Num Base.MiniC Gen.KernelsAst.
Import ListNotations.
Open Scope string_scope.
Open Scope list_scope.
Open Scope Z_scope.

(* ================================================================== *)
(* Generic helpers about MiniC (candidates for Base/MiniC.v)            *)
(* ================================================================== *)

Ltac fold_loop_state n st :=
  match goal with
  | |- context[loop n _ _ ?s] => change s with st
  end.

(* a write inside the buffer succeeds and keeps the length (the content is irrelevant
   for safety) *)
Lemma zset_ok_len {A} (l : list A) (i : Z) (v : A) :
  0 <= i < Z.of_nat (List.length l) ->
  exists l', zset l i v = Some l' /\ List.length l' = List.length l.
Proof.
  intros H. destruct (zset l i v) as [l'|] eqn:E.
  - exists l'. split; [reflexivity|]. eapply zset_length; eassumption.
  - rewrite zset_ok in E by exact H. discriminate E.
Qed.

Lemma zget_ok_ex {A} (l : list A) (i : Z) :
  0 <= i < Z.of_nat (List.length l) -> exists x, zget l i = Some x.
Proof.
  intros H. destruct l as [|d l']; [cbn in H; lia|].
  eexists. apply (zget_ok _ _ d). exact H.
Qed.

Lemma alookup_aupd_eq {A} (x : string) (v : A) (l : list (string * A)) :
  alookup x (aupd x v l) = Some v.
Proof.
  induction l as [|[y w] l IH]; cbn [aupd alookup].
  - rewrite String.eqb_refl. reflexivity.
  - destruct (String.eqb x y) eqn:E; cbn [alookup]; rewrite ?String.eqb_refl, ?E; auto.
Qed.

(* ---- qsort (glibc merge sort): safety = the comparator never fails on the items;
        the result has the length of the input ---- *)

Section SortSafe.
Context {A : Type} (cmp : A -> A -> result Z) (P : A -> Prop).
Hypothesis cmp_ok : forall x y, P x -> P y -> exists c, cmp x y = Ok c.

Lemma mergeM_safe : forall fuel l1 l2,
  Forall P l1 -> Forall P l2 -> (List.length l1 + List.length l2 < fuel)%nat ->
  exists l, mergeM cmp fuel l1 l2 = Ok l /\
            List.length l = (List.length l1 + List.length l2)%nat /\ Forall P l.
Proof.
  induction fuel as [|f IH]; intros l1 l2 H1 H2 Hf; [lia|].
  destruct l1 as [|x r1].
  - exists l2. cbn. repeat split; assumption.
  - destruct l2 as [|y r2].
    + exists (x :: r1). cbn. repeat split; try assumption. lia.
    + cbn [mergeM].
      destruct (cmp_ok x y) as (c & Ec);
        [inversion H1; assumption|inversion H2; assumption|].
      rewrite Ec. cbn [bind].
      destruct (c <=? 0).
      * destruct (IH r1 (y :: r2)) as (l & El & Hl & HP);
          [inversion H1; assumption|assumption|cbn in *; lia|].
        rewrite El. cbn [bind]. exists (x :: l).
        split; [reflexivity|]. split; [cbn in *; lia|].
        constructor; [inversion H1; assumption|assumption].
      * destruct (IH (x :: r1) r2) as (l & El & Hl & HP);
          [assumption|inversion H2; assumption|cbn in *; lia|].
        rewrite El. cbn [bind]. exists (y :: l).
        split; [reflexivity|]. split; [cbn in *; lia|].
        constructor; [inversion H2; assumption|assumption].
Qed.

Lemma msortM_safe : forall fuel l,
  Forall P l -> (List.length l <= fuel)%nat -> (1 <= fuel)%nat ->
  exists l', msortM cmp fuel l = Ok l' /\ List.length l' = List.length l /\ Forall P l'.
Proof.
  induction fuel as [|f IH]; intros l HP Hlen Hf; [lia|].
  cbn [msortM].
  destruct (Nat.leb_spec (List.length l) 1) as [Hle|Hgt].
  - exists l. repeat split; assumption.
  - assert (Hd : (1 <= Nat.div2 (List.length l) < List.length l)%nat).
    { rewrite Nat.div2_div. split.
      - apply Nat.div_le_lower_bound; lia.
      - apply Nat.div_lt; lia. }
    assert (Hsplit : Forall P (firstn (Nat.div2 (List.length l)) l) /\
                     Forall P (skipn (Nat.div2 (List.length l)) l)).
    { apply Forall_app. rewrite firstn_skipn. exact HP. }
    destruct Hsplit as [HPa HPb].
    destruct (IH (firstn (Nat.div2 (List.length l)) l)) as (a & Ea & Hla & HPa');
      [exact HPa|rewrite firstn_length; lia|lia|].
    destruct (IH (skipn (Nat.div2 (List.length l)) l)) as (b & Eb & Hlb & HPb');
      [exact HPb|rewrite skipn_length; lia|lia|].
    rewrite Ea. cbn [bind]. rewrite Eb. cbn [bind].
    rewrite firstn_length in Hla. rewrite skipn_length in Hlb.
    destruct (mergeM_safe (S (List.length l)) a b HPa' HPb') as (m & Em & Hlm & HPm); [lia|].
    exists m. split; [exact Em|]. split; [lia|exact HPm].
Qed.

End SortSafe.

Lemma chunks_length {A} k n : forall (l : list A), List.length (chunks k n l) = n.
Proof. induction n as [|n IH]; intros l; [reflexivity|]. cbn [chunks List.length]. rewrite IH. reflexivity. Qed.

Lemma chunks1_all {A} n : forall (l : list A), (n <= List.length l)%nat ->
  Forall (fun c => List.length c = 1%nat) (chunks 1 n l).
Proof.
  induction n as [|n IH]; intros l H; [constructor|].
  destruct l as [|x l]; [cbn in H; lia|].
  cbn [chunks]. constructor; [reflexivity|]. apply IH. cbn in H. cbn. lia.
Qed.

Lemma concat_length1 {A} (ls : list (list A)) :
  Forall (fun c => List.length c = 1%nat) ls -> List.length (List.concat ls) = List.length ls.
Proof.
  induction 1 as [|c ls Hc _ IH]; [reflexivity|].
  cbn [List.concat]. rewrite app_length, Hc, IH. reflexivity.
Qed.

(* qsort(a, n, sizeof(elt), cmp) on a buffer of at least n elements, with a comparator that
   succeeds on one-element arrays: no error, the buffer keeps its length *)
Lemma qsort_list_safe1 {T A} (callf : callee T) (cmpf : string) (mk : list A -> argval T)
      (name : string) (n : Z) (l : list A) :
  0 <= n <= zlen l ->
  (forall a b, List.length a = 1%nat -> List.length b = 1%nat ->
               exists c, cmp_call callf cmpf mk a b = Ok c) ->
  exists l', qsort_list callf cmpf mk name n 1 l = Ok l' /\ List.length l' = List.length l.
Proof.
  intros Hn Hcmp. rewrite zlen_eq in Hn. unfold qsort_list. rewrite zlen_eq.
  replace (n <? 0) with false by (symmetry; apply Z.ltb_ge; lia).
  replace (Z.of_nat (List.length l) <? n * 1) with false by (symmetry; apply Z.ltb_ge; lia).
  change (1 <? 1) with false. cbn [orb].
  change (Z.to_nat 1) with 1%nat.
  destruct (msortM_safe (cmp_call callf cmpf mk) (fun c => List.length c = 1%nat) Hcmp
              (S (Z.to_nat n)) (chunks 1 (Z.to_nat n) l)) as (srt & Es & Hls & HPs).
  - apply chunks1_all. lia.
  - rewrite chunks_length. lia.
  - lia.
  - rewrite Es. cbn [bind]. eexists. split; [reflexivity|].
    rewrite app_length, concat_length1 by exact HPs.
    rewrite Hls, chunks_length, skipn_length. lia.
Qed.

(* ================================================================== *)

Section Safe.
Context {T : Type} (N : NumOps T) (X : NumLit T).

(* ------------------------------------------------------------------ *)
(* c_combi                                                              *)

Definition combi_state (nn kk ans j : Z) : state T :=
  {| s_i := [("n", nn); ("k", kk); ("ans", ans); ("j", j)];
     s_f := []; s_ai := []; s_af := [] |}.

Definition combi_inv (kk : Z) (i : nat) (st : state T) : Prop :=
  exists nn ans, Z.of_nat i <= Z.max 0 kk /\ st = combi_state nn kk ans (1 + Z.of_nat i).

Definition combi_post (r : outcome T * state T) : Prop :=
  exists nn kk ans j, r = (ONormal, combi_state nn kk ans j).

(* c_combi(n, k): no array; the only partial operations are n%j, n/j, ans%j, ans/j with
   j = 1, 2, ... (never 0).  Safe for ALL n, k (negative, huge ...); at most 30 iterations
   because of the guard k>30 || n-k>30 -> return -1.  (Overflow of ans is not modelled.) *)
Theorem safe_c_combi (n k : Z) (fuel : nat) :
  (30 < fuel)%nat ->
  exists ret,
    exec_fun N X program (S fuel) "c_combi" [AVI n; AVI k] = Ok (RI ret, [])
    /\ ((30 <? k) || (30 <? n - k) = true -> ret = -1).
Proof.
  intros Hfuel. cbn. rewrite ?truth_b2z, ?or_ok.
  destruct ((30 <? k) || (30 <? n - k)) eqn:Hbig.
  - cbn. eexists; split; [reflexivity|]. intros _. reflexivity.
  - apply orb_false_iff in Hbig. destruct Hbig as [Hk Hnk].
    apply Z.ltb_ge in Hk. apply Z.ltb_ge in Hnk.
    cbn. rewrite ?truth_b2z.
    set (kk := if n - k <? k then n - k else k).
    assert (Hkk : kk <= 30) by (subst kk; destruct (n - k <? k); lia).
    replace (if n - k <? k then Ok (n - k) else Ok k) with (@Ok Z kk)
      by (subst kk; destruct (n - k <? k); reflexivity).
    cbn. norm_state.
    loop_with (combi_inv kk) combi_post 30%nat.
    + intros i st (nn & ans & Hi & ->).
      unfold combi_state. cbn. rewrite ?truth_b2z.
      destruct (Z.leb_spec (1 + Z.of_nat i) kk) as [Hle|Hgt].
      * split; [lia|]. cbn.
        replace (1 + Z.of_nat i =? 0) with false by (symmetry; apply Z.eqb_neq; lia).
        cbn. rewrite ?truth_b2z.
        destruct (Z.rem nn (1 + Z.of_nat i) =? 0).
        -- cbn. zb. cbn. eexists (nn - 1), _. split; [lia|].
           norm_state. unfold combi_state.
              replace (1 + Z.of_nat i + 1) with (1 + Z.of_nat (S i)) by lia. reflexivity.
        -- cbn. zb. cbn. rewrite ?truth_b2z.
           destruct (Z.rem ans (1 + Z.of_nat i) =? 0).
           ++ cbn. zb. cbn. eexists (nn - 1), _. split; [lia|].
              norm_state. unfold combi_state.
              replace (1 + Z.of_nat i + 1) with (1 + Z.of_nat (S i)) by lia. reflexivity.
           ++ cbn. zb. cbn. eexists (nn - 1), _. split; [lia|].
              norm_state. unfold combi_state.
              replace (1 + Z.of_nat i + 1) with (1 + Z.of_nat (S i)) by lia. reflexivity.
      * split; [lia|]. cbn. exists nn, kk, ans, (1 + Z.of_nat i). reflexivity.
    + exists n, 1. split; [lia|]. reflexivity.
    + lia.
    + destruct HL as (r & -> & nn & kk' & ans & j & ->). cbn.
      eexists; split; [reflexivity|]. intros H; discriminate H.
Qed.

(* ------------------------------------------------------------------ *)
(* c_olsleverage                                                        *)

Definition ols_state (nval np i j k : Z) (p1 p2 xx lev : T) (P Xi L : list T) : state T :=
  {| s_i := [("nval", nval); ("npreds", np); ("i", i); ("j", j); ("k", k)];
     s_f := [("pred1", p1); ("pred2", p2); ("xx", xx); ("lev", lev)];
     s_ai := [];
     s_af := [("predictors", P); ("tXXinv", Xi); ("leverage", L)] |}.

Definition ols_kbody : stmt :=
  seq [(SSetF "xx" (FArr "tXXinv" (IBin IAdd (IBin IMul (IVar "npreds") (IVar "j")) (IVar "k"))));
       (SSetF "pred2" (FArr "predictors" (IBin IAdd (IBin IMul (IVar "npreds") (IVar "i")) (IVar "k"))));
       (SSetF "lev" (FBin FAdd (FVar "lev") (FBin FMul (FBin FMul (FVar "pred1") (FVar "pred2")) (FVar "xx"))))].

Definition ols_kloop_stmt : stmt :=
  SFor (ICmp CLt (IVar "k") (IVar "npreds"))
       (SSetI "k" (IBin IAdd (IVar "k") (IConst 1))) ols_kbody.

Definition ols_jbody : stmt :=
  seq [(SSetF "pred1" (FArr "predictors" (IBin IAdd (IBin IMul (IVar "npreds") (IVar "i")) (IVar "j"))));
       (SSetI "k" (IConst 0));
       ols_kloop_stmt;
       (SStoreF "leverage" (IVar "i") (FVar "lev"))].

Definition ols_jloop_stmt : stmt :=
  SFor (ICmp CLt (IVar "j") (IVar "npreds"))
       (SSetI "j" (IBin IAdd (IVar "j") (IConst 1))) ols_jbody.

(* innermost loop: for(k=0; k<npreds; k++) *)
Lemma ols_kloop (callf : callee T) fuel nval np i j p1 p2 xx lev P Xi L :
  0 <= i -> 0 <= j < np -> np * i + np <= zlen P -> np * j + np <= zlen Xi ->
  (Z.to_nat np < fuel)%nat ->
  exists p2' xx' lev',
    exec N X callf fuel ols_kloop_stmt (ols_state nval np i j 0 p1 p2 xx lev P Xi L)
    = Ok (ONormal, ols_state nval np i j np p1 p2' xx' lev' P Xi L).
Proof.
  intros Hi Hj HP HXi Hfuel. rewrite !zlen_eq in *.
  set (Inv := fun (kk : nat) (st : state T) =>
         Z.of_nat kk <= np /\ exists p2' xx' lev',
           st = ols_state nval np i j (Z.of_nat kk) p1 p2' xx' lev' P Xi L).
  set (Post := fun (r : outcome T * state T) =>
         exists p2' xx' lev', r = (ONormal, ols_state nval np i j np p1 p2' xx' lev' P Xi L)).
  cbn.
  loop_with Inv Post (Z.to_nat np).
  - intros kk st (Hkk & p2' & xx' & lev' & ->).
    split; [lia|]. unfold ols_state. cbn.
    destruct (Z.ltb_spec (Z.of_nat kk) np) as [Hlt|Hge].
    + cbn.
      rewrite (zget_ok Xi _ (n0 N)) by nia. cbn.
      rewrite (zget_ok P _ (n0 N)) by nia. cbn.
      split; [lia|]. do 3 eexists. norm_state. unfold ols_state.
      replace (Z.of_nat kk + 1) with (Z.of_nat (S kk)) by lia. reflexivity.
    + cbn. exists p2', xx', lev'. unfold ols_state.
      assert (Hnp : np = Z.of_nat kk) by lia. rewrite <- Hnp. reflexivity.
  - split; [lia|]. exists p2, xx, lev. reflexivity.
  - lia.
  - destruct HL as (r & E & p2' & xx' & lev' & ->). exists p2', xx', lev'. exact E.
Qed.

Definition ols_post (nval np i : Z) (P Xi : list T) (len : nat) (r : outcome T * state T) : Prop :=
  exists j k p1 p2 xx lev L',
    List.length L' = len /\ r = (ONormal, ols_state nval np i j k p1 p2 xx lev P Xi L').

(* middle loop: for(j=0; j<npreds; j++) *)
Lemma ols_jloop (callf : callee T) fuel nval np i k0 p1 p2 xx lev P Xi L :
  0 <= i ->
  (0 < np -> np * i + np <= zlen P /\ np * np <= zlen Xi /\ i < zlen L) ->
  (Z.to_nat np < fuel)%nat ->
  exists r,
    exec N X callf fuel ols_jloop_stmt (ols_state nval np i 0 k0 p1 p2 xx lev P Xi L) = Ok r
    /\ ols_post nval np i P Xi (List.length L) r.
Proof.
  intros Hi Hlen Hfuel. rewrite !zlen_eq in *.
  set (Inv := fun (jj : nat) (st : state T) =>
         Z.of_nat jj <= Z.max 0 np /\ exists k p1 p2 xx lev L',
           List.length L' = List.length L /\
           st = ols_state nval np i (Z.of_nat jj) k p1 p2 xx lev P Xi L').
  cbn.
  loop_with Inv (ols_post nval np i P Xi (List.length L)) (Z.to_nat np).
  - intros jj st (Hjj & k & q1 & q2 & qx & ql & L' & HL' & ->).
    split; [lia|]. unfold ols_state. cbn.
    destruct (Z.ltb_spec (Z.of_nat jj) np) as [Hlt|Hge].
    + destruct Hlen as (HP & HXi & HL); [lia|].
      cbn. rewrite (zget_ok P _ (n0 N)) by nia. cbn.
      set (q1' := nth _ P (n0 N)).
      destruct (ols_kloop callf fuel nval np i (Z.of_nat jj) q1' q2 qx ql P Xi L')
        as (p2' & xx' & lev' & E); try rewrite zlen_eq; try lia; try nia.
      unfold ols_kloop_stmt in E. cbn in E.
      fold_loop_state fuel (ols_state nval np i (Z.of_nat jj) 0 q1' q2 qx ql P Xi L').
      rewrite E. unfold ols_state. cbn.
      destruct (zset_ok_len L' i lev') as (L'' & EL & HL''); [lia|].
      rewrite EL. cbn.
      split; [lia|]. do 6 eexists. split; [|norm_state; unfold ols_state;
        replace (Z.of_nat jj + 1) with (Z.of_nat (S jj)) by lia; reflexivity].
      lia.
    + cbn. exists (Z.of_nat jj), k, q1, q2, qx, ql, L'. split; [exact HL'|reflexivity].
  - split; [lia|]. exists k0, p1, p2, xx, lev, L. split; reflexivity.
  - lia.
  - exact HL.
Qed.

(* c_olsleverage(nval, npreds, predictors[nval*npreds], tXXinv[npreds*npreds], leverage[nval]).
   Hypotheses = the shape relations asserted by the Cython wrapper (stat.olsleverage:
   leverages.shape[0]==predictors.shape[0], predictors.shape[1]==tXXinv.shape[0]==tXXinv.shape[1]);
   they are needed only when both loops run (0 < nval, 0 < npreds).  No hypothesis on the
   contents (NaN, inf ... allowed).  predictors and tXXinv are returned unchanged. *)
Theorem safe_c_olsleverage (nval np : Z) (P Xi L : list T) (fuel : nat) :
  (0 < nval -> 0 < np -> nval * np <= zlen P /\ np * np <= zlen Xi /\ nval <= zlen L) ->
  (Z.to_nat nval < fuel)%nat -> (Z.to_nat np < fuel)%nat ->
  exists L',
    exec_fun N X program (S fuel) "c_olsleverage"
      [AVI nval; AVI np; AVArrF P; AVArrF Xi; AVArrF L]
    = Ok (RI 0, [VArrF P; VArrF Xi; VArrF L'])
    /\ List.length L' = List.length L.
Proof.
  intros Hlen Hf1 Hf2. rewrite !zlen_eq in *.
  set (Inv := fun (ii : nat) (st : state T) =>
         Z.of_nat ii <= Z.max 0 nval /\ exists j k p1 p2 xx lev L',
           List.length L' = List.length L /\
           st = ols_state nval np (Z.of_nat ii) j k p1 p2 xx lev P Xi L').
  set (Post := fun (r : outcome T * state T) =>
         exists i, ols_post nval np i P Xi (List.length L) r).
  cbn. norm_state.
  loop_with Inv Post (Z.to_nat nval).
  - intros ii st (Hii & j & k & q1 & q2 & qx & ql & L' & HL' & ->).
    split; [lia|]. unfold ols_state. cbn.
    destruct (Z.ltb_spec (Z.of_nat ii) nval) as [Hlt|Hge].
    + cbn.
      destruct (ols_jloop (exec_fun N X program fuel) fuel nval np (Z.of_nat ii) k q1 q2 qx
                  (nofZ N 0) P Xi L') as (r & E & HP); try lia.
      { intros Hnp. rewrite !zlen_eq. destruct Hlen as (H1 & H2 & H3); try lia.
        repeat split; try lia; nia. }
      unfold ols_jloop_stmt, ols_jbody, ols_kloop_stmt, ols_kbody in E. cbn in E.
      fold_loop_state fuel (ols_state nval np (Z.of_nat ii) 0 k q1 q2 qx (nofZ N 0) P Xi L').
      rewrite E.
      destruct HP as (j' & k' & p1' & p2' & xx' & lev' & L'' & HL'' & ->).
      unfold ols_state. cbn.
      split; [lia|]. do 7 eexists. split; [|norm_state; unfold ols_state;
        replace (Z.of_nat ii + 1) with (Z.of_nat (S ii)) by lia; reflexivity].
      lia.
    + cbn. exists (Z.of_nat ii), j, k, q1, q2, qx, ql, L'. split; [exact HL'|reflexivity].
  - split; [lia|]. do 7 eexists. split; [|unfold ols_state; reflexivity]. reflexivity.
  - lia.
  - destruct HL as (r & -> & i & j' & k' & p1' & p2' & xx' & lev' & L'' & HL'' & ->).
    cbn. exists L''. split; [reflexivity|exact HL''].
Qed.

(* ------------------------------------------------------------------ *)
(* Anderson-Darling: the libm functions                                 *)

(* the libm function [f] has an interpretation in the instance [X] *)
Definition ext_total (f : string) : Prop := forall args, next X f args <> None.

Lemma ext_total_ex f : ext_total f -> forall v, exists y, next X f [v] = Some y.
Proof.
  intros H v. destruct (next X f [v]) as [y|] eqn:E; [exists y; reflexivity|].
  exfalso. exact (H _ E).
Qed.

(* evaluate the (innermost, first) call of a libm function in the goal *)
Ltac ext_step H :=
  match goal with
  | |- context[next X ?f [?v]] =>
      let y := fresh "y" in let Hy := fresh "Hy" in
      destruct (ext_total_ex f H v) as [y Hy]; rewrite Hy; clear Hy
  end.

(* ---- the comparator of qsort ---- *)

Lemma safe_ad_compare (a b : T) (r1 r2 : list T) (fuel : nat) :
  exists c,
    exec_fun N X program (S fuel) "c_andersondarling.compare" [AVArrF (a :: r1); AVArrF (b :: r2)]
    = Ok (RI c, [VArrF (a :: r1); VArrF (b :: r2)]) /\ -1 <= c <= 1.
Proof.
  cbn. rewrite ?truth_b2z.
  destruct (nltb N b a); cbn; [eexists; split; [reflexivity|lia]|].
  rewrite ?truth_b2z.
  destruct (neqb N a b); cbn; [eexists; split; [reflexivity|lia]|].
  rewrite ?truth_b2z.
  destruct (nltb N a b); cbn; eexists; (split; [reflexivity|lia]).
Qed.

(* ---- adinf, errfix, AD ---- *)

Lemma safe_adinf (z : T) (fuel : nat) :
  ext_total "exp" ->
  exists r, exec_fun N X program (S fuel) "adinf" [AVF z] = Ok (RF r, []).
Proof.
  intros Hexp. cbn. rewrite ?truth_b2z.
  destruct (nltb N z _); cbn.
  - ext_step Hexp. cbn. eexists; reflexivity.
  - ext_step Hexp. cbn. ext_step Hexp. cbn. eexists; reflexivity.
Qed.

Lemma safe_errfix (n : Z) (x : T) (fuel : nat) :
  exists r, exec_fun N X program (S fuel) "errfix" [AVI n; AVF x] = Ok (RF r, []).
Proof.
  cbn. rewrite ?truth_b2z.
  destruct (nltb N _ x); cbn; [eexists; reflexivity|].
  rewrite ?truth_b2z.
  destruct (nltb N x _); cbn; eexists; reflexivity.
Qed.

Lemma safe_AD (n : Z) (z : T) (fuel : nat) :
  ext_total "exp" -> (0 < fuel)%nat ->
  exists r, exec_fun N X program (S fuel) "AD" [AVI n; AVF z] = Ok (RF r, []).
Proof.
  intros Hexp Hfuel. cbn. destruct fuel as [|fuel]; [lia|].
  destruct (safe_adinf z fuel Hexp) as (x & Ex). rewrite Ex. cbn.
  rewrite ?truth_b2z.
  destruct (nltb N _ x); cbn; [eexists; reflexivity|].
  rewrite ?truth_b2z.
  destruct (nltb N x _); cbn; eexists; reflexivity.
Qed.

(* ---- ADtest ---- *)

Definition adt_state (n i : Z) (nanv t z prev zero : T) (x outs : list T) : state T :=
  {| s_i := [("n", n); ("i", i)];
     s_f := [("nan", nanv); ("t", t); ("z", z); ("prev", prev); ("zero", zero)];
     s_ai := [];
     s_af := [("x", x); ("outputs", outs)] |}.

Definition adt_loop_stmt (c1 c2 c3 : Z) : stmt :=
  SFor (ICmp CLt (IVar "i") (IVar "n")) (SSetI "i" (IBin IAdd (IVar "i") (IConst 1)))
  (seq [(SIf (IOr (IFCmp CLt (FArr "x" (IVar "i")) (FOfInt (IConst 0))) (IFCmp CGt (FArr "x" (IVar "i")) (FOfInt (IConst 1))))
          (SRetI (IBin IAdd (IConst 500000) (IConst c1))) SSkip);
       (SIf (IIsnan (FArr "x" (IVar "i")))
          (SRetI (IBin IAdd (IConst 500000) (IConst c2))) SSkip);
       (SIf (IFCmp CLt (FArr "x" (IVar "i")) (FVar "prev"))
          (SRetI (IBin IAdd (IConst 500000) (IConst c3))) SSkip);
       (SSetF "t" (FBin FMul (FArr "x" (IVar "i")) (FBin FSub (FLit (0x1.0000000000000p+0)%float 1 1) (FArr "x" (IBin ISub (IBin ISub (IVar "n") (IConst 1)) (IVar "i"))))));
       (SSetF "z" (FBin FSub (FVar "z") (FBin FMul (FOfInt (IBin IAdd (IBin IAdd (IVar "i") (IVar "i")) (IConst 1))) (FExt1 "log" (FVar "t")))));
       (SSetF "prev" (FArr "x" (IVar "i")))]).

(* the loop ends normally or returns a positive error code; the arrays are untouched *)
Definition adt_post (n : Z) (nanv zero : T) (x outs : list T) (r : outcome T * state T) : Prop :=
  exists i t z prev,
    r = (ONormal, adt_state n i nanv t z prev zero x outs) \/
    exists code, 0 < code /\ r = (ORet (RI code), adt_state n i nanv t z prev zero x outs).

Lemma adt_loop (callf : callee T) fuel c1 c2 c3 n nanv t z prev zero x outs :
  ext_total "log" -> 0 <= c1 -> 0 <= c2 -> 0 <= c3 ->
  n <= zlen x -> (Z.to_nat n < fuel)%nat ->
  exists r,
    exec N X callf fuel (adt_loop_stmt c1 c2 c3) (adt_state n 0 nanv t z prev zero x outs) = Ok r
    /\ adt_post n nanv zero x outs r.
Proof.
  intros Hlog Hc1 Hc2 Hc3 Hx Hfuel. rewrite zlen_eq in Hx.
  set (Inv := fun (ii : nat) (st : state T) =>
         Z.of_nat ii <= Z.max 0 n /\ exists t z prev,
           st = adt_state n (Z.of_nat ii) nanv t z prev zero x outs).
  cbn.
  loop_with Inv (adt_post n nanv zero x outs) (Z.to_nat n).
  - intros ii st (Hii & t' & z' & prev' & ->).
    split; [lia|]. unfold adt_state. cbn.
    destruct (Z.ltb_spec (Z.of_nat ii) n) as [Hlt|Hge].
    + destruct (zget_ok_ex x (Z.of_nat ii)) as (a & Ha); [lia|].
      destruct (zget_ok_ex x (n - 1 - Z.of_nat ii)) as (b & Hb); [lia|].
      cbn. rewrite Ha. cbn. rewrite ?truth_b2z.
      destruct (nltb N a (nofZ N 0)); cbn.
      { exists (Z.of_nat ii), t', z', prev'. right. eexists; split; [|reflexivity]. lia. }
      rewrite ?Ha; cbn; rewrite ?truth_b2z.
      destruct (nltb N (nofZ N 1) a); cbn.
      { exists (Z.of_nat ii), t', z', prev'. right. eexists; split; [|reflexivity]. lia. }
      rewrite ?Ha; cbn; rewrite ?truth_b2z.
      destruct (nisnan N a); cbn.
      { exists (Z.of_nat ii), t', z', prev'. right. eexists; split; [|reflexivity]. lia. }
      rewrite ?Ha; cbn; rewrite ?truth_b2z.
      destruct (nltb N a prev'); cbn.
      { exists (Z.of_nat ii), t', z', prev'. right. eexists; split; [|reflexivity]. lia. }
      rewrite ?Ha; cbn.
      rewrite Hb. cbn. ext_step Hlog. cbn. rewrite ?Ha; cbn.
      split; [lia|]. do 3 eexists. norm_state. unfold adt_state.
      replace (Z.of_nat ii + 1) with (Z.of_nat (S ii)) by lia. reflexivity.
    + cbn. exists (Z.of_nat ii), t', z', prev'. left. reflexivity.
  - split; [lia|]. exists t, z, prev. reflexivity.
  - lia.
  - exact HL.
Qed.

(* present the initial state of the loop of the goal as a literal record *)
Ltac norm_loop_state fuel :=
  match goal with
  | |- context[loop fuel _ _ ?s] =>
      let s' := eval cbv [set_i set_f set_ai set_af aupd s_i s_f s_ai s_af st_empty
                          String.eqb Ascii.eqb Bool.eqb] in s in
      change s with s'
  end.

(* ADtest(n, x[>=n], outputs[>=2]): reads x[i] and x[n-1-i] for 0<=i<n, always writes
   outputs[0] and outputs[1]: hence n <= len x (nothing when n <= 0) and 2 <= len outputs.
   Any content of x (NaN, out of [0,1], unsorted: positive error code).  log and exp (through
   AD -> adinf) must have an interpretation in X.  x is returned unchanged.
   Fuel: the loop (n iterations) and two call levels (AD, adinf). *)
Theorem safe_ADtest (n : Z) (x outs : list T) (fuel : nat) :
  ext_total "exp" -> ext_total "log" ->
  n <= zlen x -> 2 <= zlen outs ->
  (Z.to_nat n < fuel)%nat -> (1 < fuel)%nat ->
  exists code outs',
    exec_fun N X program (S fuel) "ADtest" [AVI n; AVArrF x; AVArrF outs]
    = Ok (RI code, [VArrF x; VArrF outs']) /\ 0 <= code /\ List.length outs' = List.length outs.
Proof.
  intros Hexp Hlog Hx Houts Hf1 Hf2.
  destruct outs as [|o0 [|o1 outs]]; try (cbn in Houts; lia).
  cbn. norm_loop_state fuel.
  (* the three error codes are ANDARL_ERROR + __LINE__: read them off the goal *)
  match goal with
  | |- context[loop fuel _
         (for_body (exec _ _ _ _
            (SSeq (SIf _ (SRetI (IBin IAdd _ (IConst ?c1))) _)
            (SSeq (SIf _ (SRetI (IBin IAdd _ (IConst ?c2))) _)
            (SSeq (SIf _ (SRetI (IBin IAdd _ (IConst ?c3))) _) _)))) _) _] =>
      edestruct (adt_loop (exec_fun N X program fuel) fuel c1 c2 c3 n) as (r & E & HP);
        [exact Hlog|lia|lia|lia|exact Hx|exact Hf1|]
  end.
  unfold adt_loop_stmt, adt_state in E. cbn in E. rewrite E. clear E.
  destruct HP as (i & t & z & prev & [->|(code & Hcode & ->)]).
  - unfold adt_state. cbn.
    destruct fuel as [|fuel]; [lia|].
    destruct (safe_AD n (nadd N (nofZ N (- n)) (ndiv N z (nofZ N n))) fuel Hexp) as (p & Ep); [lia|].
    rewrite Ep. cbn. rewrite ?truth_b2z.
    destruct (nltb N _ (nlit X 0 0 1)); cbn.
    + do 2 eexists. split; [reflexivity|]. split; [lia|reflexivity].
    + rewrite ?truth_b2z. destruct (nltb N (nlit X 1 1 1) _); cbn.
      * do 2 eexists. split; [reflexivity|]. split; [lia|reflexivity].
      * do 2 eexists. split; [reflexivity|]. split; [lia|reflexivity].
  - unfold adt_state. cbn.
    do 2 eexists. split; [reflexivity|]. split; [lia|reflexivity].
Qed.

(* ---- c_ad_test ---- *)

(* c_ad_test(nval, unifdata[>=nval], outputs[>=2]) = qsort + ADtest.  The wrapper
   (stat.ad_test) passes nval = unifdata.shape[0] and asserts outputs.shape[0] == 2.
   0 <= nval is needed by qsort (a negative count is a huge size_t in C; OOB in MiniC).
   The comparator returns 0 on NaN (an inconsistent order): irrelevant for safety, the
   merge sort is safe whatever the comparator answers. *)
Theorem safe_c_ad_test (nval : Z) (unifdata outs : list T) (fuel : nat) :
  ext_total "exp" -> ext_total "log" ->
  0 <= nval <= zlen unifdata -> 2 <= zlen outs ->
  (S (Z.to_nat nval) < fuel)%nat -> (2 < fuel)%nat ->
  exists code data' outs',
    exec_fun N X program (S fuel) "c_ad_test" [AVI nval; AVArrF unifdata; AVArrF outs]
    = Ok (RI code, [VArrF data'; VArrF outs']) /\ 0 <= code /\
    List.length data' = List.length unifdata /\ List.length outs' = List.length outs.
Proof.
  intros Hexp Hlog Hn Houts Hf1 Hf2.
  cbn -[qsort_list].
  destruct (qsort_list_safe1 (exec_fun N X program fuel) "c_andersondarling.compare"
              (@AVArrF T) "unifdata" nval unifdata Hn) as (srt & Es & Hls).
  { intros a b Ha Hb.
    destruct a as [|a0 [|? ?]]; try discriminate Ha.
    destruct b as [|b0 [|? ?]]; try discriminate Hb.
    destruct fuel as [|fuel]; [lia|].
    destruct (safe_ad_compare a0 b0 [] [] fuel) as (c & Ec & _).
    unfold cmp_call. rewrite Ec. cbn. exists c. reflexivity. }
  rewrite Es. cbn. rewrite !zlen_eq.
  replace (Z.of_nat (List.length srt) <? 0) with false by (symmetry; apply Z.ltb_ge; lia).
  replace (Z.of_nat (List.length outs) <? 0) with false by (symmetry; apply Z.ltb_ge; lia).
  cbn.
  destruct fuel as [|fuel]; [lia|].
  destruct (safe_ADtest nval srt outs fuel Hexp Hlog) as (code & outs' & Et & Hcode & Hlo);
    try lia.
  { rewrite !zlen_eq in *. lia. }
  rewrite Et. cbn.
  exists code, srt, outs'. repeat split; assumption.
Qed.

(* ---- c_ad_probn, c_ad_probapproxinf, c_ad_probexactinf:
        for(i=0; i<nval; i++) prob[i] = f(.., unifdata[i]) ---- *)

Definition prob_state (extra : list (string * Z)) (nval i : Z) (sf : list (string * T))
           (U P : list T) : state T :=
  {| s_i := ("nval", nval) :: extra ++ [("i", i)];
     s_f := sf; s_ai := [];
     s_af := [("unifdata", U); ("prob", P)] |}.

Definition prob_loop_stmt (cs : stmt) : stmt :=
  SFor (ICmp CLt (IVar "i") (IVar "nval")) (SSetI "i" (IBin IAdd (IVar "i") (IConst 1)))
       (SSeq cs (SStoreF "prob" (IVar "i") (FVar "_t1"))).

Lemma prob_loop (callf : callee T) fuel (cs : stmt) extra nval U P :
  (extra = [] \/ exists ns, extra = [("nsample", ns)]) ->
  (forall i sf P', 0 <= i < nval -> List.length P' = List.length P ->
     exists v, exec N X callf fuel cs (prob_state extra nval i sf U P')
               = Ok (ONormal, set_f (prob_state extra nval i sf U P') "_t1" v)) ->
  nval <= zlen P -> (Z.to_nat nval < fuel)%nat ->
  exists i sf P', List.length P' = List.length P /\
    exec N X callf fuel (prob_loop_stmt cs) (prob_state extra nval 0 [] U P)
    = Ok (ONormal, prob_state extra nval i sf U P').
Proof.
  intros Hextra Hcall HP Hfuel. rewrite zlen_eq in HP.
  set (Inv := fun (ii : nat) (st : state T) =>
         Z.of_nat ii <= Z.max 0 nval /\ exists sf P',
           List.length P' = List.length P /\
           st = prob_state extra nval (Z.of_nat ii) sf U P').
  set (Post := fun (r : outcome T * state T) =>
         exists i sf P', List.length P' = List.length P /\
                         r = (ONormal, prob_state extra nval i sf U P')).
  cbn.
  loop_with Inv Post (Z.to_nat nval).
  - intros ii st (Hii & sf & P' & HP' & ->).
    split; [lia|].
    destruct (Z.ltb_spec (Z.of_nat ii) nval) as [Hlt|Hge].
    + destruct (Hcall (Z.of_nat ii) sf P') as (v & Ev); [lia|exact HP'|].
      destruct (zset_ok_len P' (Z.of_nat ii) v) as (P'' & EP & HP''); [lia|].
      destruct Hextra as [->|(ns & ->)]; unfold prob_state in *; cbn in *.
      all: replace (Z.of_nat ii <? nval) with true by (symmetry; apply Z.ltb_lt; lia); cbn.
      all: rewrite Ev; cbn; unfold get_f; cbn; rewrite alookup_aupd_eq; cbn.
      all: rewrite EP; cbn.
      all: split; [lia|]; exists (aupd "_t1" v sf), P''; split; [lia|].
      all: replace (Z.of_nat ii + 1) with (Z.of_nat (S ii)) by lia; reflexivity.
    + destruct Hextra as [->|(ns & ->)]; unfold prob_state; cbn.
      all: replace (Z.of_nat ii <? nval) with false by (symmetry; apply Z.ltb_ge; lia); cbn.
      all: exists (Z.of_nat ii), sf, P'; split; [exact HP'|reflexivity].
  - split; [lia|]. exists [], P. split; reflexivity.
  - lia.
  - destruct HL as (r & E & i & sf & P' & HP' & ->). exists i, sf, P'. split; assumption.
Qed.

(* no Cython wrapper calls the three c_ad_prob* kernels ("not used at the moment"): the
   contract is the one read off the C text, nval <= len unifdata, nval <= len prob *)
Theorem safe_c_ad_probapproxinf (nval : Z) (U P : list T) (fuel : nat) :
  ext_total "exp" ->
  nval <= zlen U -> nval <= zlen P ->
  (Z.to_nat nval < fuel)%nat -> (0 < fuel)%nat ->
  exists P',
    exec_fun N X program (S fuel) "c_ad_probapproxinf" [AVI nval; AVArrF U; AVArrF P]
    = Ok (RI 0, [VArrF U; VArrF P']) /\ List.length P' = List.length P.
Proof.
  intros Hexp HU HP Hf1 Hf2. cbn.
  destruct (prob_loop (exec_fun N X program fuel) fuel
              (SCall (DF "_t1") "adinf" [(AF (FArr "unifdata" (IVar "i")))]) [] nval U P)
    as (i & sf & P' & HP' & E); try assumption.
  { left; reflexivity. }
  { intros i sf P' Hi HP'. rewrite zlen_eq in HU.
    destruct (zget_ok_ex U i) as (u & Hu); [lia|].
    unfold prob_state. cbn. rewrite Hu. cbn.
    destruct fuel as [|fuel]; [lia|].
    destruct (safe_adinf u fuel Hexp) as (r & Er). rewrite Er. cbn.
    exists r. reflexivity. }
  unfold prob_loop_stmt in E. cbn in E.
  fold_loop_state fuel (prob_state [] nval 0 [] U P).
  rewrite E. unfold prob_state. cbn.
  exists P'. split; [reflexivity|exact HP'].
Qed.

Theorem safe_c_ad_probn (nval nsample : Z) (U P : list T) (fuel : nat) :
  ext_total "exp" ->
  nval <= zlen U -> nval <= zlen P ->
  (Z.to_nat nval < fuel)%nat -> (1 < fuel)%nat ->
  exists P',
    exec_fun N X program (S fuel) "c_ad_probn" [AVI nval; AVI nsample; AVArrF U; AVArrF P]
    = Ok (RI 0, [VArrF U; VArrF P']) /\ List.length P' = List.length P.
Proof.
  intros Hexp HU HP Hf1 Hf2. cbn.
  destruct (prob_loop (exec_fun N X program fuel) fuel
              (SCall (DF "_t1") "AD" [(AI (IVar "nsample")); (AF (FArr "unifdata" (IVar "i")))])
              [("nsample", nsample)] nval U P)
    as (i & sf & P' & HP' & E); try assumption.
  { right; eexists; reflexivity. }
  { intros i sf P' Hi HP'. rewrite zlen_eq in HU.
    destruct (zget_ok_ex U i) as (u & Hu); [lia|].
    unfold prob_state. cbn. rewrite Hu. cbn.
    destruct fuel as [|fuel]; [lia|].
    destruct (safe_AD nsample u fuel Hexp) as (r & Er); [lia|]. rewrite Er. cbn.
    exists r. reflexivity. }
  unfold prob_loop_stmt in E. cbn in E.
  fold_loop_state fuel (prob_state [("nsample", nsample)] nval 0 [] U P).
  rewrite E. unfold prob_state. cbn.
  exists P'. split; [reflexivity|exact HP'].
Qed.

(* ---- ADf, ADinf, c_ad_probexactinf: ADf calls cPhi, which is NOT translated
        (long double): only the executions that do not reach the call are safe in
        this program; the others stop with NoFun "cPhi" (not an undefined behaviour of
        the C code: a gap of the translation) ---- *)

(* t = (4j+1)*(4j+1)*1.23370055013617/z *)
Definition adf_t (z : T) (j : Z) : T :=
  ndiv N (nmul N (nofZ N ((4 * j + 1) * (4 * j + 1)))
                 (nlit X (0x1.3bd3cc9be45dfp+0)%float 123370055013617 100000000000000)) z.

Definition lit_150 : T := nlit X (0x1.2c00000000000p+7)%float 150 1.
Definition lit_001 : T := nlit X (0x1.47ae147ae147bp-7)%float 1 100.
Definition lit_0 : T := nlit X 0%float 0 1.

Lemma safe_ADf_early (z : T) (j : Z) (fuel : nat) :
  nltb N lit_150 (adf_t z j) = true ->
  exec_fun N X program (S fuel) "ADf" [AVF z; AVI j] = Ok (RF lit_0, []).
Proof.
  intros Ht. unfold lit_150, adf_t in Ht. cbn. rewrite Ht. cbn. reflexivity.
Qed.

Lemma unsafe_ADf_cPhi (z : T) (j : Z) (fuel : nat) :
  ext_total "exp" -> (0 < fuel)%nat ->
  nltb N lit_150 (adf_t z j) = false ->
  exec_fun N X program (S fuel) "ADf" [AVF z; AVI j] = Err (NoFun "cPhi").
Proof.
  intros Hexp Hfuel Ht. unfold lit_150, adf_t in Ht. cbn. rewrite Ht. cbn.
  ext_step Hexp. cbn.
  destruct fuel as [|fuel]; [lia|]. cbn. reflexivity.
Qed.

Lemma safe_ADinf_small (z : T) (fuel : nat) :
  nltb N z lit_001 = true ->
  exec_fun N X program (S fuel) "ADinf" [AVF z] = Ok (RF lit_0, []).
Proof.
  intros Hz. unfold lit_001 in Hz. cbn. rewrite Hz. cbn. reflexivity.
Qed.

Lemma unsafe_ADinf_cPhi (z : T) (fuel : nat) :
  ext_total "exp" -> (1 < fuel)%nat ->
  nltb N z lit_001 = false -> nltb N lit_150 (adf_t z 0) = false ->
  exec_fun N X program (S fuel) "ADinf" [AVF z] = Err (NoFun "cPhi").
Proof.
  intros Hexp Hfuel Hz Ht. unfold lit_001 in Hz. cbn. rewrite Hz. cbn.
  destruct fuel as [|fuel]; [lia|].
  rewrite (unsafe_ADf_cPhi z 0 fuel Hexp) by (try lia; exact Ht).
  cbn. reflexivity.
Qed.

(* c_ad_probexactinf is safe when every datum read is below the cut-off 0.01 of ADinf *)
Theorem safe_c_ad_probexactinf_small (nval : Z) (U P : list T) (fuel : nat) :
  (forall i u, 0 <= i < nval -> zget U i = Some u -> nltb N u lit_001 = true) ->
  nval <= zlen U -> nval <= zlen P ->
  (Z.to_nat nval < fuel)%nat -> (0 < fuel)%nat ->
  exists P',
    exec_fun N X program (S fuel) "c_ad_probexactinf" [AVI nval; AVArrF U; AVArrF P]
    = Ok (RI 0, [VArrF U; VArrF P']) /\ List.length P' = List.length P.
Proof.
  intros Hsmall HU HP Hf1 Hf2. cbn.
  destruct (prob_loop (exec_fun N X program fuel) fuel
              (SCall (DF "_t1") "ADinf" [(AF (FArr "unifdata" (IVar "i")))]) [] nval U P)
    as (i & sf & P' & HP' & E); try assumption.
  { left; reflexivity. }
  { intros i sf P' Hi HP'. rewrite zlen_eq in HU.
    destruct (zget_ok_ex U i) as (u & Hu); [lia|].
    unfold prob_state. cbn. rewrite Hu. cbn.
    destruct fuel as [|fuel]; [lia|].
    rewrite (safe_ADinf_small u fuel (Hsmall i u Hi Hu)). cbn.
    eexists. reflexivity. }
  unfold prob_loop_stmt in E. cbn in E.
  fold_loop_state fuel (prob_state [] nval 0 [] U P).
  rewrite E. unfold prob_state. cbn.
  exists P'. split; [reflexivity|exact HP'].
Qed.

(* ... and stops at the untranslated cPhi as soon as the first datum is not *)
Lemma unsafe_c_ad_probexactinf_cPhi (nval : Z) (u : T) (U P : list T) (fuel : nat) :
  ext_total "exp" -> 0 < nval -> (2 < fuel)%nat ->
  nltb N u lit_001 = false -> nltb N lit_150 (adf_t u 0) = false ->
  exec_fun N X program (S fuel) "c_ad_probexactinf" [AVI nval; AVArrF (u :: U); AVArrF P]
  = Err (NoFun "cPhi").
Proof.
  intros Hexp Hn Hfuel Hz Ht. cbn.
  destruct fuel as [|fuel]; [lia|]. cbn -[exec_fun].
  replace (0 <? nval) with true by (symmetry; apply Z.ltb_lt; lia). cbn -[exec_fun].
  rewrite (unsafe_ADinf_cPhi u fuel Hexp) by (try lia; assumption).
  cbn. reflexivity.
Qed.

End Safe.
