(* Proofs about the text of the file (property C09): the header written line by
   line before the body is split again into the same lines by the reader, the
   column line that follows gives the column names back. *)
From Coq Require Import ZArith NArith Bool List String Ascii Lia Permutation.
From Hy Require Import Base.Num Gen.ConstsC09 Model.CsvHeader Proofs.CsvHeaderProofs.
Import ListNotations.
Open Scope string_scope.

(* ------------------------------------------------------------------ *)
(* splitting                                                           *)

Definition lacks (a : ascii) (s : string) : bool := sforall (fun c => negb (Ascii.eqb c a)) s.

Lemma split_on_lacks : forall a s, lacks a s = true -> split_on a s = [s].
Proof.
  induction s; simpl; intros H; [reflexivity|].
  apply andb_true_iff in H as [H1 H2]. apply negb_true_iff in H1. rewrite H1, IHs; auto.
Qed.

Lemma split_on_app : forall a l rest, lacks a l = true ->
  split_on a (l ++ String a rest) = l :: split_on a rest.
Proof.
  induction l; simpl; intros rest H.
  - now rewrite Ascii.eqb_refl.
  - apply andb_true_iff in H as [H1 H2]. apply negb_true_iff in H1. rewrite H1, IHl; auto.
Qed.

Lemma split_lines_split_on : forall s, split_lines s = split_on NL s.
Proof. induction s; simpl; [reflexivity | now rewrite IHs]. Qed.

Lemma no_nl_lacks : forall s, no_nl s = lacks NL s.
Proof. intros. unfold no_nl, contains, lacks. apply negb_involutive. Qed.

Lemma lacks_app : forall a x y, lacks a (x ++ y) = lacks a x && lacks a y.
Proof. intros. unfold lacks. apply sforall_app. Qed.

Lemma no_nl_app : forall x y, no_nl (x ++ y) = no_nl x && no_nl y.
Proof. intros. rewrite !no_nl_lacks. apply lacks_app. Qed.

Lemma nonspace_no_nl : forall s, sforall (fun c => negb (is_space c)) s = true -> no_nl s = true.
Proof.
  intros s H. rewrite no_nl_lacks. unfold lacks. eapply sforall_impl; [|exact H].
  intros c Hc. cbv beta in Hc. destruct (Ascii.eqb c NL) eqn:E; [|reflexivity].
  apply Ascii.eqb_eq in E. subst c. discriminate.
Qed.

Lemma starts_hash_app : forall p x, p <> "" -> starts_hash (p ++ x) = starts_hash p.
Proof. destruct p; intros; [congruence | reflexivity]. Qed.

(* ------------------------------------------------------------------ *)
(* the reader's loop on the written text                                *)

Definition line_ok (l : string) : Prop := no_nl l = true /\ starts_hash l = true.

Lemma head_text_cons : forall l t rest,
  head_text (l :: t) ++ rest = l ++ String NL (head_text t ++ rest).
Proof. intros. simpl. now rewrite app_assoc_s. Qed.

Lemma read_header_head_text : forall head rest,
  Forall line_ok head ->
  read_header (head_text head ++ rest) =
    ((map strip_hash head ++ fst (read_header rest))%list, snd (read_header rest)).
Proof.
  induction head as [|l t IH]; intros rest H.
  - simpl. now destruct (read_header rest).
  - inversion H as [|? ? [Hn Hh] Ht]; subst. rewrite head_text_cons.
    unfold read_header in *. rewrite split_lines_split_on in *.
    rewrite split_on_app by (now rewrite <- no_nl_lacks).
    simpl span_header. rewrite Hh. specialize (IH rest Ht).
    rewrite split_lines_split_on in IH.
    destruct (span_header (split_on NL (head_text t ++ rest))) as [h c].
    inversion IH; subst. reflexivity.
Qed.

Lemma read_header_colline : forall colline body,
  no_nl colline = true -> starts_hash colline = false ->
  read_header (colline ++ String NL body) = ([], colline).
Proof.
  intros colline body Hn Hh. unfold read_header. rewrite split_lines_split_on.
  rewrite split_on_app by (now rewrite <- no_nl_lacks). simpl. now rewrite Hh.
Qed.

(* the written text, read again: the stripped header lines and the column line *)
Theorem text_roundtrip : forall head colline body,
  Forall line_ok head -> no_nl colline = true -> starts_hash colline = false ->
  read_header (head_text head ++ colline ++ String NL body) = (map strip_hash head, colline).
Proof.
  intros. rewrite read_header_head_text by assumption.
  rewrite read_header_colline by assumption. simpl. now rewrite app_nil_r.
Qed.

(* ------------------------------------------------------------------ *)
(* every line _csvhead writes is a single '#' line                      *)

(* the strings the environment supplies *)
Definition env_strings (time author : string) (e : envinfo) : list string :=
  time :: author ::
  match e with
  | WithSys s => s_source s :: s_workdir s :: s_osname s :: s_python s :: s_pandas s :: s_numpy s ::
                 match s_distutils s with Some (a, b) => [a; b] | None => [] end
  | NoSys n => [n]
  end.

Lemma prefixed_line_ok : forall p x, p <> "" -> line_ok p -> no_nl x = true -> line_ok (p ++ x).
Proof.
  intros p x Hp [H1 H2] Hx. split.
  - now rewrite no_nl_app, H1, Hx.
  - now rewrite starts_hash_app.
Qed.

Lemma comment_line_ok : forall k v, no_nl k = true -> no_nl v = true -> line_ok (comment_line (k, v)).
Proof.
  intros k v Hk Hv. unfold comment_line. simpl fst. simpl snd. split.
  - rewrite !no_nl_app, Hk, Hv. reflexivity.
  - reflexivity.
Qed.

Ltac fl P Q := repeat (apply Forall_cons); try apply Forall_nil;
                 apply P; try discriminate; try (apply Q; reflexivity); simpl; tauto.

Lemma gen_lines_ok : forall time author e,
  Forall (fun s => no_nl s = true) (env_strings time author e) ->
  Forall line_ok (gen_lines time author e).
Proof.
  intros time author e H. rewrite Forall_forall in H.
  assert (P : forall p x, p <> "" -> line_ok p -> In x (env_strings time author e) -> line_ok (p ++ x)).
  { intros. apply prefixed_line_ok; auto. }
  assert (Q : forall p, no_nl p = true -> starts_hash p = true -> line_ok p) by (intros; split; auto).
  unfold gen_lines. apply Forall_app. split.
  - fl P Q.
  - destruct e as [s | n]; simpl env_strings in P.
    + apply Forall_app. split.
      * fl P Q.
      * unfold env_strings in P. destruct (s_distutils s) as [[a b]|]; [fl P Q | apply Forall_nil].
    + fl P Q.
Qed.

Lemma csvhead_lines_ok : forall nrow ncol (d : dict) time author e,
  NoDup (map fst d) -> Forall okpair d ->
  Forall (fun s => no_nl s = true) (env_strings time author e) ->
  Forall line_ok (csvhead nrow ncol (CDict d) (gen_lines time author e)).
Proof.
  intros nrow ncol d time author e Hnd Hok Henv. rewrite csvhead_shape.
  assert (HF : Forall (fun kv => keyfacts (fst kv)) d).
  { eapply Forall_impl; [|exact Hok]. intros kv [H _]. now apply okkey_facts. }
  rewrite comments_of_dict_id by assumption.
  assert (R : line_ok HEAD_RULE) by (split; vm_compute; reflexivity).
  constructor; [exact R|]. apply Forall_app. split; [|apply Forall_app; split].
  - rewrite Forall_map. constructor; [|constructor].
    + apply comment_line_ok; [reflexivity|]. destruct (okval_facts _ (dec_N_okval nrow)) as (_ & _ & H). exact H.
    + apply comment_line_ok; [reflexivity|]. destruct (okval_facts _ (dec_N_okval ncol)) as (_ & _ & H). exact H.
    + eapply Permutation_Forall; [apply Permutation_sym, sort_kv_perm|].
      eapply Forall_impl; [|exact Hok]. intros [k v] [H1 H2]. simpl in *.
      apply comment_line_ok.
      * apply nonspace_no_nl. apply (kf_nospace _ (okkey_facts _ H1)).
      * destruct (okval_facts _ H2) as (_ & _ & H). exact H.
  - now apply gen_lines_ok.
  - constructor; [exact R | constructor].
Qed.

(* from the dictionary given to write_csv to the dictionary read_csv returns,
   through the text of the file *)
Theorem file_comments_roundtrip : forall nrow ncol (d : dict) time author e colline body,
  NoDup (map fst d) -> Forall okpair d -> env_ok e ->
  Forall (fun s => no_nl s = true) (env_strings time author e) ->
  no_nl colline = true -> starts_hash colline = false ->
  let txt := head_text (csvhead nrow ncol (CDict d) (gen_lines time author e))
             ++ colline ++ String NL body in
  lookup "nrow" (read_comment txt) = Some (dec_N nrow) /\
  lookup "ncol" (read_comment txt) = Some (dec_N ncol) /\
  (forall k v, In (k, v) d -> lookup k (read_comment txt) = Some v) /\
  read_colnames txt = colnames colline.
Proof.
  intros nrow ncol d time author e colline body Hnd Hok He Henv Hc1 Hc2 txt.
  assert (Hr : read_header txt =
               (map strip_hash (csvhead nrow ncol (CDict d) (gen_lines time author e)), colline)).
  { unfold txt. apply text_roundtrip; auto. now apply csvhead_lines_ok. }
  unfold read_comment, read_colnames. rewrite Hr. simpl fst. simpl snd.
  destruct (comments_roundtrip nrow ncol d time author e Hnd Hok He) as (H1 & H2 & H3).
  repeat split; auto.
Qed.

(* ------------------------------------------------------------------ *)
(* column names                                                        *)

(* a column name as the reader can return it: not empty, no comma, no dot, single line *)
Definition colname_ok (n : string) : bool :=
  negb (is_empty n) && lacks "," n && lacks "." n && lacks NL n.

Lemma ends_nonspace_app : forall a b, b <> "" -> ends_nonspace (a ++ b) = ends_nonspace b.
Proof.
  induction a as [|c a IH]; intros b Hb; [reflexivity|].
  simpl. destruct (a ++ b) eqn:E.
  - destruct a; destruct b; simpl in E; try discriminate; congruence.
  - rewrite <- E. now apply IH.
Qed.

Lemma starts_nonspace_app : forall a b, a <> "" -> starts_nonspace (a ++ b) = starts_nonspace a.
Proof. destruct a; intros; [congruence | reflexivity]. Qed.

Lemma smap_id : forall f s, sforall (fun c => Ascii.eqb (f c) c) s = true -> smap f s = s.
Proof.
  induction s; simpl; intros H; [reflexivity|].
  apply andb_true_iff in H as [H1 H2]. apply Ascii.eqb_eq in H1. rewrite H1. f_equal. auto.
Qed.

Lemma dots_id : forall n, lacks "." n = true -> dots_to_underscores n = n.
Proof.
  intros n H. unfold dots_to_underscores. apply smap_id. eapply sforall_impl; [|exact H].
  intros c Hc. cbv beta in Hc. apply negb_true_iff in Hc. rewrite Hc. apply Ascii.eqb_refl.
Qed.

Lemma split_join : forall names, names <> [] ->
  Forall (fun n => lacks "," n = true) names ->
  split_on "," (join_with "," names) = names.
Proof.
  induction names as [|x r IH]; intros Hne H; [congruence|].
  inversion H as [|? ? Hx Hr]; subst.
  destruct r as [|y r'].
  - simpl. now apply split_on_lacks.
  - change (join_with "," (x :: y :: r')) with (x ++ String "," (join_with "," (y :: r'))).
    rewrite split_on_app by assumption. f_equal. apply IH; [discriminate | assumption].
Qed.

Lemma ends_nonspace_cons : forall c r, r <> "" -> ends_nonspace (String c r) = ends_nonspace r.
Proof. intros c r H. destruct r; [congruence | reflexivity]. Qed.

Lemma app_nonempty_r : forall a b : string, b <> "" -> a ++ b <> "".
Proof. intros a b H. destruct a; simpl; [exact H | discriminate]. Qed.

Lemma join_nonempty : forall names, last names "" <> "" -> join_with "," names <> "".
Proof.
  induction names as [|x r IH]; intros Hl; [simpl in Hl; congruence|].
  destruct r as [|y r'].
  - exact Hl.
  - change (join_with "," (x :: y :: r')) with (x ++ String "," (join_with "," (y :: r'))).
    apply app_nonempty_r. discriminate.
Qed.

Lemma join_ends : forall names, names <> [] -> last names "" <> "" ->
  ends_nonspace (join_with "," names) = ends_nonspace (last names "").
Proof.
  induction names as [|x r IH]; intros Hne Hl; [congruence|].
  destruct r as [|y r'].
  - reflexivity.
  - change (join_with "," (x :: y :: r')) with (x ++ String "," (join_with "," (y :: r'))).
    change (last (x :: y :: r') "") with (last (y :: r') "") in *.
    rewrite ends_nonspace_app by discriminate.
    rewrite ends_nonspace_cons by (now apply join_nonempty).
    apply IH; [discriminate | assumption].
Qed.

Lemma join_starts : forall x r, x <> "" ->
  starts_nonspace (join_with "," (x :: r)) = starts_nonspace x.
Proof.
  intros x r Hx. destruct r; [reflexivity|].
  change (join_with "," (x :: s :: r)) with (x ++ String "," (join_with "," (s :: r))).
  now apply starts_nonspace_app.
Qed.

Theorem colnames_roundtrip : forall names,
  names <> [] -> Forall (fun n => colname_ok n = true) names ->
  starts_nonspace (hd "" names) = true ->    (* no blank in front of the first name *)
  ends_nonspace (last names "") = true ->     (* no blank after the last name *)
  colnames (join_with "," names) = names.
Proof.
  intros names Hne Hok Hs He. unfold colnames.
  assert (Hc : forall n, In n names -> n <> "" /\ lacks "," n = true /\ lacks "." n = true).
  { intros n Hin. rewrite Forall_forall in Hok. specialize (Hok _ Hin). unfold colname_ok in Hok.
    repeat (apply andb_true_iff in Hok; destruct Hok as [Hok ?]).
    apply negb_true_iff, is_empty_false in Hok. auto. }
  rewrite py_strip_id.
  - rewrite split_join; auto.
    + rewrite <- (map_id names) at 2. apply map_ext_in. intros n Hin. apply dots_id. now apply Hc.
    + rewrite Forall_forall. intros n Hin. now apply Hc.
  - destruct names as [|x r]; [congruence|]. rewrite join_starts; [exact Hs|].
    apply (Hc x). now left.
  - rewrite join_ends; auto. now apply ends_nonspace_nonempty.
Qed.

(* the outer blanks are lost: the statement without the two hypotheses is false *)
Lemma colnames_blank_refuted :
  colnames (join_with "," [" a"; "b "]) = ["a"; "b"] /\
  Forall (fun n => colname_ok n = true) [" a"; "b "].
Proof. split; [vm_compute; reflexivity | repeat constructor]. Qed.

(* file level: the names written on the column line come back *)
Theorem file_colnames_roundtrip : forall head names body,
  Forall line_ok head ->
  names <> [] -> Forall (fun n => colname_ok n = true) names ->
  starts_nonspace (hd "" names) = true -> ends_nonspace (last names "") = true ->
  starts_hash (hd "" names) = false ->
  read_colnames (head_text head ++ join_with "," names ++ String NL body) = names.
Proof.
  intros head names body Hh Hne Hok Hs He Hhash. unfold read_colnames.
  rewrite text_roundtrip; auto.
  - simpl snd. now apply colnames_roundtrip.
  - (* the column line is a single line *)
    clear -Hok. rewrite no_nl_lacks. induction names as [|x r IH]; [reflexivity|].
    inversion Hok as [|? ? Hx Hr]; subst.
    assert (Lx : lacks NL x = true).
    { unfold colname_ok in Hx. now apply andb_true_iff in Hx as [_ Hx]. }
    destruct r as [|y r']; [exact Lx|].
    change (join_with "," (x :: y :: r')) with (x ++ String "," (join_with "," (y :: r'))).
    rewrite lacks_app, Lx. simpl. now apply IH.
  - destruct names as [|x r]; [congruence|]. simpl hd in *.
    assert (Hx : x <> "").
    { inversion Hok as [|? ? H0 _]; subst. unfold colname_ok in H0.
      repeat (apply andb_true_iff in H0; destruct H0 as [H0 ?]).
      now apply negb_true_iff, is_empty_false in H0. }
    destruct r; [exact Hhash|].
    change (join_with "," (x :: s :: r)) with (x ++ String "," (join_with "," (s :: r))).
    now rewrite starts_hash_app.
Qed.
