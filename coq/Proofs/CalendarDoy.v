(* The two calendar tables of c_dateutils.c agree with each other and with the day
   stepping kernel.

   [DAYS_IN_MONTH] is regenerated from the C source on every run (Gen/ConstsC08.v);
   [ChkData.day_of_year] is the function the regenerated AST of c_dateutils_dayofyear
   is proved to compute (ChkData.chk_safe_c_dateutils_dayofyear); [c_add1day] is the
   function the regenerated AST of c_dateutils_add1day is proved to compute
   (ChkData.chk_safe_c_dateutils_add1day).  The theorems below say that

     - day_of_year[] is the running sum of days_in_month[]          (doy_is_prefix_sum)
     - the day of the year of a valid date lies in 1..365             (doy_range)
     - within a non-leap year add1day advances the day of the year by exactly one,
       and from day 365 it goes to 1 January of the next year        (add1day_doy)
     - in a leap year the same holds for the leap-corrected day of the year
       (add1day_doy_leap), so that n steps from 1 January reach day n+1
       (days_from_jan1_doy)

   so an edit of either table, of the leap rule or of the roll-over tests in add1day
   that survives the tests breaks one of them (besides the refinement proofs). *)
From Coq Require Import ZArith Bool List Lia.
From Hy Require Import Base.Num Gen.ConstsC08 Model.Dutils Proofs.DutilsCalProofs Proofs.ChkData.
Import ListNotations.
Open Scope Z_scope.

#[local] Arguments is_leap : simpl never.
#[local] Arguments days_in_month : simpl never.

(* look a closed index up in a table *)
Ltac tab := repeat match goal with
  | |- context [nth (Z.to_nat ?k) ?T 0] =>
      let v := eval vm_compute in (nth (Z.to_nat k) T 0) in change (nth (Z.to_nat k) T 0) with v
  | H : context [nth (Z.to_nat ?k) ?T 0] |- _ =>
      let v := eval vm_compute in (nth (Z.to_nat k) T 0) in change (nth (Z.to_nat k) T 0) with v in H
  end.
Ltac month_case y := tab; cbn in *; destruct (is_leap y); cbn in *; lia.

(* sum of days_in_month[1..m-1] of a non-leap year *)
Fixpoint prefix_days (k : nat) : Z :=
  match k with
  | O => 0
  | S k' => prefix_days k' + nth k DAYS_IN_MONTH 0
  end.

Theorem doy_is_prefix_sum (m : nat) :
  (1 <= m <= 12)%nat -> nth m DAY_OF_YEAR 0 = prefix_days (m - 1).
Proof.
  intros H.
  assert (Hc : (m = 1 \/ m = 2 \/ m = 3 \/ m = 4 \/ m = 5 \/ m = 6 \/ m = 7 \/ m = 8 \/
               m = 9 \/ m = 10 \/ m = 11 \/ m = 12)%nat) by lia.
  repeat (destruct Hc as [Hc|Hc]; [subst m; vm_compute; reflexivity|]).
  subst m; vm_compute; reflexivity.
Qed.

(* the whole non-leap year: 365 days *)
Theorem prefix_days_year : prefix_days 12 = 365.
Proof. vm_compute. reflexivity. Qed.

Definition valid_date (y m d : Z) : Prop := 1 <= m <= 12 /\ 1 <= d <= days_in_month y m.

(* leap-corrected day of the year *)
Definition doy (y m d : Z) : Z :=
  day_of_year m d + (if is_leap y && (2 <? m) then 1 else 0).

Lemma month_cases' m : 1 <= m <= 12 ->
  m = 1 \/ m = 2 \/ m = 3 \/ m = 4 \/ m = 5 \/ m = 6 \/ m = 7 \/ m = 8 \/ m = 9 \/ m = 10 \/ m = 11 \/ m = 12.
Proof. lia. Qed.

Lemma dim_closed y m : 1 <= m <= 12 ->
  days_in_month y m = nth (Z.to_nat m) DAYS_IN_MONTH 0 + (if is_leap y && (m =? 2) then 1 else 0).
Proof.
  intros Hm. unfold days_in_month.
  replace ((m <? 1) || (12 <? m)) with false
    by (symmetry; apply orb_false_iff; split; apply Z.ltb_ge; lia).
  destruct (is_leap y && (m =? 2)); lia.
Qed.

Lemma doy_closed m d : 1 <= m <= 12 -> 1 <= d <= 31 ->
  day_of_year m d = nth (Z.to_nat m) DAY_OF_YEAR 0 + d.
Proof.
  intros Hm Hd. unfold day_of_year.
  replace ((m <? 1) || (12 <? m)) with false
    by (symmetry; apply orb_false_iff; split; apply Z.ltb_ge; lia).
  replace ((d <? 1) || (31 <? d)) with false
    by (symmetry; apply orb_false_iff; split; apply Z.ltb_ge; lia).
  reflexivity.
Qed.

Lemma valid_date_day y m d : valid_date y m d -> 1 <= d <= 31.
Proof.
  intros [Hm Hd]. pose proof (days_in_month_bounds y m Hm). lia.
Qed.

Theorem doy_range y m d : valid_date y m d ->
  1 <= day_of_year m d <= 365 /\ 1 <= doy y m d <= (if is_leap y then 366 else 365).
Proof.
  intros Hv. pose proof (valid_date_day _ _ _ Hv) as Hd31. destruct Hv as [Hm Hd].
  unfold doy. rewrite (doy_closed m d Hm Hd31). rewrite (dim_closed y m Hm) in Hd.
  apply month_cases' in Hm.
  repeat (destruct Hm as [Hm|Hm]; [subst m; month_case y|]).
  subst m; month_case y.
Qed.

(* one step of the kernel: the next date is valid and the (leap-corrected) day of the
   year advances by one, or the year rolls over from its last day to 1 January *)
Theorem add1day_doy_leap y m d : valid_date y m d ->
  exists y' m' d', c_add1day (y, m, d) = Some (y', m', d') /\ valid_date y' m' d' /\
    ((y' = y /\ doy y m' d' = doy y m d + 1) \/
     (y' = y + 1 /\ m' = 1 /\ d' = 1 /\ doy y m d = (if is_leap y then 366 else 365))).
Proof.
  intros Hv. pose proof (valid_date_day _ _ _ Hv) as Hd31. destruct Hv as [Hm Hd].
  unfold c_add1day.
  pose proof (days_in_month_bounds y m Hm) as Hb.
  destruct (days_in_month y m <? 0) eqn:Hneg; [apply Z.ltb_lt in Hneg; lia|].
  destruct (d <? days_in_month y m) eqn:Hlt.
  - apply Z.ltb_lt in Hlt. exists y, m, (d + 1). split; [reflexivity|].
    split; [split; lia|]. left. split; [reflexivity|].
    unfold doy. rewrite !doy_closed by lia. lia.
  - apply Z.ltb_ge in Hlt. assert (Hdeq : d = days_in_month y m) by lia.
    replace (d =? days_in_month y m) with true by (symmetry; apply Z.eqb_eq; exact Hdeq).
    destruct (m <? 12) eqn:Hm12.
    + apply Z.ltb_lt in Hm12. exists y, (m + 1), 1. split; [reflexivity|].
      assert (Hm1 : 1 <= m + 1 <= 12) by lia.
      pose proof (days_in_month_bounds y (m + 1) Hm1) as Hb1.
      split; [split; lia|]. left. split; [reflexivity|].
      unfold doy. rewrite !doy_closed by lia. rewrite (dim_closed y m Hm) in Hdeq.
      assert (Hc : m = 1 \/ m = 2 \/ m = 3 \/ m = 4 \/ m = 5 \/ m = 6 \/ m = 7 \/ m = 8 \/
                   m = 9 \/ m = 10 \/ m = 11) by lia.
      repeat (destruct Hc as [Hc|Hc]; [subst m d; month_case y|]).
      subst m d; month_case y.
    + apply Z.ltb_ge in Hm12. assert (m = 12) by lia. subst m.
      exists (y + 1), 1, 1. split; [reflexivity|].
      split; [split; [lia|]; rewrite days_in_month_jan; lia|].
      right. repeat split; try reflexivity.
      unfold doy. rewrite doy_closed by lia. rewrite (dim_closed y 12) in Hdeq by lia.
      subst d. month_case y.
Qed.

(* the non-leap reading, on the kernel's own (uncorrected) day of the year *)
Theorem add1day_doy y m d : is_leap y = false -> valid_date y m d ->
  exists y' m' d', c_add1day (y, m, d) = Some (y', m', d') /\
    ((y' = y /\ day_of_year m' d' = day_of_year m d + 1) \/
     (y' = y + 1 /\ m' = 1 /\ d' = 1 /\ day_of_year m d = 365)).
Proof.
  intros Hl Hv. destruct (add1day_doy_leap y m d Hv) as (y' & m' & d' & He & _ & H).
  exists y', m', d'. split; [exact He|]. unfold doy in H. rewrite Hl in H. cbn in H.
  destruct H as [[H1 H2]|(H1 & H2 & H3 & H4)]; [left|right]; repeat split; try assumption; lia.
Qed.

(* n steps from 1 January stay inside the year as long as n < its length, and land on
   the date whose (leap-corrected) day of the year is n + 1 *)
Fixpoint add_days (n : nat) (dt : Z * Z * Z) : option (Z * Z * Z) :=
  match n with
  | O => Some dt
  | S n' => match add_days n' dt with Some dt' => c_add1day dt' | None => None end
  end.

Theorem days_from_jan1_doy y (n : nat) :
  Z.of_nat n < (if is_leap y then 366 else 365) ->
  exists m d, add_days n (y, 1, 1) = Some (y, m, d) /\ valid_date y m d /\
              doy y m d = Z.of_nat n + 1.
Proof.
  induction n as [|n IH]; intros Hn.
  - exists 1, 1. split; [reflexivity|]. split.
    + split; [lia|]. rewrite days_in_month_jan. lia.
    + unfold doy. cbn. rewrite andb_false_r. reflexivity.
  - destruct IH as (m & d & He & Hv & Hd); [lia|].
    cbn [add_days]. rewrite He.
    destruct (add1day_doy_leap y m d Hv) as (y' & m' & d' & Hs & Hv' & H).
    destruct H as [[H1 H2]|(H1 & H2 & H3 & H4)].
    + subst y'. exists m', d'. split; [exact Hs|]. split; [exact Hv'|]. lia.
    + exfalso. destruct (is_leap y); lia.
Qed.

(* and the step after the last day of the year is 1 January of the next one *)
Theorem year_has_its_length y :
  add_days (Z.to_nat (if is_leap y then 366 else 365)) (y, 1, 1) = Some (y + 1, 1, 1).
Proof.
  set (L := if is_leap y then 366 else 365).
  assert (HL : L = 365 \/ L = 366) by (unfold L; destruct (is_leap y); lia).
  assert (Hn : Z.to_nat L = S (Z.to_nat (L - 1))) by lia.
  rewrite Hn. cbn [add_days].
  destruct (days_from_jan1_doy y (Z.to_nat (L - 1))) as (m & d & He & Hv & Hd).
  { fold L. lia. }
  rewrite He.
  destruct (add1day_doy_leap y m d Hv) as (y' & m' & d' & Hs & Hv' & H).
  destruct H as [[H1 H2]|(H1 & H2 & H3 & H4)].
  - exfalso. pose proof (doy_range y m' d') as Hr. subst y'. specialize (Hr Hv').
    fold L in Hr. lia.
  - subst. exact Hs.
Qed.

(* non-vacuity: the hypotheses are met, and the statements are about real dates *)
Example ex_valid : valid_date 2024 2 29 /\ valid_date 2023 12 31 /\ ~ valid_date 2023 2 29.
Proof.
  unfold valid_date. repeat split; try (vm_compute; discriminate).
  intros [_ [_ H]]. vm_compute in H. apply H. reflexivity.
Qed.

Example ex_steps :
  add_days 59 (2024, 1, 1) = Some (2024, 2, 29) /\
  add_days 59 (2023, 1, 1) = Some (2023, 3, 1) /\
  add_days 365 (2023, 1, 1) = Some (2024, 1, 1) /\
  add_days 365 (2024, 1, 1) = Some (2024, 12, 31).
Proof. vm_compute. repeat split. Qed.
