(* Refinement: the MiniC program regenerated from src/hydrodiy/stat/c_dscore.c
   (Gen/KernelsAst.v: c_ensrank and its qsort comparator "c_dscore.compare") computes, for
   ALL inputs, what the hand-written model of Model/Dscore.v computes.

   Main statements (end of the file):
     compare_run                  the comparator
     refine_c_ensrank_qsort       c_ensrank = [ensrank_s qs]: the model [ensrank] in which the
                                  sort is glibc's merge sort ([qs]); every input, generic N X K
     refine_c_ensrank             c_ensrank = [ensrank] (Model/Dscore.v, stable insertion sort)
                                  when the two sorts agree on the pooled arrays ([pairs_agree];
                                  [pairs_preorder_agree]: compare() a total preorder suffices)
     refine_c_ensrank_*_RR / _RN  the same without hypotheses on the arithmetic
     ensrank_model_differs        FINDING: an input on which model and kernel differ *)
From Coq Require Import ZArith Bool List String Lia PrimFloat.
From Hy Require Import Base.Num Base.MiniC Gen.Consts Gen.ConstsC10 Gen.KernelsAst Model.Dscore.
Import ListNotations.
Open Scope string_scope.
Open Scope list_scope.
Open Scope Z_scope.

(* ------------------------------------------------------------------ *)
(* part 1 *)

(* ================================================================== *)
(* Generic helpers (candidates for Base/MiniC.v)                        *)
(* ================================================================== *)

(* ---- qsort: glibc's merge sort as a pure function ---- *)

Section PureSort.
Context {A : Type} (le : A -> A -> bool).

(* the merge of msort_with_tmp: the left element is taken when cmp <= 0 *)
Fixpoint gmerge (l1 : list A) : list A -> list A :=
  match l1 with
  | [] => fun l2 => l2
  | x :: r1 =>
      fix aux (l2 : list A) : list A :=
        match l2 with
        | [] => x :: r1
        | y :: r2 => if le x y then x :: gmerge r1 l2 else y :: aux r2
        end
  end.

Lemma gmerge_nil_r l : gmerge l [] = l.
Proof. destruct l; reflexivity. Qed.

Lemma gmerge_cons x r1 y r2 :
  gmerge (x :: r1) (y :: r2) =
  if le x y then x :: gmerge r1 (y :: r2) else y :: gmerge (x :: r1) r2.
Proof. reflexivity. Qed.

Lemma gmerge_length l1 : forall l2,
  List.length (gmerge l1 l2) = (List.length l1 + List.length l2)%nat.
Proof.
  induction l1 as [|x r1 IH1]; intros l2; [reflexivity|].
  induction l2 as [|y r2 IH2]; [cbn; lia|].
  rewrite gmerge_cons. destruct (le x y); cbn [List.length].
  - rewrite IH1. cbn [List.length]. lia.
  - rewrite IH2. cbn [List.length]. lia.
Qed.

(* same recursion (and same fuel) as [msortM] *)
Fixpoint gsort (fuel : nat) (l : list A) : list A :=
  match fuel with
  | O => l
  | S f =>
      let n := List.length l in
      if Nat.leb n 1 then l
      else let n1 := Nat.div2 n in
           gmerge (gsort f (firstn n1 l)) (gsort f (skipn n1 l))
  end.

Lemma gsort_length fuel : forall l, List.length (gsort fuel l) = List.length l.
Proof.
  induction fuel as [|f IH]; intros l; [reflexivity|].
  cbn [gsort]. destruct (Nat.leb (List.length l) 1); [reflexivity|].
  rewrite gmerge_length, !IH, <- app_length, firstn_skipn. reflexivity.
Qed.

Lemma gmerge_Forall (P : A -> Prop) l1 : forall l2,
  Forall P l1 -> Forall P l2 -> Forall P (gmerge l1 l2).
Proof.
  induction l1 as [|x r1 IH1]; intros l2 F1 F2; [exact F2|].
  induction l2 as [|y r2 IH2]; [exact F1|].
  rewrite gmerge_cons. inversion F1; subst. inversion F2; subst.
  destruct (le x y); constructor; try assumption.
  - apply IH1; assumption.
  - apply IH2; assumption.
Qed.

Lemma gsort_Forall (P : A -> Prop) fuel : forall l, Forall P l -> Forall P (gsort fuel l).
Proof.
  induction fuel as [|f IH]; intros l F; [exact F|].
  cbn [gsort]. destruct (Nat.leb (List.length l) 1); [exact F|].
  apply gmerge_Forall; apply IH.
  - rewrite <- (firstn_skipn (Nat.div2 (List.length l)) l) in F.
    apply Forall_app in F. apply F.
  - rewrite <- (firstn_skipn (Nat.div2 (List.length l)) l) in F.
    apply Forall_app in F. apply F.
Qed.

(* what qsort does to an array of [length l] items *)
Definition glibc_sort (l : list A) : list A := gsort (S (List.length l)) l.

End PureSort.

Lemma div2_halves n : (2 <= n)%nat -> (1 <= Nat.div2 n /\ Nat.div2 n < n)%nat.
Proof.
  intros H. split.
  - destruct n as [|[|n]]; try lia. cbn. lia.
  - apply Nat.lt_div2. lia.
Qed.

Section SortM.
Context {A B : Type} (le : A -> A -> bool) (f : A -> B) (cmp : B -> B -> result Z).
Hypothesis cmp_le : forall a b, exists c, cmp (f a) (f b) = Ok c /\ (c <=? 0) = le a b.

Lemma mergeM_map : forall fuel l1 l2,
  (List.length l1 + List.length l2 < fuel)%nat ->
  mergeM cmp fuel (map f l1) (map f l2) = Ok (map f (gmerge le l1 l2)).
Proof.
  induction fuel as [|fu IH]; intros l1 l2 H; [lia|].
  destruct l1 as [|x r1]; [reflexivity|].
  destruct l2 as [|y r2]; [reflexivity|].
  rewrite gmerge_cons. cbn [map mergeM].
  destruct (cmp_le x y) as (c & -> & Hc). cbn [bind]. rewrite Hc.
  cbn [List.length] in H.
  destruct (le x y).
  - change (f y :: map f r2) with (map f (y :: r2)).
    rewrite IH by (cbn [List.length]; lia). reflexivity.
  - change (f x :: map f r1) with (map f (x :: r1)).
    rewrite IH by (cbn [List.length]; lia). reflexivity.
Qed.

Lemma msortM_map : forall fuel l,
  (List.length l < fuel)%nat ->
  msortM cmp fuel (map f l) = Ok (map f (gsort le fuel l)).
Proof.
  induction fuel as [|fu IH]; intros l H; [lia|].
  cbn [msortM gsort]. rewrite map_length.
  destruct (Nat.leb_spec (List.length l) 1) as [Hle|Hgt]; [reflexivity|].
  destruct (div2_halves (List.length l)) as [H1 H2]; [lia|].
  rewrite firstn_map, skipn_map.
  rewrite IH by (rewrite firstn_length; lia).
  rewrite IH by (rewrite skipn_length; lia).
  cbn [bind].
  apply mergeM_map.
  rewrite !gsort_length, <- app_length, firstn_skipn. lia.
Qed.

End SortM.

(* ---- a stable merge sort and the stable insertion sort agree when the
        comparison is a total preorder on the data ---- *)

Section SortEq.
Context {A : Type} (le : A -> A -> bool) (P : A -> Prop).
Hypothesis le_total : forall a b, P a -> P b -> le a b = true \/ le b a = true.
Hypothesis le_trans : forall a b c, P a -> P b -> P c ->
  le a b = true -> le b c = true -> le a c = true.

Lemma insert_gmerge_nil x : forall l2, gmerge le [x] l2 = insert_by le x l2.
Proof.
  induction l2 as [|y r2 IH]; [reflexivity|].
  rewrite gmerge_cons. cbn [insert_by]. destruct (le x y); [reflexivity|].
  rewrite IH. reflexivity.
Qed.

Lemma insert_gmerge x : P x -> forall l1 l2, Forall P l1 -> Forall P l2 ->
  insert_by le x (gmerge le l1 l2) = gmerge le (insert_by le x l1) l2.
Proof.
  intros Px. induction l1 as [|a r1 IH1]; intros l2 F1 F2.
  - cbn [gmerge insert_by]. symmetry. apply insert_gmerge_nil.
  - induction l2 as [|b r2 IH2].
    + rewrite !gmerge_nil_r. reflexivity.
    + assert (Pa : P a) by (inversion F1; assumption).
      assert (Pb : P b) by (inversion F2; assumption).
      assert (F1' : Forall P r1) by (inversion F1; assumption).
      assert (F2' : Forall P r2) by (inversion F2; assumption).
      rewrite gmerge_cons. cbn [insert_by].
      destruct (le a b) eqn:Hab; cbn [insert_by]; destruct (le x a) eqn:Hxa.
      * rewrite gmerge_cons.
        rewrite (le_trans x a b Px Pa Pb Hxa Hab).
        rewrite gmerge_cons, Hab. reflexivity.
      * rewrite gmerge_cons, Hab. rewrite IH1 by assumption. reflexivity.
      * rewrite gmerge_cons. destruct (le x b) eqn:Hxb.
        -- rewrite gmerge_cons, Hab. reflexivity.
        -- rewrite IH2 by assumption. cbn [insert_by]. rewrite Hxa. reflexivity.
      * assert (Hxb : le x b = false).
        { destruct (le x b) eqn:Hxb; [|reflexivity].
          destruct (le_total a b Pa Pb) as [H|H]; [congruence|].
          rewrite (le_trans x b a Px Pb Pa Hxb H) in Hxa. discriminate. }
        rewrite Hxb, gmerge_cons, Hab.
        rewrite IH2 by assumption. cbn [insert_by]. rewrite Hxa. reflexivity.
Qed.

Lemma insert_by_Forall x l : P x -> Forall P l -> Forall P (insert_by le x l).
Proof.
  intros Px. induction l as [|y r IH]; intros F; cbn [insert_by].
  - constructor; [exact Px|constructor].
  - destruct (le x y); [constructor; assumption|].
    inversion F; subst. constructor; [assumption|]. apply IH. assumption.
Qed.

Lemma isort_by_Forall l : Forall P l -> Forall P (isort_by le l).
Proof.
  induction l as [|x l IH]; intros F; [constructor|].
  inversion F; subst. unfold isort_by. cbn [fold_right].
  apply insert_by_Forall; [assumption|]. apply IH. assumption.
Qed.

Lemma isort_app l1 : forall l2, Forall P l1 -> Forall P l2 ->
  isort_by le (l1 ++ l2) = gmerge le (isort_by le l1) (isort_by le l2).
Proof.
  induction l1 as [|x l1 IH]; intros l2 F1 F2; [reflexivity|].
  inversion F1; subst.
  change (isort_by le ((x :: l1) ++ l2)) with (insert_by le x (isort_by le (l1 ++ l2))).
  rewrite IH by assumption.
  rewrite insert_gmerge by (try assumption; apply isort_by_Forall; assumption).
  reflexivity.
Qed.

Lemma Forall_firstn n (l : list A) : Forall P l -> Forall P (firstn n l).
Proof.
  revert l; induction n as [|n IH]; intros [|a l] F; cbn; try constructor.
  - inversion F; assumption.
  - apply IH. inversion F; assumption.
Qed.

Lemma Forall_skipn n (l : list A) : Forall P l -> Forall P (skipn n l).
Proof.
  revert l; induction n as [|n IH]; intros [|a l] F; cbn; try assumption.
  apply IH. inversion F; assumption.
Qed.

Lemma isort_small (l : list A) : (List.length l <= 1)%nat -> isort_by le l = l.
Proof. destruct l as [|a [|b l]]; cbn; try reflexivity; lia. Qed.

Lemma gsort_isort : forall fuel l, Forall P l -> (List.length l < fuel)%nat ->
  gsort le fuel l = isort_by le l.
Proof.
  induction fuel as [|fu IH]; intros l F H; [lia|].
  cbn [gsort].
  destruct (Nat.leb_spec (List.length l) 1) as [Hle|Hgt]; [symmetry; apply isort_small; exact Hle|].
  destruct (div2_halves (List.length l)) as [H1 H2]; [lia|].
  rewrite IH by (try apply Forall_firstn; try assumption; rewrite firstn_length; lia).
  rewrite IH by (try apply Forall_skipn; try assumption; rewrite skipn_length; lia).
  rewrite <- isort_app by (try apply Forall_firstn; try apply Forall_skipn; assumption).
  rewrite firstn_skipn. reflexivity.
Qed.

Theorem glibc_sort_isort l : Forall P l -> glibc_sort le l = isort_by le l.
Proof. intros F. apply gsort_isort; [exact F|lia]. Qed.

End SortEq.

(* ------------------------------------------------------------------ *)
(* part 2 *)

Lemma chunks_concat {A} (k : nat) (ll : list (list A)) (rest : list A) :
  Forall (fun c => List.length c = k) ll ->
  chunks k (List.length ll) (List.concat ll ++ rest) = ll.
Proof.
  induction ll as [|c ll IH]; intros F; [reflexivity|].
  inversion F as [|c' ll' Hc F']; subst c' ll'.
  cbn [List.length chunks List.concat]. rewrite <- app_assoc. subst k.
  rewrite firstn_app, firstn_all, Nat.sub_diag. cbn [firstn]. rewrite app_nil_r.
  rewrite skipn_app, skipn_all, Nat.sub_diag. cbn [skipn app].
  rewrite IH by exact F'. reflexivity.
Qed.

Lemma concat_length_const {A} (k : nat) (ll : list (list A)) :
  Forall (fun c => List.length c = k) ll ->
  List.length (List.concat ll) = (List.length ll * k)%nat.
Proof.
  induction ll as [|c ll IH]; intros F; [reflexivity|].
  inversion F; subst. cbn [List.concat List.length]. rewrite app_length, IH by assumption. lia.
Qed.

#[local] Arguments qsort_list : simpl never.

Section Refine.
Context {T : Type} (N : NumOps T) (X : NumLit T) (K : DsConsts T).

(* the pooled array as it lies in the C buffer: (value, (double) position) *)
Definition item (p : T * Z) : list T := [fst p; nofZ N (snd p)].
Definition flat (l : list (T * Z)) : list T := List.concat (map item l).

Lemma item_len l : Forall (fun c : list T => List.length c = 2%nat) (map item l).
Proof. induction l; constructor; [reflexivity|assumption]. Qed.

Lemma flat_length l : List.length (flat l) = (2 * List.length l)%nat.
Proof. unfold flat. rewrite (concat_length_const 2) by apply item_len. rewrite map_length. lia. Qed.

Lemma flat_app a b : flat (a ++ b) = flat a ++ flat b.
Proof. unfold flat. rewrite map_app, concat_app. reflexivity. Qed.

Lemma flat_cons p l : flat (p :: l) = fst p :: nofZ N (snd p) :: flat l.
Proof. reflexivity. Qed.

(* what the literals and int -> double conversions of c_dscore.c are in the arithmetic *)
Definition cmp_lit_ok : Prop :=
  k_cmp_tol K = nlit X (0x1.5798ee2308c3ap-27)%float 1 100000000.
(* compare(): diff < -eps excludes diff > eps *)
Definition cmp_sign_ok : Prop :=
  forall d, nltb N d (nmul N (nofZ N (-1)) (k_cmp_tol K)) = true -> nltb N (k_cmp_tol K) d = false.

Definition cmp_code (a b : T) : Z :=
  let d := nsub N a b in
  if nltb N d (nmul N (nofZ N (-1)) (k_cmp_tol K)) then -1
  else if nltb N (k_cmp_tol K) d then 1 else 0.

(* stage 1: the comparator *)
Lemma compare_run n a ra b rb :
  cmp_lit_ok ->
  exec_fun N X program (S n) "c_dscore.compare" [AVArrF (a :: ra); AVArrF (b :: rb)]
  = Ok (RI (cmp_code a b), [VArrF (a :: ra); VArrF (b :: rb)]).
Proof.
  intros HK. unfold cmp_code. rewrite HK. cbn.
  rewrite !truth_b2z.
  destruct (nltb N (nsub N a b) _); [reflexivity|]. cbn.
  destruct (nltb N _ (nsub N a b)); reflexivity.
Qed.

Lemma cmp_code_le a b : cmp_sign_ok ->
  (cmp_code (fst a) (fst b) <=? 0) = ens_le N K a b.
Proof.
  intros HS. unfold cmp_code, ens_le.
  destruct (nltb N (nsub N (fst a) (fst b)) _) eqn:E1.
  - rewrite (HS _ E1). reflexivity.
  - destruct (nltb N (k_cmp_tol K) _); reflexivity.
Qed.

(* the comparator against the model's [ens_le] ("compare(a,b) <= 0"), for all inputs
   (buffers of at least one double, as qsort passes them) *)
Theorem refine_c_dscore_compare n (a b : T * Z) ra rb :
  cmp_lit_ok -> cmp_sign_ok ->
  exists c,
    exec_fun N X program (S n) "c_dscore.compare" [AVArrF (fst a :: ra); AVArrF (fst b :: rb)]
    = Ok (RI c, [VArrF (fst a :: ra); VArrF (fst b :: rb)]) /\
    (c <=? 0) = ens_le N K a b /\ (c = -1 \/ c = 0 \/ c = 1).
Proof.
  intros HK HS. exists (cmp_code (fst a) (fst b)).
  split; [apply compare_run; exact HK|]. split; [apply cmp_code_le; exact HS|].
  unfold cmp_code. destruct (nltb N _ _); [left; reflexivity|].
  destruct (nltb N _ _); [right; right|right; left]; reflexivity.
Qed.

(* stage 2: qsort(ensemb, 2*ncol, sizeof ensemb[0], compare) *)
Lemma qsort_flat m nz l :
  cmp_lit_ok -> cmp_sign_ok -> nz = Z.of_nat (List.length l) ->
  qsort_list (exec_fun N X program (S m)) "c_dscore.compare" AVArrF "ensemb" nz 2 (flat l)
  = Ok (flat (glibc_sort (ens_le N K) l)).
Proof.
  intros HK HS ->. unfold qsort_list.
  rewrite zlen_eq, flat_length.
  replace ((Z.of_nat (List.length l) <? 0) || (2 <? 1) ||
           (Z.of_nat (2 * List.length l) <? Z.of_nat (List.length l) * 2)) with false
    by (symmetry; apply orb_false_iff; split; [apply orb_false_iff; split|];
        [apply Z.ltb_ge; lia|reflexivity|apply Z.ltb_ge; lia]).
  rewrite Nat2Z.id. change (Z.to_nat 2) with 2%nat.
  replace (chunks 2 (List.length l) (flat l)) with (map item l).
  2:{ symmetry. rewrite <- (app_nil_r (flat l)). unfold flat.
      rewrite <- (map_length item l) at 1. apply chunks_concat. apply item_len. }
  rewrite (msortM_map (ens_le N K) item).
  - cbn [bind]. unfold glibc_sort.
    rewrite skipn_all2 by (rewrite flat_length; lia). rewrite app_nil_r. reflexivity.
  - intros a b. exists (cmp_code (fst a) (fst b)). split; [|apply cmp_code_le; exact HS].
    unfold cmp_call, item. rewrite compare_run by exact HK. reflexivity.
  - lia.
Qed.

End Refine.

(* ------------------------------------------------------------------ *)
(* part 3 *)

(* ---- more generic helpers ---- *)

Lemma zget_nth_error {A} (l : list A) : forall i, 0 <= i -> zget l i = nth_error l (Z.to_nat i).
Proof.
  induction l as [|x r IH]; intros i Hi; cbn [zget].
  - destruct (Z.to_nat i); reflexivity.
  - destruct (Z.eqb_spec i 0) as [->|Hne]; [reflexivity|].
    rewrite IH by lia. replace (Z.to_nat i) with (S (Z.to_nat (i - 1))) by lia. reflexivity.
Qed.

Lemma zset_some {A} (l : list A) i v :
  0 <= i < Z.of_nat (List.length l) ->
  exists l', zset l i v = Some l' /\ List.length l' = List.length l.
Proof.
  intros H. rewrite (zset_ok l i v H). eexists; split; [reflexivity|].
  apply (zset_length l _ i v). apply zset_ok. exact H.
Qed.

Lemma upd_nth_length {A} (f : A -> A) (l : list A) : forall k, List.length (upd_nth k f l) = List.length l.
Proof. induction l as [|a l IH]; intros [|k]; cbn; try reflexivity. rewrite IH. reflexivity. Qed.

Lemma zset_upd_nth {A} (l : list A) : forall i v,
  0 <= i < Z.of_nat (List.length l) ->
  zset l i v = Some (upd_nth (Z.to_nat i) (fun _ => v) l).
Proof.
  induction l as [|x r IH]; intros i v H; cbn [List.length] in H; [lia|].
  cbn [zset]. destruct (Z.eqb_spec i 0) as [->|Hne]; [reflexivity|].
  rewrite IH by lia. replace (Z.to_nat i) with (S (Z.to_nat (i - 1))) by lia. reflexivity.
Qed.

Lemma upd_nth_get {A} (f : A -> A) (l : list A) : forall k x,
  nth_error l k = Some x -> upd_nth k (fun _ => f x) l = upd_nth k f l.
Proof.
  induction l as [|a l IH]; intros [|k] x H; cbn in *; try discriminate.
  - injection H as ->. reflexivity.
  - rewrite (IH k x H). reflexivity.
Qed.

Lemma nth_error_concat_row {A} (c : nat) (rows : list (list A)) : forall i j,
  Forall (fun r => List.length r = c) rows -> (j < c)%nat ->
  nth_error (List.concat rows) (i * c + j) = nth_error (nth i rows []) j.
Proof.
  induction rows as [|r rows IH]; intros i j F Hj.
  - cbn. destruct i; destruct j; destruct (_ + _)%nat; reflexivity.
  - inversion F as [|r' rows' Hr F']; subst r' rows'. cbn [List.concat].
    destruct i as [|i].
    + cbn [nth Nat.mul Nat.add]. apply nth_error_app1. lia.
    + cbn [nth]. rewrite nth_error_app2 by (rewrite Hr; lia).
      replace (S i * c + j - List.length r)%nat with (i * c + j)%nat by (rewrite Hr; lia).
      apply IH; assumption.
Qed.

Lemma nth_error_mid {A} (a : list A) x b : nth_error (a ++ x :: b) (List.length a) = Some x.
Proof. rewrite nth_error_app2 by lia. rewrite Nat.sub_diag. reflexivity. Qed.

Lemma Forall_nth_len {A} (c : nat) (rows : list (list A)) i :
  Forall (fun r => List.length r = c) rows -> (i < List.length rows)%nat ->
  List.length (nth i rows []) = c.
Proof.
  intros F H. rewrite Forall_forall in F. apply F. apply nth_In. exact H.
Qed.

Lemma skipn_cons_nth' {A} (l : list A) k :
  (k < List.length l)%nat -> exists x, skipn k l = x :: skipn (S k) l.
Proof.
  revert k; induction l as [|a l IH]; intros k H; cbn in H; [lia|].
  destruct k as [|k]; [exists a; reflexivity|].
  destruct (IH k) as (x & E); [lia|]. exists x. cbn [skipn]. exact E.
Qed.

Lemma repeat_app_cons' {A} (x : A) k l : repeat x k ++ x :: l = x :: repeat x k ++ l.
Proof. induction k as [|k IH]; [reflexivity|]. cbn [repeat app]. rewrite IH. reflexivity. Qed.

(* ---- the statements of c_ensrank, taken from the regenerated AST ---- *)

Fixpoint seq_nth (k : nat) (s : stmt) : stmt :=
  match k, s with
  | O, SSeq a _ => a
  | O, _ => s
  | S k', SSeq _ b => seq_nth k' b
  | S _, _ => SSkip
  end.
Definition for_cond (s : stmt) : iexp := match s with SFor c _ _ => c | _ => IConst 0 end.
Definition for_step (s : stmt) : stmt := match s with SFor _ st _ => st | _ => SSkip end.
Definition for_stmt (s : stmt) : stmt := match s with SFor _ _ b => b | _ => SSkip end.
Definition fun_body (f : fundef) : stmt := match f with Fun _ b => b | _ => SSkip end.

Definition ens_body : stmt := Eval cbv in fun_body c_ensrank_def.
Definition init_for : stmt := Eval cbv in seq_nth 26 ens_body.
Definition outer_for : stmt := Eval cbv in seq_nth 29 ens_body.
Definition inner_for : stmt := Eval cbv in seq_nth 1 (for_stmt outer_for).
Definition fill_for : stmt := Eval cbv in seq_nth 1 (for_stmt inner_for).
Definition scan_for : stmt := Eval cbv in seq_nth 11 (for_stmt inner_for).

#[local] Arguments qsort_list : simpl never.
#[local] Arguments Nat.min : simpl never.
#[local] Arguments skipn : simpl never.
#[local] Arguments firstn : simpl never.
#[local] Arguments repeat : simpl never.

(* normalise the initial state of the (first) loop of the goal to a literal record and
   rewrite the loop with lemma [lem] (whose conclusion is [run_for .. = Ok ..]); the
   premises of [lem] are left as goals *)
Ltac norm_loop_state :=
  match goal with
  | |- context[loop ?f ?c ?b ?s] =>
      let s' := eval cbv [set_i set_f set_ai set_af aupd s_i s_f s_ai s_af st_empty
                          String.eqb Ascii.eqb Bool.eqb] in s in
      change s with s'
  end.

Section Refine.
Context {T : Type} (N : NumOps T) (X : NumLit T) (K : DsConsts T).

Notation run_for callf n s st :=
  (loop n (cond_of N X (for_cond s))
     (for_body (exec N X callf n (for_stmt s)) (exec N X callf n (for_step s))) st).

Definition es (nval ncol i1 i2 j ninit : Z) (eps ncold : T)
           (v vp vn ix u F sr rk d dn tol nt st en : T)
           (sim fmat ranks ens : list T) : state T :=
  {| s_i := [("nval", nval); ("ncol", ncol); ("i1", i1); ("i2", i2); ("j", j);
             ("ierr", 0); ("ninit", ninit)];
     s_f := [("eps", eps); ("value", v); ("valueprev", vp); ("valuenext", vn); ("index", ix);
             ("u", u); ("F", F); ("sumrank", sr); ("rk", rk); ("ncold", ncold);
             ("diff", d); ("diffnext", dn); ("tol", tol); ("nties", nt);
             ("start", st); ("end", en)];
     s_ai := [];
     s_af := [("sim", sim); ("fmat", fmat); ("ranks", ranks); ("ensemb", ens)] |}.

(* scratch registers bundled (for the invariants of the outer loops) *)
Record fr := mkFr { r_v : T; r_vp : T; r_vn : T; r_ix : T; r_u : T; r_F : T; r_sr : T;
                    r_rk : T; r_d : T; r_dn : T; r_tol : T; r_nt : T; r_st : T; r_en : T }.
Definition esr nval ncol i1 i2 j ninit eps ncold (r : fr) sim fmat ranks ens : state T :=
  es nval ncol i1 i2 j ninit eps ncold (r_v r) (r_vp r) (r_vn r) (r_ix r) (r_u r) (r_F r)
     (r_sr r) (r_rk r) (r_d r) (r_dn r) (r_tol r) (r_nt r) (r_st r) (r_en r) sim fmat ranks ens.

Ltac fr_simpl := cbn [r_v r_vp r_vn r_ix r_u r_F r_sr r_rk r_d r_dn r_tol r_nt r_st r_en].

(* ---- loop 0: initialisation of ensemb and ranks ---- *)

Definition one_lit : T := nlit X (0x1.0000000000000p+0)%float 1 1.

Definition init_inv (nval ncol : nat) ninit eps ncold (r : fr) sim fmat ranks
           (k : nat) (st : state T) : Prop :=
  exists ens, List.length ens = (4 * ncol)%nat /\ Z.of_nat k <= ninit /\
    st = esr (Z.of_nat nval) (Z.of_nat ncol) 0 0 (Z.of_nat k) ninit eps ncold r sim fmat
           (repeat one_lit (Nat.min k nval) ++ skipn (Nat.min k nval) ranks) ens.

Lemma init_loop (callf : callee T) n (nval ncol : nat) ninit eps ncold r sim fmat ranks ens :
  List.length ranks = nval -> List.length ens = (4 * ncol)%nat ->
  Z.of_nat nval <= ninit -> 2 * Z.of_nat ncol <= ninit -> (Z.to_nat ninit < n)%nat ->
  exists ens', List.length ens' = (4 * ncol)%nat /\
  run_for callf n init_for
    (esr (Z.of_nat nval) (Z.of_nat ncol) 0 0 0 ninit eps ncold r sim fmat ranks ens)
  = Ok (ONormal, esr (Z.of_nat nval) (Z.of_nat ncol) 0 0 ninit ninit eps ncold r sim fmat
                   (repeat one_lit nval) ens').
Proof.
  intros Hr He Hn1 Hn2 Hn.
  destruct (loop_rule (init_inv nval ncol ninit eps ncold r sim fmat ranks)
              (fun res => exists ens', List.length ens' = (4 * ncol)%nat /\
                 res = (ONormal, esr (Z.of_nat nval) (Z.of_nat ncol) 0 0 ninit ninit eps ncold r
                                   sim fmat (repeat one_lit nval) ens'))
              (Z.to_nat ninit)
              (cond_of N X (for_cond init_for))
              (for_body (exec N X callf n (for_stmt init_for)) (exec N X callf n (for_step init_for))))
    with (fuel := n) (k := O)
         (st := esr (Z.of_nat nval) (Z.of_nat ncol) 0 0 0 ninit eps ncold r sim fmat ranks ens)
    as (res & Hres & ens' & Hl' & ->).
  - intros k st (ens_k & Hek & Hkn & ->).
    destruct r as [v vp vn ix u F sr rk d dn tol nt st0 en].
    unfold esr, es. cbn.
    destruct (Z.ltb_spec (Z.of_nat k) ninit) as [Hlt|Hge]; cbn.
    + split; [lia|].
      destruct (Z.ltb_spec (Z.of_nat k) (2 * Z.of_nat ncol)) as [H2|H2]; cbn.
      * destruct (zset_some ens_k (Z.of_nat k * 2 + 0) (nlit X 0 0 1)) as (e1 & -> & Hl1); [lia|].
        cbn.
        destruct (zset_some e1 (Z.of_nat k * 2 + 1) (nlit X 0 0 1)) as (e2 & -> & Hl2); [lia|].
        cbn.
        destruct (Z.ltb_spec (Z.of_nat k) (Z.of_nat nval)) as [H3|H3]; cbn.
        -- replace (Nat.min k nval) with k by lia.
           destruct (skipn_cons_nth' ranks k) as (x & Hx); [lia|]. rewrite Hx.
           rewrite zset_app by (rewrite repeat_length; reflexivity). cbn.
           exists e2. split; [lia|]. split; [lia|]. norm_state. unfold esr, es. fr_simpl.
           replace (Nat.min (S k) nval) with (S k) by lia.
           replace (Z.of_nat k + 1) with (Z.of_nat (S k)) by lia.
           rewrite repeat_app_cons'. change (S k) with (1 + k)%nat. rewrite repeat_app. reflexivity.
        -- exists e2. split; [lia|]. split; [lia|]. norm_state. unfold esr, es. fr_simpl.
           replace (Nat.min (S k) nval) with (Nat.min k nval) by lia.
           replace (Z.of_nat k + 1) with (Z.of_nat (S k)) by lia. reflexivity.
      * destruct (Z.ltb_spec (Z.of_nat k) (Z.of_nat nval)) as [H3|H3]; cbn.
        -- replace (Nat.min k nval) with k by lia.
           destruct (skipn_cons_nth' ranks k) as (x & Hx); [lia|]. rewrite Hx.
           rewrite zset_app by (rewrite repeat_length; reflexivity). cbn.
           exists ens_k. split; [lia|]. split; [lia|]. norm_state. unfold esr, es. fr_simpl.
           replace (Nat.min (S k) nval) with (S k) by lia.
           replace (Z.of_nat k + 1) with (Z.of_nat (S k)) by lia.
           rewrite repeat_app_cons'. change (S k) with (1 + k)%nat. rewrite repeat_app. reflexivity.
        -- exists ens_k. split; [lia|]. split; [lia|]. norm_state. unfold esr, es. fr_simpl.
           replace (Nat.min (S k) nval) with (Nat.min k nval) by lia.
           replace (Z.of_nat k + 1) with (Z.of_nat (S k)) by lia. reflexivity.
    + split; [lia|]. exists ens_k. split; [exact Hek|].
      replace (Nat.min k nval) with nval by lia.
      rewrite skipn_all2 by lia. rewrite app_nil_r.
      replace (Z.of_nat k) with ninit by lia. reflexivity.
  - exists ens. split; [exact He|]. split; [lia|]. reflexivity.
  - lia.
  - exists ens'. split; [exact Hl'|]. exact Hres.
Qed.

(* ---- loop 1: the pooled array of the ensembles i1 and i2 ---- *)

Definition sw (p : Z * T) : T * Z := (snd p, fst p).

Definition fill_inv nval (ncol i1 i2 : nat) ninit eps ncold
           v vp vn ix u F sr rk d dn tol nt st0 en (rows : list (list T)) fmat ranks
           (k : nat) (st : state T) : Prop :=
  exists done todo P tail,
    nth i1 rows [] ++ nth i2 rows [] = done ++ todo /\ List.length done = k /\
    P ++ map sw (zenum (Z.of_nat k) todo) = pool (nth i1 rows []) (nth i2 rows []) /\
    List.length P = k /\ List.length tail = (2 * List.length todo)%nat /\
    st = es nval (Z.of_nat ncol) (Z.of_nat i1) (Z.of_nat i2) (Z.of_nat k) ninit eps ncold
            v vp vn ix u F sr rk d dn tol nt st0 en (List.concat rows) fmat ranks
            (flat N P ++ tail).

Lemma fill_loop (callf : callee T) n nval (ncol i1 i2 : nat) ninit eps ncold
      v vp vn ix u F sr rk d dn tol nt st0 en (rows : list (list T)) fmat ranks ens :
  Forall (fun r => List.length r = ncol) rows ->
  (i1 < List.length rows)%nat -> (i2 < List.length rows)%nat ->
  List.length ens = (4 * ncol)%nat -> (2 * ncol < n)%nat ->
  run_for callf n fill_for
    (es nval (Z.of_nat ncol) (Z.of_nat i1) (Z.of_nat i2) 0 ninit eps ncold
        v vp vn ix u F sr rk d dn tol nt st0 en (List.concat rows) fmat ranks ens)
  = Ok (ONormal,
        es nval (Z.of_nat ncol) (Z.of_nat i1) (Z.of_nat i2) (2 * Z.of_nat ncol) ninit eps ncold
           v vp vn ix u F sr rk d dn tol nt st0 en (List.concat rows) fmat ranks
           (flat N (pool (nth i1 rows []) (nth i2 rows [])))).
Proof.
  intros HF Hi1 Hi2 He Hn.
  assert (Hl1 : List.length (nth i1 rows []) = ncol) by (apply Forall_nth_len; assumption).
  assert (Hl2 : List.length (nth i2 rows []) = ncol) by (apply Forall_nth_len; assumption).
  apply (loop_rule_eq (fill_inv nval ncol i1 i2 ninit eps ncold v vp vn ix u F sr rk d dn tol nt
                         st0 en rows fmat ranks) _ (2 * ncol)).
  - intros k st (done & todo & P & tail & Hv & Hd & HP & HPl & Ht & ->).
    assert (Hlen : (2 * ncol = k + List.length todo)%nat).
    { apply (f_equal (@List.length T)) in Hv. rewrite !app_length in Hv. lia. }
    split; [lia|].
    unfold es. cbn.
    destruct todo as [|x todo].
    + replace (Z.of_nat k <? 2 * Z.of_nat ncol) with false
        by (symmetry; apply Z.ltb_ge; cbn in Hlen; lia).
      destruct tail; [|cbn in Ht; lia]. cbn [map zenum] in HP. rewrite app_nil_r in HP.
      rewrite app_nil_r. subst P. unfold es.
      replace (Z.of_nat k) with (2 * Z.of_nat ncol) by (cbn in Hlen; lia). reflexivity.
    + replace (Z.of_nat k <? 2 * Z.of_nat ncol) with true
        by (symmetry; apply Z.ltb_lt; cbn in Hlen; lia).
      destruct tail as [|t0 [|t1 tail]]; try (cbn in Ht; lia).
      assert (Hx : nth_error (nth i1 rows [] ++ nth i2 rows []) k = Some x).
      { rewrite Hv, <- Hd. apply nth_error_mid. }
      assert (HPf : Z.of_nat k * 2 + 0 = Z.of_nat (List.length (flat N P)))
        by (rewrite flat_length; lia).
      cbn.
      destruct (Z.ltb_spec (Z.of_nat k) (Z.of_nat ncol)) as [Hk|Hk]; cbn.
      * assert (Hg : zget (List.concat rows) (Z.of_nat ncol * Z.of_nat i1 + Z.of_nat k) = Some x).
        { rewrite zget_nth_error by lia.
          replace (Z.to_nat (Z.of_nat ncol * Z.of_nat i1 + Z.of_nat k)) with (i1 * ncol + k)%nat by lia.
          rewrite (nth_error_concat_row ncol) by (try assumption; lia).
          rewrite <- Hx. symmetry. apply nth_error_app1. lia. }
        rewrite Hg. cbn.
        rewrite (zset_app _ (t1 :: tail)) by exact HPf. cbn.
        rewrite (zset_app_off (flat N P) _ _ 1) by lia. cbn.
        exists (done ++ [x]), todo, (P ++ [(x, Z.of_nat k)]), tail.
        split; [rewrite <- app_assoc; exact Hv|].
        split; [rewrite app_length; cbn; lia|].
        split; [rewrite <- app_assoc, <- HP; cbn [map zenum app sw fst snd];
                replace (Z.of_nat k + 1) with (Z.of_nat (S k)) by lia; reflexivity|].
        split; [rewrite app_length; cbn; lia|].
        split; [cbn in Ht; lia|].
        norm_state. unfold es. rewrite flat_app. cbn [flat map item List.concat fst snd app].
        rewrite <- app_assoc. cbn [app].
        replace (Z.of_nat k + 1) with (Z.of_nat (S k)) by lia. reflexivity.
      * assert (Hg : zget (List.concat rows)
                       (Z.of_nat ncol * (Z.of_nat i2 - 1) + Z.of_nat k) = Some x).
        { rewrite zget_nth_error by nia.
          replace (Z.to_nat (Z.of_nat ncol * (Z.of_nat i2 - 1) + Z.of_nat k))
            with (i2 * ncol + (k - ncol))%nat by nia.
          rewrite (nth_error_concat_row ncol) by (try assumption; cbn in Hlen; lia).
          rewrite <- Hx. symmetry. rewrite nth_error_app2 by lia. rewrite Hl1. reflexivity. }
        rewrite Hg. cbn.
        rewrite (zset_app _ (t1 :: tail)) by exact HPf. cbn.
        rewrite (zset_app_off (flat N P) _ _ 1) by lia. cbn.
        exists (done ++ [x]), todo, (P ++ [(x, Z.of_nat k)]), tail.
        split; [rewrite <- app_assoc; exact Hv|].
        split; [rewrite app_length; cbn; lia|].
        split; [rewrite <- app_assoc, <- HP; cbn [map zenum app sw fst snd];
                replace (Z.of_nat k + 1) with (Z.of_nat (S k)) by lia; reflexivity|].
        split; [rewrite app_length; cbn; lia|].
        split; [cbn in Ht; lia|].
        norm_state. unfold es. rewrite flat_app. cbn [flat map item List.concat fst snd app].
        rewrite <- app_assoc. cbn [app].
        replace (Z.of_nat k + 1) with (Z.of_nat (S k)) by lia. reflexivity.
  - exists [], (nth i1 rows [] ++ nth i2 rows []), [], ens.
    split; [reflexivity|]. split; [reflexivity|]. split; [reflexivity|]. split; [reflexivity|].
    split; [rewrite app_length; lia|]. reflexivity.
  - lia.
Qed.

End Refine.

(* ------------------------------------------------------------------ *)
(* part 4 *)

#[local] Arguments qsort_list : simpl never.
#[local] Arguments Nat.min : simpl never.
#[local] Arguments skipn : simpl never.
#[local] Arguments firstn : simpl never.
#[local] Arguments repeat : simpl never.

(* [merge_if] of Base/MiniC.v on states that are first normalised to literal records
   (the two branches then have the same shape) *)
Ltac merge_if_n :=
  match goal with
  | |- context[if ?b then Ok (?o, ?A) else Ok (?o, ?B)] =>
      let A' := eval cbv [set_i set_f set_ai set_af aupd s_i s_f s_ai s_af
                          String.eqb Ascii.eqb Bool.eqb] in A in
      let B' := eval cbv [set_i set_f set_ai set_af aupd s_i s_f s_ai s_af
                          String.eqb Ascii.eqb Bool.eqb] in B in
      let t := merge_terms b A' B' in
      replace (if b then Ok (o, A) else Ok (o, B)) with (Ok (o, t)) by (destruct b; reflexivity)
  end.

Ltac peel :=
  match goal with
  | |- context[exec _ _ _ _ (SSeq ?a ?b) _] => remember b as rest eqn:Hrest
  end.

Lemma if_negb {A} (b : bool) (x y : A) : (if negb b then x else y) = (if b then y else x).
Proof. destruct b; reflexivity. Qed.

Section Refine.
Context {T : Type} (N : NumOps T) (X : NumLit T) (K : DsConsts T).

Notation run_for callf n s st :=
  (loop n (cond_of N X (for_cond s))
     (for_body (exec N X callf n (for_stmt s)) (exec N X callf n (for_step s))) st).

(* what the literals and the int -> double conversions of c_ensrank are in the arithmetic *)
Record lits_ok : Prop := mkLits {
  L_zero : nlit X 0%float 0 1 = n0 N;
  L_one : nlit X (0x1.0000000000000p+0)%float 1 1 = n1 N;
  L_ofZ0 : nofZ N 0 = n0 N;
  L_ofZ1 : nofZ N 1 = n1 N;
  L_m1 : nopp N (n1 N) = nofZ N (-1);
  L_epsmin : k_eps_min K = nlit X (0x1.79ca10c924223p-67)%float 1 100000000000000000000;
  L_tolnum : k_u_tol_num K = nlit X (0x1.0000000000000p-2)%float 1 4;
  L_lo_c : k_u_lo_c K = nlit X (0x1.0000000000000p-1)%float 1 2;
  L_hi_c : k_u_hi_c K = nlit X (0x1.0000000000000p-1)%float 1 2;
  L_tie : k_u_tie K = nlit X (0x1.0000000000000p-1)%float 1 2;
  L_low : k_u_low K = nlit X 0%float 0 1;
  L_high : k_u_high K = nlit X (0x1.0000000000000p+0)%float 1 1 }.

(* (double) j < (double) ncol  for the positions j of the pooled array *)
Definition idx_ok (ncol : nat) : Prop :=
  forall a, 0 <= a < 2 * Z.of_nat ncol ->
    nltb N (nofZ N a) (nofZ N (Z.of_nat ncol)) = (a <? Z.of_nat ncol).

Lemma scan_body (callf : callee T) n nval (ncol : nat) i1 i2 ninit eps ncold u F tol sim fmat ranks
      L done v i todo' (s : @scan T) v0 vn0 ix0 rk0 d0 dn0 :
  lits_ok -> idx_ok ncol ->
  L = done ++ (v, i) :: todo' -> List.length L = (2 * ncol)%nat -> 0 <= i < 2 * Z.of_nat ncol ->
  let k := Z.of_nat (List.length done) in
  let diff := if (k =? 0) then eps else nabs N (nsub N v (sc_prev s)) in
  let diffnext := match todo' with (v', _) :: _ => nabs N (nsub N v v') | [] => eps end in
  let s' := scan_core N eps (Z.of_nat ncol) k i diff diffnext v s in
  exists v1 vn1 ix1 rk1 d1 dn1,
  exec N X callf n (for_stmt scan_for)
    (es nval (Z.of_nat ncol) i1 i2 k ninit eps ncold v0 (sc_prev s) vn0 ix0 u F (sc_sum s) rk0
        d0 dn0 tol (sc_nties s) (sc_start s) (sc_end s) sim fmat ranks (flat N L))
  = Ok (ONormal,
        es nval (Z.of_nat ncol) i1 i2 k ninit eps ncold v1 (sc_prev s') vn1 ix1 u F (sc_sum s') rk1
           d1 dn1 tol (sc_nties s') (sc_start s') (sc_end s') sim fmat ranks (flat N L)).
Proof.
  intros HL HI HLd Hlen Hi k diff diffnext s'.
  assert (HE : flat N L = flat N done ++ v :: nofZ N i :: flat N todo').
  { rewrite HLd, flat_app. reflexivity. }
  assert (Hk : (List.length done + S (List.length todo') = 2 * ncol)%nat).
  { rewrite <- Hlen, HLd, app_length. reflexivity. }
  assert (Hg0 : zget (flat N L) (k * 2 + 0) = Some v).
  { rewrite HE. apply zget_app. rewrite flat_length. subst k. lia. }
  assert (Hg1 : zget (flat N L) (k * 2 + 1) = Some (nofZ N i)).
  { rewrite HE. rewrite (zget_app_off _ _ _ 1) by (rewrite ?flat_length; subst k; lia). reflexivity. }
  remember (flat N L) as E eqn:HEq.
  destruct s as [sm0 st0 en0 nt0 pv0]. cbn [sc_sum sc_start sc_end sc_nties sc_prev] in *.
  destruct todo' as [|[v' i'] todo''].
  - do 6 eexists.
    match goal with
    | |- ?lhs = _ => eassert (Hrun : lhs = Ok (ONormal, _))
    end.
    { unfold es. cbv [for_stmt scan_for].
      peel. cbn. rewrite Hg0. cbn. subst rest. norm_state.
      peel. cbn.
      replace (k <? 2 * Z.of_nat ncol - 1) with false
        by (symmetry; apply Z.ltb_ge; subst k; cbn in Hk; lia).
      cbn. subst rest. norm_state.
      peel. cbn. rewrite Hg1. cbn. subst rest. norm_state.
      peel. cbn. rewrite truth_b2z, if_ok. cbn. subst rest. norm_state.
      peel. cbn.
      replace (k <? 2 * Z.of_nat ncol - 1) with false
        by (symmetry; apply Z.ltb_ge; subst k; cbn in Hk; lia).
      cbn. subst rest. norm_state.
      peel. cbn. rewrite ?truth_b2z, ?b2z_truth_b2z, ?and_ok. cbn. rewrite truth_b2z.
      merge_if_n. cbn. subst rest.
      peel. cbn. rewrite ?truth_b2z, ?b2z_truth_b2z, ?and_ok. cbn. rewrite ?truth_b2z.
      repeat merge_if_n. cbn. subst rest.
      peel. cbn. rewrite ?truth_b2z, ?b2z_truth_b2z, ?and_ok. cbn. rewrite ?truth_b2z.
      repeat merge_if_n. cbn. subst rest.
      cbn. norm_state. reflexivity. }
    rewrite Hrun. clear Hrun.
    rewrite (HI i Hi), (L_zero HL), (L_one HL), (L_m1 HL).
    replace (0 <? k) with (negb (k =? 0))
      by (subst k; destruct (Z.eqb_spec (Z.of_nat (List.length done)) 0);
          destruct (Z.ltb_spec 0 (Z.of_nat (List.length done))); try reflexivity; lia).
    rewrite if_negb.
    unfold es. subst s'. unfold scan_core. cbn [sc_sum sc_start sc_end sc_nties sc_prev].
    fold diff. reflexivity.
  - assert (Hg2 : zget E ((k + 1) * 2 + 0) = Some v').
    { rewrite HE. rewrite (zget_app_off _ _ _ 2) by (rewrite ?flat_length; subst k; lia).
      reflexivity. }
    do 6 eexists.
    match goal with
    | |- ?lhs = _ => eassert (Hrun : lhs = Ok (ONormal, _))
    end.
    { unfold es. cbv [for_stmt scan_for].
      peel. cbn. rewrite Hg0. cbn. subst rest. norm_state.
      peel. cbn.
      replace (k <? 2 * Z.of_nat ncol - 1) with true
        by (symmetry; apply Z.ltb_lt; subst k; cbn in Hk; lia).
      cbn. rewrite Hg2. cbn. subst rest. norm_state.
      peel. cbn. rewrite Hg1. cbn. subst rest. norm_state.
      peel. cbn. rewrite truth_b2z, if_ok. cbn. subst rest. norm_state.
      peel. cbn.
      replace (k <? 2 * Z.of_nat ncol - 1) with true
        by (symmetry; apply Z.ltb_lt; subst k; cbn in Hk; lia).
      cbn. subst rest. norm_state.
      peel. cbn. rewrite ?truth_b2z, ?b2z_truth_b2z, ?and_ok. cbn. rewrite truth_b2z.
      merge_if_n. cbn. subst rest.
      peel. cbn. rewrite ?truth_b2z, ?b2z_truth_b2z, ?and_ok. cbn. rewrite ?truth_b2z.
      repeat merge_if_n. cbn. subst rest.
      peel. cbn. rewrite ?truth_b2z, ?b2z_truth_b2z, ?and_ok. cbn. rewrite ?truth_b2z.
      repeat merge_if_n. cbn. subst rest.
      cbn. norm_state. reflexivity. }
    rewrite Hrun. clear Hrun.
    rewrite (HI i Hi), (L_zero HL), (L_one HL), (L_m1 HL).
    replace (0 <? k) with (negb (k =? 0))
      by (subst k; destruct (Z.eqb_spec (Z.of_nat (List.length done)) 0);
          destruct (Z.ltb_spec 0 (Z.of_nat (List.length done))); try reflexivity; lia).
    rewrite if_negb.
    unfold es. subst s'. unfold scan_core. cbn [sc_sum sc_start sc_end sc_nties sc_prev].
    fold diff. reflexivity.
Qed.

(* ---- loop 2: the scan of the sorted pooled array ---- *)

Definition scan_inv nval (ncol : nat) i1 i2 ninit eps ncold u F tol sim fmat ranks
           (L : list (T * Z)) (s0 : @scan T) (k : nat) (st : state T) : Prop :=
  exists done todo s v vn ix rk d dn,
    L = done ++ todo /\ List.length done = k /\
    scan_loop N eps (Z.of_nat ncol) (Z.of_nat k) todo s = scan_loop N eps (Z.of_nat ncol) 0 L s0 /\
    st = es nval (Z.of_nat ncol) i1 i2 (Z.of_nat k) ninit eps ncold v (sc_prev s) vn ix u F
            (sc_sum s) rk d dn tol (sc_nties s) (sc_start s) (sc_end s) sim fmat ranks (flat N L).

Lemma scan_loop_run (callf : callee T) n nval (ncol : nat) i1 i2 ninit eps ncold
      v vp vn ix u F sr rk d dn tol nt st0 en sim fmat ranks (L : list (T * Z)) :
  lits_ok -> idx_ok ncol -> List.length L = (2 * ncol)%nat ->
  Forall (fun p => 0 <= snd p < 2 * Z.of_nat ncol) L -> (2 * ncol < n)%nat ->
  let SF := scan_loop N eps (Z.of_nat ncol) 0 L (mkScan sr st0 en nt vp) in
  exists v1 vn1 ix1 rk1 d1 dn1,
  run_for callf n scan_for
    (es nval (Z.of_nat ncol) i1 i2 0 ninit eps ncold v vp vn ix u F sr rk d dn tol nt st0 en
        sim fmat ranks (flat N L))
  = Ok (ONormal,
        es nval (Z.of_nat ncol) i1 i2 (2 * Z.of_nat ncol) ninit eps ncold v1 (sc_prev SF) vn1 ix1 u F
           (sc_sum SF) rk1 d1 dn1 tol (sc_nties SF) (sc_start SF) (sc_end SF) sim fmat ranks (flat N L)).
Proof.
  intros HL HI Hlen HF Hn SF.
  destruct (loop_rule
              (scan_inv nval ncol i1 i2 ninit eps ncold u F tol sim fmat ranks L (mkScan sr st0 en nt vp))
              (fun res => exists v1 vn1 ix1 rk1 d1 dn1,
                 res = (ONormal,
                        es nval (Z.of_nat ncol) i1 i2 (2 * Z.of_nat ncol) ninit eps ncold v1 (sc_prev SF)
                           vn1 ix1 u F (sc_sum SF) rk1 d1 dn1 tol (sc_nties SF) (sc_start SF) (sc_end SF)
                           sim fmat ranks (flat N L)))
              (2 * ncol)%nat
              (cond_of N X (for_cond scan_for))
              (for_body (exec N X callf n (for_stmt scan_for)) (exec N X callf n (for_step scan_for))))
    with (fuel := n) (k := O)
         (st := es nval (Z.of_nat ncol) i1 i2 0 ninit eps ncold v vp vn ix u F sr rk d dn tol nt st0 en
                  sim fmat ranks (flat N L))
    as (res & Hres & v1 & vn1 & ix1 & rk1 & d1 & dn1 & ->).
  - intros k st (done & todo & s & v' & vn' & ix' & rk' & d' & dn' & HLd & Hd & Hs & ->).
    assert (Hk : (2 * ncol = k + List.length todo)%nat)
      by (rewrite <- Hlen, HLd, app_length; lia).
    split; [lia|].
    destruct todo as [|[x i] todo'].
    + unfold es. cbn.
      replace (Z.of_nat k <? 2 * Z.of_nat ncol) with false
        by (symmetry; apply Z.ltb_ge; cbn in Hk; lia).
      cbn [scan_loop] in Hs. subst SF. rewrite <- Hs.
      exists v', vn', ix', rk', d', dn'. unfold es.
      replace (Z.of_nat k) with (2 * Z.of_nat ncol) by (cbn in Hk; lia). reflexivity.
    + assert (Hi : 0 <= i < 2 * Z.of_nat ncol).
      { rewrite Forall_forall in HF. apply (HF (x, i)). rewrite HLd. apply in_or_app. right. left. reflexivity. }
      subst k.
      destruct (scan_body callf n nval ncol i1 i2 ninit eps ncold u F tol sim fmat ranks
                  L done x i todo' s v' vn' ix' rk' d' dn' HL HI HLd Hlen Hi)
        as (v1 & vn1 & ix1 & rk1 & d1 & dn1 & Hb).
      unfold for_body. rewrite Hb. clear Hb.
      unfold es. cbn.
      replace (Z.of_nat (List.length done) <? 2 * Z.of_nat ncol) with true
        by (symmetry; apply Z.ltb_lt; cbn in Hk; lia).
      eexists (done ++ [(x, i)]), todo', _, v1, vn1, ix1, rk1, d1, dn1.
      split; [rewrite <- app_assoc; exact HLd|].
      split; [rewrite app_length; cbn; lia|].
      split.
      { rewrite <- Hs. cbn [scan_loop].
        replace (Z.of_nat (S (List.length done))) with (Z.of_nat (List.length done) + 1) by lia.
        reflexivity. }
      norm_state. unfold es.
      replace (Z.of_nat (List.length done) + 1) with (Z.of_nat (S (List.length done))) by lia.
      reflexivity.
  - exists [], L, (mkScan sr st0 en nt vp), v, vn, ix, rk, d, dn.
    split; [reflexivity|]. split; [reflexivity|]. split; [reflexivity|]. reflexivity.
  - lia.
  - exists v1, vn1, ix1, rk1, d1, dn1. exact Hres.
Qed.

End Refine.

(* ------------------------------------------------------------------ *)
(* part 5 *)

#[local] Arguments qsort_list : simpl never.
#[local] Arguments Nat.min : simpl never.
#[local] Arguments skipn : simpl never.
#[local] Arguments firstn : simpl never.
#[local] Arguments repeat : simpl never.
#[local] Arguments upd_nth : simpl never.
#[local] Arguments nth : simpl never.

(* rewrite the (only) loop of the goal with [H : loop .. = rhs], up to conversion *)
Ltac rw_loop H :=
  match type of H with
  | _ = ?rhs =>
      match goal with
      | |- context[loop ?f ?c ?b ?s] =>
          let H' := fresh "HLoop" in
          assert (H' : loop f c b s = rhs) by exact H;
          rewrite H'; clear H'
      end
  end.

Ltac fr_simpl := cbn [r_v r_vp r_vn r_ix r_u r_F r_sr r_rk r_d r_dn r_tol r_nt r_st r_en].

Lemma zenum_bounds' {A} (l : list A) : forall i,
  Forall (fun p => i <= fst p < i + Z.of_nat (List.length l)) (zenum i l).
Proof.
  induction l as [|a l IH]; intros i; cbn [zenum]; constructor.
  - cbn [fst List.length]. lia.
  - eapply Forall_impl; [|apply IH]. cbn [List.length]. intros p Hp. lia.
Qed.

Lemma zenum_length {A} (l : list A) : forall i, List.length (zenum i l) = List.length l.
Proof. induction l as [|a l IH]; intros i; cbn; [reflexivity|]. rewrite IH. reflexivity. Qed.

Section Refine.
Context {T : Type} (N : NumOps T) (X : NumLit T) (K : DsConsts T).

Notation run_for callf n s st :=
  (loop n (cond_of N X (for_cond s))
     (for_body (exec N X callf n (for_stmt s)) (exec N X callf n (for_step s))) st).

Lemma pool_length (e1 e2 : list T) : List.length (pool e1 e2) = (List.length e1 + List.length e2)%nat.
Proof. unfold pool. rewrite map_length, zenum_length, app_length. reflexivity. Qed.

Lemma pool_idx (e1 e2 : list T) :
  Forall (fun p : T * Z => 0 <= snd p < Z.of_nat (List.length e1 + List.length e2)) (pool e1 e2).
Proof.
  unfold pool. apply Forall_map. eapply Forall_impl; [|apply zenum_bounds'].
  intros p Hp. cbn [snd fst]. rewrite app_length in Hp. lia.
Qed.

(* the model of Model/Dscore.v with the sort as a parameter
   ([sumrank] is [sumrank_s (isort_by ens_le)]) *)
Definition sumrank_s (sort : list (T * Z) -> list (T * Z)) (eps : T) (e1 e2 : list T) : T :=
  let ncol := Z.of_nat (List.length e1) in
  let sorted := sort (pool e1 e2) in
  sc_sum (scan_loop N eps ncol 0 sorted (scan_init N sorted)).
Definition pairF_s sort (eps : T) (e1 e2 : list T) : T :=
  F_of_sumrank N (List.length e1) (sumrank_s sort eps e1 e2).

Definition qs := glibc_sort (ens_le N K).

Lemma pair_body m n (nval ncol i1 i2 : nat) j ninit eps (r : @fr T) (rows : list (list T))
      fmat ranks ens :
  lits_ok N X K -> cmp_lit_ok X K -> cmp_sign_ok N K -> idx_ok N ncol ->
  Forall (fun r => List.length r = ncol) rows -> List.length rows = nval -> (0 < ncol)%nat ->
  (i1 < i2)%nat -> (i2 < nval)%nat ->
  List.length fmat = (nval * nval)%nat -> List.length ranks = nval ->
  List.length ens = (4 * ncol)%nat -> (2 * ncol < n)%nat ->
  let F := pairF_s qs eps (nth i1 rows []) (nth i2 rows []) in
  exists r' ens', List.length ens' = (4 * ncol)%nat /\
  exec N X (exec_fun N X program (S m)) n (for_stmt inner_for)
    (esr (Z.of_nat nval) (Z.of_nat ncol) (Z.of_nat i1) (Z.of_nat i2) j ninit eps
         (nofZ N (Z.of_nat ncol)) r (List.concat rows) fmat ranks ens)
  = Ok (ONormal,
        esr (Z.of_nat nval) (Z.of_nat ncol) (Z.of_nat i1) (Z.of_nat i2) (2 * Z.of_nat ncol) ninit eps
            (nofZ N (Z.of_nat ncol)) r' (List.concat rows)
            (upd_nth (i1 * nval + i2) (fun _ => F) fmat)
            (rank_step N K ncol ranks (Z.of_nat i1, Z.of_nat i2, F)) ens').
Proof.
  intros HL HKc HS HI HF Hrows Hncol Hi12 Hi2 Hfm Hrk He Hn F.
  assert (Hl1 : List.length (nth i1 rows []) = ncol) by (apply Forall_nth_len; [assumption|lia]).
  assert (Hl2 : List.length (nth i2 rows []) = ncol) by (apply Forall_nth_len; [assumption|lia]).
  set (r1 := nth i1 rows []) in *. set (r2 := nth i2 rows []) in *.
  assert (Hsl : List.length (qs (pool r1 r2)) = (2 * ncol)%nat).
  { unfold qs, glibc_sort. rewrite gsort_length, pool_length. lia. }
  assert (Hsi : Forall (fun p : T * Z => 0 <= snd p < 2 * Z.of_nat ncol) (qs (pool r1 r2))).
  { unfold qs, glibc_sort. apply gsort_Forall. eapply Forall_impl; [|apply pool_idx].
    intros p Hp. cbn beta in Hp. lia. }
  assert (HFdef : F = F_of_sumrank N ncol
            (sc_sum (scan_loop N eps (Z.of_nat ncol) 0 (qs (pool r1 r2)) (scan_init N (qs (pool r1 r2)))))).
  { subst F. unfold pairF_s, sumrank_s. fold r1 r2. rewrite Hl1. reflexivity. }
  clearbody F.
  remember (qs (pool r1 r2)) as sorted eqn:Hsorted.
  destruct sorted as [|[a ia] [|[b ib] srt]]; try (cbn in Hsl; lia).
  destruct r as [v vp vn ix u F0 sr rk d dn tol nt st0 en].
  pose proof (qsort_flat N X K m (2 * Z.of_nat ncol) (pool r1 r2) HKc HS
                ltac:(rewrite pool_length; lia)) as Hq.
  fold qs in Hq. rewrite <- Hsorted in Hq.
  remember (exec_fun N X program (S m)) as callf eqn:Hcf.
  change (scan_init N ((a, ia) :: (b, ib) :: srt))
    with (mkScan (n0 N) (nofZ N (-1)) (nofZ N (-1)) (n0 N) (nadd N a (n1 N))) in HFdef.
  destruct (scan_loop_run N X K callf n (Z.of_nat nval) ncol (Z.of_nat i1) (Z.of_nat i2) ninit eps
              (nofZ N (Z.of_nat ncol)) v (nadd N a (n1 N)) b (n0 N) u F0 (n0 N) rk d dn tol (n0 N)
              (nofZ N (-1)) (nofZ N (-1)) (List.concat rows) fmat ranks
              ((a, ia) :: (b, ib) :: srt) HL HI Hsl Hsi Hn)
    as (v1 & vn1 & ix1 & rk1 & d1 & dn1 & Hscan).
  remember (scan_loop N eps (Z.of_nat ncol) 0 ((a, ia) :: (b, ib) :: srt)
              (mkScan (n0 N) (nofZ N (-1)) (nofZ N (-1)) (n0 N) (nadd N a (n1 N)))) as SF eqn:HSF.
  assert (Hx1 : exists x1, nth_error ranks i1 = Some x1).
  { destruct (nth_error ranks i1) eqn:E; [eexists; reflexivity|].
    apply nth_error_None in E. lia. }
  destruct Hx1 as (x1 & Hx1).
  set (U := u_of_F N K ncol F).
  set (ranks1 := upd_nth i1 (fun x => nadd N x U) ranks).
  assert (Hx2 : exists x2, nth_error ranks1 i2 = Some x2).
  { destruct (nth_error ranks1 i2) eqn:E; [eexists; reflexivity|].
    apply nth_error_None in E. unfold ranks1 in E. rewrite upd_nth_length in E. lia. }
  destruct Hx2 as (x2 & Hx2).
  eassert (Hrun : exec N X callf n (for_stmt inner_for)
                    (es (Z.of_nat nval) (Z.of_nat ncol) (Z.of_nat i1) (Z.of_nat i2) j ninit eps
                        (nofZ N (Z.of_nat ncol)) v vp vn ix u F0 sr rk d dn tol nt st0 en
                        (List.concat rows) fmat ranks ens) = Ok (ONormal, _)).
  { unfold es. cbv [for_stmt inner_for].
    peel. cbn. subst rest. norm_state.
    peel. cbn.
    pose proof (fill_loop N X callf n (Z.of_nat nval) ncol i1 i2 ninit eps
                  (nofZ N (Z.of_nat ncol)) v vp vn ix u F0 sr rk d dn tol nt st0 en rows fmat ranks ens
                  HF ltac:(lia) ltac:(lia) He Hn) as Hfill.
    rw_loop Hfill. clear Hfill. cbn. subst rest. unfold es.
    peel. cbn. fold r1 r2. rewrite Hq. cbn. subst rest. norm_state.
    peel. cbn. subst rest. norm_state.
    peel. cbn. subst rest. norm_state.
    peel. cbn. subst rest. norm_state.
    peel. cbn. subst rest. norm_state.
    peel. cbn. subst rest. norm_state.
    peel. cbn. subst rest. norm_state.
    peel. cbn. subst rest. norm_state.
    peel. cbn. subst rest. norm_state.
    rewrite (L_zero _ _ _ HL), (L_one _ _ _ HL), (L_m1 _ _ _ HL), (L_ofZ0 _ _ _ HL).
    peel. cbn. rw_loop Hscan. cbn. subst rest. unfold es.
    peel. cbn. rewrite (L_ofZ1 _ _ _ HL). unfold F_of_sumrank in HFdef. rewrite <- HFdef. subst rest. norm_state.
    peel. cbn.
    rewrite zset_upd_nth by nia.
    replace (Z.to_nat (Z.of_nat i1 * Z.of_nat nval + Z.of_nat i2)) with (i1 * nval + i2)%nat by nia.
    cbn. subst rest. norm_state.
    peel. cbn. subst rest. norm_state.
    peel. cbn. rewrite !truth_b2z, !if_ok. cbn. subst rest. norm_state.
    match goal with
    | |- context[("u", ?e)] =>
        replace e with U
          by (subst U; unfold u_of_F, u_of_F_tol, u_tol;
              rewrite (L_lo_c _ _ _ HL), (L_hi_c _ _ _ HL), (L_tie _ _ _ HL), (L_low _ _ _ HL),
                      (L_high _ _ _ HL), (L_tolnum _ _ _ HL); reflexivity)
    end.
    peel. cbn.
    rewrite (zget_nth_error ranks) by lia. rewrite Nat2Z.id, Hx1. cbn.
    rewrite zset_upd_nth by lia. rewrite Nat2Z.id.
    rewrite (upd_nth_get (fun x => nadd N x U) ranks i1 x1 Hx1). fold ranks1.
    cbn. subst rest. norm_state.
    cbn.
    rewrite (zget_nth_error ranks1) by lia. rewrite Nat2Z.id, Hx2. cbn.
    rewrite zset_upd_nth by (unfold ranks1; rewrite upd_nth_length; lia). rewrite Nat2Z.id.
    rewrite (L_one _ _ _ HL).
    rewrite (upd_nth_get (fun x => nadd N x (nsub N (n1 N) U)) ranks1 i2 x2 Hx2).
    cbn. norm_state. reflexivity. }
  eexists (mkFr _ _ _ _ _ _ _ _ _ _ _ _ _ _), _. split; cycle 1.
  - unfold esr at 1. fr_simpl. rewrite Hrun. unfold esr, es. fr_simpl.
    unfold rank_step. fold U. rewrite !Nat2Z.id. fold ranks1. reflexivity.
  - change (a :: nofZ N ia :: b :: nofZ N ib :: List.concat (map (item N) srt))
      with (flat N ((a, ia) :: (b, ib) :: srt)).
    rewrite flat_length, Hsl. lia.
Qed.

(* ---- the loops over the pairs of ensembles ---- *)

#[local] Arguments rank_step : simpl never.
#[local] Arguments Nat.add : simpl never.
#[local] Arguments Nat.mul : simpl never.

Fixpoint pairs_from_s sort (eps : T) (i1 : Z) (rows : list (list T)) : list (Z * Z * T) :=
  match rows with
  | [] => []
  | r1 :: rest =>
      map (fun kr => (i1, (i1 + 1 + fst kr)%Z, pairF_s sort eps r1 (snd kr))) (zenum 0 rest)
      ++ pairs_from_s sort eps (i1 + 1) rest
  end.

(* fmat[i1*nval+i2] = F *)
Definition fmat_set (nval : Z) (fm : list T) (p : Z * Z * T) : list T :=
  let '(i1, i2, F) := p in upd_nth (Z.to_nat (i1 * nval + i2)) (fun _ => F) fm.

Lemma rank_step_length ncol ranks p : List.length (rank_step N K ncol ranks p) = List.length ranks.
Proof. destruct p as [[a b] F]. unfold rank_step. rewrite !upd_nth_length. reflexivity. Qed.

Lemma skipn_nth_cons {A} (l : list A) (d : A) : forall k,
  (k < List.length l)%nat -> skipn k l = nth k l d :: skipn (S k) l.
Proof.
  induction l as [|a l IH]; intros k H; cbn [List.length] in H; [lia|].
  destruct k as [|k]; [reflexivity|].
  change (skipn (S k) (a :: l)) with (skipn k l). change (nth (S k) (a :: l) d) with (nth k l d).
  change (skipn (S (S k)) (a :: l)) with (skipn (S k) l). apply IH. lia.
Qed.

Definition row_pairs (eps : T) (i1 : nat) (r1 : list T) (k : Z) (rest : list (list T)) :=
  map (fun kr : Z * list T => (Z.of_nat i1, (Z.of_nat i1 + 1 + fst kr)%Z, pairF_s qs eps r1 (snd kr)))
      (zenum k rest).

Definition inner_inv (nval ncol i1 : nat) ninit eps (rows : list (list T)) fmat0 ranks0
           (k : nat) (st : state T) : Prop :=
  exists r ens j fm rk,
    List.length ens = (4 * ncol)%nat /\ List.length fm = (nval * nval)%nat /\
    List.length rk = nval /\ (S i1 + k <= nval)%nat /\
    fold_left (fmat_set (Z.of_nat nval))
      (row_pairs eps i1 (nth i1 rows []) (Z.of_nat k) (skipn (S i1 + k) rows)) fm
    = fold_left (fmat_set (Z.of_nat nval))
        (row_pairs eps i1 (nth i1 rows []) 0 (skipn (S i1) rows)) fmat0 /\
    fold_left (rank_step N K ncol)
      (row_pairs eps i1 (nth i1 rows []) (Z.of_nat k) (skipn (S i1 + k) rows)) rk
    = fold_left (rank_step N K ncol)
        (row_pairs eps i1 (nth i1 rows []) 0 (skipn (S i1) rows)) ranks0 /\
    st = esr (Z.of_nat nval) (Z.of_nat ncol) (Z.of_nat i1) (Z.of_nat (S i1 + k)) j ninit eps
             (nofZ N (Z.of_nat ncol)) r (List.concat rows) fm rk ens.

Lemma inner_loop (callf : callee T) m n (nval ncol i1 : nat) j ninit eps (r : @fr T)
      (rows : list (list T)) fmat ranks ens :
  callf = exec_fun N X program (S m) ->
  lits_ok N X K -> cmp_lit_ok X K -> cmp_sign_ok N K -> idx_ok N ncol ->
  Forall (fun r => List.length r = ncol) rows -> List.length rows = nval -> (0 < ncol)%nat ->
  (i1 < nval)%nat ->
  List.length fmat = (nval * nval)%nat -> List.length ranks = nval ->
  List.length ens = (4 * ncol)%nat -> (2 * ncol < n)%nat -> (nval < n)%nat ->
  let prs := row_pairs eps i1 (nth i1 rows []) 0 (skipn (S i1) rows) in
  exists r' ens' j', List.length ens' = (4 * ncol)%nat /\
  run_for callf n inner_for
    (esr (Z.of_nat nval) (Z.of_nat ncol) (Z.of_nat i1) (Z.of_nat (S i1)) j ninit eps
         (nofZ N (Z.of_nat ncol)) r (List.concat rows) fmat ranks ens)
  = Ok (ONormal,
        esr (Z.of_nat nval) (Z.of_nat ncol) (Z.of_nat i1) (Z.of_nat nval) j' ninit eps
            (nofZ N (Z.of_nat ncol)) r' (List.concat rows)
            (fold_left (fmat_set (Z.of_nat nval)) prs fmat)
            (fold_left (rank_step N K ncol) prs ranks) ens').
Proof.
  intros Hcf HL HKc HS HI HF Hrows Hncol Hi1 Hfm Hrk He Hn Hn2 prs.
  destruct (loop_rule
              (inner_inv nval ncol i1 ninit eps rows fmat ranks)
              (fun res => exists r' ens' j', List.length ens' = (4 * ncol)%nat /\
                 res = (ONormal,
                        esr (Z.of_nat nval) (Z.of_nat ncol) (Z.of_nat i1) (Z.of_nat nval) j' ninit eps
                            (nofZ N (Z.of_nat ncol)) r' (List.concat rows)
                            (fold_left (fmat_set (Z.of_nat nval)) prs fmat)
                            (fold_left (rank_step N K ncol) prs ranks) ens'))
              nval
              (cond_of N X (for_cond inner_for))
              (for_body (exec N X callf n (for_stmt inner_for)) (exec N X callf n (for_step inner_for))))
    with (fuel := n) (k := O)
         (st := esr (Z.of_nat nval) (Z.of_nat ncol) (Z.of_nat i1) (Z.of_nat (S i1)) j ninit eps
                    (nofZ N (Z.of_nat ncol)) r (List.concat rows) fmat ranks ens)
    as (res & Hres & r' & ens' & j' & Hl' & ->).
  - intros k st (rr & ens_k & jk & fm & rk & Hek & Hfk & Hrkk & Hk & Hfold1 & Hfold2 & ->).
    split; [lia|].
    destruct (Nat.eq_dec (S i1 + k) nval) as [Hend|Hnot].
    + (* i2 = nval: end of the loop *)
      destruct rr as [v vp vn ix u F0 sr rk0 d dn tol nt st0 en].
      unfold esr, es. fr_simpl. cbn.
      replace (Z.of_nat (S i1 + k) <? Z.of_nat nval) with false
        by (symmetry; apply Z.ltb_ge; lia).
      rewrite skipn_all2 in Hfold1, Hfold2 by lia.
      cbn [row_pairs zenum map fold_left] in Hfold1, Hfold2.
      subst prs. rewrite <- Hfold1, <- Hfold2.
      eexists (mkFr _ _ _ _ _ _ _ _ _ _ _ _ _ _), ens_k, jk. split; [exact Hek|].
      unfold esr, es. fr_simpl.
      replace (Z.of_nat (S i1 + k)) with (Z.of_nat nval) by lia. reflexivity.
    + assert (Hlt : (S i1 + k < nval)%nat) by lia.
      destruct (pair_body m n nval ncol i1 (S i1 + k) jk ninit eps rr rows fm rk ens_k
                  HL HKc HS HI HF Hrows Hncol ltac:(lia) Hlt Hfk Hrkk Hek Hn)
        as (r2 & ens2 & Hl2 & Hp).
      rewrite <- Hcf in Hp.
      unfold for_body. rewrite Hp. clear Hp.
      destruct rr as [v vp vn ix u F0 sr rk0 d dn tol nt st0 en].
      destruct r2 as [v' vp' vn' ix' u' F0' sr' rk0' d' dn' tol' nt' st0' en'].
      unfold esr, es. fr_simpl. cbn.
      replace (Z.of_nat (S i1 + k) <? Z.of_nat nval) with true
        by (symmetry; apply Z.ltb_lt; lia).
      rewrite (skipn_nth_cons rows [] (S i1 + k)) in Hfold1, Hfold2 by lia.
      cbn [row_pairs zenum map fold_left fst snd] in Hfold1, Hfold2.
      eexists (mkFr _ _ _ _ _ _ _ _ _ _ _ _ _ _), ens2, _,
        (upd_nth (i1 * nval + (S i1 + k))
           (fun _ => pairF_s qs eps (nth i1 rows []) (nth (S i1 + k) rows [])) fm),
        (rank_step N K ncol rk
           (Z.of_nat i1, Z.of_nat (S i1 + k),
            pairF_s qs eps (nth i1 rows []) (nth (S i1 + k) rows []))).
      split; [exact Hl2|].
      split; [rewrite upd_nth_length; exact Hfk|].
      split; [rewrite rank_step_length; exact Hrkk|].
      split; [lia|].
      split; [|split].
      3:{ norm_state. unfold esr, es. fr_simpl.
          replace (Z.of_nat (S i1 + k) + 1) with (Z.of_nat (S i1 + S k)) by lia.
          reflexivity. }
      * rewrite <- Hfold1. unfold row_pairs.
        replace (S i1 + S k)%nat with (S (S i1 + k)) by lia.
        replace (Z.of_nat (S k)) with (Z.of_nat k + 1) by lia.
        f_equal. unfold fmat_set.
        replace (Z.to_nat (Z.of_nat i1 * Z.of_nat nval + (Z.of_nat i1 + 1 + Z.of_nat k)))
          with (i1 * nval + (S i1 + k))%nat by nia.
        reflexivity.
      * rewrite <- Hfold2. unfold row_pairs.
        replace (S i1 + S k)%nat with (S (S i1 + k)) by lia.
        replace (Z.of_nat (S k)) with (Z.of_nat k + 1) by lia.
        f_equal.
        replace (Z.of_nat i1 + 1 + Z.of_nat k) with (Z.of_nat (S i1 + k)) by lia.
        reflexivity.
  - exists r, ens, j, fmat, ranks.
    split; [exact He|]. split; [exact Hfm|]. split; [exact Hrk|]. split; [lia|].
    replace (S i1 + 0)%nat with (S i1) by lia.
    split; [reflexivity|]. split; [reflexivity|]. reflexivity.
  - lia.
  - exists r', ens', j'. split; [exact Hl'|]. exact Hres.
Qed.

Definition outer_inv (nval ncol : nat) ninit eps (rows : list (list T)) fmat0 ranks0
           (k : nat) (st : state T) : Prop :=
  exists r ens j i2 fm rk,
    List.length ens = (4 * ncol)%nat /\ List.length fm = (nval * nval)%nat /\
    List.length rk = nval /\ (k <= nval)%nat /\
    fold_left (fmat_set (Z.of_nat nval)) (pairs_from_s qs eps (Z.of_nat k) (skipn k rows)) fm
    = fold_left (fmat_set (Z.of_nat nval)) (pairs_from_s qs eps 0 rows) fmat0 /\
    fold_left (rank_step N K ncol) (pairs_from_s qs eps (Z.of_nat k) (skipn k rows)) rk
    = fold_left (rank_step N K ncol) (pairs_from_s qs eps 0 rows) ranks0 /\
    st = esr (Z.of_nat nval) (Z.of_nat ncol) (Z.of_nat k) i2 j ninit eps
             (nofZ N (Z.of_nat ncol)) r (List.concat rows) fm rk ens.

Lemma fold_fmat_length nval l : forall fm,
  List.length (fold_left (fmat_set nval) l fm) = List.length fm.
Proof.
  induction l as [|[[a b] F] l IH]; intros fm; [reflexivity|].
  cbn [fold_left]. rewrite IH. unfold fmat_set. apply upd_nth_length.
Qed.

Lemma fold_rank_length ncol l : forall rk,
  List.length (fold_left (rank_step N K ncol) l rk) = List.length rk.
Proof.
  induction l as [|p l IH]; intros rk; [reflexivity|].
  cbn [fold_left]. rewrite IH. apply rank_step_length.
Qed.

Lemma outer_loop (callf : callee T) m n (nval ncol : nat) i2 j ninit eps (r : @fr T)
      (rows : list (list T)) fmat ranks ens :
  callf = exec_fun N X program (S m) ->
  lits_ok N X K -> cmp_lit_ok X K -> cmp_sign_ok N K -> idx_ok N ncol ->
  Forall (fun r => List.length r = ncol) rows -> List.length rows = nval -> (0 < ncol)%nat ->
  List.length fmat = (nval * nval)%nat -> List.length ranks = nval ->
  List.length ens = (4 * ncol)%nat -> (2 * ncol < n)%nat -> (nval < n)%nat ->
  let prs := pairs_from_s qs eps 0 rows in
  exists r' ens' j' i2',
  run_for callf n outer_for
    (esr (Z.of_nat nval) (Z.of_nat ncol) 0 i2 j ninit eps
         (nofZ N (Z.of_nat ncol)) r (List.concat rows) fmat ranks ens)
  = Ok (ONormal,
        esr (Z.of_nat nval) (Z.of_nat ncol) (Z.of_nat nval) i2' j' ninit eps
            (nofZ N (Z.of_nat ncol)) r' (List.concat rows)
            (fold_left (fmat_set (Z.of_nat nval)) prs fmat)
            (fold_left (rank_step N K ncol) prs ranks) ens').
Proof.
  intros Hcf HL HKc HS HI HF Hrows Hncol Hfm Hrk He Hn Hn2 prs.
  destruct (loop_rule
              (outer_inv nval ncol ninit eps rows fmat ranks)
              (fun res => exists r' ens' j' i2',
                 res = (ONormal,
                        esr (Z.of_nat nval) (Z.of_nat ncol) (Z.of_nat nval) i2' j' ninit eps
                            (nofZ N (Z.of_nat ncol)) r' (List.concat rows)
                            (fold_left (fmat_set (Z.of_nat nval)) prs fmat)
                            (fold_left (rank_step N K ncol) prs ranks) ens'))
              nval
              (cond_of N X (for_cond outer_for))
              (for_body (exec N X callf n (for_stmt outer_for)) (exec N X callf n (for_step outer_for))))
    with (fuel := n) (k := O)
         (st := esr (Z.of_nat nval) (Z.of_nat ncol) 0 i2 j ninit eps
                    (nofZ N (Z.of_nat ncol)) r (List.concat rows) fmat ranks ens)
    as (res & Hres & r' & ens' & j' & i2' & ->).
  - intros k st (rr & ens_k & jk & i2k & fm & rk & Hek & Hfk & Hrkk & Hk & Hfold1 & Hfold2 & ->).
    split; [lia|].
    destruct (Nat.eq_dec k nval) as [Hend|Hnot].
    + destruct rr as [v vp vn ix u F0 sr rk0 d dn tol nt st0 en].
      unfold esr, es. fr_simpl. cbn.
      replace (Z.of_nat k <? Z.of_nat nval) with false by (symmetry; apply Z.ltb_ge; lia).
      rewrite skipn_all2 in Hfold1, Hfold2 by lia.
      cbn [pairs_from_s fold_left] in Hfold1, Hfold2.
      subst prs. rewrite <- Hfold1, <- Hfold2.
      eexists (mkFr _ _ _ _ _ _ _ _ _ _ _ _ _ _), ens_k, jk, i2k.
      unfold esr, es. fr_simpl.
      replace (Z.of_nat k) with (Z.of_nat nval) by lia. reflexivity.
    + assert (Hlt : (k < nval)%nat) by lia.
      destruct (inner_loop callf m n nval ncol k jk ninit eps rr rows fm rk ens_k
                  Hcf HL HKc HS HI HF Hrows Hncol Hlt Hfk Hrkk Hek Hn Hn2)
        as (r2 & ens2 & j2 & Hl2 & Hin).
      rewrite (skipn_nth_cons rows [] k) in Hfold1, Hfold2 by lia.
      cbn [pairs_from_s] in Hfold1, Hfold2. rewrite fold_left_app in Hfold1, Hfold2.
      destruct rr as [v vp vn ix u F0 sr rk0 d dn tol nt st0 en].
      destruct r2 as [v' vp' vn' ix' u' F0' sr' rk0' d' dn' tol' nt' st0' en'].
      unfold esr, es in Hin |- *. fr_simpl. cbn [r_v r_vp r_vn r_ix r_u r_F r_sr r_rk r_d r_dn r_tol r_nt r_st r_en] in Hin.
      unfold for_body. cbn.
      replace (Z.of_nat k <? Z.of_nat nval) with true by (symmetry; apply Z.ltb_lt; lia).
      replace (Z.of_nat k + 1) with (Z.of_nat (S k)) by lia.
      rw_loop Hin. clear Hin. cbn.
      eexists (mkFr _ _ _ _ _ _ _ _ _ _ _ _ _ _), ens2, _, _, _, _.
      split; [exact Hl2|].
      split; [rewrite fold_fmat_length; exact Hfk|].
      split; [rewrite fold_rank_length; exact Hrkk|].
      split; [lia|].
      split; [|split].
      3:{ norm_state. unfold esr, es. fr_simpl.
          replace (Z.of_nat k + 1) with (Z.of_nat (S k)) by lia. reflexivity. }
      * rewrite <- Hfold1.
        replace (Z.of_nat (S k)) with (Z.of_nat k + 1) by lia. reflexivity.
      * rewrite <- Hfold2.
        replace (Z.of_nat (S k)) with (Z.of_nat k + 1) by lia. reflexivity.
  - exists r, ens, j, i2, fmat, ranks.
    split; [exact He|]. split; [exact Hfm|]. split; [exact Hrk|]. split; [lia|].
    split; [reflexivity|]. split; [reflexivity|]. reflexivity.
  - lia.
  - exists r', ens', j', i2'. exact Hres.
Qed.

End Refine.

(* ------------------------------------------------------------------ *)
(* part 6 *)

#[local] Arguments qsort_list : simpl never.
#[local] Arguments Nat.min : simpl never.
#[local] Arguments skipn : simpl never.
#[local] Arguments firstn : simpl never.
#[local] Arguments repeat : simpl never.
#[local] Arguments upd_nth : simpl never.
#[local] Arguments nth : simpl never.
#[local] Arguments rank_step : simpl never.
#[local] Arguments Nat.add : simpl never.
#[local] Arguments Nat.mul : simpl never.
#[local] Arguments fold_left : simpl never.
#[local] Arguments zrepeat : simpl never.

Lemma map_const_repeat' {A B} (d : B) (l : list A) : map (fun _ => d) l = repeat d (List.length l).
Proof. induction l as [|a l IH]; [reflexivity|]. cbn [map List.length]. rewrite IH. reflexivity. Qed.

Lemma eqb0_leb a : Nat.eqb a 0 = (Z.of_nat a <=? 0).
Proof. destruct a; reflexivity. Qed.

Section Refine.
Context {T : Type} (N : NumOps T) (X : NumLit T) (K : DsConsts T).

Notation run_for callf n s st :=
  (loop n (cond_of N X (for_cond s))
     (for_body (exec N X callf n (for_stmt s)) (exec N X callf n (for_step s))) st).

(* [ensrank] of Model/Dscore.v with the sort as a parameter *)
Definition ensrank_s sort (eps : T) (sim : list (list T)) : @ensres T :=
  if nltb N eps (k_eps_min K) then EnsErr DS_EVALUE
  else
    let ncol := match sim with r :: _ => List.length r | [] => O end in
    if Nat.eqb ncol 0 || Nat.eqb (List.length sim) 0 then EnsErr DS_ESIZE
    else
      let fs := pairs_from_s N sort eps 0 sim in
      EnsOk fs (fold_left (rank_step N K ncol) fs (map (fun _ => n1 N) sim)).

Lemma pairs_from_s_isort eps rows : forall i1,
  pairs_from_s N (isort_by (ens_le N K)) eps i1 rows = pairs_from N K eps i1 rows.
Proof.
  induction rows as [|r1 rest IH]; intros i1; [reflexivity|].
  cbn [pairs_from_s pairs_from]. rewrite IH. reflexivity.
Qed.

Lemma ensrank_s_isort eps sim : ensrank_s (isort_by (ens_le N K)) eps sim = ensrank N K eps sim.
Proof. unfold ensrank_s, ensrank. rewrite pairs_from_s_isort. reflexivity. Qed.

(* the outputs of c_ensrank for a result of the model *)
Definition ens_outputs (res : @ensres T) (sim : list (list T)) (fmat ranks : list T)
  : retval T * list (arrval T) :=
  match res with
  | EnsErr code => (RI code, [VArrF (List.concat sim); VArrF fmat; VArrF ranks])
  | EnsOk fs rk =>
      (RI 0, [VArrF (List.concat sim);
              VArrF (fold_left (fmat_set (Z.of_nat (List.length sim))) fs fmat);
              VArrF rk])
  end.

Definition ens_params : list param :=
  [PF "eps"; PI "nval"; PI "ncol"; PArrF "sim"; PArrF "fmat"; PArrF "ranks"].

Definition ens_st0 (eps : T) (nval ncol : Z) (sim fmat ranks : list T) : state T :=
  {| s_i := [("nval", nval); ("ncol", ncol)];
     s_f := [("eps", eps)];
     s_ai := [];
     s_af := [("sim", sim); ("fmat", fmat); ("ranks", ranks)] |}.

Lemma find_ensrank : find_fun program "c_ensrank" = Ok (ens_params, ens_body).
Proof. reflexivity. Qed.

(* sequencing without exposing the rest of the body to the kernel's conversion *)
Lemma exec_seq_normal (callf : callee T) fuel a b st st' :
  exec N X callf fuel a st = Ok (ONormal, st') ->
  exec N X callf fuel (SSeq a b) st = exec N X callf fuel b st'.
Proof. intros H. cbn [exec]. rewrite H. reflexivity. Qed.

Lemma exec_seq_ret (callf : callee T) fuel a b st v st' :
  exec N X callf fuel a st = Ok (ORet v, st') ->
  exec N X callf fuel (SSeq a b) st = Ok (ORet v, st').
Proof. intros H. cbn [exec]. rewrite H. reflexivity. Qed.

Lemma exec_fun_unfold p n f args :
  exec_fun N X p (S n) f args =
  (do fd <- find_fun p f;
   do st0 <- bind_params f (fst fd) args st_empty;
   match exec N X (exec_fun N X p n) n (snd fd) st0 with
   | Ok (ORet v, st) => do o <- out_arrays (fst fd) st; Ok (v, o)
   | Ok (_, _) => Err (BadRet f)
   | Err e => Err e
   end).
Proof. reflexivity. Qed.

Ltac seq_open :=
  match goal with
  | |- exec ?N ?X ?c ?n (SSeq ?a ?b) ?st = _ =>
      eassert (Hs : exec N X c n a st = Ok (ONormal, _))
  end.
Ltac seq_open_ret :=
  match goal with
  | |- exec ?N ?X ?c ?n (SSeq ?a ?b) ?st = _ =>
      eassert (Hs : exec N X c n a st = Ok (ORet _, _))
  end.
Ltac seq_close :=
  match goal with
  | Hs : exec ?N ?X ?c ?n ?a ?st = Ok (ONormal, ?st') |- exec _ _ _ _ (SSeq ?a ?b) ?st = _ =>
      rewrite (exec_seq_normal c n a b st st' Hs); clear Hs
  | Hs : exec ?N ?X ?c ?n ?a ?st = Ok (ORet ?v, ?st') |- exec _ _ _ _ (SSeq ?a ?b) ?st = _ =>
      rewrite (exec_seq_ret c n a b st v st' Hs); clear Hs
  end.
(* a statement that runs by computation alone *)
Ltac step := seq_open; [cbn; norm_state; reflexivity|]; seq_close.

Lemma body_evalue (callf : callee T) n eps nval ncol sim fmat ranks :
  nltb N eps (nlit X (0x1.79ca10c924223p-67)%float 1 100000000000000000000) = true ->
  exists st,
    exec N X callf n ens_body (ens_st0 eps nval ncol sim fmat ranks) = Ok (ORet (RI 5001), st) /\
    out_arrays ens_params st = Ok [VArrF sim; VArrF fmat; VArrF ranks].
Proof.
  intros Heps. eexists. split.
  - unfold ens_st0, ens_body. do 20 step.
    seq_open_ret. { cbn. rewrite Heps. cbn. reflexivity. }
    seq_close. reflexivity.
  - reflexivity.
Qed.

Lemma body_esize (callf : callee T) n eps nval ncol sim fmat ranks :
  nltb N eps (nlit X (0x1.79ca10c924223p-67)%float 1 100000000000000000000) = false ->
  (ncol <=? 0) || (nval <=? 0) = true ->
  exists st,
    exec N X callf n ens_body (ens_st0 eps nval ncol sim fmat ranks) = Ok (ORet (RI 5000), st) /\
    out_arrays ens_params st = Ok [VArrF sim; VArrF fmat; VArrF ranks].
Proof.
  intros Heps Hsz. eexists. split.
  - unfold ens_st0, ens_body. do 20 step.
    seq_open. { cbn. rewrite Heps. cbn. reflexivity. }
    seq_close.
    seq_open_ret.
    { cbn. rewrite !truth_b2z, or_ok. cbn. rewrite truth_b2z, Hsz. cbn. reflexivity. }
    seq_close. reflexivity.
  - reflexivity.
Qed.

Lemma body_ok (callf : callee T) m n eps (sim : list (list T)) (nval ncol : nat) fmat ranks :
  callf = exec_fun N X program (S m) ->
  lits_ok N X K -> cmp_lit_ok X K -> cmp_sign_ok N K -> idx_ok N ncol ->
  Forall (fun r => List.length r = ncol) sim -> List.length sim = nval ->
  List.length fmat = (nval * nval)%nat -> List.length ranks = nval ->
  (0 < ncol)%nat -> (0 < nval)%nat ->
  (Nat.max nval (2 * ncol) < n)%nat ->
  nltb N eps (nlit X (0x1.79ca10c924223p-67)%float 1 100000000000000000000) = false ->
  let prs := pairs_from_s N (qs N K) eps 0 sim in
  exists st,
    exec N X callf n ens_body
      (ens_st0 eps (Z.of_nat nval) (Z.of_nat ncol) (List.concat sim) fmat ranks)
    = Ok (ORet (RI 0), st) /\
    out_arrays ens_params st
    = Ok [VArrF (List.concat sim);
          VArrF (fold_left (fmat_set (Z.of_nat nval)) prs fmat);
          VArrF (fold_left (rank_step N K ncol) prs (repeat (n1 N) nval))].
Proof.
  intros Hcf HL HKc HS HI HF Hnval Hfm Hrk Hc0 Hv0 Hn Heps prs.
  set (ninit := if Z.of_nat nval <? 2 * Z.of_nat ncol then 2 * Z.of_nat ncol else Z.of_nat nval).
  assert (Hni : Z.of_nat nval <= ninit /\ 2 * Z.of_nat ncol <= ninit /\ (Z.to_nat ninit < n)%nat).
  { subst ninit. destruct (Z.ltb_spec (Z.of_nat nval) (2 * Z.of_nat ncol)); lia. }
  destruct Hni as (Hni1 & Hni2 & Hni3).
  set (z := nofZ N 0).
  destruct (init_loop N X callf n nval ncol ninit eps z (mkFr z z z z z z z z z z z z z z)
              (List.concat sim) fmat ranks (zrepeat (n0 N) (2 * Z.of_nat ncol * 2 - 0)))
    as (ens1 & Hl1 & Hinit); try assumption.
  { rewrite zrepeat_eq, repeat_length. lia. }
  unfold one_lit in Hinit. rewrite (L_one _ _ _ HL) in Hinit.
  destruct (outer_loop N X K callf m n nval ncol 0 ninit ninit eps (mkFr z z z z z z z z z z z z z z)
              sim fmat (repeat (n1 N) nval) ens1 Hcf HL HKc HS HI HF Hnval)
    as (r2 & ens2 & j2 & i22 & Hout); try assumption; try lia.
  { apply repeat_length. }
  destruct r2 as [v' vp' vn' ix' u' F0' sr' rk0' d' dn' tol' nt' st0' en'].
  unfold esr, es in Hout, Hinit.
  cbn [r_v r_vp r_vn r_ix r_u r_F r_sr r_rk r_d r_dn r_tol r_nt r_st r_en] in Hout, Hinit.
  eexists. split.
  - unfold ens_st0, ens_body. do 20 step.
    seq_open. { cbn. rewrite Heps. cbn. reflexivity. }
    seq_close.
    seq_open.
    { cbn. rewrite !truth_b2z, or_ok. cbn. rewrite truth_b2z.
      replace ((Z.of_nat ncol <=? 0) || (Z.of_nat nval <=? 0)) with false
        by (symmetry; apply orb_false_iff; split; apply Z.leb_gt; lia).
      cbn. reflexivity. }
    seq_close.
    seq_open.
    { cbn. unfold new_arr.
      replace (2 * Z.of_nat ncol * 2 <? 0) with false by (symmetry; apply Z.ltb_ge; lia).
      replace (2 * Z.of_nat ncol * 2 <? zlen (@nil T)) with false
        by (symmetry; apply Z.ltb_ge; cbn; lia).
      cbn. norm_state. reflexivity. }
    seq_close.
    step.
    seq_open. { cbn. rewrite truth_b2z, if_ok. cbn. norm_state. reflexivity. }
    seq_close.
    step.
    seq_open. { exact Hinit. }
    seq_close.
    step. step.
    seq_open. { exact Hout. }
    seq_close.
    cbn. reflexivity.
  - cbn. reflexivity.
Qed.

(* c_ensrank, for every input: what the kernel returns and leaves in its arrays is the
   model [ensrank] in which the sort is glibc's merge sort [qs] *)
Theorem refine_c_ensrank_qsort eps (sim : list (list T)) (ncol : nat) fmat ranks n :
  lits_ok N X K -> cmp_lit_ok X K -> cmp_sign_ok N K -> idx_ok N ncol ->
  Forall (fun r => List.length r = ncol) sim ->
  List.length fmat = (List.length sim * List.length sim)%nat ->
  List.length ranks = List.length sim ->
  (Nat.max (List.length sim) (2 * ncol) < n)%nat ->
  exec_fun N X program (S n) "c_ensrank"
    [AVF eps; AVI (Z.of_nat (List.length sim)); AVI (Z.of_nat ncol);
     AVArrF (List.concat sim); AVArrF fmat; AVArrF ranks]
  = Ok (ens_outputs (ensrank_s (qs N K) eps sim) sim fmat ranks).
Proof.
  intros HL HKc HS HI HF Hfm Hrk Hn.
  destruct n as [|m]; [lia|].
  rewrite exec_fun_unfold, find_ensrank.
  cbn [bind fst snd bind_params ens_params].
  change (set_af (set_af (set_af (set_i (set_i (set_f st_empty "eps" eps) "nval"
            (Z.of_nat (List.length sim))) "ncol" (Z.of_nat ncol)) "sim" (List.concat sim))
            "fmat" fmat) "ranks" ranks)
    with (ens_st0 eps (Z.of_nat (List.length sim)) (Z.of_nat ncol) (List.concat sim) fmat ranks).
  unfold ensrank_s. rewrite (L_epsmin _ _ _ HL).
  destruct (nltb N eps _) eqn:Heps.
  { destruct (body_evalue (exec_fun N X program (S m)) (S m) eps (Z.of_nat (List.length sim))
                (Z.of_nat ncol) (List.concat sim) fmat ranks Heps) as (st & Hb & Ho).
    rewrite Hb. cbn [bind ens_outputs]. rewrite Ho. reflexivity. }
  assert (Hsz : Nat.eqb (match sim with r :: _ => List.length r | [] => O end) 0
                || Nat.eqb (List.length sim) 0
                = (Z.of_nat ncol <=? 0) || (Z.of_nat (List.length sim) <=? 0)).
  { rewrite !eqb0_leb. destruct sim as [|r0 sim'].
    - cbn. rewrite !orb_true_r. reflexivity.
    - inversion HF as [|? ? Hr0 HF']. rewrite Hr0. reflexivity. }
  cbv zeta. rewrite Hsz.
  destruct ((Z.of_nat ncol <=? 0) || (Z.of_nat (List.length sim) <=? 0)) eqn:Hsz2.
  { destruct (body_esize (exec_fun N X program (S m)) (S m) eps (Z.of_nat (List.length sim))
                (Z.of_nat ncol) (List.concat sim) fmat ranks Heps Hsz2) as (st & Hb & Ho).
    rewrite Hb. cbn [bind ens_outputs]. rewrite Ho. reflexivity. }
  apply orb_false_iff in Hsz2. destruct Hsz2 as [Hc0 Hv0].
  apply Z.leb_gt in Hc0. apply Z.leb_gt in Hv0.
  destruct (body_ok (exec_fun N X program (S m)) m (S m) eps sim (List.length sim) ncol fmat ranks
              eq_refl HL HKc HS HI HF eq_refl Hfm Hrk ltac:(lia) ltac:(lia) Hn Heps)
    as (st & Hb & Ho).
  rewrite Hb. cbn [bind ens_outputs]. rewrite Ho.
  rewrite map_const_repeat'.
  replace (match sim with r :: _ => List.length r | [] => O end) with ncol.
  2:{ destruct sim as [|r0 sim']; [cbn in Hv0; lia|]. inversion HF; subst. reflexivity. }
  reflexivity.
Qed.

End Refine.

(* ------------------------------------------------------------------ *)
(* part 7 *)

Section Refine.
Context {T : Type} (N : NumOps T) (X : NumLit T) (K : DsConsts T).

(* ---- from glibc's merge sort to the model's insertion sort ---- *)

(* the two sorts return the same array for every pair of ensembles the kernel pools *)
Fixpoint pairs_agree (rows : list (list T)) : Prop :=
  match rows with
  | [] => True
  | r1 :: rest =>
      Forall (fun r2 => qs N K (pool r1 r2) = isort_by (ens_le N K) (pool r1 r2)) rest
      /\ pairs_agree rest
  end.

Lemma row_pairs_agree eps i1 r1 rest : forall k,
  Forall (fun r2 => qs N K (pool r1 r2) = isort_by (ens_le N K) (pool r1 r2)) rest ->
  map (fun kr : Z * list T => (i1, (i1 + 1 + fst kr)%Z, pairF_s N (qs N K) eps r1 (snd kr))) (zenum k rest)
  = map (fun kr : Z * list T => (i1, (i1 + 1 + fst kr)%Z, pairF N K eps r1 (snd kr))) (zenum k rest).
Proof.
  induction rest as [|r2 rest IH]; intros k F; [reflexivity|].
  inversion F as [|? ? H2 F']; subst. cbn [zenum map fst snd].
  rewrite IH by assumption. f_equal.
  unfold pairF_s, sumrank_s, pairF, sumrank. rewrite H2. reflexivity.
Qed.

Lemma pairs_from_agree eps rows : pairs_agree rows -> forall i1,
  pairs_from_s N (qs N K) eps i1 rows = pairs_from N K eps i1 rows.
Proof.
  induction rows as [|r1 rest IH]; intros HA i1; [reflexivity|].
  destruct HA as [H1 H2]. cbn [pairs_from_s pairs_from].
  rewrite IH by assumption. rewrite row_pairs_agree by assumption. reflexivity.
Qed.

Lemma ensrank_s_agree eps sim : pairs_agree sim ->
  ensrank_s N K (qs N K) eps sim = ensrank N K eps sim.
Proof.
  intros HA. unfold ensrank_s, ensrank. rewrite pairs_from_agree by assumption. reflexivity.
Qed.

(* c_ensrank = the model [ensrank] of Model/Dscore.v, whenever the stable insertion sort of
   the model and glibc's merge sort agree on the pooled arrays *)
Theorem refine_c_ensrank eps (sim : list (list T)) (ncol : nat) fmat ranks n :
  lits_ok N X K -> cmp_lit_ok X K -> cmp_sign_ok N K -> idx_ok N ncol ->
  pairs_agree sim ->
  Forall (fun r => List.length r = ncol) sim ->
  List.length fmat = (List.length sim * List.length sim)%nat ->
  List.length ranks = List.length sim ->
  (Nat.max (List.length sim) (2 * ncol) < n)%nat ->
  exec_fun N X program (S n) "c_ensrank"
    [AVF eps; AVI (Z.of_nat (List.length sim)); AVI (Z.of_nat ncol);
     AVArrF (List.concat sim); AVArrF fmat; AVArrF ranks]
  = Ok (ens_outputs (ensrank N K eps sim) sim fmat ranks).
Proof.
  intros HL HKc HS HI HA HF Hfm Hrk Hn.
  rewrite <- (ensrank_s_agree eps sim HA).
  apply (refine_c_ensrank_qsort N X K); assumption.
Qed.

(* sufficient: compare() is a total preorder on the pooled values *)
Definition cmp_preorder (l : list (T * Z)) : Prop :=
  (forall a b, In a l -> In b l -> ens_le N K a b = true \/ ens_le N K b a = true) /\
  (forall a b c, In a l -> In b l -> In c l ->
     ens_le N K a b = true -> ens_le N K b c = true -> ens_le N K a c = true).

Lemma preorder_agree l : cmp_preorder l -> qs N K l = isort_by (ens_le N K) l.
Proof.
  intros [Ht Htr]. unfold qs.
  apply (glibc_sort_isort (ens_le N K) (fun a => In a l)).
  - exact Ht.
  - exact Htr.
  - apply Forall_forall. intros a Ha. exact Ha.
Qed.

Fixpoint pairs_preorder (rows : list (list T)) : Prop :=
  match rows with
  | [] => True
  | r1 :: rest => Forall (fun r2 => cmp_preorder (pool r1 r2)) rest /\ pairs_preorder rest
  end.

Lemma pairs_preorder_agree rows : pairs_preorder rows -> pairs_agree rows.
Proof.
  induction rows as [|r1 rest IH]; intros H; [exact I|].
  destruct H as [H1 H2]. split; [|apply IH; exact H2].
  eapply Forall_impl; [|exact H1]. intros r2 Hp. apply preorder_agree. exact Hp.
Qed.

End Refine.

From Coq Require Import Reals Lra.
Open Scope Z_scope.

(* ================================================================== *)
(* the hypotheses on the arithmetic hold in the instances of the property theorems *)

Lemma lits_ok_RR : lits_ok RR XRR KR.
Proof.
  constructor; cbn; unfold lit_R, DS_EPS_MIN_R, DS_U_TOL_NUM_R, DS_U_LO_C_R, DS_U_HI_C_R,
    DS_U_TIE_R, DS_U_LOW_R, DS_U_HIGH_R; try reflexivity; try lra.
Qed.

Lemma cmp_lit_ok_RR : cmp_lit_ok XRR KR.
Proof. reflexivity. Qed.

Lemma cmp_sign_ok_RR : cmp_sign_ok RR KR.
Proof.
  intros d H. cbn in *. unfold DS_CMP_TOL_R in *.
  apply Rltb_true in H. apply Rltb_false. lra.
Qed.

Lemma idx_ok_RR ncol : idx_ok RR ncol.
Proof.
  intros a _. cbn. destruct (Z.ltb_spec a (Z.of_nat ncol)) as [H|H].
  - apply Rltb_true. apply IZR_lt. exact H.
  - apply Rltb_false. apply IZR_le. exact H.
Qed.

Lemma lits_ok_RN : lits_ok RN XRN KN.
Proof.
  constructor; cbn; unfold lit_R, DS_EPS_MIN_R, DS_U_TOL_NUM_R, DS_U_LO_C_R, DS_U_HI_C_R,
    DS_U_TIE_R, DS_U_LOW_R, DS_U_HIGH_R; try reflexivity; f_equal; lra.
Qed.

Lemma cmp_lit_ok_RN : cmp_lit_ok XRN KN.
Proof. reflexivity. Qed.

Lemma cmp_sign_ok_RN : cmp_sign_ok RN KN.
Proof.
  intros [d|] H; cbn in *; [|reflexivity]. unfold DS_CMP_TOL_R in *.
  apply Rltb_true in H. apply Rltb_false. lra.
Qed.

Lemma idx_ok_RN ncol : idx_ok RN ncol.
Proof.
  intros a _. cbn. destruct (Z.ltb_spec a (Z.of_nat ncol)) as [H|H].
  - apply Rltb_true. apply IZR_lt. exact H.
  - apply Rltb_false. apply IZR_le. exact H.
Qed.

Lemma lits_ok_F64 : lits_ok F64 XF64 KF.
Proof. constructor; reflexivity. Qed.

Lemma cmp_lit_ok_F64 : cmp_lit_ok XF64 KF.
Proof. reflexivity. Qed.

(* real numbers: no hypothesis on the arithmetic is left *)
Theorem refine_c_ensrank_qsort_RR eps (sim : list (list R)) (ncol : nat) fmat ranks n :
  Forall (fun r => List.length r = ncol) sim ->
  List.length fmat = (List.length sim * List.length sim)%nat ->
  List.length ranks = List.length sim ->
  (Nat.max (List.length sim) (2 * ncol) < n)%nat ->
  exec_fun RR XRR program (S n) "c_ensrank"
    [AVF eps; AVI (Z.of_nat (List.length sim)); AVI (Z.of_nat ncol);
     AVArrF (List.concat sim); AVArrF fmat; AVArrF ranks]
  = Ok (ens_outputs (ensrank_s RR KR (qs RR KR) eps sim) sim fmat ranks).
Proof.
  apply refine_c_ensrank_qsort;
    [exact lits_ok_RR|exact cmp_lit_ok_RR|exact cmp_sign_ok_RR|apply idx_ok_RR].
Qed.

Theorem refine_c_ensrank_RR eps (sim : list (list R)) (ncol : nat) fmat ranks n :
  pairs_agree RR KR sim ->
  Forall (fun r => List.length r = ncol) sim ->
  List.length fmat = (List.length sim * List.length sim)%nat ->
  List.length ranks = List.length sim ->
  (Nat.max (List.length sim) (2 * ncol) < n)%nat ->
  exec_fun RR XRR program (S n) "c_ensrank"
    [AVF eps; AVI (Z.of_nat (List.length sim)); AVI (Z.of_nat ncol);
     AVArrF (List.concat sim); AVArrF fmat; AVArrF ranks]
  = Ok (ens_outputs (ensrank RR KR eps sim) sim fmat ranks).
Proof.
  apply refine_c_ensrank;
    [exact lits_ok_RR|exact cmp_lit_ok_RR|exact cmp_sign_ok_RR|apply idx_ok_RR].
Qed.

(* reals with an explicit NaN *)
Theorem refine_c_ensrank_qsort_RN eps (sim : list (list (option R))) (ncol : nat) fmat ranks n :
  Forall (fun r => List.length r = ncol) sim ->
  List.length fmat = (List.length sim * List.length sim)%nat ->
  List.length ranks = List.length sim ->
  (Nat.max (List.length sim) (2 * ncol) < n)%nat ->
  exec_fun RN XRN program (S n) "c_ensrank"
    [AVF eps; AVI (Z.of_nat (List.length sim)); AVI (Z.of_nat ncol);
     AVArrF (List.concat sim); AVArrF fmat; AVArrF ranks]
  = Ok (ens_outputs (ensrank_s RN KN (qs RN KN) eps sim) sim fmat ranks).
Proof.
  apply refine_c_ensrank_qsort;
    [exact lits_ok_RN|exact cmp_lit_ok_RN|exact cmp_sign_ok_RN|apply idx_ok_RN].
Qed.

Theorem refine_c_ensrank_RN eps (sim : list (list (option R))) (ncol : nat) fmat ranks n :
  pairs_agree RN KN sim ->
  Forall (fun r => List.length r = ncol) sim ->
  List.length fmat = (List.length sim * List.length sim)%nat ->
  List.length ranks = List.length sim ->
  (Nat.max (List.length sim) (2 * ncol) < n)%nat ->
  exec_fun RN XRN program (S n) "c_ensrank"
    [AVF eps; AVI (Z.of_nat (List.length sim)); AVI (Z.of_nat ncol);
     AVArrF (List.concat sim); AVArrF fmat; AVArrF ranks]
  = Ok (ens_outputs (ensrank RN KN eps sim) sim fmat ranks).
Proof.
  apply refine_c_ensrank;
    [exact lits_ok_RN|exact cmp_lit_ok_RN|exact cmp_sign_ok_RN|apply idx_ok_RN].
Qed.

(* ================================================================== *)
(* FINDING: the model [ensrank] (stable insertion sort) and the kernel (glibc merge sort)
   differ when compare() is not a total preorder on the pooled values: here the values
   1.2e-8, 0.6e-8, 0 are pairwise "equal" for compare() (tolerance 1e-8) except the first
   and the last.  The gcc-compiled kernel returns fmat[0,1] = 1, ranks = [2; 1]
   (like MiniC), the model F = 0, ranks = [1; 2]. *)
Definition cx_sim : list (list float) :=
  [[0x1.9c511dc3a41dfp-27; 0x1.9c511dc3a41dfp-28]; [0; 0]]%float.
Definition cx_eps : float := 0x1.12e0be826d695p-30%float.

Example ensrank_model_differs :
  ensrank F64 KF cx_eps cx_sim = EnsOk [(0, 1, 0%float)] [1%float; 2%float] /\
  ensrank_s F64 KF (qs F64 KF) cx_eps cx_sim = EnsOk [(0, 1, 1%float)] [2%float; 1%float] /\
  exec_fun F64 XF64 program 10 "c_ensrank"
    [AVF cx_eps; AVI 2; AVI 2; AVArrF (List.concat cx_sim); AVArrF [9; 9; 9; 9]%float;
     AVArrF [9; 9]%float]
  = Ok (RI 0, [VArrF (List.concat cx_sim); VArrF [9; 1; 9; 9]%float; VArrF [2; 1]%float]).
Proof. repeat split; vm_compute; reflexivity. Qed.
