(* C05 - proofs about the index-level kernel models of Model/Safety.v:
   the generic loop rules, and `<k>_safe` for the data-package kernels. *)
From Coq Require Import ZArith Bool List String Lia Reals PrimFloat.
From Hy Require Import Base.Num Gen.ConstsC05 Model.Safety.
Import ListNotations.
Open Scope Z_scope.

(* ------------------------------------------------------------------ *)
(* buffers                                                              *)

Lemma Zlen_nonneg {A} (l : list A) : 0 <= Zlen l.
Proof. unfold Zlen; lia. Qed.

Lemma upd_length {A} (l : list A) n v : List.length (upd l n v) = List.length l.
Proof. revert n; induction l; destruct n; simpl; auto. Qed.

Lemma Zlen_upd {A} (l : list A) n v : Zlen (upd l n v) = Zlen l.
Proof. unfold Zlen; now rewrite upd_length. Qed.

Lemma inb_true i len : 0 <= i < len -> inb i len = true.
Proof. intros; unfold inb; apply andb_true_intro; split; [apply Z.leb_le|apply Z.ltb_lt]; lia. Qed.

Lemma inb_spec i len : inb i len = true <-> 0 <= i < len.
Proof. unfold inb; rewrite andb_true_iff, Z.leb_le, Z.ltb_lt; tauto. Qed.

Lemma rd_ok {A} name (d : A) l i : 0 <= i < Zlen l -> rd name d l i = Ok (nth (Z.to_nat i) l d).
Proof. intros; unfold rd; now rewrite inb_true. Qed.

Lemma wr_ok {A} name (l : list A) i v : 0 <= i < Zlen l -> wr name l i v = Ok (upd l (Z.to_nat i) v).
Proof. intros; unfold wr; now rewrite inb_true. Qed.

Lemma mark_ok name l i : 0 <= i < Zlen l -> mark name l i = Ok (upd l (Z.to_nat i) true).
Proof. apply wr_ok. Qed.

Lemma touch_ok name len i : 0 <= i < len -> touch name len i = Ok tt.
Proof. intros; unfold touch; now rewrite inb_true. Qed.

Lemma rd_oob {A} name (d : A) l i : ~ (0 <= i < Zlen l) -> rd name d l i = Err (OOB name i).
Proof. intros; unfold rd; destruct (inb i (Zlen l)) eqn:E; auto. apply inb_spec in E; tauto. Qed.

(* ------------------------------------------------------------------ *)
(* postconditions and loop rules                                        *)

Definition post {S} (r : step S) (PN PB : S -> Prop) : Prop :=
  match r with Next s => PN s | Brk s => PB s | Ret _ _ => True | Fail _ => False end.

Lemma post_safe {S} (r : step S) PN PB : post r PN PB -> safe r.
Proof. destruct r; simpl; auto. Qed.

Lemma post_weaken {S} (r : step S) (PN PB PN' PB' : S -> Prop) :
  post r PN PB -> (forall s, PN s -> PN' s) -> (forall s, PB s -> PB' s) -> post r PN' PB'.
Proof. destruct r; simpl; auto. Qed.

Lemma post_seq {S} (m : step S) k (PN PB : S -> Prop) :
  post m (fun s => post (k s) PN PB) PB -> post (seq m k) PN PB.
Proof. destruct m; simpl; auto. Qed.

Lemma safe_finish {S} d (m : step S) : post m (fun _ => True) (fun _ => True) -> safe (finish d m).
Proof. destruct m; simpl; auto. Qed.

Lemma post_bindr {A S} (m : res A) (k : A -> step S) PN PB a :
  m = Ok a -> post (k a) PN PB -> post (bindr m k) PN PB.
Proof. intros ->; auto. Qed.

Lemma for_loop_post {S} (I : Z -> S -> Prop) (Q : S -> Prop) (body : Z -> S -> step S) :
  forall n i s, I i s ->
  (forall j t, i <= j < i + Z.of_nat n -> I j t -> post (body j t) (I (j + 1)) Q) ->
  post (for_loop n i body s) (fun t => I (i + Z.of_nat n) t \/ Q t) (fun _ => False).
Proof.
  induction n as [|n IH]; intros i s Hi Hb.
  - simpl. left. now rewrite Z.add_0_r.
  - simpl. assert (Hs := Hb i s ltac:(lia) Hi).
    destruct (body i s) as [s'|s'|c s'|e]; simpl in Hs |- *; auto.
    replace (i + Z.pos (Pos.of_succ_nat n)) with ((i + 1) + Z.of_nat n) by lia.
    apply IH; auto. intros j t Hj; apply Hb; lia.
Qed.

Lemma forZ_post {S} (I : Z -> S -> Prop) (Q : S -> Prop) lo hi (body : Z -> S -> step S) s :
  lo <= hi -> I lo s ->
  (forall j t, lo <= j < hi -> I j t -> post (body j t) (I (j + 1)) Q) ->
  post (forZ lo hi body s) (fun t => I hi t \/ Q t) (fun _ => False).
Proof.
  intros Hle Hi Hb. unfold forZ.
  assert (E : lo + Z.of_nat (Z.to_nat (hi - lo)) = hi) by lia.
  generalize (for_loop_post I Q body (Z.to_nat (hi - lo)) lo s Hi).
  rewrite E. intros X; apply X. intros j t Hj; apply Hb; lia.
Qed.

Lemma forZ_nop {S} lo hi (body : Z -> S -> step S) s : hi <= lo -> forZ lo hi body s = Next s.
Proof. intros; unfold forZ. replace (Z.to_nat (hi - lo)) with O by lia. reflexivity. Qed.

(* a loop whose body never breaks: plain invariant *)
Lemma forZ_inv {S} (I : Z -> S -> Prop) lo hi (body : Z -> S -> step S) s :
  lo <= hi -> I lo s ->
  (forall j t, lo <= j < hi -> I j t -> post (body j t) (I (j + 1)) (fun _ => False)) ->
  post (forZ lo hi body s) (I hi) (fun _ => False).
Proof.
  intros. eapply post_weaken. apply (forZ_post I (fun _ => False)); eauto.
  - simpl; intros ? [?|[]]; auto.
  - auto.
Qed.

Lemma while_loop_post {S} (I : S -> Prop) (m : S -> Z) (Q : S -> Prop) (body : S -> step S) :
  forall fuel s, I s -> 0 <= m s < Z.of_nat fuel ->
  (forall t, I t -> 0 <= m t -> post (body t) (fun t' => I t' /\ 0 <= m t' < m t) Q) ->
  post (while_loop fuel body s) Q (fun _ => False).
Proof.
  induction fuel as [|f IH]; intros s Hi Hm Hb.
  - simpl in Hm; lia.
  - simpl. assert (Hs := Hb s Hi ltac:(lia)).
    destruct (body s) as [s'|s'|c s'|e]; simpl in Hs |- *; auto.
    destruct Hs as [Hi' Hm']. apply IH; auto. lia.
Qed.

(* ------------------------------------------------------------------ *)
(* tactics                                                              *)

Ltac bnd := first [ lia | nia ].

(* resolve the first buffer access in the goal, leaving its bound to [bnd] *)
Ltac acc :=
  match goal with
  | |- context [rd ?n ?d ?l ?i] => rewrite (rd_ok n d l i) by bnd
  | |- context [wr ?n ?l ?i ?v] => rewrite (wr_ok n l i v) by bnd
  | |- context [mark ?n ?l ?i] => rewrite (mark_ok n l i) by bnd
  | |- context [touch ?n ?len ?i] => rewrite (touch_ok n len i) by bnd
  end; cbn [bindr seq].

Ltac zb :=
  repeat match goal with
  | H : (_ <? _) = true |- _ => apply Z.ltb_lt in H
  | H : (_ <? _) = false |- _ => apply Z.ltb_ge in H
  | H : (_ <=? _) = true |- _ => apply Z.leb_le in H
  | H : (_ <=? _) = false |- _ => apply Z.leb_gt in H
  | H : (_ =? _) = true |- _ => apply Z.eqb_eq in H
  | H : (_ =? _) = false |- _ => apply Z.eqb_neq in H
  | H : negb _ = true |- _ => apply negb_true_iff in H
  | H : negb _ = false |- _ => apply negb_false_iff in H
  | H : (_ && _) = true |- _ => apply andb_true_iff in H; destruct H
  | H : (_ || _) = false |- _ => apply orb_false_iff in H; destruct H
  end.

(* ================================================================== *)
(* c_aggregate                                                          *)

Lemma aggregate_safe : forall nval aggindex ninp outputs iend,
  Zlen aggindex = nval -> ninp = nval -> Zlen outputs = nval -> Zlen iend = 1 ->
  safe (aggregate true nval aggindex ninp outputs iend).
Proof.
  intros nval aggindex ninp outputs iend Ha Hn Ho He.
  assert (0 <= nval) by (rewrite <- Ha; apply Zlen_nonneg).
  unfold aggregate. cbn [andb].
  destruct (nval <? 1) eqn:E; zb.
  - acc. exact I.
  - acc. apply safe_finish. apply post_seq.
    eapply post_weaken.
    + apply (forZ_inv (fun i s => Zlen (ag_out s) = nval /\ Zlen (ag_iend s) = 1 /\
                                   0 <= ag_count s <= i /\ ag_count s < nval)); [lia|cbn; lia|].
      intros j t Hj (I1 & I2 & I3 & I4). unfold agg_body.
      acc. destruct (_ <? ag_prev t); [exact I|].
      destruct (negb _).
      * acc. destruct (nval <=? ag_count t + 1) eqn:E2; zb; cbn [seq]; [exact I|].
        acc. cbn. rewrite Zlen_upd. lia.
      * cbn [seq]. acc. cbn. lia.
    + cbn. intros s (I1 & I2 & I3 & I4). acc. acc. exact I.
    + auto.
Qed.

(* the pinned kernel reads aggindex[0] of an empty array (and then writes outputs[0]) *)
Lemma aggregate_pinned_unsafe :
  aggregate false 0 [] 0 [] [None] = Fail (OOB "aggindex" 0).
Proof. reflexivity. Qed.

(* ================================================================== *)
(* c_flathomogen                                                        *)

Lemma fh_flush_post ninp lo hi s nval :
  ninp = nval -> Zlen (fh_out s) = nval -> 0 <= lo -> hi <= nval ->
  post (fh_flush ninp lo hi s)
       (fun t => Zlen (fh_out t) = nval /\ fh_prev t = fh_prev s /\ fh_start t = fh_start s)
       (fun _ => False).
Proof.
  intros Hn Ho Hlo Hhi. unfold fh_flush.
  destruct (Z_le_gt_dec lo hi).
  - eapply post_weaken.
    + apply (forZ_inv (fun (j : Z) t => Zlen (fh_out t) = nval /\ fh_prev t = fh_prev s /\
                                         fh_start t = fh_start s)); [lia|auto|].
      intros j t Hj (I1 & I2 & I3). acc. acc. cbn. rewrite Zlen_upd. auto.
    + auto.
    + auto.
  - rewrite forZ_nop by lia. cbn. auto.
Qed.

Lemma flathomogen_safe : forall nval aggindex ninp outputs,
  Zlen aggindex = nval -> ninp = nval -> Zlen outputs = nval ->
  safe (flathomogen true nval aggindex ninp outputs).
Proof.
  intros nval aggindex ninp outputs Ha Hn Ho.
  assert (0 <= nval) by (rewrite <- Ha; apply Zlen_nonneg).
  unfold flathomogen. cbn [andb].
  destruct (nval <? 1) eqn:E; zb; [exact I|].
  acc. apply safe_finish. apply post_seq.
  eapply post_weaken.
  - apply (forZ_inv (fun i s => Zlen (fh_out s) = nval /\ 0 <= fh_start s <= i)); [lia|cbn; lia|].
    intros j t Hj (I1 & I2). unfold fh_body.
    acc. destruct (_ <? fh_prev t); [exact I|].
    destruct (negb _).
    + apply post_seq. apply post_seq.
      eapply post_weaken; [apply (fh_flush_post ninp (fh_start t) j t nval); auto; lia| |auto].
      cbn. intros s (J1 & J2 & J3). acc. cbn. lia.
    + cbn [seq]. acc. cbn. lia.
  - cbn. intros s (I1 & I2). rewrite Z.max_l by lia.
    eapply post_weaken; [apply (fh_flush_post ninp (fh_start s) nval s nval); auto; lia| |]; auto.
  - auto.
Qed.

Lemma flathomogen_pinned_unsafe :
  flathomogen false 0 [] 0 [] = Fail (OOB "aggindex" 0).
Proof. reflexivity. Qed.

(* ================================================================== *)
(* c_islin, c_eckhardt, c_var2h : any arithmetic instance              *)

Section Float.
Context {T : Type} (N : NumOps T).

Lemma islin_safe : forall nval thresh tol npoints data out,
  Zlen data = nval -> Zlen out = nval ->
  safe (islin N true nval thresh tol npoints data out).
Proof.
  intros nval thresh tol npoints data out Hd Ho.
  assert (0 <= nval) by (rewrite <- Hd; apply Zlen_nonneg).
  unfold islin. cbn [andb].
  destruct (nval <? 3) eqn:E; zb.
  - apply safe_finish. eapply post_weaken.
    + apply (forZ_inv (fun (i : Z) s => Zlen (il_out s) = nval)); [lia|auto|].
      intros j t Hj I1. acc. cbn. now rewrite Zlen_upd.
    + auto.
    + auto.
  - acc. acc. acc. rewrite (wr_ok "islin" _ 1) by (rewrite Zlen_upd; lia). cbn [bindr].
    apply safe_finish. eapply post_weaken.
    + apply (forZ_inv (fun i s => Zlen (il_out s) = nval /\ 0 <= il_start s <= i));
        [lia|cbn; rewrite !Zlen_upd; lia|].
      intros j t Hj (I1 & I2). unfold il_body.
      acc. acc.
      destruct (nltb N _ tol && nltb N thresh (il_cur t)).
      * cbn. rewrite Zlen_upd. destruct (il_count t =? 0); lia.
      * apply post_seq. destruct (npoints <=? il_count t).
        -- eapply post_weaken.
           ++ apply (forZ_inv (fun (k : Z) s' => Zlen (il_out s') = nval /\
                                 il_start s' = il_start t)); [lia|cbn; rewrite Zlen_upd; auto|].
              intros k u Hk (J1 & J2). acc. cbn. rewrite Zlen_upd. auto.
           ++ cbn. intros s (J1 & J2). lia.
           ++ auto.
        -- cbn. rewrite Zlen_upd. lia.
    + auto.
    + auto.
Qed.

Lemma eckhardt_safe : forall nval ttype thresh bfi ninp outputs,
  0 <= nval -> ninp = nval -> Zlen outputs = nval ->
  safe (eckhardt N true nval ttype thresh bfi ninp outputs).
Proof.
  intros nval ttype thresh bfi ninp outputs H0 Hn Ho.
  unfold eckhardt.
  destruct (negb (ttype =? 0) && negb (ttype =? 1)); [exact I|].
  destruct (nltb N thresh (n0 N) || nltb N (n1 N) thresh); [exact I|].
  destruct (nltb N bfi (n0 N) || nltb N (n1 N) bfi); [exact I|].
  cbn [andb]. destruct (nval <? 1) eqn:E; zb; [exact I|].
  acc. acc. apply safe_finish. eapply post_weaken.
  - apply (forZ_inv (fun (i : Z) o => Zlen o = nval)); [lia|now rewrite Zlen_upd|].
    intros j t Hj I1. acc. acc. cbn. now rewrite Zlen_upd.
  - auto.
  - auto.
Qed.

(* ---- c_var2h.  The walk along the series compares time stamps converted to
   the arithmetic type: the proof needs the embedding of the integers to be exact
   (true of the reals; true of binary64 below 2^53). *)
Hypothesis ofZ_ltb : forall a b, nltb N (nofZ N a) (nofZ N b) = (a <? b).
Hypothesis ofZ_add : forall a b, nadd N (nofZ N a) (nofZ N b) = nofZ N (a + b).

Lemma chk64_ok z : -9223372036854775808 <= z <= 9223372036854775807 -> chk64 z = Ok z.
Proof.
  intros; unfold chk64, in_int64.
  replace (_ && _) with true; auto. symmetry; apply andb_true_intro; split; apply Z.leb_le; lia.
Qed.

Definition vs (varsec : list Z) (k : Z) : Z := nth (Z.to_nat k) varsec 0.

Lemma vh_position_post nvalvar varsec hstartsec :
  Zlen varsec = nvalvar ->
  post (vh_position true nvalvar varsec hstartsec)
       (fun v => 0 <= v <= nvalvar /\ (1 <= v -> vs varsec (v - 1) <= hstartsec))
       (fun _ => False).
Proof.
  intros Hl. assert (0 <= nvalvar) by (rewrite <- Hl; apply Zlen_nonneg).
  unfold vh_position.
  apply (while_loop_post
           (fun v => 0 <= v <= nvalvar /\ (1 <= v -> vs varsec (v - 1) <= hstartsec))
           (fun v => nvalvar - v)); [lia|lia|].
  intros v (I1 & I2) Hm. cbn [andb].
  destruct (v <? nvalvar) eqn:E; zb; cbn [negb].
  - acc. fold (vs varsec v). destruct (vs varsec v <=? hstartsec) eqn:E2; zb; cbn.
    + repeat split; try lia. intros _. replace (v + 1 - 1) with v by lia. auto.
    + auto.
  - cbn. auto.
Qed.

Lemma vh_inner_loop_post nvalvar varsec nvals st nbsec v out nvalh :
  Zlen varsec = nvalvar -> nvals = nvalvar -> 0 < nbsec ->
  0 <= v -> v + 1 < nvalvar -> vs varsec v <= st -> Zlen out = nvalh ->
  post (while_loop (Datatypes.S (Z.to_nat nvalvar))
          (vh_inner N nvalvar varsec nvals (nadd N (nofZ N st) (nofZ N nbsec)))
          (mkVh v (nofZ N (vs varsec v)) out))
       (fun s => v < vh_idx s /\ vh_idx s < nvalvar /\ vs varsec (vh_idx s - 1) < st + nbsec /\
                 Zlen (vh_out s) = nvalh)
       (fun _ => False).
Proof.
  intros Hl Hn Hp Hv0 Hv1 Hvs Ho. rewrite ofZ_add.
  apply (while_loop_post
    (fun s => Zlen (vh_out s) = nvalh /\ vh_idx s + 1 < nvalvar /\
              vh_t1 s = nofZ N (vs varsec (vh_idx s)) /\
              ((vh_idx s = v) \/ (v < vh_idx s /\ vs varsec (vh_idx s - 1) < st + nbsec)))
    (fun s => nvalvar - vh_idx s)); [cbn; auto 6|cbn; lia|].
  intros s (I1 & I2 & I3 & I4) Hm. unfold vh_inner. rewrite I3, ofZ_ltb.
  destruct (vs varsec (vh_idx s) <? st + nbsec) eqn:E; zb; cbn [negb].
  - assert (0 <= vh_idx s) by (destruct I4 as [->|[? _]]; lia).
    acc. acc. fold (vs varsec (vh_idx s + 1)). rewrite ofZ_ltb.
    destruct (_ <? _); [exact I|].
    destruct (nvalvar <=? vh_idx s + 1 + 1) eqn:E2; zb; cbn.
    + replace (vh_idx s + 1 - 1) with (vh_idx s) by lia. repeat split; auto; lia.
    + replace (vh_idx s + 1 - 1) with (vh_idx s) by lia. repeat split; auto; try lia.
  - cbn. destruct I4 as [I4|[I4 I5]].
    + rewrite I4 in E. lia.
    + repeat split; auto; lia.
Qed.

Lemma var2h_safe : forall nvalvar nvalh nbsec rainfall varsec nvals hstartsec hvalues,
  Zlen varsec = nvalvar -> nvals = nvalvar -> Zlen hvalues = nvalh ->
  nvalh <= 2147483647 -> -4611686018427387904 <= hstartsec <= 4611686018427387904 ->
  safe (var2h N true nvalvar nvalh nbsec rainfall varsec nvals hstartsec hvalues).
Proof.
  intros nvalvar nvalh nbsec rainfall varsec nvals hstartsec hvalues Hl Hn Ho Hh Hs.
  assert (0 <= nvalvar) by (rewrite <- Hl; apply Zlen_nonneg).
  assert (0 <= nvalh) by (rewrite <- Ho; apply Zlen_nonneg).
  unfold var2h.
  destruct ((rainfall <? 0) || (1 <? rainfall)); [exact I|].
  destruct (negb (nbsec =? VAR2H_PERIOD_A) && negb (nbsec =? VAR2H_PERIOD_B)) eqn:Eb; [exact I|].
  assert (Hp : 0 < nbsec <= 86400).
  { apply andb_false_iff in Eb.
    destruct Eb as [E|E]; apply negb_false_iff, Z.eqb_eq in E; subst nbsec;
      unfold VAR2H_PERIOD_A, VAR2H_PERIOD_B; lia. }
  generalize (vh_position_post nvalvar varsec hstartsec Hl).
  destruct (vh_position true nvalvar varsec hstartsec) as [v|v|c v|e]; simpl; try tauto.
  intros (P1 & P2).
  destruct (v - 1 <? 0) eqn:E1; zb; [exact I|].
  cbn [andb]. destruct (nvalvar <=? v - 1 + 1) eqn:E2; zb.
  - apply safe_finish.
    destruct (Z_le_gt_dec 0 (nvalh - 1)); [|rewrite forZ_nop by lia; exact I].
    eapply post_weaken.
    + apply (forZ_inv (fun (i : Z) s => Zlen (vh_out s) = nvalh)); [lia|auto|].
      intros j t Hj I1. acc. cbn. now rewrite Zlen_upd.
    + auto.
    + auto.
  - apply safe_finish.
    destruct (Z_le_gt_dec 0 (nvalh - 1)); [|rewrite forZ_nop by lia; exact I].
    eapply post_weaken.
    + apply (forZ_inv (fun i s => Zlen (vh_out s) = nvalh /\ 0 <= vh_idx s /\
                         vh_idx s + 1 < nvalvar /\
                         vs varsec (vh_idx s) <= hstartsec + i * nbsec));
        [lia|cbn; repeat split; try lia; specialize (P2 ltac:(lia)); lia|].
      intros j t Hj (I1 & I2 & I3 & I4). unfold vh_period. cbn [bindr].
      rewrite (chk64_ok (j * nbsec)) by nia. cbn [bindr].
      rewrite (chk64_ok (hstartsec + j * nbsec)) by nia. cbn [bindr].
      acc. acc. acc. fold (vs varsec (vh_idx t)).
      apply post_seq.
      eapply post_weaken.
      * apply (vh_inner_loop_post nvalvar varsec nvals (hstartsec + j * nbsec) nbsec (vh_idx t)
                 _ nvalh); auto; try lia. now rewrite Zlen_upd.
      * cbn beta. intros s (Q1 & Q2 & Q3 & Q4). acc. cbn. rewrite Zlen_upd.
        repeat split; auto; lia.
      * auto.
    + auto.
    + auto.
Qed.

End Float.

(* witnesses on the pinned code (binary64 instance, evaluated) *)
Lemma islin_pinned_unsafe :
  islin F64 false 1 PrimFloat.zero PrimFloat.one 1 [PrimFloat.one] [None] = Fail (OOB "data" 1).
Proof. vm_compute. reflexivity. Qed.

Lemma eckhardt_pinned_unsafe :
  eckhardt F64 false 0 1 PrimFloat.one PrimFloat.one 0 [] = Fail (OOB "inputs" 0).
Proof. vm_compute. reflexivity. Qed.

(* a series entirely before hstart (00:10, 00:20, 00:50; hstart = 01:00): the positioning loop
   runs past the end *)
Lemma var2h_pinned_unsafe_position :
  var2h F64 false 3 0 3600 0 [600; 1200; 3000] 3 3600 [] = Fail (OOB "varsec" 3).
Proof. vm_compute. reflexivity. Qed.

(* 68 years of hourly output: i * nbsec_per_period does not fit an int *)
Lemma var2h_pinned_unsafe_product :
  exists s, for_loop 1 596524 (vh_period F64 false 2 3600 [0; 4000000000] 2 3600) s = Fail Overflow.
Proof. exists (mkVh 0 PrimFloat.zero [false]). vm_compute. reflexivity. Qed.

(* the exact-embedding hypotheses hold of the reals *)
Lemma RR_ofZ_ltb : forall a b, nltb RR (nofZ RR a) (nofZ RR b) = (a <? b).
Proof.
  intros a b. cbn. unfold Rltb. destruct (Rlt_dec (IZR a) (IZR b)) as [H|H].
  - apply lt_IZR in H. symmetry; apply Z.ltb_lt; auto.
  - symmetry; apply Z.ltb_ge. apply Rnot_lt_le in H. apply le_IZR; auto.
Qed.
Lemma RR_ofZ_add : forall a b, nadd RR (nofZ RR a) (nofZ RR b) = nofZ RR (a + b).
Proof. intros; cbn. now rewrite plus_IZR. Qed.

Lemma var2h_safe_RR : forall nvalvar nvalh nbsec rainfall varsec nvals hstartsec hvalues,
  Zlen varsec = nvalvar -> nvals = nvalvar -> Zlen hvalues = nvalh ->
  nvalh <= 2147483647 -> -4611686018427387904 <= hstartsec <= 4611686018427387904 ->
  safe (var2h RR true nvalvar nvalh nbsec rainfall varsec nvals hstartsec hvalues).
Proof. exact (var2h_safe RR RR_ofZ_ltb RR_ofZ_add). Qed.
