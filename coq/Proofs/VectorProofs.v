(* Proofs about Model/Vector.v (class Vector of data/containers.py) - part 1:
   lists, the extended reals, well-formed states, clone / dictionary round trip,
   preservation, frame, rejection, the bound-hit flag, the pinned code, reachability. *)

From Coq Require Import ZArith Bool List String Reals Lra Lia.
From Hy Require Import Base.Num Gen.Consts Gen.ConstsC12 Model.Vector.
Import ListNotations.

(* ---------- lists ---------- *)
Section Lists.
Context {A B C D : Type}.

Lemma map3_length (f : A -> B -> C -> D) a b c n :
  List.length a = n -> List.length b = n -> List.length c = n ->
  List.length (map3 f a b c) = n.
Proof.
  intros Ha Hb Hc. unfold map3. rewrite map_length, !combine_length. lia.
Qed.

Lemma map3_nth (f : A -> B -> C -> D) a b c n i da db dc dd :
  List.length a = n -> List.length b = n -> List.length c = n -> (i < n)%nat ->
  nth i (map3 f a b c) dd = f (nth i a da) (nth i b db) (nth i c dc).
Proof.
  revert b c n i. induction a as [|x a IH]; intros b c n i Ha Hb Hc Hi; simpl in *.
  - lia.
  - destruct b as [|y b]; [simpl in *; lia|]. destruct c as [|z c]; [simpl in *; lia|].
    destruct i; simpl; [reflexivity|].
    unfold map3 in IH. simpl in *. eapply (IH b c (pred n)); lia.
Qed.

Lemma existsb3_false_iff (p : A -> B -> C -> bool) a b c n da db dc :
  List.length a = n -> List.length b = n -> List.length c = n ->
  (existsb3 p a b c = false <->
   forall i, (i < n)%nat -> p (nth i a da) (nth i b db) (nth i c dc) = false).
Proof.
  revert b c n. induction a as [|x a IH]; intros b c n Ha Hb Hc; simpl in *.
  - split; [intros _ i Hi; lia | reflexivity].
  - destruct b as [|y b]; [simpl in *; lia|]. destruct c as [|z c]; [simpl in *; lia|].
    unfold existsb3 in *. simpl in *. rewrite orb_false_iff.
    rewrite (IH b c (pred n)) by lia. split.
    + intros [H0 H] i Hi. destruct i; [exact H0|]. apply H. lia.
    + intros H. split; [apply (H O); lia|]. intros i Hi. apply (H (S i)). lia.
Qed.
End Lists.

Lemma upd_length {A} i (x : A) l : List.length (upd i x l) = List.length l.
Proof. revert i. induction l; intros [|i]; simpl; auto. Qed.

Lemma upd_nth {A} i j (x d : A) l : (i < List.length l)%nat ->
  nth j (upd i x l) d = if Nat.eqb j i then x else nth j l d.
Proof.
  revert i j. induction l as [|a l IH]; intros i j Hi; simpl in *; [lia|].
  destruct i, j; simpl; auto. apply IH. lia.
Qed.

Lemma index_of_some name names i : index_of name names = Some i ->
  (i < List.length names)%nat /\ nth i names EmptyString = name.
Proof.
  revert i. induction names as [|n rest IH]; intros i H; simpl in *; [discriminate|].
  destruct (String.eqb name n) eqn:E.
  - inversion H; subst. apply String.eqb_eq in E. split; [lia|auto].
  - destruct (index_of name rest) as [k|]; [|discriminate]. inversion H; subst.
    destruct (IH k eq_refl). split; [lia|auto].
Qed.

Lemma index_of_none name names : index_of name names = None <-> ~ In name names.
Proof.
  induction names as [|n rest IH]; simpl; [tauto|].
  destruct (String.eqb name n) eqn:E.
  - apply String.eqb_eq in E. split; [discriminate|]. intros H; exfalso; apply H; auto.
  - apply String.eqb_neq in E. destruct (index_of name rest) as [k|] eqn:Ek.
    + split; [discriminate|]. intros H. exfalso. apply H. right.
      destruct (index_of_some _ _ _ Ek) as [Hk Hn]. rewrite <- Hn. apply nth_In; auto.
    + split; [|reflexivity]. intros _ [H|H]; [congruence|]. apply IH in H; auto.
Qed.

Lemma index_of_in name names : In name names -> exists i, index_of name names = Some i.
Proof.
  intros H. destruct (index_of name names) eqn:E; [eauto|].
  apply index_of_none in E. contradiction.
Qed.

Lemma existsb_eqb_in n rest : existsb (String.eqb n) rest = true <-> In n rest.
Proof.
  rewrite existsb_exists. split.
  - intros [x [Hx E]]. apply String.eqb_eq in E. subst; auto.
  - intros H. exists n. split; auto. apply String.eqb_refl.
Qed.

Lemma nodupb_iff names : nodupb names = true <-> NoDup names.
Proof.
  induction names as [|n rest IH]; simpl.
  - split; [constructor|reflexivity].
  - rewrite andb_true_iff, negb_true_iff, IH. split.
    + intros [H1 H2]. constructor; auto. intro Hin. apply existsb_eqb_in in Hin. congruence.
    + intros H. inversion H; subst. split; auto.
      destruct (existsb (String.eqb n) rest) eqn:E; auto. apply existsb_eqb_in in E. contradiction.
Qed.

(* ---------- the extended reals ---------- *)
Open Scope R_scope.

Definition xle (a b : xr) : Prop :=
  match a, b with
  | XNan, _ | _, XNan => False
  | XNinf, _ => True
  | _, XPinf => True
  | XFin x, XFin y => x <= y
  | _, _ => False
  end.

(* x is an admissible stored value for bounds [lo, hi]: NaN only when accept_nan *)
Definition in_bounds (an : bool) (x lo hi : xr) : Prop :=
  (x = XNan /\ an = true) \/ (xle lo x /\ xle x hi).

(* the property's quantifier: a finite value is exactly on a finite bound or at
   least 1e-6 away from it (nothing is asked of infinite or NaN values/bounds) *)
Definition away (x b : xr) : Prop :=
  match x, b with
  | XFin x, XFin b => x = b \/ 1 / 1000000 <= Rabs (x - b)
  | _, _ => True
  end.

Ltac rdec := repeat match goal with
  | |- context [Rlt_dec ?a ?b] => destruct (Rlt_dec a b)
  | H : context [Rlt_dec ?a ?b] |- _ => destruct (Rlt_dec a b)
  end.
Ltac xr_atom := solve [lra | tauto | reflexivity | f_equal; lra | discriminate | congruence].
Ltac xr_solve :=
  repeat (progress (simpl in *; unfold Rltb, EPS_containers_R in *; rdec));
  repeat match goal with H : XFin _ = XFin _ |- _ => injection H as H end;
  try tauto; try discriminate; try lra; try (f_equal; lra); try congruence;
  try (repeat split; xr_atom);
  try solve [left; repeat split; xr_atom
            | right; left; repeat split; xr_atom
            | right; right; repeat split; xr_atom].
Ltac xr_unfold := unfold clip_np, clip_py, hit_eps, hit_exact, in_bounds, xle, away in *.
Ltac xr_cases :=
  intros; xr_unfold; repeat match goal with x : xr |- _ => destruct x end; xr_solve.

Lemma xle_notnan a b : xle a b -> a <> XNan /\ b <> XNan.
Proof. destruct a, b; simpl; intros H; split; try tauto; discriminate. Qed.

Lemma xle_isnan_l a b : xle a b -> xisnan a = false.
Proof. destruct a, b; simpl; tauto. Qed.
Lemma xle_isnan_r a b : xle a b -> xisnan b = false.
Proof. destruct a, b; simpl; tauto. Qed.

Lemma xle_refl a : a <> XNan -> xle a a.
Proof. destruct a; simpl; try tauto; intros; lra. Qed.

Lemma xle_trans a b c : xle a b -> xle b c -> xle a c.
Proof. xr_cases. Qed.

Lemma clip_np_nan lo hi : clip_np VXR XNan lo hi = XNan.
Proof. reflexivity. Qed.

Lemma clip_np_bounds x lo hi : xle lo hi -> x <> XNan ->
  xle lo (clip_np VXR x lo hi) /\ xle (clip_np VXR x lo hi) hi.
Proof. xr_cases. Qed.

Lemma clip_np_id x lo hi : xle lo x -> xle x hi -> clip_np VXR x lo hi = x.
Proof. xr_cases. Qed.

Lemma clip_np_free x : clip_np VXR x XNinf XPinf = x.
Proof. destruct x; reflexivity. Qed.

Lemma clip_np_in_bounds an x lo hi : xle lo hi -> (x = XNan -> an = true) ->
  in_bounds an (clip_np VXR x lo hi) lo hi.
Proof.
  intros H Hn. destruct x; try (right; apply clip_np_bounds; auto; discriminate).
  left. split; auto.
Qed.

Lemma clip_py_eq_np x lo hi : xle lo hi -> clip_py VXR x lo hi = clip_np VXR x lo hi.
Proof. xr_cases. Qed.

(* what a clip stores: the value itself inside the bounds, else the bound it passed *)
Lemma clip_np_spec x lo hi : xle lo hi -> x <> XNan ->
  (xle lo x /\ xle x hi /\ clip_np VXR x lo hi = x) \/
  (xltb x lo = true /\ clip_np VXR x lo hi = lo) \/
  (xltb hi x = true /\ clip_np VXR x lo hi = hi).
Proof. xr_cases. Qed.

(* attribute path: the exact test detects a clip, for EVERY value *)
Lemma hit_exact_false_iff x lo hi : xle lo hi ->
  (hit_exact VXR x lo hi = false <-> clip_py VXR x lo hi = x).
Proof. xr_cases; split; intros; xr_solve. Qed.

(* whole-vector path: the EPS test detects a clip for values in the quantifier *)
Lemma hit_eps_false_iff x lo hi : xle lo hi -> away x lo -> away x hi ->
  (hit_eps VXR x lo hi = false <-> clip_np VXR x lo hi = x).
Proof.
  xr_cases; split; intros; xr_solve;
    try (match goal with H : _ \/ _ |- _ => destruct H end; xr_solve);
    try (unfold Rabs in *; repeat match goal with
         | H : context [Rcase_abs ?a] |- _ => destruct (Rcase_abs a) end; xr_solve).
Qed.

Lemma hit_tests_agree x lo hi : xle lo hi -> away x lo -> away x hi ->
  hit_eps VXR x lo hi = hit_exact VXR x lo hi.
Proof.
  intros H Hl Hh.
  destruct (hit_eps VXR x lo hi) eqn:E1, (hit_exact VXR x lo hi) eqn:E2; auto.
  - apply hit_exact_false_iff in E2; auto. rewrite clip_py_eq_np in E2; auto.
    apply hit_eps_false_iff in E2; auto. congruence.
  - apply hit_eps_false_iff in E1; auto. rewrite <- clip_py_eq_np in E1; auto.
    apply hit_exact_false_iff in E1; auto. congruence.
Qed.

Lemma hit_eps_in_bounds an x lo hi : in_bounds an x lo hi -> hit_eps VXR x lo hi = false.
Proof. intros [[H _]|[H1 H2]]; [subst; destruct lo, hi; reflexivity|]. revert H1 H2. xr_cases. Qed.

Lemma in_bounds_clip_id an x lo hi : in_bounds an x lo hi -> clip_np VXR x lo hi = x.
Proof. intros [[H _]|[H1 H2]]; [subst; reflexivity | apply clip_np_id; auto]. Qed.

(* ---------- well-formed states ---------- *)
Notation vst := (vstate (T := xr)).
Notation nx l i := (nth i l (XFin 0)).

Record wf (s : vst) : Prop := mkWf {
  wf_lmins : List.length (v_mins s) = v_nval s;
  wf_lmaxs : List.length (v_maxs s) = v_nval s;
  wf_ldefs : List.length (v_defaults s) = v_nval s;
  wf_lvals : List.length (v_values s) = v_nval s;
  wf_nodup : NoDup (v_names s);
  wf_bnd : forall i, (i < v_nval s)%nat -> xle (nx (v_mins s) i) (nx (v_maxs s) i);
  wf_defs : forall i, (i < v_nval s)%nat ->
            in_bounds (v_an s) (nx (v_defaults s) i) (nx (v_mins s) i) (nx (v_maxs s) i);
  wf_vals : forall i, (i < v_nval s)%nat ->
            in_bounds (v_an s) (nx (v_values s) i) (nx (v_mins s) i) (nx (v_maxs s) i);
  wf_flags : v_chb s = true -> v_cb s = true;
  wf_nohit : v_chb s = false -> v_hit s = false
}.

Lemma nth_repeat_lt {A} (x d : A) n i : (i < n)%nat -> nth i (repeat x n) d = x.
Proof. revert i. induction n; intros [|i] H; simpl; auto; try lia. apply IHn. lia. Qed.

Lemma existsb_false_nth {A} (f : A -> bool) l d :
  (forall i, (i < List.length l)%nat -> f (nth i l d) = false) -> existsb f l = false.
Proof.
  induction l as [|a l IH]; intros H; simpl in *; auto.
  rewrite (H O) by lia. simpl. apply IH. intros i Hi. apply (H (S i)). lia.
Qed.

Lemma in_bounds_nan_guard an x lo hi : in_bounds an x lo hi -> xisnan x && negb an = false.
Proof.
  intros [[-> ->]|[H _]]; [reflexivity|]. apply xle_isnan_r in H. rewrite H. reflexivity.
Qed.

Lemma nan_guard an val mins maxs n :
  List.length val = n ->
  (forall i, (i < n)%nat -> in_bounds an (nx val i) (nx mins i) (nx maxs i)) ->
  existsb xisnan val && negb an = false.
Proof.
  intros L H. destruct an; [apply andb_false_r|]. rewrite andb_true_r.
  apply existsb_false_nth with (d := XFin 0). intros i Hi.
  specialize (H i ltac:(lia)). apply in_bounds_nan_guard in H. rewrite andb_true_r in H. exact H.
Qed.

(* values already inside the bounds pass the validation routine unchanged, no hit *)
Lemma checkvalues_ok mins maxs an n val ck :
  List.length mins = n -> List.length maxs = n -> List.length val = n ->
  (forall i, (i < n)%nat -> in_bounds an (nx val i) (nx mins i) (nx maxs i)) ->
  checkvalues VXR mins maxs an n val ck = Some (val, false).
Proof.
  intros Lm LM Lv H. unfold checkvalues. rewrite Lv, Nat.eqb_refl. simpl.
  change (vo_isnan VXR) with xisnan. rewrite (nan_guard an val mins maxs n Lv H).
  f_equal. f_equal.
  - apply nth_ext with (d := XFin 0) (d' := XFin 0).
    + rewrite (map3_length _ _ _ _ n); auto.
    + intros i Hi. rewrite (map3_length _ _ _ _ n) in Hi; auto.
      rewrite (map3_nth _ _ _ _ n i (XFin 0) (XFin 0) (XFin 0)); auto.
      eapply in_bounds_clip_id; eauto.
  - destruct ck; auto.
    apply (existsb3_false_iff _ _ _ _ n (XFin 0) (XFin 0) (XFin 0)); auto.
    intros i Hi. eapply hit_eps_in_bounds; eauto.
Qed.

(* what the validation routine returns when it accepts (any number instance) *)
Lemma checkvalues_some {T} (V : VOps T) mins maxs an n val ck vals hit :
  checkvalues V mins maxs an n val ck = Some (vals, hit) ->
  List.length val = n /\ existsb (vo_isnan V) val && negb an = false /\
  vals = map3 (clip_np V) val mins maxs /\
  hit = (if ck then existsb3 (hit_eps V) val mins maxs else false).
Proof.
  unfold checkvalues. destruct (Nat.eqb (List.length val) n) eqn:E; simpl; [|discriminate].
  destruct (existsb (vo_isnan V) val && negb an) eqn:E2; [discriminate|].
  intros H. inversion H; subst. apply Nat.eqb_eq in E. auto.
Qed.

Lemma checkvalues_none {T} (V : VOps T) mins maxs an n val ck :
  checkvalues V mins maxs an n val ck = None <->
  (List.length val <> n \/ (existsb (vo_isnan V) val = true /\ an = false)).
Proof.
  unfold checkvalues. destruct (Nat.eqb (List.length val) n) eqn:E; simpl.
  - apply Nat.eqb_eq in E. destruct (existsb (vo_isnan V) val) eqn:E2, an; simpl;
      split; intros; auto; try discriminate; try tauto.
    + destruct H as [H|[_ H]]; [contradiction|discriminate].
    + destruct H as [H|[H _]]; [contradiction|discriminate].
    + destruct H as [H|[H _]]; [contradiction|discriminate].
  - apply Nat.eqb_neq in E. split; auto.
Qed.

(* rebuilding a vector from well-formed data reproduces the data *)
Lemma vnew_rebuild names mins maxs defs cb chb an :
  let n := List.length names in
  List.length mins = n -> List.length maxs = n -> List.length defs = n ->
  NoDup names ->
  (forall i, (i < n)%nat -> xle (nx mins i) (nx maxs i)) ->
  (forall i, (i < n)%nat -> in_bounds an (nx defs i) (nx mins i) (nx maxs i)) ->
  (chb = true -> cb = true) ->
  vnew VXR names (Some defs) (Some mins) (Some maxs) cb chb an =
  Some (mkV names mins maxs defs defs false cb chb an).
Proof.
  intros n Lm LM Ld ND Hb Hd Hf. unfold vnew. fold n.
  assert (chb && negb cb = false) as ->.
  { destruct chb; auto. rewrite Hf; auto. }
  apply nodupb_iff in ND. rewrite ND. simpl.
  change (vo_ninf VXR) with XNinf. change (vo_pinf VXR) with XPinf.
  rewrite (checkvalues_ok (repeat XNinf n) (repeat XPinf n) an n mins false);
    auto using repeat_length.
  2:{ intros i Hi. rewrite !nth_repeat_lt by auto. right.
      destruct (xle_notnan _ _ (Hb i Hi)) as [H1 _]. destruct (nx mins i); simpl; tauto. }
  rewrite (checkvalues_ok mins (repeat XPinf n) an n maxs true); auto using repeat_length.
  2:{ intros i Hi. rewrite !nth_repeat_lt by auto. right. split; auto.
      destruct (xle_notnan _ _ (Hb i Hi)) as [_ H2]. destruct (nx maxs i); simpl; tauto. }
  rewrite (checkvalues_ok mins maxs an n defs true); auto.
Qed.

Lemma set_all_rebuild names mins maxs defs vals0 hit0 vals cb chb an :
  let n := List.length names in
  List.length mins = n -> List.length maxs = n -> List.length vals = n ->
  (forall i, (i < n)%nat -> in_bounds an (nx vals i) (nx mins i) (nx maxs i)) ->
  set_all VXR (mkV names mins maxs defs vals0 hit0 cb chb an) vals =
  (mkV names mins maxs defs vals false cb chb an, Accepted).
Proof.
  intros n Lm LM Lv Hv. unfold set_all, v_nval. simpl. fold n.
  rewrite (checkvalues_ok mins maxs an n vals chb); auto.
Qed.

(* ---------- rows of the dictionary ---------- *)
Section Rows.
Context {T : Type}.
Lemma rows_facts (names : list string) (vals mins maxs defs : list T) n :
  List.length names = n -> List.length vals = n -> List.length mins = n ->
  List.length maxs = n -> List.length defs = n ->
  List.length (rows names vals mins maxs defs) = n /\
  map r_name (rows names vals mins maxs defs) = names /\
  map r_value (rows names vals mins maxs defs) = vals /\
  map r_min (rows names vals mins maxs defs) = mins /\
  map r_max (rows names vals mins maxs defs) = maxs /\
  map r_default (rows names vals mins maxs defs) = defs.
Proof.
  revert vals mins maxs defs n.
  induction names as [|a names IH]; intros vals mins maxs defs n H1 H2 H3 H4 H5;
    destruct vals, mins, maxs, defs; simpl in *; try lia.
  - subst; repeat split; reflexivity.
  - destruct (IH vals mins maxs defs (pred n)) as (A & B & C & D & E & F); try lia.
    rewrite A, B, C, D, E, F. repeat split; auto. lia.
Qed.
End Rows.

Definition lengths_ok {T} (s : vstate (T := T)) : Prop :=
  List.length (v_mins s) = v_nval s /\ List.length (v_maxs s) = v_nval s /\
  List.length (v_defaults s) = v_nval s /\ List.length (v_values s) = v_nval s.

(* the dictionary round trip IS a clone (any number instance, repaired code) *)
Lemma from_dict_to_dict_clone {T} (V : VOps T) s : lengths_ok s ->
  from_dict V (to_dict s) = clone V s.
Proof.
  intros (L1 & L2 & L3 & L4). unfold from_dict, to_dict, clone. simpl.
  destruct (rows_facts (v_names s) (v_values s) (v_mins s) (v_maxs s) (v_defaults s) (v_nval s))
    as (A & B & C & D & E & F); auto.
  set (R := rows (v_names s) (v_values s) (v_mins s) (v_maxs s) (v_defaults s)) in *.
  rewrite A, Nat.ltb_irrefl.
  assert (firstn (v_nval s) R = R) as -> by (rewrite <- A; apply firstn_all).
  rewrite B, C, D, E, F. reflexivity.
Qed.

Lemma wf_lengths s : wf s -> lengths_ok s.
Proof. intros []; repeat split; auto. Qed.

(* ---------- clone and dictionary round trip reproduce the state ---------- *)
Theorem clone_id s : wf s -> clone VXR s = Some s.
Proof.
  intros W. destruct W. destruct s as [names mins maxs defs vals hit cb chb an].
  unfold clone, v_nval in *. simpl in *.
  rewrite vnew_rebuild; auto.
  rewrite set_all_rebuild; auto.
Qed.

Theorem dict_id s : wf s -> from_dict VXR (to_dict s) = Some s.
Proof. intros W. rewrite from_dict_to_dict_clone; auto using wf_lengths, clone_id. Qed.

(* ---------- every operation preserves well-formedness ---------- *)
Lemma set_attr_wf s name x : wf s -> wf (fst (set_attr VXR s name x)).
Proof.
  intros W. unfold set_attr. destruct (index_of name (v_names s)) as [i|] eqn:Ei; simpl; auto.
  apply index_of_some in Ei. destruct Ei as [Hi _].
  destruct s as [names mins maxs defs vals hit cb chb an]. simpl in *.
  destruct (xisnan x && negb an) eqn:G; simpl; auto.
  destruct W. unfold v_nval in *; simpl in *.
  constructor; unfold v_nval; simpl; auto.
  - rewrite upd_length; auto.
  - intros j Hj. rewrite upd_nth by lia.
    destruct (Nat.eqb j i) eqn:E; auto. apply Nat.eqb_eq in E; subst j.
    rewrite clip_py_eq_np by auto. apply clip_np_in_bounds; auto.
    intros ->. simpl in G. destruct an; auto; discriminate.
  - intros C. destruct chb; [discriminate|]. auto.
Qed.

Lemma set_all_wf s val : wf s -> wf (fst (set_all VXR s val)).
Proof.
  intros W. unfold set_all.
  destruct (checkvalues VXR (v_mins s) (v_maxs s) (v_an s) (v_nval s) val (v_chb s))
    as [[vals hit]|] eqn:E; simpl; auto.
  apply checkvalues_some in E. destruct E as (L & G & -> & ->).
  destruct W. destruct s as [names mins maxs defs vals0 hit0 cb chb an].
  unfold v_nval in *; simpl in *.
  constructor; unfold v_nval; simpl; auto.
  - apply map3_length; auto.
  - intros i Hi.
    rewrite (map3_nth _ _ _ _ (List.length names) i (XFin 0) (XFin 0) (XFin 0)); auto.
    apply clip_np_in_bounds; auto. intros E.
    destruct an; auto. rewrite andb_true_r in G.
    assert (existsb xisnan val = true); [|simpl in *; congruence].
    apply existsb_exists. exists (nx val i). split; [apply nth_In; lia|]. rewrite E. reflexivity.
  - intros ->. reflexivity.
Qed.

Theorem step_wf s op : wf s -> wf (fst (step VXR s op)).
Proof.
  intros W. destruct op; simpl.
  - apply set_attr_wf; auto.
  - unfold set_key. destruct (index_of key (v_names s)); simpl; auto. apply set_attr_wf; auto.
  - apply set_all_wf; auto.
  - apply set_all_wf; auto.
  - rewrite clone_id; auto.
  - rewrite dict_id; auto.
Qed.

Theorem run_wf ops : forall s, wf s -> wf (run VXR s ops).
Proof.
  unfold run. induction ops as [|op ops IH]; intros s W; simpl; auto.
  apply IH. apply step_wf; auto.
Qed.

(* ---------- the constructor establishes well-formedness ---------- *)
Lemma checkvalues_props lo hi an n val ck vals hit :
  checkvalues VXR lo hi an n val ck = Some (vals, hit) ->
  List.length lo = n -> List.length hi = n ->
  (forall i, (i < n)%nat -> xle (nx lo i) (nx hi i)) ->
  List.length vals = n /\
  (forall i, (i < n)%nat -> nx vals i = clip_np VXR (nx val i) (nx lo i) (nx hi i)) /\
  (forall i, (i < n)%nat -> in_bounds an (nx vals i) (nx lo i) (nx hi i)).
Proof.
  intros E Ll Lh Hb. apply checkvalues_some in E. destruct E as (L & G & -> & _).
  split; [apply map3_length; auto|].
  assert (N : forall i, (i < n)%nat ->
              nx (map3 (clip_np VXR) val lo hi) i = clip_np VXR (nx val i) (nx lo i) (nx hi i)).
  { intros i Hi. apply (map3_nth _ _ _ _ n); auto. }
  split; auto. intros i Hi. rewrite N by auto.
  apply clip_np_in_bounds; auto. intros E.
  destruct an; auto. rewrite andb_true_r in G.
  assert (existsb xisnan val = true); [|simpl in *; congruence].
  apply existsb_exists. exists (nx val i). split; [apply nth_In; lia|]. rewrite E. reflexivity.
Qed.

Definition nonan_opt (o : option (list xr)) : Prop :=
  match o with Some l => Forall (fun x => x <> XNan) l | None => True end.

Lemma xle_ninf a : a <> XNan -> xle XNinf a.
Proof. destruct a; simpl; tauto. Qed.
Lemma xle_pinf a : a <> XNan -> xle a XPinf.
Proof. destruct a; simpl; tauto. Qed.

Theorem vnew_wf names defaults mins maxs cb chb an s :
  vnew VXR names defaults mins maxs cb chb an = Some s ->
  nonan_opt mins -> nonan_opt maxs ->
  wf s /\ v_names s = names /\ v_cb s = cb /\ v_chb s = chb /\ v_an s = an /\
  v_hit s = false /\ v_values s = v_defaults s.
Proof.
  unfold vnew. set (n := List.length names).
  destruct (chb && negb cb) eqn:Ef; [discriminate|].
  destruct (nodupb names) eqn:End; [|discriminate]. simpl.
  change (vo_ninf VXR) with XNinf. change (vo_pinf VXR) with XPinf. change (vo_zero VXR) with (XFin 0).
  intros H Nm NM.
  (* mins *)
  assert (exists mins1, (match mins with
            | Some m => match checkvalues VXR (repeat XNinf n) (repeat XPinf n) an n m false with
                        | Some (m', _) => Some m' | None => None end
            | None => Some (repeat XNinf n) end) = Some mins1 /\
            List.length mins1 = n /\ forall i, (i < n)%nat -> nx mins1 i <> XNan) as (mins1 & Em & Lm & Hm).
  { destruct mins as [m|].
    - destruct (checkvalues VXR (repeat XNinf n) (repeat XPinf n) an n m false) as [[m' h]|] eqn:E;
        [|discriminate].
      exists m'. split; auto.
      destruct (checkvalues_props _ _ _ _ _ _ _ _ E) as (L & N & _); auto using repeat_length.
      { intros i Hi. rewrite !nth_repeat_lt by auto. exact I. }
      split; auto. intros i Hi. rewrite N by auto. rewrite !nth_repeat_lt by auto.
      rewrite clip_np_free. simpl in Nm. apply checkvalues_some in E. destruct E as (L' & _).
      apply Forall_nth; auto. lia.
    - exists (repeat XNinf n). split; auto. split; [apply repeat_length|].
      intros i Hi. rewrite nth_repeat_lt by auto. discriminate. }
  rewrite Em in H.
  (* maxs *)
  assert (exists maxs1, (match maxs with
            | Some m => match checkvalues VXR mins1 (repeat XPinf n) an n m true with
                        | Some (m', hit) => if hit then None else Some m' | None => None end
            | None => Some (repeat XPinf n) end) = Some maxs1 /\
            List.length maxs1 = n /\ forall i, (i < n)%nat -> xle (nx mins1 i) (nx maxs1 i))
    as (maxs1 & EM & LM & HM).
  { destruct maxs as [m|].
    - destruct (checkvalues VXR mins1 (repeat XPinf n) an n m true) as [[m' h]|] eqn:E; [|discriminate].
      destruct h; [discriminate|]. exists m'. split; auto.
      destruct (checkvalues_props _ _ _ _ _ _ _ _ E) as (L & N & _); auto using repeat_length.
      { intros i Hi. rewrite !nth_repeat_lt by auto. apply xle_pinf; auto. }
      split; auto. intros i Hi. rewrite N by auto. rewrite !nth_repeat_lt by auto.
      apply clip_np_bounds; [apply xle_pinf; auto|].
      simpl in NM. apply checkvalues_some in E. destruct E as (L' & _).
      apply Forall_nth; auto. lia.
    - exists (repeat XPinf n). split; auto. split; [apply repeat_length|].
      intros i Hi. rewrite nth_repeat_lt by auto. apply xle_pinf; auto. }
  rewrite EM in H.
  (* defaults *)
  assert (exists defs1, (match defaults with
            | Some d => match checkvalues VXR mins1 maxs1 an n d true with
                        | Some (d', hit) => if hit then None else Some d' | None => None end
            | None => Some (map3 (clip_np VXR) (repeat (XFin 0) n) mins1 maxs1) end) = Some defs1 /\
            List.length defs1 = n /\
            forall i, (i < n)%nat -> in_bounds an (nx defs1 i) (nx mins1 i) (nx maxs1 i))
    as (defs1 & Ed & Ld & Hd).
  { destruct defaults as [d|].
    - destruct (checkvalues VXR mins1 maxs1 an n d true) as [[d' h]|] eqn:E; [|discriminate].
      destruct h; [discriminate|]. exists d'. split; auto.
      destruct (checkvalues_props _ _ _ _ _ _ _ _ E) as (L & _ & B); auto.
    - eexists. split; [reflexivity|]. split; [apply map3_length; auto using repeat_length|].
      intros i Hi. rewrite (map3_nth _ _ _ _ n i (XFin 0) (XFin 0) (XFin 0)); auto using repeat_length.
      apply clip_np_in_bounds; auto. rewrite nth_repeat_lt by auto. discriminate. }
  rewrite Ed in H. inversion H; subst s; clear H. simpl.
  repeat split; auto; unfold v_nval; simpl; auto.
  - apply nodupb_iff; auto.
  - intros ->. destruct cb; auto; discriminate.
Qed.

(* ---------- frame ---------- *)
Definition frame {T} (s s' : vstate (T := T)) : Prop :=
  v_names s' = v_names s /\ v_mins s' = v_mins s /\ v_maxs s' = v_maxs s /\
  v_defaults s' = v_defaults s /\ v_cb s' = v_cb s /\ v_chb s' = v_chb s /\ v_an s' = v_an s.

Lemma frame_refl {T} (s : vstate (T := T)) : frame s s.
Proof. repeat split. Qed.
Lemma frame_trans {T} (a b c : vstate (T := T)) : frame a b -> frame b c -> frame a c.
Proof. unfold frame. intuition congruence. Qed.

Definition is_assign {T} (op : vop (T := T)) : Prop :=
  match op with OClone | ODict => False | _ => True end.

Lemma set_attr_frame {T} (V : VOps T) s name x : frame s (fst (set_attr V s name x)).
Proof.
  unfold set_attr. destruct (index_of name (v_names s)); simpl; [|apply frame_refl].
  destruct (vo_isnan V x && negb (v_an s)); simpl; repeat split.
Qed.
Lemma set_all_frame {T} (V : VOps T) s val : frame s (fst (set_all V s val)).
Proof.
  unfold set_all. destruct (checkvalues V _ _ _ _ val _) as [[vals hit]|]; simpl; repeat split.
Qed.

(* assignments of any kind never touch names, bounds, defaults, flags - for
   every number instance (binary64 included) and whatever clone/from_dict do *)
Theorem assign_frame {T} (V : VOps T) cl rt s op : is_assign op ->
  frame s (fst (step_gen V cl rt s op)).
Proof.
  destruct op; simpl; intros H; try contradiction.
  - apply set_attr_frame.
  - unfold set_key. destruct (index_of key (v_names s)); simpl;
      [apply set_attr_frame | apply frame_refl].
  - apply set_all_frame.
  - apply set_all_frame.
Qed.

Theorem step_frame s op : wf s -> frame s (fst (step VXR s op)).
Proof.
  intros W. destruct op; try (apply assign_frame; exact I); simpl.
  - rewrite clone_id; auto. apply frame_refl.
  - rewrite dict_id; auto. apply frame_refl.
Qed.

Theorem run_frame ops : forall s, wf s -> frame s (run VXR s ops).
Proof.
  unfold run. induction ops as [|op ops IH]; intros s W; simpl; [apply frame_refl|].
  eapply frame_trans; [apply step_frame; auto|]. apply IH. apply step_wf; auto.
Qed.

(* ---------- rejected operations ---------- *)
Theorem rejected_unchanged {T} (V : VOps T) cl rt s op :
  snd (step_gen V cl rt s op) = Rejected -> fst (step_gen V cl rt s op) = s.
Proof.
  destruct op; simpl.
  - unfold set_attr. destruct (index_of name (v_names s)); simpl; [|discriminate].
    destruct (vo_isnan V x && negb (v_an s)); simpl; [auto|discriminate].
  - unfold set_key, set_attr. destruct (index_of key (v_names s)); simpl; auto.
    destruct (vo_isnan V x && negb (v_an s)); simpl; [auto|discriminate].
  - unfold set_all. destruct (checkvalues V _ _ _ _ val _) as [[vals hit]|]; simpl; [discriminate|auto].
  - unfold reset, set_all. destruct (checkvalues V _ _ _ _ _ _) as [[vals hit]|]; simpl; [discriminate|auto].
  - destruct (cl s); simpl; [discriminate|auto].
  - destruct (rt s); simpl; [discriminate|auto].
Qed.

Lemma set_attr_rejected_iff {T} (V : VOps T) s name x :
  snd (set_attr V s name x) = Rejected <->
  (In name (v_names s) /\ vo_isnan V x = true /\ v_an s = false).
Proof.
  unfold set_attr. destruct (index_of name (v_names s)) as [i|] eqn:E; simpl.
  - apply index_of_some in E. destruct E as [Hi Hn].
    assert (In name (v_names s)) by (rewrite <- Hn; apply nth_In; auto).
    destruct (vo_isnan V x), (v_an s); simpl; split; intros; try discriminate; try tauto.
    + destruct H0 as (_ & _ & ?); discriminate.
    + destruct H0 as (_ & ? & _); discriminate.
    + destruct H0 as (_ & ? & _); discriminate.
  - apply index_of_none in E. split; [discriminate|]. intros (? & _); contradiction.
Qed.

Lemma set_key_rejected_iff {T} (V : VOps T) s key x :
  snd (set_key V s key x) = Rejected <->
  (~ In key (v_names s) \/ (vo_isnan V x = true /\ v_an s = false)).
Proof.
  unfold set_key. destruct (index_of key (v_names s)) as [i|] eqn:E.
  - rewrite set_attr_rejected_iff.
    apply index_of_some in E. destruct E as [Hi Hn].
    assert (In key (v_names s)) by (rewrite <- Hn; apply nth_In; auto). tauto.
  - apply index_of_none in E. simpl. tauto.
Qed.

Lemma set_all_rejected_iff {T} (V : VOps T) s val :
  snd (set_all V s val) = Rejected <->
  (List.length val <> v_nval s \/ (existsb (vo_isnan V) val = true /\ v_an s = false)).
Proof.
  unfold set_all. rewrite <- checkvalues_none with (mins := v_mins s) (maxs := v_maxs s) (ck := v_chb s).
  destruct (checkvalues V _ _ _ _ val _) as [[vals hit]|]; simpl; split; intros; auto; discriminate.
Qed.

(* reset, clone and the dictionary round trip are never rejected on a well-formed vector *)
Theorem reset_spec s : wf s ->
  reset VXR s = (with_values s (v_defaults s) false, Accepted).
Proof.
  intros W. destruct W. destruct s as [names mins maxs defs vals hit cb chb an].
  unfold reset, v_nval in *. simpl in *. rewrite set_all_rebuild; auto.
Qed.

Theorem clone_dict_accepted s : wf s ->
  step VXR s OClone = (s, Accepted) /\ step VXR s ODict = (s, Accepted).
Proof. intros W. simpl. rewrite clone_id, dict_id; auto. Qed.

(* ---------- the bound-hit flag ---------- *)
(* set by attribute / by key: accepted assignment of x to the i-th name *)
Theorem set_attr_spec s name x i : wf s -> index_of name (v_names s) = Some i ->
  snd (set_attr VXR s name x) = Accepted ->
  let lo := nx (v_mins s) i in let hi := nx (v_maxs s) i in
  let s' := fst (set_attr VXR s name x) in
  v_values s' = upd i (clip_np VXR x lo hi) (v_values s) /\
  nx (v_values s') i = clip_np VXR x lo hi /\
  (v_chb s = true -> (v_hit s' = false <-> nx (v_values s') i = x)) /\
  (v_chb s = false -> v_hit s' = false).
Proof.
  intros W Ei. unfold set_attr. rewrite Ei.
  apply index_of_some in Ei. destruct Ei as [Hi _].
  destruct s as [names mins maxs defs vals hit cb chb an]. simpl in *.
  destruct (xisnan x && negb an) eqn:G; simpl; [discriminate|]. intros _.
  destruct W. unfold v_nval in *; simpl in *.
  assert (B : xle (nx mins i) (nx maxs i)) by auto.
  rewrite clip_py_eq_np by auto.
  assert (N : nx (upd i (clip_np VXR x (nx mins i) (nx maxs i)) vals) i
              = clip_np VXR x (nx mins i) (nx maxs i)).
  { rewrite upd_nth by lia. rewrite Nat.eqb_refl. auto. }
  split; [auto|]. split; [auto|]. split.
  - intros ->. rewrite N. rewrite <- clip_py_eq_np by auto. apply hit_exact_false_iff; auto.
  - intros ->. auto.
Qed.

(* whole-vector assignment *)
Theorem set_all_spec s val : wf s -> snd (set_all VXR s val) = Accepted ->
  let s' := fst (set_all VXR s val) in
  List.length val = v_nval s /\
  v_values s' = map3 (clip_np VXR) val (v_mins s) (v_maxs s) /\
  (v_chb s = false -> v_hit s' = false) /\
  ((forall i, (i < v_nval s)%nat -> away (nx val i) (nx (v_mins s) i) /\ away (nx val i) (nx (v_maxs s) i)) ->
   v_chb s = true -> (v_hit s' = false <-> v_values s' = val)).
Proof.
  intros W. unfold set_all.
  destruct (checkvalues VXR (v_mins s) (v_maxs s) (v_an s) (v_nval s) val (v_chb s))
    as [[vals hit]|] eqn:E; simpl; [|discriminate]. intros _.
  apply checkvalues_some in E. destruct E as (L & G & -> & ->).
  pose proof (wf_lmins _ W) as Lm. pose proof (wf_lmaxs _ W) as LM. pose proof (wf_bnd _ W) as Hb.
  assert (N : forall i, (i < v_nval s)%nat ->
            nx (map3 (clip_np VXR) val (v_mins s) (v_maxs s)) i
            = clip_np VXR (nx val i) (nx (v_mins s) i) (nx (v_maxs s) i)).
  { intros i Hi. apply (map3_nth _ _ _ _ (v_nval s)); auto. }
  split; [auto|]. split; [auto|]. split; [intros ->; auto|].
  intros H H0. rewrite H0. split.
  - intros E.
    apply nth_ext with (d := XFin 0) (d' := XFin 0).
    + rewrite (map3_length _ _ _ _ (v_nval s)); auto.
    + intros i Hi. rewrite (map3_length _ _ _ _ (v_nval s)) in Hi; auto.
      rewrite N by auto. destruct (H i Hi). apply hit_eps_false_iff; auto.
      eapply (existsb3_false_iff (hit_eps VXR) _ _ _ (v_nval s) (XFin 0) (XFin 0) (XFin 0)) in E; eauto.
  - intros E.
    apply (existsb3_false_iff (hit_eps VXR) _ _ _ (v_nval s) (XFin 0) (XFin 0) (XFin 0)); auto.
    intros i Hi. destruct (H i Hi). apply hit_eps_false_iff; auto.
    rewrite <- N by auto. rewrite E. reflexivity.
Qed.

(* without check_hitbounds the flag is False after every operation *)
Theorem run_nohit ops s : wf s -> v_chb s = false -> v_hit (run VXR s ops) = false.
Proof.
  intros W C. destruct (run_frame ops s W) as (_ & _ & _ & _ & _ & E & _).
  apply (wf_nohit _ (run_wf ops s W)). congruence.
Qed.

(* ---------- the pinned code (before the fix: commits) ---------- *)
(* from_dict_old: the restored flag is overwritten by the values setter *)
Theorem from_dict_old_loses_hit s : wf s ->
  from_dict_old VXR (to_dict s) = Some (with_hit s false).
Proof.
  intros W. unfold from_dict_old, to_dict. simpl.
  destruct (rows_facts (v_names s) (v_values s) (v_mins s) (v_maxs s) (v_defaults s) (v_nval s))
    as (A & B & C & D & E & F); try apply W; auto.
  set (R := rows (v_names s) (v_values s) (v_mins s) (v_maxs s) (v_defaults s)) in *.
  rewrite A, Nat.ltb_irrefl.
  assert (firstn (v_nval s) R = R) as -> by (rewrite <- A; apply firstn_all).
  rewrite B, C, D, E, F.
  destruct W. destruct s as [names mins maxs defs vals hit cb chb an].
  unfold v_nval in *. simpl in *.
  rewrite vnew_rebuild; auto. unfold with_hit, with_values. simpl.
  rewrite set_all_rebuild; auto.
Qed.

(* clone_old on a NaN-free vector: check_bounds := check_hitbounds, the two
   other flags and the hit flag are lost *)
Theorem clone_old_spec s : wf s ->
  (forall i, (i < v_nval s)%nat -> nx (v_defaults s) i <> XNan /\ nx (v_values s) i <> XNan) ->
  clone_old VXR s =
  Some (mkV (v_names s) (v_mins s) (v_maxs s) (v_defaults s) (v_values s) false (v_chb s)
            VEC_DEFAULT_CHECK_HITBOUNDS VEC_DEFAULT_ACCEPT_NAN).
Proof.
  intros W NN. destruct W. destruct s as [names mins maxs defs vals hit cb chb an].
  unfold clone_old, v_nval in *. simpl in *.
  assert (Hin : forall an' x lo hi, in_bounds an x lo hi -> x <> XNan -> in_bounds an' x lo hi).
  { intros an' x lo hi [[-> _]|H] Hx; [contradiction|right; auto]. }
  rewrite vnew_rebuild; auto.
  - rewrite set_all_rebuild; auto. intros i Hi. eapply Hin; eauto. apply NN; auto.
  - intros i Hi. eapply Hin; eauto. apply NN; auto.
  - unfold VEC_DEFAULT_CHECK_HITBOUNDS. discriminate.
Qed.

(* ---------- reachable states ---------- *)
(* every state reached from a constructor call (NaN-free bounds) by any history *)
Inductive reachable : vst -> Prop :=
| reach_new names defaults mins maxs cb chb an s :
    vnew VXR names defaults mins maxs cb chb an = Some s ->
    nonan_opt mins -> nonan_opt maxs -> reachable s
| reach_step s op : reachable s -> reachable (fst (step VXR s op)).

Theorem reachable_wf s : reachable s -> wf s.
Proof.
  induction 1.
  - eapply vnew_wf; eauto.
  - apply step_wf; auto.
Qed.

(* the invariant in the words of the property *)
Definition Inv (s : vst) : Prop :=
  forall i, (i < v_nval s)%nat ->
    (nx (v_values s) i = XNan /\ v_an s = true) \/
    (xle (nx (v_mins s) i) (nx (v_values s) i) /\ xle (nx (v_values s) i) (nx (v_maxs s) i)).

Lemma wf_Inv s : wf s -> Inv s.
Proof. intros W i Hi. apply (wf_vals _ W i Hi). Qed.

(* ---------- histories from a constructor call ---------- *)
Section History.
Variables (names : list string) (defaults mins maxs : option (list xr)) (cb chb an : bool).
Variables (s0 : vst) (ops : list (vop (T := xr))).
Hypothesis Hnew : vnew VXR names defaults mins maxs cb chb an = Some s0.
Hypothesis Hmins : nonan_opt mins.
Hypothesis Hmaxs : nonan_opt maxs.

Lemma history_wf : wf (run VXR s0 ops).
Proof. apply run_wf. eapply vnew_wf; eauto. Qed.

Lemma history_Inv : Inv (run VXR s0 ops).
Proof. apply wf_Inv, history_wf. Qed.

Lemma history_frame :
  frame s0 (run VXR s0 ops) /\ v_names (run VXR s0 ops) = names /\
  v_cb (run VXR s0 ops) = cb /\ v_chb (run VXR s0 ops) = chb /\ v_an (run VXR s0 ops) = an.
Proof.
  destruct (vnew_wf _ _ _ _ _ _ _ _ Hnew Hmins Hmaxs) as (W & A & B & C & D & _).
  pose proof (run_frame ops s0 W) as F. split; auto.
  destruct F as (F1 & _ & _ & _ & F5 & F6 & F7). repeat split; congruence.
Qed.

Lemma history_nohit : chb = false -> v_hit (run VXR s0 ops) = false.
Proof.
  intros C. destruct (vnew_wf _ _ _ _ _ _ _ _ Hnew Hmins Hmaxs) as (W & _ & _ & E & _).
  apply run_nohit; auto. congruence.
Qed.
End History.

Lemma reachable_Inv s : reachable s -> Inv s.
Proof. intros R. apply wf_Inv, reachable_wf, R. Qed.

Lemma run_reachable ops : forall s, reachable s -> reachable (run VXR s ops).
Proof.
  unfold run. induction ops as [|op ops IH]; intros s R; simpl; auto.
  apply IH. apply reach_step; auto.
Qed.

(* ---------- further consequences ---------- *)

(* an attribute that is not a name of the vector does not concern it (any instance) *)
Lemma set_attr_foreign {T} (V : VOps T) s name x : ~ In name (v_names s) ->
  set_attr V s name x = (s, Accepted).
Proof. intros H. apply index_of_none in H. unfold set_attr. rewrite H. reflexivity. Qed.

(* set by key on a known name is set by attribute (any instance) *)
Lemma set_key_known {T} (V : VOps T) s key x : In key (v_names s) ->
  set_key V s key x = set_attr V s key x.
Proof. intros H. apply index_of_in in H. destruct H as [i E]. unfold set_key. rewrite E. auto. Qed.

(* lengths never change under assignments (any instance, binary64 included) *)
Lemma assign_lengths {T} (V : VOps T) cl rt s op : is_assign op -> lengths_ok s ->
  lengths_ok (fst (step_gen V cl rt s op)).
Proof.
  intros A (L1 & L2 & L3 & L4).
  assert (SA : forall name x, lengths_ok (fst (set_attr V s name x))).
  { intros name x. unfold set_attr. destruct (index_of name (v_names s)); simpl; [|repeat split; auto].
    destruct (vo_isnan V x && negb (v_an s)); simpl; repeat split; auto.
    unfold v_nval; simpl. rewrite upd_length. auto. }
  assert (SV : forall val, lengths_ok (fst (set_all V s val))).
  { intros val. unfold set_all.
    destruct (checkvalues V _ _ _ _ val _) as [[vals hit]|] eqn:E; simpl; [|repeat split; auto].
    apply checkvalues_some in E. destruct E as (L & _ & -> & _).
    repeat split; auto. unfold v_nval; simpl. apply map3_length; auto. }
  destruct op; simpl in *; try contradiction; auto.
  - unfold set_key. destruct (index_of key (v_names s)); simpl; auto. repeat split; auto.
  - apply SV.
Qed.

(* assigning the current values back is accepted and changes nothing but the flag *)
Theorem set_all_current s : wf s -> set_all VXR s (v_values s) = (with_hit s false, Accepted).
Proof.
  intros W. destruct W. destruct s as [names mins maxs defs vals hit cb chb an].
  unfold v_nval in *. simpl in *. rewrite set_all_rebuild; auto.
Qed.

(* the two write paths agree: setting one component by attribute is the
   whole-vector assignment of the current values with that component replaced *)
Theorem set_attr_is_set_all s name x i : wf s -> index_of name (v_names s) = Some i ->
  snd (set_attr VXR s name x) = Accepted ->
  snd (set_all VXR s (upd i x (v_values s))) = Accepted /\
  v_values (fst (set_attr VXR s name x)) = v_values (fst (set_all VXR s (upd i x (v_values s)))) /\
  (away x (nx (v_mins s) i) -> away x (nx (v_maxs s) i) ->
   v_hit (fst (set_attr VXR s name x)) = v_hit (fst (set_all VXR s (upd i x (v_values s))))).
Proof.
  intros W Ei Acc.
  destruct (set_attr_spec s name x i W Ei Acc) as (Hv & _ & _ & _).
  assert (Gx : x = XNan -> v_an s = true).
  { intros ->. destruct (v_an s) eqn:Ean; auto. exfalso.
    assert (R : snd (set_attr VXR s name XNan) = Rejected).
    { apply set_attr_rejected_iff. apply index_of_some in Ei. destruct Ei as [Hi Hn].
      split; [rewrite <- Hn; apply nth_In; auto|]. split; auto. }
    congruence. }
  pose proof Ei as Ei'. apply index_of_some in Ei'. destruct Ei' as [Hi _].
  pose proof (wf_lmins _ W) as Lm. pose proof (wf_lmaxs _ W) as LM.
  pose proof (wf_lvals _ W) as Lv. pose proof (wf_bnd _ W) as Hb. pose proof (wf_vals _ W) as HV.
  fold (v_nval s) in Hi.
  set (val := upd i x (v_values s)).
  assert (Lval : List.length val = v_nval s) by (unfold val; rewrite upd_length; auto).
  assert (Nval : forall j, (j < v_nval s)%nat -> nx val j = if Nat.eqb j i then x else nx (v_values s) j).
  { intros j Hj. unfold val. apply upd_nth. lia. }
  assert (G : existsb xisnan val && negb (v_an s) = false).
  { destruct (v_an s) eqn:Ean; [apply andb_false_r|]. rewrite andb_true_r.
    apply existsb_false_nth with (d := XFin 0). intros j Hj. rewrite Lval in Hj.
    rewrite Nval by auto. destruct (Nat.eqb j i).
    - destruct x; auto. specialize (Gx eq_refl). discriminate.
    - specialize (HV j Hj). try rewrite Ean in HV. apply in_bounds_nan_guard in HV.
      rewrite andb_true_r in HV. exact HV. }
  assert (CV : checkvalues VXR (v_mins s) (v_maxs s) (v_an s) (v_nval s) val (v_chb s)
               = Some (map3 (clip_np VXR) val (v_mins s) (v_maxs s),
                       if v_chb s then existsb3 (hit_eps VXR) val (v_mins s) (v_maxs s) else false)).
  { unfold checkvalues. rewrite Lval, Nat.eqb_refl. simpl.
    change (vo_isnan VXR) with xisnan. rewrite G. reflexivity. }
  unfold set_all. rewrite CV. simpl. split; [reflexivity|]. split.
  - rewrite Hv. apply nth_ext with (d := XFin 0) (d' := XFin 0).
    + rewrite upd_length, (map3_length _ _ _ _ (v_nval s)); auto.
    + intros j Hj. rewrite upd_length, Lv in Hj.
      rewrite (map3_nth _ _ _ _ (v_nval s) j (XFin 0) (XFin 0) (XFin 0)); auto.
      rewrite upd_nth by lia. rewrite Nval by auto.
      destruct (Nat.eqb j i) eqn:E; [apply Nat.eqb_eq in E; subst; auto|].
      symmetry. eapply in_bounds_clip_id; eauto.
  - intros A1 A2. unfold set_attr. rewrite Ei.
    destruct (vo_isnan VXR x && negb (v_an s)) eqn:G2.
    { unfold set_attr in Acc. rewrite Ei, G2 in Acc. discriminate. }
    simpl. destruct (v_chb s) eqn:Ec.
    2:{ apply (wf_nohit _ W); auto. }
    rewrite <- hit_tests_agree by auto.
    destruct (hit_eps VXR x (nx (v_mins s) i) (nx (v_maxs s) i)) eqn:Eh.
    + destruct (existsb3 (hit_eps VXR) val (v_mins s) (v_maxs s)) eqn:E3; auto.
      eapply (existsb3_false_iff (hit_eps VXR) _ _ _ (v_nval s) (XFin 0) (XFin 0) (XFin 0)) in E3; eauto.
      rewrite Nval, Nat.eqb_refl in E3 by auto. congruence.
    + symmetry.
      apply (existsb3_false_iff (hit_eps VXR) _ _ _ (v_nval s) (XFin 0) (XFin 0) (XFin 0)); auto.
      intros j Hj. rewrite Nval by auto.
      destruct (Nat.eqb j i) eqn:E; [apply Nat.eqb_eq in E; subst; auto|].
      eapply hit_eps_in_bounds; eauto.
Qed.

(* what an accepted constructor call checked about explicit defaults (any instance) *)
Lemma vnew_some_defaults {T} (V : VOps T) names d mins maxs cb chb an c :
  vnew V names (Some d) mins maxs cb chb an = Some c ->
  existsb (vo_isnan V) d && negb an = false /\
  v_names c = names /\ v_an c = an /\ v_chb c = chb /\ v_cb c = cb /\ v_hit c = false.
Proof.
  intros H. unfold vnew in H.
  destruct (chb && negb cb); [discriminate|]. destruct (negb (nodupb names)); [discriminate|].
  repeat match type of H with
  | match ?X with Some _ => _ | None => None end = Some _ => destruct X eqn:?; [|discriminate]
  end.
  inversion H; subst c; clear H. simpl.
  match goal with
  | E : match checkvalues V ?lo ?hi an ?n d true with _ => _ end = Some _ |- _ =>
      destruct (checkvalues V lo hi an n d true) as [[d' h]|] eqn:Ed; [|discriminate]
  end.
  apply checkvalues_some in Ed. destruct Ed as (_ & G & _). repeat split; auto.
Qed.

(* the pinned clone raised as soon as a default or a value was NaN *)
Theorem clone_old_nan s : wf s ->
  (exists i, (i < v_nval s)%nat /\ (nx (v_defaults s) i = XNan \/ nx (v_values s) i = XNan)) ->
  clone_old VXR s = None.
Proof.
  intros W (i & Hi & Hn). unfold clone_old.
  destruct (vnew VXR (v_names s) (Some (v_defaults s)) (Some (v_mins s)) (Some (v_maxs s))
                 (v_chb s) VEC_DEFAULT_CHECK_HITBOUNDS VEC_DEFAULT_ACCEPT_NAN) as [c|] eqn:E; auto.
  destruct (vnew_some_defaults _ _ _ _ _ _ _ _ _ E) as (Gd & Nc & Ac & _).
  unfold VEC_DEFAULT_ACCEPT_NAN in Gd. rewrite andb_true_r in Gd.
  destruct Hn as [Hn|Hn].
  - exfalso. assert (existsb (vo_isnan VXR) (v_defaults s) = true); [|congruence].
    apply existsb_exists. exists (nx (v_defaults s) i). split.
    + apply nth_In. rewrite (wf_ldefs _ W). auto.
    + rewrite Hn. reflexivity.
  - unfold set_all.
    destruct (checkvalues VXR (v_mins c) (v_maxs c) (v_an c) (v_nval c) (v_values s) (v_chb c))
      as [[v1 h4]|] eqn:Ev; auto.
    exfalso. apply checkvalues_some in Ev. destruct Ev as (Lv & Gv & _ & _).
    rewrite Ac in Gv. unfold VEC_DEFAULT_ACCEPT_NAN in Gv. rewrite andb_true_r in Gv.
    assert (existsb (vo_isnan VXR) (v_values s) = true); [|congruence].
    apply existsb_exists. exists (nx (v_values s) i). split.
    + apply nth_In. rewrite (wf_lvals _ W). auto.
    + rewrite Hn. reflexivity.
Qed.

(* every intermediate state of a history (what the correspondence check observes) *)
Theorem trace_wf ops : forall s, wf s ->
  Forall (fun r => wf (snd r) /\ frame s (snd r)) (trace VXR s ops).
Proof.
  induction ops as [|op ops IH]; intros s W; simpl; constructor.
  - simpl. split; [apply step_wf | apply step_frame]; auto.
  - specialize (IH (fst (step VXR s op)) (step_wf s op W)).
    eapply Forall_impl; [|exact IH]. intros r [Wr Fr]. split; auto.
    eapply frame_trans; [apply step_frame; auto|exact Fr].
Qed.

Lemma last_cons_indep {A} (l : list A) x d d' : last (x :: l) d = last (x :: l) d'.
Proof. revert x. induction l as [|y l IH]; intros x; simpl; auto. apply (IH y). Qed.

(* the last state of the trace is the state [run] returns *)
Lemma trace_last {T} (V : VOps T) ops : forall s,
  run V s ops = last (map snd (trace V s ops)) s.
Proof.
  unfold run. induction ops as [|op ops IH]; intros s; simpl; auto.
  rewrite IH. destruct (map snd (trace V (fst (step V s op)) ops)) eqn:E; auto.
  apply last_cons_indep.
Qed.
