From Coq Require Import ZArith Bool List String Reals Lra Lia.
From Hy Require Import Base.Num Gen.Consts Gen.ConstsC12 Model.Vector.
Import ListNotations.

Lemma stub_rejected_unchanged : forall {T} (V : VOps T) s name x,
  snd (set_attr V s name x) = Rejected -> fst (set_attr V s name x) = s.
Proof.
  intros T V s name x. unfold set_attr.
  destruct (index_of name (v_names s)); simpl; [|discriminate].
  destruct (vo_isnan V x && negb (v_an s)); simpl; [reflexivity|discriminate].
Qed.
