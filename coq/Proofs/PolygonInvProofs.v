(* Proofs about Model/Polygon.v (property C15), part 2: the answer does not
   depend on the starting vertex, the orientation, on closing the vertex list,
   on a common translation or scaling, nor on the tolerance; degenerate
   polygons; rectangles; cells_inside_polygon as a filter over cell centres. *)
From Coq Require Import ZArith Bool List Reals Lra Lia Permutation Sorted.
From Hy Require Import Base.Num Gen.ConstsC15 Model.Grid Model.Polygon.
From Hy Require Import Proofs.GridGeomProofs Proofs.PolygonProofs.
Import ListNotations.
Open Scope R_scope.

(* ------------------------------------------------------------------ *)
(* from equal crossing parity / transported hypotheses to equal answers  *)

Definition cparity (poly : list rpt) (p : rpt) : bool :=
  parityb (map (crossesb (fst p) (snd p)) (edges poly)).

Lemma parity_answer_cparity poly p :
  parity_answer poly p = if cparity poly p then 1%Z else 0%Z.
Proof. unfold parity_answer, cparity, crossing_number. now rewrite parityb_odd. Qed.

Lemma pip_point_eq a1 a2 poly1 poly2 p1 p2 :
  poly1 <> [] -> poly2 <> [] -> good_poly a1 poly1 -> good_poly a2 poly2 ->
  cparity poly1 p1 = cparity poly2 p2 ->
  pip_point RR a1 poly1 p1 = pip_point RR a2 poly2 p2.
Proof.
  intros N1 N2 G1 G2 E.
  rewrite (inside_is_crossing_parity a1 poly1 p1 N1 G1).
  rewrite (inside_is_crossing_parity a2 poly2 p2 N2 G2).
  now rewrite !parity_answer_cparity, E.
Qed.

Lemma cparity_perm poly1 poly2 p :
  Permutation (edges poly1) (edges poly2) -> cparity poly1 p = cparity poly2 p.
Proof. intros H. unfold cparity. apply parityb_perm, Permutation_map, H. Qed.

Lemma good_poly_perm atol poly1 poly2 :
  Permutation (edges poly1) (edges poly2) -> good_poly atol poly2 -> good_poly atol poly1.
Proof.
  unfold good_poly. rewrite !Forall_forall. intros H G e He.
  apply G. eapply Permutation_in; eauto.
Qed.

(* ------------------------------------------------------------------ *)
(* any starting vertex                                                   *)

Theorem rotate_invariant atol a b p :
  good_poly atol (a ++ b) ->
  pip_point RR atol (b ++ a) p = pip_point RR atol (a ++ b) p.
Proof.
  intros G. destruct a as [|x a]; [now rewrite app_nil_r|].
  pose proof (edges_rotate_perm (x :: a) b) as HP.
  apply pip_point_eq.
  - intros H. apply app_eq_nil in H. destruct H; discriminate.
  - discriminate.
  - eapply good_poly_perm; eauto.
  - exact G.
  - now apply cparity_perm.
Qed.

(* ------------------------------------------------------------------ *)
(* either orientation                                                    *)

Lemma crossesb_swap x y e : crossesb x y (swap e) = crossesb x y e.
Proof.
  destruct e as [[ax ay] [bx by_]]. unfold crossesb, swap; simpl.
  rewrite (Rmin_comm by_ ay), (Rmax_comm by_ ay).
  destruct (Rltb (Rmin ay by_) y) eqn:E1; [|reflexivity].
  destruct (Rleb y (Rmax ay by_)) eqn:E2; [|reflexivity].
  simpl. f_equal.
  apply Rltb_true in E1. apply Rleb_true in E2.
  assert (ay <> by_).
  { intros ->. unfold Rmin, Rmax in *. destruct (Rle_dec by_ by_); lra. }
  unfold xcross; simpl. field. split; lra.
Qed.

Lemma good_edge_swap atol e : good_edge atol e -> good_edge atol (swap e).
Proof.
  destruct e as [[ax ay] [bx by_]]. unfold good_edge, swap; simpl.
  rewrite (Rabs_minus_sym by_ ay), (Rabs_minus_sym bx ax).
  intros [[->|H1] [->|H2]]; split; auto.
Qed.

Theorem reverse_invariant atol poly p :
  good_poly atol poly ->
  pip_point RR atol (rev poly) p = pip_point RR atol poly p.
Proof.
  intros G. destruct poly as [|v t]; [reflexivity|].
  pose proof (edges_rev_perm (v :: t)) as HP.
  apply pip_point_eq.
  - simpl. intros H. apply app_eq_nil in H. destruct H; discriminate.
  - discriminate.
  - unfold good_poly. rewrite Forall_forall. intros e He.
    apply (Permutation_in _ HP) in He. apply in_map_iff in He.
    destruct He as (e' & <- & He'). apply good_edge_swap.
    unfold good_poly in G. rewrite Forall_forall in G. now apply G.
  - exact G.
  - unfold cparity. rewrite (parityb_perm _ _ (Permutation_map _ HP)).
    rewrite map_map. apply parityb_map_ext_in. intros e _. apply crossesb_swap.
Qed.

(* ------------------------------------------------------------------ *)
(* vertex list closed by repeating the first vertex                      *)

Lemma crossesb_degenerate x y v : crossesb x y (v, v) = false.
Proof.
  unfold crossesb; simpl. unfold Rmin, Rmax. destruct (Rle_dec (snd v) (snd v)); [|lra].
  destruct (Rltb (snd v) y) eqn:E1; [|reflexivity].
  destruct (Rleb y (snd v)) eqn:E2; [|reflexivity].
  apply Rltb_true in E1. apply Rleb_true in E2. lra.
Qed.

Lemma good_edge_degenerate atol v : good_edge atol (v, v).
Proof. unfold good_edge; simpl. split; now left. Qed.

Theorem close_invariant atol v t p :
  good_poly atol (v :: t) ->
  pip_point RR atol ((v :: t) ++ [v]) p = pip_point RR atol (v :: t) p.
Proof.
  intros G. apply pip_point_eq.
  - discriminate.
  - discriminate.
  - unfold good_poly. rewrite edges_close. apply Forall_app. split; [exact G|].
    constructor; [apply good_edge_degenerate|constructor].
  - exact G.
  - unfold cparity. rewrite edges_close, map_app, parityb_app. simpl.
    rewrite crossesb_degenerate. now rewrite !xorb_false_r.
Qed.

(* a repeated vertex anywhere is harmless too: inserting a copy of the vertex
   that starts the list (any vertex, by rotation) *)
Theorem repeat_first_invariant atol v t p :
  good_poly atol (v :: t) ->
  pip_point RR atol (v :: v :: t) p = pip_point RR atol (v :: t) p.
Proof.
  intros G.
  assert (E : edges (v :: v :: t) = (v, v) :: edges (v :: t)) by reflexivity.
  apply pip_point_eq; try discriminate; try exact G.
  - unfold good_poly. rewrite E. constructor; [apply good_edge_degenerate|exact G].
  - unfold cparity. rewrite E. cbn [map parityb fold_right].
    rewrite crossesb_degenerate. apply xorb_false_l.
Qed.

(* ------------------------------------------------------------------ *)
(* translation and scaling of polygon and point together                 *)

Definition tr (t p : rpt) : rpt := (fst p + fst t, snd p + snd t).
Definition sc (c : R) (p : rpt) : rpt := (c * fst p, c * snd p).

Lemma Rltb_tr a b t : Rltb (a + t) (b + t) = Rltb a b.
Proof. unfold Rltb. destruct (Rlt_dec (a + t) (b + t)), (Rlt_dec a b); try reflexivity; lra. Qed.
Lemma Rleb_tr a b t : Rleb (a + t) (b + t) = Rleb a b.
Proof. unfold Rleb. destruct (Rle_dec (a + t) (b + t)), (Rle_dec a b); try reflexivity; lra. Qed.
Lemma Rltb_sc c a b : 0 < c -> Rltb (c * a) (c * b) = Rltb a b.
Proof. intros Hc. unfold Rltb. destruct (Rlt_dec (c * a) (c * b)), (Rlt_dec a b); try reflexivity; nra. Qed.
Lemma Rleb_sc c a b : 0 < c -> Rleb (c * a) (c * b) = Rleb a b.
Proof. intros Hc. unfold Rleb. destruct (Rle_dec (c * a) (c * b)), (Rle_dec a b); try reflexivity; nra. Qed.

Lemma crossesb_alt x y e :
  crossesb x y e =
  xorb (Rltb (snd (fst e)) y) (Rltb (snd (snd e)) y) && Rleb x (xcross y (fst e) (snd e)).
Proof. unfold crossesb. now rewrite spansb_xor. Qed.

Lemma crossesb_tr t x y a b :
  crossesb (x + fst t) (y + snd t) (tr t a, tr t b) = crossesb x y (a, b).
Proof.
  rewrite !crossesb_alt. destruct t as [tx ty], a as [ax ay], b as [bx by_]; unfold tr; simpl.
  rewrite !Rltb_tr. f_equal.
  replace (xcross (y + ty) (ax + tx, ay + ty) (bx + tx, by_ + ty))
    with (xcross y (ax, ay) (bx, by_) + tx).
  - apply Rleb_tr.
  - unfold xcross; simpl.
    replace (y + ty - (ay + ty)) with (y - ay) by ring.
    replace (bx + tx - (ax + tx)) with (bx - ax) by ring.
    replace (by_ + ty - (ay + ty)) with (by_ - ay) by ring. ring.
Qed.

Lemma crossesb_sc c x y a b :
  0 < c -> crossesb (c * x) (c * y) (sc c a, sc c b) = crossesb x y (a, b).
Proof.
  intros Hc. rewrite !crossesb_alt. destruct a as [ax ay], b as [bx by_]; unfold sc; simpl.
  rewrite !Rltb_sc by assumption.
  destruct (Req_EM_T ay by_) as [->|Hne].
  - now rewrite xorb_nilpotent.
  - f_equal.
    replace (xcross (c * y) (c * ax, c * ay) (c * bx, c * by_))
      with (c * xcross y (ax, ay) (bx, by_)).
    + now apply Rleb_sc.
    + unfold xcross; simpl.
      replace (c * by_ - c * ay) with (c * (by_ - ay)) by ring.
      field. split; lra.
Qed.

Lemma good_edge_tr atol t a b : good_edge atol (a, b) -> good_edge atol (tr t a, tr t b).
Proof.
  destruct t as [tx ty], a as [ax ay], b as [bx by_]; unfold good_edge, tr; simpl.
  replace (ay + ty - (by_ + ty)) with (ay - by_) by ring.
  replace (ax + tx - (bx + tx)) with (ax - bx) by ring.
  intros [[->|H1] [->|H2]]; split; auto.
Qed.

Lemma good_edge_sc atol c a b :
  0 < c -> good_edge atol (a, b) -> good_edge (c * atol) (sc c a, sc c b).
Proof.
  intros Hc. destruct a as [ax ay], b as [bx by_]; unfold good_edge, sc; simpl.
  replace (c * ay - c * by_) with (c * (ay - by_)) by ring.
  replace (c * ax - c * bx) with (c * (ax - bx)) by ring.
  rewrite !Rabs_mult, (Rabs_pos_eq c) by lra.
  intros [[->|H1] [->|H2]]; split; auto; right; nra.
Qed.

Lemma cparity_map f g poly p :
  (forall a b, crossesb (fst (g p)) (snd (g p)) (f a, f b) = crossesb (fst p) (snd p) (a, b)) ->
  cparity (map f poly) (g p) = cparity poly p.
Proof.
  intros H. unfold cparity. rewrite edges_map, map_map.
  apply parityb_map_ext_in. intros [a b] _. apply H.
Qed.

Lemma good_poly_map (P Q : rpt * rpt -> Prop) f poly :
  (forall a b, P (a, b) -> Q (f a, f b)) ->
  Forall P (edges poly) -> Forall Q (edges (map f poly)).
Proof.
  intros H G. rewrite edges_map. rewrite Forall_forall in *. intros e He.
  apply in_map_iff in He. destruct He as ([a b] & <- & He). apply H. now apply G.
Qed.

Theorem translate_invariant atol poly t p :
  good_poly atol poly ->
  pip_point RR atol (map (tr t) poly) (tr t p) = pip_point RR atol poly p.
Proof.
  intros G. destruct poly as [|v r]; [reflexivity|].
  apply pip_point_eq; try discriminate; try exact G.
  - apply (good_poly_map (good_edge atol) (good_edge atol) (tr t)); [|exact G].
    intros a b. apply good_edge_tr.
  - apply (cparity_map (tr t) (tr t)). intros a b. unfold tr at 1 2; simpl. apply crossesb_tr.
Qed.

(* scaling by c > 0, the tolerance being the same absolute number on both
   sides (as in the code): both polygons have to respect it *)
Theorem scale_invariant atol poly c p :
  0 < c -> good_poly atol poly -> good_poly atol (map (sc c) poly) ->
  pip_point RR atol (map (sc c) poly) (sc c p) = pip_point RR atol poly p.
Proof.
  intros Hc G G'. destruct poly as [|v r]; [reflexivity|].
  apply pip_point_eq; try discriminate; try assumption.
  apply (cparity_map (sc c) (sc c)). intros a b. unfold sc at 1 2; simpl. now apply crossesb_sc.
Qed.

(* scaling with the tolerance scaled as well: no extra hypothesis *)
Theorem scale_invariant_atol atol poly c p :
  0 < c -> good_poly atol poly ->
  pip_point RR (c * atol) (map (sc c) poly) (sc c p) = pip_point RR atol poly p.
Proof.
  intros Hc G. destruct poly as [|v r]; [reflexivity|].
  apply pip_point_eq; try discriminate; try assumption.
  - apply (good_poly_map (good_edge atol) (good_edge (c * atol)) (sc c)); [|exact G].
    intros a b. now apply good_edge_sc.
  - apply (cparity_map (sc c) (sc c)). intros a b. unfold sc at 1 2; simpl. now apply crossesb_sc.
Qed.

(* the value of the tolerance is immaterial as long as the polygon respects it *)
Theorem atol_irrelevant a1 a2 poly p :
  good_poly a1 poly -> good_poly a2 poly ->
  pip_point RR a1 poly p = pip_point RR a2 poly p.
Proof.
  intros G1 G2. destruct poly as [|v r]; [reflexivity|].
  apply pip_point_eq; try discriminate; try assumption. reflexivity.
Qed.

(* ------------------------------------------------------------------ *)
(* fewer than three vertices: nothing is inside                          *)

Theorem degenerate_polygon_zero atol poly p :
  poly <> [] -> (List.length poly <= 2)%nat -> good_poly atol poly ->
  pip_point RR atol poly p = Some 0%Z.
Proof.
  intros Hne Hl G. rewrite (inside_is_crossing_parity atol poly p Hne G).
  rewrite parity_answer_cparity. f_equal.
  destruct poly as [|v [|w [|z r]]]; [congruence| | |simpl in Hl; lia].
  - unfold cparity; simpl. now rewrite crossesb_degenerate.
  - unfold cparity. change (edges [v; w]) with [(v, w); swap (v, w)]. simpl map.
    rewrite crossesb_swap. simpl. now destruct (crossesb (fst p) (snd p) (v, w)).
Qed.

(* ------------------------------------------------------------------ *)
(* axis-parallel rectangle: crossing parity = topological interior       *)

Definition rectangle (a b c d : R) : list rpt := [(a, c); (b, c); (b, d); (a, d)].

Lemma xcross_vertical y u c d : c <> d -> xcross y (u, c) (u, d) = u.
Proof. intros H. unfold xcross; simpl. field. lra. Qed.

Theorem rectangle_interior atol a b c d x y :
  a < b -> c < d -> atol <= b - a -> atol < d - c ->
  x <> a -> x <> b -> y <> c -> y <> d ->
  (pip_point RR atol (rectangle a b c d) (x, y) = Some 1%Z <-> (a < x < b /\ c < y < d)) /\
  (pip_point RR atol (rectangle a b c d) (x, y) = Some 0%Z <-> ~ (a < x < b /\ c < y < d)).
Proof.
  intros Hab Hcd Ha1 Ha2 Nxa Nxb Nyc Nyd.
  assert (G : good_poly atol (rectangle a b c d)).
  { unfold good_poly, rectangle.
    change (edges [(a, c); (b, c); (b, d); (a, d)])
      with [((a, c), (b, c)); ((b, c), (b, d)); ((b, d), (a, d)); ((a, d), (a, c))].
    assert (Rabs (a - b) = b - a) by (rewrite Rabs_minus_sym, Rabs_pos_eq; lra).
    assert (Rabs (b - a) = b - a) by (rewrite Rabs_pos_eq; lra).
    assert (Rabs (c - d) = d - c) by (rewrite Rabs_minus_sym, Rabs_pos_eq; lra).
    assert (Rabs (d - c) = d - c) by (rewrite Rabs_pos_eq; lra).
    apply Forall_cons; [|apply Forall_cons; [|apply Forall_cons; [|apply Forall_cons; [|apply Forall_nil]]]];
      unfold good_edge; simpl; split;
      solve [left; reflexivity | right; lra]. }
  assert (Hne : rectangle a b c d <> []) by (unfold rectangle; discriminate).
  rewrite (inside_is_crossing_parity atol _ (x, y) Hne G).
  rewrite parity_answer_cparity. unfold cparity, rectangle.
  change (edges [(a, c); (b, c); (b, d); (a, d)])
    with [((a, c), (b, c)); ((b, c), (b, d)); ((b, d), (a, d)); ((a, d), (a, c))].
  simpl map. rewrite !crossesb_alt. simpl fst; simpl snd.
  rewrite xorb_nilpotent, xorb_nilpotent. simpl andb.
  rewrite (xcross_vertical y b c d) by lra. rewrite (xcross_vertical y a d c) by lra.
  unfold parityb; simpl fold_right.
  unfold Rltb, Rleb.
  destruct (Rlt_dec c y), (Rlt_dec d y), (Rle_dec x a), (Rle_dec x b); simpl;
    (split; split; [intros H; try discriminate H; lra | intros H; try reflexivity; exfalso; lra
                   | intros H; try discriminate H; lra | intros H; try reflexivity; exfalso; lra]).
Qed.

(* ------------------------------------------------------------------ *)
(* Grid.cells_inside_polygon                                             *)

Lemma mask_select_map {A B} (f : A -> Z) (g : A -> B) (l : list A) :
  mask_select (map f l) (combine (map g l) l) =
  map (fun c => (g c, c)) (filter (fun c => negb (f c =? 0)%Z) l).
Proof.
  induction l as [|a l IH]; [reflexivity|]. simpl.
  destruct (f a =? 0)%Z; simpl; now rewrite IH.
Qed.

Lemma in_zrange n c : In c (zrange n) <-> (0 <= c < n)%Z.
Proof.
  unfold zrange. rewrite in_map_iff. split.
  - intros (k & <- & Hk). apply in_seq in Hk. lia.
  - intros H. exists (Z.to_nat c). split; [lia|]. apply in_seq. lia.
Qed.

Definition cells_atol {T} (atol_default atol : T) : T :=
  if CELLS_FORWARDS_ATOL then atol else atol_default.

(* for every arithmetic instance: the rows are, in increasing cell order, the
   cells whose centre gets a non-zero answer, with the centre's coordinates *)
Theorem cells_inside_is_filter {T} (N : NumOps T) ad nrows ncols xll yll csz poly atol rows :
  cells_inside_polygon N ad nrows ncols xll yll csz poly atol = Some rows ->
  exists xlim ylim, extent N poly = Some (xlim, ylim) /\
  rows = map (fun c => (cell2coord N nrows ncols xll yll csz c, c))
           (filter (fun c => negb (c_inside_point N (cells_atol ad atol) xlim ylim poly
                                     (cell2coord N nrows ncols xll yll csz c) 0 =? 0)%Z)
                   (zrange (nrows * ncols))).
Proof.
  unfold cells_inside_polygon. fold (cells_atol ad atol).
  destruct (extent N poly) as [[xlim ylim]|] eqn:He.
  - rewrite (pip_map N _ _ poly xlim ylim He). intros H; inversion H; clear H.
    exists xlim, ylim. split; [reflexivity|].
    rewrite map_map. apply mask_select_map.
  - unfold points_inside_polygon. rewrite He. discriminate.
Qed.

Theorem cells_inside_empty_polygon {T} (N : NumOps T) ad nrows ncols xll yll csz atol :
  cells_inside_polygon N ad nrows ncols xll yll csz [] atol = None.
Proof. reflexivity. Qed.

(* over the reals: cell (row, col) is returned exactly when the crossing
   number of its centre is odd *)
Theorem cells_inside_centres nrows ncols xll yll csz poly atol :
  poly <> [] -> good_poly (cells_atol PIP_ATOL_DEFAULT_R atol) poly ->
  exists rows,
    cells_inside_polygon RR PIP_ATOL_DEFAULT_R nrows ncols xll yll csz poly atol = Some rows /\
    (forall xy c, In (xy, c) rows <->
       (0 <= c < nrows * ncols)%Z /\ xy = cell2coord RR nrows ncols xll yll csz c /\
       Nat.odd (crossing_number poly xy) = true) /\
    (forall row col, (0 <= col < ncols)%Z -> (0 <= row < nrows)%Z ->
       let centre := (xll + csz * (IZR col + / 2), yll + csz * (IZR (nrows - 1 - row) + / 2)) in
       In (centre, (row * ncols + col)%Z) rows <-> Nat.odd (crossing_number poly centre) = true).
Proof.
  intros Hne G.
  destruct (extent_nonempty RR poly Hne) as (xlim & ylim & He).
  pose (ans := fun c => c_inside_point RR (cells_atol PIP_ATOL_DEFAULT_R atol) xlim ylim poly
                          (cell2coord RR nrows ncols xll yll csz c) 0).
  assert (Hans : forall c, ans c = parity_answer poly (cell2coord RR nrows ncols xll yll csz c)).
  { intros c. pose proof (inside_is_crossing_parity _ poly
        (cell2coord RR nrows ncols xll yll csz c) Hne G) as H.
    unfold pip_point in H. rewrite He in H. now inversion H. }
  eexists. split; [|split].
  - unfold cells_inside_polygon. fold (cells_atol PIP_ATOL_DEFAULT_R atol).
    rewrite (pip_map RR _ _ poly xlim ylim He). rewrite map_map. rewrite mask_select_map.
    reflexivity.
  - intros xy c. rewrite in_map_iff. split.
    + intros (c' & E & Hin). inversion E; subst c' xy; clear E.
      apply filter_In in Hin. destruct Hin as [Hr Hf]. apply in_zrange in Hr.
      split; [exact Hr|split; [reflexivity|]].
      fold (ans c) in Hf. rewrite Hans in Hf. unfold parity_answer in Hf.
      destruct (Nat.odd _); [reflexivity|discriminate].
    + intros (Hr & -> & Ho). exists c. split; [reflexivity|].
      apply filter_In. split; [now apply in_zrange|].
      fold (ans c). rewrite Hans. unfold parity_answer. now rewrite Ho.
  - intros row col Hc Hr centre.
    pose proof (cell2coord_centre nrows ncols xll yll csz row col Hc Hr) as Ec.
    fold centre in Ec. rewrite <- Ec. clear Ec centre.
    set (c := (row * ncols + col)%Z).
    rewrite in_map_iff. split.
    + intros (c' & E & Hin). inversion E as [[E1 E2]]. subst c'. clear E E1.
      apply filter_In in Hin. destruct Hin as [_ Hf].
      fold (ans c) in Hf. rewrite Hans in Hf. unfold parity_answer in Hf.
      destruct (Nat.odd _); [reflexivity|discriminate].
    + intros Ho. exists c. split; [reflexivity|].
      apply filter_In. split; [apply in_zrange; unfold c; nia|].
      fold (ans c). rewrite Hans. unfold parity_answer. now rewrite Ho.
Qed.

(* the cell numbers come out strictly increasing (hence without duplicates) *)
Lemma zrange_sorted n : Sorted.StronglySorted Z.lt (zrange n).
Proof.
  unfold zrange. generalize (Z.to_nat n) as k. intros k. generalize 0%nat as s.
  induction k as [|k IH]; intros s; simpl; constructor.
  - apply IH.
  - rewrite Forall_forall. intros z Hz. apply in_map_iff in Hz.
    destruct Hz as (j & <- & Hj). apply in_seq in Hj. lia.
Qed.

Lemma filter_sorted {A} (R' : A -> A -> Prop) f l :
  Sorted.StronglySorted R' l -> Sorted.StronglySorted R' (filter f l).
Proof.
  induction 1 as [|a l Hs IH Hf]; simpl; [constructor|].
  destruct (f a); [|exact IH]. constructor; [exact IH|].
  rewrite Forall_forall in *. intros z Hz. apply filter_In in Hz. apply Hf, Hz.
Qed.

Theorem cells_inside_sorted {T} (N : NumOps T) ad nrows ncols xll yll csz poly atol rows :
  cells_inside_polygon N ad nrows ncols xll yll csz poly atol = Some rows ->
  Sorted.StronglySorted Z.lt (map snd rows).
Proof.
  intros H. apply cells_inside_is_filter in H. destruct H as (xlim & ylim & _ & ->).
  rewrite map_map. simpl. rewrite map_id. apply filter_sorted, zrange_sorted.
Qed.

(* ------------------------------------------------------------------ *)
(* a concrete non-convex polygon meeting every hypothesis (non-vacuity)  *)

Definition lshape : list rpt := [(0, 0); (2, 0); (2, 1); (1, 1); (1, 2); (0, 2)].

Ltac rabs_const :=
  repeat match goal with
         | |- context [Rabs ?u] =>
             let H := fresh in
             first [ assert (H : Rabs u = u) by (apply Rabs_pos_eq; lra)
                   | assert (H : Rabs u = - u) by (apply Rabs_left; lra)
                   | assert (H : Rabs u = 0) by (replace u with 0 by lra; apply Rabs_R0) ];
             rewrite H; clear H
         end.

Lemma lshape_good : good_poly PIP_ATOL_DEFAULT_R lshape.
Proof.
  unfold good_poly, lshape, PIP_ATOL_DEFAULT_R.
  change (edges [(0, 0); (2, 0); (2, 1); (1, 1); (1, 2); (0, 2)])
    with [((0, 0), (2, 0)); ((2, 0), (2, 1)); ((2, 1), (1, 1)); ((1, 1), (1, 2));
          ((1, 2), (0, 2)); ((0, 2), (0, 0))].
  repeat (apply Forall_cons; [unfold good_edge; simpl; split;
            first [left; lra | right; rabs_const; lra]|]).
  apply Forall_nil.
Qed.

Lemma lshape_nonempty : lshape <> [].
Proof. discriminate. Qed.

Ltac decide_crossings :=
  unfold cparity;
  match goal with |- context [edges ?l] =>
    let e := eval cbv [edges path app] in (edges l) in change (edges l) with e end;
  cbn [map fst snd]; rewrite ?crossesb_alt; cbn [fst snd];
  unfold Rltb;
  repeat match goal with
         | |- context [Rlt_dec ?u ?v] => destruct (Rlt_dec u v); try (exfalso; lra)
         end;
  cbn [xorb andb];
  unfold Rleb, xcross; cbn [fst snd];
  repeat match goal with
         | |- context [Rle_dec ?u ?v] => destruct (Rle_dec u v); try (exfalso; lra)
         end;
  reflexivity.

(* a point level with two vertices, inside *)
Example lshape_inside_level_with_vertices :
  pip_point RR PIP_ATOL_DEFAULT_R lshape (1 / 2, 1) = Some 1%Z.
Proof.
  rewrite (inside_is_crossing_parity _ _ _ lshape_nonempty lshape_good).
  rewrite parity_answer_cparity.
  replace (cparity lshape (1 / 2, 1)) with true; [reflexivity|].
  symmetry. unfold lshape. decide_crossings.
Qed.

(* a point of the notch: inside the extent, outside the polygon *)
Example lshape_outside_in_box :
  pip_point RR PIP_ATOL_DEFAULT_R lshape (3 / 2, 3 / 2) = Some 0%Z.
Proof.
  rewrite (inside_is_crossing_parity _ _ _ lshape_nonempty lshape_good).
  rewrite parity_answer_cparity.
  replace (cparity lshape (3 / 2, 3 / 2)) with false; [reflexivity|].
  symmetry. unfold lshape. decide_crossings.
Qed.

(* the scaled polygon still respects the absolute tolerance *)
Lemma lshape_scaled_good : good_poly PIP_ATOL_DEFAULT_R (map (sc (1 / 1000)) lshape).
Proof.
  unfold good_poly, lshape, PIP_ATOL_DEFAULT_R, sc. cbn [map fst snd].
  match goal with |- context [edges ?l] =>
    let e := eval cbv [edges path app] in (edges l) in change (edges l) with e end.
  repeat (apply Forall_cons; [unfold good_edge; cbn [fst snd]; split;
            first [left; lra | right; rabs_const; lra]|]).
  apply Forall_nil.
Qed.

(* a 3 x 2 grid of unit cells over the L: the cells whose centres are inside *)
Example lshape_cells :
  good_poly (cells_atol PIP_ATOL_DEFAULT_R (1 / 1000)) lshape.
Proof. unfold cells_atol. destruct CELLS_FORWARDS_ATOL; [|exact lshape_good].
  unfold good_poly, lshape.
  change (edges [(0, 0); (2, 0); (2, 1); (1, 1); (1, 2); (0, 2)])
    with [((0, 0), (2, 0)); ((2, 0), (2, 1)); ((2, 1), (1, 1)); ((1, 1), (1, 2));
          ((1, 2), (0, 2)); ((0, 2), (0, 0))].
  repeat (apply Forall_cons; [unfold good_edge; simpl; split;
            first [left; lra | right; rabs_const; lra]|]).
  apply Forall_nil.
Qed.

Lemma lshape_outside_example :
  exists xlim ylim, extent RR lshape = Some (xlim, ylim) /\
                    outside_box RR xlim ylim (-1, 1) = true.
Proof.
  assert (E : extent RR lshape = Some ((0, 2), (0, 2))).
  { unfold extent, lshape, np_min, np_max. cbn [map fst snd fold_left nisnan RR nltb].
    unfold Rltb.
    repeat match goal with
           | |- context [Rlt_dec ?u ?v] =>
               lazymatch u with context [Rlt_dec _ _] => fail | _ => idtac end;
               lazymatch v with context [Rlt_dec _ _] => fail | _ => idtac end;
               destruct (Rlt_dec u v); try (exfalso; lra)
           end.
    reflexivity. }
  exists (0, 2), (0, 2). split; [exact E|].
  unfold outside_box; cbn [nltb RR fst snd].
  replace (Rltb (-1) 0) with true; [reflexivity|]. symmetry; apply Rltb_true; lra.
Qed.
