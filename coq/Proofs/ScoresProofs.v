From Coq Require Import ZArith Bool List Reals Lra Lia.
From Hy Require Import Base.Num Gen.Consts Gen.ConstsC04 Model.Scores.
Import ListNotations.
Lemma placeholder_c04 : True. Proof. exact I. Qed.
