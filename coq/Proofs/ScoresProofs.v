(* Lemmas about Model/Scores.v, part 1: the glue (transform first, optional
   pair removal) for every arithmetic instance; numpy's pairwise summation is
   the sum; mean / variance / Pearson in textbook form over the reals. *)
From Coq Require Import ZArith Bool List Reals Lra Lia Psatz.
From Hy Require Import Base.Num Gen.Consts Gen.ConstsC04 Model.Scores.
Import ListNotations.

(* ================================================================== *)
(* 1. glue laws: any arithmetic instance (binary64 included)            *)

Section Glue.
Context {T : Type} (N : NumOps T) (eps : T) (nln : T -> T).

Definition idT (x : T) : T := x.

Lemma bias_transform_first fwd excl ty obs sim :
  bias N eps nln fwd excl ty obs sim =
  bias N eps nln idT excl ty (map fwd obs) (map fwd sim).
Proof. unfold bias, idT. now rewrite !map_id. Qed.

Lemma nse_transform_first fwd excl obs sim :
  nse N fwd excl obs sim = nse N idT excl (map fwd obs) (map fwd sim).
Proof. unfold nse, idT. now rewrite !map_id. Qed.

Lemma kge_transform_first fwd excl obs sim :
  kge N eps fwd excl obs sim = kge N eps idT excl (map fwd obs) (map fwd sim).
Proof. unfold kge, idT. now rewrite !map_id. Qed.

(* corr: the rows are selected on the raw data, so the law needs a transform
   that keeps missing values missing and nothing else *)
Lemma corr_transform_first fwd excl st ty obs ens :
  (forall x, nisnan N (fwd x) = nisnan N x) ->
  corr N eps fwd excl st ty obs ens =
  corr N eps idT excl st ty (map fwd obs) (map (map fwd) ens).
Proof.
  intros Hnan. unfold corr, corr_p, idT.
  rewrite !map_length.
  destruct (negb (Nat.eqb (length obs) (length ens))); [reflexivity|].
  (* relate the two filtered row lists by the map (x, fwd x) -> (fwd x, fwd x) *)
  set (g := fun r : (T * T) * list (T * T) =>
              ((snd (fst r), snd (fst r)), map (fun e => (snd e, snd e)) (snd r))).
  assert (Hcomb : forall (o : list T) (e : list (list T)),
    combine (map (fun x => (x, x)) (map fwd o))
            (map (map (fun x => (x, x))) (map (map fwd) e)) =
    map g (combine (map (fun x => (x, fwd x)) o) (map (map (fun x => (x, fwd x))) e))).
  { induction o as [|a o IH]; intros [|r e]; simpl; try reflexivity.
    rewrite IH. f_equal. unfold g; simpl. rewrite !map_map. reflexivity. }
  rewrite Hcomb.
  assert (Hvalid : forall (o : list T) (e : list (list T)),
    filter (row_valid N) (map g (combine (map (fun x => (x, fwd x)) o)
                                         (map (map (fun x => (x, fwd x))) e))) =
    map g (filter (row_valid N) (combine (map (fun x => (x, fwd x)) o)
                                         (map (map (fun x => (x, fwd x))) e)))).
  { induction o as [|a o IH]; intros [|r e]; simpl; try reflexivity.
    rewrite IH.
    assert (Hv : row_valid N (g (a, fwd a, map (fun x => (x, fwd x)) r)) =
                 row_valid N (a, fwd a, map (fun x => (x, fwd x)) r)).
    { unfold row_valid, g; simpl. rewrite Hnan. f_equal.
      rewrite !map_map; simpl.
      induction r as [|x r IHr]; simpl; [reflexivity|]. now rewrite Hnan, IHr. }
    rewrite Hv.
    destruct (row_valid N (a, fwd a, map (fun x => (x, fwd x)) r)); simpl; reflexivity. }
  rewrite Hvalid.
  destruct (filter (row_valid N) (combine (map (fun x => (x, fwd x)) obs)
                                          (map (map (fun x => (x, fwd x))) ens))) as [|r0 rows];
    [reflexivity|].
  assert (H1 : forall L, map (fun r : (T * T) * list (T * T) => snd (fst r)) (map g L) =
                         map (fun r => snd (fst r)) L).
  { intros L. rewrite map_map. apply map_ext. intros r; reflexivity. }
  assert (H2 : forall L, map (fun r : (T * T) * list (T * T) => rowstat N st (map snd (snd r))) (map g L) =
                         map (fun r => rowstat N st (map snd (snd r))) L).
  { intros L. rewrite map_map. apply map_ext. intros r; unfold g; simpl. now rewrite map_map. }
  generalize (r0 :: rows) (@nil_cons _ r0 rows). intros L HL.
  rewrite <- (H1 L), <- (H2 L).
  destruct L as [|q L]; [congruence|]. reflexivity.
Qed.

(* ---- excludenull ---- *)
Lemma combine_fst_snd {A B} (l : list (A * B)) : combine (map fst l) (map snd l) = l.
Proof. induction l as [|[a b] l IH]; simpl; [reflexivity|]. now rewrite IH. Qed.

Lemma nonull_spec o s o' s' :
  nonull N o s = Some (o', s') ->
  combine o' s' = filter (complete N) (combine o s) /\ length o' = length s' /\ o' <> [].
Proof.
  unfold nonull. destruct (filter (complete N) (combine o s)) as [|p ps] eqn:E; [discriminate|].
  intros H; inversion H; subst; clear H.
  split; [|split].
  - change (combine (map fst (p :: ps)) (map snd (p :: ps)) = p :: ps). apply combine_fst_snd.
  - simpl. now rewrite !map_length.
  - discriminate.
Qed.

Lemma nonull_none o s :
  nonull N o s = None <-> filter (complete N) (combine o s) = [].
Proof.
  unfold nonull. destruct (filter (complete N) (combine o s)); split; intros; congruence.
Qed.

(* data without missing values are left alone *)
Lemma nonull_clean o s :
  length o = length s -> o <> [] ->
  forallb (fun x => negb (nisnan N x)) o = true ->
  forallb (fun x => negb (nisnan N x)) s = true ->
  nonull N o s = Some (o, s).
Proof.
  intros Hl Hne Ho Hs. unfold nonull.
  assert (Hf : filter (complete N) (combine o s) = combine o s).
  { revert s Hl Hs Ho. clear Hne. induction o as [|a o IH]; intros [|b s] Hl Hs Ho; simpl in *;
      try reflexivity; try discriminate.
    apply andb_true_iff in Ho as [Ha Ho]. apply andb_true_iff in Hs as [Hb Hs].
    unfold complete at 1; simpl. rewrite Ha, Hb; simpl. f_equal. apply IH; auto. }
  rewrite Hf.
  destruct o as [|a o]; [congruence|]. destruct s as [|b s]; [discriminate|].
  cbn [combine]. f_equal.
  change (map fst ((a, b) :: combine o s), map snd ((a, b) :: combine o s))
    with (map fst (combine (a :: o) (b :: s)), map snd (combine (a :: o) (b :: s))).
  f_equal.
  - clear -Hl. revert Hl. generalize (b :: s) as y, (a :: o) as x.
    intros y x; revert y; induction x as [|u x IH]; intros [|v y] H; simpl in *;
      try reflexivity; try discriminate. f_equal; apply IH; lia.
  - clear -Hl. revert Hl. generalize (b :: s) as y, (a :: o) as x.
    intros y x; revert y; induction x as [|u x IH]; intros [|v y] H; simpl in *;
      try reflexivity; try discriminate. f_equal; apply IH; lia.
Qed.

(* with excludenull the score is that of the series with the incomplete pairs removed *)
Lemma excl_is_pair_removal core o s o' s' :
  length o = length s -> nonull N o s = Some (o', s') ->
  with_excl N true core o s = with_excl N false core o' s'.
Proof.
  intros Hl Hn. unfold with_excl. rewrite Hl, Nat.eqb_refl; simpl. rewrite Hn.
  destruct (nonull_spec _ _ _ _ Hn) as (_ & Hl' & _). now rewrite Hl', Nat.eqb_refl.
Qed.

Lemma excl_all_missing core o s :
  length o = length s -> nonull N o s = None -> with_excl N true core o s = SErr.
Proof. intros Hl Hn. unfold with_excl. rewrite Hl, Nat.eqb_refl; simpl. now rewrite Hn. Qed.

Lemma excl_shape_error excl core o s :
  length o <> length s -> with_excl N excl core o s = SErr.
Proof.
  intros H. unfold with_excl. apply Nat.eqb_neq in H. now rewrite H.
Qed.

(* on complete data excludenull changes nothing *)
Lemma excl_clean core o s :
  length o = length s -> o <> [] ->
  forallb (fun x => negb (nisnan N x)) o = true ->
  forallb (fun x => negb (nisnan N x)) s = true ->
  with_excl N true core o s = with_excl N false core o s.
Proof.
  intros Hl Hne Ho Hs.
  rewrite (excl_is_pair_removal core o s o s Hl (nonull_clean o s Hl Hne Ho Hs)). reflexivity.
Qed.

End Glue.

(* ================================================================== *)
(* 2. real numbers: sums                                                *)

Open Scope R_scope.

Fixpoint sumR (l : list R) : R := match l with [] => 0 | x :: r => x + sumR r end.
Definition lenR {A} (l : list A) : R := IZR (Z.of_nat (length l)).

Lemma lenR_cons {A} (a : A) l : lenR (a :: l) = 1 + lenR l.
Proof. unfold lenR. cbn [length]. rewrite Nat2Z.inj_succ, succ_IZR. lra. Qed.
Lemma lenR_nil {A} : lenR (@nil A) = 0.
Proof. reflexivity. Qed.
Lemma lenR_nonneg {A} (l : list A) : 0 <= lenR l.
Proof. unfold lenR. apply IZR_le. lia. Qed.
Lemma lenR_pos {A} (l : list A) : l <> [] -> 0 < lenR l.
Proof. destruct l; [congruence|]. intros _. rewrite lenR_cons. pose proof (lenR_nonneg l). lra. Qed.
Lemma lenR_map {A B} (f : A -> B) l : lenR (map f l) = lenR l.
Proof. unfold lenR. now rewrite map_length. Qed.

Lemma sumR_app l1 l2 : sumR (l1 ++ l2) = sumR l1 + sumR l2.
Proof. induction l1 as [|x l1 IH]; simpl; [lra | rewrite IH; lra]. Qed.

Lemma sumR_firstn_skipn k l : sumR (firstn k l) + sumR (skipn k l) = sumR l.
Proof. rewrite <- sumR_app. now rewrite firstn_skipn. Qed.

Lemma sum_seq_R acc l : sum_seq RR acc l = acc + sumR l.
Proof.
  unfold sum_seq. revert acc; induction l as [|x l IH]; intros acc; simpl; [lra|].
  rewrite IH. lra.
Qed.

Lemma pw_blocks_R : forall n l, (length l <= n)%nat ->
  forall r0 r1 r2 r3 r4 r5 r6 r7,
  pw_blocks RR r0 r1 r2 r3 r4 r5 r6 r7 l = r0 + r1 + r2 + r3 + r4 + r5 + r6 + r7 + sumR l.
Proof.
  induction n as [|n IH]; intros l Hl r0 r1 r2 r3 r4 r5 r6 r7.
  - destruct l; [|simpl in Hl; lia]. cbn. lra.
  - destruct l as [|a0 [|a1 [|a2 [|a3 [|a4 [|a5 [|a6 [|a7 rest]]]]]]]];
      try (cbn -[sumR]; rewrite ?sum_seq_R; cbn; lra).
    cbn [pw_blocks]. rewrite IH by (simpl in Hl; lia). cbn. lra.
Qed.

Lemma pw_block_R l : pw_block RR l = sumR l.
Proof.
  destruct l as [|a0 [|a1 [|a2 [|a3 [|a4 [|a5 [|a6 [|a7 rest]]]]]]]];
    try (cbn -[sumR]; rewrite ?sum_seq_R; cbn; lra).
  cbn [pw_block]. rewrite (pw_blocks_R (length rest)) by lia. cbn. lra.
Qed.

Lemma pw_sum_R fuel l : pw_sum RR fuel l = sumR l.
Proof.
  revert l; induction fuel as [|f IH]; intros l; cbn [pw_sum].
  - destruct (Nat.leb (length l) 128); [apply pw_block_R|]. rewrite sum_seq_R. cbn. lra.
  - destruct (Nat.leb (length l) 128); [apply pw_block_R|].
    rewrite !IH. cbn [nadd RR]. apply sumR_firstn_skipn.
Qed.

(* numpy's pairwise summation computes the sum: every length *)
Lemma np_sum_R l : np_sum RR l = sumR l.
Proof. apply pw_sum_R. Qed.

(* ---- algebra of sums ---- *)
Lemma sumR_map_ext {A} (f g : A -> R) l :
  (forall x, In x l -> f x = g x) -> sumR (map f l) = sumR (map g l).
Proof.
  induction l as [|a l IH]; intros H; simpl; [reflexivity|].
  rewrite (H a) by (left; reflexivity). rewrite IH; [reflexivity|].
  intros x Hx; apply H; right; exact Hx.
Qed.

Lemma sumR_map_scal {A} c (f : A -> R) l : sumR (map (fun x => c * f x) l) = c * sumR (map f l).
Proof. induction l as [|a l IH]; simpl; [lra | rewrite IH; lra]. Qed.

Lemma sumR_map_plus {A} (f g : A -> R) l :
  sumR (map (fun x => f x + g x) l) = sumR (map f l) + sumR (map g l).
Proof. induction l as [|a l IH]; simpl; [lra | rewrite IH; lra]. Qed.

Lemma sumR_map_const {A} c (l : list A) : sumR (map (fun _ => c) l) = c * lenR l.
Proof. induction l as [|a l IH]; [unfold lenR; simpl; lra|]. simpl. rewrite IH, lenR_cons. lra. Qed.

Lemma sumR_map_id l : sumR (map (fun x => x) l) = sumR l.
Proof. now rewrite map_id. Qed.

Lemma sumR_nonneg {A} (f : A -> R) l : (forall x, 0 <= f x) -> 0 <= sumR (map f l).
Proof. intros H. induction l as [|a l IH]; simpl; [lra|]. specialize (H a). lra. Qed.

Lemma sumR_zero_all {A} (f : A -> R) l :
  (forall x, 0 <= f x) -> sumR (map f l) = 0 -> forall x, In x l -> f x = 0.
Proof.
  intros Hf. induction l as [|a l IH]; intros H x Hx; [contradiction|].
  simpl in H. pose proof (Hf a). pose proof (sumR_nonneg f l Hf).
  destruct Hx as [->|Hx]; [lra|]. apply IH; [lra|exact Hx].
Qed.

(* ---- mean, sums of squares ---- *)
Definition meanR (l : list R) : R := sumR l / lenR l.
(* sum of squared deviations from the mean *)
Definition SS (l : list R) : R := sumR (map (fun x => (x - meanR l) * (x - meanR l)) l).
(* sum of squared errors *)
Definition SE (o s : list R) : R :=
  sumR (map (fun p => (snd p - fst p) * (snd p - fst p)) (combine o s)).
(* sum of cross products of deviations *)
Definition SXY (x y : list R) : R :=
  sumR (map (fun p => (fst p - meanR x) * (snd p - meanR y)) (combine x y)).
Definition sdR (l : list R) : R := sqrt (SS l / lenR l).

Lemma mean_R l : mean RR l = meanR l.
Proof. unfold mean, meanR, nlen, lenR. cbn [ndiv nofZ RR]. now rewrite np_sum_R. Qed.

Lemma var_R l : var RR l = SS l / lenR l.
Proof.
  unfold var, SS, nlen, lenR. cbn [ndiv nofZ nsub nmul RR]. rewrite np_sum_R, mean_R. reflexivity.
Qed.

Lemma std_R l : std RR l = sdR l.
Proof. unfold std, sdR. cbn [nsqrt RR]. now rewrite var_R. Qed.

Lemma SS_nonneg l : 0 <= SS l.
Proof. unfold SS. apply sumR_nonneg. intros x. apply Rle_0_sqr. Qed.
Lemma SE_nonneg o s : 0 <= SE o s.
Proof. unfold SE. apply sumR_nonneg. intros x. apply Rle_0_sqr. Qed.

Lemma SS_nil : SS [] = 0. Proof. reflexivity. Qed.

Lemma SS_pos_nonempty l : 0 < SS l -> l <> [].
Proof. intros H E; subst. rewrite SS_nil in H. lra. Qed.

Lemma SS_single a : SS [a] = 0.
Proof. unfold SS, meanR, lenR. simpl. field. Qed.

(* a positive spread needs at least two values *)
Lemma SS_pos_two l : 0 < SS l -> (2 <= length l)%nat.
Proof.
  intros H. destruct l as [|a [|b l]]; simpl; try lia.
  - rewrite SS_nil in H; lra.
  - rewrite SS_single in H; lra.
Qed.

Lemma sdR_nonneg l : 0 <= sdR l.
Proof. apply sqrt_pos. Qed.

Lemma sdR_pos_SS l : 0 < sdR l -> 0 < SS l.
Proof.
  unfold sdR. intros H.
  destruct (Rle_lt_dec (SS l / lenR l) 0) as [Hle|Hlt].
  - rewrite sqrt_neg_0 in H by exact Hle. lra.
  - destruct l as [|a l]; [rewrite SS_nil in Hlt; unfold Rdiv in Hlt; lra|].
    pose proof (lenR_pos (a :: l) ltac:(discriminate)) as Hn.
    pose proof (SS_nonneg (a :: l)) as H0.
    destruct (Req_dec (SS (a :: l)) 0) as [E|E]; [rewrite E in Hlt; unfold Rdiv in Hlt; lra|lra].
Qed.

(* affine maps *)
Lemma meanR_affine a b l : l <> [] ->
  meanR (map (fun x => a * x + b) l) = a * meanR l + b.
Proof.
  intros Hne. unfold meanR. rewrite lenR_map.
  rewrite (sumR_map_plus (fun x => a * x) (fun _ => b)), sumR_map_scal, sumR_map_const, sumR_map_id.
  pose proof (lenR_pos l Hne). field. lra.
Qed.

Lemma SS_affine a b l : l <> [] ->
  SS (map (fun x => a * x + b) l) = a * a * SS l.
Proof.
  intros Hne. unfold SS. rewrite meanR_affine by exact Hne. rewrite map_map.
  rewrite <- sumR_map_scal. apply sumR_map_ext. intros x _. ring.
Qed.

Lemma combine_map2 {A B} (f : A -> B) (x y : list A) :
  combine (map f x) (map f y) = map (fun p => (f (fst p), f (snd p))) (combine x y).
Proof.
  revert y; induction x as [|a x IH]; intros [|b y]; simpl; try reflexivity. now rewrite IH.
Qed.

Lemma SE_affine a b o s :
  SE (map (fun x => a * x + b) o) (map (fun x => a * x + b) s) = a * a * SE o s.
Proof.
  unfold SE. rewrite combine_map2, map_map. rewrite <- sumR_map_scal.
  apply sumR_map_ext. intros p _. simpl. ring.
Qed.

Lemma SXY_affine a b x y : x <> [] -> y <> [] ->
  SXY (map (fun v => a * v + b) x) (map (fun v => a * v + b) y) = a * a * SXY x y.
Proof.
  intros Hx Hy. unfold SXY. rewrite !meanR_affine by assumption.
  rewrite combine_map2, map_map. rewrite <- sumR_map_scal.
  apply sumR_map_ext. intros p _. simpl. ring.
Qed.

Lemma SE_self o : SE o o = 0.
Proof.
  unfold SE. induction o as [|a o IH]; simpl; [reflexivity|]. rewrite IH. ring.
Qed.

Lemma SXY_self x : SXY x x = SS x.
Proof.
  unfold SXY, SS. generalize (meanR x) as m. intros m.
  induction x as [|a x IH]; simpl; [reflexivity|]. now rewrite IH.
Qed.

(* the simulation that is constantly the observed mean has SE = SS *)
Lemma SE_mean o : SE o (map (fun _ => meanR o) o) = SS o.
Proof.
  unfold SE, SS. generalize (meanR o) as m. intros m.
  induction o as [|a o IH]; simpl; [reflexivity|]. rewrite IH. ring.
Qed.

(* ---- Cauchy-Schwarz ---- *)
Definition dotR (a b : list R) : R := sumR (map (fun p => fst p * snd p) (combine a b)).

Lemma dot_R a b : dot RR a b = dotR a b.
Proof. unfold dot, dotR. rewrite sum_seq_R. cbn. lra. Qed.

Lemma cs_step x y p A B :
  0 <= A -> 0 <= B -> p * p <= A * B ->
  (x * y + p) * (x * y + p) <= (x * x + A) * (y * y + B).
Proof.
  intros HA HB Hp.
  set (X := x * x). set (Y := y * y).
  assert (HX : 0 <= X) by apply Rle_0_sqr.
  assert (HY : 0 <= Y) by apply Rle_0_sqr.
  set (u := X * B + Y * A). set (v := 2 * (x * y) * p).
  assert (H0 : 0 <= u) by (apply Rplus_le_le_0_compat; apply Rmult_le_pos; assumption).
  assert (HXY : 0 <= 4 * X * Y).
  { apply Rmult_le_pos; [apply Rmult_le_pos; [lra|assumption]|assumption]. }
  assert (H4 : 4 * X * Y * (p * p) <= 4 * X * Y * (A * B)) by (apply Rmult_le_compat_l; assumption).
  assert (H5 : 0 <= (X * B - Y * A) * (X * B - Y * A)) by apply Rle_0_sqr.
  assert (Hv2 : v * v <= u * u).
  { replace (v * v) with (4 * X * Y * (p * p)) by (unfold v, X, Y; ring).
    replace (u * u) with (4 * X * Y * (A * B) + (X * B - Y * A) * (X * B - Y * A)) by (unfold u; ring).
    lra. }
  assert (H : v <= u).
  { destruct (Rle_lt_dec v u) as [|Hlt]; [assumption|exfalso].
    assert (u * u < v * v) by (apply Rmult_le_0_lt_compat; lra). lra. }
  apply Rle_trans with (X * Y + u + A * B); [|right; unfold u, X, Y; ring].
  apply Rle_trans with (X * Y + v + p * p); [right; unfold v, X, Y; ring | lra].
Qed.

Lemma cauchy_schwarz a b : dotR a b * dotR a b <= dotR a a * dotR b b.
Proof.
  assert (Hnn : forall l, 0 <= dotR l l).
  { intros l. unfold dotR. induction l as [|x l IH]; simpl; [lra|].
    pose proof (Rle_0_sqr x) as Hs; unfold Rsqr in Hs. lra. }
  revert b; induction a as [|x a IH]; intros b.
  - unfold dotR; simpl. lra.
  - destruct b as [|y b].
    + unfold dotR at 1 2 4; simpl. pose proof (Hnn (x :: a)). lra.
    + unfold dotR in *. simpl.
      apply cs_step; [apply Hnn | apply Hnn | apply IH].
Qed.

(* centred series *)
Lemma dotR_centered x y :
  dotR (map (fun v => v - meanR x) x) (map (fun v => v - meanR y) y) = SXY x y.
Proof.
  unfold dotR, SXY. generalize (meanR x) as mx, (meanR y) as my. intros mx my.
  revert y; induction x as [|a x IH]; intros [|b y]; simpl; try reflexivity. now rewrite IH.
Qed.

Lemma dotR_centered_self x : dotR (map (fun v => v - meanR x) x) (map (fun v => v - meanR x) x) = SS x.
Proof. rewrite dotR_centered. apply SXY_self. Qed.

Lemma SXY_bound x y : SXY x y * SXY x y <= SS x * SS y.
Proof.
  rewrite <- dotR_centered, <- (dotR_centered_self x), <- (dotR_centered_self y).
  apply cauchy_schwarz.
Qed.

(* ---- Pearson correlation ---- *)
Definition pearsonR (x y : list R) : R := SXY x y / sqrt (SS x * SS y).

Lemma pearsonR_bound x y : 0 < SS x -> 0 < SS y -> -1 <= pearsonR x y <= 1.
Proof.
  intros Hx Hy. unfold pearsonR.
  assert (Hp : 0 < SS x * SS y) by (apply Rmult_lt_0_compat; assumption).
  assert (Hs : 0 < sqrt (SS x * SS y)) by (apply sqrt_lt_R0; exact Hp).
  pose proof (SXY_bound x y) as Hb.
  assert (Hq : sqrt (SS x * SS y) * sqrt (SS x * SS y) = SS x * SS y) by (apply sqrt_sqrt; lra).
  assert (Habs : -(sqrt (SS x * SS y)) <= SXY x y <= sqrt (SS x * SS y)).
  { split; nra. }
  split.
  - apply Rmult_le_reg_r with (sqrt (SS x * SS y)); [exact Hs|].
    unfold Rdiv. rewrite Rmult_assoc, Rinv_l by lra. lra.
  - apply Rmult_le_reg_r with (sqrt (SS x * SS y)); [exact Hs|].
    unfold Rdiv. rewrite Rmult_assoc, Rinv_l by lra. lra.
Qed.

Lemma clip1_R r : -1 <= r <= 1 -> clip1 RR r = r.
Proof.
  intros [H1 H2]. unfold clip1. cbn [nltb nopp n1 RR].
  destruct (Rltb r (- (1))) eqn:E1; [apply Rltb_true in E1; lra|].
  destruct (Rltb 1 r) eqn:E2; [apply Rltb_true in E2; lra|]. reflexivity.
Qed.

(* np.corrcoef(x, y)[0, 1] is the textbook coefficient (and the clipping is idle) *)
Lemma pearson_R x y :
  length x = length y -> 0 < SS x -> 0 < SS y -> pearson RR x y = pearsonR x y.
Proof.
  intros Hl Hx Hy. unfold pearson.
  pose proof (SS_pos_two x Hx) as H2.
  rewrite !mean_R. cbn [nsub nmul ndiv nsqrt n1 nofZ RR]. rewrite !dot_R.
  rewrite dotR_centered, (dotR_centered_self x), (dotR_centered_self y).
  assert (Hf : (Z.of_nat (length x) - 1 <=? 0)%Z = false) by (apply Z.leb_gt; lia).
  rewrite Hf.
  set (f := 1 / IZR (Z.of_nat (length x) - 1)).
  assert (Hfpos : 0 < f).
  { unfold f. apply Rdiv_lt_0_compat; [lra|]. apply IZR_lt. lia. }
  assert (Hsf : sqrt f * sqrt f = f) by (apply sqrt_sqrt; lra).
  assert (Hsfpos : 0 < sqrt f) by (apply sqrt_lt_R0; exact Hfpos).
  assert (Hsx : 0 < sqrt (SS x)) by (apply sqrt_lt_R0; exact Hx).
  assert (Hsy : 0 < sqrt (SS y)) by (apply sqrt_lt_R0; exact Hy).
  assert (E : SXY x y * f / sqrt (SS x * f) / sqrt (SS y * f) = pearsonR x y).
  { unfold pearsonR. rewrite !sqrt_mult by lra.
    field_simplify_eq; [|repeat split; lra].
    rewrite <- Hsf at 1. ring. }
  rewrite E. apply clip1_R. apply pearsonR_bound; assumption.
Qed.

Lemma pearsonR_self x : 0 < SS x -> pearsonR x x = 1.
Proof.
  intros H. unfold pearsonR. rewrite SXY_self, sqrt_square by lra. field. lra.
Qed.

Lemma pearsonR_scale c x y : 0 < c -> x <> [] -> y <> [] -> 0 < SS x -> 0 < SS y ->
  pearsonR (map (fun v => c * v) x) (map (fun v => c * v) y) = pearsonR x y.
Proof.
  intros Hc Hx Hy Sx Sy. unfold pearsonR.
  assert (E : forall l, map (fun v => c * v) l = map (fun v => c * v + 0) l).
  { intros l. apply map_ext. intros; ring. }
  rewrite !E, SXY_affine, !SS_affine by assumption.
  replace (c * c * SS x * (c * c * SS y)) with ((c * c) * (c * c) * (SS x * SS y)) by ring.
  assert (Hp : 0 < SS x * SS y) by (apply Rmult_lt_0_compat; assumption).
  rewrite sqrt_mult by nra. rewrite sqrt_square by nra.
  assert (0 < sqrt (SS x * SS y)) by (apply sqrt_lt_R0; exact Hp).
  field. split; nra.
Qed.
