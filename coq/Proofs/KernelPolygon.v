(* C15 on the regenerated program: the even-odd rule of Proofs/PolygonProofs.v (the
   answer is the parity of the crossing number) and its covering form of
   Proofs/PolygonTriProofs.v (parity of the fan triangles containing the point)
   transported through the refinement theorem of Proofs/RefinePolygon.v.  Every
   statement is about [exec_fun RR XRR program] - the MiniC translation of
   src/hydrodiy/gis/c_points_inside_polygon.c regenerated from the tree under test -
   run on real numbers with the `inside` vector zero-filled as gutils.py does.

   The model theorems are about pip_point / points_inside_polygon = the .pyx wrapper
   (bounding box = extent of the polygon) + kernel model.  Here the kernel receives
   the box as an argument: the corollaries hold for EVERY box that contains all the
   vertices (the computed extent is one: kernel_inside_extent_box). *)
From Coq Require Import ZArith Bool List String Lia Reals Lra.
From Hy Require Import Base.Num Base.MiniC Gen.KernelsAst Gen.Consts Gen.ConstsC15 Model.Grid Model.Polygon
  Proofs.PolygonProofs Proofs.PolygonInvProofs Proofs.PolygonTriProofs Proofs.RefinePolygon.
Import ListNotations.
Open Scope string_scope.
Open Scope list_scope.

(* the call made by the .pyx wrapper: nprint, npoints, points (n,2), nvertices,
   polygon (n,2), atol, xlim, ylim, inside *)
Definition run_inside (n : nat) (nprint : Z) (atol : R) (xl0 xl1 yl0 yl1 : R)
    (poly pts : list (R * R)) (ins : list Z) :=
  exec_fun RR XRR program (S n) "c_inside"
    [AVI nprint; AVI (MiniC.zlen pts); AVArrF (flat pts); AVI (MiniC.zlen poly); AVArrF (flat poly);
     AVF atol; AVArrF [xl0; xl1]; AVArrF [yl0; yl1]; AVArrI ins].

(* [run_inside] is the execution of the translated program, nothing else *)
Lemma run_inside_is_exec n nprint atol xl0 xl1 yl0 yl1 poly pts ins :
  run_inside n nprint atol xl0 xl1 yl0 yl1 poly pts ins =
  exec_fun RR XRR program (S n) "c_inside"
    [AVI nprint; AVI (MiniC.zlen pts); AVArrF (flat pts); AVI (MiniC.zlen poly); AVArrF (flat poly);
     AVF atol; AVArrF [xl0; xl1]; AVArrF [yl0; yl1]; AVArrI ins].
Proof. reflexivity. Qed.

(* a box that contains every vertex *)
Definition box_contains (xl0 xl1 yl0 yl1 : R) (poly : list (R * R)) : Prop :=
  forall v, In v poly -> (xl0 <= fst v <= xl1)%R /\ (yl0 <= snd v <= yl1)%R.

(* the extent computed by the wrapper is such a box *)
Lemma kernel_inside_extent_box poly xl0 xl1 yl0 yl1 :
  extent RR poly = Some ((xl0, xl1), (yl0, yl1)) -> box_contains xl0 xl1 yl0 yl1 poly.
Proof. intros He v Hv. exact (extent_RR poly (xl0, xl1) (yl0, yl1) He v Hv). Qed.

(* one point: the kernel model with any box containing the polygon = the even-odd rule *)
Lemma c_inside_point_parity atol xl0 xl1 yl0 yl1 poly p :
  poly <> [] -> good_poly atol poly -> box_contains xl0 xl1 yl0 yl1 poly ->
  c_inside_point RR atol (xl0, xl1) (yl0, yl1) poly p 0%Z = parity_answer poly p.
Proof.
  intros Hne G Hb. unfold c_inside_point.
  destruct (outside_box RR (xl0, xl1) (yl0, yl1) p) eqn:Ho.
  - destruct p as [x y].
    assert (Hout : (x < xl0 \/ xl1 < x \/ y < yl0 \/ yl1 < y)%R).
    { unfold outside_box in Ho. cbn [RR nltb fst snd] in Ho.
      apply orb_true_iff in Ho. destruct Ho as [Ho|Ho]; [|right; right; right; apply Rltb_true; exact Ho].
      apply orb_true_iff in Ho. destruct Ho as [Ho|Ho]; [|right; right; left; apply Rltb_true; exact Ho].
      apply orb_true_iff in Ho. destruct Ho as [Ho|Ho]; [left|right; left]; apply Rltb_true; exact Ho. }
    pose proof (outside_extent_zero atol poly x y xl0 xl1 yl0 yl1 Hne Hb Hout) as H0.
    rewrite (inside_is_crossing_parity atol poly (x, y) Hne G) in H0.
    injection H0 as H0. symmetry. exact H0.
  - pose proof (crossing_parity_RR atol poly p G) as Hc. unfold parity_answer.
    rewrite Hc. reflexivity.
Qed.

Lemma c_inside_parity atol xl0 xl1 yl0 yl1 poly pts :
  poly <> [] -> good_poly atol poly -> box_contains xl0 xl1 yl0 yl1 poly ->
  c_inside RR atol (xl0, xl1) (yl0, yl1) poly pts (repeat 0%Z (List.length pts)) =
  map (parity_answer poly) pts.
Proof.
  intros Hne G Hb. rewrite c_inside_map. apply map_ext. intros p.
  apply c_inside_point_parity; assumption.
Qed.

(* MAIN COROLLARY.  Every polygon with at least one vertex whose edges respect the
   tolerance (good_poly: no edge has 0 < |dy| <= atol or 0 < |dx| < atol) - convex or
   not, self-intersecting or not - every box containing its vertices, every list of
   points (inside or outside the box), any nprint: the translated kernel returns 0,
   leaves its four input arrays untouched, and the array it returns holds, point by
   point, 1 when the crossing number of the point is odd and 0 when it is even. *)
Theorem kernel_inside_is_crossing_parity nprint atol xl0 xl1 yl0 yl1 poly pts n :
  poly <> [] -> good_poly atol poly -> box_contains xl0 xl1 yl0 yl1 poly ->
  (List.length pts < n)%nat -> (List.length poly < n)%nat ->
  run_inside n nprint atol xl0 xl1 yl0 yl1 poly pts (repeat 0%Z (List.length pts)) =
  Ok (RI 0%Z, [VArrF (flat pts); VArrF (flat poly); VArrF [xl0; xl1]; VArrF [yl0; yl1];
               VArrI (map (fun p => if Nat.odd (crossing_number poly p) then 1%Z else 0%Z) pts)]).
Proof.
  intros Hne G Hb Hn1 Hn2. unfold run_inside.
  rewrite (refine_c_inside_wrapper RR XRR nprint pts poly atol xl0 xl1 yl0 yl1
             (repeat 0%Z (List.length pts)) n (repeat_length _ _) Hne Hn1 Hn2).
  rewrite (c_inside_parity atol xl0 xl1 yl0 yl1 poly pts Hne G Hb). reflexivity.
Qed.

(* the same, read entry by entry: 1 EXACTLY for the points of odd crossing number *)
Theorem kernel_inside_one_iff_odd nprint atol xl0 xl1 yl0 yl1 poly pts n :
  poly <> [] -> good_poly atol poly -> box_contains xl0 xl1 yl0 yl1 poly ->
  (List.length pts < n)%nat -> (List.length poly < n)%nat ->
  exists res : list Z,
    run_inside n nprint atol xl0 xl1 yl0 yl1 poly pts (repeat 0%Z (List.length pts)) =
    Ok (RI 0%Z, [VArrF (flat pts); VArrF (flat poly); VArrF [xl0; xl1]; VArrF [yl0; yl1];
                 VArrI res]) /\
    Forall2 (fun p r => (r = 1%Z <-> Nat.odd (crossing_number poly p) = true) /\
                        (r = 0%Z <-> Nat.odd (crossing_number poly p) = false)) pts res.
Proof.
  intros Hne G Hb Hn1 Hn2.
  exists (map (fun p => if Nat.odd (crossing_number poly p) then 1%Z else 0%Z) pts).
  split; [apply kernel_inside_is_crossing_parity; assumption|].
  clear. induction pts as [|p pts IH]; cbn [map]; constructor; [|exact IH].
  destruct (Nat.odd (crossing_number poly p)); split; split; intros H;
    try reflexivity; discriminate.
Qed.

(* with the box the wrapper computes (numpy min / max of the two columns): the array
   is what the model of gutils.points_inside_polygon returns *)
Theorem kernel_inside_with_extent nprint atol xl0 xl1 yl0 yl1 poly pts n :
  good_poly atol poly -> extent RR poly = Some ((xl0, xl1), (yl0, yl1)) ->
  (List.length pts < n)%nat -> (List.length poly < n)%nat ->
  exists res : list Z,
    run_inside n nprint atol xl0 xl1 yl0 yl1 poly pts (repeat 0%Z (List.length pts)) =
    Ok (RI 0%Z, [VArrF (flat pts); VArrF (flat poly); VArrF [xl0; xl1]; VArrF [yl0; yl1];
                 VArrI res]) /\
    points_inside_polygon RR atol pts poly None = Some res /\
    res = map (parity_answer poly) pts.
Proof.
  intros G He Hn1 Hn2.
  assert (Hne : poly <> []) by (intros ->; rewrite extent_empty in He; discriminate).
  exists (map (parity_answer poly) pts). split; [|split; [|reflexivity]].
  - apply kernel_inside_is_crossing_parity; try assumption.
    apply kernel_inside_extent_box. exact He.
  - apply inside_vector_is_crossing_parity; assumption.
Qed.

(* the even-odd rule in its ray-free form: for the polygon v0 :: l and points off the
   lines carrying the sides of the fan triangles (v0, vi, vi+1), the translated kernel
   answers the parity of the number of fan triangles that strictly contain the point *)
Theorem kernel_inside_is_fan_parity nprint atol xl0 xl1 yl0 yl1 v0 l pts n :
  good_poly atol (v0 :: l) -> box_contains xl0 xl1 yl0 yl1 (v0 :: l) ->
  Forall (fun p => Forall (off_lines v0 p) (path l)) pts ->
  (List.length pts < n)%nat -> (List.length (v0 :: l) < n)%nat ->
  run_inside n nprint atol xl0 xl1 yl0 yl1 (v0 :: l) pts (repeat 0%Z (List.length pts)) =
  Ok (RI 0%Z, [VArrF (flat pts); VArrF (flat (v0 :: l)); VArrF [xl0; xl1]; VArrF [yl0; yl1];
               VArrI (map (fun p => if Nat.odd (fan_count v0 l p) then 1%Z else 0%Z) pts)]).
Proof.
  intros G Hb Hoff Hn1 Hn2.
  assert (Hne : v0 :: l <> []) by discriminate.
  rewrite (kernel_inside_is_crossing_parity nprint atol xl0 xl1 yl0 yl1 (v0 :: l) pts n Hne G Hb Hn1 Hn2).
  assert (E : map (fun p => if Nat.odd (crossing_number (v0 :: l) p) then 1%Z else 0%Z) pts =
              map (fun p => if Nat.odd (fan_count v0 l p) then 1%Z else 0%Z) pts).
  { apply map_ext_in. intros p Hp.
    rewrite Forall_forall in Hoff. specialize (Hoff p Hp).
    pose proof (inside_is_fan_parity atol v0 l p G Hoff) as Hf.
    rewrite (inside_is_crossing_parity atol (v0 :: l) p Hne G) in Hf.
    injection Hf as Hf. exact Hf. }
  rewrite E. reflexivity.
Qed.

(* the hypotheses are satisfiable: the non-convex polygon of Props/C15.v (an L with
   horizontal and vertical edges) and the default tolerance; a point level with two
   vertices (inside), a point of the notch inside the box (outside), a point outside
   the box - executed on the translated kernel *)
Lemma lshape_box : box_contains 0 2 0 2 lshape.
Proof.
  intros v Hv. unfold lshape in Hv. cbn [In] in Hv.
  repeat (destruct Hv as [<-|Hv]; [cbn [fst snd]; lra|]). contradiction.
Qed.

Example kernel_inside_example :
  run_inside 7 0 PIP_ATOL_DEFAULT_R 0 2 0 2 lshape
    [(1 / 2, 1); (3 / 2, 3 / 2); (-1, 1)]%R [0; 0; 0]%Z =
  Ok (RI 0%Z, [VArrF [1 / 2; 1; 3 / 2; 3 / 2; -1; 1]%R; VArrF (flat lshape);
               VArrF [0; 2]%R; VArrF [0; 2]%R; VArrI [1; 0; 0]%Z]).
Proof.
  pose proof (kernel_inside_is_crossing_parity 0 PIP_ATOL_DEFAULT_R 0 2 0 2 lshape
                [(1 / 2, 1); (3 / 2, 3 / 2); (-1, 1)]%R 7 lshape_nonempty lshape_good lshape_box) as H.
  cbn [List.length repeat] in H. rewrite H by (unfold lshape; cbn [List.length]; lia).
  cbn [map flat flat_map app fst snd].
  pose proof lshape_inside_level_with_vertices as H1.
  pose proof lshape_outside_in_box as H2.
  pose proof (outside_extent_zero PIP_ATOL_DEFAULT_R lshape (-1) 1 0 2 0 2 lshape_nonempty lshape_box) as H3.
  rewrite (inside_is_crossing_parity _ _ _ lshape_nonempty lshape_good) in H1.
  rewrite (inside_is_crossing_parity _ _ _ lshape_nonempty lshape_good) in H2.
  rewrite (inside_is_crossing_parity _ _ _ lshape_nonempty lshape_good) in H3.
  unfold parity_answer in H1, H2, H3.
  injection H1 as H1. injection H2 as H2.
  assert (H3' : (if Nat.odd (crossing_number lshape (-1, 1)%R) then 1%Z else 0%Z) = 0%Z).
  { assert (Ho : (-1 < 0 \/ 2 < -1 \/ 1 < 0 \/ 2 < 1)%R) by (left; lra).
    specialize (H3 Ho). injection H3 as H3. exact H3. }
  rewrite H1, H2, H3'. reflexivity.
Qed.
