(* Engine E3 (DESIGN 3.2): evaluation of the real-number model Model/Transform.v
   at literal arguments with the `interval` tactic.

   A correspondence goal has the form
       close_R   (f p.. x) y tol      i.e.  Rabs (f p.. x - y) <= tol
       close_opt (f p.. x) (Some y | None) tol
   with every argument a binary64 literal (hexadecimal notation, exact).
   [tr_solve] unfolds the model, decides every branch test of the model on the
   literals (each test is proved or refuted by `interval`), and closes the
   remaining inequality by `interval`.  It fails when the implementation's
   value is not within tol of the model's value (or when a branch test cannot
   be decided at the working precision: an exact tie is decided, since both
   sides are then computed exactly). *)
From Coq Require Import Reals List Bool.
From Coquelicot Require Import Rbar.
From Interval Require Import Tactic.
From Hy Require Import Base.Num Gen.ConstsC01 Model.Transform.
Import ListNotations.
Open Scope R_scope.

Lemma Rltb_is_true x y : x < y -> Rltb x y = true.
Proof. intro H; apply Rltb_true; exact H. Qed.
Lemma Rltb_is_false x y : y <= x -> Rltb x y = false.
Proof. intro H; apply Rltb_false; exact H. Qed.
Lemma Rleb_is_true x y : x <= y -> Rleb x y = true.
Proof. intro H; apply Rleb_true; exact H. Qed.
Lemma Rleb_is_false x y : y < x -> Rleb x y = false.
Proof. intro H; apply Rleb_false; exact H. Qed.
Lemma Reqb_is_true x y : x <= y -> y <= x -> Reqb x y = true.
Proof. intros H1 H2; apply Reqb_true; apply Rle_antisym; assumption. Qed.
Lemma Reqb_is_false_lt x y : x < y -> Reqb x y = false.
Proof. intro H; apply Reqb_false; intro E; rewrite E in H; exact (Rlt_irrefl _ H). Qed.
Lemma Reqb_is_false_gt x y : y < x -> Reqb x y = false.
Proof. intro H; apply Reqb_false; intro E; rewrite E in H; exact (Rlt_irrefl _ H). Qed.
Lemma Rmax_is_left x y : y <= x -> Rmax x y = x.
Proof. intro H; apply Rmax_left; exact H. Qed.
Lemma Rmax_is_right x y : x <= y -> Rmax x y = y.
Proof. intro H; apply Rmax_right; exact H. Qed.
Lemma Rmin_is_left x y : x <= y -> Rmin x y = x.
Proof. intro H; apply Rmin_left; exact H. Qed.
Lemma Rmin_is_right x y : y <= x -> Rmin x y = y.
Proof. intro H; apply Rmin_right; exact H. Qed.

(* A maximum / minimum whose two arguments cannot be ordered by `interval` (an
   exact tie through transcendental functions, e.g. backward (forward censor)
   against censor, or y = forward(censor) exactly): the goal is proved for both
   arguments ([Rmax_case] / [Rmin_case]). *)

Ltac tr_ineq := interval with (i_prec 140).

Ltac tr_unfold :=
  cbv beta iota zeta delta
    [close_R close_opt close_list close_optlist tot
     id_fwd id_bwd id_jac logit_fwd logit_bwd logit_jac
     log_basefactor log_fwd log_bwd log_jac
     bc2_fwd bc2_bwd bc2_jac bc2_sync_nu bc2_sync_lam
     bc1lam_fwd bc1lam_bwd bc1lam_jac bc1nu_fwd bc1nu_bwd bc1nu_jac
     bc2sym_fwd bc2sym_bwd bc2sym_jac
     yj_w yj_fwd_w yj_fwd yj_bwd_w yj_bwd yj_jac_w yj_jac
     logsinh_fwd logsinh_bwd logsinh_jac
     recip_fwd recip_bwd recip_bwd_pinned recip_jac
     rsum rprod softmax_row_ok softmax_fwd_row softmax_fwd softmax_bwd_row softmax_bwd
     softmax_jac_row softmax_jac oflat concat app
     sinh_fwd sinh_bwd sinh_jac
     manly_fwd manly_bwd manly_jac manly_fwd_pinned manly_bwd_pinned manly_jac_pinned
     backward_censored omax
     isclose Rsign vclip clip_lo clip_hi EPS
     TR_EPS TR_ISCLOSE_RTOL TR_ISCLOSE_ATOL
     TR_BoxCox2_nu_min TR_BoxCox2_nu_max TR_BoxCox2_lam_min TR_BoxCox2_lam_max
     map fold_right forallb negb andb
     sinh cosh tanh arcsinh].

Ltac tr_red := cbv beta iota delta [negb andb forallb map fold_right oflat concat app].

(* a term on which `interval` can work: no undecided test / max / min inside *)
Ltac tr_pure t :=
  lazymatch t with
  | context [Rltb _ _] => fail
  | context [Rleb _ _] => fail
  | context [Reqb _ _] => fail
  | context [Rmax _ _] => fail
  | context [Rmin _ _] => fail
  | _ => idtac
  end.

(* decide one branch test / one max / one min of the goal (innermost first:
   only occurrences whose arguments are pure are attempted) *)
Ltac tr_step :=
  match goal with
  | |- context [Rmax ?a ?b] =>
      tr_pure a; tr_pure b;
      first [ rewrite (Rmax_is_left a b) by tr_ineq
            | rewrite (Rmax_is_right a b) by tr_ineq
            | pattern (Rmax a b); apply Rmax_case ]
  | |- context [Rmin ?a ?b] =>
      tr_pure a; tr_pure b;
      first [ rewrite (Rmin_is_left a b) by tr_ineq
            | rewrite (Rmin_is_right a b) by tr_ineq
            | pattern (Rmin a b); apply Rmin_case ]
  | |- context [Rltb ?a ?b] =>
      tr_pure a; tr_pure b;
      first [ rewrite (Rltb_is_true a b) by tr_ineq
            | rewrite (Rltb_is_false a b) by tr_ineq ]; tr_red
  | |- context [Rleb ?a ?b] =>
      tr_pure a; tr_pure b;
      first [ rewrite (Rleb_is_true a b) by tr_ineq
            | rewrite (Rleb_is_false a b) by tr_ineq ]; tr_red
  | |- context [Reqb ?a ?b] =>
      tr_pure a; tr_pure b;
      first [ rewrite (Reqb_is_false_lt a b) by tr_ineq
            | rewrite (Reqb_is_false_gt a b) by tr_ineq
            | rewrite (Reqb_is_true a b) by tr_ineq ]; tr_red
  end.

Ltac tr_finish :=
  lazymatch goal with
  | |- True => exact I
  | |- _ /\ _ => split; tr_finish
  | |- _ => tr_ineq
  end.

Ltac tr_solve := tr_unfold; repeat tr_step; tr_finish.
