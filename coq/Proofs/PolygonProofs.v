(* Proofs about Model/Polygon.v (property C15), part 1:
   the kernel over the reals computes the crossing-number parity (even-odd
   rule with the half-open span  min y < py <= max y), the bounding-box
   shortcut is consistent with it, degenerate polygons. *)
From Coq Require Import ZArith Bool List Reals Lra Lia Permutation.
From Hy Require Import Base.Num Gen.ConstsC15 Model.Grid Model.Polygon.
Import ListNotations.
Open Scope R_scope.

(* ------------------------------------------------------------------ *)
(* parity of a list of booleans                                          *)

Definition parityb (l : list bool) : bool := fold_right xorb false l.

Lemma fold_toggle {A} (t : A -> bool) l acc :
  fold_left (fun acc e => if t e then negb acc else acc) l acc =
  xorb acc (parityb (map t l)).
Proof.
  revert acc; induction l as [|a l IH]; intros acc; simpl.
  - now rewrite xorb_false_r.
  - rewrite IH. destruct (t a), acc, (parityb (map t l)); reflexivity.
Qed.

Lemma parityb_app l1 l2 : parityb (l1 ++ l2) = xorb (parityb l1) (parityb l2).
Proof.
  induction l1 as [|a l1 IH]; simpl; [now destruct (parityb l2)|].
  rewrite IH. now rewrite xorb_assoc.
Qed.

Lemma parityb_perm l l' : Permutation l l' -> parityb l = parityb l'.
Proof.
  induction 1; simpl; try congruence.
  destruct x, y, (parityb l); reflexivity.
Qed.

Lemma parityb_all_false {A} (f : A -> bool) l :
  (forall e, In e l -> f e = false) -> parityb (map f l) = false.
Proof.
  induction l as [|a l IH]; intros H; simpl; [reflexivity|].
  rewrite (H a (or_introl eq_refl)), IH; [reflexivity|].
  intros e He; apply H; now right.
Qed.

Lemma parityb_odd {A} (f : A -> bool) l :
  parityb (map f l) = Nat.odd (List.length (filter f l)).
Proof.
  induction l as [|a l IH]; simpl; [reflexivity|].
  destruct (f a); simpl List.length.
  - rewrite Nat.odd_succ, <- Nat.negb_odd, <- IH. now destruct (parityb (map f l)).
  - rewrite <- IH. now destruct (parityb (map f l)).
Qed.

Lemma parityb_map_ext_in {A} (f g : A -> bool) l :
  (forall e, In e l -> f e = g e) -> parityb (map f l) = parityb (map g l).
Proof. intros H. f_equal. now apply map_ext_in. Qed.

(* ------------------------------------------------------------------ *)
(* consecutive pairs, edges                                              *)

Definition swap {A} (e : A * A) : A * A := (snd e, fst e).

Lemma path_app2 {A} (l : list A) a b : path (l ++ [a; b]) = path (l ++ [a]) ++ [(a, b)].
Proof.
  induction l as [|x l IH]; [reflexivity|].
  destruct l as [|y l]; [reflexivity|].
  change (path ((x :: y :: l) ++ [a; b])) with ((x, y) :: path ((y :: l) ++ [a; b])).
  rewrite IH. reflexivity.
Qed.

Lemma path_rev {A} (l : list A) : path (rev l) = map swap (rev (path l)).
Proof.
  induction l as [|a l IH]; [reflexivity|].
  destruct l as [|b r]; [reflexivity|].
  change (path (a :: b :: r)) with ((a, b) :: path (b :: r)).
  change (rev (a :: b :: r)) with ((rev r ++ [b]) ++ [a]).
  rewrite <- app_assoc. simpl app at 2.
  rewrite path_app2.
  change (rev r ++ [b]) with (rev (b :: r)). rewrite IH.
  simpl rev. rewrite map_app. reflexivity.
Qed.

Lemma path_map {A B} (f : A -> B) (l : list A) :
  path (map f l) = map (fun e => (f (fst e), f (snd e))) (path l).
Proof.
  induction l as [|a l IH]; [reflexivity|].
  destruct l as [|b r]; [reflexivity|].
  change (path (map f (a :: b :: r))) with ((f a, f b) :: path (map f (b :: r))).
  rewrite IH. reflexivity.
Qed.

Lemma in_path {A} (l : list A) a b : In (a, b) (path l) -> In a l /\ In b l.
Proof.
  induction l as [|x l IH]; [intros []|].
  destruct l as [|y r]; [intros []|].
  change (path (x :: y :: r)) with ((x, y) :: path (y :: r)).
  intros [H|H].
  - inversion H; subst. split; [now left | right; now left].
  - destruct (IH H). split; now right.
Qed.

Lemma in_edges {A} (poly : list A) a b : In (a, b) (edges poly) -> In a poly /\ In b poly.
Proof.
  destruct poly as [|v t]; [intros []|]. unfold edges. intros H.
  apply in_path in H. destruct H as [Ha Hb].
  assert (forall z, In z ((v :: t) ++ [v]) -> In z (v :: t)) as K.
  { intros z Hz. apply in_app_or in Hz. destruct Hz as [Hz|[Hz|[]]]; [exact Hz|subst; now left]. }
  split; now apply K.
Qed.

(* moving the first vertex to the end moves the first edge to the end *)
Lemma edges_rot1 {A} (v : A) t :
  t <> [] -> exists e X, edges (v :: t) = e :: X /\ edges (t ++ [v]) = X ++ [e].
Proof.
  destruct t as [|w t]; [congruence|]. intros _.
  exists (v, w), (path ((w :: t) ++ [v])). split.
  - reflexivity.
  - change (edges ((w :: t) ++ [v])) with (path (((w :: t) ++ [v]) ++ [w])).
    rewrite <- app_assoc. apply (path_app2 (w :: t) v w).
Qed.

Lemma edges_rot1_perm {A} (v : A) t : Permutation (edges (t ++ [v])) (edges (v :: t)).
Proof.
  destruct t as [|w t]; [apply Permutation_refl|].
  destruct (edges_rot1 v (w :: t)) as (e & X & H1 & H2); [congruence|].
  rewrite H1, H2. apply Permutation_sym, Permutation_cons_append.
Qed.

(* any starting vertex *)
Lemma edges_rotate_perm {A} (a b : list A) : Permutation (edges (b ++ a)) (edges (a ++ b)).
Proof.
  revert b; induction a as [|x a IH]; intros b.
  - rewrite app_nil_r. apply Permutation_refl.
  - eapply Permutation_trans; [|apply (edges_rot1_perm x (a ++ b))].
    rewrite <- app_assoc.
    replace (b ++ x :: a) with ((b ++ [x]) ++ a) by (rewrite <- app_assoc; reflexivity).
    apply IH.
Qed.

(* reversed vertex list: the same edges, each traversed backwards *)
Lemma edges_rev_perm {A} (poly : list A) :
  Permutation (edges (rev poly)) (map swap (edges poly)).
Proof.
  destruct poly as [|v t]; [apply Permutation_refl|].
  simpl rev.
  eapply Permutation_trans; [apply edges_rot1_perm|].
  unfold edges.
  replace ((v :: rev t) ++ [v]) with (rev ((v :: t) ++ [v])).
  - rewrite path_rev. apply Permutation_map, Permutation_sym, Permutation_rev.
  - rewrite rev_app_distr. reflexivity.
Qed.

(* closing the list by repeating the first vertex adds one degenerate edge *)
Lemma edges_close {A} (v : A) t : edges ((v :: t) ++ [v]) = edges (v :: t) ++ [(v, v)].
Proof.
  change (edges ((v :: t) ++ [v])) with (path (((v :: t) ++ [v]) ++ [v])).
  rewrite <- app_assoc. apply (path_app2 (v :: t) v v).
Qed.

Lemma edges_map {A B} (f : A -> B) poly :
  edges (map f poly) = map (fun e => (f (fst e), f (snd e))) (edges poly).
Proof.
  destruct poly as [|v t]; [reflexivity|].
  change (edges (map f (v :: t))) with (path (map f (v :: t) ++ map f [v])).
  rewrite <- map_app. exact (path_map f ((v :: t) ++ [v])).
Qed.

Lemma last_cons_default {A} (l : list A) a b : last (b :: l) a = last l b.
Proof.
  revert a b; induction l as [|c l IH]; intros a b; [reflexivity|].
  change (last (b :: c :: l) a) with (last (c :: l) a).
  rewrite (IH a c), (IH b c). reflexivity.
Qed.

(* around a closed vertex sequence a boolean changes an even number of times *)
Lemma path_xor {A} (g : A -> bool) a l :
  parityb (map (fun e => xorb (g (fst e)) (g (snd e))) (path (a :: l))) =
  xorb (g a) (g (last l a)).
Proof.
  revert a; induction l as [|b l IH]; intros a.
  - simpl. now destruct (g a).
  - change (path (a :: b :: l)) with ((a, b) :: path (b :: l)).
    change (parityb (map (fun e => xorb (g (fst e)) (g (snd e))) ((a, b) :: path (b :: l))))
      with (xorb (xorb (g a) (g b))
              (parityb (map (fun e => xorb (g (fst e)) (g (snd e))) (path (b :: l))))).
    rewrite IH.
    replace (last (b :: l) a) with (last l b).
    + destruct (g a), (g b), (g (last l b)); reflexivity.
    + symmetry. apply last_cons_default.
Qed.

Lemma edges_xor_even {A} (g : A -> bool) poly :
  parityb (map (fun e => xorb (g (fst e)) (g (snd e))) (edges poly)) = false.
Proof.
  destruct poly as [|v t]; [reflexivity|].
  unfold edges. simpl app. rewrite path_xor, last_last. now destruct (g v).
Qed.

(* ------------------------------------------------------------------ *)
(* the edge test over the reals                                          *)

Notation rpt := (R * R)%type (only parsing).

(* abscissa of the intersection of the line through the edge with the
   horizontal through (x, y) *)
Definition xcross (y : R) (p1 p2 : rpt) : R :=
  fst p1 + (y - snd p1) * (fst p2 - fst p1) / (snd p2 - snd p1).

(* textbook crossing test: the half-open span of the edge contains y and the
   intersection lies at or to the right of x *)
Definition crossesb (x y : R) (e : rpt * rpt) : bool :=
  Rltb (Rmin (snd (fst e)) (snd (snd e))) y &&
  Rleb y (Rmax (snd (fst e)) (snd (snd e))) &&
  Rleb x (xcross y (fst e) (snd e)).

Definition crossing_number (poly : list rpt) (p : rpt) : nat :=
  List.length (filter (crossesb (fst p) (snd p)) (edges poly)).

(* no edge has 0 < |dy| <= atol or 0 < |dx| < atol *)
Definition good_edge (atol : R) (e : rpt * rpt) : Prop :=
  (snd (fst e) = snd (snd e) \/ atol < Rabs (snd (fst e) - snd (snd e))) /\
  (fst (fst e) = fst (snd e) \/ atol <= Rabs (fst (fst e) - fst (snd e))).

Definition good_poly (atol : R) (poly : list rpt) : Prop :=
  Forall (good_edge atol) (edges poly).

Lemma nfmin_RR a b : nfmin RR a b = Rmin a b.
Proof.
  unfold nfmin; cbn. unfold Rltb, Rmin.
  destruct (Rlt_dec b a), (Rle_dec a b); try reflexivity; lra.
Qed.

Lemma nfmax_RR a b : nfmax RR a b = Rmax a b.
Proof.
  unfold nfmax; cbn. unfold Rltb, Rmax.
  destruct (Rlt_dec a b), (Rle_dec a b); try reflexivity; lra.
Qed.

Lemma span_cases a b y :
  Rmin a b < y <= Rmax a b -> (a < y <= b) \/ (b < y <= a).
Proof.
  unfold Rmin, Rmax; destruct (Rle_dec a b); intros; lra.
Qed.

Lemma xcross_bounds y p1 p2 :
  Rmin (snd p1) (snd p2) < y <= Rmax (snd p1) (snd p2) ->
  Rmin (fst p1) (fst p2) <= xcross y p1 p2 <= Rmax (fst p1) (fst p2).
Proof.
  destruct p1 as [ax ay], p2 as [bx by_]; unfold xcross; simpl.
  intros H. apply span_cases in H.
  set (t := (y - ay) / (by_ - ay)).
  assert (Ht : 0 <= t <= 1).
  { assert (by_ - ay <> 0) by lra.
    assert (E : t * (by_ - ay) = y - ay) by (unfold t; field; lra).
    destruct H as [H|H]; split; nra. }
  replace ((y - ay) * (bx - ax) / (by_ - ay)) with (t * (bx - ax))
    by (unfold t; field; lra).
  unfold Rmin, Rmax; destruct (Rle_dec ax bx); nra.
Qed.

Lemma edge_toggle_RR atol x y e :
  good_edge atol e -> edge_toggle RR atol x y e = crossesb x y e.
Proof.
  destruct e as [[ax ay] [bx by_]]. unfold good_edge, edge_toggle, crossesb; simpl fst; simpl snd.
  intros [Gy Gx]. rewrite !nfmin_RR, !nfmax_RR. cbn [nltb nleb RR].
  destruct (Rltb (Rmin ay by_) y) eqn:E1; [|reflexivity].
  destruct (Rleb y (Rmax ay by_)) eqn:E2; [|reflexivity].
  simpl andb.
  apply Rltb_true in E1. apply Rleb_true in E2.
  assert (Hs : Rmin ay by_ < y <= Rmax ay by_) by (split; assumption).
  pose proof (xcross_bounds y (ax, ay) (bx, by_) Hs) as [_ Hb]; simpl in Hb.
  assert (Hne : ay <> by_).
  { intros ->. unfold Rmin, Rmax in Hs; destruct (Rle_dec by_ by_); lra. }
  destruct Gy as [Gy|Gy]; [contradiction|].
  assert (Hx : xinters RR atol y (ax, ay) (bx, by_) = xcross y (ax, ay) (bx, by_)).
  { unfold xinters, xcross; cbn.
    replace (Rltb atol (Rabs (ay - by_))) with true by (symmetry; now apply Rltb_true).
    reflexivity. }
  rewrite Hx.
  destruct (Rleb x (Rmax ax bx)) eqn:E3.
  - cbn [nabs nsub RR].
    destruct (Rltb (Rabs (ax - bx)) atol) eqn:E4; [|reflexivity].
    apply Rltb_true in E4. simpl orb. symmetry. apply Rleb_true.
    destruct Gx as [Gx|Gx]; [|lra]. subst bx.
    apply Rleb_true in E3.
    unfold xcross; simpl. unfold Rmax in E3; destruct (Rle_dec ax ax); [|lra].
    replace ((y - ay) * (ax - ax) / (by_ - ay)) with 0 by (field; lra). lra.
  - symmetry. apply Rleb_false. apply Rleb_false in E3. lra.
Qed.

Lemma crossing_parity_RR atol poly p :
  good_poly atol poly ->
  crossing_parity RR atol poly p = Nat.odd (crossing_number poly p).
Proof.
  intros G. unfold crossing_parity, crossing_number.
  rewrite fold_toggle, xorb_false_l, <- parityb_odd.
  apply parityb_map_ext_in. intros e He.
  apply edge_toggle_RR. unfold good_poly in G. rewrite Forall_forall in G. now apply G.
Qed.

(* ------------------------------------------------------------------ *)
(* extent                                                               *)

Lemma np_min_RR l m : np_min RR l = Some m -> Forall (fun v => m <= v) l.
Proof.
  destruct l as [|a r]; [discriminate|]. simpl. intros H; inversion H as [H']; clear H.
  cbn [nisnan RR nltb].
  assert (K : forall r a, let m := fold_left (fun acc v => if Rltb v acc then v else acc) r a in
                          m <= a /\ Forall (fun v => m <= v) r).
  { clear. induction r as [|b r IH]; intros a; simpl.
    - split; [lra|constructor].
    - destruct (IH (if Rltb b a then b else a)) as [K1 K2].
      unfold Rltb in *. destruct (Rlt_dec b a); (split; [lra|constructor; [lra|assumption]]). }
  destruct (K r a) as [K1 K2]. constructor; assumption.
Qed.

Lemma np_max_RR l m : np_max RR l = Some m -> Forall (fun v => v <= m) l.
Proof.
  destruct l as [|a r]; [discriminate|]. simpl. intros H; inversion H as [H']; clear H.
  cbn [nisnan RR nltb].
  assert (K : forall r a, let m := fold_left (fun acc v => if Rltb acc v then v else acc) r a in
                          a <= m /\ Forall (fun v => v <= m) r).
  { clear. induction r as [|b r IH]; intros a; simpl.
    - split; [lra|constructor].
    - destruct (IH (if Rltb a b then b else a)) as [K1 K2].
      unfold Rltb in *. destruct (Rlt_dec a b); (split; [lra|constructor; [lra|assumption]]). }
  destruct (K r a) as [K1 K2]. constructor; assumption.
Qed.

Lemma extent_nonempty {T} (N : NumOps T) (poly : list (T * T)) :
  poly <> [] -> exists xlim ylim, extent N poly = Some (xlim, ylim).
Proof.
  destruct poly as [|v t]; [congruence|]. intros _. unfold extent. simpl. eauto.
Qed.

Lemma extent_empty {T} (N : NumOps T) : extent N [] = None.
Proof. reflexivity. Qed.

Lemma extent_RR poly xlim ylim :
  extent RR poly = Some (xlim, ylim) ->
  forall v, In v poly ->
    fst xlim <= fst v <= snd xlim /\ fst ylim <= snd v <= snd ylim.
Proof.
  unfold extent.
  destruct (np_min RR (map fst poly)) as [x0|] eqn:E1; [|discriminate].
  destruct (np_max RR (map fst poly)) as [x1|] eqn:E2; [|discriminate].
  destruct (np_min RR (map snd poly)) as [y0|] eqn:E3; [|discriminate].
  destruct (np_max RR (map snd poly)) as [y1|] eqn:E4; [|discriminate].
  intros H; inversion H; subst; clear H. simpl.
  apply np_min_RR in E1. apply np_max_RR in E2. apply np_min_RR in E3. apply np_max_RR in E4.
  rewrite Forall_forall in *.
  intros v Hv. repeat split.
  - apply E1. now apply in_map.
  - apply E2. now apply in_map.
  - apply E3. now apply in_map.
  - apply E4. now apply in_map.
Qed.

(* ------------------------------------------------------------------ *)
(* outside the extent the crossing number is even                        *)

Lemma spansb_xor a b y :
  Rltb (Rmin a b) y && Rleb y (Rmax a b) = xorb (Rltb a y) (Rltb b y).
Proof.
  unfold Rltb, Rleb, Rmin, Rmax.
  destruct (Rle_dec a b), (Rlt_dec a y), (Rlt_dec b y);
  repeat match goal with |- context [Rlt_dec ?u ?v] => destruct (Rlt_dec u v) end;
  repeat match goal with |- context [Rle_dec ?u ?v] => destruct (Rle_dec u v) end;
  simpl; try reflexivity; exfalso; lra.
Qed.

Lemma outside_crossing_even poly xlim ylim p :
  extent RR poly = Some (xlim, ylim) ->
  outside_box RR xlim ylim p = true ->
  Nat.odd (crossing_number poly p) = false.
Proof.
  intros He Ho. pose proof (extent_RR _ _ _ He) as Hb.
  unfold crossing_number. rewrite <- parityb_odd.
  destruct p as [x y]; simpl fst; simpl snd.
  unfold outside_box in Ho; cbn [nltb RR fst snd] in Ho.
  assert (Hedge : forall e, In e (edges poly) ->
            (fst xlim <= fst (fst e) <= snd xlim /\ fst ylim <= snd (fst e) <= snd ylim) /\
            (fst xlim <= fst (snd e) <= snd xlim /\ fst ylim <= snd (snd e) <= snd ylim)).
  { intros [a b] Hin. apply in_edges in Hin. destruct Hin. split; apply Hb; assumption. }
  assert (Hmin : forall u v w, w <= u -> w <= v -> w <= Rmin u v)
    by (intros; unfold Rmin; destruct (Rle_dec _ _); lra).
  assert (Hmax : forall u v w, u <= w -> v <= w -> Rmax u v <= w)
    by (intros; unfold Rmax; destruct (Rle_dec _ _); lra).
  destruct (Rltb x (fst xlim)) eqn:E1.
  - (* left of the extent: every spanning edge crosses; spans come in pairs *)
    apply Rltb_true in E1.
    transitivity (parityb (map (fun e : rpt * rpt =>
                    xorb (Rltb (snd (fst e)) y) (Rltb (snd (snd e)) y)) (edges poly)));
      [|apply (edges_xor_even (fun v : rpt => Rltb (snd v) y))].
    apply parityb_map_ext_in.
    { intros e Hin. destruct (Hedge e Hin) as [[Ha _] [Hb' _]].
      unfold crossesb. rewrite <- spansb_xor.
      destruct (Rltb (Rmin (snd (fst e)) (snd (snd e))) y) eqn:F1; [|reflexivity].
      destruct (Rleb y (Rmax (snd (fst e)) (snd (snd e)))) eqn:F2; [|reflexivity].
      simpl. apply Rleb_true.
      apply Rltb_true in F1. apply Rleb_true in F2.
      pose proof (xcross_bounds y (fst e) (snd e) (conj F1 F2)) as [K _].
      pose proof (Hmin _ _ _ (proj1 Ha) (proj1 Hb')). lra. }
  - simpl in Ho. apply parityb_all_false. intros e Hin.
    destruct (Hedge e Hin) as [[Hax Hay] [Hbx Hby]].
    unfold crossesb.
    destruct (Rltb (Rmin (snd (fst e)) (snd (snd e))) y) eqn:F1; [|reflexivity].
    destruct (Rleb y (Rmax (snd (fst e)) (snd (snd e)))) eqn:F2; [|reflexivity].
    simpl. apply Rleb_false.
    apply Rltb_true in F1. apply Rleb_true in F2.
    pose proof (xcross_bounds y (fst e) (snd e) (conj F1 F2)) as [_ K].
    pose proof (Hmax _ _ _ (proj2 Hax) (proj2 Hbx)).
    pose proof (Hmin _ _ _ (proj1 Hay) (proj1 Hby)).
    pose proof (Hmax _ _ _ (proj2 Hay) (proj2 Hby)).
    destruct (Rltb (snd xlim) x) eqn:E2; [apply Rltb_true in E2; lra|].
    destruct (Rltb y (fst ylim)) eqn:E3; [apply Rltb_true in E3; lra|].
    destruct (Rltb (snd ylim) y) eqn:E4; [apply Rltb_true in E4; lra|].
    discriminate.
Qed.

(* ------------------------------------------------------------------ *)
(* main theorem: the answer is the parity of the crossing number         *)

Definition parity_answer (poly : list rpt) (p : rpt) : Z :=
  if Nat.odd (crossing_number poly p) then 1%Z else 0%Z.

Theorem inside_is_crossing_parity atol poly p :
  poly <> [] -> good_poly atol poly ->
  pip_point RR atol poly p = Some (parity_answer poly p).
Proof.
  intros Hne G. unfold pip_point.
  destruct (extent_nonempty RR poly Hne) as (xlim & ylim & He). rewrite He.
  f_equal. unfold c_inside_point, parity_answer.
  destruct (outside_box RR xlim ylim p) eqn:Ho.
  - now rewrite (outside_crossing_even _ _ _ _ He Ho).
  - now rewrite crossing_parity_RR.
Qed.

Lemma c_inside_map {T} (N : NumOps T) atol xlim ylim poly pts :
  c_inside N atol xlim ylim poly pts (repeat 0%Z (List.length pts)) =
  map (fun p => c_inside_point N atol xlim ylim poly p 0%Z) pts.
Proof. induction pts as [|p pts IH]; simpl; [reflexivity|now rewrite IH]. Qed.

Lemma pip_map {T} (N : NumOps T) atol pts poly xlim ylim :
  extent N poly = Some (xlim, ylim) ->
  points_inside_polygon N atol pts poly None =
  Some (map (fun p => c_inside_point N atol xlim ylim poly p 0%Z) pts).
Proof. intros He. unfold points_inside_polygon. rewrite He, c_inside_map. reflexivity. Qed.

(* the whole vector returned by points_inside_polygon *)
Theorem inside_vector_is_crossing_parity atol poly pts :
  poly <> [] -> good_poly atol poly ->
  points_inside_polygon RR atol pts poly None = Some (map (parity_answer poly) pts).
Proof.
  intros Hne G.
  destruct (extent_nonempty RR poly Hne) as (xlim & ylim & He).
  rewrite (pip_map RR atol pts poly xlim ylim He). f_equal.
  apply map_ext. intros p.
  pose proof (inside_is_crossing_parity atol poly p Hne G) as H.
  unfold pip_point in H. rewrite He in H. now inversion H.
Qed.

(* a caller-supplied vector of the right length changes nothing (it is
   zero-filled); a wrong length is rejected *)
Theorem inside_vector_supplied {T} (N : NumOps T) atol pts poly :
  points_inside_polygon N atol pts poly (Some (Z.of_nat (List.length pts))) =
  points_inside_polygon N atol pts poly None.
Proof. unfold points_inside_polygon. now rewrite Z.eqb_refl. Qed.

Theorem inside_vector_wrong_length {T} (N : NumOps T) atol pts poly k :
  k <> Z.of_nat (List.length pts) ->
  points_inside_polygon N atol pts poly (Some k) = None.
Proof.
  intros H. unfold points_inside_polygon.
  destruct (Z.eqb_spec k (Z.of_nat (List.length pts))); [contradiction|reflexivity].
Qed.

Theorem empty_polygon_rejected {T} (N : NumOps T) atol pts il :
  points_inside_polygon N atol pts [] il = None.
Proof. unfold points_inside_polygon. destruct il as [k|]; [destruct (negb _)|]; reflexivity. Qed.

(* outside the extent the answer is 0 - for every arithmetic instance *)
Theorem outside_box_zero {T} (N : NumOps T) atol poly xlim ylim p :
  extent N poly = Some (xlim, ylim) -> outside_box N xlim ylim p = true ->
  pip_point N atol poly p = Some 0%Z.
Proof. intros He Ho. unfold pip_point, c_inside_point. now rewrite He, Ho. Qed.

(* over the reals, stated with the extent spelled out *)
Theorem outside_extent_zero atol poly x y xmin xmax ymin ymax :
  poly <> [] ->
  (forall v, In v poly -> xmin <= fst v <= xmax /\ ymin <= snd v <= ymax) ->
  (x < xmin \/ xmax < x \/ y < ymin \/ ymax < y) ->
  pip_point RR atol poly (x, y) = Some 0%Z.
Proof.
  intros Hne Hb Ho.
  destruct (extent_nonempty RR poly Hne) as (xlim & ylim & He).
  apply (outside_box_zero RR atol poly xlim ylim); [exact He|].
  (* the computed extent is attained by vertices, hence inside [xmin,xmax]x[ymin,ymax] *)
  assert (Hatt : (exists v, In v poly /\ fst v = fst xlim) /\ (exists v, In v poly /\ fst v = snd xlim) /\
                 (exists v, In v poly /\ snd v = fst ylim) /\ (exists v, In v poly /\ snd v = snd ylim)).
  { revert He. unfold extent.
    assert (Kmin : forall l m, np_min RR l = Some m -> In m l).
    { intros l m. destruct l as [|a r]; [discriminate|]. simpl. intros H; inversion H as [H']; clear H H'.
      cbn [nisnan RR nltb]. revert a. induction r as [|b r IH]; intros a; simpl; [now left|].
      destruct (IH (if Rltb b a then b else a)) as [K|K].
      - destruct (Rltb b a); [right; left; exact K | left; exact K].
      - right; right; exact K. }
    assert (Kmax : forall l m, np_max RR l = Some m -> In m l).
    { intros l m. destruct l as [|a r]; [discriminate|]. simpl. intros H; inversion H as [H']; clear H H'.
      cbn [nisnan RR nltb]. revert a. induction r as [|b r IH]; intros a; simpl; [now left|].
      destruct (IH (if Rltb a b then b else a)) as [K|K].
      - destruct (Rltb a b); [right; left; exact K | left; exact K].
      - right; right; exact K. }
    destruct (np_min RR (map fst poly)) as [x0|] eqn:E1; [|discriminate].
    destruct (np_max RR (map fst poly)) as [x1|] eqn:E2; [|discriminate].
    destruct (np_min RR (map snd poly)) as [y0|] eqn:E3; [|discriminate].
    destruct (np_max RR (map snd poly)) as [y1|] eqn:E4; [|discriminate].
    intros H; inversion H; subst; clear H. simpl.
    apply Kmin in E1. apply Kmax in E2. apply Kmin in E3. apply Kmax in E4.
    apply in_map_iff in E1. apply in_map_iff in E2. apply in_map_iff in E3. apply in_map_iff in E4.
    destruct E1 as (v1 & ? & ?), E2 as (v2 & ? & ?), E3 as (v3 & ? & ?), E4 as (v4 & ? & ?).
    repeat split; eauto. }
  destruct Hatt as ((v1 & I1 & A1) & (v2 & I2 & A2) & (v3 & I3 & A3) & (v4 & I4 & A4)).
  pose proof (Hb v1 I1). pose proof (Hb v2 I2). pose proof (Hb v3 I3). pose proof (Hb v4 I4).
  unfold outside_box; cbn [nltb RR fst snd].
  destruct Ho as [Ho|[Ho|[Ho|Ho]]].
  - replace (Rltb x (fst xlim)) with true; [reflexivity|]. symmetry; apply Rltb_true; lra.
  - replace (Rltb (snd xlim) x) with true; [now rewrite orb_true_r|]. symmetry; apply Rltb_true; lra.
  - replace (Rltb y (fst ylim)) with true; [now rewrite !orb_true_r|]. symmetry; apply Rltb_true; lra.
  - replace (Rltb (snd ylim) y) with true; [now rewrite !orb_true_r|]. symmetry; apply Rltb_true; lra.
Qed.
