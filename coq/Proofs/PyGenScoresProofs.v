(* Equality between the hand-written models of stat/metrics.py (Model/Scores.v),
   stat/sutils.py ppos and plot/boxplot.py compute_percentiles (Model/Summary.v),
   io/hyruns.py get_batch (Model/Hyruns.v) and the definitions REGENERATED from the
   Python source by harness/pytrans.py (Gen/PyGen.v), for ALL arguments, over the
   real-number instance RR.

   Instantiation of the parameters of the generated definitions:
     np_mean := mean RR   np_sum := np_sum RR   np_std := std RR
     np_corrcoef01 := pearson RR   trans := the model's fwd   math.log := ln
   and of the model's section variables:  eps := gen_EPS_metrics, nln := ln,
   excl := false.

   Result types.  The model returns [sout] (SErr = ValueError, SNan = np.nan,
   SVal v); the generated definitions return option R (None = np.nan) or R, and the
   shape test of the source is skipped by the translator as glue.  Hence
     model = if lengths equal then sout_of (generated) else SErr.
   For [binary] the model stores NaN as [nnan RR]; [nan_of] maps None to it. *)
From Coq Require Import ZArith Bool List Reals Lra Lia.
From Coq Require PrimFloat FloatOps SpecFloat.
From Hy Require Import Base.Num Gen.Consts Gen.ConstsC01 Gen.ConstsC04 Gen.ConstsC20
  Model.Transform Gen.PyGen Model.Scores Model.Summary Model.Hyruns
  Proofs.ScoresProofs Proofs.ScoresRealProofs Proofs.ScoresCatProofs Proofs.ScoresMissingProofs
  Proofs.SummaryProofs Proofs.HyrunsProofs.
Import ListNotations.
Open Scope R_scope.

(* ------------------------------------------------------------------ *)
(* result-type correspondences                                          *)

(* None = the np.nan the source returns *)
Definition sout_of (r : option R) : @sout R :=
  match r with Some v => SVal v | None => SNan end.

(* the model's [binary] stores "missing" as [nnan RR] *)
Definition nan_of (r : option R) : R :=
  match r with Some v => v | None => nnan RR end.

(* all elements computed, or failure (raise) *)
Fixpoint opt_all {A} (l : list (option A)) : option (list A) :=
  match l with
  | [] => Some []
  | Some x :: r => match opt_all r with Some r' => Some (x :: r') | None => None end
  | None :: _ => None
  end.

(* ------------------------------------------------------------------ *)
(* EPS                                                                  *)

Lemma gen_EPS_metrics_transform : gen_EPS_metrics = gen_EPS.
Proof. reflexivity. Qed.

Lemma gen_EPS_metrics_pos : 0 < gen_EPS_metrics.
Proof. unfold gen_EPS_metrics. lra. Qed.

(* the constant of the property theorems of C04 (Gen/ConstsC04.v: the exact value of the
   binary64 number the literal 1e-10 denotes) IS the constant the translator reads.
   (An earlier version of the extractor rendered the decimal 1/10^10, 3.6e-27 smaller:
   found while proving this tie, repaired in harness/extractors/c04.py.) *)
Lemma gen_EPS_metrics_is_C04 : C04_EPS_R = gen_EPS_metrics.
Proof. reflexivity. Qed.

(* the binary64 constant of the executable instance IS the number the generated
   definition carries: mantissa 7737125245533627, exponent -86 *)
Lemma C04_EPS_F_exact :
  FloatOps.Prim2SF C04_EPS_F = SpecFloat.S754_finite false 7737125245533627 (-86) /\
  gen_EPS_metrics = IZR 7737125245533627 / IZR (2 ^ 86).
Proof. split; [vm_compute; reflexivity | reflexivity]. Qed.

(* ------------------------------------------------------------------ *)
(* tactics                                                              *)

Ltac rr_ops :=
  cbn [n0 n1 nadd nsub nmul ndiv nopp nltb nleb neqb nsqrt nabs nnan nofZ RR].

(* the shape test + excludenull=False wrapper *)
Lemma with_excl_false (core : list R -> list R -> @sout R) (f : R -> R) obs sim :
  with_excl RR false core (map f obs) (map f sim) =
  if Nat.eqb (length obs) (length sim) then core (map f obs) (map f sim) else SErr.
Proof.
  unfold with_excl. rewrite !map_length.
  destruct (Nat.eqb (length obs) (length sim)); reflexivity.
Qed.

(* ------------------------------------------------------------------ *)
(* bias                                                                 *)

Lemma pygen_bias_standard_core obs sim trans :
  bias_core RR gen_EPS_metrics ln BStd (map trans obs) (map trans sim) =
  sout_of (gen_bias_standard (mean RR) obs sim trans).
Proof.
  unfold bias_core, gen_bias_standard. rr_ops. cbv zeta.
  destruct (Rltb (Rabs (mean RR (map trans obs))) gen_EPS_metrics); reflexivity.
Qed.

Lemma pygen_bias_normalised_core obs sim trans :
  bias_core RR gen_EPS_metrics ln BNorm (map trans obs) (map trans sim) =
  sout_of (gen_bias_normalised (mean RR) obs sim trans).
Proof.
  unfold bias_core, gen_bias_normalised. rr_ops. cbv zeta.
  destruct (Rltb (Rabs (mean RR (map trans obs))) gen_EPS_metrics); reflexivity.
Qed.

Lemma pygen_bias_log_core obs sim trans :
  bias_core RR gen_EPS_metrics ln BLog (map trans obs) (map trans sim) =
  sout_of (gen_bias_log (mean RR) obs sim trans).
Proof.
  unfold bias_core, gen_bias_log. rr_ops. cbv zeta.
  destruct (Rltb (Rabs (mean RR (map trans obs))) gen_EPS_metrics); [reflexivity|].
  destruct (Rltb gen_EPS_metrics (mean RR (map trans sim)) &&
            Rltb gen_EPS_metrics (mean RR (map trans obs))); reflexivity.
Qed.

Lemma pygen_bias_standard obs sim trans :
  bias RR gen_EPS_metrics ln trans false BStd obs sim =
  if Nat.eqb (length obs) (length sim)
  then sout_of (gen_bias_standard (mean RR) obs sim trans) else SErr.
Proof. unfold bias. now rewrite with_excl_false, pygen_bias_standard_core. Qed.

Lemma pygen_bias_normalised obs sim trans :
  bias RR gen_EPS_metrics ln trans false BNorm obs sim =
  if Nat.eqb (length obs) (length sim)
  then sout_of (gen_bias_normalised (mean RR) obs sim trans) else SErr.
Proof. unfold bias. now rewrite with_excl_false, pygen_bias_normalised_core. Qed.

Lemma pygen_bias_log obs sim trans :
  bias RR gen_EPS_metrics ln trans false BLog obs sim =
  if Nat.eqb (length obs) (length sim)
  then sout_of (gen_bias_log (mean RR) obs sim trans) else SErr.
Proof. unfold bias. now rewrite with_excl_false, pygen_bias_log_core. Qed.

(* DISCREPANCY (constant): with the decimal constant of Props/C04.v the model and
   the generated definition differ on a series whose observed mean lies in
   [1/10^10, binary64(1e-10)): the source returns np.nan, the model a value.
   (general in x so that the kernel never computes with the closed constants) *)
Lemma mean_single (f : R -> R) x : mean RR (map f [x]) = f x.
Proof.
  rewrite mean_R. unfold meanR, lenR.
  cbn [map sumR length Z.of_nat Pos.of_succ_nat]. lra.
Qed.

Lemma bias_gap_general x eps :
  0 < eps -> eps <= x -> x < gen_EPS_metrics ->
  gen_bias_standard (mean RR) [x] [x] (fun v => v) = None /\
  bias RR eps ln (fun v => v) false BStd [x] [x] = SVal 0.
Proof.
  intros He Hx Hg. split.
  - unfold gen_bias_standard. cbv zeta. rewrite !(mean_single (fun v => v)).
    rewrite Rabs_pos_eq by lra.
    destruct (Rltb x gen_EPS_metrics) eqn:E; [reflexivity|].
    apply Rltb_false in E. lra.
  - unfold bias, with_excl, bias_core. rewrite !map_length, Nat.eqb_refl.
    cbn [negb]. rr_ops. cbv zeta. rewrite !(mean_single (fun v => v)).
    rewrite Rabs_pos_eq by lra.
    destruct (Rltb x eps) eqn:E; [apply Rltb_true in E; lra|].
    f_equal. field. lra.
Qed.

Lemma C04_EPS_R_pos : 0 < C04_EPS_R.
Proof. unfold C04_EPS_R. lra. Qed.

(* the model instantiated with the constant of Props/C04.v agrees with the generated
   definitions (standard / normalised) on every argument *)
Lemma pygen_bias_C04_constant obs sim trans :
  bias_core RR C04_EPS_R ln BStd (map trans obs) (map trans sim) =
    sout_of (gen_bias_standard (mean RR) obs sim trans) /\
  bias_core RR C04_EPS_R ln BNorm (map trans obs) (map trans sim) =
    sout_of (gen_bias_normalised (mean RR) obs sim trans).
Proof.
  rewrite gen_EPS_metrics_is_C04.
  rewrite <- pygen_bias_standard_core, <- pygen_bias_normalised_core. split; reflexivity.
Qed.

(* ------------------------------------------------------------------ *)
(* nse                                                                  *)

Lemma map_combine_swap {A B C} (f : A * B -> C) (g : B * A -> C) :
  (forall a b, f (a, b) = g (b, a)) ->
  forall (x : list A) (y : list B), map f (combine x y) = map g (combine y x).
Proof.
  intros H x. induction x as [|a x IH]; intros [|b y]; cbn [combine map]; try reflexivity.
  now rewrite H, IH.
Qed.

Lemma nse_errs_eq (o s : list R) :
  map (fun p : R * R => sqdiff RR (snd p) (fst p)) (combine o s) =
  map (fun p_ : R * R => (fst p_ - snd p_) ^ 2) (combine s o).
Proof.
  apply map_combine_swap. intros a b. unfold sqdiff. rr_ops. cbn [fst snd]. ring.
Qed.

Lemma nse_erro_eq (m : R) (o : list R) :
  map (fun a : R => sqdiff RR m a) o = map (fun v_ : R => (m - v_) ^ 2) o.
Proof. apply map_ext. intros a. unfold sqdiff. rr_ops. ring. Qed.

Lemma pygen_nse_core obs sim trans :
  nse_core RR (map trans obs) (map trans sim) =
  SVal (gen_nse (np_sum RR) (mean RR) obs sim trans).
Proof.
  unfold nse_core, gen_nse. rr_ops. cbv zeta.
  rewrite nse_errs_eq, nse_erro_eq. reflexivity.
Qed.

Lemma pygen_nse obs sim trans :
  nse RR trans false obs sim =
  if Nat.eqb (length obs) (length sim)
  then SVal (gen_nse (np_sum RR) (mean RR) obs sim trans) else SErr.
Proof. unfold nse. now rewrite with_excl_false, pygen_nse_core. Qed.

(* ------------------------------------------------------------------ *)
(* kge                                                                  *)

Lemma sq3_eq a b d : a * a + b * b + d * d = a ^ 2 + b ^ 2 + d ^ 2.
Proof. ring. Qed.

Lemma pygen_kge_core obs sim trans :
  kge_core RR gen_EPS_metrics (map trans obs) (map trans sim) =
  sout_of (gen_kge (mean RR) (std RR) (pearson RR) obs sim trans).
Proof.
  unfold kge_core, gen_kge. rr_ops. cbv zeta.
  destruct (Rltb (Rabs (mean RR (map trans obs))) gen_EPS_metrics); [reflexivity|].
  destruct (Rltb (Rabs (std RR (map trans obs))) gen_EPS_metrics); [reflexivity|].
  destruct (Rltb gen_EPS_metrics (Rabs (std RR (map trans sim)))); [|reflexivity].
  cbn [sout_of]. rewrite sq3_eq. reflexivity.
Qed.

Lemma pygen_kge obs sim trans :
  kge RR gen_EPS_metrics trans false obs sim =
  if Nat.eqb (length obs) (length sim)
  then sout_of (gen_kge (mean RR) (std RR) (pearson RR) obs sim trans) else SErr.
Proof. unfold kge. now rewrite with_excl_false, pygen_kge_core. Qed.

(* ------------------------------------------------------------------ *)
(* binary                                                               *)

(* the four cells are returned as they are (no counterpart in [bscores]) *)
Lemma pygen_binary_cells tn fp fn tp :
  gen_binary_truepos tn fp fn tp = tp /\ gen_binary_falsepos tn fp fn tp = fp /\
  gen_binary_trueneg tn fp fn tp = tn /\ gen_binary_falseneg tn fp fn tp = fn.
Proof. repeat split. Qed.

Lemma pygen_binary_hitrate tn fp fn tp :
  gen_binary_hitrate tn fp fn tp = hit_rate RR fn tp.
Proof. reflexivity. Qed.

Lemma pygen_binary_falsealarm tn fp fn tp :
  gen_binary_falsealarm tn fp fn tp = false_alarm RR tn fp.
Proof. reflexivity. Qed.

Lemma pygen_binary_MCC tn fp fn tp :
  Some (gen_binary_MCC tn fp fn tp) = mcc_fix RR tn fp fn tp.
Proof. reflexivity. Qed.

Lemma pygen_binary_LOR tn fp fn tp :
  gen_binary_LOR tn fp fn tp =
  let H := hit_rate RR fn tp in let F := false_alarm RR tn fp in
  let theta := odds_theta RR H F in
  if guard_ok RR LOR_GUARD H F theta then Some (ln theta) else None.
Proof.
  unfold gen_binary_LOR, guard_ok, LOR_GUARD, hit_rate, false_alarm, odds_theta, zf.
  cbv zeta. cbn [forallb gcmp]. rr_ops.
  rewrite andb_true_r, !andb_assoc. reflexivity.
Qed.

Lemma pygen_binary_ORSS tn fp fn tp :
  gen_binary_ORSS tn fp fn tp =
  let H := hit_rate RR fn tp in let F := false_alarm RR tn fp in
  let theta := odds_theta RR H F in
  if guard_ok RR ORSS_GUARD H F theta then Some ((theta - 1) / (theta + 1)) else None.
Proof.
  unfold gen_binary_ORSS, guard_ok, ORSS_GUARD, hit_rate, false_alarm, odds_theta, zf.
  cbv zeta. cbn [forallb gcmp]. rr_ops.
  rewrite andb_true_r. reflexivity.
Qed.

Lemma pygen_binary_EDS tn fp fn tp :
  gen_binary_EDS tn fp fn tp =
  let nval := ((tp + fn) + (tn + fp))%Z in
  if (0 <? tp)%Z
  then Some ((IZR 2 * ln (IZR (tp + fn) / IZR nval)) / ln (IZR tp / IZR nval) - 1)
  else None.
Proof. reflexivity. Qed.

Lemma nan_of_if (b : bool) x :
  nan_of (if b then Some x else None) = if b then x else nnan RR.
Proof. destruct b; reflexivity. Qed.

Definition gen_binary_scores (tn fp fn tp : Z) : @bscores R :=
  {| b_bias := gen_binary_bias tn fp fn tp;
     b_hit := gen_binary_hitrate tn fp fn tp;
     b_prec := gen_binary_precision tn fp fn tp;
     b_fa := gen_binary_falsealarm tn fp fn tp;
     b_acc := gen_binary_accuracy tn fp fn tp;
     b_f1 := gen_binary_F1 tn fp fn tp;
     b_mcc := gen_binary_MCC tn fp fn tp;
     b_lor := nan_of (gen_binary_LOR tn fp fn tp);
     b_orss := nan_of (gen_binary_ORSS tn fp fn tp);
     b_eds := nan_of (gen_binary_EDS tn fp fn tp) |}.

(* the model raises (BErr) exactly when TP > 0 and TP = nval: math.log(TP/nval) = 0.0
   and the float division raises ZeroDivisionError - an exception the translator
   does not represent (it maps only `raise` statements and np.nan to None) *)
Definition binary_eds_raises (tn fp fn tp : Z) : bool :=
  ((0 <? tp) && (tp =? (tp + fn) + (tn + fp)))%Z.

Lemma pygen_binary tn fp fn tp :
  binary RR ln tn fp fn tp =
  if binary_eds_raises tn fp fn tp then BErr else BOk (gen_binary_scores tn fp fn tp).
Proof.
  unfold binary, binary_gen, binary_eds_raises, gen_binary_scores.
  rewrite <- pygen_binary_MCC. cbv zeta.
  destruct ((0 <? tp)%Z && (tp =? tp + fn + (tn + fp))%Z); [reflexivity|].
  rewrite pygen_binary_LOR, pygen_binary_ORSS, pygen_binary_EDS. cbv zeta.
  rewrite !nan_of_if. unfold orss_of. reflexivity.
Qed.

(* the same over RN (option R, None plays NaN): the three outputs that may be NaN are
   EQUAL, as options, to the generated definitions - None is exactly np.nan *)
Definition gen_binary_scores_N (tn fp fn tp : Z) : @bscores (option R) :=
  {| b_bias := Some (gen_binary_bias tn fp fn tp);
     b_hit := Some (gen_binary_hitrate tn fp fn tp);
     b_prec := Some (gen_binary_precision tn fp fn tp);
     b_fa := Some (gen_binary_falsealarm tn fp fn tp);
     b_acc := Some (gen_binary_accuracy tn fp fn tp);
     b_f1 := Some (gen_binary_F1 tn fp fn tp);
     b_mcc := Some (gen_binary_MCC tn fp fn tp);
     b_lor := gen_binary_LOR tn fp fn tp;
     b_orss := gen_binary_ORSS tn fp fn tp;
     b_eds := gen_binary_EDS tn fp fn tp |}.

Lemma pygen_binary_RN tn fp fn tp :
  binary RN lnN tn fp fn tp =
  if binary_eds_raises tn fp fn tp then BErr else BOk (gen_binary_scores_N tn fp fn tp).
Proof.
  unfold binary, binary_gen, binary_eds_raises, gen_binary_scores_N, mcc_fix, orss_of,
    hit_rate, false_alarm, odds_theta, zf, guard_ok, LOR_GUARD, ORSS_GUARD, lnN.
  cbv zeta. cbn [forallb gcmp].
  cbn [n0 n1 nadd nsub nmul ndiv nopp nltb nleb neqb nsqrt nabs nnan nofZ RN olift1 olift2 ocmp].
  destruct ((0 <? tp)%Z && (tp =? tp + fn + (tn + fp))%Z); [reflexivity|].
  rewrite !andb_true_r, !andb_assoc. reflexivity.
Qed.

(* ------------------------------------------------------------------ *)
(* sutils.ppos : the generated definition is ONE element of the array    *)
(* (np.arange(1, nval+1) - cst)/(nval+1-2*cst); nval and the index are    *)
(* integers of the model, injected by IZR                               *)

Lemma qc_0_1 : qc RR PPOS_CST_MIN_NUM PPOS_CST_MIN_DEN = 0.
Proof. unfold qc, PPOS_CST_MIN_NUM, PPOS_CST_MIN_DEN. rr_ops. lra. Qed.

Lemma qc_1_2 : qc RR PPOS_CST_MAX_NUM PPOS_CST_MAX_DEN = 1 / 2.
Proof. reflexivity. Qed.

Lemma pygen_ppos_guard cst :
  ppos_cst_ok RR cst = negb (Rltb cst 0 || Rltb (1 / 2) cst).
Proof. unfold ppos_cst_ok. rr_ops. now rewrite qc_0_1, qc_1_2. Qed.

Lemma pygen_ppos_at n cst i :
  ppos_at RR n cst i = (IZR i - cst) / ((IZR n + 1) - 2 * cst).
Proof. unfold ppos_at, ppos_den. rr_ops. now rewrite plus_IZR. Qed.

Lemma pygen_ppos_elt n cst i :
  gen_ppos (IZR n) cst (IZR i) =
  if ppos_cst_ok RR cst then Some (ppos_at RR n cst i) else None.
Proof.
  rewrite pygen_ppos_guard, pygen_ppos_at. unfold gen_ppos.
  destruct (Rltb cst 0 || Rltb (1 / 2) cst); reflexivity.
Qed.

Lemma opt_all_map_some {A B} (f : A -> B) l : opt_all (map (fun a => Some (f a)) l) = Some (map f l).
Proof. induction l as [|a l IH]; cbn [map opt_all]; [reflexivity|]. now rewrite IH. Qed.

Lemma pygen_ppos n cst :
  ppos RR n cst =
  if ppos_cst_ok RR cst
  then opt_all (map (fun i => gen_ppos (IZR n) cst (IZR i)) (Summary.zseq 1 (Z.to_nat n)))
  else None.
Proof.
  unfold ppos. destruct (ppos_cst_ok RR cst) eqn:E; [|reflexivity].
  rewrite <- opt_all_map_some. f_equal. apply map_ext. intros i.
  now rewrite pygen_ppos_elt, E.
Qed.

(* for a non-empty array the guard can be read off the elements themselves *)
Lemma pygen_ppos_pos n cst : (0 < n)%Z ->
  ppos RR n cst =
  opt_all (map (fun i => gen_ppos (IZR n) cst (IZR i)) (Summary.zseq 1 (Z.to_nat n))).
Proof.
  intros Hn. rewrite pygen_ppos. destruct (ppos_cst_ok RR cst) eqn:E; [reflexivity|].
  destruct (Z.to_nat n) as [|k] eqn:Ek; [lia|].
  cbn [Summary.zseq map opt_all]. now rewrite pygen_ppos_elt, E.
Qed.

(* ------------------------------------------------------------------ *)
(* boxplot.compute_percentiles                                          *)

Lemma pygen_compute_percentiles coverage :
  compute_percentiles RR coverage =
  (gen_compute_percentiles_0 coverage, gen_compute_percentiles_1 coverage).
Proof.
  unfold compute_percentiles, gen_compute_percentiles_0, gen_compute_percentiles_1, qc,
    PCT_TOTAL_NUM, PCT_TOTAL_DEN, PCT_HALVE_NUM, PCT_HALVE_DEN, PCT_COMPL_NUM, PCT_COMPL_DEN.
  rr_ops. cbv zeta.
  assert (E : (100 / 1 - coverage) / (2 / 1) = (100 - coverage) / 2) by lra.
  rewrite E. replace (100 / 1) with 100 by lra. reflexivity.
Qed.

(* ------------------------------------------------------------------ *)
(* hyruns.get_batch : the argument checks                               *)

Lemma pygen_get_batch_ok n k i :
  gen_get_batch_ok n k i = match get_batch n k i with Some _ => true | None => false end.
Proof.
  unfold gen_get_batch_ok, get_batch.
  destruct (n <? 1)%Z; [reflexivity|]. destruct (n <? k)%Z; [reflexivity|].
  destruct ((i <? 0)%Z || (k <=? i)%Z); reflexivity.
Qed.

Lemma pygen_get_batch n k i :
  get_batch n k i =
  if gen_get_batch_ok n k i
  then Some (Hyruns.zseq (batch_start n k i) (Z.to_nat (batch_size n k i))) else None.
Proof.
  unfold gen_get_batch_ok, get_batch.
  destruct (n <? 1)%Z; [reflexivity|]. destruct (n <? k)%Z; [reflexivity|].
  destruct ((i <? 0)%Z || (k <=? i)%Z); reflexivity.
Qed.

(* ================================================================== *)
(* COROLLARIES: property theorems of C04 / C19 / C20 restated about the  *)
(* GENERATED definitions                                                *)

(* ---- nse : equals its textbook definition for ALL arguments ---- *)
Lemma pycor_nse_definition obs sim trans :
  gen_nse (np_sum RR) (mean RR) obs sim trans =
  1 - SE (map trans obs) (map trans sim) / SS (map trans obs).
Proof.
  pose proof (pygen_nse_core obs sim trans) as H. rewrite nse_core_R in H.
  injection H as H. symmetry. exact H.
Qed.

Lemma pycor_nse_perfect obs trans :
  0 < SS (map trans obs) -> gen_nse (np_sum RR) (mean RR) obs obs trans = 1.
Proof.
  intros Hs. rewrite pycor_nse_definition. apply (nseR_perfect (map trans obs)). lra.
Qed.

Lemma pycor_nse_mean_simulation obs sim trans :
  0 < SS (map trans obs) ->
  map trans sim = map (fun _ => meanR (map trans obs)) (map trans obs) ->
  gen_nse (np_sum RR) (mean RR) obs sim trans = 0.
Proof.
  intros Hs E. rewrite pycor_nse_definition, E. apply (nseR_mean (map trans obs)). lra.
Qed.

Lemma pycor_nse_le_1 obs sim trans :
  0 < SS (map trans obs) -> gen_nse (np_sum RR) (mean RR) obs sim trans <= 1.
Proof. intros Hs. rewrite pycor_nse_definition. now apply nseR_le_1. Qed.

(* ---- bias : guards and values in terms of the code's own constant ---- *)
Lemma pycor_bias_nan obs sim trans :
  Rabs (meanR (map trans obs)) < gen_EPS_metrics ->
  gen_bias_standard (mean RR) obs sim trans = None /\
  gen_bias_normalised (mean RR) obs sim trans = None /\
  gen_bias_log (mean RR) obs sim trans = None.
Proof.
  intros H. apply Rltb_true in H.
  unfold gen_bias_standard, gen_bias_normalised, gen_bias_log. cbv zeta.
  change (fun v_ : R => trans v_) with trans.
  rewrite !mean_R, H. repeat split.
Qed.

Lemma pycor_bias_definition obs sim trans :
  gen_EPS_metrics <= Rabs (meanR (map trans obs)) ->
  let o := map trans obs in let s := map trans sim in
  gen_bias_standard (mean RR) obs sim trans = Some ((meanR s - meanR o) / meanR o) /\
  gen_bias_normalised (mean RR) obs sim trans = Some ((meanR s - meanR o) / (meanR s + meanR o)) /\
  (gen_EPS_metrics < meanR s -> gen_EPS_metrics < meanR o ->
   gen_bias_log (mean RR) obs sim trans = Some (ln (meanR s) - ln (meanR o))) /\
  (meanR s <= gen_EPS_metrics \/ meanR o <= gen_EPS_metrics ->
   gen_bias_log (mean RR) obs sim trans = None).
Proof.
  intros H o s. apply Rltb_false in H.
  unfold gen_bias_standard, gen_bias_normalised, gen_bias_log. cbv zeta.
  change (fun v_ : R => trans v_) with trans.
  rewrite !mean_R, H. fold o s. repeat split.
  - intros H1 H2. apply Rltb_true in H1, H2. now rewrite H1, H2.
  - intros [H1|H1]; apply Rltb_false in H1; rewrite H1; [reflexivity|].
    now rewrite andb_false_r.
Qed.

Lemma pycor_bias_perfect obs trans :
  gen_EPS_metrics <= Rabs (meanR (map trans obs)) ->
  gen_bias_standard (mean RR) obs obs trans = Some 0 /\
  gen_bias_normalised (mean RR) obs obs trans = Some 0 /\
  (gen_EPS_metrics < meanR (map trans obs) -> gen_bias_log (mean RR) obs obs trans = Some 0).
Proof.
  intros H. destruct (pycor_bias_definition obs obs trans H) as (H1 & H2 & H3 & _).
  cbv zeta in H1, H2, H3. split; [|split].
  - rewrite H1. f_equal. unfold Rdiv. ring.
  - rewrite H2. f_equal. unfold Rdiv. ring.
  - intros Hm. rewrite (H3 Hm Hm). f_equal. ring.
Qed.

(* ---- kge ---- *)
Definition gen_kge_defined (o s : list R) : Prop :=
  gen_EPS_metrics <= Rabs (meanR o) /\ gen_EPS_metrics <= sdR o /\ gen_EPS_metrics < sdR s.

Lemma gen_kge_defined_model o s : gen_kge_defined o s -> kge_defined o s.
Proof.
  intros (H1 & H2 & H3). pose proof gen_EPS_metrics_is_C04.
  unfold kge_defined. repeat split; lra.
Qed.

Lemma pycor_kge_definition obs sim trans :
  length obs = length sim ->
  gen_kge_defined (map trans obs) (map trans sim) ->
  gen_kge (mean RR) (std RR) (pearson RR) obs sim trans =
  Some (kgeR (map trans obs) (map trans sim)).
Proof.
  intros Hl (Hm & Ho & Hs). pose proof gen_EPS_metrics_pos as He.
  unfold gen_kge. cbv zeta. change (fun v_ : R => trans v_) with trans.
  rewrite !mean_R, !std_R.
  rewrite (Rabs_pos_eq (sdR (map trans obs))) by apply sdR_nonneg.
  rewrite (Rabs_pos_eq (sdR (map trans sim))) by apply sdR_nonneg.
  apply Rltb_false in Hm, Ho. rewrite Hm, Ho. apply Rltb_false in Ho.
  apply Rltb_true in Hs. rewrite Hs. apply Rltb_true in Hs.
  rewrite pearson_R; [| now rewrite !map_length | apply sdR_pos_SS; lra | apply sdR_pos_SS; lra].
  unfold kgeR. rewrite sq3_eq. reflexivity.
Qed.

Lemma pycor_kge_nan obs sim trans :
  Rabs (meanR (map trans obs)) < gen_EPS_metrics \/ sdR (map trans obs) < gen_EPS_metrics \/
  sdR (map trans sim) <= gen_EPS_metrics ->
  gen_kge (mean RR) (std RR) (pearson RR) obs sim trans = None.
Proof.
  intros H. unfold gen_kge. cbv zeta. change (fun v_ : R => trans v_) with trans.
  rewrite !mean_R, !std_R.
  rewrite (Rabs_pos_eq (sdR (map trans obs))) by apply sdR_nonneg.
  rewrite (Rabs_pos_eq (sdR (map trans sim))) by apply sdR_nonneg.
  destruct (Rltb (Rabs (meanR (map trans obs))) gen_EPS_metrics) eqn:E1; [reflexivity|].
  destruct (Rltb (sdR (map trans obs)) gen_EPS_metrics) eqn:E2; [reflexivity|].
  destruct (Rltb gen_EPS_metrics (sdR (map trans sim))) eqn:E3; [|reflexivity].
  apply Rltb_false in E1, E2. apply Rltb_true in E3. lra.
Qed.

Lemma pycor_kge_perfect obs trans :
  gen_kge_defined (map trans obs) (map trans obs) ->
  gen_kge (mean RR) (std RR) (pearson RR) obs obs trans = Some 1.
Proof.
  intros Hd. rewrite pycor_kge_definition by auto.
  now rewrite kgeR_perfect by (apply gen_kge_defined_model; exact Hd).
Qed.

Lemma pycor_kge_le_1 obs sim trans :
  length obs = length sim -> gen_kge_defined (map trans obs) (map trans sim) ->
  exists v, gen_kge (mean RR) (std RR) (pearson RR) obs sim trans = Some v /\ v <= 1.
Proof.
  intros Hl Hd. eexists. split; [now apply pycor_kge_definition | apply kgeR_le_1].
Qed.

(* non-vacuity: the example series of C04 meet the generated guards *)
Lemma pycor_continuous_nonvacuous :
  gen_kge_defined ex_obs ex_sim /\ gen_kge_defined ex_obs ex_obs /\
  gen_EPS_metrics < meanR ex_obs /\ 0 < SS ex_obs.
Proof.
  pose proof ex_sd_obs. pose proof ex_sd_sim.
  assert (Hg : gen_EPS_metrics < 1) by (unfold gen_EPS_metrics; lra).
  unfold gen_kge_defined. rewrite ex_mean_obs.
  rewrite Rabs_pos_eq by lra. repeat split; try lra. apply ex_SS_pos.
Qed.

(* ---- binary: every table with four positive counts ---- *)
Lemma pycor_binary_fields tn fp fn tp :
  (0 < tn)%Z -> (0 < fp)%Z -> (0 < fn)%Z -> (0 < tp)%Z ->
  let a := IZR tp in let b := IZR fp in let c := IZR fn in let d := IZR tn in
  gen_binary_hitrate tn fp fn tp = a / (a + c) /\
  gen_binary_falsealarm tn fp fn tp = b / (d + b) /\
  gen_binary_precision tn fp fn tp = a / (a + b) /\
  gen_binary_accuracy tn fp fn tp = (a + d) / (a + c + (d + b)) /\
  gen_binary_bias tn fp fn tp = (a + b) / (a + c) /\
  gen_binary_F1 tn fp fn tp = (2 * a) / (2 * a + b + c) /\
  gen_binary_MCC tn fp fn tp = (a * d - b * c) / sqrt ((a + b) * (a + c) * (d + b) * (d + c)) /\
  gen_binary_LOR tn fp fn tp = Some (ln ((a * d) / (b * c))) /\
  gen_binary_ORSS tn fp fn tp = Some ((a * d - b * c) / (a * d + b * c)).
Proof.
  intros Htn Hfp Hfn Htp a b c d.
  pose proof (binary_R tn fp fn tp Htn Hfp Hfn Htp) as HB.
  rewrite pygen_binary in HB.
  destruct (binary_eds_raises tn fp fn tp); [discriminate|].
  injection HB as Hbias Hhit Hprec Hfa Hacc Hf1 Hmcc Hlor Horss Heds.
  assert (EL : gen_binary_LOR tn fp fn tp = Some (ln ((a * d) / (b * c)))).
  { rewrite pygen_binary_LOR. cbv zeta.
    rewrite (lor_guard_ok tn fp fn tp Htn Hfp Hfn Htp), (theta_R tn fp fn tp Htn Hfp Hfn Htp).
    reflexivity. }
  assert (EO : exists x, gen_binary_ORSS tn fp fn tp = Some x).
  { rewrite pygen_binary_ORSS. cbv zeta.
    rewrite (orss_guard_ok tn fp fn tp Htn Hfp Hfn Htp). eexists. reflexivity. }
  destruct EO as [x EO]. rewrite EO in Horss. cbn [nan_of] in Horss.
  repeat split; try assumption. now rewrite EO, Horss.
Qed.

Lemma pycor_binary_ranges tn fp fn tp :
  (0 < tn)%Z -> (0 < fp)%Z -> (0 < fn)%Z -> (0 < tp)%Z ->
  0 < gen_binary_hitrate tn fp fn tp < 1 /\ 0 < gen_binary_falsealarm tn fp fn tp < 1 /\
  0 < gen_binary_precision tn fp fn tp < 1 /\ 0 < gen_binary_accuracy tn fp fn tp < 1 /\
  0 < gen_binary_F1 tn fp fn tp < 1 /\
  gen_binary_MCC tn fp fn tp * gen_binary_MCC tn fp fn tp <= 1 /\
  exists v, gen_binary_ORSS tn fp fn tp = Some v /\ -1 < v < 1.
Proof.
  intros Htn Hfp Hfn Htp.
  destruct (pycor_binary_fields tn fp fn tp Htn Hfp Hfn Htp)
    as (E1 & E2 & E3 & E4 & _ & E6 & E7 & _ & E9).
  destruct (rates_unit tn fp fn tp Htn Hfp Hfn Htp) as (H1 & H2 & H3 & H4 & H5).
  pose proof (mcc_square_le_1 tn fp fn tp Htn Hfp Hfn Htp) as H6.
  pose proof (orss_unit tn fp fn tp Htn Hfp Hfn Htp) as H7.
  cbn [b_hit b_fa b_prec b_acc b_f1 b_mcc b_orss bin_expected] in H1, H2, H3, H4, H5, H6, H7.
  rewrite E1, E2, E3, E4, E6, E7.
  repeat split; try tauto. eexists. split; [exact E9 | exact H7].
Qed.

(* ---- ppos ---- *)
Lemma pycor_ppos_array n cst l : 0 <= cst <= 1 / 2 ->
  opt_all (map (fun i => gen_ppos (IZR n) cst (IZR i)) (Summary.zseq 1 (Z.to_nat n))) = Some l ->
  length l = Z.to_nat n /\
  (forall k, (k < length l)%nat -> 0 < nth k l 0 < 1) /\
  (forall k k', (k < k' < length l)%nat -> nth k l 0 < nth k' l 0) /\
  (forall k, (k < length l)%nat -> nth k l 0 + nth (length l - 1 - k) l 0 = 1).
Proof.
  intros Hc E. apply (ppos_array n cst l Hc).
  rewrite pygen_ppos.
  assert (Hok : ppos_cst_ok RR cst = true).
  { rewrite pygen_ppos_guard.
    destruct (Rltb cst 0) eqn:E1; [apply Rltb_true in E1; lra|].
    destruct (Rltb (1 / 2) cst) eqn:E2; [apply Rltb_true in E2; lra|]. reflexivity. }
  now rewrite Hok.
Qed.

Lemma pycor_ppos_rejects n cst i : cst < 0 \/ 1 / 2 < cst -> gen_ppos n cst i = None.
Proof.
  intros H. unfold gen_ppos.
  destruct H as [H|H]; apply Rltb_true in H; rewrite H; [reflexivity|].
  now rewrite orb_true_r.
Qed.

(* ---- compute_percentiles: the two levels are symmetric about 50 and span the coverage ---- *)
Lemma pycor_percentiles_symmetric coverage :
  gen_compute_percentiles_0 coverage + gen_compute_percentiles_1 coverage = 100 /\
  gen_compute_percentiles_1 coverage - gen_compute_percentiles_0 coverage = coverage.
Proof. unfold gen_compute_percentiles_0, gen_compute_percentiles_1. cbv zeta. split; lra. Qed.

(* ---- get_batch ---- *)
Lemma pycor_get_batch_ok_spec n k i :
  gen_get_batch_ok n k i = true <-> (1 <= n /\ k <= n /\ 0 <= i < k)%Z.
Proof.
  unfold gen_get_batch_ok.
  destruct (n <? 1)%Z eqn:E1; [apply Z.ltb_lt in E1|apply Z.ltb_ge in E1].
  { split; [discriminate|lia]. }
  destruct (n <? k)%Z eqn:E2; [apply Z.ltb_lt in E2|apply Z.ltb_ge in E2].
  { split; [discriminate|lia]. }
  destruct (i <? 0)%Z eqn:E3; [apply Z.ltb_lt in E3|apply Z.ltb_ge in E3]; cbn [orb].
  { split; [discriminate|lia]. }
  destruct (k <=? i)%Z eqn:E4; [apply Z.leb_le in E4|apply Z.leb_gt in E4].
  { split; [discriminate|lia]. }
  split; [lia|reflexivity].
Qed.

(* ---- the one case where the model of [binary] and the generated EDS part ways:
   TP > 0 and no other cell (TP = nval).  The source evaluates
   2*math.log(1.0)/math.log(1.0) = 0.0/0.0 on Python floats: ZeroDivisionError, the
   model's BErr.  The translator has no exception for a float division: the generated
   definition is the (meaningless) real number 2*0/0 - 1 = -1. ---- *)
Lemma pygen_binary_EDS_division_case tp : (0 < tp)%Z ->
  binary_eds_raises 0 0 0 tp = true /\
  binary RR ln 0 0 0 tp = BErr /\
  gen_binary_EDS 0 0 0 tp = Some (-1).
Proof.
  intros H.
  assert (E : binary_eds_raises 0 0 0 tp = true).
  { unfold binary_eds_raises. apply andb_true_iff. split; [apply Z.ltb_lt; lia|apply Z.eqb_eq; lia]. }
  split; [exact E|]. split; [now rewrite pygen_binary, E|].
  rewrite pygen_binary_EDS. cbv zeta.
  assert (E1 : (0 <? tp)%Z = true) by (apply Z.ltb_lt; lia). rewrite E1.
  replace (tp + 0 + (0 + 0))%Z with tp by lia. replace (tp + 0)%Z with tp by lia.
  assert (Hp : IZR tp <> 0) by (apply not_0_IZR; lia).
  replace (IZR tp / IZR tp) with 1 by (field; exact Hp).
  rewrite ln_1. f_equal. unfold Rdiv. ring.
Qed.

(* conversely the model raises in no other case (for counts >= 0: exactly FN = TN = FP = 0) *)
Lemma binary_eds_raises_spec tn fp fn tp :
  (0 <= tn)%Z -> (0 <= fp)%Z -> (0 <= fn)%Z ->
  binary_eds_raises tn fp fn tp = true <-> (0 < tp /\ tn = 0 /\ fp = 0 /\ fn = 0)%Z.
Proof.
  intros H1 H2 H3. unfold binary_eds_raises. rewrite andb_true_iff, Z.ltb_lt, Z.eqb_eq. lia.
Qed.
