(* Overflow-checked refinement: the CHECKED MiniC program (Gen/KernelsAstChk.v, [program_chk]:
   every signed integer +, -, *, unary -, ++ of the C text wrapped in [IChk W32]) regenerated
   from src/hydrodiy/stat/c_crps.c (c_crps and its qsort comparator "c_crps.compare")
   computes, for ALL inputs whose sizes satisfy the three hypotheses below, what the
   hand-written model of Model/Crps.v computes: besides memory safety, no signed integer
   operation of the kernel overflows.  Adapted from Proofs/RefineCrps.v: the definitions that
   do not mention the program (the pure merge sort [ksort], [cmpz], the state [cr_state], the
   invariants [L2_inv]/[L2_post], [krows], [crps_with], [crps_args] ...) and the lemmas about
   them are IMPORTED from RefineCrps.v, so that the conclusions below are literally the
   conclusions of the unchecked theorems; every lemma about a statement of the program is
   re-proved here on the statements of [c_crps_chk_def].

   All counters of the kernel are C [int]s.  With nval = number of forecasts, ncol = number of
   ensemble members, the size hypotheses are (INT_MAX = 2147483647):
     (S1) nval <= INT_MAX               i++ of  for(i=0;i<nval;i++)  (nval is a C int)
     (S2) ncol*7 + 6 <= INT_MAX         reliability_table[j*ncol_rt+6] at j = ncol; it implies
                                        ncol+1 <= INT_MAX (malloc sizes, j<ncol+1, j++) and
                                        ncol-1 >= INT_MIN
     (S3) ncol*nval - 1 <= INT_MAX      sim[ncol*i+j] at i = nval-1, j = ncol-1
   (nothing else: the other integer expressions, j+1, ncol-1, k++, are bounded by these).

   PART 1  chk_compare_run          the comparator, for ALL doubles (the only checked
                                    operation is the unary minus of  return -1)
   PART 2  the inner loops on the checked statements (L1, L2a, L2b, L2c)
   PART 3  chk_L2_step / chk_L2_run, chk_L3_step / chk_L3_run (one iteration from the
           invariant, with the size hypothesis of THAT iteration only; then the loop)
   PART 4  chk_refine_c_crps_all    ALL inputs (NaN included): checked kernel = [crps_with]
           chk_refine_c_crps        no NaN in the ensembles: checked kernel = [crps]
           chk_refine_c_crps_ok     ... and it returns 0
           chk_refine_c_crps_RR / _RN   the instances over the reals
   PART 5  the size hypotheses are necessary (FINDINGS, all theoretical: buffers >= 16 GiB):
           overflow_c_crps_sim_index    ncol*K = 2^31, nval > K: ncol*i overflows at i = K
           overflow_c_crps_table_index  ncol*7+6 > INT_MAX: j*ncol_rt+2 overflows at j = 306783378
           overflow_c_crps_ncol_plus_1  ncol = INT_MAX: the malloc size ncol+1 overflows *)
From Coq Require Import ZArith Bool List String Lia Reals Arith PeanoNat.
From Coq Require Import PrimFloat.
From Hy Require Import Base.Num Base.MiniC Gen.ConstsC03 Gen.KernelsAstChk Model.Crps.
From Hy Require Import Proofs.RefineCrps.
Import ListNotations.
Open Scope string_scope.
Open Scope list_scope.
Open Scope Z_scope.

Lemma in_width_W32 v : in_width W32 v = true <-> -2147483648 <= v <= 2147483647.
Proof. unfold in_width. rewrite andb_true_iff, !Z.leb_le. reflexivity. Qed.

Lemma in_width_W64 v :
  in_width W64 v = true <-> -9223372036854775808 <= v <= 9223372036854775807.
Proof. unfold in_width. rewrite andb_true_iff, !Z.leb_le. reflexivity. Qed.

Section Compare.
Context {T : Type} (N : NumOps T) (X : NumLit T).

Lemma chk_compare_run n a b :
  exec_fun N X program_chk (S n) "c_crps.compare" [AVArrF [a]; AVArrF [b]]
  = Ok (RI (cmpz N a b), [VArrF [a]; VArrF [b]]).
Proof.
  unfold cmpz. cbn. rewrite truth_b2z.
  destruct (nltb N b a); cbn; [reflexivity|].
  rewrite truth_b2z. destruct (neqb N a b); cbn; [reflexivity|].
  rewrite truth_b2z. destruct (nltb N a b); cbn; reflexivity.
Qed.
End Compare.

(* keep the tests folded under cbn; [iw] rewrites them to [true] by [lia] from the context *)
#[local] Arguments in_width : simpl never.

Ltac iw1 :=
  match goal with
  | |- context[in_width W32 ?v] =>
      replace (in_width W32 v) with true by (symmetry; apply in_width_W32; lia)
  | |- context[in_width W64 ?v] =>
      replace (in_width W64 v) with true by (symmetry; apply in_width_W64; lia)
  end.
Ltac iw := repeat iw1.

#[local] Arguments hml : simpl never.
#[local] Arguments qsort_list : simpl never.
#[local] Arguments fold_left : simpl never.
#[local] Arguments repeat : simpl never.

Section Refine.
Context {T : Type} (N : NumOps T) (X : NumLit T).

(* ---- the statements of the checked kernel ---- *)
Definition crps_body_k : stmt := Eval cbv in fun_body c_crps_chk_def.
Definition L1k : stmt := Eval cbv in seq_nth 21 crps_body_k.   (* for(j<ncol+1) a=b=g=o=0 *)
Definition L2k : stmt := Eval cbv in seq_nth 23 crps_body_k.   (* for(i<nval) *)
Definition L3k : stmt := Eval cbv in seq_nth 27 crps_body_k.   (* for(j<ncol+1) table *)
Definition L2ak : stmt := Eval cbv in seq_nth 1 (for_b L2k).  (* ensemb[j] = sim[ncol*i+j] *)
Definition L2bk : stmt := Eval cbv in seq_nth 6 (for_b L2k).  (* bins *)
Definition L2ck : stmt := Eval cbv in seq_nth 12 (for_b L2k). (* uncertainty *)

(* ---- loop 1: for(j=0;j<ncol+1;j++) a[j]=b[j]=g[j]=o[j]=0 ---- *)
Lemma chk_L1_run (callf : callee T) n nval (m : nat) uw isrt i k w wk pot pj unc dobs
      obs sim wv rt dec ens r c :
  nofZ N 0 = n0 N -> Z.of_nat m + 1 <= 2147483647 -> (S m < n)%nat ->
  let z := repeat (n0 N) (S m) in
  run_for N X callf n L1k
    (cr_state nval (Z.of_nat m) uw isrt i 0 k w wk pot pj unc dobs obs sim wv rt dec ens z z z z r c)
  = Ok (ONormal,
        cr_state nval (Z.of_nat m) uw isrt i (Z.of_nat (S m)) k w wk pot pj unc dobs
                 obs sim wv rt dec ens z z z z r c).
Proof.
  intros HZ Hw Hn z. unfold run_for, L1k. cbn [for_c for_b for_s].
  apply (loop_rule_eq
           (fun j st => (j <= S m)%nat /\
              st = cr_state nval (Z.of_nat m) uw isrt i (Z.of_nat j) k w wk pot pj unc dobs
                            obs sim wv rt dec ens z z z z r c) _ (S m)).
  - intros j st (Hj & ->). split; [exact Hj|].
    unfold cr_state. cbn. iw. cbn.
    destruct (Z.ltb_spec (Z.of_nat j) (Z.of_nat m + 1)) as [Hlt|Hge]; cbn.
    + rewrite HZ. subst z. rewrite !zset_repeat_same by lia. cbn.
      rewrite !zset_repeat_same by lia. cbn. rewrite !zset_repeat_same by lia. cbn.
      rewrite !zset_repeat_same by lia. cbn. iw. cbn.
      split; [lia|]. norm_state. unfold cr_state.
      replace (Z.of_nat j + 1) with (Z.of_nat (S j)) by lia. reflexivity.
    + replace j with (S m) by lia. reflexivity.
  - split; [lia|reflexivity].
  - lia.
Qed.

(* ---- loop 2a: for(j=0;j<ncol;j++) ensemb[j] = sim[ncol*i+j] ---- *)
Lemma chk_L2a_run (callf : callee T) n nval (m : nat) uw isrt i k w wk pot pj unc dobs
      obs sim wv rt dec a b g o r c simd e simt eold rest :
  sim = simd ++ e ++ simt -> Z.of_nat (List.length simd) = Z.of_nat m * i ->
  List.length e = m -> List.length eold = m -> (m < n)%nat ->
  0 <= i -> Z.of_nat m <= 2147483647 -> Z.of_nat m * i + Z.of_nat m - 1 <= 2147483647 ->
  run_for N X callf n L2ak
    (cr_state nval (Z.of_nat m) uw isrt i 0 k w wk pot pj unc dobs obs sim wv rt dec
              (eold ++ rest) a b g o r c)
  = Ok (ONormal,
        cr_state nval (Z.of_nat m) uw isrt i (Z.of_nat m) k w wk pot pj unc dobs obs sim wv rt dec
                 (e ++ rest) a b g o r c).
Proof.
  intros Hsim Hsd He Heo Hn Hi0 Hmw Hw. unfold run_for, L2ak. cbn [for_c for_b for_s].
  apply (loop_rule_eq
           (fun j st => exists ed et, e = ed ++ et /\ List.length ed = j /\
              st = cr_state nval (Z.of_nat m) uw isrt i (Z.of_nat j) k w wk pot pj unc dobs
                            obs sim wv rt dec (ed ++ skipn j eold ++ rest) a b g o r c) _ m).
  - intros j st (ed & et & Hed & Hj & ->).
    assert (Hm : m = (j + List.length et)%nat) by (rewrite <- He, Hed, app_length; lia).
    split; [lia|].
    destruct et as [|x et].
    + rewrite app_nil_r in Hed. subst ed. cbn in Hm.
      unfold cr_state. cbn. replace (Z.of_nat j <? Z.of_nat m) with false by (symmetry; apply Z.ltb_ge; lia).
      rewrite skipn_all2 by lia. replace j with m by lia. reflexivity.
    + cbn in Hm.
      assert (Hg : zget sim (Z.of_nat m * i + Z.of_nat j) = Some x).
      { rewrite Hsim, Hed. rewrite (zget_app_off simd _ _ (Z.of_nat j)) by lia.
        rewrite zget_app_l by (rewrite app_length; cbn; lia). apply zget_app. lia. }
      destruct (skipn_cons_nth eold j) as (y & Hy); [lia|]. rewrite Hy.
      assert (Hmi : 0 <= Z.of_nat m * i) by (apply Z.mul_nonneg_nonneg; lia).
      unfold cr_state. cbn. replace (Z.of_nat j <? Z.of_nat m) with true by (symmetry; apply Z.ltb_lt; lia).
      cbn. iw. cbn. iw. cbn. rewrite Hg. cbn. rewrite zset_app by lia. cbn. iw. cbn.
      exists (ed ++ [x]), et. split; [rewrite <- app_assoc; exact Hed|].
      split; [rewrite app_length; cbn; lia|].
      norm_state. unfold cr_state. rewrite <- app_assoc. cbn [app].
      replace (Z.of_nat j + 1) with (Z.of_nat (S j)) by lia. reflexivity.
  - exists [], e. repeat split.
  - lia.
Qed.

(* ---- loop 2c: for(k=0;k<i;k++) uncertainty += weight*weight_k*fabs(obs[k]-obs[i]) ---- *)
Lemma chk_L2c_run (callf : callee T) n nval ncol uw isrt i j wk pot pj unc dobs
      obs sim wv rt dec ens a b g o r c seen y obst :
  nofZ N 1 = n1 N -> uw <> 1 ->
  obs = seen ++ y :: obst -> i = Z.of_nat (List.length seen) -> (List.length seen < n)%nat ->
  i <= 2147483647 ->
  let w := ndiv N (n1 N) (nofZ N nval) in
  exists wk' dobs',
  run_for N X callf n L2ck
    (cr_state nval ncol uw isrt i j 0 w wk pot pj unc dobs
              obs sim wv rt dec ens a b g o r c)
  = Ok (ONormal,
        cr_state nval ncol uw isrt i j i
                 w wk' pot pj (unc_row N w y seen unc) dobs'
                 obs sim wv rt dec ens a b g o r c).
Proof.
  intros H1 Huw Hobs Hi Hn Hiw w. subst i. unfold run_for, L2ck. cbn [for_c for_b for_s].
  set (f := fun u yk => nadd N u (nmul N (nmul N w w) (nabs N (nsub N yk y)))).
  assert (HL : exists r0,
    loop n (cond_of N X (ICmp CLt (IVar "k") (IVar "i")))
      (for_body
         (exec N X callf n (for_b L2ck))
         (exec N X callf n (for_s L2ck)))
      (cr_state nval ncol uw isrt (Z.of_nat (List.length seen)) j 0 w wk pot pj unc dobs
              obs sim wv rt dec ens a b g o r c) = Ok r0 /\
    (fun r1 => exists wk' dobs', r1 = (ONormal,
        cr_state nval ncol uw isrt (Z.of_nat (List.length seen)) j (Z.of_nat (List.length seen))
                 w wk' pot pj (fold_left f seen unc) dobs'
                 obs sim wv rt dec ens a b g o r c)) r0).
  { apply (loop_rule
           (fun kk st => exists sd stl wk' dobs', seen = sd ++ stl /\ List.length sd = kk /\
              st = cr_state nval ncol uw isrt (Z.of_nat (List.length seen)) j (Z.of_nat kk)
                            w wk' pot pj (fold_left f sd unc) dobs'
                            obs sim wv rt dec ens a b g o r c) _ (List.length seen)) with (k := O).
    - intros kk st (sd & stl & wk' & dobs' & Hs & Hk & ->).
      assert (Hl : List.length seen = (kk + List.length stl)%nat) by (rewrite Hs, app_length; lia).
      split; [lia|].
      destruct stl as [|yk stl].
      + rewrite app_nil_r in Hs. subst sd. cbn in Hl.
        unfold cr_state. cbn.
        replace (Z.of_nat kk <? Z.of_nat (List.length seen)) with false by (symmetry; apply Z.ltb_ge; lia).
        exists wk', dobs'. replace kk with (List.length seen) by lia. reflexivity.
      + cbn in Hl.
        assert (Hgk : zget obs (Z.of_nat kk) = Some yk).
        { rewrite Hobs, Hs, <- app_assoc. cbn [app]. apply zget_app. lia. }
        assert (Hgi : zget obs (Z.of_nat (List.length seen)) = Some y).
        { rewrite Hobs. apply zget_app. reflexivity. }
        unfold cr_state, L2ck. cbn.
        replace (Z.of_nat kk <? Z.of_nat (List.length seen)) with true by (symmetry; apply Z.ltb_lt; lia).
        cbn. rewrite Hgk. cbn. rewrite Hgi. cbn.
        replace (uw =? 1) with false by (symmetry; apply Z.eqb_neq; exact Huw). cbn. iw. cbn.
        exists (sd ++ [yk]), stl, (ndiv N (nofZ N 1) (nofZ N nval)), (nabs N (nsub N yk y)).
        split; [rewrite <- app_assoc; exact Hs|].
        split; [rewrite app_length; cbn; lia|].
        norm_state. unfold cr_state. rewrite fold_left_app. cbn [fold_left].
        replace (Z.of_nat kk + 1) with (Z.of_nat (S kk)) by lia.
        unfold f at 2. rewrite H1. reflexivity.
    - exists [], seen, wk, dobs. repeat split.
    - lia. }
  destruct HL as (r0 & Hr0 & wk' & dobs' & ->). exists wk', dobs'. exact Hr0.
Qed.

(* ---- loop 2b: the interior bins, with the EDOM return ---- *)

#[local] Arguments bins_upd : simpl never.
#[local] Arguments bin_upd : simpl never.
#[local] Arguments unsorted : simpl never.

Lemma chk_L2b_run (callf : callee T) n nval (m : nat) uw isrt i k w wk pot pj unc dobs
      obs sim wv rt dec rest g o r c obsd y obst e ab Ah At Bh Bt :
  obs = obsd ++ y :: obst -> i = Z.of_nat (List.length obsd) ->
  List.length e = m -> S (List.length ab) = m ->
  List.length Ah = 1%nat -> List.length Bh = 1%nat -> (m < n)%nat ->
  Z.of_nat m <= 2147483647 ->
  exists r0,
  run_for N X callf n L2bk
    (cr_state nval (Z.of_nat m) uw isrt i 0 k w wk pot pj unc dobs
              obs sim wv rt dec (e ++ rest)
              (Ah ++ map fst ab ++ At) (Bh ++ map snd ab ++ Bt) g o r c) = Ok r0
  /\ L2b_post N nval m uw isrt i k w wk pot pj unc dobs obs sim wv rt dec
              (e ++ rest) g o r c y e ab Ah At Bh Bt r0.
Proof.
  intros Hobs Hi He Hab HAh HBh Hn Hmw. subst i. unfold run_for, L2bk. cbn [for_c for_b for_s].
  apply (loop_rule
    (fun jj st => exists ed et abd abt,
       e = ed ++ et /\ List.length ed = jj /\ List.length abd = jj /\
       S (List.length abt) = List.length et /\
       bins_upd N y w e ab = abd ++ bins_upd N y w et abt /\
       unsorted N e = unsorted N et /\
       st = cr_state nval (Z.of_nat m) uw isrt (Z.of_nat (List.length obsd)) (Z.of_nat jj) k
                     w wk pot pj unc dobs obs sim wv rt dec (e ++ rest)
                     ((Ah ++ map fst abd) ++ map fst abt ++ At)
                     ((Bh ++ map snd abd) ++ map snd abt ++ Bt) g o r c)
    _ m) with (k := O).
  - intros jj st (ed & et & abd & abt & Hed & Hjj & Habd & Hlen & Hbins & Huns & ->).
    assert (Hm : m = (jj + List.length et)%nat) by (rewrite <- He, Hed, app_length; lia).
    split; [lia|].
    assert (Hgo : zget obs (Z.of_nat (List.length obsd)) = Some y).
    { rewrite Hobs. apply zget_app. reflexivity. }
    destruct et as [|ej et]; [cbn in Hlen; lia|].
    destruct et as [|ej1 et].
    + (* j = ncol-1: end of the loop *)
      destruct abt; [|cbn in Hlen; lia]. cbn in Hm.
      rewrite bins_upd_one, app_nil_r in Hbins.
      unfold cr_state. cbn. iw. cbn.
      replace (Z.of_nat jj <? Z.of_nat m - 1) with false by (symmetry; apply Z.ltb_ge; lia).
      left. split; [rewrite Huns; reflexivity|].
      rewrite Hbins. rewrite <- !app_assoc. cbn [app].
      replace (List.length ab) with jj by lia. reflexivity.
    + destruct abt as [|[pa pb] abt]; [cbn in Hlen; lia|].
      cbn in Hm, Hlen.
      assert (Hg0 : zget (e ++ rest) (Z.of_nat jj) = Some ej).
      { rewrite Hed, <- app_assoc. cbn [app]. apply zget_app. lia. }
      assert (Hg1 : zget (e ++ rest) (Z.of_nat jj + 1) = Some ej1).
      { rewrite Hed, <- app_assoc. cbn [app].
        replace (ed ++ ej :: ej1 :: et ++ rest) with ((ed ++ [ej]) ++ ej1 :: et ++ rest)
          by (rewrite <- app_assoc; reflexivity).
        apply zget_app. rewrite app_length. cbn. lia. }
      rewrite bins_upd_cons in Hbins. rewrite unsorted_cons in Huns.
      remember (e ++ rest) as ens eqn:Hens.
      remember (Ah ++ map fst abd) as Pa eqn:HPa.
      remember (Bh ++ map snd abd) as Pb eqn:HPb.
      assert (HlPa : Z.of_nat jj + 1 = Z.of_nat (List.length Pa))
        by (rewrite HPa, app_length, map_length; lia).
      assert (HlPb : Z.of_nat jj + 1 = Z.of_nat (List.length Pb))
        by (rewrite HPb, app_length, map_length; lia).
      cbn [map fst snd app].
      remember (map fst abt ++ At) as Qa eqn:HQa.
      remember (map snd abt ++ Bt) as Qb eqn:HQb.
      assert (Hw1 : in_width W32 (Z.of_nat jj + 1) = true) by (apply in_width_W32; lia).
      assert (Hw2 : in_width W32 (Z.of_nat m - 1) = true) by (apply in_width_W32; lia).
      unfold cr_state. cbn. rewrite ?Hw1, ?Hw2. cbn.
      replace (Z.of_nat jj <? Z.of_nat m - 1) with true by (symmetry; apply Z.ltb_lt; lia).
      cbn. rewrite ?Hw1. cbn. rewrite Hg1. cbn. rewrite Hg0. cbn. rewrite truth_b2z.
      destruct (nltb N ej1 ej) eqn:Hinv.
      * (* return EDOM *)
        cbn. right. split; [rewrite Huns; reflexivity|].
        exists 33, (Z.of_nat jj), (Pa ++ pa :: Qa), (Pb ++ pb :: Qb). split; [lia|reflexivity].
      * cbn [orb] in Huns. cbn. rewrite Hgo. cbn. rewrite Hg0. cbn. rewrite truth_b2z.
        repeat (progress (cbn; rewrite ?Hw1, ?truth_b2z, ?and_ok, ?Hg0, ?Hg1, ?Hgo,
                                 ?(zget_app Pa), ?(zget_app Pb), ?(zset_app Pa), ?(zset_app Pb) by lia);
                try merge_if_st).
        exists (ed ++ [ej]), (ej1 :: et), (abd ++ [bin_upd N y w ej ej1 (pa, pb)]), abt.
        split; [rewrite <- app_assoc; exact Hed|].
        split; [rewrite app_length; cbn; lia|].
        split; [rewrite app_length; cbn; lia|].
        split; [cbn; lia|].
        split; [rewrite <- app_assoc; exact Hbins|].
        split; [exact Huns|].
        norm_state; unfold cr_state; subst Pa Pb Qa Qb ens.
        unfold bin_upd; cbn [fst snd].
        rewrite !map_app; cbn [map fst snd]; rewrite <- !app_assoc; cbn [app].
        replace (Z.of_nat jj + 1) with (Z.of_nat (S jj)) by lia.
        destruct (nleb N y ej), (nleb N ej1 y), (nltb N ej y), (nltb N y ej1); reflexivity.
  - exists [], e, [], ab. rewrite !app_nil_r. cbn [app List.length map].
    repeat split; try reflexivity. rewrite He. exact Hab.
  - lia.
Qed.

End Refine.

(* ################################################################## *)
(* PART 3: the loop over the forecasts, the loop over the bins          *)
(* ################################################################## *)

#[local] Arguments bins_upd : simpl never.
#[local] Arguments bin_upd : simpl never.
#[local] Arguments unsorted : simpl never.
#[local] Arguments unc_row : simpl never.
#[local] Arguments unc_loop : simpl never.
#[local] Arguments ksort : simpl never.
#[local] Arguments List.concat : simpl never.
#[local] Arguments krows : simpl never.
#[local] Arguments krow : simpl never.
#[local] Arguments table_vals : simpl never.

Ltac last_step solve :=
  match goal with
  | |- context[exec ?N0 ?X0 ?cf ?n0 ?a ?st] =>
      let H := fresh "Hx" in
      eassert (H : exec N0 X0 cf n0 a st = Ok (ONormal, _));
      [solve | rewrite H; clear H]
  end.

Ltac l3k_solve Hga Hgb HZ0 HZ1 HL0 HL1 Gd Odd Rd Cd RTd Hw0 Hw1 Hw2 Hw3 Hw4 Hw5 Hw6 :=
  unfold cr_state;
  repeat (progress (cbn; rewrite ?Hw0, ?Hw1, ?Hw2, ?Hw3, ?Hw4, ?Hw5, ?Hw6,
                         ?truth_b2z, ?b2z_truth_b2z, ?and_ok, ?Hga, ?Hgb,
                         ?HZ0, ?HZ1, ?HL0, ?HL1,
                         ?(zget_app Gd), ?(zget_app Odd), ?(zget_app Rd), ?(zget_app Cd),
                         ?(zset_app Gd), ?(zset_app Odd), ?(zset_app Rd), ?(zset_app Cd),
                         ?(zset_app RTd),
                         ?(zset_app_off RTd _ _ 1), ?(zset_app_off RTd _ _ 2),
                         ?(zset_app_off RTd _ _ 3), ?(zset_app_off RTd _ _ 4),
                         ?(zset_app_off RTd _ _ 5), ?(zset_app_off RTd _ _ 6) by lia);
          try merge_if_cr);
  norm_state; reflexivity.

Section Refine.
Context {T : Type} (N : NumOps T) (X : NumLit T).

(* the condition and the body of the loop over the forecasts, from the invariant after [ii]
   iterations.  Size hypotheses of THIS iteration only: i+1 and ncol*i+ncol-1 fit an int
   (so that the lemma also serves the overflow witness below). *)
Definition L2_post_at (m : nat) uw isrt pot pj wv rt dec g r c (v : list (T * list T)) (w : T)
           (ii : nat) (r0 : outcome T * state T) : Prop :=
  L2_post N m uw isrt pot pj wv rt dec g r c v w r0 /\ (fst r0 = ONormal -> ii = List.length v).

Lemma chk_L2_step (callf : callee T) n (m : nat) uw isrt pot pj wv rt dec g r c
      (v : list (T * list T)) :
  (forall a b, callf "c_crps.compare" [AVArrF [a]; AVArrF [b]]
               = Ok (RI (cmpz N a b), [VArrF [a]; VArrF [b]])) ->
  nofZ N 1 = n1 N -> uw <> 1 -> (0 < m)%nat ->
  Forall (fun r => List.length (snd r) = m) v ->
  (List.length v < n)%nat -> (m < n)%nat ->
  Z.of_nat m <= 2147483647 ->
  let w := ndiv N (n1 N) (nofZ N (Z.of_nat (List.length v))) in
  forall ii st, L2_inv N m uw isrt pot pj wv rt dec g r c v w ii st ->
  ((ii < List.length v)%nat ->
   Z.of_nat ii + 1 <= 2147483647 /\ Z.of_nat m * Z.of_nat ii + Z.of_nat m - 1 <= 2147483647) ->
  (ii <= List.length v)%nat /\
  match cond_of N X (for_c L2k) st with
  | Ok false => L2_post_at m uw isrt pot pj wv rt dec g r c v w ii (ONormal, st)
  | Ok true =>
      match for_body (exec N X callf n (for_b L2k)) (exec N X callf n (for_s L2k)) st with
      | Ok (ONormal, st') => L2_inv N m uw isrt pot pj wv rt dec g r c v w (S ii) st'
      | Ok (OContinue, st') => L2_inv N m uw isrt pot pj wv rt dec g r c v w (S ii) st'
      | Ok (OBreak, st') => L2_post_at m uw isrt pot pj wv rt dec g r c v w ii (ONormal, st')
      | Ok (ORet rv, st') => L2_post_at m uw isrt pot pj wv rt dec g r c v w ii (ORet rv, st')
      | Err _ => False
      end
  | Err _ => False
  end.
Proof.
  intros Hcmp H1 Huw Hm Hrows Hn Hnm Hwm w.
  unfold L2_post_at, L2k. cbn [for_c for_b for_s].
  intros ii st (vd & vt & j & k & w' & wk' & unc & dobs' & ecur & z & Hinv) Hsz.
    cbv zeta in Hinv. destruct Hinv as (Hv & Hii & Hec & Hlab & Hex & Hunc & ->).
    set (s := fold_left (row_step N w) (sortedv N isrt vd) (acc0 N (m - 1))) in *.
    assert (Hlv : List.length v = (ii + List.length vt)%nat) by (rewrite Hv, app_length; lia).
    split; [lia|].
    destruct vt as [|[yi ei] vt].
    + (* end of the loop *)
      rewrite app_nil_r in Hv. subst vd. cbn in Hlv.
      unfold cr_state. cbn.
      replace (Z.of_nat ii <? Z.of_nat (List.length v)) with false by (symmetry; apply Z.ltb_ge; lia).
      split; [|intros _; lia].
      left. split; [exact Hex|].
      exists j, k, w', wk', dobs', (ecur ++ [z]). cbv zeta. fold s.
      cbn [map] in Hunc. unfold unc_loop in Hunc at 2. rewrite Hunc.
      replace (List.length v) with ii by lia. reflexivity.
    + cbn in Hlv.
      assert (Hobs : map fst v = map fst vd ++ yi :: map fst vt) by (rewrite Hv, map_app; reflexivity).
      assert (Hsim : List.concat (map snd v)
                     = List.concat (map snd vd) ++ ei ++ List.concat (map snd vt)).
      { rewrite Hv, map_app, concat_app. reflexivity. }
      assert (Hrows' := Hrows). rewrite Hv in Hrows'. apply Forall_app in Hrows'.
      destruct Hrows' as [Hrd Hrt].
      assert (Hei : List.length ei = m) by (inversion Hrt; assumption).
      assert (Hsd : Z.of_nat (List.length (List.concat (map snd vd))) = Z.of_nat m * Z.of_nat ii).
      { rewrite (concat_length_const m).
        - rewrite map_length, Hii. lia.
        - apply Forall_map. exact Hrd. }
      assert (Hgo : zget (map fst v) (Z.of_nat ii) = Some yi).
      { rewrite Hobs. apply zget_app. rewrite map_length. lia. }
      (* the index ncol*i+j stays below ncol*nval *)
      destruct Hsz as [Hwi Hidx]; [lia|].
      assert (Hi0 : 0 <= Z.of_nat ii) by lia.
      assert (Hw2 : in_width W32 (Z.of_nat m - 1) = true) by (apply in_width_W32; lia).
      remember (map fst v) as obs eqn:Eobs.
      remember (List.concat (map snd v)) as sim eqn:Esim.
      unfold acc_a, acc_b, acc_o.
      unfold cr_state. cbn.
      replace (Z.of_nat ii <? Z.of_nat (List.length v)) with true by (symmetry; apply Z.ltb_lt; lia).
      cbn.
      pose proof (chk_L2a_run N X callf n (Z.of_nat (List.length v)) m uw isrt (Z.of_nat ii) k w' wk' pot pj
                    unc dobs' obs sim wv rt dec
                    (hml (n0 N) (map fst (ac_ab s)) (ac_aN s))
                    (hml (ac_b0 s) (map snd (ac_ab s)) (n0 N)) g
                    (hml (ac_o0 s) (repeat (n0 N) (m - 1)) (ac_oN s)) r c
                    (List.concat (map snd vd)) ei (List.concat (map snd vt)) ecur [z]
                    Hsim Hsd Hei Hec Hnm Hi0 Hwm Hidx) as H2a.
      rewrite_loop H2a. clear H2a.
      cbn.
      pose proof (qsort_compare N callf "ensemb" ei [z] Hcmp) as Hq. rewrite Hei in Hq.
      rewrite Hq. cbn. rewrite truth_b2z. merge_if_cr. cbn.
      replace (uw =? 1) with false by (symmetry; apply Z.eqb_neq; exact Huw).
      cbn. rewrite H1. fold w.
      change (if isrt =? 0 then ksort N ei else ei) with (srt_of N isrt ei).
      assert (Hes : List.length (srt_of N isrt ei) = m).
      { unfold srt_of. destruct (isrt =? 0); [rewrite ksort_length|]; exact Hei. }
      remember (srt_of N isrt ei) as es eqn:Ees.
      assert (Hi : Z.of_nat ii = Z.of_nat (List.length (map fst vd))) by (rewrite map_length, Hii; reflexivity).
      destruct (chk_L2b_run N X callf n (Z.of_nat (List.length v)) m uw isrt (Z.of_nat ii) k w wk' pot pj
                  unc dobs' obs sim wv rt dec [z] g
                  (hml (ac_o0 s) (repeat (n0 N) (m - 1)) (ac_oN s)) r c
                  (map fst vd) yi (map fst vt) es (ac_ab s) [n0 N] [ac_aN s] [ac_b0 s] [n0 N]
                  Hobs Hi Hes Hlab eq_refl eq_refl Hnm Hwm) as (r0 & Hr0 & Hpost).
      destruct Hpost as [[Hu ->]|[Hu (code & j' & a' & b' & Hcode & ->)]].
      * set (ab' := bins_upd N yi w es (ac_ab s)) in *.
        change ([n0 N] ++ map fst ab' ++ [ac_aN s]) with (hml (n0 N) (map fst ab') (ac_aN s)) in Hr0.
        change ([ac_b0 s] ++ map snd ab' ++ [n0 N]) with (hml (ac_b0 s) (map snd ab') (n0 N)) in Hr0.
        rewrite_loop Hr0. clear Hr0.
        assert (Hh : zget (es ++ [z]) 0 = Some (hd (n0 N) es)) by (apply hd_zget; lia).
        assert (Hl : zget (es ++ [z]) (Z.of_nat m - 1) = Some (last es (n0 N)))
          by (apply last_zget; [exact Hes|exact Hm]).
        remember (es ++ [z]) as ens eqn:Eens.
        assert (Hlab' : S (List.length ab') = m) by (unfold ab'; rewrite bins_upd_length; exact Hlab).
        unfold cr_state.
        repeat (progress (cbn; rewrite ?Hw2, ?truth_b2z, ?Hgo, ?Hh, ?Hl, ?hml_get0, ?hml_set0,
                                 ?hml_getN, ?hml_setN by (rewrite ?map_length, ?repeat_length; lia));
                try merge_if_cr).
        assert (Hlt : (List.length (map fst vd) < n)%nat) by (rewrite map_length; lia).
        assert (Hiw : Z.of_nat ii <= 2147483647) by lia.
        match goal with
        | |- context[loop n _ _ (set_i {| s_i := _; s_f := _; s_ai := _;
                                         s_af := [_; _; _; _; _; _; ("a", ?A); ("b", ?B); _; ("o", ?O); _; _] |}
                                       "k" 0)] =>
            pose proof (chk_L2c_run N X callf n (Z.of_nat (List.length v)) (Z.of_nat m) uw isrt (Z.of_nat ii)
                          (Z.of_nat (List.length (ac_ab s))) wk' pot pj unc dobs' obs sim wv rt dec ens
                          A B g O r c (map fst vd) yi (map fst vt) H1 Huw Hobs Hi Hlt Hiw) as H2c
        end.
        cbv zeta in H2c. destruct H2c as (wk2 & dobs2 & H2c).
        rewrite_loop H2c. clear H2c. cbn. iw. cbn.
        exists (vd ++ [(yi, ei)]), vt, (Z.of_nat (List.length (ac_ab s))), (Z.of_nat ii), w, wk2,
          (unc_row N w yi (map fst vd) unc), dobs2, es, z.
        cbv zeta.
        assert (Hs' : fold_left (row_step N w) (sortedv N isrt (vd ++ [(yi, ei)])) (acc0 N (m - 1))
                      = row_step N w s (yi, es)).
        { unfold sortedv. rewrite map_app, fold_left_app. cbn [map fst snd]. rewrite <- Ees. reflexivity. }
        rewrite Hs'.
        split; [rewrite <- app_assoc; exact Hv|].
        split; [rewrite app_length; cbn; lia|].
        split; [exact Hes|].
        split; [exact Hlab'|].
        split; [unfold sortedv; rewrite map_app, existsb_app; fold (sortedv N isrt vd); rewrite Hex;
                cbn [map existsb fst snd orb]; rewrite <- Ees, Hu; reflexivity|].
        split; [rewrite map_app, <- Eobs; exact Hunc|].
        subst obs sim ens. replace (Z.of_nat ii + 1) with (Z.of_nat (S ii)) by lia. reflexivity.
      * (* EDOM *)
        rewrite_loop Hr0. clear Hr0. cbn.
        split; [|intros E; discriminate E].
        right. split.
        { rewrite Hv. unfold sortedv. rewrite map_app, existsb_app. cbn [map existsb fst snd].
          rewrite <- Ees, Hu. cbn [orb]. apply orb_true_r. }
        exists code. do 11 eexists. split; [exact Hcode|]. unfold cr_state. subst obs sim. reflexivity.
Qed.

Lemma chk_L2_run (callf : callee T) n (m : nat) uw isrt pot pj wv rt dec g r c
      (v : list (T * list T)) j0 k0 w0 wk0 unc0 dobs0 e0 z0 a0 b0 o0 :
  (forall a b, callf "c_crps.compare" [AVArrF [a]; AVArrF [b]]
               = Ok (RI (cmpz N a b), [VArrF [a]; VArrF [b]])) ->
  nofZ N 1 = n1 N -> uw <> 1 -> (0 < m)%nat ->
  Forall (fun r => List.length (snd r) = m) v ->
  List.length e0 = m ->
  a0 = acc_a N (acc0 N (m - 1)) -> b0 = acc_b N (acc0 N (m - 1)) -> o0 = acc_o N m (acc0 N (m - 1)) ->
  unc0 = n0 N ->
  (List.length v < n)%nat -> (m < n)%nat ->
  Z.of_nat (List.length v) <= 2147483647 ->
  Z.of_nat m <= 2147483647 ->
  Z.of_nat m * Z.of_nat (List.length v) - 1 <= 2147483647 ->
  let w := ndiv N (n1 N) (nofZ N (Z.of_nat (List.length v))) in
  exists r0,
    run_for N X callf n L2k
      (cr_state (Z.of_nat (List.length v)) (Z.of_nat m) uw isrt 0 j0 k0 w0 wk0 pot pj unc0 dobs0
                (map fst v) (List.concat (map snd v)) wv rt dec (e0 ++ [z0]) a0 b0 g o0 r c) = Ok r0
    /\ L2_post N m uw isrt pot pj wv rt dec g r c v w r0.
Proof.
  intros Hcmp H1 Huw Hm Hrows He0 Ha0 Hb0 Ho0 Hu0 Hn Hnm Hwv Hwm Hwp w.
  unfold run_for.
  apply (loop_rule (L2_inv N m uw isrt pot pj wv rt dec g r c v w)
                   (L2_post N m uw isrt pot pj wv rt dec g r c v w) (List.length v)) with (k := O).
  - intros ii st HI.
    assert (Hsz : (ii < List.length v)%nat ->
                  Z.of_nat ii + 1 <= 2147483647 /\
                  Z.of_nat m * Z.of_nat ii + Z.of_nat m - 1 <= 2147483647).
    { intros Hlt. split; [lia|].
      (* the index ncol*i+j stays below ncol*nval *)
      assert (Z.of_nat m * (Z.of_nat ii + 1) <= Z.of_nat m * Z.of_nat (List.length v))
        by (apply Z.mul_le_mono_nonneg_l; lia).
      lia. }
    destruct (chk_L2_step callf n m uw isrt pot pj wv rt dec g r c v Hcmp H1 Huw Hm Hrows Hn Hnm Hwm
                          ii st HI Hsz) as [Hle Hstep].
    split; [exact Hle|]. fold w in Hstep. unfold L2_post_at in Hstep.
    destruct (cond_of N X (for_c L2k) st) as [[|]|]; [|exact (proj1 Hstep)|exact Hstep].
    destruct (for_body (exec N X callf n (for_b L2k)) (exec N X callf n (for_s L2k)) st)
      as [[[| | |rv] st']|]; try exact Hstep; exact (proj1 Hstep).
  - exists [], v, j0, k0, w0, wk0, unc0, dobs0, e0, z0. cbv zeta.
    unfold sortedv. cbn [map].
    change (fold_left (row_step N w) [] (acc0 N (m - 1))) with (acc0 N (m - 1)).
    split; [reflexivity|]. split; [reflexivity|]. split; [exact He0|].
    split; [rewrite acc0_ab_length; lia|].
    split; [reflexivity|].
    split; [subst unc0; reflexivity|].
    subst a0 b0 o0. reflexivity.
  - lia.
Qed.

(* ---- loop 3: the table and the sums, for(j=0;j<ncol+1;j++) ---- *)

Definition L3_inv nval (m : nat) uw isrt i k w wk pot0 unc dobs obs sim wv d0 d1 d2 d3 d4 ens
           (A B Oa : list T) (jj : nat) (st : state T) : Prop :=
  let tb := krows N (Z.of_nat m) 0 A B Oa in
  exists Ad At Bd Bt Od Ot Rt Ct tbd rtt pj',
    A = Ad ++ At /\ B = Bd ++ Bt /\ Oa = Od ++ Ot /\
    List.length Ad = jj /\ List.length Bd = jj /\ List.length Od = jj /\ List.length tbd = jj /\
    List.length Bt = List.length At /\ List.length Ot = List.length At /\
    List.length Rt = List.length At /\ List.length Ct = List.length At /\
    List.length rtt = (7 * List.length At)%nat /\
    tb = tbd ++ krows N (Z.of_nat m) (Z.of_nat jj) At Bt Ot /\
    st = cr_state nval (Z.of_nat m) uw isrt i (Z.of_nat jj) k w wk (fold_left (potf N) tbd pot0) pj'
                  unc dobs obs sim wv (table_vals tbd ++ rtt)
                  [fold_left (crpsf N) tbd d0; fold_left (relif N) tbd d1; d2; d3; d4] ens A B
                  (map t_g tbd ++ repeat (n0 N) (List.length At)) (map t_o tbd ++ Ot)
                  (map t_r tbd ++ Rt) (map t_c tbd ++ Ct).

Definition L3_post nval (m : nat) uw isrt i k w wk pot0 unc dobs obs sim wv d0 d1 d2 d3 d4 ens
           (A B Oa : list T) (r1 : outcome T * state T) : Prop :=
  let tb := krows N (Z.of_nat m) 0 A B Oa in
  exists pj', r1 = (ONormal,
    cr_state nval (Z.of_nat m) uw isrt i (Z.of_nat (S m)) k w wk (fold_left (potf N) tb pot0) pj'
             unc dobs obs sim wv (table_vals tb)
             [fold_left (crpsf N) tb d0; fold_left (relif N) tb d1; d2; d3; d4] ens A B
             (map t_g tb) (map t_o tb) (map t_r tb) (map t_c tb)).

Definition L3_post_at nval (m : nat) uw isrt i k w wk pot0 unc dobs obs sim wv d0 d1 d2 d3 d4 ens
           (A B Oa : list T) (jj : nat) (r1 : outcome T * state T) : Prop :=
  L3_post nval m uw isrt i k w wk pot0 unc dobs obs sim wv d0 d1 d2 d3 d4 ens A B Oa r1 /\
  (fst r1 = ONormal -> jj = S m).

(* the condition and the body of loop 3 from the invariant after [jj] iterations; size
   hypothesis of THIS iteration only: j*ncol_rt+6 fits an int *)
Lemma chk_L3_step (callf : callee T) n nval (m : nat) uw isrt i k w wk pot0 unc dobs
      obs sim wv d0 d1 d2 d3 d4 ens A B Oa :
  lits_ok N X -> (0 < m)%nat -> List.length A = S m ->
  Z.of_nat m + 1 <= 2147483647 ->
  forall jj st,
  L3_inv nval m uw isrt i k w wk pot0 unc dobs obs sim wv d0 d1 d2 d3 d4 ens A B Oa jj st ->
  ((jj < S m)%nat -> Z.of_nat jj * 7 + 6 <= 2147483647) ->
  (jj <= S m)%nat /\
  match cond_of N X (for_c L3k) st with
  | Ok false => L3_post_at nval m uw isrt i k w wk pot0 unc dobs obs sim wv d0 d1 d2 d3 d4 ens A B Oa
                           jj (ONormal, st)
  | Ok true =>
      match for_body (exec N X callf n (for_b L3k)) (exec N X callf n (for_s L3k)) st with
      | Ok (ONormal, st') =>
          L3_inv nval m uw isrt i k w wk pot0 unc dobs obs sim wv d0 d1 d2 d3 d4 ens A B Oa (S jj) st'
      | Ok (OContinue, st') =>
          L3_inv nval m uw isrt i k w wk pot0 unc dobs obs sim wv d0 d1 d2 d3 d4 ens A B Oa (S jj) st'
      | Ok (OBreak, st') =>
          L3_post_at nval m uw isrt i k w wk pot0 unc dobs obs sim wv d0 d1 d2 d3 d4 ens A B Oa
                     jj (ONormal, st')
      | Ok (ORet rv, st') =>
          L3_post_at nval m uw isrt i k w wk pot0 unc dobs obs sim wv d0 d1 d2 d3 d4 ens A B Oa
                     jj (ORet rv, st')
      | Err _ => False
      end
  | Err _ => False
  end.
Proof.
  intros (HZ0 & HZ1 & HL0 & HL1) Hm HA Hwm1.
  unfold L3_post_at, L3_post, L3_inv, L3k. cbn [for_c for_b for_s]. cbv zeta.
  set (tb := krows N (Z.of_nat m) 0 A B Oa).
intros jj st (Ad & At & Bd & Bt & Od & Ot & Rt & Ct & tbd & rtt & pj' &
                HAs & HBs & HOs & HlA & HlB & HlO & Hltb & HlBt & HlOt & HlRt & HlCt & Hlrtt & Htb & ->) Hsz.
  assert (Hjm : S m = (jj + List.length At)%nat) by (rewrite <- HA, HAs, app_length; lia).
  split; [lia|].
  assert (Hwc : in_width W32 (Z.of_nat m + 1) = true) by (apply in_width_W32; lia).
  destruct At as [|aj At].
  + (* end *)
    destruct Bt; [|discriminate]. destruct Ot; [|discriminate]. destruct Rt; [|discriminate].
    destruct Ct; [|discriminate]. destruct rtt; [|discriminate].
    cbn in Hjm. unfold cr_state. cbn. rewrite Hwc. cbn.
    replace (Z.of_nat jj <? Z.of_nat m + 1) with false by (symmetry; apply Z.ltb_ge; lia).
    split; [|intros _; lia].
    exists pj'. rewrite !app_nil_r in *. rewrite Htb. unfold cr_state.
    replace (S m) with jj by lia. reflexivity.
  + destruct Bt as [|bj Bt]; [discriminate|]. destruct Ot as [|oj Ot]; [discriminate|].
    destruct Rt as [|rj Rt]; [discriminate|]. destruct Ct as [|cj Ct]; [discriminate|].
    destruct rtt as [|x0 [|x1 [|x2 [|x3 [|x4 [|x5 [|x6 rtt]]]]]]]; try (cbn in Hlrtt; lia).
    cbn in Hjm, HlBt, HlOt, HlRt, HlCt, Hlrtt.
    rewrite krows_cons in Htb.
    assert (Hga : zget A (Z.of_nat jj) = Some aj) by (rewrite HAs; apply zget_app; lia).
    assert (Hgb : zget B (Z.of_nat jj) = Some bj) by (rewrite HBs; apply zget_app; lia).
    change (repeat (n0 N) (List.length (aj :: At))) with (n0 N :: repeat (n0 N) (List.length At)).
    remember (map t_g tbd) as Gd eqn:EGd. remember (map t_o tbd) as Odd eqn:EOd.
    remember (map t_r tbd) as Rd eqn:ERd. remember (map t_c tbd) as Cd eqn:ECd.
    remember (table_vals tbd) as RTd eqn:ERT.
    remember (repeat (n0 N) (List.length At)) as Gt eqn:EGt.
    assert (HlG : Z.of_nat jj = Z.of_nat (List.length Gd)) by (rewrite EGd, map_length; lia).
    assert (HlOd : Z.of_nat jj = Z.of_nat (List.length Odd)) by (rewrite EOd, map_length; lia).
    assert (HlRd : Z.of_nat jj = Z.of_nat (List.length Rd)) by (rewrite ERd, map_length; lia).
    assert (HlCd : Z.of_nat jj = Z.of_nat (List.length Cd)) by (rewrite ECd, map_length; lia).
    assert (HlRT : Z.of_nat jj * 7 = Z.of_nat (List.length RTd)) by (rewrite ERT, table_vals_length; lia).
    assert (Hsz' : Z.of_nat jj * 7 + 6 <= 2147483647) by (apply Hsz; lia).
    assert (Hw0 : in_width W32 (Z.of_nat jj * 7) = true) by (apply in_width_W32; lia).
    assert (Hw1 : in_width W32 (Z.of_nat jj * 7 + 1) = true) by (apply in_width_W32; lia).
    assert (Hw2 : in_width W32 (Z.of_nat jj * 7 + 2) = true) by (apply in_width_W32; lia).
    assert (Hw3 : in_width W32 (Z.of_nat jj * 7 + 3) = true) by (apply in_width_W32; lia).
    assert (Hw4 : in_width W32 (Z.of_nat jj * 7 + 4) = true) by (apply in_width_W32; lia).
    assert (Hw5 : in_width W32 (Z.of_nat jj * 7 + 5) = true) by (apply in_width_W32; lia).
    assert (Hw6 : in_width W32 (Z.of_nat jj * 7 + 6) = true) by (apply in_width_W32; lia).
    assert (Hwj : in_width W32 (Z.of_nat jj + 1) = true) by (apply in_width_W32; lia).
    match goal with
    | |- context[cond_of N X ?c ?s] =>
        let Hc := fresh "Hc" in
        assert (Hc : cond_of N X c s = Ok true)
          by (unfold cr_state; cbn; rewrite Hwc; cbn;
              replace (Z.of_nat jj <? Z.of_nat m + 1) with true by (symmetry; apply Z.ltb_lt; lia);
              reflexivity);
        rewrite Hc; clear Hc
    end.
    unfold for_body.
    repeat (seq_step ltac:(l3k_solve Hga Hgb HZ0 HZ1 HL0 HL1 Gd Odd Rd Cd RTd Hw0 Hw1 Hw2 Hw3 Hw4 Hw5 Hw6); abstract_ifs).
    last_step ltac:(l3k_solve Hga Hgb HZ0 HZ1 HL0 HL1 Gd Odd Rd Cd RTd Hw0 Hw1 Hw2 Hw3 Hw4 Hw5 Hw6).
    cbv beta iota. cbn. rewrite Hwj. cbn.
    exists (Ad ++ [aj]), At, (Bd ++ [bj]), Bt, (Od ++ [oj]), Ot, Rt, Ct,
      (tbd ++ [krow N (Z.of_nat m) (Z.of_nat jj) aj bj oj]), rtt,
      (prob N (Z.of_nat jj) (Z.of_nat m)).
    split; [rewrite <- app_assoc; exact HAs|].
    split; [rewrite <- app_assoc; exact HBs|].
    split; [rewrite <- app_assoc; exact HOs|].
    split; [rewrite app_length; cbn; lia|].
    split; [rewrite app_length; cbn; lia|].
    split; [rewrite app_length; cbn; lia|].
    split; [rewrite app_length; cbn; lia|].
    split; [lia|]. split; [lia|]. split; [lia|]. split; [lia|]. split; [lia|].
    split; [rewrite <- app_assoc; cbn [app];
            replace (Z.of_nat (S jj)) with (Z.of_nat jj + 1) by lia; exact Htb|].
    norm_state. unfold cr_state.
    rewrite !fold_left_app, !map_app, table_vals_snoc.
    change (fold_left (potf N) [?x] ?a) with (potf N a x).
    change (fold_left (relif N) [?x] ?a) with (relif N a x).
    change (fold_left (crpsf N) [?x] ?a) with (crpsf N a x).
    cbn [map]. rewrite <- !app_assoc. cbn [app].
    replace (Z.of_nat jj + 1) with (Z.of_nat (S jj)) by lia.
    subst Gd Odd Rd Cd RTd Gt.
    unfold potf, relif, crpsf, crps_term, krow, mkrow, sq, prob, trow_vals.
    cbn [t_p t_a t_b t_g t_o t_r t_c app].
    repeat match goal with
           | Hmv : ?mvx = (if _ then _ else _) |- _ => subst mvx
           end.
    match goal with
    | |- context[if nltb N (n0 N) ?G then _ else _] => destruct (nltb N (n0 N) G)
    end; reflexivity.
Qed.

Lemma chk_L3_run (callf : callee T) n nval (m : nat) uw isrt i k w wk pot0 pj0 unc dobs
      obs sim wv rt0 d0 d1 d2 d3 d4 ens A B Oa R C :
  lits_ok N X -> (0 < m)%nat ->
  List.length A = S m -> List.length B = S m -> List.length Oa = S m ->
  List.length R = S m -> List.length C = S m -> List.length rt0 = (7 * S m)%nat ->
  (S m < n)%nat ->
  Z.of_nat m * 7 + 6 <= 2147483647 ->
  let tb := krows N (Z.of_nat m) 0 A B Oa in
  exists pj',
  run_for N X callf n L3k
    (cr_state nval (Z.of_nat m) uw isrt i 0 k w wk pot0 pj0 unc dobs obs sim wv rt0
              [d0; d1; d2; d3; d4] ens A B (repeat (n0 N) (S m)) Oa R C)
  = Ok (ONormal,
        cr_state nval (Z.of_nat m) uw isrt i (Z.of_nat (S m)) k w wk (fold_left (potf N) tb pot0) pj'
                 unc dobs obs sim wv (table_vals tb)
                 [fold_left (crpsf N) tb d0; fold_left (relif N) tb d1; d2; d3; d4] ens A B
                 (map t_g tb) (map t_o tb) (map t_r tb) (map t_c tb)).
Proof.
  intros Hlits Hm HA HB HO HR HC Hrt Hn Hwt tb.
  assert (HL : exists r0,
    run_for N X callf n L3k
      (cr_state nval (Z.of_nat m) uw isrt i 0 k w wk pot0 pj0 unc dobs obs sim wv rt0
              [d0; d1; d2; d3; d4] ens A B (repeat (n0 N) (S m)) Oa R C) = Ok r0 /\
    L3_post nval m uw isrt i k w wk pot0 unc dobs obs sim wv d0 d1 d2 d3 d4 ens A B Oa r0).
  { unfold run_for.
    apply (loop_rule
      (L3_inv nval m uw isrt i k w wk pot0 unc dobs obs sim wv d0 d1 d2 d3 d4 ens A B Oa)
      (L3_post nval m uw isrt i k w wk pot0 unc dobs obs sim wv d0 d1 d2 d3 d4 ens A B Oa)
      (S m)) with (k := 0%nat).
    - intros jj st HI.
      assert (Hsz : (jj < S m)%nat -> Z.of_nat jj * 7 + 6 <= 2147483647) by lia.
      destruct (chk_L3_step callf n nval m uw isrt i k w wk pot0 unc dobs obs sim wv d0 d1 d2 d3 d4
                            ens A B Oa Hlits Hm HA ltac:(lia) jj st HI Hsz) as [Hle Hstep].
      split; [exact Hle|]. unfold L3_post_at in Hstep.
      destruct (cond_of N X (for_c L3k) st) as [[|]|]; [|exact (proj1 Hstep)|exact Hstep].
      destruct (for_body (exec N X callf n (for_b L3k)) (exec N X callf n (for_s L3k)) st)
        as [[[| | |rv] st']|]; try exact Hstep; exact (proj1 Hstep).
    - unfold L3_inv. cbv zeta.
      exists [], A, [], B, [], Oa, R, C, [], rt0, pj0.
      repeat split; try reflexivity; try lia.
      rewrite HA. reflexivity.
    - lia. }
  destruct HL as (r0 & Hr0 & pj' & ->). exists pj'. exact Hr0.
Qed.

End Refine.

(* ################################################################## *)
(* PART 4: the theorems                                                 *)
(* ################################################################## *)

#[local] Arguments acc_a : simpl never.
#[local] Arguments acc_b : simpl never.
#[local] Arguments acc_o : simpl never.

Section Refine.
Context {T : Type} (N : NumOps T) (X : NumLit T).

Definition crps_params_k : list param :=
  Eval cbv in match c_crps_chk_def with Fun ps _ => ps | Untranslated _ => [] end.

Lemma find_c_crps_chk : find_fun program_chk "c_crps" = Ok (crps_params_k, crps_body_k).
Proof. vm_compute. reflexivity. Qed.

Lemma chk_c_crps_run_aux (uw isrt : Z) (v : list (T * list T)) (m : nat) (wv rt0 : list T) n
      (exb : bool) (tabv decv : list T) :
  lits_ok N X -> uw <> 1 ->
  (0 < m)%nat ->
  Forall (fun r => List.length (snd r) = m) v ->
  List.length rt0 = (7 * S m)%nat ->
  (Nat.max (List.length v) (S m) < n)%nat ->
  Z.of_nat (List.length v) <= 2147483647 ->
  Z.of_nat m * 7 + 6 <= 2147483647 ->
  Z.of_nat m * Z.of_nat (List.length v) - 1 <= 2147483647 ->
  let w := ndiv N (n1 N) (nofZ N (Z.of_nat (List.length v))) in
  let s := fold_left (row_step N w) (sortedv N isrt v) (acc0 N (m - 1)) in
  let tb := table N true (Z.of_nat m) s in
  let unc := unc_loop N w [] (map fst v) (n0 N) in
  exb = existsb (fun r => unsorted N (snd r)) (sortedv N isrt v) ->
  tabv = table_vals tb ->
  decv = [fold_left (crpsf N) tb (n0 N); fold_left (relif N) tb (n0 N);
          nsub N unc (fold_left (potf N) tb (n0 N)); unc; fold_left (potf N) tb (n0 N)] ->
  exists res,
    exec_fun N X program_chk (S n) "c_crps" (crps_args N uw isrt v m wv rt0) = Ok res /\
    ((exb = false /\
      res = (RI 0, [VArrF (map fst v); VArrF (List.concat (map snd v)); VArrF wv;
                    VArrF tabv; VArrF decv]))
     \/
     (exb = true /\ exists code, 0 < code /\
      res = (RI code, [VArrF (map fst v); VArrF (List.concat (map snd v)); VArrF wv;
                       VArrF rt0; VArrF [n0 N; n0 N; n0 N; n0 N; n0 N]]))).
Proof.
  intros Hlits Huw Hm Hrows Hrt Hn Hwv Hwt Hwp w s tb unc Eexb Etabv Edecv.
  assert (Hlits' := Hlits). destruct Hlits' as (HZ0 & HZ1 & HL0 & HL1).
  assert (Hcmp : forall a b, exec_fun N X program_chk n "c_crps.compare" [AVArrF [a]; AVArrF [b]]
                             = Ok (RI (cmpz N a b), [VArrF [a]; VArrF [b]])).
  { intros a b. destruct n as [|n']; [lia|]. apply chk_compare_run. }
  assert (Hn1 : (S m < n)%nat) by lia.
  assert (Hn2 : (List.length v < n)%nat) by lia.
  assert (Hn3 : (m < n)%nat) by lia.
  assert (Hwm : Z.of_nat m <= 2147483647) by lia.
  assert (Hwm1 : Z.of_nat m + 1 <= 2147483647) by lia.
  assert (Hwc : in_width W32 (Z.of_nat m + 1) = true) by (apply in_width_W32; lia).
  assert (Hlab : S (List.length (ac_ab s)) = m)
    by (unfold s; rewrite row_step_ab_length, acc0_ab_length; lia).
  destruct (acc_init N m Hm) as (Ea & Eb & Eo).
  set (cf := exec_fun N X program_chk n).
  rewrite exec_fun_unfold, find_c_crps_chk. fold cf. unfold crps_args.
  cbn [bind fst snd]. unfold crps_params_k at 1. cbn [bind_params bind]. norm_state.
  unfold crps_body_k.
  (* declarations, mallocs, the ENOMEM test, the initialisations *)
  repeat (seq_step ltac:(cbn; rewrite ?Hwc; cbn; repeat (rewrite new_arr_zero; cbn); rewrite ?HL0, ?HZ0;
                         norm_state; reflexivity)).
  (* loop 1 *)
  seq_step ltac:(exact (chk_L1_run N X cf n (Z.of_nat (List.length v)) m uw isrt 0 0
                (n0 N) (n0 N) (n0 N) (n0 N) (n0 N) (n0 N) (map fst v) (List.concat (map snd v)) wv rt0
                [n0 N; n0 N; n0 N; n0 N; n0 N] (repeat (n0 N) (S m)) (repeat (n0 N) (S m))
                (repeat (n0 N) (S m)) HZ0 Hwm1 Hn1)).
  seq_step ltac:(cbn; norm_state; reflexivity).
  (* loop 2 *)
  pose proof (chk_L2_run N X cf n m uw isrt (n0 N) (n0 N) wv rt0
                [n0 N; n0 N; n0 N; n0 N; n0 N] (repeat (n0 N) (S m)) (repeat (n0 N) (S m))
                (repeat (n0 N) (S m)) v (Z.of_nat (S m)) 0 (n0 N) (n0 N) (n0 N) (n0 N)
                (repeat (n0 N) m) (n0 N) (repeat (n0 N) (S m)) (repeat (n0 N) (S m))
                (repeat (n0 N) (S m)) Hcmp HZ1 Huw Hm Hrows (repeat_length _ _) Ea Eb Eo eq_refl
                Hn2 Hn3 Hwv Hwm Hwp) as HL2run.
  cbv zeta in HL2run. rewrite repeat_snoc in HL2run. fold w in HL2run.
  destruct HL2run as (r0 & Hr0 & Hpost).
  destruct Hpost as [(Hex & j & k & w' & wk' & dobs' & ens & Hst)|(Hex & code & i & j & k & w' & wk' & unc' & dobs' & ens & a & b & o & Hcode & ->)].
  2: { (* EDOM *)
    match goal with
    | |- context[exec ?N0 ?X0 ?cf0 ?n0 (SSeq ?a0 ?b0) ?st] =>
        rewrite (exec_seq_ret N0 X0 cf0 n0 a0 b0 st _ _ Hr0)
    end.
    eexists. split; [cbn; reflexivity|]. right. split; [rewrite Eexb; exact Hex|].
    exists code. split; [exact Hcode|reflexivity]. }
  cbv zeta in Hst. fold w s unc in Hst. subst r0.
  seq_step ltac:(exact Hr0). clear Hr0.
  (* the two clamps of o[0], o[ncol]; j = 0 *)
  do 3 (seq_step ltac:(unfold cr_state, acc_o;
                 repeat (progress (cbn; rewrite ?truth_b2z, ?HL1, ?hml_get0, ?hml_set0,
                                          ?hml_getN, ?hml_setN by (rewrite ?repeat_length; lia));
                         try merge_if_cr);
                 norm_state; reflexivity)).
  (* loop 3 *)
  assert (HlA : List.length (acc_a N s) = S m) by (unfold acc_a; rewrite hml_length, map_length; lia).
  assert (HlB : List.length (acc_b N s) = S m) by (unfold acc_b; rewrite hml_length, map_length; lia).
  assert (HlO : List.length (hml (clamp1 N true (ac_o0 s)) (repeat (n0 N) (m - 1))
                                 (clamp1 N true (ac_oN s))) = S m)
    by (rewrite hml_length, repeat_length; lia).
  pose proof (chk_L3_run N X cf n (Z.of_nat (List.length v)) m uw isrt
                (Z.of_nat (List.length v)) k w' wk' (n0 N) (n0 N)
                unc dobs' (map fst v) (List.concat (map snd v)) wv rt0
                (n0 N) (n0 N) (n0 N) (n0 N) (n0 N) ens (acc_a N s) (acc_b N s)
                (hml (clamp1 N true (ac_o0 s)) (repeat (n0 N) (m - 1)) (clamp1 N true (ac_oN s)))
                (repeat (n0 N) (S m)) (repeat (n0 N) (S m))
                Hlits Hm HlA HlB HlO (repeat_length _ _) (repeat_length _ _) Hrt Hn1 Hwt) as HL3run.
  cbv zeta in HL3run. destruct HL3run as (pj' & HL3run).
  rewrite (krows_table N m s Hm Hlab) in HL3run. fold tb in HL3run.
  seq_step ltac:(exact HL3run). clear HL3run.
  (* crps_decompos[2..4], return 0 *)
  do 3 (seq_step ltac:(unfold cr_state; cbn; norm_state; reflexivity)).
  eexists. split; [cbn; reflexivity|].
  left. split; [rewrite Eexb; exact Hex|]. rewrite Etabv, Edecv. reflexivity.
Qed.

(* THE CHECKED REFINEMENT THEOREM, all inputs (NaN included): the conclusion of
   [refine_c_crps_all] about [program_chk], under its hypotheses plus
     nval <= INT_MAX                (i++ of the loop over the forecasts)
     ncol*7 + 6 <= INT_MAX          (reliability_table[j*ncol_rt+6], j = ncol; implies ncol+1 <= INT_MAX)
     ncol*nval - 1 <= INT_MAX       (sim[ncol*i+j], i = nval-1, j = ncol-1) *)
Theorem chk_refine_c_crps_all (uw isrt : Z) (v : list (T * list T)) (m : nat) (wv rt0 : list T) n :
  lits_ok N X -> uw <> 1 ->
  v <> [] -> (0 < m)%nat ->
  Forall (fun r => List.length (snd r) = m) v ->
  List.length rt0 = (7 * S m)%nat ->
  (Nat.max (List.length v) (S m) < n)%nat ->
  Z.of_nat (List.length v) <= 2147483647 ->
  Z.of_nat m * 7 + 6 <= 2147483647 ->
  Z.of_nat m * Z.of_nat (List.length v) - 1 <= 2147483647 ->
  match crps_with N isrt v with
  | Some out =>
      exec_fun N X program_chk (S n) "c_crps" (crps_args N uw isrt v m wv rt0)
      = Ok (RI 0, [VArrF (map fst v); VArrF (List.concat (map snd v)); VArrF wv;
                   VArrF (table_vals (o_table out)); VArrF (dec_vals out)])
  | None =>
      exists code, 0 < code /\
      exec_fun N X program_chk (S n) "c_crps" (crps_args N uw isrt v m wv rt0)
      = Ok (RI code, [VArrF (map fst v); VArrF (List.concat (map snd v)); VArrF wv;
                      VArrF rt0; VArrF [n0 N; n0 N; n0 N; n0 N; n0 N]])
  end.
Proof.
  intros Hlits Huw Hv Hm Hrows Hrt Hn Hwv Hwt Hwp.
  destruct (chk_c_crps_run_aux uw isrt v m wv rt0 n _ _ _ Hlits Huw Hm Hrows Hrt Hn Hwv Hwt Hwp
              eq_refl eq_refl eq_refl) as (res & HE & Hcase).
  destruct v as [|r0 v']; [contradiction|].
  unfold crps_with.
  assert (Hm0 : List.length (snd r0) = m) by (inversion Hrows; assumption).
  rewrite Hm0. cbv zeta.
  destruct Hcase as [[Hex ->]|[Hex (code & Hc & ->)]]; rewrite Hex.
  - exact HE.
  - exists code. split; [exact Hc|exact HE].
Qed.

(* against [crps] of Model/Crps.v (no NaN member in a kept ensemble) *)
Theorem chk_refine_c_crps (rows : list (T * list T)) (m : nat) (wv rt0 : list T) n :
  lits_ok N X -> ord_laws N (notnan N) ->
  let v := filter (row_valid N) rows in
  v <> [] ->
  Forall (fun r => List.length (snd r) = m) v ->
  Forall (fun r => Forall (notnan N) (snd r)) v ->
  List.length rt0 = (7 * S m)%nat ->
  (Nat.max (List.length v) (S m) < n)%nat ->
  Z.of_nat (List.length v) <= 2147483647 ->
  Z.of_nat m * 7 + 6 <= 2147483647 ->
  Z.of_nat m * Z.of_nat (List.length v) - 1 <= 2147483647 ->
  match crps N rows with
  | Some out =>
      exec_fun N X program_chk (S n) "c_crps" (crps_args N CRPS_USE_WEIGHTS CRPS_IS_SORTED v m wv rt0)
      = Ok (RI 0, [VArrF (map fst v); VArrF (List.concat (map snd v)); VArrF wv;
                   VArrF (table_vals (o_table out)); VArrF (dec_vals out)])
  | None =>
      exists code, 0 < code /\
      exec_fun N X program_chk (S n) "c_crps" (crps_args N CRPS_USE_WEIGHTS CRPS_IS_SORTED v m wv rt0)
      = Ok (RI code, [VArrF (map fst v); VArrF (List.concat (map snd v)); VArrF wv;
                      VArrF rt0; VArrF [n0 N; n0 N; n0 N; n0 N; n0 N]])
  end.
Proof.
  intros Hlits HO v Hv Hrv Hnn Hrt Hn Hwv Hwt Hwp.
  rewrite (crps_gen_with N rows HO Hnn). fold v.
  assert (Hm : (0 < m)%nat).
  { destruct v as [|r0 v'] eqn:Ev; [contradiction|].
    assert (Hin : In r0 (filter (row_valid N) rows)) by (fold v; rewrite Ev; left; reflexivity).
    apply filter_In in Hin. destruct Hin as [_ Hval].
    unfold row_valid in Hval. apply andb_true_iff in Hval. destruct Hval as [_ Hval].
    assert (Hl : List.length (snd r0) = m) by (inversion Hrv; assumption). rewrite <- Hl.
    destruct (snd r0); [discriminate|cbn; lia]. }
  apply chk_refine_c_crps_all; try assumption. discriminate.
Qed.

(* The checked kernel returns 0 and delivers the model's outputs (no error path). *)
Corollary chk_refine_c_crps_ok (rows : list (T * list T)) (m : nat) (wv rt0 : list T) n :
  lits_ok N X -> ord_laws N (notnan N) ->
  let v := filter (row_valid N) rows in
  v <> [] ->
  Forall (fun r => List.length (snd r) = m) v ->
  Forall (fun r => Forall (notnan N) (snd r)) v ->
  List.length rt0 = (7 * S m)%nat ->
  (Nat.max (List.length v) (S m) < n)%nat ->
  Z.of_nat (List.length v) <= 2147483647 ->
  Z.of_nat m * 7 + 6 <= 2147483647 ->
  Z.of_nat m * Z.of_nat (List.length v) - 1 <= 2147483647 ->
  exists out, crps N rows = Some out /\
    exec_fun N X program_chk (S n) "c_crps" (crps_args N CRPS_USE_WEIGHTS CRPS_IS_SORTED v m wv rt0)
    = Ok (RI 0, [VArrF (map fst v); VArrF (List.concat (map snd v)); VArrF wv;
                 VArrF (table_vals (o_table out)); VArrF (dec_vals out)]).
Proof.
  intros Hlits HO v Hv Hrv Hnn Hrt Hn Hwv Hwt Hwp.
  destruct (crps_defined N rows HO Hv Hnn) as (out & Hout).
  exists out. split; [exact Hout|].
  pose proof (chk_refine_c_crps rows m wv rt0 n Hlits HO Hv Hrv Hnn Hrt Hn Hwv Hwt Hwp) as H.
  rewrite Hout in H. exact H.
Qed.

End Refine.

(* over the reals: no hypothesis on the data at all *)
Corollary chk_refine_c_crps_RR (rows : list (R * list R)) (m : nat) (wv rt0 : list R) n :
  let v := filter (row_valid RR) rows in
  v <> [] ->
  Forall (fun r => List.length (snd r) = m) v ->
  List.length rt0 = (7 * S m)%nat ->
  (Nat.max (List.length v) (S m) < n)%nat ->
  Z.of_nat (List.length v) <= 2147483647 ->
  Z.of_nat m * 7 + 6 <= 2147483647 ->
  Z.of_nat m * Z.of_nat (List.length v) - 1 <= 2147483647 ->
  exists out, crps RR rows = Some out /\
    exec_fun RR XRR program_chk (S n) "c_crps" (crps_args RR CRPS_USE_WEIGHTS CRPS_IS_SORTED v m wv rt0)
    = Ok (RI 0, [VArrF (map fst v); VArrF (List.concat (map snd v)); VArrF wv;
                 VArrF (table_vals (o_table out)); VArrF (dec_vals out)]).
Proof.
  intros v Hv Hrv Hrt Hn Hwv Hwt Hwp.
  apply (chk_refine_c_crps_ok RR XRR rows m wv rt0 n lits_ok_RR); try assumption.
  - apply (ord_laws_weaken RR (fun _ => True)); [trivial|exact ord_laws_RR].
  - apply Forall_forall. intros r _. apply Forall_forall. intros x _. reflexivity.
Qed.

(* reals with a missing value: the ensembles must not contain the missing value *)
Corollary chk_refine_c_crps_RN (rows : list (option R * list (option R))) (m : nat)
          (wv rt0 : list (option R)) n :
  let v := filter (row_valid RN) rows in
  v <> [] ->
  Forall (fun r => List.length (snd r) = m) v ->
  Forall (fun r => Forall (fun x => x <> None) (snd r)) v ->
  List.length rt0 = (7 * S m)%nat ->
  (Nat.max (List.length v) (S m) < n)%nat ->
  Z.of_nat (List.length v) <= 2147483647 ->
  Z.of_nat m * 7 + 6 <= 2147483647 ->
  Z.of_nat m * Z.of_nat (List.length v) - 1 <= 2147483647 ->
  exists out, crps RN rows = Some out /\
    exec_fun RN XRN program_chk (S n) "c_crps" (crps_args RN CRPS_USE_WEIGHTS CRPS_IS_SORTED v m wv rt0)
    = Ok (RI 0, [VArrF (map fst v); VArrF (List.concat (map snd v)); VArrF wv;
                 VArrF (table_vals (o_table out)); VArrF (dec_vals out)]).
Proof.
  intros v Hv Hrv Hnn Hrt Hn Hwv Hwt Hwp.
  apply (chk_refine_c_crps_ok RN XRN rows m wv rt0 n lits_ok_RN); try assumption.
  - exact ord_laws_RN.
  - eapply Forall_impl; [|exact Hnn]. intros r Hr.
    eapply Forall_impl; [|exact Hr]. intros [x|] Hx; [reflexivity|contradiction].
Qed.

(* ################################################################## *)
(* PART 5: the size hypothesis on ncol*nval is necessary                *)
(* ################################################################## *)

Section LoopPrefix.
Context {T : Type}.

(* a loop whose first K iterations run normally and whose iteration K fails *)
Lemma loop_prefix_err (Inv : nat -> state T -> Prop) (Post : nat -> outcome T * state T -> Prop)
      (K : nat) (cond : state T -> result bool) (body : state T -> result (outcome T * state T)) e :
  (forall k st, Inv k st -> (k < K)%nat ->
     match cond st with
     | Ok false => Post k (ONormal, st)
     | Ok true =>
         match body st with
         | Ok (ONormal, st') => Inv (S k) st'
         | Ok (OContinue, st') => Inv (S k) st'
         | Ok (OBreak, st') => Post k (ONormal, st')
         | Ok (ORet v, st') => Post k (ORet v, st')
         | Err _ => False
         end
     | Err _ => False
     end) ->
  (forall k r, (k < K)%nat -> Post k r -> False) ->
  (forall st, Inv K st -> cond st = Ok true /\ body st = Err e) ->
  forall fuel k st, Inv k st -> (k <= K)%nat -> (K < fuel + k)%nat ->
  loop fuel cond body st = Err e.
Proof.
  intros Hstep Hpost Hlast fuel. induction fuel as [|f IH]; intros k st HI Hk Hf; [lia|].
  destruct (Nat.eq_dec k K) as [->|Hne].
  - destruct (Hlast st HI) as [Hc Hb]. cbn [loop]. rewrite Hc, Hb. reflexivity.
  - assert (Hlt : (k < K)%nat) by lia.
    specialize (Hstep k st HI Hlt). cbn [loop].
    destruct (cond st) as [[|]|]; [|exfalso; exact (Hpost _ _ Hlt Hstep)|contradiction].
    destruct (body st) as [[[| | |rv] st']|]; try contradiction;
      try (exfalso; exact (Hpost _ _ Hlt Hstep)).
    + apply (IH (S k) st' Hstep); lia.
    + apply (IH (S k) st' Hstep); lia.
Qed.

End LoopPrefix.


Section Witness.
Context {T : Type} (N : NumOps T) (X : NumLit T).

(* iteration i of the loop over the forecasts when ncol*i does not fit an int *)
Lemma chk_L2_step_overflow (callf : callee T) n (m : nat) uw isrt pot pj wv rt dec g r c
      (v : list (T * list T)) w ii st :
  L2_inv N m uw isrt pot pj wv rt dec g r c v w ii st ->
  (ii < List.length v)%nat -> (0 < m)%nat -> (0 < n)%nat ->
  2147483647 < Z.of_nat m * Z.of_nat ii ->
  cond_of N X (for_c L2k) st = Ok true /\
  for_body (exec N X callf n (for_b L2k)) (exec N X callf n (for_s L2k)) st
  = Err (Overflow true (Z.of_nat m * Z.of_nat ii)).
Proof.
  intros (vd & vt & j & k & w' & wk' & unc & dobs' & ecur & z & Hinv) Hlt Hm Hn Hov.
  cbv zeta in Hinv. destruct Hinv as (Hv & Hii & Hec & Hlab & Hex & Hunc & ->).
  destruct n as [|n']; [lia|].
  assert (Hw : in_width W32 (Z.of_nat m * Z.of_nat ii) = false).
  { unfold in_width. apply andb_false_iff. right. apply Z.leb_gt. lia. }
  unfold L2k, acc_a, acc_b, acc_o, cr_state. cbn [for_c for_b for_s]. cbn.
  replace (Z.of_nat ii <? Z.of_nat (List.length v)) with true by (symmetry; apply Z.ltb_lt; lia).
  split; [reflexivity|].
  replace (0 <? Z.of_nat m) with true by (symmetry; apply Z.ltb_lt; lia).
  cbn. rewrite Hw. cbn. reflexivity.
Qed.

End Witness.


Section Witness2.
Context {T : Type} (N : NumOps T) (X : NumLit T).

Lemma exec_seq_err (callf : callee T) n a b st e :
  exec N X callf n a st = Err e -> exec N X callf n (SSeq a b) st = Err e.
Proof. intros H. cbn [exec]. rewrite H. reflexivity. Qed.

(* the loop over the forecasts stops with the overflow of ncol*i at i = K, ncol*K = 2^31 *)
Lemma chk_L2_overflow (callf : callee T) n (m : nat) uw isrt pot pj wv rt dec g r c
      (v : list (T * list T)) j0 k0 w0 wk0 unc0 dobs0 e0 z0 a0 b0 o0 (K : nat) :
  (forall a b, callf "c_crps.compare" [AVArrF [a]; AVArrF [b]]
               = Ok (RI (cmpz N a b), [VArrF [a]; VArrF [b]])) ->
  nofZ N 1 = n1 N -> uw <> 1 -> (0 < m)%nat ->
  Forall (fun r => List.length (snd r) = m) v ->
  List.length e0 = m ->
  a0 = acc_a N (acc0 N (m - 1)) -> b0 = acc_b N (acc0 N (m - 1)) -> o0 = acc_o N m (acc0 N (m - 1)) ->
  unc0 = n0 N ->
  (List.length v < n)%nat -> (m < n)%nat ->
  Z.of_nat m <= 2147483647 ->
  (K < List.length v)%nat -> Z.of_nat K <= 2147483647 ->
  Z.of_nat m * Z.of_nat K = 2147483648 ->
  existsb (fun r => unsorted N (snd r)) (sortedv N isrt v) = false ->
  run_for N X callf n L2k
    (cr_state (Z.of_nat (List.length v)) (Z.of_nat m) uw isrt 0 j0 k0 w0 wk0 pot pj unc0 dobs0
              (map fst v) (List.concat (map snd v)) wv rt dec (e0 ++ [z0]) a0 b0 g o0 r c)
  = Err (Overflow true 2147483648).
Proof.
  intros Hcmp H1 Huw Hm Hrows He0 Ha0 Hb0 Ho0 Hu0 Hn Hnm Hwm HK HKw HmK Hex.
  set (w := ndiv N (n1 N) (nofZ N (Z.of_nat (List.length v)))).
  unfold run_for.
  apply (loop_prefix_err (L2_inv N m uw isrt pot pj wv rt dec g r c v w)
                         (L2_post_at N m uw isrt pot pj wv rt dec g r c v w) K) with (k := O).
  - intros k st HI Hlt.
    assert (Hsz : (k < List.length v)%nat ->
                  Z.of_nat k + 1 <= 2147483647 /\
                  Z.of_nat m * Z.of_nat k + Z.of_nat m - 1 <= 2147483647).
    { intros _. split; [lia|].
      assert (Z.of_nat m * (Z.of_nat k + 1) <= Z.of_nat m * Z.of_nat K)
        by (apply Z.mul_le_mono_nonneg_l; lia).
      lia. }
    exact (proj2 (chk_L2_step N X callf n m uw isrt pot pj wv rt dec g r c v Hcmp H1 Huw Hm Hrows
                              Hn Hnm Hwm k st HI Hsz)).
  - intros k [o st] Hlt [HP Hk].
    destruct HP as [(_ & j & k1 & w' & wk' & dobs' & ens & E)|(Hex' & _)].
    + cbv zeta in E. inversion E; subst o. specialize (Hk eq_refl). lia.
    + rewrite Hex in Hex'. discriminate Hex'.
  - intros st HI. rewrite <- HmK.
    apply (chk_L2_step_overflow N X callf n m uw isrt pot pj wv rt dec g r c v w K st HI); lia.
  - exists [], v, j0, k0, w0, wk0, unc0, dobs0, e0, z0. cbv zeta.
    unfold sortedv. cbn [map].
    change (fold_left (row_step N w) [] (acc0 N (m - 1))) with (acc0 N (m - 1)).
    split; [reflexivity|]. split; [reflexivity|]. split; [exact He0|].
    split; [rewrite acc0_ab_length; lia|].
    split; [reflexivity|].
    split; [subst unc0; reflexivity|].
    subst a0 b0 o0. reflexivity.
  - lia.
  - lia.
Qed.

(* FINDING (theoretical: a [sim] of at least 2^31 doubles, 16 GiB).  The flat index of
   sim[ncol*i+j] is computed in [int].  The Cython wrapper passes sim.shape[0], sim.shape[1]
   and checks nothing about their product.  For every ncol, K with ncol*K = 2^31
   (ncol = 2^30 members and K = 2; ncol = 2048 members and K = 2^20 forecasts ...) and every
   call with nval > K forecasts on which the kernel does not return EDOM, the product ncol*i
   overflows at i = K, whatever the data. *)
Theorem overflow_c_crps_sim_index (uw isrt : Z) (v : list (T * list T)) (m : nat) (wv rt0 : list T)
        n (K : nat) :
  lits_ok N X -> uw <> 1 ->
  (0 < m)%nat ->
  Forall (fun r => List.length (snd r) = m) v ->
  (Nat.max (List.length v) (S m) < n)%nat ->
  Z.of_nat m + 1 <= 2147483647 ->
  (K < List.length v)%nat -> Z.of_nat K <= 2147483647 ->
  Z.of_nat m * Z.of_nat K = 2147483648 ->
  existsb (fun r => unsorted N (snd r)) (sortedv N isrt v) = false ->
  exec_fun N X program_chk (S n) "c_crps" (crps_args N uw isrt v m wv rt0)
  = Err (Overflow true 2147483648).
Proof.
  intros Hlits Huw Hm Hrows Hn Hwm1 HK HKw HmK Hex.
  destruct Hlits as (HZ0 & HZ1 & HL0 & HL1).
  assert (Hcmp : forall a b, exec_fun N X program_chk n "c_crps.compare" [AVArrF [a]; AVArrF [b]]
                             = Ok (RI (cmpz N a b), [VArrF [a]; VArrF [b]])).
  { intros a b. destruct n as [|n']; [lia|]. apply chk_compare_run. }
  assert (Hn1 : (S m < n)%nat) by lia.
  assert (Hn2 : (List.length v < n)%nat) by lia.
  assert (Hn3 : (m < n)%nat) by lia.
  assert (Hwm : Z.of_nat m <= 2147483647) by lia.
  assert (Hwc : in_width W32 (Z.of_nat m + 1) = true) by (apply in_width_W32; lia).
  destruct (acc_init N m Hm) as (Ea & Eb & Eo).
  set (cf := exec_fun N X program_chk n).
  rewrite exec_fun_unfold, find_c_crps_chk. fold cf. unfold crps_args.
  cbn [bind fst snd]. unfold crps_params_k at 1. cbn [bind_params bind]. norm_state.
  unfold crps_body_k.
  repeat (seq_step ltac:(cbn; rewrite ?Hwc; cbn; repeat (rewrite new_arr_zero; cbn); rewrite ?HL0, ?HZ0;
                         norm_state; reflexivity)).
  seq_step ltac:(exact (chk_L1_run N X cf n (Z.of_nat (List.length v)) m uw isrt 0 0
                (n0 N) (n0 N) (n0 N) (n0 N) (n0 N) (n0 N) (map fst v) (List.concat (map snd v)) wv rt0
                [n0 N; n0 N; n0 N; n0 N; n0 N] (repeat (n0 N) (S m)) (repeat (n0 N) (S m))
                (repeat (n0 N) (S m)) HZ0 Hwm1 Hn1)).
  seq_step ltac:(cbn; norm_state; reflexivity).
  pose proof (chk_L2_overflow cf n m uw isrt (n0 N) (n0 N) wv rt0
                [n0 N; n0 N; n0 N; n0 N; n0 N] (repeat (n0 N) (S m)) (repeat (n0 N) (S m))
                (repeat (n0 N) (S m)) v (Z.of_nat (S m)) 0 (n0 N) (n0 N) (n0 N) (n0 N)
                (repeat (n0 N) m) (n0 N) (repeat (n0 N) (S m)) (repeat (n0 N) (S m))
                (repeat (n0 N) (S m)) K Hcmp HZ1 Huw Hm Hrows (repeat_length _ _) Ea Eb Eo eq_refl
                Hn2 Hn3 Hwm HK HKw HmK Hex) as HL2.
  rewrite repeat_snoc in HL2.
  match goal with
  | |- context[exec ?N0 ?X0 ?cf0 ?n0 (SSeq ?a0 ?b0) ?st] =>
      rewrite (exec_seq_err cf0 n0 a0 b0 st _ HL2)
  end.
  reflexivity.
Qed.

(* the malloc size ncol+1 is computed in [int]: ncol = INT_MAX overflows before any access *)
Theorem overflow_c_crps_ncol_plus_1 (nval uw isrt : Z) (obs sim wv rt dec : list T) n :
  exec_fun N X program_chk (S n) "c_crps"
    [AVI nval; AVI 2147483647; AVI uw; AVI isrt; AVArrF obs; AVArrF sim; AVArrF wv; AVArrF rt; AVArrF dec]
  = Err (Overflow true 2147483648).
Proof.
  rewrite exec_fun_unfold, find_c_crps_chk.
  cbn [bind fst snd]. unfold crps_params_k at 1. cbn [bind_params bind]. norm_state.
  unfold crps_body_k.
  repeat (seq_step ltac:(cbn; norm_state; reflexivity)).
  match goal with
  | |- context[exec ?N0 ?X0 ?cf0 ?n0 (SSeq ?a0 ?b0) ?st] =>
      rewrite (exec_seq_err cf0 n0 a0 b0 st (Overflow true 2147483648))
  end; reflexivity.
Qed.

End Witness2.


Section Witness3.
Context {T : Type} (N : NumOps T) (X : NumLit T).

(* iteration j = 306783378 of loop 3: j*7+1 = INT_MAX, j*7+2 = 2^31 *)
Lemma chk_L3_step_overflow (callf : callee T) n nval (m : nat) uw isrt i k w wk pot0 unc dobs
      obs sim wv d0 d1 d2 d3 d4 ens A B Oa K st :
  lits_ok N X -> List.length A = S m ->
  Z.of_nat m + 1 <= 2147483647 ->
  L3_inv N nval m uw isrt i k w wk pot0 unc dobs obs sim wv d0 d1 d2 d3 d4 ens A B Oa K st ->
  (K < S m)%nat -> Z.of_nat K = 306783378 ->
  cond_of N X (for_c L3k) st = Ok true /\
  for_body (exec N X callf n (for_b L3k)) (exec N X callf n (for_s L3k)) st
  = Err (Overflow true 2147483648).
Proof.
  intros (HZ0 & HZ1 & HL0 & HL1) HA Hwm1 HI HK HKv.
  unfold L3_inv in HI. cbv zeta in HI.
  destruct HI as (Ad & At & Bd & Bt & Od & Ot & Rt & Ct & tbd & rtt & pj' &
                  HAs & HBs & HOs & HlA & HlB & HlO & Hltb & HlBt & HlOt & HlRt & HlCt & Hlrtt & Htb & ->).
  assert (Hjm : S m = (K + List.length At)%nat) by (rewrite <- HA, HAs, app_length; lia).
  assert (Hwc : in_width W32 (Z.of_nat m + 1) = true) by (apply in_width_W32; lia).
  destruct At as [|aj At]; [cbn in Hjm; lia|].
  destruct Bt as [|bj Bt]; [discriminate|]. destruct Ot as [|oj Ot]; [discriminate|].
  destruct Rt as [|rj Rt]; [discriminate|]. destruct Ct as [|cj Ct]; [discriminate|].
  destruct rtt as [|x0 [|x1 [|x2 [|x3 [|x4 [|x5 [|x6 rtt]]]]]]]; try (cbn in Hlrtt; lia).
  cbn in Hjm, HlBt, HlOt, HlRt, HlCt, Hlrtt.
  assert (Hga : zget A (Z.of_nat K) = Some aj) by (rewrite HAs; apply zget_app; lia).
  assert (Hgb : zget B (Z.of_nat K) = Some bj) by (rewrite HBs; apply zget_app; lia).
  change (repeat (n0 N) (List.length (aj :: At))) with (n0 N :: repeat (n0 N) (List.length At)).
  remember (map t_g tbd) as Gd eqn:EGd. remember (map t_o tbd) as Odd eqn:EOd.
  remember (map t_r tbd) as Rd eqn:ERd. remember (map t_c tbd) as Cd eqn:ECd.
  remember (table_vals tbd) as RTd eqn:ERT.
  remember (repeat (n0 N) (List.length At)) as Gt eqn:EGt.
  assert (HlG : Z.of_nat K = Z.of_nat (List.length Gd)) by (rewrite EGd, map_length; lia).
  assert (HlOd : Z.of_nat K = Z.of_nat (List.length Odd)) by (rewrite EOd, map_length; lia).
  assert (HlRd : Z.of_nat K = Z.of_nat (List.length Rd)) by (rewrite ERd, map_length; lia).
  assert (HlCd : Z.of_nat K = Z.of_nat (List.length Cd)) by (rewrite ECd, map_length; lia).
  assert (HlRT : Z.of_nat K * 7 = Z.of_nat (List.length RTd)) by (rewrite ERT, table_vals_length; lia).
  assert (Hw0 : in_width W32 (Z.of_nat K * 7) = true) by (apply in_width_W32; lia).
  assert (Hw1 : in_width W32 (Z.of_nat K * 7 + 1) = true) by (apply in_width_W32; lia).
  assert (Hw2 : in_width W32 (Z.of_nat K * 7 + 2) = false).
  { unfold in_width. apply andb_false_iff. right. apply Z.leb_gt. lia. }
  split.
  { unfold L3k, cr_state. cbn [for_c]. cbn. rewrite Hwc. cbn.
    replace (Z.of_nat K <? Z.of_nat m + 1) with true by (symmetry; apply Z.ltb_lt; lia).
    reflexivity. }
  unfold L3k. cbn [for_b for_s]. unfold for_body.
  do 8 (seq_step ltac:(l3k_solve Hga Hgb HZ0 HZ1 HL0 HL1 Gd Odd Rd Cd RTd Hw0 Hw1 Hw0 Hw0 Hw0 Hw0 Hw0); abstract_ifs).
  match goal with
  | |- context[exec ?N0 ?X0 ?cf0 ?n0 (SSeq ?a0 ?b0) ?st] =>
      rewrite (exec_seq_err N0 X0 cf0 n0 a0 b0 st (Overflow true 2147483648))
  end; [reflexivity|].
  cbn. rewrite Hw0. cbn. rewrite Hw2. cbn. replace (Z.of_nat K * 7 + 2) with 2147483648 by lia.
  reflexivity.
Qed.

End Witness3.


Section Witness4.
Context {T : Type} (N : NumOps T) (X : NumLit T).

(* loop 3 stops with the overflow of j*ncol_rt+2 at j = 306783378 *)
Lemma chk_L3_overflow (callf : callee T) n nval (m : nat) uw isrt i k w wk pot0 pj0 unc dobs
      obs sim wv rt0 d0 d1 d2 d3 d4 ens A B Oa R C (K : nat) :
  lits_ok N X -> (0 < m)%nat ->
  List.length A = S m -> List.length B = S m -> List.length Oa = S m ->
  List.length R = S m -> List.length C = S m -> List.length rt0 = (7 * S m)%nat ->
  (S m < n)%nat ->
  Z.of_nat m + 1 <= 2147483647 ->
  Z.of_nat K = 306783378 -> (K <= m)%nat ->
  run_for N X callf n L3k
    (cr_state nval (Z.of_nat m) uw isrt i 0 k w wk pot0 pj0 unc dobs obs sim wv rt0
              [d0; d1; d2; d3; d4] ens A B (repeat (n0 N) (S m)) Oa R C)
  = Err (Overflow true 2147483648).
Proof.
  intros Hlits Hm HA HB HO HR HC Hrt Hn Hwm1 HKv HK.
  unfold run_for.
  apply (loop_prefix_err
           (L3_inv N nval m uw isrt i k w wk pot0 unc dobs obs sim wv d0 d1 d2 d3 d4 ens A B Oa)
           (L3_post_at N nval m uw isrt i k w wk pot0 unc dobs obs sim wv d0 d1 d2 d3 d4 ens A B Oa)
           K) with (k := O).
  - intros jj st HI Hlt.
    assert (Hsz : (jj < S m)%nat -> Z.of_nat jj * 7 + 6 <= 2147483647) by lia.
    exact (proj2 (chk_L3_step N X callf n nval m uw isrt i k w wk pot0 unc dobs obs sim wv
                              d0 d1 d2 d3 d4 ens A B Oa Hlits Hm HA Hwm1 jj st HI Hsz)).
  - intros jj [o st] Hlt [(pj' & E) Hj]. cbv zeta in E. inversion E; subst o.
    specialize (Hj eq_refl). lia.
  - intros st HI.
    apply (chk_L3_step_overflow N X callf n nval m uw isrt i k w wk pot0 unc dobs obs sim wv
                                d0 d1 d2 d3 d4 ens A B Oa K st Hlits HA Hwm1 HI); [lia|exact HKv].
  - unfold L3_inv. cbv zeta.
    exists [], A, [], B, [], Oa, R, C, [], rt0, pj0.
    repeat split; try reflexivity; try lia.
    rewrite HA. reflexivity.
  - lia.
  - lia.
Qed.

(* FINDING (theoretical: ncol >= 306783378 members, a reliability_table of 16 GiB).  The flat
   index of reliability_table[j*ncol_rt+2] is computed in [int]: with 7*ncol+6 > INT_MAX the
   kernel overflows at j = 306783378 (j*7+2 = 2^31), on every call on which it does not
   return EDOM: the hypothesis  ncol*7+6 <= INT_MAX  of the theorems above is necessary. *)
Theorem overflow_c_crps_table_index (uw isrt : Z) (v : list (T * list T)) (m : nat) (wv rt0 : list T) n :
  lits_ok N X -> uw <> 1 ->
  (0 < m)%nat ->
  Forall (fun r => List.length (snd r) = m) v ->
  List.length rt0 = (7 * S m)%nat ->
  (Nat.max (List.length v) (S m) < n)%nat ->
  Z.of_nat (List.length v) <= 2147483647 ->
  Z.of_nat m + 1 <= 2147483647 ->
  Z.of_nat m * Z.of_nat (List.length v) - 1 <= 2147483647 ->
  existsb (fun r => unsorted N (snd r)) (sortedv N isrt v) = false ->
  2147483647 < Z.of_nat m * 7 + 6 ->
  exec_fun N X program_chk (S n) "c_crps" (crps_args N uw isrt v m wv rt0)
  = Err (Overflow true 2147483648).
Proof.
  intros Hlits Huw Hm Hrows Hrt Hn Hwv Hwm1 Hwp Hex Hbig.
  destruct (Z_of_nat_complete 306783378) as [K HKv]; [lia|]. symmetry in HKv.
  assert (HK : (K <= m)%nat) by lia.
  assert (Hlits' := Hlits). destruct Hlits' as (HZ0 & HZ1 & HL0 & HL1).
  assert (Hcmp : forall a b, exec_fun N X program_chk n "c_crps.compare" [AVArrF [a]; AVArrF [b]]
                             = Ok (RI (cmpz N a b), [VArrF [a]; VArrF [b]])).
  { intros a b. destruct n as [|n']; [lia|]. apply chk_compare_run. }
  assert (Hn1 : (S m < n)%nat) by lia.
  assert (Hn2 : (List.length v < n)%nat) by lia.
  assert (Hn3 : (m < n)%nat) by lia.
  assert (Hwm : Z.of_nat m <= 2147483647) by lia.
  assert (Hwc : in_width W32 (Z.of_nat m + 1) = true) by (apply in_width_W32; lia).
  set (w := ndiv N (n1 N) (nofZ N (Z.of_nat (List.length v)))).
  set (s := fold_left (row_step N w) (sortedv N isrt v) (acc0 N (m - 1))).
  set (unc := unc_loop N w [] (map fst v) (n0 N)).
  assert (Hlab : S (List.length (ac_ab s)) = m)
    by (unfold s; rewrite row_step_ab_length, acc0_ab_length; lia).
  destruct (acc_init N m Hm) as (Ea & Eb & Eo).
  set (cf := exec_fun N X program_chk n).
  rewrite exec_fun_unfold, find_c_crps_chk. fold cf. unfold crps_args.
  cbn [bind fst snd]. unfold crps_params_k at 1. cbn [bind_params bind]. norm_state.
  unfold crps_body_k.
  repeat (seq_step ltac:(cbn; rewrite ?Hwc; cbn; repeat (rewrite new_arr_zero; cbn); rewrite ?HL0, ?HZ0;
                         norm_state; reflexivity)).
  seq_step ltac:(exact (chk_L1_run N X cf n (Z.of_nat (List.length v)) m uw isrt 0 0
                (n0 N) (n0 N) (n0 N) (n0 N) (n0 N) (n0 N) (map fst v) (List.concat (map snd v)) wv rt0
                [n0 N; n0 N; n0 N; n0 N; n0 N] (repeat (n0 N) (S m)) (repeat (n0 N) (S m))
                (repeat (n0 N) (S m)) HZ0 Hwm1 Hn1)).
  seq_step ltac:(cbn; norm_state; reflexivity).
  pose proof (chk_L2_run N X cf n m uw isrt (n0 N) (n0 N) wv rt0
                [n0 N; n0 N; n0 N; n0 N; n0 N] (repeat (n0 N) (S m)) (repeat (n0 N) (S m))
                (repeat (n0 N) (S m)) v (Z.of_nat (S m)) 0 (n0 N) (n0 N) (n0 N) (n0 N)
                (repeat (n0 N) m) (n0 N) (repeat (n0 N) (S m)) (repeat (n0 N) (S m))
                (repeat (n0 N) (S m)) Hcmp HZ1 Huw Hm Hrows (repeat_length _ _) Ea Eb Eo eq_refl
                Hn2 Hn3 Hwv Hwm Hwp) as HL2run.
  cbv zeta in HL2run. rewrite repeat_snoc in HL2run. fold w in HL2run.
  destruct HL2run as (r0 & Hr0 & Hpost).
  destruct Hpost as [(_ & j & k & w' & wk' & dobs' & ens & Hst)|(Hex' & _)];
    [|rewrite Hex in Hex'; discriminate Hex'].
  cbv zeta in Hst. fold w s unc in Hst. subst r0.
  seq_step ltac:(exact Hr0). clear Hr0.
  do 3 (seq_step ltac:(unfold cr_state, acc_o;
                 repeat (progress (cbn; rewrite ?truth_b2z, ?HL1, ?hml_get0, ?hml_set0,
                                          ?hml_getN, ?hml_setN by (rewrite ?repeat_length; lia));
                         try merge_if_cr);
                 norm_state; reflexivity)).
  assert (HlA : List.length (acc_a N s) = S m) by (unfold acc_a; rewrite hml_length, map_length; lia).
  assert (HlB : List.length (acc_b N s) = S m) by (unfold acc_b; rewrite hml_length, map_length; lia).
  assert (HlO : List.length (hml (clamp1 N true (ac_o0 s)) (repeat (n0 N) (m - 1))
                                 (clamp1 N true (ac_oN s))) = S m)
    by (rewrite hml_length, repeat_length; lia).
  pose proof (chk_L3_overflow cf n (Z.of_nat (List.length v)) m uw isrt
                (Z.of_nat (List.length v)) k w' wk' (n0 N) (n0 N)
                unc dobs' (map fst v) (List.concat (map snd v)) wv rt0
                (n0 N) (n0 N) (n0 N) (n0 N) (n0 N) ens (acc_a N s) (acc_b N s)
                (hml (clamp1 N true (ac_o0 s)) (repeat (n0 N) (m - 1)) (clamp1 N true (ac_oN s)))
                (repeat (n0 N) (S m)) (repeat (n0 N) (S m)) K
                Hlits Hm HlA HlB HlO (repeat_length _ _) (repeat_length _ _) Hrt Hn1 Hwm1 HKv HK) as HL3.
  match goal with
  | |- context[exec ?N0 ?X0 ?cf0 ?n0 (SSeq ?a0 ?b0) ?st] =>
      rewrite (exec_seq_err N X cf0 n0 a0 b0 st _ HL3)
  end.
  reflexivity.
Qed.

End Witness4.
