(* Theorems about Model/GridIO.v (property C13), part 2: a header written by
   Grid.save is read back by Grid.from_stream with the same shape,
   georeferencing, data type and no-data value. *)
From Coq Require Import ZArith Bool List String Ascii Lia.
From Hy Require Import Base.Num Gen.ConstsC13 Model.Grid Model.GridIO Proofs.GridIOProofs.
Import ListNotations.
Open Scope string_scope. Open Scope list_scope. Open Scope Z_scope.

(* the keys Grid.save writes are the ones the model gives a value to *)
Lemma save_keys_tie :
  SAVE_KEYS = ["NBITS"; "PIXELTYPE"; "BYTEORDER"; "NODATA_VALUE"; "NAME"; "COMMENT"].
Proof. reflexivity. Qed.

Section Header.
Context {T : Type} (N : NumOps T) (IO : IoOps T).
(* Python: float(format(x)) = x; a printed float has no white space and is not
   an integer literal (it contains '.', 'e', 'n' or 'inf') - trusted *)
Hypothesis pr_rd : forall x, io_rd IO (io_pr IO x) = Some x.
Hypothesis pr_tok : forall x, no_ws (io_pr IO x) = true.
Hypothesis pr_not_int : forall x, parse_Z (io_pr IO x) = None.

Notation cfgT := (@cfg T).
Notation state := (cfgT * cfgT)%type.

Definition apply_lres (r : @lres T) (pname : string) (st : state) : option state :=
  match r with
  | LRaise => None
  | LSkip => Some st
  | LVal v =>
      if String.prefix "parent" pname then Some (fst st, dset pname v (snd st))
      else Some (dset pname v (fst st), snd st)
  end.

Lemma apply_lres_noparent v pname st :
  String.prefix "parent" pname = false ->
  apply_lres (LVal v) pname st = Some (dset pname v (fst st), snd st).
Proof. intros H. unfold apply_lres. rewrite H. reflexivity. Qed.

Lemma parse_line_eq st l :
  parse_line IO st l =
  apply_lres (line_value IO key_class (tokens l) (lower (hd "" (tokens l))))
             (lower (hd "" (tokens l))) st.
Proof. reflexivity. Qed.

Lemma line_tokens w k v :
  no_sp k = true -> k <> "" -> no_sp v = true -> tokens (kv w k v) = [k; v +++ NL].
Proof. intros. rewrite kv_unfold. apply tokens_kv; assumption. Qed.

(* the text value stored for a text key whose line carries the text w *)
Definition textval (w : string) : string :=
  lower (strip (String.concat " " (split1 (collapse (w +++ NL) true)))).

Lemma parse_line_int w k pk z st :
  no_sp k = true -> k <> "" -> lower k = pk -> key_class pk = KCInt ->
  parse_line IO st (kv w k (show_Z z)) = apply_lres (LVal (CInt z)) pk st.
Proof.
  intros Hk Hne Hl Hc. rewrite parse_line_eq, line_tokens by (auto using show_Z_no_sp).
  cbn [hd]. rewrite Hl. unfold line_value. rewrite Hc. cbn [tl].
  rewrite strip_app_nl by apply show_Z_no_ws. rewrite parse_show. reflexivity.
Qed.

Lemma parse_line_flt w k pk x st :
  no_sp k = true -> k <> "" -> lower k = pk -> key_class pk = KCFloat ->
  parse_line IO st (kv w k (io_pr IO x)) = apply_lres (LVal (CFlt x)) pk st.
Proof.
  intros Hk Hne Hl Hc. rewrite parse_line_eq, line_tokens by (auto using no_ws_no_sp).
  cbn [hd]. rewrite Hl. unfold line_value. rewrite Hc. cbn [tl].
  rewrite strip_app_nl by apply pr_tok. rewrite pr_rd. reflexivity.
Qed.

Definition cval_of_nd (v : ndval T) : @cval T :=
  match v with NInt z => CInt z | NFlt x => CFlt x end.

Lemma show_nd_no_ws v : no_ws (show_nd IO v) = true.
Proof. destruct v; simpl; [apply show_Z_no_ws | apply pr_tok]. Qed.
Lemma show_p_no_ws v : no_ws (show_p IO v) = true.
Proof. destruct v; simpl; [apply show_Z_no_ws | apply pr_tok]. Qed.

Lemma parse_line_nodata w k pk v st :
  no_sp k = true -> k <> "" -> lower k = pk -> key_class pk = KCNodata ->
  parse_line IO st (kv w k (show_nd IO v)) = apply_lres (LVal (cval_of_nd v)) pk st.
Proof.
  intros Hk Hne Hl Hc.
  rewrite parse_line_eq, line_tokens by (auto using no_ws_no_sp, show_nd_no_ws).
  cbn [hd]. rewrite Hl. unfold line_value. rewrite Hc. cbn [tl].
  rewrite strip_app_nl by apply show_nd_no_ws. destruct v; simpl.
  - rewrite parse_show. reflexivity.
  - rewrite pr_not_int, pr_rd. reflexivity.
Qed.

Lemma parse_line_text w k pk txt st :
  no_sp k = true -> k <> "" -> lower k = pk -> key_class pk = KCText ->
  parse_line IO st (kv w k txt) = apply_lres (LVal (CText (textval txt))) pk st.
Proof.
  intros Hk Hne Hl Hc. rewrite parse_line_eq, kv_unfold, tokens_key by assumption.
  cbn [hd]. rewrite Hl. unfold line_value. rewrite Hc. reflexivity.
Qed.

(* ---------------- parent attribute lines ---------------- *)
Definition pkey_ok (k : string) : Prop :=
  no_sp (upper k) = true /\ upper k <> "" /\ no_nl (upper k) = true /\
  String.prefix "parent" (lower (upper k)) = true /\
  (key_class (lower (upper k)) = KCInt \/ key_class (lower (upper k)) = KCFloat).

Lemma parse_parent_line w k v (c p : cfgT) :
  pkey_ok k -> exists p', parse_line IO (c, p) (kv w (upper k) (show_p IO v)) = Some (c, p').
Proof.
  intros (Hs & Hne & _ & Hp & Hc).
  rewrite parse_line_eq, line_tokens by (auto using no_ws_no_sp, show_p_no_ws).
  cbn [hd]. unfold line_value. destruct Hc as [Hc|Hc]; rewrite Hc; cbn [tl];
    rewrite strip_app_nl by apply show_p_no_ws.
  - destruct (parse_Z (show_p IO v)); unfold apply_lres; [rewrite Hp|]; eauto.
  - destruct (io_rd IO (show_p IO v)); unfold apply_lres; [rewrite Hp|]; eauto.
Qed.

Definition pl (st : option state) (ls : list string) : option state :=
  fold_left (fun st l => match st with Some s => parse_line IO s l | None => None end) ls st.

Lemma pl_cons s l ls : pl (Some s) (l :: ls) = pl (parse_line IO s l) ls.
Proof. reflexivity. Qed.
Lemma pl_app st l1 l2 : pl st (l1 ++ l2) = pl (pl st l1) l2.
Proof. apply fold_left_app. Qed.

Definition plines (w : Z) (par : list (string * pval T)) (attrs : list string) : list string :=
  flat_map (fun a =>
    let k := "parentgrid_" +++ a in
    match lookup k par with
    | Some v => [kv w (upper k) (show_p IO v)]
    | None => []
    end) attrs.

Lemma parse_plines w par attrs (c p : cfgT) :
  Forall (fun a => pkey_ok ("parentgrid_" +++ a)) attrs ->
  exists p', pl (Some (c, p)) (plines w par attrs) = Some (c, p').
Proof.
  intros H. revert p. induction H as [|a attrs Ha _ IH]; intros p.
  - exists p. reflexivity.
  - unfold plines. cbn [flat_map]. fold (plines w par attrs).
    destruct (lookup ("parentgrid_" +++ a) par) as [v|].
    + cbn [app]. rewrite pl_cons.
      destruct (parse_parent_line w _ v c p Ha) as [p1 E]. rewrite E. apply IH.
    + apply IH.
Qed.

Lemma plines_wf w par attrs :
  Forall (fun a => pkey_ok ("parentgrid_" +++ a)) attrs -> Forall line_wf (plines w par attrs).
Proof.
  induction 1 as [|a attrs Ha _ IH]; [constructor|].
  unfold plines. cbn [flat_map]. fold (plines w par attrs).
  destruct (lookup ("parentgrid_" +++ a) par) as [v|]; [|assumption].
  constructor; [|assumption]. destruct Ha as (_ & _ & Hn & _).
  apply kv_line_wf; [assumption|]. apply no_ws_no_nl, show_p_no_ws.
Qed.

Lemma save_parent_attrs_ok :
  Forall (fun a => pkey_ok ("parentgrid_" +++ a)) SAVE_PARENT_ATTRS.
Proof.
  unfold SAVE_PARENT_ATTRS.
  repeat (constructor; [unfold pkey_ok; vm_compute; intuition congruence|]). constructor.
Qed.

(* ---------------- the whole header ---------------- *)
Definition meta_wf (m : gmeta T) : Prop :=
  1 <= g_nrows m < 2 ^ 63 /\ 1 <= g_ncols m < 2 ^ 63 /\
  In (g_dtype m) all_dtypes /\
  conv_nodata N IO (g_dtype m) (g_nodata m) = Some (g_nodata m) /\
  no_nl (g_name m) = true /\ no_nl (g_comment m) = true.

Definition main_lines (bo : border) (m : gmeta T) : list string :=
  let w := SAVE_WIDTH in
  [kv w "NROWS" (show_Z (g_nrows m)); kv w "NCOLS" (show_Z (g_ncols m));
   kv w "XLLCORNER" (io_pr IO (g_xll m)); kv w "YLLCORNER" (io_pr IO (g_yll m));
   kv w "CELLSIZE" (io_pr IO (g_csz m));
   kv w "NBITS" (show_Z (snd (g_dtype m) * 8));
   kv w "PIXELTYPE" (upper (pixeltype_text (g_dtype m)));
   kv w "BYTEORDER" (border_letter bo);
   kv w "NODATA_VALUE" (show_nd IO (g_nodata m));
   kv w "NAME" (g_name m);
   kv w "COMMENT" (if String.eqb (g_comment m) "" then SAVE_EMPTY_COMMENT else g_comment m)].

(* the field widths and the text replacing an empty comment stay symbolic: a
   change of these constants in the source keeps the proofs *)
Lemma header_lines_eq bo m :
  header_lines IO bo m = main_lines bo m ++ plines SAVE_PARENT_WIDTH (g_parent m) SAVE_PARENT_ATTRS.
Proof. reflexivity. Qed.

Lemma in_i64_true z : - 2 ^ 63 <= z < 2 ^ 63 -> in_i64 z = true.
Proof.
  intros [A B]. unfold in_i64. apply andb_true_iff. split; [apply Z.leb_le | apply Z.ltb_lt]; assumption.
Qed.

Lemma mk_grid_ok name nc nr csz xll yll d nd nd' comment :
  0 <= nc < 2 ^ 63 -> 0 <= nr < 2 ^ 63 -> conv_nodata N IO d nd = Some nd' ->
  mk_grid N IO name nc (Some nr) csz xll yll d nd comment =
  Some (mkG name nc nr csz xll yll d nd' comment []).
Proof.
  intros Hc Hr Hn. unfold mk_grid.
  assert (P : 0 < 2 ^ 63) by reflexivity.
  rewrite !in_i64_true by lia. cbn [andb negb]. rewrite Hn.
  destruct (nr <? 0) eqn:E1; [apply Z.ltb_lt in E1; lia|].
  destruct (nc <? 0) eqn:E2; [apply Z.ltb_lt in E2; lia|]. reflexivity.
Qed.

Definition final_cfg (bo : border) (m : gmeta T) : cfgT :=
  [("xllcorner", CFlt (g_xll m)); ("yllcorner", CFlt (g_yll m)); ("cellsize", CFlt (g_csz m));
   ("nodata", CInt STREAM_DEF_NODATA); ("nbits", CInt (snd (g_dtype m) * 8));
   ("pixeltype", CText (textval (upper (pixeltype_text (g_dtype m)))));
   ("byteorder", CText (textval (border_letter bo)));
   ("comment", CText (textval (if String.eqb (g_comment m) "" then SAVE_EMPTY_COMMENT else g_comment m)));
   ("name", CText (textval (g_name m)));
   ("nrows", CInt (g_nrows m)); ("ncols", CInt (g_ncols m));
   ("nodata_value", cval_of_nd (g_nodata m))].

Lemma parse_main_lines defname bo m :
  pl (Some (stream_defaults N defname, [])) (main_lines bo m) = Some (final_cfg bo m, []).
Proof.
  unfold main_lines. cbv zeta.
  rewrite pl_cons, (parse_line_int SAVE_WIDTH "NROWS" "nrows") by (reflexivity || discriminate).
  rewrite apply_lres_noparent by reflexivity. cbn [fst snd].
  rewrite pl_cons, (parse_line_int SAVE_WIDTH "NCOLS" "ncols") by (reflexivity || discriminate).
  rewrite apply_lres_noparent by reflexivity. cbn [fst snd].
  rewrite pl_cons, (parse_line_flt SAVE_WIDTH "XLLCORNER" "xllcorner") by (reflexivity || discriminate).
  rewrite apply_lres_noparent by reflexivity. cbn [fst snd].
  rewrite pl_cons, (parse_line_flt SAVE_WIDTH "YLLCORNER" "yllcorner") by (reflexivity || discriminate).
  rewrite apply_lres_noparent by reflexivity. cbn [fst snd].
  rewrite pl_cons, (parse_line_flt SAVE_WIDTH "CELLSIZE" "cellsize") by (reflexivity || discriminate).
  rewrite apply_lres_noparent by reflexivity. cbn [fst snd].
  rewrite pl_cons, (parse_line_int SAVE_WIDTH "NBITS" "nbits") by (reflexivity || discriminate).
  rewrite apply_lres_noparent by reflexivity. cbn [fst snd].
  rewrite pl_cons, (parse_line_text SAVE_WIDTH "PIXELTYPE" "pixeltype") by (reflexivity || discriminate).
  rewrite apply_lres_noparent by reflexivity. cbn [fst snd].
  rewrite pl_cons, (parse_line_text SAVE_WIDTH "BYTEORDER" "byteorder") by (reflexivity || discriminate).
  rewrite apply_lres_noparent by reflexivity. cbn [fst snd].
  rewrite pl_cons, (parse_line_nodata SAVE_WIDTH "NODATA_VALUE" "nodata_value") by (reflexivity || discriminate).
  rewrite apply_lres_noparent by reflexivity. cbn [fst snd].
  rewrite pl_cons, (parse_line_text SAVE_WIDTH "NAME" "name") by (reflexivity || discriminate).
  rewrite apply_lres_noparent by reflexivity. cbn [fst snd].
  rewrite pl_cons, (parse_line_text SAVE_WIDTH "COMMENT" "comment") by (reflexivity || discriminate).
  rewrite apply_lres_noparent by reflexivity. reflexivity.
Qed.

Lemma main_lines_wf bo m :
  no_nl (g_name m) = true -> no_nl (g_comment m) = true -> Forall line_wf (main_lines bo m).
Proof.
  intros Hn Hc. unfold main_lines. cbv zeta.
  assert (K : forall k v, no_nl k = true -> no_nl v = true -> line_wf (kv SAVE_WIDTH k v))
    by (intros; apply kv_line_wf; assumption).
  repeat constructor; apply K; try reflexivity.
  all: first [ apply show_Z_no_nl | apply no_ws_no_nl, pr_tok | apply no_ws_no_nl, show_nd_no_ws
             | assumption
             | (destruct (g_dtype m) as [[] b]; reflexivity)
             | (destruct bo; reflexivity)
             | (destruct (String.eqb (g_comment m) ""); [reflexivity|assumption]) ].
  (* SAVE_EMPTY_COMMENT has no newline: checked by computation on the extracted text *)
Qed.

Lemma textval_pixeltype d : textval (upper (pixeltype_text d)) = lower (upper (pixeltype_text d)).
Proof. destruct d as [[] b]; reflexivity. Qed.

Lemma nd_of_cval nd :
  match cval_of_nd nd with
  | CInt z => Some (NInt z)
  | CFlt x => Some (NFlt x)
  | CText _ => None
  end = Some nd.
Proof. destruct nd; reflexivity. Qed.

Lemma finish_final bo m p' :
  meta_wf m ->
  finish_stream N IO (final_cfg bo m, p') =
  Some (mkG (textval (g_name m)) (g_ncols m) (g_nrows m) (g_csz m) (g_xll m) (g_yll m)
            (g_dtype m) (g_nodata m)
            (textval (if String.eqb (g_comment m) "" then SAVE_EMPTY_COMMENT else g_comment m))
            (parent_of_cfg p'), bo).
Proof.
  intros (Hr & Hc & Hd & Hn & _ & _).
  assert (G : mk_grid N IO (textval (g_name m)) (g_ncols m) (Some (g_nrows m)) (g_csz m) (g_xll m)
                (g_yll m) (g_dtype m) (g_nodata m)
                (textval (if String.eqb (g_comment m) "" then SAVE_EMPTY_COMMENT else g_comment m)) =
              Some (mkG (textval (g_name m)) (g_ncols m) (g_nrows m) (g_csz m) (g_xll m) (g_yll m)
                        (g_dtype m) (g_nodata m)
                        (textval (if String.eqb (g_comment m) "" then SAVE_EMPTY_COMMENT else g_comment m)) []))
    by (apply mk_grid_ok; [lia | lia | assumption]).
  unfold final_cfg, finish_stream.
  destruct m as [name nc nr csz xll yll d nd comment par]. cbn [g_name g_ncols g_nrows g_csz g_xll g_yll
    g_dtype g_nodata g_comment g_parent] in *.
  set (tc := textval (if String.eqb comment "" then SAVE_EMPTY_COMMENT else comment)) in *.
  set (tn := textval name) in *.
  rewrite textval_pixeltype.
  pose proof (dtype_sweep d bo Hd) as S.
  set (pt := lower (upper (pixeltype_text d))) in *.
  set (nb := snd d * 8) in *.
  destruct bo.
  - change (textval (border_letter LE)) with "i".
    cbn -[mk_grid np_dtype resub_pt show_Z Z.div String.append]. cbn [border_char] in S. rewrite S.
    rewrite nd_of_cval, G. reflexivity.
  - change (textval (border_letter BE)) with "m".
    cbn -[mk_grid np_dtype resub_pt show_Z Z.div String.append]. cbn [border_char] in S. rewrite S.
    rewrite nd_of_cval, G. reflexivity.
Qed.

Lemma full_parse defname bo m :
  exists p', parse_lines_gen N IO key_class defname (header_lines IO bo m) = Some (final_cfg bo m, p').
Proof.
  unfold parse_lines_gen. rewrite header_lines_eq.
  change (fold_left _ ?ls ?st) with (pl st ls).
  rewrite pl_app, parse_main_lines.
  apply parse_plines, save_parent_attrs_ok.
Qed.

(* a header in the layout of Grid.save declaring byte order bo is read back
   with the same shape, georeferencing, data type, no-data value - and bo *)
Theorem header_roundtrip_bo defname bo m :
  meta_wf m ->
  exists m',
    from_stream_header N IO defname (header_text IO bo m) = Some (m', bo) /\
    g_nrows m' = g_nrows m /\ g_ncols m' = g_ncols m /\
    g_xll m' = g_xll m /\ g_yll m' = g_yll m /\ g_csz m' = g_csz m /\
    g_dtype m' = g_dtype m /\ g_nodata m' = g_nodata m.
Proof.
  intros Hwf. pose proof Hwf as (_ & _ & _ & _ & Hname & Hcomm).
  destruct (full_parse defname bo m) as [p' Hp].
  exists (mkG (textval (g_name m)) (g_ncols m) (g_nrows m) (g_csz m) (g_xll m) (g_yll m)
              (g_dtype m) (g_nodata m)
              (textval (if String.eqb (g_comment m) "" then SAVE_EMPTY_COMMENT else g_comment m))
              (parent_of_cfg p')).
  split; [|cbn; repeat split; reflexivity].
  unfold from_stream_header, from_stream_gen, header_text.
  rewrite readlines_concat.
  2:{ rewrite header_lines_eq. apply Forall_app. split.
      - apply main_lines_wf; assumption.
      - apply plines_wf, save_parent_attrs_ok. }
  rewrite Hp. apply finish_final. assumption.
Qed.

(* Grid.from_stream(Grid.save(m)) *)
Theorem header_roundtrip defname m :
  meta_wf m ->
  exists m',
    from_stream_header N IO defname (render_header IO m) = Some (m', LE) /\
    g_nrows m' = g_nrows m /\ g_ncols m' = g_ncols m /\
    g_xll m' = g_xll m /\ g_yll m' = g_yll m /\ g_csz m' = g_csz m /\
    g_dtype m' = g_dtype m /\ g_nodata m' = g_nodata m.
Proof. exact (header_roundtrip_bo defname LE m). Qed.

(* ---------------- ESRI style header (ULXMAP/ULYMAP/XDIM/YDIM, NODATA) ---------------- *)
(* the layout of the .hdr files that come with rasters produced elsewhere
   (gis/tests/fdtest.hdr): upper-left corner, cell dimensions, NODATA *)
Definition esri_lines (w : Z) (m : gmeta T) (ux uy xd yd : T) : list string :=
  [kv w "NROWS" (show_Z (g_nrows m)); kv w "NCOLS" (show_Z (g_ncols m));
   kv w "NBITS" (show_Z (snd (g_dtype m) * 8));
   kv w "PIXELTYPE" (upper (pixeltype_text (g_dtype m)));
   kv w "ULXMAP" (io_pr IO ux); kv w "ULYMAP" (io_pr IO uy);
   kv w "XDIM" (io_pr IO xd); kv w "YDIM" (io_pr IO yd);
   kv w "NODATA" (show_nd IO (g_nodata m))].

Definition esri_cfg (defname : string) (m : gmeta T) (ux uy xd yd : T) : cfgT :=
  [("xllcorner", CFlt (nofZ N STREAM_DEF_XLL_Z)); ("yllcorner", CFlt (nofZ N STREAM_DEF_YLL_Z));
   ("cellsize", CFlt (nofZ N STREAM_DEF_CSZ_Z));
   ("nodata", cval_of_nd (g_nodata m)); ("nbits", CInt (snd (g_dtype m) * 8));
   ("pixeltype", CText (textval (upper (pixeltype_text (g_dtype m)))));
   ("byteorder", CText STREAM_DEF_BYTEORDER); ("comment", CText STREAM_DEF_COMMENT);
   ("name", CText defname);
   ("nrows", CInt (g_nrows m)); ("ncols", CInt (g_ncols m));
   ("ulxmap", CFlt ux); ("ulymap", CFlt uy); ("xdim", CFlt xd); ("ydim", CFlt yd)].

Lemma parse_esri_lines w defname m ux uy xd yd :
  pl (Some (stream_defaults N defname, [])) (esri_lines w m ux uy xd yd) =
  Some (esri_cfg defname m ux uy xd yd, []).
Proof.
  unfold esri_lines.
  rewrite pl_cons, (parse_line_int w "NROWS" "nrows") by (reflexivity || discriminate).
  rewrite apply_lres_noparent by reflexivity. cbn [fst snd].
  rewrite pl_cons, (parse_line_int w "NCOLS" "ncols") by (reflexivity || discriminate).
  rewrite apply_lres_noparent by reflexivity. cbn [fst snd].
  rewrite pl_cons, (parse_line_int w "NBITS" "nbits") by (reflexivity || discriminate).
  rewrite apply_lres_noparent by reflexivity. cbn [fst snd].
  rewrite pl_cons, (parse_line_text w "PIXELTYPE" "pixeltype") by (reflexivity || discriminate).
  rewrite apply_lres_noparent by reflexivity. cbn [fst snd].
  rewrite pl_cons, (parse_line_flt w "ULXMAP" "ulxmap") by (reflexivity || discriminate).
  rewrite apply_lres_noparent by reflexivity. cbn [fst snd].
  rewrite pl_cons, (parse_line_flt w "ULYMAP" "ulymap") by (reflexivity || discriminate).
  rewrite apply_lres_noparent by reflexivity. cbn [fst snd].
  rewrite pl_cons, (parse_line_flt w "XDIM" "xdim") by (reflexivity || discriminate).
  rewrite apply_lres_noparent by reflexivity. cbn [fst snd].
  rewrite pl_cons, (parse_line_flt w "YDIM" "ydim") by (reflexivity || discriminate).
  rewrite apply_lres_noparent by reflexivity. cbn [fst snd].
  rewrite pl_cons, (parse_line_nodata w "NODATA" "nodata") by (reflexivity || discriminate).
  rewrite apply_lres_noparent by reflexivity. reflexivity.
Qed.

Lemma esri_lines_wf w m ux uy xd yd : Forall line_wf (esri_lines w m ux uy xd yd).
Proof.
  unfold esri_lines.
  assert (K : forall k v, no_nl k = true -> no_nl v = true -> line_wf (kv w k v))
    by (intros; apply kv_line_wf; assumption).
  repeat constructor; apply K; try reflexivity.
  all: first [ apply show_Z_no_nl | apply no_ws_no_nl, pr_tok | apply no_ws_no_nl, show_nd_no_ws
             | (destruct (g_dtype m) as [[] b]; reflexivity) ].
Qed.

(* cell size = XDIM, x corner = ULXMAP, y corner = ULYMAP - cellsize*nrows;
   cells that are not square beyond the tolerance are rejected *)
Theorem esri_header w defname m ux uy xd yd :
  1 <= g_nrows m < 2 ^ 63 -> 1 <= g_ncols m < 2 ^ 63 -> In (g_dtype m) all_dtypes ->
  conv_nodata N IO (g_dtype m) (g_nodata m) = Some (g_nodata m) ->
  from_stream_header N IO defname (String.concat "" (esri_lines w m ux uy xd yd)) =
  if nltb N (io_tol IO) (nabs N (nsub N yd xd)) then None
  else Some (mkG defname (g_ncols m) (g_nrows m) xd ux (nsub N uy (nmul N xd (nofZ N (g_nrows m))))
                 (g_dtype m) (g_nodata m) STREAM_DEF_COMMENT [], LE).
Proof.
  intros Hr Hc Hd Hn.
  unfold from_stream_header, from_stream_gen, parse_lines_gen.
  rewrite readlines_concat by apply esri_lines_wf.
  change (fold_left _ ?ls ?st) with (pl st ls).
  rewrite parse_esri_lines.
  unfold esri_cfg, finish_stream.
  destruct m as [name nc nr csz xll yll d nd comment par]. cbn [g_name g_ncols g_nrows g_csz g_xll g_yll
    g_dtype g_nodata g_comment g_parent] in *.
  rewrite textval_pixeltype.
  pose proof (dtype_sweep d LE Hd) as S.
  set (pt := lower (upper (pixeltype_text d))) in *.
  set (nb := snd d * 8) in *.
  assert (G : forall cm, mk_grid N IO defname nc (Some nr) xd ux (nsub N uy (nmul N xd (nofZ N nr))) d nd cm =
              Some (mkG defname nc nr xd ux (nsub N uy (nmul N xd (nofZ N nr))) d nd cm []))
    by (intros; apply mk_grid_ok; [lia | lia | assumption]).
  cbn -[mk_grid np_dtype resub_pt show_Z Z.div String.append nltb nabs nsub nmul nofZ].
  cbn [border_char] in S. rewrite S.
  destruct (nltb N (io_tol IO) (nabs N (nsub N yd xd))); [reflexivity|].
  cbn -[mk_grid nsub nmul nofZ]. rewrite nd_of_cval, G. reflexivity.
Qed.

End Header.
