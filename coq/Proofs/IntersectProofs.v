(* Theorems about Model/Intersect.v, part 1 (property C16): the accumulation
   loop of c_intersect, conservation of area, geometry of the located cells,
   the scatter of the weights into the weight grid. *)
From Coq Require Import ZArith Bool List Reals Lra Lia Psatz.
From Hy Require Import Base.Num Gen.Consts Gen.ConstsC16 Model.Grid Model.Intersect
     Proofs.GridGeomProofs.
Import ListNotations.
Open Scope Z_scope.

(* ------------------------------------------------------------------ *)
(* counting                                                            *)

Definition countb {A} (f : A -> bool) (l : list A) : nat := List.length (filter f l).

Lemma countb_app {A} (f : A -> bool) l1 l2 : countb f (l1 ++ l2) = (countb f l1 + countb f l2)%nat.
Proof. unfold countb. rewrite filter_app, app_length. reflexivity. Qed.

Lemma countb_ext {A} (f g : A -> bool) l :
  (forall x, In x l -> f x = g x) -> countb f l = countb g l.
Proof.
  unfold countb. induction l as [|a l IH]; intros H; [reflexivity|]. cbn.
  rewrite (H a) by (left; reflexivity).
  destruct (g a); cbn; rewrite IH; auto; intros; apply H; right; assumption.
Qed.

Lemma countb_map {A B} (g : A -> B) (f : B -> bool) l :
  countb f (map g l) = countb (fun x => f (g x)) l.
Proof.
  unfold countb. induction l as [|a l IH]; [reflexivity|]. cbn.
  destruct (f (g a)); cbn; rewrite IH; reflexivity.
Qed.

Lemma countb_le_length {A} (f : A -> bool) l : (countb f l <= List.length l)%nat.
Proof. unfold countb. induction l as [|a l IH]; cbn; [lia|]. destruct (f a); cbn; lia. Qed.

Lemma countb_pos {A} (f : A -> bool) l : (0 < countb f l)%nat <-> exists x, In x l /\ f x = true.
Proof.
  unfold countb. split.
  - intros H. destruct (filter f l) as [|x r] eqn:E; [cbn in H; lia|].
    assert (In x (filter f l)) by (rewrite E; left; reflexivity).
    apply filter_In in H0. exists x. assumption.
  - intros (x & Hx & Hf). assert (In x (filter f l)) by (apply filter_In; auto).
    destruct (filter f l); [contradiction|cbn; lia].
Qed.

Lemma nodup_snoc {A} (l : list A) c : NoDup l -> ~ In c l -> NoDup (l ++ [c]).
Proof.
  induction l as [|a l IH]; cbn; intros ND H; [constructor; [tauto|constructor]|].
  inversion ND; subst. constructor.
  - rewrite in_app_iff. cbn. intros [I|[E|[]]]; [contradiction|]. subst. tauto.
  - apply IH; tauto.
Qed.

(* ------------------------------------------------------------------ *)
(* association lists: first entry with a given cell number             *)

Fixpoint lookup {T} (k : Z) (acc : list (Z * T)) : option T :=
  match acc with
  | [] => None
  | (k', w) :: rest => if k' =? k then Some w else lookup k rest
  end.

Lemma lookup_none {T} k (acc : list (Z * T)) : lookup k acc = None <-> ~ In k (map fst acc).
Proof.
  induction acc as [|[k' w] r IH]; cbn; [tauto|].
  destruct (Z.eqb_spec k' k); split; intros H.
  - discriminate.
  - exfalso; apply H; left; assumption.
  - intros [E|I]; [contradiction|]. apply IH in H. contradiction.
  - apply IH. intros I; apply H; right; assumption.
Qed.

Lemma lookup_in {T} k w (acc : list (Z * T)) : lookup k acc = Some w -> In (k, w) acc.
Proof.
  induction acc as [|[k' w'] r IH]; cbn; [discriminate|].
  destruct (Z.eqb_spec k' k); intros H.
  - injection H as <-. subst. left; reflexivity.
  - right. apply IH, H.
Qed.

Lemma in_lookup {T} k w (acc : list (Z * T)) :
  NoDup (map fst acc) -> In (k, w) acc -> lookup k acc = Some w.
Proof.
  induction acc as [|[k' w'] r IH]; cbn; [tauto|].
  intros ND [E|I].
  - injection E as -> ->. rewrite Z.eqb_refl. reflexivity.
  - inversion ND as [|? ? Hn ND']; subst.
    destruct (Z.eqb_spec k' k) as [->|ne].
    + exfalso. apply Hn. change k with (fst (k, w)). apply in_map, I.
    + apply IH; assumption.
Qed.

(* ------------------------------------------------------------------ *)
(* the accumulation loop, for every arithmetic                         *)
Section Acc.
Context {T : Type} (N : NumOps T).
Variable locate : T * T -> Z.
Variable af : T.

(* af added n times: af, af+af, (af+af)+af ... (0 additions: no entry exists) *)
Fixpoint addn (n : nat) : T :=
  match n with
  | O => n0 N
  | S m => match m with O => af | S _ => nadd N (addn m) af end
  end.

Lemma addn_S m : (0 < m)%nat -> addn (S m) = nadd N (addn m) af.
Proof. destruct m; [lia|reflexivity]. Qed.

Lemma lookup_acc_add c k acc :
  lookup k (acc_add N af c acc) =
  if k =? c then Some (match lookup c acc with Some w => nadd N w af | None => af end)
  else lookup k acc.
Proof.
  induction acc as [|[k' w] r IH]; cbn.
  - rewrite (Z.eqb_sym c k). destruct (k =? c); reflexivity.
  - destruct (Z.eqb_spec k' c) as [->|ne]; cbn.
    + rewrite (Z.eqb_sym c k). destruct (Z.eqb_spec k c) as [->|ne']; [reflexivity|].
      reflexivity.
    + destruct (Z.eqb_spec k' k) as [->|ne'].
      * destruct (Z.eqb_spec k c); [congruence|reflexivity].
      * apply IH.
Qed.

Lemma keys_acc_add_in c acc :
  In c (map fst acc) -> map fst (acc_add N af c acc) = map fst acc.
Proof.
  induction acc as [|[k w] r IH]; cbn; [tauto|].
  destruct (Z.eqb_spec k c) as [->|ne]; cbn; [reflexivity|].
  intros [E|I]; [contradiction|]. rewrite IH by assumption. reflexivity.
Qed.

Lemma keys_acc_add_notin c acc :
  ~ In c (map fst acc) -> map fst (acc_add N af c acc) = map fst acc ++ [c].
Proof.
  induction acc as [|[k w] r IH]; cbn; [reflexivity|].
  destruct (Z.eqb_spec k c) as [->|ne]; cbn; [tauto|].
  intros H. rewrite IH by tauto. reflexivity.
Qed.

Lemma nodup_acc_add c acc : NoDup (map fst acc) -> NoDup (map fst (acc_add N af c acc)).
Proof.
  intros H. destruct (in_dec Z.eq_dec c (map fst acc)).
  - rewrite keys_acc_add_in; assumption.
  - rewrite keys_acc_add_notin by assumption. apply nodup_snoc; assumption.
Qed.

Definition cnt (k : Z) (xys : list (T * T)) : nat := countb (fun xy => locate xy =? k) xys.
Definition cnt_inside (xys : list (T * T)) : nat := countb (fun xy => 0 <=? locate xy) xys.

Lemma cnt_snoc k xs x :
  cnt k (xs ++ [x]) = (cnt k xs + (if (locate x =? k)%Z then 1 else 0))%nat.
Proof.
  unfold cnt. rewrite countb_app. f_equal. unfold countb. cbn.
  destruct (locate x =? k); reflexivity.
Qed.

Lemma cnt_inside_snoc xs x :
  cnt_inside (xs ++ [x]) = (cnt_inside xs + (if (0 <=? locate x)%Z then 1 else 0))%nat.
Proof.
  unfold cnt_inside. rewrite countb_app. f_equal. unfold countb. cbn.
  destruct (0 <=? locate x); reflexivity.
Qed.

Lemma intersect_with_snoc xs x :
  intersect_with N locate af (xs ++ [x]) =
  intersect_step N locate af (intersect_with N locate af xs) x.
Proof. unfold intersect_with. rewrite fold_left_app. reflexivity. Qed.

(* each grid cell appears at most once *)
Theorem intersect_nodup xys : NoDup (map fst (intersect_with N locate af xys)).
Proof.
  induction xys as [|x xs IH] using rev_ind; [constructor|].
  rewrite intersect_with_snoc. unfold intersect_step.
  destruct (locate x <? 0); [assumption|]. apply nodup_acc_add, IH.
Qed.

(* the entry of cell k: present iff k >= 0 and some point is located in k;
   its weight is af added once per such point *)
Theorem intersect_lookup xys k :
  lookup k (intersect_with N locate af xys) =
  if (0 <=? k) && (0 <? Z.of_nat (cnt k xys)) then Some (addn (cnt k xys)) else None.
Proof.
  induction xys as [|x xs IH] using rev_ind; [cbn; rewrite andb_false_r; reflexivity|].
  rewrite intersect_with_snoc, cnt_snoc. unfold intersect_step.
  destruct (Z.ltb_spec (locate x) 0) as [Hneg|Hpos].
  - rewrite IH. destruct (Z.leb_spec 0 k) as [Hk|Hk]; cbn [andb]; [|reflexivity].
    destruct (Z.eqb_spec (locate x) k); [lia|]. rewrite Nat.add_0_r. reflexivity.
  - rewrite lookup_acc_add. destruct (Z.eqb_spec k (locate x)) as [->|ne].
    + rewrite Z.eqb_refl. rewrite IH.
      destruct (Z.leb_spec 0 (locate x)); [|lia]. cbn [andb].
      replace (0 <? Z.of_nat (cnt (locate x) xs + 1)) with true by (symmetry; apply Z.ltb_lt; lia).
      destruct (Z.ltb_spec 0 (Z.of_nat (cnt (locate x) xs))) as [Hc|Hc].
      * replace (cnt (locate x) xs + 1)%nat with (S (cnt (locate x) xs)) by lia.
        rewrite addn_S by lia. reflexivity.
      * replace (cnt (locate x) xs) with O by lia. reflexivity.
    + destruct (Z.eqb_spec (locate x) k); [congruence|]. rewrite Nat.add_0_r. apply IH.
Qed.

Corollary intersect_in xys k w :
  In (k, w) (intersect_with N locate af xys) <->
  (0 <= k /\ (0 < cnt k xys)%nat /\ w = addn (cnt k xys)).
Proof.
  split.
  - intros H. apply in_lookup in H; [|apply intersect_nodup].
    rewrite intersect_lookup in H.
    destruct (Z.leb_spec 0 k); cbn [andb] in H; [|discriminate].
    destruct (Z.ltb_spec 0 (Z.of_nat (cnt k xys))); [|discriminate].
    injection H as <-. repeat split; lia.
  - intros (H1 & H2 & ->). apply lookup_in. rewrite intersect_lookup.
    destruct (Z.leb_spec 0 k); [|lia]. destruct (Z.ltb_spec 0 (Z.of_nat (cnt k xys))); [|lia].
    reflexivity.
Qed.

(* a cell is listed iff some point is located in it *)
Corollary intersect_keys xys k :
  In k (map fst (intersect_with N locate af xys)) <->
  (0 <= k /\ exists xy, In xy xys /\ locate xy = k).
Proof.
  split.
  - intros H. apply in_map_iff in H. destruct H as ([k' w] & E & H). cbn in E. subst k'.
    apply intersect_in in H. destruct H as (H1 & H2 & _). split; [assumption|].
    apply countb_pos in H2. destruct H2 as (xy & I & E). exists xy. split; [assumption|].
    apply Z.eqb_eq, E.
  - intros (H1 & xy & I & E).
    assert (H2 : (0 < cnt k xys)%nat) by (apply countb_pos; exists xy; split; [assumption|apply Z.eqb_eq, E]).
    change k with (fst (k, addn (cnt k xys))). apply in_map. apply intersect_in. auto.
Qed.

(* every point located inside is assigned to exactly one listed cell:
   the per-cell counts add up to the number of points located inside *)
Lemma sum_cnt_keys xys :
  fold_right Nat.add O (map (fun k => cnt k xys) (map fst (intersect_with N locate af xys))) =
  cnt_inside xys.
Proof.
  induction xys as [|x xs IH] using rev_ind; [reflexivity|].
  rewrite intersect_with_snoc, cnt_inside_snoc. unfold intersect_step.
  assert (Hmap : forall l, ~ In (locate x) l ->
            map (fun k => cnt k (xs ++ [x])) l = map (fun k => cnt k xs) l).
  { intros l Hl. apply map_ext_in. intros k Hk. rewrite cnt_snoc.
    destruct (Z.eqb_spec (locate x) k); [subst; contradiction|]. lia. }
  destruct (Z.ltb_spec (locate x) 0) as [Hneg|Hpos].
  - destruct (Z.leb_spec 0 (locate x)); [lia|]. rewrite Nat.add_0_r, <- IH.
    f_equal. apply Hmap. intros I. apply intersect_keys in I. lia.
  - destruct (Z.leb_spec 0 (locate x)); [|lia].
    set (keys := map fst (intersect_with N locate af xs)) in *.
    pose proof (intersect_nodup xs) as ND. fold keys in ND.
    destruct (in_dec Z.eq_dec (locate x) keys) as [I|nI].
    + (* the cell is already listed: its count grows by one *)
      rewrite keys_acc_add_in by assumption. fold keys.
      rewrite <- IH. clear IH. revert ND I. generalize keys. intros l ND I.
      induction l as [|a l IHl]; [contradiction|]. cbn [map fold_right].
      inversion ND as [|? ? Hn ND']; subst. destruct I as [->|I].
      * rewrite (Hmap l Hn). rewrite cnt_snoc, Z.eqb_refl. lia.
      * rewrite (IHl ND' I). rewrite cnt_snoc.
        destruct (Z.eqb_spec (locate x) a); [subst; contradiction|]. lia.
    + rewrite keys_acc_add_notin by assumption. fold keys.
      rewrite map_app, fold_right_app. cbn [map fold_right].
      assert (E0 : cnt (locate x) xs = O).
      { destruct (cnt (locate x) xs) eqn:E; [reflexivity|]. exfalso. apply nI.
        assert (P : (0 < cnt (locate x) xs)%nat) by lia. apply countb_pos in P.
        destruct P as (xy & I & Exy). apply intersect_keys. split; [assumption|].
        exists xy. split; [assumption|apply Z.eqb_eq, Exy]. }
      rewrite cnt_snoc, Z.eqb_refl, E0. rewrite (Hmap keys nI), <- IH.
      clear. generalize (map (fun k => cnt k xs) keys). intros l.
      induction l as [|a l IHl]; cbn [fold_right]; [lia|]. rewrite IHl. lia.
Qed.

(* cells are listed in the order in which they are first met *)
Fixpoint first_seen (seen : list Z) (l : list Z) : list Z :=
  match l with
  | [] => []
  | c :: r => if (c <? 0) || existsb (Z.eqb c) seen then first_seen seen r
              else c :: first_seen (seen ++ [c]) r
  end.

Lemma intersect_order_gen xs : forall acc,
  map fst (fold_left (intersect_step N locate af) xs acc) =
  map fst acc ++ first_seen (map fst acc) (map locate xs).
Proof.
  induction xs as [|x xs IH]; intros acc; cbn [fold_left map first_seen]; [rewrite app_nil_r; reflexivity|].
  rewrite IH. unfold intersect_step.
  destruct (Z.ltb_spec (locate x) 0) as [Hneg|Hpos]; cbn [orb]; [reflexivity|].
  destruct (in_dec Z.eq_dec (locate x) (map fst acc)) as [I|nI].
  - rewrite keys_acc_add_in by assumption.
    replace (existsb (Z.eqb (locate x)) (map fst acc)) with true; [reflexivity|].
    symmetry. apply existsb_exists. exists (locate x). split; [assumption|apply Z.eqb_refl].
  - rewrite keys_acc_add_notin by assumption.
    replace (existsb (Z.eqb (locate x)) (map fst acc)) with false.
    + rewrite <- app_assoc. reflexivity.
    + symmetry. apply not_true_is_false. intros E. apply existsb_exists in E.
      destruct E as (y & Iy & Ey). apply Z.eqb_eq in Ey. subst y. contradiction.
Qed.

Theorem intersect_order xys :
  map fst (intersect_with N locate af xys) = first_seen [] (map locate xys).
Proof. unfold intersect_with. rewrite intersect_order_gen. reflexivity. Qed.

End Acc.

(* ------------------------------------------------------------------ *)
(* real numbers: weights, sums, conservation                           *)
Open Scope R_scope.

Definition Rsum (l : list R) : R := fold_right Rplus 0 l.

Lemma Rsum_app l1 l2 : Rsum (l1 ++ l2) = Rsum l1 + Rsum l2.
Proof. unfold Rsum. induction l1; cbn; [lra|]. rewrite IHl1. lra. Qed.

Lemma addn_RR af n : addn RR af n = af * INR n.
Proof.
  induction n as [|m IH]; [cbn; lra|].
  destruct m as [|m']; [cbn; lra|].
  rewrite addn_S by lia. rewrite IH. cbn [nadd RR]. rewrite (S_INR (S m')). lra.
Qed.

(* weight of a listed cell = areafactor x number of points located in it *)
Theorem intersect_weight_RR locate af xys k w :
  In (k, w) (intersect_with RR locate af xys) ->
  (0 <= k)%Z /\ (0 < cnt locate k xys)%nat /\ w = af * INR (cnt locate k xys).
Proof.
  intros H. apply intersect_in in H. destruct H as (H1 & H2 & ->).
  rewrite addn_RR. auto.
Qed.

Theorem intersect_weight_RR_conv locate af xys k :
  (0 <= k)%Z -> (0 < cnt locate k xys)%nat ->
  In (k, af * INR (cnt locate k xys)) (intersect_with RR locate af xys).
Proof. intros H1 H2. apply intersect_in. rewrite addn_RR. auto. Qed.

Lemma Rsum_acc_add af c acc :
  Rsum (map snd (acc_add RR af c acc)) = Rsum (map snd acc) + af.
Proof.
  induction acc as [|[k w] r IH]; cbn; [lra|].
  destruct (k =? c)%Z; cbn; [lra|]. fold (Rsum (map snd (acc_add RR af c r))). rewrite IH.
  fold (Rsum (map snd r)). lra.
Qed.

(* the weights add up to areafactor x number of points located inside *)
Theorem intersect_sum_RR locate af xys :
  Rsum (map snd (intersect_with RR locate af xys)) = af * INR (cnt_inside locate xys).
Proof.
  induction xys as [|x xs IH] using rev_ind; [cbn; lra|].
  rewrite intersect_with_snoc, cnt_inside_snoc. unfold intersect_step.
  destruct (Z.ltb_spec (locate x) 0); destruct (Z.leb_spec 0 (locate x)); try lia.
  - rewrite IH, Nat.add_0_r. reflexivity.
  - rewrite Rsum_acc_add, IH, plus_INR. cbn. lra.
Qed.

(* ---------------- where coord2cell puts a point ---------------- *)

(* generic: the result is -1 or a valid cell number *)
Lemma coord2cell_range {T} (N : NumOps T) nrows ncols xll yll csz xy :
  coord2cell N nrows ncols xll yll csz xy = (-1)%Z \/
  (0 <= coord2cell N nrows ncols xll yll csz xy < nrows * ncols)%Z.
Proof.
  unfold coord2cell.
  destruct (nfloor N _) as [fx|]; [|left; reflexivity].
  destruct (nfloor N _) as [fy|]; [|left; reflexivity].
  destruct ((fx <? 0) || (ncols <=? fx) || (nrows - 1 - fy <? 0) || (nrows <=? nrows - 1 - fy))%Z eqn:E;
    [left; reflexivity|right].
  rewrite !orb_false_iff, !Z.ltb_ge, !Z.leb_gt in E. nia.
Qed.

Lemma Int_part_bounds (x : R) : IZR (Int_part x) <= x < IZR (Int_part x) + 1.
Proof. destruct (base_Int_part x). lra. Qed.

(* a point mapped to a cell lies in the closed-open footprint of that cell *)
Theorem coord2cell_inv nrows ncols xll yll csz x y k :
  0 < csz -> coord2cell RR nrows ncols xll yll csz (x, y) = k -> (0 <= k)%Z ->
  exists row col, (0 <= col < ncols)%Z /\ (0 <= row < nrows)%Z /\ k = (row * ncols + col)%Z /\
    xll + csz * IZR col <= x < xll + csz * (IZR col + 1) /\
    yll + csz * IZR (nrows - 1 - row) <= y < yll + csz * (IZR (nrows - 1 - row) + 1).
Proof.
  intros Hcsz H Hk. unfold coord2cell in H. cbn [nfloor RR R_floor fst snd nsub ndiv] in H.
  set (qx := (x - xll) / csz) in *. set (qy := (y - yll) / csz) in *.
  assert (Ex : x - xll = qx * csz) by (unfold qx; field; lra).
  assert (Ey : y - yll = qy * csz) by (unfold qy; field; lra).
  destruct ((Int_part qx <? 0) || (ncols <=? Int_part qx) || (nrows - 1 - Int_part qy <? 0) ||
            (nrows <=? nrows - 1 - Int_part qy))%Z eqn:E; [lia|].
  rewrite !orb_false_iff, !Z.ltb_ge, !Z.leb_gt in E.
  exists (nrows - 1 - Int_part qy)%Z, (Int_part qx).
  pose proof (Int_part_bounds qx). pose proof (Int_part_bounds qy).
  replace (nrows - 1 - (nrows - 1 - Int_part qy))%Z with (Int_part qy) by lia.
  repeat split; try lia; try nra.
Qed.

Definition in_extent (nrows ncols : Z) (xll yll csz : R) (xy : R * R) : Prop :=
  xll <= fst xy < xll + csz * IZR ncols /\ yll <= snd xy < yll + csz * IZR nrows.

Definition in_extent_b (nrows ncols : Z) (xll yll csz : R) (xy : R * R) : bool :=
  Rleb xll (fst xy) && Rltb (fst xy) (xll + csz * IZR ncols) &&
  Rleb yll (snd xy) && Rltb (snd xy) (yll + csz * IZR nrows).

Lemma in_extent_b_true nrows ncols xll yll csz xy :
  in_extent_b nrows ncols xll yll csz xy = true <-> in_extent nrows ncols xll yll csz xy.
Proof.
  unfold in_extent_b, in_extent. rewrite !andb_true_iff, !Rleb_true, !Rltb_true. tauto.
Qed.

(* a point is given a cell iff it lies inside the extent of the grid *)
Theorem coord2cell_inside_iff nrows ncols xll yll csz xy :
  0 < csz ->
  ((0 <= coord2cell RR nrows ncols xll yll csz xy)%Z <-> in_extent nrows ncols xll yll csz xy).
Proof.
  intros Hcsz. destruct xy as [x y]. unfold in_extent. cbn [fst snd]. split.
  - intros H. destruct (coord2cell_inv nrows ncols xll yll csz x y _ Hcsz eq_refl H)
      as (row & col & Hc & Hr & _ & Hx & Hy).
    assert (0 <= IZR col) by (apply IZR_le; lia).
    assert (IZR col + 1 <= IZR ncols) by (rewrite <- plus_IZR; apply IZR_le; lia).
    assert (0 <= IZR (nrows - 1 - row)) by (apply IZR_le; lia).
    assert (IZR (nrows - 1 - row) + 1 <= IZR nrows) by (rewrite <- plus_IZR; apply IZR_le; lia).
    split; split; nra.
  - intros [Hx Hy].
    destruct (Z_lt_le_dec (coord2cell RR nrows ncols xll yll csz (x, y)) 0) as [Hn|]; [|assumption].
    exfalso. destruct (coord2cell_range RR nrows ncols xll yll csz (x, y)) as [E|E]; [|lia].
    clear Hn. unfold coord2cell in E. cbn [nfloor RR R_floor fst snd nsub ndiv] in E.
    set (qx := (x - xll) / csz) in *. set (qy := (y - yll) / csz) in *.
    assert (Ex : x - xll = qx * csz) by (unfold qx; field; lra).
    assert (Ey : y - yll = qy * csz) by (unfold qy; field; lra).
    assert (0 <= qx) by nra. assert (qx < IZR ncols) by nra.
    assert (0 <= qy) by nra. assert (qy < IZR nrows) by nra.
    pose proof (floor_ge qx 0 H). pose proof (floor_ge qy 0 H1).
    pose proof (Int_part_bounds qx). pose proof (Int_part_bounds qy).
    assert (Int_part qx < ncols)%Z by (apply lt_IZR; lra).
    assert (Int_part qy < nrows)%Z by (apply lt_IZR; lra).
    destruct ((Int_part qx <? 0) || (ncols <=? Int_part qx) || (nrows - 1 - Int_part qy <? 0) ||
              (nrows <=? nrows - 1 - Int_part qy))%Z eqn:E'.
    + rewrite !orb_true_iff, !Z.ltb_lt, !Z.leb_le in E'. lia.
    + rewrite !orb_false_iff, !Z.ltb_ge, !Z.leb_gt in E'. nia.
Qed.

(* the footprint of cell (row, col), closed on the left/bottom, open on the right/top *)
Definition in_footprint (nrows : Z) (xll yll csz : R) (row col : Z) (xy : R * R) : Prop :=
  xll + csz * IZR col <= fst xy < xll + csz * (IZR col + 1) /\
  yll + csz * IZR (nrows - 1 - row) <= snd xy < yll + csz * (IZR (nrows - 1 - row) + 1).

Definition in_footprint_b (nrows : Z) (xll yll csz : R) (row col : Z) (xy : R * R) : bool :=
  Rleb (xll + csz * IZR col) (fst xy) && Rltb (fst xy) (xll + csz * (IZR col + 1)) &&
  Rleb (yll + csz * IZR (nrows - 1 - row)) (snd xy) &&
  Rltb (snd xy) (yll + csz * (IZR (nrows - 1 - row) + 1)).

Lemma in_footprint_b_true nrows xll yll csz row col xy :
  in_footprint_b nrows xll yll csz row col xy = true <-> in_footprint nrows xll yll csz row col xy.
Proof.
  unfold in_footprint_b, in_footprint. rewrite !andb_true_iff, !Rleb_true, !Rltb_true. tauto.
Qed.

Lemma rowcol_inj ncols row col row' col' :
  (0 <= col < ncols)%Z -> (0 <= col' < ncols)%Z ->
  (row * ncols + col = row' * ncols + col')%Z -> row = row' /\ col = col'.
Proof. intros. assert (row = row') by nia. subst. split; lia. Qed.

(* a point is mapped to cell (row, col) iff it lies in its footprint *)
Theorem coord2cell_footprint_iff nrows ncols xll yll csz row col xy :
  0 < csz -> (0 <= col < ncols)%Z -> (0 <= row < nrows)%Z ->
  (coord2cell RR nrows ncols xll yll csz xy = (row * ncols + col)%Z <->
   in_footprint nrows xll yll csz row col xy).
Proof.
  intros Hcsz Hc Hr. destruct xy as [x y]. unfold in_footprint. cbn [fst snd]. split.
  - intros H. destruct (coord2cell_inv nrows ncols xll yll csz x y _ Hcsz H ltac:(nia))
      as (row' & col' & Hc' & Hr' & E & Hx & Hy).
    destruct (rowcol_inj ncols row col row' col' Hc Hc' E) as [-> ->]. auto.
  - intros [Hx Hy]. apply coord2cell_footprint; assumption.
Qed.

(* ---------------- the kernel on the reals ---------------- *)

Lemma areafactor_RR csz csz_area : csz <> 0 ->
  areafactor RR csz csz_area * (csz * csz) = csz_area * csz_area.
Proof. intros H. unfold areafactor. cbn. field. assumption. Qed.

(* ★ weight k = areafactor x #{points in the footprint of cell k} *)
Theorem c_intersect_weight nrows ncols xll yll csz csz_area xys row col w :
  0 < csz -> (0 <= col < ncols)%Z -> (0 <= row < nrows)%Z ->
  In ((row * ncols + col)%Z, w) (c_intersect RR nrows ncols xll yll csz csz_area xys) ->
  w = (csz_area / csz) * (csz_area / csz) *
      INR (countb (in_footprint_b nrows xll yll csz row col) xys).
Proof.
  intros Hcsz Hc Hr H. unfold c_intersect in H. apply intersect_weight_RR in H.
  destruct H as (_ & _ & ->). unfold areafactor. cbn [nmul ndiv RR]. f_equal. f_equal.
  unfold cnt. apply countb_ext. intros xy _.
  destruct (in_footprint_b nrows xll yll csz row col xy) eqn:E.
  - apply Z.eqb_eq. apply coord2cell_footprint_iff; try assumption. apply in_footprint_b_true, E.
  - apply Z.eqb_neq. intros E'. apply coord2cell_footprint_iff in E'; try assumption.
    apply in_footprint_b_true in E'. congruence.
Qed.

(* every listed cell is a valid cell that holds at least one point; every cell
   that holds a point is listed *)
Theorem c_intersect_cells nrows ncols xll yll csz csz_area xys k :
  0 < csz ->
  (In k (map fst (c_intersect RR nrows ncols xll yll csz csz_area xys)) <->
   exists row col, (0 <= col < ncols)%Z /\ (0 <= row < nrows)%Z /\ k = (row * ncols + col)%Z /\
     exists xy, In xy xys /\ in_footprint nrows xll yll csz row col xy).
Proof.
  intros Hcsz. unfold c_intersect. rewrite intersect_keys. split.
  - intros (Hk & [x y] & I & E).
    destruct (coord2cell_inv nrows ncols xll yll csz x y k Hcsz E Hk) as (row & col & Hc & Hr & -> & Hx & Hy).
    exists row, col. repeat split; try lia. exists (x, y). split; [assumption|]. split; assumption.
  - intros (row & col & Hc & Hr & -> & xy & I & F). split; [nia|]. exists xy. split; [assumption|].
    apply coord2cell_footprint_iff; assumption.
Qed.

(* ★ sum(weights) x csz^2 = #{points inside the grid} x csz_area^2 *)
Theorem c_intersect_area_conserved nrows ncols xll yll csz csz_area xys :
  0 < csz ->
  Rsum (map snd (c_intersect RR nrows ncols xll yll csz csz_area xys)) * (csz * csz) =
  INR (countb (in_extent_b nrows ncols xll yll csz) xys) * (csz_area * csz_area).
Proof.
  intros Hcsz. unfold c_intersect. rewrite intersect_sum_RR.
  replace (cnt_inside (coord2cell RR nrows ncols xll yll csz) xys)
    with (countb (in_extent_b nrows ncols xll yll csz) xys).
  - rewrite <- (areafactor_RR csz csz_area) by lra. ring.
  - unfold cnt_inside. apply countb_ext. intros xy _.
    destruct (in_extent_b nrows ncols xll yll csz xy) eqn:E.
    + symmetry. apply Z.leb_le. apply coord2cell_inside_iff; [assumption|]. apply in_extent_b_true, E.
    + symmetry. apply Z.leb_gt.
      destruct (Z_lt_le_dec (coord2cell RR nrows ncols xll yll csz xy) 0) as [|Hn]; [assumption|].
      apply coord2cell_inside_iff in Hn; [|assumption]. apply in_extent_b_true in Hn. congruence.
Qed.

(* the pinned kernel (truncation toward zero) does not conserve area: a point
   left of the extent is counted *)
Lemma coord2cell_trunc_example : coord2cell_trunc RR 4 3 10 20 2 (9, 21) = 9%Z.
Proof.
  unfold coord2cell_trunc. cbn [ntrunc RR R_trunc fst snd nsub ndiv].
  destruct (Rle_dec 0 ((9 - 10) / 2)) as [H|H]; [exfalso; lra|].
  destruct (Rle_dec 0 ((21 - 20) / 2)) as [H'|H']; [|exfalso; apply H'; lra].
  assert (E1 : Int_part (- ((9 - 10) / 2)) = 0%Z) by (apply floor_unique; simpl; lra).
  assert (E2 : Int_part ((21 - 20) / 2) = 0%Z) by (apply floor_unique; simpl; lra).
  rewrite E1, E2. reflexivity.
Qed.

Theorem c_intersect_trunc_area_refuted :
  exists nrows ncols xll yll csz csz_area xys,
    0 < csz /\
    Rsum (map snd (c_intersect_trunc RR nrows ncols xll yll csz csz_area xys)) * (csz * csz) <>
    INR (countb (in_extent_b nrows ncols xll yll csz) xys) * (csz_area * csz_area).
Proof.
  exists 4%Z, 3%Z, 10, 20, 2, 1, [(9, 21)]. split; [lra|].
  unfold c_intersect_trunc, intersect_with. cbn [fold_left]. unfold intersect_step.
  rewrite coord2cell_trunc_example. cbn [Z.ltb Z.compare acc_add map snd Rsum fold_right].
  assert (E : countb (in_extent_b 4 3 10 20 2) [(9, 21)] = O).
  { unfold countb. cbn [filter]. unfold in_extent_b. cbn [fst snd].
    replace (Rleb 10 9) with false; [reflexivity|]. symmetry. apply Rleb_false. lra. }
  rewrite E. unfold areafactor. cbn. lra.
Qed.

(* the list of cells fits the buffer of nrows*ncols entries allocated by grid.py *)
Lemma nodup_bounded_length (l : list Z) (n : Z) :
  NoDup l -> (forall k, In k l -> (0 <= k < n)%Z) -> (Z.of_nat (List.length l) <= Z.max 0 n)%Z.
Proof.
  intros ND H.
  assert (I : incl l (map Z.of_nat (seq 0 (Z.to_nat n)))).
  { intros k Hk. apply H in Hk. apply in_map_iff. exists (Z.to_nat k). split; [lia|].
    apply in_seq. lia. }
  apply NoDup_incl_length in I; [|assumption]. rewrite map_length, seq_length in I. lia.
Qed.

Theorem c_intersect_fits_buffer {T} (N : NumOps T) nrows ncols xll yll csz csz_area xys :
  (Z.of_nat (List.length (c_intersect N nrows ncols xll yll csz csz_area xys)) <= Z.max 0 (nrows * ncols))%Z.
Proof.
  rewrite <- (map_length fst). apply nodup_bounded_length.
  - apply intersect_nodup.
  - intros k Hk. apply intersect_keys in Hk. destruct Hk as (Hk & xy & _ & E).
    destruct (coord2cell_range N nrows ncols xll yll csz xy) as [E'|E']; lia.
Qed.
