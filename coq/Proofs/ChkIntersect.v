(* Overflow-checked versions of the refinement theorems of Proofs/RefineIntersect.v
   (c_intersect, c_voronoi and their callees c_coord2cell, getnxy, getcoord of
   src/hydrodiy/gis/c_grid.c): the same conclusions about [program_chk]
   (Gen/KernelsAstChk.v), the translation of the C kernels in which every signed integer
   +, -, *, /, unary -, ++ carries [IChk <width>] (error [Overflow] unless the value fits the
   C type).  All the integers of c_grid.c are [long long] (W64: arguments, locals, array
   elements); the [int] literals (-1, GRID_ERROR + __LINE__) are W32 and closed.

   A theorem [exec_fun N X program_chk (S n) "<kernel>" args = Ok r] therefore says that,
   besides memory safety / no division by zero / no out-of-range double->integer cast, no
   signed overflow (undefined behaviour in C) occurs, for ALL arguments satisfying the
   hypotheses.

   Extra (size) hypotheses, INT64_MAX = 2^63-1 = LLONG_MAX:
     c_coord2cell (one point)
        0 < nrows -> 0 < ncols -> nrows*ncols - 1 <= INT64_MAX
            ( ny*ncols + nx, computed only for 0 <= nx < ncols, 0 <= ny < nrows; the largest
              value is the largest cell number nrows*ncols-1.  nrows-1 and nrows-1-(long long)fy
              are computed only when 0 <= fy < nrows: covered by nrows <= LLONG_MAX. )
     getnxy       idxcell is a long long, and not (idxcell = INT64_MIN and ncols = -1)
            ( idxcell - nxy[0] lies between 0 and idxcell; the quotient overflows only for
              INT64_MIN / -1 )
     getcoord     + nrows-1 and nrows-1-nxy[1] are long long (implied by a valid cell number
                  of a grid with 1 <= nrows, 1 <= ncols, nrows*ncols <= INT64_MAX)
     c_intersect  the hypothesis of c_coord2cell, and 2*nval - 1 <= INT64_MAX
            ( xy_area[2*i+1] for the last i = nval-1; covers 2*i, i++ (i+1 <= nval),
              k++ (k+1 <= j) and j++ (j+1 <= nval: at most one new cell per point) )
        In [chk_refine_intersect_grid] (buffers of nrows*ncols entries, as grid.py allocates
        them) the first hypothesis follows from "ncells is a long long": zlen idx0 <= INT64_MAX.
     c_voronoi    ncells <= INT64_MAX (i++; ncells is a long long: always true),
                  2*npoints - 1 <= INT64_MAX ( xypoints[2*j+1]; covers j++ ),
                  1 <= nrows -> 1 <= ncols -> cells <> [] -> nrows*ncols <= INT64_MAX
            ( idxcell >= nrows*ncols, evaluated for every cell; then getcoord on a valid cell )
   No hypothesis on the DATA (cell numbers read from idxcells_area): they are only compared
   before being used.  The hypotheses on nrows*ncols are necessary: [overflow_voronoi_ncells],
   [overflow_intersect_ncells] (a grid of 2^32 x 2^32 cells).  No wrapper-admissible input of
   realistic size overflows: all the products are formed in long long. *)
From Coq Require Import ZArith Bool List String Lia Reals Lra.
From Coq Require Import PrimFloat.
From Hy Require Import Base.Num Base.MiniC Gen.Consts Gen.ConstsC16 Gen.KernelsAstChk Model.Grid Model.Intersect.
From Hy Require Proofs.IntersectProofs.
From Hy Require Import Proofs.RefineIntersect.
Import ListNotations.
Open Scope string_scope.
Open Scope list_scope.
Open Scope Z_scope.

(* ================================================================== *)
(* in_width                                                             *)
(* ================================================================== *)

Notation INT64_MAX := 9223372036854775807 (only parsing).
Notation INT64_MIN := (-9223372036854775808) (only parsing).

Lemma in_width_W32 v : in_width W32 v = true <-> -2147483648 <= v <= 2147483647.
Proof. unfold in_width. rewrite andb_true_iff, !Z.leb_le. reflexivity. Qed.

Lemma in_width_W64 v : in_width W64 v = true <-> INT64_MIN <= v <= INT64_MAX.
Proof. unfold in_width. rewrite andb_true_iff, !Z.leb_le. reflexivity. Qed.

(* the checks on symbolic values stay folded under [cbn]; [iw] discharges them by [lia]
   from the context (a check on a literal is decided by [cbn] itself) *)
#[local] Arguments in_width !w !z /.

Ltac iw1 :=
  match goal with
  | |- context[in_width W64 ?e] =>
      replace (in_width W64 e) with true by (symmetry; apply in_width_W64; lia)
  | |- context[in_width W32 ?e] =>
      replace (in_width W32 e) with true by (symmetry; apply in_width_W32; lia)
  end.
Ltac iw := repeat iw1.

(* [cbn] and discharge the overflow checks, as long as something happens *)
Ltac ci := repeat (progress (cbn; iw)).

(* [cbn], fold the lazy boolean operators, discharge the overflow checks *)
Ltac mci :=
  repeat (progress (cbn; rewrite ?truth_b2z, ?b2z_truth_b2z, ?or_ok, ?and_ok; iw)).

(* ================================================================== *)
(* arithmetic of getnxy (truncated division)                            *)
(* ================================================================== *)

(* idx - idx % ncols is between 0 and idx: the subtraction of getnxy never overflows *)
Lemma sub_rem_range_ci idx ncols :
  ncols <> 0 -> INT64_MIN <= idx <= INT64_MAX ->
  INT64_MIN <= idx - Z.rem idx ncols <= INT64_MAX.
Proof.
  intros Hn Hi.
  destruct (Z.le_gt_cases 0 idx) as [H|H].
  - pose proof (Z.rem_nonneg idx ncols Hn H).
    pose proof (Z.rem_le idx ncols) as HL.
    destruct (Z.lt_total 0 ncols) as [Hp|[Hz|Hneg]]; [|lia|].
    + specialize (HL H Hp). lia.
    + rewrite <- (Z.rem_opp_r idx ncols) in * by exact Hn.
      pose proof (Z.rem_le idx (- ncols) H ltac:(lia)). lia.
  - assert (Hr : Z.rem idx ncols = - Z.rem (- idx) ncols)
      by (rewrite Z.rem_opp_l by exact Hn; lia).
    pose proof (Z.rem_nonneg (- idx) ncols Hn ltac:(lia)).
    destruct (Z.lt_total 0 ncols) as [Hp|[Hz|Hneg]]; [|lia|].
    + pose proof (Z.rem_le (- idx) ncols ltac:(lia) Hp). lia.
    + rewrite <- (Z.rem_opp_r (- idx) ncols) in * by exact Hn.
      pose proof (Z.rem_le (- idx) (- ncols) ltac:(lia) ltac:(lia)). lia.
Qed.

(* (idx - idx % ncols) / ncols = idx / ncols (truncated division) *)
Lemma getny_quot_ci ncols idx : ncols <> 0 -> getny ncols idx = Z.quot idx ncols.
Proof.
  intros Hn. unfold getny.
  pose proof (Z.quot_rem' idx ncols) as E.
  replace (idx - Z.rem idx ncols) with (Z.quot idx ncols * ncols) by lia.
  apply Z.quot_mul. exact Hn.
Qed.

(* the quotient overflows in one case only: INT64_MIN / -1 *)
Lemma getny_range_ci idx ncols :
  ncols <> 0 -> INT64_MIN <= idx <= INT64_MAX ->
  (idx <> INT64_MIN \/ ncols <> -1) ->
  INT64_MIN <= getny ncols idx <= INT64_MAX.
Proof.
  intros Hn Hi Hm. rewrite getny_quot_ci by exact Hn.
  pose proof (Z.quot_abs idx ncols Hn) as HA.
  assert (HB : Z.abs idx ÷ Z.abs ncols <= Z.abs idx).
  { destruct (Z.eq_dec (Z.abs ncols) 1) as [E|NE].
    - rewrite E, Z.quot_1_r. lia.
    - destruct (Z.eq_dec idx 0) as [->|Hz]; [cbn; lia|].
      apply Z.lt_le_incl. apply Z.quot_lt; lia. }
  destruct (Z.eq_dec ncols (-1)) as [->|Hne].
  - rewrite <- (Z.quot_opp_opp idx (-1)) by lia. cbn [Z.opp]. rewrite Z.quot_1_r. lia.
  - destruct (Z.eq_dec (Z.abs ncols) 1) as [E|NE].
    + assert (ncols = 1) by lia. subst ncols. rewrite Z.quot_1_r. lia.
    + destruct (Z.eq_dec idx 0) as [->|Hz]; [rewrite Z.quot_0_l by lia; lia|].
      assert (Z.abs idx ÷ Z.abs ncols < Z.abs idx) by (apply Z.quot_lt; lia).
      lia.
Qed.

(* a valid cell number 0 <= c < nrows*ncols of a grid with positive dimensions whose number
   of cells is a long long: everything getnxy / getcoord compute from it is a long long *)
Lemma valid_cell_facts_ci nrows ncols c :
  1 <= nrows -> 1 <= ncols ->
  0 <= c < nrows * ncols -> nrows * ncols <= INT64_MAX ->
  nrows <= INT64_MAX /\ ncols <= INT64_MAX /\ c <= INT64_MAX /\
  0 <= getny ncols c < nrows.
Proof.
  intros Hr Hc Hv HM.
  assert (Hn : ncols <> 0) by lia.
  rewrite getny_quot_ci by exact Hn.
  pose proof (Z.quot_rem' c ncols) as E.
  pose proof (Z.rem_bound_pos c ncols ltac:(lia) ltac:(lia)) as RB.
  pose proof (Z.quot_pos c ncols ltac:(lia) ltac:(lia)) as Q0.
  repeat split; try lia; try nia.
Qed.

(* ================================================================== *)

Section Chk.
Context {T : Type} (N : NumOps T) (X : NumLit T).

(* ================================================================== *)
(* c_coord2cell on one point                                            *)
(* ================================================================== *)

(* Size hypothesis: the largest cell number nrows*ncols-1 is a long long (ny*ncols + nx is
   computed for 0 <= nx < ncols, 0 <= ny < nrows only: the double tests come first, and they
   also guard nrows-1 and nrows-1-(long long)fy).  2*i, 2*i+1, i++ are closed (i = 0). *)
Lemma chk_c2c_loop B flo (callf : callee T) n nrows ncols xll yll csz x y c0 :
  FloorLaws N X B flo -> nrows <= B -> ncols <= B ->
  (0 < nrows -> 0 < ncols -> nrows * ncols - 1 <= INT64_MAX) ->
  (1 < n)%nat ->
  exists r,
  loop n (cond_of N X (ICmp CLt (IVar "i") (IVar "nval")))
    (for_body
       (exec N X callf n
          (SSeq
             (SSetF "fx"
                (FExt1 "floor"
                   (FBin FDiv (FBin FSub (FArr "xycoords" (IChk W64 (IBin IMul (IConst 2) (IVar "i")))) (FVar "xll"))
                      (FVar "csz"))))
             (SSeq
                (SSetF "fy"
                   (FExt1 "floor"
                      (FBin FDiv
                         (FBin FSub (FArr "xycoords" (IChk W64 (IBin IAdd (IChk W64 (IBin IMul (IConst 2) (IVar "i"))) (IConst 1))))
                            (FVar "yll")) (FVar "csz"))))
                (SSeq
                   (SIf
                      (IUn ILNot
                         (IAnd
                            (IAnd
                               (IAnd (IFCmp CGe (FVar "fx") (FOfInt (IConst 0)))
                                  (IFCmp CLt (FVar "fx") (FOfInt (IVar "ncols"))))
                               (IFCmp CGe (FVar "fy") (FOfInt (IConst 0))))
                            (IFCmp CLt (FVar "fy") (FOfInt (IVar "nrows")))))
                      (SSeq (SStoreI "idxcell" (IVar "i") (IChk W32 (IUn INeg (IConst 1)))) SContinue) SSkip)
                   (SSeq (SSetI "nx" (ITrunc W64 (FVar "fx")))
                      (SSeq
                         (SSetI "ny"
                            (IChk W64 (IBin ISub (IChk W64 (IBin ISub (IVar "nrows") (IConst 1))) (ITrunc W64 (FVar "fy")))))
                         (SIf
                            (IOr
                               (IOr
                                  (IOr (ICmp CLt (IVar "nx") (IConst 0)) (ICmp CGe (IVar "nx") (IVar "ncols")))
                                  (ICmp CLt (IVar "ny") (IConst 0))) (ICmp CGe (IVar "ny") (IVar "nrows")))
                            (SStoreI "idxcell" (IVar "i") (IChk W32 (IUn INeg (IConst 1))))
                            (SStoreI "idxcell" (IVar "i")
                               (IChk W64 (IBin IAdd (IChk W64 (IBin IMul (IVar "ny") (IVar "ncols"))) (IVar "nx")))))))))))
       (exec N X callf n (SSetI "i" (IChk W64 (IBin IAdd (IVar "i") (IConst 1))))))
    (c2_state nrows ncols 0 0 0 xll yll csz (nofZ N 0) (nofZ N 0) [c0] [x; y]) = Ok r
  /\ exists nx ny fx fy,
       r = (ONormal, c2_state nrows ncols 1 nx ny xll yll csz fx fy
                       [coord2cell N nrows ncols xll yll csz (x, y)] [x; y]).
Proof.
  intros [Hb Hnext Hin Hout] Hr Hc Hprod Hn.
  apply (loop_rule
           (fun (k : nat) st =>
              (k = 0%nat /\ st = c2_state nrows ncols 0 0 0 xll yll csz (nofZ N 0) (nofZ N 0) [c0] [x; y]) \/
              (k = 1%nat /\ exists nx ny fx fy,
                  st = c2_state nrows ncols 1 nx ny xll yll csz fx fy
                         [coord2cell N nrows ncols xll yll csz (x, y)] [x; y]))
           _ 1%nat) with (k := O).
  - intros k st [[-> ->]|[-> (nx & ny & fx & fy & ->)]].
    2:{ split; [lia|]. unfold c2_state. cbn. exists nx, ny, fx, fy. reflexivity. }
    split; [lia|].
    unfold c2_state. cbn. rewrite Hnext. cbn. rewrite Hnext. cbn.
    set (fx := flo (ndiv N (nsub N x xll) csz)).
    set (fy := flo (ndiv N (nsub N y yll) csz)).
    rewrite ?truth_b2z, ?b2z_truth_b2z, ?or_ok, ?and_ok.
    unfold coord2cell. cbn [fst snd].
    destruct (nleb N (nofZ N 0) fx && nltb N fx (nofZ N ncols)) eqn:Bx.
    + destruct (Hin _ ncols Hc Bx) as (zx & Tx & Fx & Rx). fold fx in Tx.
      cbn. rewrite ?truth_b2z, ?b2z_truth_b2z, ?or_ok, ?and_ok.
      destruct (nleb N (nofZ N 0) fy && nltb N fy (nofZ N nrows)) eqn:By.
      * destruct (Hin _ nrows Hr By) as (zy & Ty & Fy & Ry). fold fy in Ty.
        unfold MAXLL in *.
        assert (HM0 : 0 <= (nrows - 1 - zy) * ncols) by nia.
        assert (HM1 : (nrows - 1 - zy) * ncols + zx <= nrows * ncols - 1) by nia.
        assert (HM2 : nrows * ncols - 1 <= INT64_MAX) by (apply Hprod; lia).
        cbn. rewrite Tx. unfold sem_cast. iw. cbn.
        rewrite Ty. repeat (progress (iw; zb; cbn)).
        rewrite Fx, Fy. zb. cbn. right. split; [reflexivity|].
        exists zx, (nrows - 1 - zy), fx, fy. reflexivity.
      * cbn. rewrite Fx. pose proof (Hout _ nrows Hr By) as Oy.
        right. split; [reflexivity|]. exists 0, 0, fx, fy. norm_state. unfold c2_state.
        destruct (nfloor N (ndiv N (nsub N y yll) csz)) as [zy|]; [|reflexivity].
        replace ((zx <? 0) || (ncols <=? zx) || (nrows - 1 - zy <? 0) || (nrows <=? nrows - 1 - zy))
          with true; [reflexivity|].
        symmetry. rewrite !orb_true_iff, !Z.ltb_lt, !Z.leb_le. lia.
    + cbn. pose proof (Hout _ ncols Hc Bx) as Ox.
      right. split; [reflexivity|]. exists 0, 0, fx, fy. norm_state. unfold c2_state.
      destruct (nfloor N (ndiv N (nsub N x xll) csz)) as [zx|]; [|reflexivity].
      destruct (nfloor N (ndiv N (nsub N y yll) csz)) as [zy|]; [|reflexivity].
      replace ((zx <? 0) || (ncols <=? zx) || (nrows - 1 - zy <? 0) || (nrows <=? nrows - 1 - zy))
        with true; [reflexivity|].
      symmetry. rewrite !orb_true_iff, !Z.ltb_lt, !Z.leb_le. lia.
  - left. split; reflexivity.
  - lia.
Qed.

Lemma chk_coord2cell_run B flo n nrows ncols xll yll csz x y c0 :
  FloorLaws N X B flo -> nrows <= B -> ncols <= B ->
  (0 < nrows -> 0 < ncols -> nrows * ncols - 1 <= INT64_MAX) ->
  (2 <= n)%nat ->
  exec_fun N X program_chk (S n) "c_coord2cell"
    [AVI nrows; AVI ncols; AVF xll; AVF yll; AVF csz; AVI 1; AVArrF [x; y]; AVArrI [c0]]
  = Ok (RI 0, [VArrF [x; y]; VArrI [coord2cell N nrows ncols xll yll csz (x, y)]]).
Proof.
  intros HF Hr Hc Hprod Hn.
  destruct (chk_c2c_loop B flo (exec_fun N X program_chk n) n nrows ncols xll yll csz x y c0 HF Hr Hc Hprod)
    as (r & Hl & nx & ny & fx & fy & ->); [lia|].
  cbn.
  match goal with
  | |- context[loop n _ _ ?s] =>
      change s with (c2_state nrows ncols 0 0 0 xll yll csz (nofZ N 0) (nofZ N 0) [c0] [x; y])
  end.
  rewrite Hl. cbn. reflexivity.
Qed.

Lemma chk_coord2cell_run' B flo n nrows ncols xll yll csz x y c0 :
  FloorLaws N X B flo -> nrows <= B -> ncols <= B ->
  (0 < nrows -> 0 < ncols -> nrows * ncols - 1 <= INT64_MAX) ->
  (3 <= n)%nat ->
  exec_fun N X program_chk n "c_coord2cell"
    [AVI nrows; AVI ncols; AVF xll; AVF yll; AVF csz; AVI 1; AVArrF [x; y]; AVArrI [c0]]
  = Ok (RI 0, [VArrF [x; y]; VArrI [coord2cell N nrows ncols xll yll csz (x, y)]]).
Proof.
  intros HF Hr Hc Hprod Hn. destruct n as [|n]; [lia|]. apply (chk_coord2cell_run B flo); try assumption. lia.
Qed.

(* ================================================================== *)
(* c_intersect                                                          *)
(* ================================================================== *)

#[local] Arguments flat2 : simpl never.
#[local] Arguments map : simpl never.
#[local] Arguments fold_left : simpl never.
#[local] Arguments acc_add : simpl never.
#[local] Arguments coord2cell : simpl never.

Section Inner.
Variables (nrows ncols nval ncells : Z) (xll yll csz csz_area af : T) (xyf : list T) (np : list Z).

Notation find_inv := (find_inv nrows ncols nval ncells xll yll csz csz_area af xyf np).
Notation find_post := (find_post N nrows ncols nval ncells xll yll csz csz_area af xyf np).

(* Size hypothesis: j = |acc| is a long long (k++ : k+1 <= j) *)
Lemma chk_find_loop (callf : callee T) n i ierr c acc irest wrest xy :
  Z.of_nat (List.length acc) <= INT64_MAX ->
  (List.length acc < n)%nat ->
  exists r,
    loop n (cond_of N X (ICmp CLt (IVar "k") (IVar "j")))
      (for_body
         (exec N X callf n
            (SIf (ICmp CEq (IArr "idxcells" (IVar "k")) (IArr "idxcell" (IConst 0)))
               (SSeq
                  (SStoreF "weights" (IVar "k")
                     (FBin FAdd (FArr "weights" (IVar "k")) (FVar "areafactor"))) SBreak)
               SSkip))
         (exec N X callf n (SSetI "k" (IChk W64 (IBin IAdd (IVar "k") (IConst 1))))))
      (it_state nrows ncols nval ncells i (zlen acc) 0 ierr xll yll csz csz_area af xyf np
         (map fst acc ++ irest) [c] (map snd acc ++ wrest) xy) = Ok r
    /\ find_post i ierr c acc irest wrest xy r.
Proof.
  intros Hmax Hn.
  apply (loop_rule (find_inv i ierr c acc irest wrest xy) (find_post i ierr c acc irest wrest xy)
           (List.length acc)) with (k := O).
  - intros k st (pre & post & Hacc & Hk & Hpre & ->).
    assert (Hlen : List.length acc = (k + List.length post)%nat)
      by (rewrite Hacc, app_length; lia).
    split; [lia|].
    unfold it_state. cbn. rewrite (zlen_eq acc).
    destruct post as [|[c' w] post].
    + replace (Z.of_nat k <? Z.of_nat (List.length acc)) with false
        by (symmetry; apply Z.ltb_ge; cbn in Hlen; lia).
      cbn. left. rewrite app_nil_r in Hacc. subst pre. split; [exact Hpre|].
      unfold it_state. rewrite (zlen_eq acc). replace (List.length acc) with k by (cbn in Hlen; lia).
      reflexivity.
    + replace (Z.of_nat k <? Z.of_nat (List.length acc)) with true
        by (symmetry; apply Z.ltb_lt; cbn in Hlen; lia).
      assert (Hk1 : Z.of_nat k + 1 <= INT64_MAX) by (cbn in Hlen; lia).
      assert (Hg1 : zget (map fst acc ++ irest) (Z.of_nat k) = Some c').
      { rewrite Hacc, map_app, <- app_assoc. change (map fst ((c', w) :: post)) with (c' :: map fst post).
        cbn [app]. apply zget_app. rewrite map_length. lia. }
      assert (Hg2 : zget (map snd acc ++ wrest) (Z.of_nat k) = Some w).
      { rewrite Hacc, map_app, <- app_assoc. change (map snd ((c', w) :: post)) with (w :: map snd post).
        cbn [app]. apply zget_app. rewrite map_length. lia. }
      cbn. rewrite Hg1. cbn. rewrite truth_b2z.
      destruct (c' =? c) eqn:Hc.
      * apply Z.eqb_eq in Hc. subst c'.
        cbn. rewrite Hg2. cbn.
        assert (Hs : zset (map snd acc ++ wrest) (Z.of_nat k) (nadd N w af)
                     = Some (map snd (pre ++ (c, nadd N w af) :: post) ++ wrest)).
        { rewrite Hacc, !map_app, <- !app_assoc.
          change (map snd ((c, w) :: post)) with (w :: map snd post).
          change (map snd ((c, nadd N w af) :: post)) with (nadd N w af :: map snd post).
          cbn [app]. apply zset_app. rewrite map_length. lia. }
        rewrite Hs. cbn.
        right. exists pre, w, post. split; [exact Hacc|]. split; [exact Hpre|].
        norm_state. unfold it_state. rewrite !zlen_eq, Hk. reflexivity.
      * cbn. iw. cbn. exists (pre ++ [(c', w)]), post.
        split; [rewrite <- app_assoc; exact Hacc|].
        split; [rewrite app_length; cbn; lia|].
        split; [rewrite forallb_app, Hpre; cbn; unfold nokey; cbn [fst]; rewrite Hc; reflexivity|].
        norm_state. unfold it_state. rewrite !zlen_eq.
        replace (Z.of_nat k + 1) with (Z.of_nat (S k)) by lia. reflexivity.
  - exists [], acc. repeat split.
  - lia.
Qed.

End Inner.

#[local] Arguments intersect_with : simpl never.
#[local] Arguments intersect_step : simpl never.

Section Outer.
Variables (B : Z) (flo : T -> T) (nrows ncols : Z) (xll yll csz csz_area : T) (xys : list (T * T))
          (np0 : Z) (idx0 : list Z) (w0 : list T).

Notation af := (nmul N (ndiv N csz_area csz) (ndiv N csz_area csz)).
Notation accof l := (intersect_with N (coord2cell N nrows ncols xll yll csz) af l).

Notation io_st := (io_st N nrows ncols xll yll csz csz_area xys np0 idx0 w0).
Notation io_inv := (io_inv N nrows ncols xll yll csz csz_area xys np0 idx0 w0).
Notation io_post := (io_post N nrows ncols xll yll csz csz_area xys np0 idx0 w0).

(* Size hypotheses: the largest cell number is a long long (c_coord2cell), and so is
   2*i+1 for the last i = nval-1 (index into xy_area): covers 2*i, i++, k++, j++. *)
Lemma chk_io_loop n :
  FloorLaws N X B flo -> nrows <= B -> ncols <= B ->
  (0 < nrows -> 0 < ncols -> nrows * ncols - 1 <= INT64_MAX) ->
  2 * zlen xys - 1 <= INT64_MAX ->
  List.length w0 = List.length idx0 ->
  (List.length (accof xys) <= List.length idx0)%nat ->
  (List.length xys + 2 < n)%nat ->
  exists r,
  loop n (cond_of N X (ICmp CLt (IVar "i") (IVar "nval")))
    (for_body
       (exec N X (exec_fun N X program_chk n) n
          (SSeq (SStoreF "xy" (IConst 0) (FArr "xy_area" (IChk W64 (IBin IMul (IConst 2) (IVar "i")))))
             (SSeq
                (SStoreF "xy" (IConst 1)
                   (FArr "xy_area" (IChk W64 (IBin IAdd (IChk W64 (IBin IMul (IConst 2) (IVar "i"))) (IConst 1)))))
                (SSeq
                   (SCall (DI "ierr") "c_coord2cell"
                      [AI (IVar "nrows"); AI (IVar "ncols"); AF (FVar "xll"); AF (FVar "yll");
                       AF (FVar "csz"); AI (IConst 1); AArrF "xy" (IConst 0); AArrI "idxcell" (IConst 0)])
                   (SSeq
                      (SIf
                         (IOr (ICmp CGt (IVar "ierr") (IConst 0))
                            (ICmp CLt (IArr "idxcell" (IConst 0)) (IConst 0))) SContinue SSkip)
                      (SSeq (SSetI "k" (IConst 0))
                         (SSeq
                            (SFor (ICmp CLt (IVar "k") (IVar "j"))
                               (SSetI "k" (IChk W64 (IBin IAdd (IVar "k") (IConst 1))))
                               (SIf (ICmp CEq (IArr "idxcells" (IVar "k")) (IArr "idxcell" (IConst 0)))
                                  (SSeq
                                     (SStoreF "weights" (IVar "k")
                                        (FBin FAdd (FArr "weights" (IVar "k")) (FVar "areafactor"))) SBreak)
                                  SSkip))
                            (SIf (ICmp CEq (IVar "k") (IVar "j"))
                               (SSeq (SStoreI "idxcells" (IVar "j") (IArr "idxcell" (IConst 0)))
                                  (SSeq (SStoreF "weights" (IVar "j") (FVar "areafactor"))
                                     (SSetI "j" (IChk W64 (IBin IAdd (IVar "j") (IConst 1)))))) SSkip))))))))
       (exec N X (exec_fun N X program_chk n) n (SSetI "i" (IChk W64 (IBin IAdd (IVar "i") (IConst 1))))))
    (io_st 0 0 0 (n0 N) (n0 N) []) = Ok r
  /\ io_post r.
Proof.
  intros HF Hr Hc Hprod Hsz Hw Hfit Hn. rewrite zlen_eq in Hsz.
  apply (loop_rule io_inv io_post (List.length xys)) with (k := O).
  - intros i st (done & todo & kk & cc & a & b & Hxys & Hi & ->).
    assert (Hlen : List.length xys = (i + List.length todo)%nat)
      by (rewrite Hxys, app_length; lia).
    split; [lia|].
    unfold RefineIntersect.io_st, it_state. cbn. rewrite (zlen_eq xys).
    destruct todo as [|p todo].
    + replace (Z.of_nat i <? Z.of_nat (List.length xys)) with false
        by (symmetry; apply Z.ltb_ge; cbn in Hlen; lia).
      cbn. exists kk, cc, a, b. rewrite app_nil_r in Hxys. subst done.
      unfold RefineIntersect.io_st, it_state. rewrite (zlen_eq xys).
      replace (List.length xys) with i by (cbn in Hlen; lia). reflexivity.
    + replace (Z.of_nat i <? Z.of_nat (List.length xys)) with true
        by (symmetry; apply Z.ltb_lt; cbn in Hlen; lia).
      destruct p as [px py].
      assert (HB : 0 <= 2 * Z.of_nat i /\ 2 * Z.of_nat i + 1 <= INT64_MAX) by (cbn in Hlen; lia).
      assert (Hg0 : zget (flat2 xys) (2 * Z.of_nat i) = Some px)
        by (rewrite Hxys; apply (flat2_get0 done (px, py)); lia).
      assert (Hg1 : zget (flat2 xys) (2 * Z.of_nat i + 1) = Some py)
        by (rewrite Hxys; apply (flat2_get1 done (px, py)); lia).
      ci. rewrite Hg0. ci. rewrite Hg1. cbn.
      rewrite (chk_coord2cell_run' B flo) by (try assumption; lia).
      cbn. rewrite !truth_b2z.
      set (c := coord2cell N nrows ncols xll yll csz (px, py)).
      set (acc := accof done).
      assert (Hstep : accof (done ++ [(px, py)]) = if c <? 0 then acc else acc_add N af c acc).
      { rewrite iw_snoc. reflexivity. }
      assert (Hfit' : (List.length (accof (done ++ [(px, py)])) <= List.length idx0)%nat).
      { etransitivity; [|exact Hfit]. rewrite Hxys.
        replace (done ++ (px, py) :: todo) with ((done ++ [(px, py)]) ++ todo)
          by (rewrite <- app_assoc; reflexivity).
        apply iw_prefix_len. }
      assert (Hacc_i : (List.length acc <= i)%nat).
      { pose proof (iw_len_le N (coord2cell N nrows ncols xll yll csz) af done) as H.
        fold acc in H. lia. }
      assert (Hacc_n : (List.length acc < n)%nat) by lia.
      assert (Hacc_m : Z.of_nat (List.length acc) + 1 <= INT64_MAX) by (cbn in Hlen; lia).
      clearbody acc c.
      destruct (c <? 0) eqn:Hneg.
      * cbn. iw. cbn. exists (done ++ [(px, py)]), todo, kk, c, px, py.
        split; [rewrite <- app_assoc; exact Hxys|].
        split; [rewrite app_length; cbn; lia|].
        rewrite Hstep. norm_state. unfold RefineIntersect.io_st, it_state. rewrite (zlen_eq xys).
        replace (Z.of_nat i + 1) with (Z.of_nat (S i)) by lia. reflexivity.
      * cbn.
        match goal with
        | |- context[loop n _ _ ?s] =>
            change s with (it_state nrows ncols (Z.of_nat (List.length xys)) (zlen idx0) (Z.of_nat i) (zlen acc) 0 0
                             xll yll csz csz_area af (flat2 xys) [np0]
                             (map fst acc ++ skipn (List.length acc) idx0) [c]
                             (map snd acc ++ skipn (List.length acc) w0) [px; py])
        end.
        destruct (chk_find_loop nrows ncols (Z.of_nat (List.length xys)) (zlen idx0) xll yll csz csz_area af
                    (flat2 xys) [np0] (exec_fun N X program_chk n) n (Z.of_nat i) 0 c acc
                    (skipn (List.length acc) idx0) (skipn (List.length acc) w0) [px; py] ltac:(lia) Hacc_n)
          as (r & Hlp & Hpost).
        rewrite Hlp.
        destruct Hpost as [[Hnk ->] | (pre & w & post & Hacc & Hpre & ->)].
        -- (* not found: a new entry *)
           assert (Hadd : acc_add N af c acc = acc ++ [(c, af)]) by (apply acc_add_notin; exact Hnk).
           rewrite Hadd in Hstep. rewrite Hstep, app_length in Hfit'. cbn in Hfit'.
           destruct (skipn_cons_nth' idx0 (List.length acc)) as (x & Hx); [lia|].
           destruct (skipn_cons_nth' w0 (List.length acc)) as (y & Hy); [lia|].
           rewrite Hx, Hy.
           unfold it_state. cbn. rewrite Z.eqb_refl. cbn.
           rewrite zset_app by (rewrite zlen_eq, map_length; reflexivity). cbn.
           rewrite zset_app by (rewrite zlen_eq, map_length; reflexivity). cbn.
           rewrite (zlen_eq acc). iw. cbn. iw. cbn.
           exists (done ++ [(px, py)]), todo, (zlen acc), c, px, py.
           split; [rewrite <- app_assoc; exact Hxys|].
           split; [rewrite app_length; cbn; lia|].
           rewrite Hstep. norm_state. unfold RefineIntersect.io_st, it_state. rewrite (zlen_eq xys).
           rewrite !map_app, <- !app_assoc, app_length. cbn [map app List.length].
           replace (List.length acc + 1)%nat with (S (List.length acc)) by lia.
           replace (Z.of_nat i + 1) with (Z.of_nat (S i)) by lia.
           replace (Z.of_nat (List.length acc) + 1) with (zlen (acc ++ [(c, af)]))
             by (rewrite !zlen_eq, app_length; cbn; lia).
           rewrite (zlen_eq acc).
           reflexivity.
        -- (* found at position |pre| *)
           assert (Hadd : acc_add N af c acc = pre ++ (c, nadd N w af) :: post)
             by (rewrite Hacc; apply acc_add_found; exact Hpre).
           rewrite Hadd in Hstep.
           unfold it_state. cbn.
           replace (zlen pre =? zlen acc) with false
             by (symmetry; apply Z.eqb_neq; rewrite !zlen_eq, Hacc, app_length; cbn; lia).
           cbn. iw. cbn.
           exists (done ++ [(px, py)]), todo, (zlen pre), c, px, py.
           split; [rewrite <- app_assoc; exact Hxys|].
           split; [rewrite app_length; cbn; lia|].
           rewrite Hstep. norm_state. unfold RefineIntersect.io_st, it_state. rewrite (zlen_eq xys).
           replace (Z.of_nat i + 1) with (Z.of_nat (S i)) by lia.
           assert (Hl : List.length (pre ++ (c, nadd N w af) :: post) = List.length acc)
             by (rewrite Hacc, !app_length; reflexivity).
           assert (Hm : map fst (pre ++ (c, nadd N w af) :: post) = map fst acc)
             by (rewrite Hacc, !map_app; reflexivity).
           rewrite Hl, Hm, !zlen_eq, Hl. reflexivity.
  - exists [], xys, 0, 0, (n0 N), (n0 N). split; [reflexivity|]. split; reflexivity.
  - lia.
Qed.

End Outer.

(* c_intersect, overflow-checked: the conclusion of [refine_intersect], under its hypotheses and
   - the largest cell number nrows*ncols-1 is a long long (when the grid is not empty):
     ny*ncols + nx in c_coord2cell;
   - 2*nval-1 is a long long: xy_area[2*i+1] (the buffer xy_area has 2*nval elements). *)
Theorem chk_refine_intersect B flo nrows ncols xll yll csz csz_area xys np0 idx0 w0 n :
  FloorLaws N X B flo -> nrows <= B -> ncols <= B ->
  (0 < nrows -> 0 < ncols -> nrows * ncols - 1 <= INT64_MAX) ->
  2 * zlen xys - 1 <= INT64_MAX ->
  List.length w0 = List.length idx0 ->
  (List.length (c_intersect N nrows ncols xll yll csz csz_area xys) <= List.length idx0)%nat ->
  (List.length xys + 2 < n)%nat ->
  exec_fun N X program_chk (S n) "c_intersect"
    [AVI nrows; AVI ncols; AVF xll; AVF yll; AVF csz; AVF csz_area; AVI (zlen xys);
     AVArrF (flat2 xys); AVI (zlen idx0); AVArrI [np0]; AVArrI idx0; AVArrF w0]
  = Ok (RI 0,
        let acc := c_intersect N nrows ncols xll yll csz csz_area xys in
        [VArrF (flat2 xys); VArrI [zlen acc];
         VArrI (map fst acc ++ skipn (List.length acc) idx0);
         VArrF (map snd acc ++ skipn (List.length acc) w0)]).
Proof.
  intros HF Hr Hc Hprod Hsz Hw Hfit Hn.
  destruct (chk_io_loop B flo nrows ncols xll yll csz csz_area xys np0 idx0 w0 n HF Hr Hc Hprod Hsz Hw Hfit Hn)
    as (r & Hl & kk & cc & a & b & ->).
  cbn.
  match goal with
  | |- context[loop n _ _ ?s] =>
      change s with (io_st N nrows ncols xll yll csz csz_area xys np0 idx0 w0 0 0 0 (n0 N) (n0 N) [])
  end.
  rewrite Hl. cbn. reflexivity.
Qed.

(* the buffers allocated by grid.py (Catchment.intersect): nrows*ncols entries.  ncells, the
   length of these buffers, is passed as a long long: the number of cells of the grid is then a
   long long, and no hypothesis on nrows*ncols is left. *)
Theorem chk_refine_intersect_grid B flo nrows ncols xll yll csz csz_area xys np0 idx0 w0 n :
  FloorLaws N X B flo -> nrows <= B -> ncols <= B ->
  zlen idx0 <= INT64_MAX ->
  2 * zlen xys - 1 <= INT64_MAX ->
  List.length w0 = List.length idx0 ->
  Z.max 0 (nrows * ncols) <= Z.of_nat (List.length idx0) ->
  (List.length xys + 2 < n)%nat ->
  exec_fun N X program_chk (S n) "c_intersect"
    [AVI nrows; AVI ncols; AVF xll; AVF yll; AVF csz; AVF csz_area; AVI (zlen xys);
     AVArrF (flat2 xys); AVI (zlen idx0); AVArrI [np0]; AVArrI idx0; AVArrF w0]
  = Ok (RI 0,
        let acc := c_intersect N nrows ncols xll yll csz csz_area xys in
        [VArrF (flat2 xys); VArrI [zlen acc];
         VArrI (map fst acc ++ skipn (List.length acc) idx0);
         VArrF (map snd acc ++ skipn (List.length acc) w0)]).
Proof.
  intros HF Hr Hc Hnc Hsz Hw Hbuf Hn. rewrite zlen_eq in Hnc.
  apply (chk_refine_intersect B flo); try assumption; [lia|].
  pose proof (IntersectProofs.c_intersect_fits_buffer N nrows ncols xll yll csz csz_area xys). lia.
Qed.

(* ================================================================== *)
(* c_voronoi                                                            *)
(* ================================================================== *)

(* ---- callees on one cell ---- *)

(* Size hypotheses: idxcell is a long long (idxcell - nxy[0] is then between 0 and idxcell);
   the quotient (idxcell - nxy[0]) / ncols is not INT64_MIN / -1. *)
Lemma chk_getnxy_run n ncols idx a b :
  ncols <> 0 ->
  INT64_MIN <= idx <= INT64_MAX ->
  (idx <> INT64_MIN \/ ncols <> -1) ->
  exec_fun N X program_chk (S n) "getnxy" [AVI ncols; AVI idx; AVArrI [a; b]]
  = Ok (RI 0, [VArrI [getnx ncols idx; getny ncols idx]]).
Proof.
  intros H Hi Hm.
  pose proof (sub_rem_range_ci idx ncols H Hi) as H1.
  pose proof (getny_range_ci idx ncols H Hi Hm) as H2. unfold getny in H2.
  cbn. zb. cbn. iw. cbn. zb. cbn. iw. cbn. reflexivity.
Qed.

(* the hypothesis on the quotient is necessary: INT64_MIN / -1 *)
Lemma overflow_getnxy_min_div_m1 n a b :
  exec_fun N X program_chk (S n) "getnxy" [AVI (-1); AVI INT64_MIN; AVArrI [a; b]]
  = Err (Overflow false 9223372036854775808).
Proof. reflexivity. Qed.

(* Size hypotheses: those of getnxy, and the two subtractions of (double)(nrows-1-nxy[1])
   stay in long long. *)
Lemma chk_getcoord_run n nrows ncols xll yll csz idx a b :
  HalfLit N X -> ncols <> 0 ->
  INT64_MIN <= idx <= INT64_MAX ->
  (idx <> INT64_MIN \/ ncols <> -1) ->
  INT64_MIN <= nrows - 1 <= INT64_MAX ->
  INT64_MIN <= nrows - 1 - getny ncols idx <= INT64_MAX ->
  (2 <= n)%nat ->
  exec_fun N X program_chk n "getcoord"
    [AVI nrows; AVI ncols; AVF xll; AVF yll; AVF csz; AVI idx; AVArrF [a; b]]
  = Ok (RI 0, [VArrF [fst (getcoord N nrows ncols xll yll csz idx);
                      snd (getcoord N nrows ncols xll yll csz idx)]]).
Proof.
  intros HH Hc Hi Hm Hr1 Hr2 Hn. destruct n as [|n]; [lia|].
  cbn. destruct n as [|n]; [lia|]. rewrite chk_getnxy_run by assumption. ci.
  unfold HalfLit in HH. rewrite HH. reflexivity.
Qed.

(* the form used by c_voronoi: a valid cell number of a grid with positive dimensions whose
   number of cells is a long long *)
Lemma chk_getcoord_run_valid n nrows ncols xll yll csz idx a b :
  HalfLit N X -> 1 <= nrows -> 1 <= ncols ->
  0 <= idx < nrows * ncols -> nrows * ncols <= INT64_MAX ->
  (2 <= n)%nat ->
  exec_fun N X program_chk n "getcoord"
    [AVI nrows; AVI ncols; AVF xll; AVF yll; AVF csz; AVI idx; AVArrF [a; b]]
  = Ok (RI 0, [VArrF [fst (getcoord N nrows ncols xll yll csz idx);
                      snd (getcoord N nrows ncols xll yll csz idx)]]).
Proof.
  intros HH Hr Hc Hv HM Hn.
  destruct (valid_cell_facts_ci nrows ncols idx Hr Hc Hv HM) as (H1 & H2 & H3 & H4).
  apply chk_getcoord_run; try assumption; lia.
Qed.

#[local] Arguments voronoi_counts : simpl never.
#[local] Arguments nearest : simpl never.
#[local] Arguments nearest_from : simpl never.
#[local] Arguments getcoord : simpl never.
#[local] Arguments dist : simpl never.
#[local] Arguments incr : simpl never.
#[local] Arguments repeat : simpl never.

Section Vor.
Variables (nrows ncols : Z) (xll yll csz : T) (cells : list Z) (pts : list (T * T)).

(* ---- loop 1: for(j=0; j<npoints; j++) weights[j] = 0 ---- *)

Lemma chk_zero_loop (callf : callee T) n i jmin ierr idxcell dx dy dst dm w0 xy :
  zlen pts <= INT64_MAX ->
  List.length w0 = List.length pts -> (List.length pts < n)%nat ->
  loop n (cond_of N X (ICmp CLt (IVar "j") (IVar "npoints")))
    (for_body (exec N X callf n (SStoreF "weights" (IVar "j") (FOfInt (IConst 0))))
       (exec N X callf n (SSetI "j" (IChk W64 (IBin IAdd (IVar "j") (IConst 1))))))
    (vo_state nrows ncols (zlen cells) (zlen pts) i 0 jmin ierr idxcell xll yll csz dx dy dst dm
       cells (flat2 pts) w0 xy)
  = Ok (ONormal,
        vo_state nrows ncols (zlen cells) (zlen pts) i (zlen pts) jmin ierr idxcell xll yll csz dx dy dst dm
          cells (flat2 pts) (repeat (nofZ N 0) (List.length pts)) xy).
Proof.
  intros Hsz Hw Hn. rewrite zlen_eq in Hsz.
  apply (loop_rule_eq
           (fun k st => (k <= List.length pts)%nat /\
              st = vo_state nrows ncols (zlen cells) (zlen pts) i (Z.of_nat k) jmin ierr idxcell
                     xll yll csz dx dy dst dm cells (flat2 pts)
                     (repeat (nofZ N 0) k ++ skipn k w0) xy)
           _ (List.length pts)).
  - intros k st (Hk & ->). split; [exact Hk|].
    unfold vo_state. cbn. rewrite (zlen_eq pts).
    destruct (Z.ltb_spec (Z.of_nat k) (Z.of_nat (List.length pts))) as [Hlt|Hge]; cbn.
    + destruct (skipn_cons_nth' w0 k) as (x & Hx); [lia|]. rewrite Hx.
      rewrite zset_app by (rewrite repeat_length; reflexivity). ci.
      split; [lia|]. norm_state. unfold vo_state. rewrite ?zlen_eq.
      replace (Z.of_nat k + 1) with (Z.of_nat (S k)) by lia.
      rewrite repeat_app_cons'. reflexivity.
    + assert (k = List.length pts) by lia. subst k.
      rewrite <- Hw, skipn_all, app_nil_r. unfold vo_state. rewrite Hw, ?zlen_eq. reflexivity.
  - split; [lia|]. reflexivity.
  - lia.
Qed.

(* ---- loop 4: for(j=0; j<npoints; j++) weights[j] /= (double)ncells ---- *)

Lemma chk_div_loop (callf : callee T) n i jmin ierr idxcell dx dy dst dm w xy :
  zlen pts <= INT64_MAX ->
  List.length w = List.length pts -> (List.length pts < n)%nat ->
  loop n (cond_of N X (ICmp CLt (IVar "j") (IVar "npoints")))
    (for_body
       (exec N X callf n
          (SStoreF "weights" (IVar "j") (FBin FDiv (FArr "weights" (IVar "j")) (FOfInt (IVar "ncells")))))
       (exec N X callf n (SSetI "j" (IChk W64 (IBin IAdd (IVar "j") (IConst 1))))))
    (vo_state nrows ncols (zlen cells) (zlen pts) i 0 jmin ierr idxcell xll yll csz dx dy dst dm
       cells (flat2 pts) w xy)
  = Ok (ONormal,
        vo_state nrows ncols (zlen cells) (zlen pts) i (zlen pts) jmin ierr idxcell xll yll csz dx dy dst dm
          cells (flat2 pts) (map (fun x => ndiv N x (nofZ N (zlen cells))) w) xy).
Proof.
  intros Hsz Hw Hn. rewrite zlen_eq in Hsz.
  apply (loop_rule_eq
           (fun k st => exists done todo, w = done ++ todo /\ List.length done = k /\
              st = vo_state nrows ncols (zlen cells) (zlen pts) i (Z.of_nat k) jmin ierr idxcell
                     xll yll csz dx dy dst dm cells (flat2 pts)
                     (map (fun x => ndiv N x (nofZ N (zlen cells))) done ++ todo) xy)
           _ (List.length pts)).
  - intros k st (done & todo & Hd & Hk & ->).
    assert (Hlen : List.length pts = (k + List.length todo)%nat)
      by (rewrite <- Hw, Hd, app_length; lia).
    split; [lia|].
    unfold vo_state. cbn. rewrite (zlen_eq pts).
    destruct todo as [|x todo].
    + replace (Z.of_nat k <? Z.of_nat (List.length pts)) with false
        by (symmetry; apply Z.ltb_ge; cbn in Hlen; lia).
      rewrite app_nil_r in Hd. subst done. rewrite app_nil_r.
      unfold vo_state. rewrite ?(zlen_eq pts). replace (List.length pts) with k by (cbn in Hlen; lia).
      reflexivity.
    + replace (Z.of_nat k <? Z.of_nat (List.length pts)) with true
        by (symmetry; apply Z.ltb_lt; cbn in Hlen; lia).
      assert (Hk1 : Z.of_nat k + 1 <= INT64_MAX) by (cbn in Hlen; lia).
      cbn. rewrite zget_app by (rewrite map_length; lia). cbn.
      rewrite zset_app by (rewrite map_length; lia). ci.
      exists (done ++ [x]), todo.
      split; [rewrite <- app_assoc; exact Hd|].
      split; [rewrite app_length; cbn; lia|].
      norm_state. unfold vo_state. rewrite ?(zlen_eq pts).
      replace (Z.of_nat k + 1) with (Z.of_nat (S k)) by lia.
      rewrite map_app, <- app_assoc. reflexivity.
  - exists [], w. repeat split.
  - lia.
Qed.

(* ---- loop 3: the search of the nearest point ---- *)

(* Size hypothesis: 2*j+1 for the last j = npoints-1 (index into xypoints) is a long long *)
Lemma chk_near_loop (callf : callee T) n i ierr idxcell dx0 dy0 dst0 dm0 w cx cy :
  2 * zlen pts - 1 <= INT64_MAX ->
  (List.length pts < n)%nat ->
  exists r,
  loop n (cond_of N X (ICmp CLt (IVar "j") (IVar "npoints")))
    (for_body
       (exec N X callf n
          (SSeq
             (SSetF "dx" (FBin FSub (FArr "xy" (IConst 0)) (FArr "xypoints" (IChk W64 (IBin IMul (IConst 2) (IVar "j"))))))
             (SSeq
                (SSetF "dy"
                   (FBin FSub (FArr "xy" (IConst 1))
                      (FArr "xypoints" (IChk W64 (IBin IAdd (IChk W64 (IBin IMul (IConst 2) (IVar "j"))) (IConst 1))))))
                (SSeq
                   (SSetF "dist"
                      (FUn FSqrt
                         (FBin FAdd (FBin FMul (FVar "dx") (FVar "dx")) (FBin FMul (FVar "dy") (FVar "dy")))))
                   (SIf (IFCmp CLt (FVar "dist") (FVar "distmin"))
                      (SSeq (SSetF "distmin" (FVar "dist")) (SSetI "jmin" (IVar "j"))) SSkip)))))
       (exec N X callf n (SSetI "j" (IChk W64 (IBin IAdd (IVar "j") (IConst 1))))))
    (vo_state nrows ncols (zlen cells) (zlen pts) i 0 0 ierr idxcell xll yll csz dx0 dy0 dst0 dm0
       cells (flat2 pts) w [cx; cy]) = Ok r
  /\ exists dx dy dst dm,
       r = (ONormal,
            vo_state nrows ncols (zlen cells) (zlen pts) i (zlen pts) (nearest N dm0 (cx, cy) pts) ierr idxcell
              xll yll csz dx dy dst dm cells (flat2 pts) w [cx; cy]).
Proof.
  intros Hsz Hn. rewrite zlen_eq in Hsz.
  apply (loop_rule
           (fun k st => exists done todo dx dy dst dm jm,
              pts = done ++ todo /\ List.length done = k /\
              nearest N dm0 (cx, cy) pts = nearest_from N (cx, cy) todo (Z.of_nat k) dm jm /\
              st = vo_state nrows ncols (zlen cells) (zlen pts) i (Z.of_nat k) jm ierr idxcell
                     xll yll csz dx dy dst dm cells (flat2 pts) w [cx; cy])
           _ (List.length pts)) with (k := O).
  - intros k st (done & todo & dx & dy & dst & dm & jm & Hp & Hk & Hnear & ->).
    assert (Hlen : List.length pts = (k + List.length todo)%nat)
      by (rewrite Hp, app_length; lia).
    split; [lia|].
    unfold vo_state. cbn. rewrite (zlen_eq pts).
    destruct todo as [|[px py] todo].
    + replace (Z.of_nat k <? Z.of_nat (List.length pts)) with false
        by (symmetry; apply Z.ltb_ge; cbn in Hlen; lia).
      exists dx, dy, dst, dm. unfold vo_state. rewrite ?(zlen_eq pts), Hnear.
      replace (List.length pts) with k by (cbn in Hlen; lia). reflexivity.
    + replace (Z.of_nat k <? Z.of_nat (List.length pts)) with true
        by (symmetry; apply Z.ltb_lt; cbn in Hlen; lia).
      assert (HB : 0 <= 2 * Z.of_nat k /\ 2 * Z.of_nat k + 1 <= INT64_MAX) by (cbn in Hlen; lia).
      assert (Hg0 : zget (flat2 pts) (2 * Z.of_nat k) = Some px)
        by (rewrite Hp; apply (flat2_get0 done (px, py)); lia).
      assert (Hg1 : zget (flat2 pts) (2 * Z.of_nat k + 1) = Some py)
        by (rewrite Hp; apply (flat2_get1 done (px, py)); lia).
      ci. rewrite Hg0. ci. rewrite Hg1. cbn. rewrite truth_b2z.
      assert (Hd : nsqrt N (nadd N (nmul N (nsub N cx px) (nsub N cx px))
                              (nmul N (nsub N cy py) (nsub N cy py))) = dist N (cx, cy) (px, py))
        by reflexivity.
      rewrite Hd.
      assert (Hnf : nearest_from N (cx, cy) ((px, py) :: todo) (Z.of_nat k) dm jm =
                    if nltb N (dist N (cx, cy) (px, py)) dm
                    then nearest_from N (cx, cy) todo (Z.of_nat k + 1) (dist N (cx, cy) (px, py)) (Z.of_nat k)
                    else nearest_from N (cx, cy) todo (Z.of_nat k + 1) dm jm) by reflexivity.
      rewrite Hnf in Hnear.
      destruct (nltb N (dist N (cx, cy) (px, py)) dm) eqn:Hlt; ci.
      * exists (done ++ [(px, py)]), todo, (nsub N cx px), (nsub N cy py), (dist N (cx, cy) (px, py)),
          (dist N (cx, cy) (px, py)), (Z.of_nat k).
        split; [rewrite <- app_assoc; exact Hp|].
        split; [rewrite app_length; cbn; lia|].
        replace (Z.of_nat (S k)) with (Z.of_nat k + 1) by lia.
        split; [exact Hnear|].
        norm_state. unfold vo_state. rewrite ?(zlen_eq pts). reflexivity.
      * exists (done ++ [(px, py)]), todo, (nsub N cx px), (nsub N cy py), (dist N (cx, cy) (px, py)),
          dm, jm.
        split; [rewrite <- app_assoc; exact Hp|].
        split; [rewrite app_length; cbn; lia|].
        replace (Z.of_nat (S k)) with (Z.of_nat k + 1) by lia.
        split; [exact Hnear|].
        norm_state. unfold vo_state. rewrite ?(zlen_eq pts). reflexivity.
  - exists [], pts, dx0, dy0, dst0, dm0, 0. repeat split.
  - lia.
Qed.

End Vor.

(* ---- loop 2: the loop over the cells of the catchment ---- *)

Section VorCells.
Variables (nrows ncols : Z) (xll yll csz : T) (cells : list Z) (pts : list (T * T)) (DM : T).

Notation vc_st := (vc_st nrows ncols xll yll csz cells pts).
Notation vc_counts := (vc_counts N nrows ncols xll yll csz pts DM).
Notation vc_inv := (vc_inv N nrows ncols xll yll csz cells pts DM).
Notation vc_post := (vc_post N nrows ncols xll yll csz cells pts DM).

(* Size hypotheses: ncells is a long long (i++); the number of cells of the grid is a long long
   (idxcell >= nrows*ncols, evaluated for every cell; then a valid cell number makes getnxy /
   getcoord safe); 2*npoints-1 is a long long (xypoints[2*j+1]); the error codes
   GRID_ERROR + __LINE__ are ints. *)
Lemma chk_cells_loop n c1 c2 fb num den j0 jm0 idc0 dx0 dy0 dst0 dm0 a0 b0 :
  DM = nlit X fb num den ->
  0 <= c1 <= 2147433647 -> 0 <= c2 <= 2147433647 ->
  nofZ N 1 = n1 N -> HalfLit N X -> 1 <= nrows -> 1 <= ncols -> pts <> [] ->
  zlen cells <= INT64_MAX ->
  (cells <> [] -> nrows * ncols <= INT64_MAX) ->
  2 * zlen pts - 1 <= INT64_MAX ->
  (List.length cells < n)%nat -> (List.length pts < n)%nat -> (2 <= n)%nat ->
  exists r,
  loop n (cond_of N X (ICmp CLt (IVar "i") (IVar "ncells")))
    (for_body
       (exec N X (exec_fun N X program_chk n) n
          (SSeq (SSetI "idxcell" (IArr "idxcells_area" (IVar "i")))
             (SSeq
                (SIf
                   (IOr (ICmp CLt (IVar "idxcell") (IConst 0))
                      (ICmp CGe (IVar "idxcell") (IChk W64 (IBin IMul (IVar "nrows") (IVar "ncols")))))
                   (SRetI (IChk W32 (IBin IAdd (IConst 50000) (IConst c1)))) SSkip)
                (SSeq
                   (SCall (DI "ierr") "getcoord"
                      [AI (IVar "nrows"); AI (IVar "ncols"); AF (FVar "xll"); AF (FVar "yll");
                       AF (FVar "csz"); AI (IVar "idxcell"); AArrF "xy" (IConst 0)])
                   (SSeq
                      (SIf (ICmp CGt (IVar "ierr") (IConst 0)) (SRetI (IChk W32 (IBin IAdd (IConst 50000) (IConst c2))))
                         SSkip)
                      (SSeq (SSetF "distmin" (FLit fb num den))
                         (SSeq (SSetI "jmin" (IConst 0))
                            (SSeq (SSetI "j" (IConst 0))
                               (SSeq
                                  (SFor (ICmp CLt (IVar "j") (IVar "npoints"))
                                     (SSetI "j" (IChk W64 (IBin IAdd (IVar "j") (IConst 1))))
                                     (SSeq
                                        (SSetF "dx"
                                           (FBin FSub (FArr "xy" (IConst 0))
                                              (FArr "xypoints" (IChk W64 (IBin IMul (IConst 2) (IVar "j"))))))
                                        (SSeq
                                           (SSetF "dy"
                                              (FBin FSub (FArr "xy" (IConst 1))
                                                 (FArr "xypoints"
                                                    (IChk W64 (IBin IAdd (IChk W64 (IBin IMul (IConst 2) (IVar "j"))) (IConst 1))))))
                                           (SSeq
                                              (SSetF "dist"
                                                 (FUn FSqrt
                                                    (FBin FAdd (FBin FMul (FVar "dx") (FVar "dx"))
                                                       (FBin FMul (FVar "dy") (FVar "dy")))))
                                              (SIf (IFCmp CLt (FVar "dist") (FVar "distmin"))
                                                 (SSeq (SSetF "distmin" (FVar "dist")) (SSetI "jmin" (IVar "j")))
                                                 SSkip)))))
                                  (SStoreF "weights" (IVar "jmin")
                                     (FBin FAdd (FArr "weights" (IVar "jmin")) (FOfInt (IConst 1)))))))))))))
       (exec N X (exec_fun N X program_chk n) n (SSetI "i" (IChk W64 (IBin IAdd (IVar "i") (IConst 1))))))
    (vc_st 0 j0 jm0 idc0 dx0 dy0 dst0 dm0 (vc_counts []) a0 b0) = Ok r
  /\ vc_post r.
Proof.
  intros HDM Hc1 Hc2 H1 HH Hnr Hnc Hpts Hcl Hprod Hsz Hn Hnp Hn2. rewrite zlen_eq in Hcl.
  apply (loop_rule vc_inv vc_post (List.length cells)) with (k := O).
  - intros i st (done & todo & j & jm & idc & dx & dy & dst & dm & a & b & Hcells & Hi & Hval & ->).
    assert (Hlen : List.length cells = (i + List.length todo)%nat)
      by (rewrite Hcells, app_length; lia).
    split; [lia|].
    unfold RefineIntersect.vc_st, vo_state. cbn. rewrite (zlen_eq cells).
    destruct todo as [|c todo].
    + replace (Z.of_nat i <? Z.of_nat (List.length cells)) with false
        by (symmetry; apply Z.ltb_ge; cbn in Hlen; lia).
      left. rewrite app_nil_r in Hcells. subst done. split; [exact Hval|].
      exists j, jm, idc, dx, dy, dst, dm, a, b. unfold RefineIntersect.vc_st, vo_state. rewrite (zlen_eq cells).
      replace (List.length cells) with i by (cbn in Hlen; lia). reflexivity.
    + replace (Z.of_nat i <? Z.of_nat (List.length cells)) with true
        by (symmetry; apply Z.ltb_lt; cbn in Hlen; lia).
      assert (Hi1 : Z.of_nat i + 1 <= INT64_MAX) by (cbn in Hlen; lia).
      assert (HM : nrows * ncols <= INT64_MAX).
      { apply Hprod. rewrite Hcells. destruct done; discriminate. }
      assert (HM0 : 0 <= nrows * ncols) by nia.
      assert (Hg : zget cells (Z.of_nat i) = Some c) by (rewrite Hcells; apply zget_app; lia).
      cbn. rewrite Hg. ci. rewrite ?truth_b2z, ?b2z_truth_b2z, ?or_ok. rewrite ?truth_b2z.
      destruct ((c <? 0) || (nrows * ncols <=? c)) eqn:Hv.
      * (* invalid cell number: error return *)
        ci. right. exists (50000 + c1), done, c, todo.
        split; [lia|]. split; [exact Hcells|]. split; [exact Hval|].
        split; [unfold valid_cell; rewrite Hv; reflexivity|].
        exists (Z.of_nat i), j, jm, c, dx, dy, dst, dm, a, b.
        unfold RefineIntersect.vc_st, vo_state. rewrite (zlen_eq cells). reflexivity.
      * assert (Hvc : 0 <= c < nrows * ncols).
        { apply orb_false_iff in Hv. destruct Hv as [Hv1 Hv2].
          apply Z.ltb_ge in Hv1. apply Z.leb_gt in Hv2. lia. }
        cbn. rewrite (chk_getcoord_run_valid n nrows ncols xll yll csz c a b HH Hnr Hnc Hvc HM Hn2). cbn.
        set (gc := getcoord N nrows ncols xll yll csz c).
        rewrite <- (zlen_eq cells).
        match goal with
        | |- context[loop n _ _ ?s] =>
            change s with (vo_state nrows ncols (zlen cells) (zlen pts) (Z.of_nat i) 0 0 0 c
                             xll yll csz dx dy dst (nlit X fb num den) cells (flat2 pts)
                             (vc_counts done) [fst gc; snd gc])
        end.
        destruct (chk_near_loop nrows ncols xll yll csz cells pts (exec_fun N X program_chk n) n (Z.of_nat i) 0 c
                    dx dy dst (nlit X fb num den) (vc_counts done) (fst gc) (snd gc) Hsz Hnp)
          as (r & Hlp & dx' & dy' & dst' & dm' & ->).
        rewrite Hlp. rewrite <- HDM.
        replace (fst gc, snd gc) with gc by (destruct gc; reflexivity).
        set (jn := nearest N DM gc pts).
        assert (Hjn : 0 <= jn < Z.of_nat (List.length (vc_counts done))).
        { unfold RefineIntersect.vc_counts. rewrite counts_length. apply nearest_range. exact Hpts. }
        unfold vo_state. cbn.
        rewrite (zget_ok (vc_counts done) jn (n0 N)) by exact Hjn. cbn.
        rewrite zset_upd by exact Hjn. ci.
        exists (done ++ [c]), todo, (zlen pts), jn, c, dx', dy', dst', dm', (fst gc), (snd gc).
        split; [rewrite <- app_assoc; exact Hcells|].
        split; [rewrite app_length; cbn; lia|].
        split; [rewrite forallb_app, Hval; cbn; unfold valid_cell; rewrite Hv; reflexivity|].
        norm_state. unfold RefineIntersect.vc_st, vo_state.
        replace (Z.of_nat i + 1) with (Z.of_nat (S i)) by lia.
        unfold RefineIntersect.vc_counts at 3. rewrite counts_snoc. fold (vc_counts done). fold gc. fold jn.
        unfold incr, zn. rewrite H1. reflexivity.
  - exists [], cells, j0, jm0, idc0, dx0, dy0, dst0, dm0, a0, b0. repeat split.
  - lia.
Qed.

End VorCells.

Lemma chk_vor_err1 nrows ncols xll yll csz cells pts w0 n :
  (zlen pts <? 1) = true ->
  exists code, 0 < code /\
    exec_fun N X program_chk (S n) "c_voronoi"
      [AVI nrows; AVI ncols; AVF xll; AVF yll; AVF csz; AVI (zlen cells); AVArrI cells;
       AVI (zlen pts); AVArrF (flat2 pts); AVArrF w0]
    = Ok (RI code, [VArrI cells; VArrF (flat2 pts); VArrF w0]).
Proof.
  intros E1. enter_fun.
  eexists. split; [|cbn; rewrite !truth_b2z, E1; cbn; reflexivity]. lia.
Qed.

Lemma chk_vor_err2 nrows ncols xll yll csz cells pts w0 n :
  (zlen pts <? 1) = false -> (nrows <? 1) || (ncols <? 1) = true ->
  exists code, 0 < code /\
    exec_fun N X program_chk (S n) "c_voronoi"
      [AVI nrows; AVI ncols; AVF xll; AVF yll; AVF csz; AVI (zlen cells); AVArrI cells;
       AVI (zlen pts); AVArrF (flat2 pts); AVArrF w0]
    = Ok (RI code, [VArrI cells; VArrF (flat2 pts); VArrF w0]).
Proof.
  intros E1 E2. enter_fun.
  eexists. split; [|cbn; rewrite !truth_b2z, E1; cbn; rewrite ?truth_b2z, ?b2z_truth_b2z, ?or_ok;
                    rewrite ?truth_b2z, E2; cbn; reflexivity]. lia.
Qed.

(* c_voronoi, overflow-checked: the conclusion of [refine_voronoi] (three cases: bad arguments,
   all cells valid, first invalid cell), under its hypotheses and
   - ncells is a long long (i++);
   - 2*npoints-1 is a long long: xypoints[2*j+1] (the buffer xypoints has 2*npoints elements);
   - when the arguments pass the checks and there is at least one cell: the number of cells of
     the grid, computed by  idxcell >= nrows*ncols,  is a long long.
   No hypothesis on the cell numbers. *)
Theorem chk_refine_voronoi nrows ncols xll yll csz cells pts w0 n :
  nofZ N 0 = n0 N -> nofZ N 1 = n1 N -> HalfLit N X ->
  zlen cells <= INT64_MAX ->
  2 * zlen pts - 1 <= INT64_MAX ->
  (1 <= nrows -> 1 <= ncols -> cells <> [] -> nrows * ncols <= INT64_MAX) ->
  List.length w0 = List.length pts ->
  (Nat.max (List.length cells) (List.length pts) + 1 < n)%nat ->
  let run := exec_fun N X program_chk (S n) "c_voronoi"
               [AVI nrows; AVI ncols; AVF xll; AVF yll; AVF csz; AVI (zlen cells); AVArrI cells;
                AVI (zlen pts); AVArrF (flat2 pts); AVArrF w0] in
  if (zlen pts <? 1) || ((nrows <? 1) || (ncols <? 1)) then
    exists code, 0 < code /\ run = Ok (RI code, [VArrI cells; VArrF (flat2 pts); VArrF w0])
  else if forallb (valid_cell nrows ncols) cells then
    run = Ok (RI 0, [VArrI cells; VArrF (flat2 pts);
                     VArrF (voronoi N (vdistmax X) nrows ncols xll yll csz cells pts)])
  else
    exists code pre bad post, 0 < code /\ cells = pre ++ bad :: post /\
      forallb (valid_cell nrows ncols) pre = true /\ valid_cell nrows ncols bad = false /\
      run = Ok (RI code, [VArrI cells; VArrF (flat2 pts);
                          VArrF (voronoi_counts N (vdistmax X) nrows ncols xll yll csz pre pts)]).
Proof.
  intros H0 H1 HH Hcl Hsz Hprod Hw Hn run. subst run.
  destruct (zlen pts <? 1) eqn:E1; cbn [orb].
  { apply chk_vor_err1. exact E1. }
  destruct ((nrows <? 1) || (ncols <? 1)) eqn:E2.
  { apply chk_vor_err2; assumption. }
  assert (Hnrc : 1 <= nrows /\ 1 <= ncols).
  { apply orb_false_iff in E2. destruct E2 as [E2 E3]. apply Z.ltb_ge in E2, E3. lia. }
  destruct Hnrc as [Hnr Hnc].
  assert (Hpts : pts <> []).
  { intros ->. cbn in E1. discriminate E1. }
  assert (Hnp : zlen pts <= INT64_MAX) by lia.
  enter_fun.
  (* the two argument checks *)
  erewrite exec_seq_ok; [| cbn; rewrite !truth_b2z, E1; cbn; reflexivity].
  erewrite exec_seq_ok;
    [| cbn; rewrite ?truth_b2z, ?b2z_truth_b2z, ?or_ok; rewrite ?truth_b2z, E2; cbn; reflexivity].
  step_seq.
  (* loop 1 *)
  erewrite exec_seq_ok;
    [| cbn [exec];
       match goal with
       | |- context[loop n _ _ ?s] =>
           change s with (vo_state nrows ncols (zlen cells) (zlen pts) 0 0 0 0 0 xll yll csz
                            (nofZ N 0) (nofZ N 0) (nofZ N 0) (nofZ N 0) cells (flat2 pts) w0 [n0 N; n0 N])
       end;
       rewrite chk_zero_loop by (try assumption; lia); reflexivity].
  rewrite !H0.
  erewrite exec_seq_ok; [| cbn; reflexivity].
  (* loop 2 *)
  match goal with
  | |- context[SRetI (IChk W32 (IBin IAdd (IConst 50000) (IConst ?c1)))] =>
    match goal with
    | |- context[SSeq (SIf _ (SRetI (IChk W32 (IBin IAdd (IConst 50000) (IConst c1)))) SSkip)
                   (SSeq _ (SSeq (SIf _ (SRetI (IChk W32 (IBin IAdd (IConst 50000) (IConst ?c2)))) SSkip)
                                 (SSeq (SSetF "distmin" (FLit ?fb ?num ?den)) _)))] =>
        destruct (chk_cells_loop nrows ncols xll yll csz cells pts (vdistmax X) n c1 c2 fb num den
                    (zlen pts) 0 0 (n0 N) (n0 N) (n0 N) (n0 N) (n0 N) (n0 N))
          as (r & Hlp & Hpost); try assumption; try reflexivity; try lia; try (apply Hprod; assumption)
    end
  end.
  destruct Hpost as [[Hall (j & jm & idc & dx & dy & dst & dm & a & b & ->)]
                    |(code & pre & bad & post & Hcode & Hcells & Hpre & Hbad &
                      i & j & jm & idc & dx & dy & dst & dm & a & b & ->)].
  - rewrite Hall.
    erewrite exec_seq_ok;
      [| cbn [exec];
         match goal with
         | |- context[loop n _ _ ?s] =>
             change s with (vc_st nrows ncols xll yll csz cells pts 0 (zlen pts) 0 0 (n0 N) (n0 N) (n0 N) (n0 N)
                              (vc_counts N nrows ncols xll yll csz pts (vdistmax X) []) (n0 N) (n0 N))
         end;
         rewrite Hlp; reflexivity].
    unfold vc_st, vo_state. step_seq.
    erewrite exec_seq_ok;
      [| cbn [exec];
         match goal with
         | |- context[loop n _ _ ?s] =>
             change s with (vo_state nrows ncols (zlen cells) (zlen pts) (zlen cells) 0 jm 0 idc xll yll csz
                              dx dy dst dm cells (flat2 pts)
                              (vc_counts N nrows ncols xll yll csz pts (vdistmax X) cells) [a; b])
         end;
         rewrite chk_div_loop by (try (unfold vc_counts; apply counts_length); try assumption; lia); reflexivity].
    cbn. unfold voronoi, vc_counts. rewrite zlen_eq. reflexivity.
  - assert (Hall : forallb (valid_cell nrows ncols) cells = false).
    { rewrite Hcells, forallb_app. cbn [forallb]. rewrite Hbad, andb_false_r. reflexivity. }
    rewrite Hall. exists code, pre, bad, post.
    split; [exact Hcode|]. split; [exact Hcells|]. split; [exact Hpre|]. split; [exact Hbad|].
    erewrite exec_seq_ret;
      [| cbn [exec];
         match goal with
         | |- context[loop n _ _ ?s] =>
             change s with (vc_st nrows ncols xll yll csz cells pts 0 (zlen pts) 0 0 (n0 N) (n0 N) (n0 N) (n0 N)
                              (vc_counts N nrows ncols xll yll csz pts (vdistmax X) []) (n0 N) (n0 N))
         end;
         rewrite Hlp; reflexivity].
    unfold vc_st. cbn. reflexivity.
Qed.

End Chk.

(* ================================================================== *)
(* Instances: the real numbers (RR, XRR) and the reals with NaN (RN, XRN) *)
(* ================================================================== *)

(* the overflow-checked refinement theorems on the real numbers: no hypothesis left but the
   shape of the buffers and "the scalar arguments are long long values, 2*nval-1 included" *)
Theorem chk_refine_intersect_RR nrows ncols xll yll csz csz_area xys np0 idx0 w0 n :
  nrows <= MAXLL -> ncols <= MAXLL ->
  zlen idx0 <= INT64_MAX ->
  2 * zlen xys - 1 <= INT64_MAX ->
  List.length w0 = List.length idx0 ->
  Z.max 0 (nrows * ncols) <= Z.of_nat (List.length idx0) ->
  (List.length xys + 2 < n)%nat ->
  exec_fun RR XRR program_chk (S n) "c_intersect"
    [AVI nrows; AVI ncols; AVF xll; AVF yll; AVF csz; AVF csz_area; AVI (zlen xys);
     AVArrF (flat2 xys); AVI (zlen idx0); AVArrI [np0]; AVArrI idx0; AVArrF w0]
  = Ok (RI 0,
        let acc := c_intersect RR nrows ncols xll yll csz csz_area xys in
        [VArrF (flat2 xys); VArrI [zlen acc];
         VArrI (map fst acc ++ skipn (List.length acc) idx0);
         VArrF (map snd acc ++ skipn (List.length acc) w0)]).
Proof.
  intros. apply (chk_refine_intersect_grid RR XRR MAXLL (fun q => IZR (Int_part q))); try assumption.
  exact floor_laws_RR.
Qed.

Theorem chk_refine_intersect_RN nrows ncols xll yll csz csz_area xys np0 idx0 w0 n :
  nrows <= MAXLL -> ncols <= MAXLL ->
  zlen idx0 <= INT64_MAX ->
  2 * zlen xys - 1 <= INT64_MAX ->
  List.length w0 = List.length idx0 ->
  Z.max 0 (nrows * ncols) <= Z.of_nat (List.length idx0) ->
  (List.length xys + 2 < n)%nat ->
  exec_fun RN XRN program_chk (S n) "c_intersect"
    [AVI nrows; AVI ncols; AVF xll; AVF yll; AVF csz; AVF csz_area; AVI (zlen xys);
     AVArrF (flat2 xys); AVI (zlen idx0); AVArrI [np0]; AVArrI idx0; AVArrF w0]
  = Ok (RI 0,
        let acc := c_intersect RN nrows ncols xll yll csz csz_area xys in
        [VArrF (flat2 xys); VArrI [zlen acc];
         VArrI (map fst acc ++ skipn (List.length acc) idx0);
         VArrF (map snd acc ++ skipn (List.length acc) w0)]).
Proof.
  intros. eapply (chk_refine_intersect_grid RN XRN MAXLL); try eassumption.
  exact floor_laws_RN.
Qed.

Theorem chk_refine_voronoi_RR nrows ncols xll yll csz cells pts w0 n :
  zlen cells <= INT64_MAX ->
  2 * zlen pts - 1 <= INT64_MAX ->
  (1 <= nrows -> 1 <= ncols -> cells <> [] -> nrows * ncols <= INT64_MAX) ->
  List.length w0 = List.length pts ->
  (Nat.max (List.length cells) (List.length pts) + 1 < n)%nat ->
  let run := exec_fun RR XRR program_chk (S n) "c_voronoi"
               [AVI nrows; AVI ncols; AVF xll; AVF yll; AVF csz; AVI (zlen cells); AVArrI cells;
                AVI (zlen pts); AVArrF (flat2 pts); AVArrF w0] in
  if (zlen pts <? 1) || ((nrows <? 1) || (ncols <? 1)) then
    exists code, 0 < code /\ run = Ok (RI code, [VArrI cells; VArrF (flat2 pts); VArrF w0])
  else if forallb (valid_cell nrows ncols) cells then
    run = Ok (RI 0, [VArrI cells; VArrF (flat2 pts);
                     VArrF (voronoi RR VORONOI_DISTMAX_R nrows ncols xll yll csz cells pts)])
  else
    exists code pre bad post, 0 < code /\ cells = pre ++ bad :: post /\
      forallb (valid_cell nrows ncols) pre = true /\ valid_cell nrows ncols bad = false /\
      run = Ok (RI code, [VArrI cells; VArrF (flat2 pts);
                          VArrF (voronoi_counts RR VORONOI_DISTMAX_R nrows ncols xll yll csz pre pts)]).
Proof.
  intros Hcl Hsz Hprod Hw Hn. rewrite <- vdistmax_RR.
  apply (chk_refine_voronoi RR XRR); try assumption; try reflexivity; try exact half_lit_RR.
Qed.

(* ================================================================== *)
(* Necessity of the hypotheses on nrows*ncols: a grid of 2^32 x 2^32 cells *)
(* (both dimensions are long long values, their product is not): not a   *)
(* realistic grid.                                                       *)
(* ================================================================== *)

Definition two32 : Z := 4294967296.

Section Witness.
Context {T : Type} (N : NumOps T) (X : NumLit T).

(* idxcell >= nrows*ncols, for the first cell of the catchment *)
Lemma overflow_voronoi_ncells n xll yll csz x y w :
  exec_fun N X program_chk (S (S (S n))) "c_voronoi"
    [AVI two32; AVI two32; AVF xll; AVF yll; AVF csz; AVI 1; AVArrI [0]; AVI 1; AVArrF [x; y]; AVArrF [w]]
  = Err (Overflow false 18446744073709551616).
Proof. reflexivity. Qed.

End Witness.

(* c_intersect, binary64: the point (0.5, 0.5) of a 2^32 x 2^32 grid of cell size 1 lies in the
   bottom row, ny = nrows-1, and c_coord2cell computes ny*ncols = 2^64 - 2^32 *)
Lemma overflow_intersect_ncells np i w :
  exec_fun F64 XF64 program_chk 5 "c_intersect"
    [AVI two32; AVI two32; AVF 0%float; AVF 0%float; AVF 1%float; AVF 1%float; AVI 1;
     AVArrF [0.5%float; 0.5%float]; AVI 1; AVArrI [np]; AVArrI [i]; AVArrF [w]]
  = Err (Overflow false 18446744069414584320).
Proof. vm_compute. reflexivity. Qed.

(* ================================================================== *)
(* The two findings of RefineIntersect.v hold of the checked program as well *)
(* ================================================================== *)

(* buffer size: the kernel never compares j with ncells (the Cython wrapper accepts any length;
   only grid.py allocates nrows*ncols entries) *)
Example chk_intersect_short_buffer_oob :
  exec_fun F64 XF64 program_chk 10 "c_intersect"
    [AVI 1; AVI 1; AVF 0%float; AVF 0%float; AVF 1%float; AVF 1%float; AVI 1;
     AVArrF [0x1p-1%float; 0x1p-1%float]; AVI 0; AVArrI [0]; AVArrI []; AVArrF []]
  = Err (OOB "idxcells" 0).
Proof. vm_compute. reflexivity. Qed.

(* binary64 only, grids wider than 2^53 columns: the guard fx<(double)ncols compares with the
   ROUNDED dimension (no overflow involved) *)
Example chk_coord2cell_binary64_rounded_guard :
  exec_fun F64 XF64 program_chk 10 "c_coord2cell"
    [AVI 1; AVI 9007199254740993; AVF 0%float; AVF 0%float; AVF 1%float; AVI 1;
     AVArrF [0x1p53%float; 0x1p-1%float]; AVArrI [0]]
  = Ok (RI 0, [VArrF [0x1p53%float; 0x1p-1%float]; VArrI [-1]])
  /\ coord2cell F64 1 9007199254740993 0%float 0%float 1%float (0x1p53%float, 0x1p-1%float)
     = 9007199254740992.
Proof. split; vm_compute; reflexivity. Qed.
