(* Headline theorems of C02 (Proofs/TransformJacProofs.v) restated about the
   definitions REGENERATED from transform.py (Gen/PyGen.v): the generated
   Jacobian is the derivative of the generated forward, it is positive, and the
   generated forward is increasing.  Obtained from the equalities of
   Proofs/PyGenTransformProofs.v (is_derive_ext / rewriting) - nothing is
   re-proved about the formulas here. *)
From Coq Require Import Reals List Bool Lra.
From Coquelicot Require Import Coquelicot.
From Hy Require Import Base.Num Gen.ConstsC01 Model.Transform Gen.PyGen
  Proofs.TransformProofs Proofs.TransformJacProofs Proofs.PyGenTransformProofs.
Import ListNotations.
Open Scope R_scope.

(* transport of a derivative along a pointwise equality gen = model *)
Lemma pyjac_transport (g f : R -> R) x j :
  (forall t, g t = f t) -> is_derive f x j -> is_derive g x j.
Proof. intros E D. apply (is_derive_ext f); [intros t; symmetry; apply E | exact D]. Qed.

Lemma pyjac_Identity :
  (forall x, is_derive gen_Identity_fwd x (gen_Identity_jac x) /\ 0 < gen_Identity_jac x) /\
  (forall x1 x2, x1 < x2 -> gen_Identity_fwd x1 < gen_Identity_fwd x2).
Proof.
  split.
  - intros x. rewrite pygen_Identity_jac. destruct (id_jac_derive x) as [D P]. split; [|exact P].
    apply (pyjac_transport _ id_fwd); [apply pygen_Identity_fwd | exact D].
  - intros. rewrite !pygen_Identity_fwd. apply id_fwd_incr; assumption.
Qed.

Lemma pyjac_Logit :
  (forall lower logdelta x j, gen_Logit_jac lower logdelta x = Some j ->
     is_derive (gen_Logit_fwd lower logdelta) x j /\ 0 < j) /\
  (forall lower logdelta x1 x2, lower < x1 -> x2 < lower + exp logdelta -> x1 < x2 ->
     gen_Logit_fwd lower logdelta x1 < gen_Logit_fwd lower logdelta x2).
Proof.
  split.
  - intros lower logdelta x j. rewrite pygen_Logit_jac. intros H.
    destruct (logit_jac_derive _ _ _ _ H) as [D P]. split; [|exact P].
    apply (pyjac_transport _ (logit_fwd lower logdelta)); [apply pygen_Logit_fwd | exact D].
  - intros. rewrite !pygen_Logit_fwd. apply logit_fwd_incr; assumption.
Qed.

Lemma pyjac_Log :
  (forall mininu base nu x j, 0 <= mininu -> log_base_ok base ->
     gen_Log_jac mininu base nu x = Some j ->
     is_derive (gen_Log_fwd mininu base nu) x j /\ (log_base_gt1 base -> 0 < j)) /\
  (forall mininu base nu x1 x2, log_base_gt1 base -> 0 < x1 + nu -> x1 < x2 ->
     gen_Log_fwd mininu base nu x1 < gen_Log_fwd mininu base nu x2).
Proof.
  split.
  - intros mininu base nu x j Hm Hb. rewrite pygen_Log_jac. intros H.
    destruct (log_jac_derive _ _ _ _ _ Hm Hb H) as [D P]. split; [|exact P].
    apply (pyjac_transport _ (log_fwd (log_basefactor base) nu));
      [intros t; apply pygen_Log_fwd | exact D].
  - intros. rewrite !pygen_Log_fwd. apply log_fwd_incr; assumption.
Qed.

Lemma pyjac_BoxCox2 :
  (forall mininu minilam nu lam x j, 0 <= mininu -> gen_BoxCox2_jac mininu minilam nu lam x = Some j ->
     is_derive (gen_BoxCox2_fwd mininu minilam nu lam) x j /\ 0 < j) /\
  (forall mininu minilam nu lam x1 x2, 0 < x1 + nu -> x1 < x2 ->
     gen_BoxCox2_fwd mininu minilam nu lam x1 < gen_BoxCox2_fwd mininu minilam nu lam x2).
Proof.
  split.
  - intros mininu minilam nu lam x j Hm. rewrite pygen_BoxCox2_jac. intros H.
    destruct (bc2_jac_derive _ _ _ _ _ Hm H) as [D P]. split; [|exact P].
    apply (pyjac_transport _ (bc2_fwd nu lam)); [intros t; apply pygen_BoxCox2_fwd | exact D].
  - intros. rewrite !pygen_BoxCox2_fwd. apply bc2_fwd_incr; assumption.
Qed.

Lemma pyjac_BoxCox1lam :
  (forall mininu minilam nu lam x j, 0 <= mininu -> bc1lam_params_ok mininu minilam nu lam ->
     gen_BoxCox1lam_jac mininu minilam lam nu x = Some j ->
     is_derive (gen_BoxCox1lam_fwd mininu minilam lam nu) x j /\ 0 < j) /\
  (forall mininu minilam nu lam x1 x2, bc1lam_params_ok mininu minilam nu lam ->
     0 < x1 + nu -> x1 < x2 ->
     gen_BoxCox1lam_fwd mininu minilam lam nu x1 < gen_BoxCox1lam_fwd mininu minilam lam nu x2).
Proof.
  split.
  - intros mininu minilam nu lam x j Hm Hp. rewrite pygen_BoxCox1lam_jac. intros H.
    destruct (bc1lam_jac_derive _ _ _ _ _ _ Hm Hp H) as [D P]. split; [|exact P].
    apply (pyjac_transport _ (bc1lam_fwd mininu minilam nu lam));
      [intros t; apply pygen_BoxCox1lam_fwd | exact D].
  - intros. rewrite !pygen_BoxCox1lam_fwd. apply bc1lam_fwd_incr; assumption.
Qed.

Lemma pyjac_BoxCox1nu :
  (forall mininu minilam nu lam x j, 0 <= mininu -> bc1nu_params_ok mininu minilam nu lam ->
     gen_BoxCox1nu_jac mininu minilam nu lam x = Some j ->
     is_derive (gen_BoxCox1nu_fwd mininu minilam nu lam) x j /\ 0 < j) /\
  (forall mininu minilam nu lam x1 x2, bc1nu_params_ok mininu minilam nu lam ->
     0 < x1 + nu -> x1 < x2 ->
     gen_BoxCox1nu_fwd mininu minilam nu lam x1 < gen_BoxCox1nu_fwd mininu minilam nu lam x2).
Proof.
  split.
  - intros mininu minilam nu lam x j Hm Hp. rewrite pygen_BoxCox1nu_jac. intros H.
    destruct (bc1nu_jac_derive _ _ _ _ _ _ Hm Hp H) as [D P]. split; [|exact P].
    apply (pyjac_transport _ (bc1nu_fwd mininu minilam nu lam));
      [intros t; apply pygen_BoxCox1nu_fwd | exact D].
  - intros. rewrite !pygen_BoxCox1nu_fwd. apply bc1nu_fwd_incr; assumption.
Qed.

Lemma pyjac_BoxCox2sym :
  (forall mininu minilam nu lam x j, 0 <= mininu -> bc2sym_params_ok mininu minilam nu lam ->
     x <> 0 -> gen_BoxCox2sym_jac mininu minilam nu lam x = Some j ->
     is_derive (gen_BoxCox2sym_fwd mininu minilam nu lam) x j /\ 0 < j) /\
  (forall mininu minilam nu lam x1 x2, bc2sym_params_ok mininu minilam nu lam -> 0 < nu ->
     x1 < x2 ->
     gen_BoxCox2sym_fwd mininu minilam nu lam x1 < gen_BoxCox2sym_fwd mininu minilam nu lam x2).
Proof.
  split.
  - intros mininu minilam nu lam x j Hm Hp Hx. rewrite pygen_BoxCox2sym_jac. intros H.
    destruct (bc2sym_jac_derive _ _ _ _ _ _ Hm Hp Hx H) as [D P]. split; [|exact P].
    apply (pyjac_transport _ (bc2sym_fwd mininu minilam nu lam));
      [intros t; apply pygen_BoxCox2sym_fwd | exact D].
  - intros. rewrite !pygen_BoxCox2sym_fwd. apply bc2sym_fwd_incr; assumption.
Qed.

(* option-valued generated forwards are read through oget (None = NaN -> 0, never
   reached: the generated Yeo-Johnson forward is always Some) *)
Lemma pyjac_YeoJohnson :
  (forall nu scale lam x j, yj_params_ok nu scale lam -> yj_w nu scale x <> EPS ->
     gen_YeoJohnson_jac nu scale lam x = Some j ->
     is_derive (fun t => oget (gen_YeoJohnson_fwd nu scale lam t)) x j /\ 0 < j) /\
  (forall nu scale lam x1 x2 y1 y2, yj_params_ok nu scale lam -> x1 < x2 ->
     (EPS <= yj_w nu scale x1 \/ yj_w nu scale x2 < EPS \/
      (yj_w nu scale x1 <= 0 /\ EPS <= yj_w nu scale x2)) ->
     gen_YeoJohnson_fwd nu scale lam x1 = Some y1 -> gen_YeoJohnson_fwd nu scale lam x2 = Some y2 ->
     y1 < y2).
Proof.
  split.
  - intros nu scale lam x j Hp Hw. rewrite pygen_YeoJohnson_jac. intros E; inversion E; subst.
    destruct (yj_jac_derive _ _ _ _ Hp Hw) as [D P]. split; [|exact P].
    apply (pyjac_transport _ (yj_fwd nu scale lam)); [|exact D].
    intros t. rewrite pygen_YeoJohnson_fwd. reflexivity.
  - intros nu scale lam x1 x2 y1 y2 Hp H12 Hc. rewrite !pygen_YeoJohnson_fwd.
    intros E1 E2; inversion E1; inversion E2; subst. apply yj_fwd_incr; assumption.
Qed.

Lemma pyjac_LogSinh :
  (forall loga logb xmax x j, logsinh_params_ok loga logb xmax ->
     gen_LogSinh_jac loga logb xmax x = Some j ->
     is_derive (fun t => oget (gen_LogSinh_fwd loga logb xmax t)) x j /\ 0 < j) /\
  (forall loga logb xmax x1 x2, logsinh_params_ok loga logb xmax ->
     logsinh_guard loga logb xmax x1 = true -> x1 < x2 ->
     exists y1 y2, gen_LogSinh_fwd loga logb xmax x1 = Some y1 /\
                   gen_LogSinh_fwd loga logb xmax x2 = Some y2 /\ y1 < y2).
Proof.
  split.
  - intros loga logb xmax x j Hp. rewrite pygen_LogSinh_jac. intros H.
    destruct (logsinh_jac_derive _ _ _ _ _ Hp H) as [D P]. split; [|exact P].
    apply (pyjac_transport _ (fun t => oget (logsinh_fwd loga logb xmax t))); [|exact D].
    intros t. rewrite pygen_LogSinh_fwd. reflexivity.
  - intros loga logb xmax x1 x2 Hp Hg H12. rewrite !pygen_LogSinh_fwd.
    apply logsinh_fwd_incr; assumption.
Qed.

Lemma pyjac_Reciprocal :
  (forall mininu nu x j, gen_Reciprocal_jac mininu nu x = Some j ->
     is_derive (fun t => oget (gen_Reciprocal_fwd mininu nu t)) x j /\ 0 < j) /\
  (forall mininu nu x1 x2, - nu < x1 -> x1 < x2 ->
     exists y1 y2, gen_Reciprocal_fwd mininu nu x1 = Some y1 /\
                   gen_Reciprocal_fwd mininu nu x2 = Some y2 /\ y1 < y2).
Proof.
  split.
  - intros mininu nu x j. rewrite pygen_Reciprocal_jac. intros H.
    destruct (recip_jac_derive _ _ _ H) as [D P]. split; [|exact P].
    apply (pyjac_transport _ (fun t => oget (recip_fwd nu t))); [|exact D].
    intros t. rewrite pygen_Reciprocal_fwd. reflexivity.
  - intros mininu nu x1 x2 H1 H12. rewrite !pygen_Reciprocal_fwd. apply recip_fwd_incr; assumption.
Qed.

Lemma pyjac_Sinh :
  (forall nu scale x, sinh_params_ok nu scale ->
     is_derive (gen_Sinh_fwd nu scale) x (gen_Sinh_jac nu scale x) /\ 0 < gen_Sinh_jac nu scale x) /\
  (forall nu scale x1 x2, sinh_params_ok nu scale -> x1 < x2 ->
     gen_Sinh_fwd nu scale x1 < gen_Sinh_fwd nu scale x2).
Proof.
  split.
  - intros nu scale x Hp. rewrite pygen_Sinh_jac. destruct (sinh_jac_derive _ _ x Hp) as [D P].
    split; [|exact P].
    apply (pyjac_transport _ (sinh_fwd nu scale)); [intros t; apply pygen_Sinh_fwd | exact D].
  - intros. rewrite !pygen_Sinh_fwd. apply sinh_fwd_incr; assumption.
Qed.

Lemma pyjac_Manly :
  (forall lam xmax x, manly_params_ok lam xmax ->
     is_derive (gen_Manly_fwd lam xmax) x (gen_Manly_jac lam xmax x) /\ 0 < gen_Manly_jac lam xmax x) /\
  (forall lam xmax x1 x2, manly_params_ok lam xmax -> x1 < x2 ->
     gen_Manly_fwd lam xmax x1 < gen_Manly_fwd lam xmax x2).
Proof.
  split.
  - intros lam xmax x Hp. rewrite pygen_Manly_jac. destruct (manly_jac_derive _ _ x Hp) as [D P].
    split; [|exact P].
    apply (pyjac_transport _ (manly_fwd lam xmax)); [intros t; apply pygen_Manly_fwd | exact D].
  - intros. rewrite !pygen_Manly_fwd. apply manly_fwd_incr; assumption.
Qed.

Lemma pyjac_Softmax :
  (forall x j, row_pos x -> rsum x <= 1 - EPS -> gen_Softmax_jac x = Some j -> 0 < j) /\
  (forall xs js, softmax_dom xs -> all_rows gen_Softmax_jac xs = Some js ->
     List.Forall (fun j => 0 < j) js).
Proof.
  split.
  - intros x j Hp Hs. rewrite pygen_Softmax_jac_row.
    destruct (softmax_row_ok x); [|discriminate]. intros E; inversion E; subst.
    apply softmax_jac_row_pos; [assumption|]. pose proof EPS_pos. lra.
  - intros xs js Hd. rewrite pygen_Softmax_jac. apply softmax_jac_pos; assumption.
Qed.
