(* Refinement: the MiniC program regenerated from src/hydrodiy/gis/c_grid.c
   (Gen/KernelsAst.v: c_intersect, c_voronoi and their callees c_coord2cell, getcoord,
   getnxy) computes, for ALL inputs, what the hand-written model of Model/Intersect.v
   computes. *)
From Coq Require Import ZArith Bool List String Lia Reals Lra.
From Coq Require Import PrimFloat.
From Hy Require Import Base.Num Base.MiniC Gen.Consts Gen.ConstsC16 Gen.KernelsAst Model.Grid Model.Intersect.
From Hy Require Proofs.IntersectProofs.
Import ListNotations.
Open Scope string_scope.
Open Scope list_scope.
Open Scope Z_scope.

(* ================================================================== *)
(* Generic helpers (candidates for Base/MiniC.v)                        *)
(* ================================================================== *)

Lemma skipn_cons_nth' {A} (l : list A) k :
  (k < List.length l)%nat -> exists x, skipn k l = x :: skipn (S k) l.
Proof.
  revert k; induction l as [|a l IH]; intros k H; cbn in H; [lia|].
  destruct k as [|k]; [exists a; reflexivity|].
  destruct (IH k) as (x & E); [lia|]. exists x. cbn [skipn]. exact E.
Qed.

Lemma repeat_app_cons' {A} (x : A) k l : repeat x k ++ x :: l = repeat x (S k) ++ l.
Proof. induction k as [|k IH]; [reflexivity|]. cbn [repeat app]. rewrite IH. reflexivity. Qed.

(* [upd] of Model/Intersect.v is what a successful [zset] computes *)
Lemma zset_upd {A} (l : list A) (j : Z) (v : A) :
  0 <= j < Z.of_nat (List.length l) -> zset l j v = Some (upd l j v).
Proof.
  intros H. unfold upd. replace (j <? 0) with false by (symmetry; apply Z.ltb_ge; lia).
  revert j H. induction l as [|x r IH]; intros j H; cbn [List.length] in H; [lia|].
  destruct (Z.eq_dec j 0) as [->|Hne]; [reflexivity|].
  rewrite zset_cons by exact Hne. rewrite IH by lia.
  replace (Z.to_nat j) with (S (Z.to_nat (j - 1))) by lia. reflexivity.
Qed.

Lemma upd_length' {A} (l : list A) j v : List.length (upd l j v) = List.length l.
Proof.
  unfold upd. destruct (j <? 0); [reflexivity|]. generalize (Z.to_nat j) as k.
  induction l as [|x r IH]; intros k; [reflexivity|]. destruct k; cbn [upd_nat List.length]; [reflexivity|].
  rewrite IH. reflexivity.
Qed.

Section Staged.
Context {T : Type} (N : NumOps T) (X : NumLit T).

(* staged execution: unfold one call without touching the body, then run the leading
   assignments one by one, keeping the state a literal record (a single [cbn] over the whole
   function leaves a conversion problem that the kernel cannot check in reasonable time at Qed:
   the state is then a tower of unevaluated [set_*]) *)
Lemma exec_fun_S (p : MiniC.program) n f args ps body st0 :
  find_fun p f = Ok (ps, body) -> bind_params f ps args st_empty = Ok st0 ->
  exec_fun N X p (S n) f args =
  match exec N X (exec_fun N X p n) n body st0 with
  | Ok (ORet v, st) => do o <- out_arrays ps st; Ok (v, o)
  | Ok (_, _) => Err (BadRet f)
  | Err e => Err e
  end.
Proof.
  intros H1 H2. cbn [exec_fun]. rewrite H1. cbn [bind fst snd]. rewrite H2. reflexivity.
Qed.

Lemma exec_seq_ok (callf : callee T) fuel a b st st' :
  exec N X callf fuel a st = Ok (ONormal, st') ->
  exec N X callf fuel (SSeq a b) st = exec N X callf fuel b st'.
Proof. intros H. cbn [exec]. rewrite H. reflexivity. Qed.

Lemma exec_seq_ret (callf : callee T) fuel a b st st' v :
  exec N X callf fuel a st = Ok (ORet v, st') ->
  exec N X callf fuel (SSeq a b) st = Ok (ORet v, st').
Proof. intros H. cbn [exec]. rewrite H. reflexivity. Qed.

End Staged.

Ltac step_seq := erewrite exec_seq_ok; [| cbn; norm_state; reflexivity].
Ltac step_assign :=
  lazymatch goal with
  | |- context[exec _ _ _ _ (SSeq ?a _) _] =>
      lazymatch a with
      | SSetI _ _ => idtac | SSetF _ _ => idtac | SNewI _ _ _ => idtac | SNewF _ _ _ => idtac
      end
  end; step_seq.
Ltac enter_fun :=
  erewrite exec_fun_S; [| reflexivity | cbn; norm_state; reflexivity]; cbv [seq]; repeat step_assign.

(* ================================================================== *)

Section Refine.
Context {T : Type} (N : NumOps T) (X : NumLit T).

(* ================================================================== *)
(* c_coord2cell on one point                                            *)
(* ================================================================== *)

(* LLONG_MAX: nrows, ncols are `long long` arguments *)
Definition MAXLL : Z := 9223372036854775807.

(* What the proof needs from the arithmetic about
     fx = floor(q);  if(!(fx>=0 && fx<(double)n)) -> outside;  nx = (long long)fx
   against the model's [nfloor N q] (the integer floor, None for NaN / out of range):
   - libm floor has an interpretation [fl_floor] in (N, X);
   - when the double comparisons succeed, the cast (long long)fx is defined, is the model's
     floor and lies in [0, n)   (hence in the long long range: no CastRange);
   - when they fail, the model's floor is undefined or outside [0, n).
   [B] bounds the grid dimensions n for which the laws hold: B = LLONG_MAX on the reals
   ([floor_laws_RR], [floor_laws_RN] below).  In binary64 (double)n is rounded, and [fl_out]
   fails for an n > 2^53 that is not representable (e.g. n = 2^53+1, fx = 2^53: the kernel says
   "outside", the model "column 2^53"): there the laws can only hold with B = 2^53. *)
Record FloorLaws (B : Z) (fl_floor : T -> T) : Prop := mkFloorLaws {
  fl_bound : B <= MAXLL;
  fl_next : forall q, next X "floor" [q] = Some (fl_floor q);
  fl_in : forall q n, n <= B ->
    nleb N (nofZ N 0) (fl_floor q) && nltb N (fl_floor q) (nofZ N n) = true ->
    exists z, ntrunc N (fl_floor q) = Some z /\ nfloor N q = Some z /\ 0 <= z < n;
  fl_out : forall q n, n <= B ->
    nleb N (nofZ N 0) (fl_floor q) && nltb N (fl_floor q) (nofZ N n) = false ->
    match nfloor N q with Some z => z < 0 \/ n <= z | None => True end }.

Definition c2_state (nrows ncols i nx ny : Z) (xll yll csz fx fy : T) (idxcell : list Z) (xy : list T) : state T :=
  {| s_i := [("nrows", nrows); ("ncols", ncols); ("nval", 1); ("ierr", 0); ("i", i); ("nx", nx); ("ny", ny)];
     s_f := [("xll", xll); ("yll", yll); ("csz", csz); ("fx", fx); ("fy", fy)];
     s_ai := [("idxcell", idxcell)];
     s_af := [("xycoords", xy)] |}.

Lemma c2c_loop B flo (callf : callee T) n nrows ncols xll yll csz x y c0 :
  FloorLaws B flo -> nrows <= B -> ncols <= B -> (1 < n)%nat ->
  exists r,
  loop n (cond_of N X (ICmp CLt (IVar "i") (IVar "nval")))
    (for_body
       (exec N X callf n
          (SSeq
             (SSetF "fx"
                (FExt1 "floor"
                   (FBin FDiv (FBin FSub (FArr "xycoords" (IBin IMul (IConst 2) (IVar "i"))) (FVar "xll"))
                      (FVar "csz"))))
             (SSeq
                (SSetF "fy"
                   (FExt1 "floor"
                      (FBin FDiv
                         (FBin FSub (FArr "xycoords" (IBin IAdd (IBin IMul (IConst 2) (IVar "i")) (IConst 1)))
                            (FVar "yll")) (FVar "csz"))))
                (SSeq
                   (SIf
                      (IUn ILNot
                         (IAnd
                            (IAnd
                               (IAnd (IFCmp CGe (FVar "fx") (FOfInt (IConst 0)))
                                  (IFCmp CLt (FVar "fx") (FOfInt (IVar "ncols"))))
                               (IFCmp CGe (FVar "fy") (FOfInt (IConst 0))))
                            (IFCmp CLt (FVar "fy") (FOfInt (IVar "nrows")))))
                      (SSeq (SStoreI "idxcell" (IVar "i") (IUn INeg (IConst 1))) SContinue) SSkip)
                   (SSeq (SSetI "nx" (ITrunc W64 (FVar "fx")))
                      (SSeq
                         (SSetI "ny"
                            (IBin ISub (IBin ISub (IVar "nrows") (IConst 1)) (ITrunc W64 (FVar "fy"))))
                         (SIf
                            (IOr
                               (IOr
                                  (IOr (ICmp CLt (IVar "nx") (IConst 0)) (ICmp CGe (IVar "nx") (IVar "ncols")))
                                  (ICmp CLt (IVar "ny") (IConst 0))) (ICmp CGe (IVar "ny") (IVar "nrows")))
                            (SStoreI "idxcell" (IVar "i") (IUn INeg (IConst 1)))
                            (SStoreI "idxcell" (IVar "i")
                               (IBin IAdd (IBin IMul (IVar "ny") (IVar "ncols")) (IVar "nx"))))))))))
       (exec N X callf n (SSetI "i" (IBin IAdd (IVar "i") (IConst 1)))))
    (c2_state nrows ncols 0 0 0 xll yll csz (nofZ N 0) (nofZ N 0) [c0] [x; y]) = Ok r
  /\ exists nx ny fx fy,
       r = (ONormal, c2_state nrows ncols 1 nx ny xll yll csz fx fy
                       [coord2cell N nrows ncols xll yll csz (x, y)] [x; y]).
Proof.
  intros [Hb Hnext Hin Hout] Hr Hc Hn.
  apply (loop_rule
           (fun (k : nat) st =>
              (k = 0%nat /\ st = c2_state nrows ncols 0 0 0 xll yll csz (nofZ N 0) (nofZ N 0) [c0] [x; y]) \/
              (k = 1%nat /\ exists nx ny fx fy,
                  st = c2_state nrows ncols 1 nx ny xll yll csz fx fy
                         [coord2cell N nrows ncols xll yll csz (x, y)] [x; y]))
           _ 1%nat) with (k := O).
  - intros k st [[-> ->]|[-> (nx & ny & fx & fy & ->)]].
    2:{ split; [lia|]. unfold c2_state. cbn. exists nx, ny, fx, fy. reflexivity. }
    split; [lia|].
    unfold c2_state. cbn. rewrite Hnext. cbn. rewrite Hnext. cbn.
    set (fx := flo (ndiv N (nsub N x xll) csz)).
    set (fy := flo (ndiv N (nsub N y yll) csz)).
    rewrite ?truth_b2z, ?b2z_truth_b2z, ?or_ok, ?and_ok.
    unfold coord2cell. cbn [fst snd].
    destruct (nleb N (nofZ N 0) fx && nltb N fx (nofZ N ncols)) eqn:Bx.
    + destruct (Hin _ ncols Hc Bx) as (zx & Tx & Fx & Rx). fold fx in Tx.
      cbn. rewrite ?truth_b2z, ?b2z_truth_b2z, ?or_ok, ?and_ok.
      destruct (nleb N (nofZ N 0) fy && nltb N fy (nofZ N nrows)) eqn:By.
      * destruct (Hin _ nrows Hr By) as (zy & Ty & Fy & Ry). fold fy in Ty.
        cbn. rewrite Tx. unfold sem_cast, in_width. unfold MAXLL in *. zb. cbn.
        rewrite Ty. zb. cbn. zb. cbn.
        rewrite Fx, Fy. zb. cbn. right. split; [reflexivity|].
        exists zx, (nrows - 1 - zy), fx, fy. reflexivity.
      * cbn. rewrite Fx. pose proof (Hout _ nrows Hr By) as Oy.
        right. split; [reflexivity|]. exists 0, 0, fx, fy. norm_state. unfold c2_state.
        destruct (nfloor N (ndiv N (nsub N y yll) csz)) as [zy|]; [|reflexivity].
        replace ((zx <? 0) || (ncols <=? zx) || (nrows - 1 - zy <? 0) || (nrows <=? nrows - 1 - zy))
          with true; [reflexivity|].
        symmetry. rewrite !orb_true_iff, !Z.ltb_lt, !Z.leb_le. lia.
    + cbn. pose proof (Hout _ ncols Hc Bx) as Ox.
      right. split; [reflexivity|]. exists 0, 0, fx, fy. norm_state. unfold c2_state.
      destruct (nfloor N (ndiv N (nsub N x xll) csz)) as [zx|]; [|reflexivity].
      destruct (nfloor N (ndiv N (nsub N y yll) csz)) as [zy|]; [|reflexivity].
      replace ((zx <? 0) || (ncols <=? zx) || (nrows - 1 - zy <? 0) || (nrows <=? nrows - 1 - zy))
        with true; [reflexivity|].
      symmetry. rewrite !orb_true_iff, !Z.ltb_lt, !Z.leb_le. lia.
  - left. split; reflexivity.
  - lia.
Qed.

Lemma coord2cell_run B flo n nrows ncols xll yll csz x y c0 :
  FloorLaws B flo -> nrows <= B -> ncols <= B -> (2 <= n)%nat ->
  exec_fun N X program (S n) "c_coord2cell"
    [AVI nrows; AVI ncols; AVF xll; AVF yll; AVF csz; AVI 1; AVArrF [x; y]; AVArrI [c0]]
  = Ok (RI 0, [VArrF [x; y]; VArrI [coord2cell N nrows ncols xll yll csz (x, y)]]).
Proof.
  intros HF Hr Hc Hn.
  destruct (c2c_loop B flo (exec_fun N X program n) n nrows ncols xll yll csz x y c0 HF Hr Hc)
    as (r & Hl & nx & ny & fx & fy & ->); [lia|].
  cbn.
  match goal with
  | |- context[loop n _ _ ?s] =>
      change s with (c2_state nrows ncols 0 0 0 xll yll csz (nofZ N 0) (nofZ N 0) [c0] [x; y])
  end.
  rewrite Hl. cbn. reflexivity.
Qed.

Lemma coord2cell_run' B flo n nrows ncols xll yll csz x y c0 :
  FloorLaws B flo -> nrows <= B -> ncols <= B -> (3 <= n)%nat ->
  exec_fun N X program n "c_coord2cell"
    [AVI nrows; AVI ncols; AVF xll; AVF yll; AVF csz; AVI 1; AVArrF [x; y]; AVArrI [c0]]
  = Ok (RI 0, [VArrF [x; y]; VArrI [coord2cell N nrows ncols xll yll csz (x, y)]]).
Proof.
  intros HF Hr Hc Hn. destruct n as [|n]; [lia|]. apply (coord2cell_run B flo); try assumption. lia.
Qed.

(* ================================================================== *)
(* c_intersect                                                          *)
(* ================================================================== *)

Definition flat2 (l : list (T * T)) : list T := flat_map (fun p => [fst p; snd p]) l.

Lemma flat2_app a b : flat2 (a ++ b) = flat2 a ++ flat2 b.
Proof. apply flat_map_app. Qed.

Lemma flat2_length l : List.length (flat2 l) = (2 * List.length l)%nat.
Proof. induction l as [|p l IH]; [reflexivity|]. unfold flat2 in *. cbn [flat_map app List.length]. rewrite IH. lia. Qed.

Lemma flat2_get0 done p todo i :
  i = 2 * Z.of_nat (List.length done) -> zget (flat2 (done ++ p :: todo)) i = Some (fst p).
Proof.
  intros ->. rewrite flat2_app. change (flat2 (p :: todo)) with (fst p :: snd p :: flat2 todo).
  apply zget_app. rewrite flat2_length. lia.
Qed.

Lemma flat2_get1 done p todo i :
  i = 2 * Z.of_nat (List.length done) + 1 -> zget (flat2 (done ++ p :: todo)) i = Some (snd p).
Proof.
  intros ->. rewrite flat2_app. change (flat2 (p :: todo)) with ([fst p] ++ snd p :: flat2 todo).
  rewrite app_assoc. apply zget_app. rewrite app_length, flat2_length. cbn. lia.
Qed.

Definition it_state (nrows ncols nval ncells i j k ierr : Z) (xll yll csz csz_area af : T)
           (xyf : list T) (np idxcells idxcell : list Z) (weights xy : list T) : state T :=
  {| s_i := [("nrows", nrows); ("ncols", ncols); ("nval", nval); ("ncells", ncells);
             ("i", i); ("j", j); ("k", k); ("ierr", ierr)];
     s_f := [("xll", xll); ("yll", yll); ("csz", csz); ("csz_area", csz_area); ("areafactor", af)];
     s_ai := [("npoints", np); ("idxcells", idxcells); ("idxcell", idxcell)];
     s_af := [("xy_area", xyf); ("weights", weights); ("xy", xy)] |}.

Definition nokey (c : Z) (p : Z * T) : bool := negb (fst p =? c).

Lemma acc_add_notin af c acc :
  forallb (nokey c) acc = true -> acc_add N af c acc = acc ++ [(c, af)].
Proof.
  induction acc as [|[k w] r IH]; [reflexivity|]. cbn [forallb]. unfold nokey at 1. cbn [fst].
  intros H. apply andb_true_iff in H. destruct H as [H1 H2].
  cbn [acc_add app]. apply negb_true_iff in H1. rewrite H1, IH by exact H2. reflexivity.
Qed.

Lemma acc_add_found af c pre w post :
  forallb (nokey c) pre = true ->
  acc_add N af c (pre ++ (c, w) :: post) = pre ++ (c, nadd N w af) :: post.
Proof.
  induction pre as [|[k v] r IH].
  - intros _. cbn [app acc_add]. rewrite Z.eqb_refl. reflexivity.
  - cbn [forallb]. unfold nokey at 1. cbn [fst].
    intros H. apply andb_true_iff in H. destruct H as [H1 H2].
    cbn [acc_add app]. apply negb_true_iff in H1. rewrite H1, IH by exact H2. reflexivity.
Qed.

(* ---- lengths of the accumulated list ---- *)

Lemma acc_add_length_ge af c acc : (List.length acc <= List.length (acc_add N af c acc))%nat.
Proof.
  induction acc as [|[k w] r IH]; cbn [acc_add List.length]; [lia|].
  destruct (k =? c); cbn [List.length]; lia.
Qed.

Lemma acc_add_length_le af c acc : (List.length (acc_add N af c acc) <= S (List.length acc))%nat.
Proof.
  induction acc as [|[k w] r IH]; cbn [acc_add List.length]; [lia|].
  destruct (k =? c); cbn [List.length]; lia.
Qed.

Lemma iw_fold_ge locate af l : forall acc,
  (List.length acc <= List.length (fold_left (intersect_step N locate af) l acc))%nat.
Proof.
  induction l as [|p l IH]; intros acc; cbn [fold_left]; [lia|].
  etransitivity; [|apply IH]. unfold intersect_step.
  destruct (locate p <? 0); [lia|apply acc_add_length_ge].
Qed.

Lemma iw_fold_le locate af l : forall acc,
  (List.length (fold_left (intersect_step N locate af) l acc) <= List.length acc + List.length l)%nat.
Proof.
  induction l as [|p l IH]; intros acc; cbn [fold_left List.length]; [lia|].
  etransitivity; [apply IH|]. unfold intersect_step.
  destruct (locate p <? 0); [lia|]. pose proof (acc_add_length_le af (locate p) acc). lia.
Qed.

Lemma iw_snoc locate af l p :
  intersect_with N locate af (l ++ [p]) = intersect_step N locate af (intersect_with N locate af l) p.
Proof. unfold intersect_with. rewrite fold_left_app. reflexivity. Qed.

Lemma iw_prefix_len locate af l1 l2 :
  (List.length (intersect_with N locate af l1) <= List.length (intersect_with N locate af (l1 ++ l2)))%nat.
Proof. unfold intersect_with. rewrite fold_left_app. apply iw_fold_ge. Qed.

Lemma iw_len_le locate af l : (List.length (intersect_with N locate af l) <= List.length l)%nat.
Proof. unfold intersect_with. pose proof (iw_fold_le locate af l []). cbn [List.length] in *. lia. Qed.

#[local] Arguments flat2 : simpl never.
#[local] Arguments map : simpl never.
#[local] Arguments fold_left : simpl never.
#[local] Arguments acc_add : simpl never.
#[local] Arguments coord2cell : simpl never.

Section Inner.
Variables (nrows ncols nval ncells : Z) (xll yll csz csz_area af : T) (xyf : list T) (np : list Z).

Definition find_inv (i ierr c : Z) (acc : list (Z * T)) (irest : list Z) (wrest xy : list T)
           (k : nat) (st : state T) : Prop :=
  exists pre post, acc = pre ++ post /\ List.length pre = k /\ forallb (nokey c) pre = true /\
    st = it_state nrows ncols nval ncells i (zlen acc) (Z.of_nat k) ierr xll yll csz csz_area af xyf np
           (map fst acc ++ irest) [c] (map snd acc ++ wrest) xy.

Definition find_post (i ierr c : Z) (acc : list (Z * T)) (irest : list Z) (wrest xy : list T)
           (r : outcome T * state T) : Prop :=
  (forallb (nokey c) acc = true /\
   r = (ONormal, it_state nrows ncols nval ncells i (zlen acc) (zlen acc) ierr xll yll csz csz_area af xyf np
                   (map fst acc ++ irest) [c] (map snd acc ++ wrest) xy))
  \/
  (exists pre w post, acc = pre ++ (c, w) :: post /\ forallb (nokey c) pre = true /\
   r = (ONormal, it_state nrows ncols nval ncells i (zlen acc) (zlen pre) ierr xll yll csz csz_area af xyf np
                   (map fst acc ++ irest) [c]
                   (map snd (pre ++ (c, nadd N w af) :: post) ++ wrest) xy)).

Lemma find_loop (callf : callee T) n i ierr c acc irest wrest xy :
  (List.length acc < n)%nat ->
  exists r,
    loop n (cond_of N X (ICmp CLt (IVar "k") (IVar "j")))
      (for_body
         (exec N X callf n
            (SIf (ICmp CEq (IArr "idxcells" (IVar "k")) (IArr "idxcell" (IConst 0)))
               (SSeq
                  (SStoreF "weights" (IVar "k")
                     (FBin FAdd (FArr "weights" (IVar "k")) (FVar "areafactor"))) SBreak)
               SSkip))
         (exec N X callf n (SSetI "k" (IBin IAdd (IVar "k") (IConst 1)))))
      (it_state nrows ncols nval ncells i (zlen acc) 0 ierr xll yll csz csz_area af xyf np
         (map fst acc ++ irest) [c] (map snd acc ++ wrest) xy) = Ok r
    /\ find_post i ierr c acc irest wrest xy r.
Proof.
  intros Hn.
  apply (loop_rule (find_inv i ierr c acc irest wrest xy) (find_post i ierr c acc irest wrest xy)
           (List.length acc)) with (k := O).
  - intros k st (pre & post & Hacc & Hk & Hpre & ->).
    assert (Hlen : List.length acc = (k + List.length post)%nat)
      by (rewrite Hacc, app_length; lia).
    split; [lia|].
    unfold it_state. cbn. rewrite (zlen_eq acc).
    destruct post as [|[c' w] post].
    + replace (Z.of_nat k <? Z.of_nat (List.length acc)) with false
        by (symmetry; apply Z.ltb_ge; cbn in Hlen; lia).
      cbn. left. rewrite app_nil_r in Hacc. subst pre. split; [exact Hpre|].
      unfold it_state. rewrite (zlen_eq acc). replace (List.length acc) with k by (cbn in Hlen; lia).
      reflexivity.
    + replace (Z.of_nat k <? Z.of_nat (List.length acc)) with true
        by (symmetry; apply Z.ltb_lt; cbn in Hlen; lia).
      assert (Hg1 : zget (map fst acc ++ irest) (Z.of_nat k) = Some c').
      { rewrite Hacc, map_app, <- app_assoc. change (map fst ((c', w) :: post)) with (c' :: map fst post).
        cbn [app]. apply zget_app. rewrite map_length. lia. }
      assert (Hg2 : zget (map snd acc ++ wrest) (Z.of_nat k) = Some w).
      { rewrite Hacc, map_app, <- app_assoc. change (map snd ((c', w) :: post)) with (w :: map snd post).
        cbn [app]. apply zget_app. rewrite map_length. lia. }
      cbn. rewrite Hg1. cbn. rewrite truth_b2z.
      destruct (c' =? c) eqn:Hc.
      * apply Z.eqb_eq in Hc. subst c'.
        cbn. rewrite Hg2. cbn.
        assert (Hs : zset (map snd acc ++ wrest) (Z.of_nat k) (nadd N w af)
                     = Some (map snd (pre ++ (c, nadd N w af) :: post) ++ wrest)).
        { rewrite Hacc, !map_app, <- !app_assoc.
          change (map snd ((c, w) :: post)) with (w :: map snd post).
          change (map snd ((c, nadd N w af) :: post)) with (nadd N w af :: map snd post).
          cbn [app]. apply zset_app. rewrite map_length. lia. }
        rewrite Hs. cbn.
        right. exists pre, w, post. split; [exact Hacc|]. split; [exact Hpre|].
        norm_state. unfold it_state. rewrite !zlen_eq, Hk. reflexivity.
      * cbn. exists (pre ++ [(c', w)]), post.
        split; [rewrite <- app_assoc; exact Hacc|].
        split; [rewrite app_length; cbn; lia|].
        split; [rewrite forallb_app, Hpre; cbn; unfold nokey; cbn [fst]; rewrite Hc; reflexivity|].
        norm_state. unfold it_state. rewrite !zlen_eq.
        replace (Z.of_nat k + 1) with (Z.of_nat (S k)) by lia. reflexivity.
  - exists [], acc. repeat split.
  - lia.
Qed.

End Inner.

#[local] Arguments intersect_with : simpl never.
#[local] Arguments intersect_step : simpl never.

Section Outer.
Variables (B : Z) (flo : T -> T) (nrows ncols : Z) (xll yll csz csz_area : T) (xys : list (T * T))
          (np0 : Z) (idx0 : list Z) (w0 : list T).

Let af := nmul N (ndiv N csz_area csz) (ndiv N csz_area csz).
Let accof (l : list (T * T)) := intersect_with N (coord2cell N nrows ncols xll yll csz) af l.

Definition io_st (i : nat) (kk cc : Z) (a b : T) (acc : list (Z * T)) : state T :=
  it_state nrows ncols (zlen xys) (zlen idx0) (Z.of_nat i) (zlen acc) kk 0 xll yll csz csz_area af
    (flat2 xys) [np0] (map fst acc ++ skipn (List.length acc) idx0) [cc]
    (map snd acc ++ skipn (List.length acc) w0) [a; b].

Definition io_inv (i : nat) (st : state T) : Prop :=
  exists done todo kk cc a b,
    xys = done ++ todo /\ List.length done = i /\ st = io_st i kk cc a b (accof done).

Definition io_post (r : outcome T * state T) : Prop :=
  exists kk cc a b, r = (ONormal, io_st (List.length xys) kk cc a b (accof xys)).

Lemma io_loop n :
  FloorLaws B flo -> nrows <= B -> ncols <= B ->
  List.length w0 = List.length idx0 ->
  (List.length (accof xys) <= List.length idx0)%nat ->
  (List.length xys + 2 < n)%nat ->
  exists r,
  loop n (cond_of N X (ICmp CLt (IVar "i") (IVar "nval")))
    (for_body
       (exec N X (exec_fun N X program n) n
          (SSeq (SStoreF "xy" (IConst 0) (FArr "xy_area" (IBin IMul (IConst 2) (IVar "i"))))
             (SSeq
                (SStoreF "xy" (IConst 1)
                   (FArr "xy_area" (IBin IAdd (IBin IMul (IConst 2) (IVar "i")) (IConst 1))))
                (SSeq
                   (SCall (DI "ierr") "c_coord2cell"
                      [AI (IVar "nrows"); AI (IVar "ncols"); AF (FVar "xll"); AF (FVar "yll");
                       AF (FVar "csz"); AI (IConst 1); AArrF "xy" (IConst 0); AArrI "idxcell" (IConst 0)])
                   (SSeq
                      (SIf
                         (IOr (ICmp CGt (IVar "ierr") (IConst 0))
                            (ICmp CLt (IArr "idxcell" (IConst 0)) (IConst 0))) SContinue SSkip)
                      (SSeq (SSetI "k" (IConst 0))
                         (SSeq
                            (SFor (ICmp CLt (IVar "k") (IVar "j"))
                               (SSetI "k" (IBin IAdd (IVar "k") (IConst 1)))
                               (SIf (ICmp CEq (IArr "idxcells" (IVar "k")) (IArr "idxcell" (IConst 0)))
                                  (SSeq
                                     (SStoreF "weights" (IVar "k")
                                        (FBin FAdd (FArr "weights" (IVar "k")) (FVar "areafactor"))) SBreak)
                                  SSkip))
                            (SIf (ICmp CEq (IVar "k") (IVar "j"))
                               (SSeq (SStoreI "idxcells" (IVar "j") (IArr "idxcell" (IConst 0)))
                                  (SSeq (SStoreF "weights" (IVar "j") (FVar "areafactor"))
                                     (SSetI "j" (IBin IAdd (IVar "j") (IConst 1))))) SSkip))))))))
       (exec N X (exec_fun N X program n) n (SSetI "i" (IBin IAdd (IVar "i") (IConst 1)))))
    (io_st 0 0 0 (n0 N) (n0 N) []) = Ok r
  /\ io_post r.
Proof.
  intros HF Hr Hc Hw Hfit Hn.
  apply (loop_rule io_inv io_post (List.length xys)) with (k := O).
  - intros i st (done & todo & kk & cc & a & b & Hxys & Hi & ->).
    assert (Hlen : List.length xys = (i + List.length todo)%nat)
      by (rewrite Hxys, app_length; lia).
    split; [lia|].
    unfold io_st, it_state. cbn. rewrite (zlen_eq xys).
    destruct todo as [|p todo].
    + replace (Z.of_nat i <? Z.of_nat (List.length xys)) with false
        by (symmetry; apply Z.ltb_ge; cbn in Hlen; lia).
      cbn. exists kk, cc, a, b. rewrite app_nil_r in Hxys. subst done.
      unfold io_st, it_state. rewrite (zlen_eq xys).
      replace (List.length xys) with i by (cbn in Hlen; lia). reflexivity.
    + replace (Z.of_nat i <? Z.of_nat (List.length xys)) with true
        by (symmetry; apply Z.ltb_lt; cbn in Hlen; lia).
      destruct p as [px py].
      assert (Hg0 : zget (flat2 xys) (2 * Z.of_nat i) = Some px)
        by (rewrite Hxys; apply (flat2_get0 done (px, py)); lia).
      assert (Hg1 : zget (flat2 xys) (2 * Z.of_nat i + 1) = Some py)
        by (rewrite Hxys; apply (flat2_get1 done (px, py)); lia).
      cbn. rewrite Hg0. cbn. rewrite Hg1. cbn.
      rewrite (coord2cell_run' B flo) by (try assumption; lia).
      cbn. rewrite !truth_b2z.
      set (c := coord2cell N nrows ncols xll yll csz (px, py)).
      set (acc := accof done).
      assert (Hstep : accof (done ++ [(px, py)]) = if c <? 0 then acc else acc_add N af c acc).
      { unfold accof. rewrite iw_snoc. reflexivity. }
      assert (Hfit' : (List.length (accof (done ++ [(px, py)])) <= List.length idx0)%nat).
      { etransitivity; [|exact Hfit]. rewrite Hxys.
        replace (done ++ (px, py) :: todo) with ((done ++ [(px, py)]) ++ todo)
          by (rewrite <- app_assoc; reflexivity).
        apply iw_prefix_len. }
      assert (Hacc_n : (List.length acc < n)%nat).
      { pose proof (iw_len_le (coord2cell N nrows ncols xll yll csz) af done) as H. fold (accof done) in H.
        fold acc in H. lia. }
      clearbody acc c.
      destruct (c <? 0) eqn:Hneg.
      * cbn. exists (done ++ [(px, py)]), todo, kk, c, px, py.
        split; [rewrite <- app_assoc; exact Hxys|].
        split; [rewrite app_length; cbn; lia|].
        rewrite Hstep. norm_state. unfold io_st, it_state. rewrite (zlen_eq xys).
        replace (Z.of_nat i + 1) with (Z.of_nat (S i)) by lia. reflexivity.
      * cbn.
        match goal with
        | |- context[loop n _ _ ?s] =>
            change s with (it_state nrows ncols (Z.of_nat (List.length xys)) (zlen idx0) (Z.of_nat i) (zlen acc) 0 0
                             xll yll csz csz_area af (flat2 xys) [np0]
                             (map fst acc ++ skipn (List.length acc) idx0) [c]
                             (map snd acc ++ skipn (List.length acc) w0) [px; py])
        end.
        destruct (find_loop nrows ncols (Z.of_nat (List.length xys)) (zlen idx0) xll yll csz csz_area af
                    (flat2 xys) [np0] (exec_fun N X program n) n (Z.of_nat i) 0 c acc
                    (skipn (List.length acc) idx0) (skipn (List.length acc) w0) [px; py] Hacc_n)
          as (r & Hlp & Hpost).
        rewrite Hlp.
        destruct Hpost as [[Hnk ->] | (pre & w & post & Hacc & Hpre & ->)].
        -- (* not found: a new entry *)
           assert (Hadd : acc_add N af c acc = acc ++ [(c, af)]) by (apply acc_add_notin; exact Hnk).
           rewrite Hadd in Hstep. rewrite Hstep, app_length in Hfit'. cbn in Hfit'.
           destruct (skipn_cons_nth' idx0 (List.length acc)) as (x & Hx); [lia|].
           destruct (skipn_cons_nth' w0 (List.length acc)) as (y & Hy); [lia|].
           rewrite Hx, Hy.
           unfold it_state. cbn. rewrite Z.eqb_refl. cbn.
           rewrite zset_app by (rewrite zlen_eq, map_length; reflexivity). cbn.
           rewrite zset_app by (rewrite zlen_eq, map_length; reflexivity). cbn.
           exists (done ++ [(px, py)]), todo, (zlen acc), c, px, py.
           split; [rewrite <- app_assoc; exact Hxys|].
           split; [rewrite app_length; cbn; lia|].
           rewrite Hstep. norm_state. unfold io_st, it_state. rewrite (zlen_eq xys).
           rewrite !map_app, <- !app_assoc, app_length. cbn [map app List.length].
           replace (List.length acc + 1)%nat with (S (List.length acc)) by lia.
           replace (Z.of_nat i + 1) with (Z.of_nat (S i)) by lia.
           replace (zlen acc + 1) with (zlen (acc ++ [(c, af)]))
             by (rewrite !zlen_eq, app_length; cbn; lia).
           reflexivity.
        -- (* found at position |pre| *)
           assert (Hadd : acc_add N af c acc = pre ++ (c, nadd N w af) :: post)
             by (rewrite Hacc; apply acc_add_found; exact Hpre).
           rewrite Hadd in Hstep.
           unfold it_state. cbn.
           replace (zlen pre =? zlen acc) with false
             by (symmetry; apply Z.eqb_neq; rewrite !zlen_eq, Hacc, app_length; cbn; lia).
           cbn.
           exists (done ++ [(px, py)]), todo, (zlen pre), c, px, py.
           split; [rewrite <- app_assoc; exact Hxys|].
           split; [rewrite app_length; cbn; lia|].
           rewrite Hstep. norm_state. unfold io_st, it_state. rewrite (zlen_eq xys).
           replace (Z.of_nat i + 1) with (Z.of_nat (S i)) by lia.
           assert (Hl : List.length (pre ++ (c, nadd N w af) :: post) = List.length acc)
             by (rewrite Hacc, !app_length; reflexivity).
           assert (Hm : map fst (pre ++ (c, nadd N w af) :: post) = map fst acc)
             by (rewrite Hacc, !map_app; reflexivity).
           rewrite Hl, Hm, !zlen_eq, Hl. reflexivity.
  - exists [], xys, 0, 0, (n0 N), (n0 N). split; [reflexivity|]. split; reflexivity.
  - lia.
Qed.

End Outer.

(* c_intersect: for EVERY grid shape (nrows, ncols <= LLONG_MAX, any sign), every list of points
   (NaN, infinite, huge coordinates included), any cell sizes (zero, NaN included) and every initial
   content of the three output buffers, the translated kernel returns 0, leaves xy_area untouched,
   stores the number of cells in npoints[0] and fills the first npoints[0] entries of
   idxcells / weights with the model's list of (cell, weight) pairs; the rest of both buffers is
   untouched.  The only hypothesis on the size of the buffers, beyond what the Cython wrapper
   checks (|idxcells| = |weights| = ncells, |npoints| = 1, |xy_area| = 2 nval), is that the model's
   result fits: see [refine_intersect_grid] for the buffers allocated by grid.py. *)
Theorem refine_intersect B flo nrows ncols xll yll csz csz_area xys np0 idx0 w0 n :
  FloorLaws B flo -> nrows <= B -> ncols <= B ->
  List.length w0 = List.length idx0 ->
  (List.length (c_intersect N nrows ncols xll yll csz csz_area xys) <= List.length idx0)%nat ->
  (List.length xys + 2 < n)%nat ->
  exec_fun N X program (S n) "c_intersect"
    [AVI nrows; AVI ncols; AVF xll; AVF yll; AVF csz; AVF csz_area; AVI (zlen xys);
     AVArrF (flat2 xys); AVI (zlen idx0); AVArrI [np0]; AVArrI idx0; AVArrF w0]
  = Ok (RI 0,
        let acc := c_intersect N nrows ncols xll yll csz csz_area xys in
        [VArrF (flat2 xys); VArrI [zlen acc];
         VArrI (map fst acc ++ skipn (List.length acc) idx0);
         VArrF (map snd acc ++ skipn (List.length acc) w0)]).
Proof.
  intros HF Hr Hc Hw Hfit Hn.
  destruct (io_loop B flo nrows ncols xll yll csz csz_area xys np0 idx0 w0 n HF Hr Hc Hw Hfit Hn)
    as (r & Hl & kk & cc & a & b & ->).
  cbn.
  match goal with
  | |- context[loop n _ _ ?s] =>
      change s with (io_st nrows ncols xll yll csz csz_area xys np0 idx0 w0 0 0 0 (n0 N) (n0 N) [])
  end.
  rewrite Hl. cbn. reflexivity.
Qed.

(* the buffers allocated by grid.py (Catchment.intersect): nrows*ncols entries.  The unguarded
   stores idxcells[j], weights[j] are then safe: the stored cells are pairwise distinct valid cell
   numbers (pigeonhole, Proofs/IntersectProofs.v c_intersect_fits_buffer). *)
Theorem refine_intersect_grid B flo nrows ncols xll yll csz csz_area xys np0 idx0 w0 n :
  FloorLaws B flo -> nrows <= B -> ncols <= B ->
  List.length w0 = List.length idx0 ->
  Z.max 0 (nrows * ncols) <= Z.of_nat (List.length idx0) ->
  (List.length xys + 2 < n)%nat ->
  exec_fun N X program (S n) "c_intersect"
    [AVI nrows; AVI ncols; AVF xll; AVF yll; AVF csz; AVF csz_area; AVI (zlen xys);
     AVArrF (flat2 xys); AVI (zlen idx0); AVArrI [np0]; AVArrI idx0; AVArrF w0]
  = Ok (RI 0,
        let acc := c_intersect N nrows ncols xll yll csz csz_area xys in
        [VArrF (flat2 xys); VArrI [zlen acc];
         VArrI (map fst acc ++ skipn (List.length acc) idx0);
         VArrF (map snd acc ++ skipn (List.length acc) w0)]).
Proof.
  intros HF Hr Hc Hw Hbuf Hn. apply (refine_intersect B flo); try assumption.
  pose proof (IntersectProofs.c_intersect_fits_buffer N nrows ncols xll yll csz csz_area xys). lia.
Qed.

(* ================================================================== *)
(* c_voronoi                                                            *)
(* ================================================================== *)

(* ---- callees on one cell ---- *)

Lemma getnxy_run n ncols idx a b :
  ncols <> 0 ->
  exec_fun N X program (S n) "getnxy" [AVI ncols; AVI idx; AVArrI [a; b]]
  = Ok (RI 0, [VArrI [getnx ncols idx; getny ncols idx]]).
Proof.
  intros H. cbn. zb. cbn. zb. cbn. reflexivity.
Qed.

(* the literal 0.5 of getcoord is the model's [nhalf] = 1/(1+1) *)
Definition HalfLit : Prop := nlit X 0x1p-1%float 1 2 = nhalf N.

Lemma getcoord_run n nrows ncols xll yll csz idx a b :
  HalfLit -> ncols <> 0 -> (2 <= n)%nat ->
  exec_fun N X program n "getcoord"
    [AVI nrows; AVI ncols; AVF xll; AVF yll; AVF csz; AVI idx; AVArrF [a; b]]
  = Ok (RI 0, [VArrF [fst (getcoord N nrows ncols xll yll csz idx);
                      snd (getcoord N nrows ncols xll yll csz idx)]]).
Proof.
  intros HH Hc Hn. destruct n as [|n]; [lia|].
  cbn. destruct n as [|n]; [lia|]. rewrite getnxy_run by exact Hc. cbn.
  unfold HalfLit in HH. rewrite HH. reflexivity.
Qed.

(* ---- model facts ---- *)

Lemma counts_length distmax nrows ncols xll yll csz cells pts :
  List.length (voronoi_counts N distmax nrows ncols xll yll csz cells pts) = List.length pts.
Proof.
  unfold voronoi_counts.
  assert (G : forall w, List.length w = List.length pts ->
     List.length (fold_left (fun w c => incr N w (nearest N distmax (getcoord N nrows ncols xll yll csz c) pts))
                    cells w) = List.length pts).
  { induction cells as [|c cells IH]; intros w Hw; [exact Hw|]. cbn [fold_left]. apply IH.
    unfold incr. rewrite upd_length'. exact Hw. }
  apply G. apply repeat_length.
Qed.

Lemma counts_snoc distmax nrows ncols xll yll csz cells c pts :
  voronoi_counts N distmax nrows ncols xll yll csz (cells ++ [c]) pts
  = incr N (voronoi_counts N distmax nrows ncols xll yll csz cells pts)
      (nearest N distmax (getcoord N nrows ncols xll yll csz c) pts).
Proof. unfold voronoi_counts. rewrite fold_left_app. reflexivity. Qed.

Lemma nearest_from_range xy pts : forall j dm jm,
  nearest_from N xy pts j dm jm = jm \/
  (j <= nearest_from N xy pts j dm jm < j + Z.of_nat (List.length pts)).
Proof.
  induction pts as [|p pts IH]; intros j dm jm; cbn [nearest_from]; [left; reflexivity|].
  destruct (nltb N (dist N xy p) dm).
  - right. destruct (IH (j + 1) (dist N xy p) j) as [->|H]; cbn [List.length]; lia.
  - destruct (IH (j + 1) dm jm) as [->|H]; [left; reflexivity|right; cbn [List.length]; lia].
Qed.

Lemma nearest_range distmax xy pts :
  pts <> [] -> 0 <= nearest N distmax xy pts < Z.of_nat (List.length pts).
Proof.
  intros Hne. unfold nearest. destruct (nearest_from_range xy pts 0 distmax 0) as [->|H]; [|lia].
  destruct pts; [congruence|cbn [List.length]; lia].
Qed.

#[local] Arguments voronoi_counts : simpl never.
#[local] Arguments nearest : simpl never.
#[local] Arguments nearest_from : simpl never.
#[local] Arguments getcoord : simpl never.
#[local] Arguments dist : simpl never.
#[local] Arguments incr : simpl never.
#[local] Arguments repeat : simpl never.

Definition vo_state (nrows ncols ncells npoints i j jmin ierr idxcell : Z)
           (xll yll csz dx dy dst distmin : T) (cells : list Z) (xyp weights xy : list T) : state T :=
  {| s_i := [("nrows", nrows); ("ncols", ncols); ("ncells", ncells); ("npoints", npoints);
             ("i", i); ("j", j); ("jmin", jmin); ("ierr", ierr); ("idxcell", idxcell)];
     s_f := [("xll", xll); ("yll", yll); ("csz", csz); ("dx", dx); ("dy", dy); ("dist", dst);
             ("distmin", distmin)];
     s_ai := [("idxcells_area", cells)];
     s_af := [("xypoints", xyp); ("weights", weights); ("xy", xy)] |}.

Section Vor.
Variables (nrows ncols : Z) (xll yll csz : T) (cells : list Z) (pts : list (T * T)).

(* ---- loop 1: for(j=0; j<npoints; j++) weights[j] = 0 ---- *)

Lemma zero_loop (callf : callee T) n i jmin ierr idxcell dx dy dst dm w0 xy :
  List.length w0 = List.length pts -> (List.length pts < n)%nat ->
  loop n (cond_of N X (ICmp CLt (IVar "j") (IVar "npoints")))
    (for_body (exec N X callf n (SStoreF "weights" (IVar "j") (FOfInt (IConst 0))))
       (exec N X callf n (SSetI "j" (IBin IAdd (IVar "j") (IConst 1)))))
    (vo_state nrows ncols (zlen cells) (zlen pts) i 0 jmin ierr idxcell xll yll csz dx dy dst dm
       cells (flat2 pts) w0 xy)
  = Ok (ONormal,
        vo_state nrows ncols (zlen cells) (zlen pts) i (zlen pts) jmin ierr idxcell xll yll csz dx dy dst dm
          cells (flat2 pts) (repeat (nofZ N 0) (List.length pts)) xy).
Proof.
  intros Hw Hn.
  apply (loop_rule_eq
           (fun k st => (k <= List.length pts)%nat /\
              st = vo_state nrows ncols (zlen cells) (zlen pts) i (Z.of_nat k) jmin ierr idxcell
                     xll yll csz dx dy dst dm cells (flat2 pts)
                     (repeat (nofZ N 0) k ++ skipn k w0) xy)
           _ (List.length pts)).
  - intros k st (Hk & ->). split; [exact Hk|].
    unfold vo_state. cbn. rewrite (zlen_eq pts).
    destruct (Z.ltb_spec (Z.of_nat k) (Z.of_nat (List.length pts))) as [Hlt|Hge]; cbn.
    + destruct (skipn_cons_nth' w0 k) as (x & Hx); [lia|]. rewrite Hx.
      rewrite zset_app by (rewrite repeat_length; reflexivity). cbn.
      split; [lia|]. norm_state. unfold vo_state. rewrite ?zlen_eq.
      replace (Z.of_nat k + 1) with (Z.of_nat (S k)) by lia.
      rewrite repeat_app_cons'. reflexivity.
    + assert (k = List.length pts) by lia. subst k.
      rewrite <- Hw, skipn_all, app_nil_r. unfold vo_state. rewrite Hw, ?zlen_eq. reflexivity.
  - split; [lia|]. reflexivity.
  - lia.
Qed.

(* ---- loop 4: for(j=0; j<npoints; j++) weights[j] /= (double)ncells ---- *)

Lemma div_loop (callf : callee T) n i jmin ierr idxcell dx dy dst dm w xy :
  List.length w = List.length pts -> (List.length pts < n)%nat ->
  loop n (cond_of N X (ICmp CLt (IVar "j") (IVar "npoints")))
    (for_body
       (exec N X callf n
          (SStoreF "weights" (IVar "j") (FBin FDiv (FArr "weights" (IVar "j")) (FOfInt (IVar "ncells")))))
       (exec N X callf n (SSetI "j" (IBin IAdd (IVar "j") (IConst 1)))))
    (vo_state nrows ncols (zlen cells) (zlen pts) i 0 jmin ierr idxcell xll yll csz dx dy dst dm
       cells (flat2 pts) w xy)
  = Ok (ONormal,
        vo_state nrows ncols (zlen cells) (zlen pts) i (zlen pts) jmin ierr idxcell xll yll csz dx dy dst dm
          cells (flat2 pts) (map (fun x => ndiv N x (nofZ N (zlen cells))) w) xy).
Proof.
  intros Hw Hn.
  apply (loop_rule_eq
           (fun k st => exists done todo, w = done ++ todo /\ List.length done = k /\
              st = vo_state nrows ncols (zlen cells) (zlen pts) i (Z.of_nat k) jmin ierr idxcell
                     xll yll csz dx dy dst dm cells (flat2 pts)
                     (map (fun x => ndiv N x (nofZ N (zlen cells))) done ++ todo) xy)
           _ (List.length pts)).
  - intros k st (done & todo & Hd & Hk & ->).
    assert (Hlen : List.length pts = (k + List.length todo)%nat)
      by (rewrite <- Hw, Hd, app_length; lia).
    split; [lia|].
    unfold vo_state. cbn. rewrite (zlen_eq pts).
    destruct todo as [|x todo].
    + replace (Z.of_nat k <? Z.of_nat (List.length pts)) with false
        by (symmetry; apply Z.ltb_ge; cbn in Hlen; lia).
      rewrite app_nil_r in Hd. subst done. rewrite app_nil_r.
      unfold vo_state. rewrite ?(zlen_eq pts). replace (List.length pts) with k by (cbn in Hlen; lia).
      reflexivity.
    + replace (Z.of_nat k <? Z.of_nat (List.length pts)) with true
        by (symmetry; apply Z.ltb_lt; cbn in Hlen; lia).
      cbn. rewrite zget_app by (rewrite map_length; lia). cbn.
      rewrite zset_app by (rewrite map_length; lia). cbn.
      exists (done ++ [x]), todo.
      split; [rewrite <- app_assoc; exact Hd|].
      split; [rewrite app_length; cbn; lia|].
      norm_state. unfold vo_state. rewrite ?(zlen_eq pts).
      replace (Z.of_nat k + 1) with (Z.of_nat (S k)) by lia.
      rewrite map_app, <- app_assoc. reflexivity.
  - exists [], w. repeat split.
  - lia.
Qed.

(* ---- loop 3: the search of the nearest point ---- *)

Lemma near_loop (callf : callee T) n i ierr idxcell dx0 dy0 dst0 dm0 w cx cy :
  (List.length pts < n)%nat ->
  exists r,
  loop n (cond_of N X (ICmp CLt (IVar "j") (IVar "npoints")))
    (for_body
       (exec N X callf n
          (SSeq
             (SSetF "dx" (FBin FSub (FArr "xy" (IConst 0)) (FArr "xypoints" (IBin IMul (IConst 2) (IVar "j")))))
             (SSeq
                (SSetF "dy"
                   (FBin FSub (FArr "xy" (IConst 1))
                      (FArr "xypoints" (IBin IAdd (IBin IMul (IConst 2) (IVar "j")) (IConst 1)))))
                (SSeq
                   (SSetF "dist"
                      (FUn FSqrt
                         (FBin FAdd (FBin FMul (FVar "dx") (FVar "dx")) (FBin FMul (FVar "dy") (FVar "dy")))))
                   (SIf (IFCmp CLt (FVar "dist") (FVar "distmin"))
                      (SSeq (SSetF "distmin" (FVar "dist")) (SSetI "jmin" (IVar "j"))) SSkip)))))
       (exec N X callf n (SSetI "j" (IBin IAdd (IVar "j") (IConst 1)))))
    (vo_state nrows ncols (zlen cells) (zlen pts) i 0 0 ierr idxcell xll yll csz dx0 dy0 dst0 dm0
       cells (flat2 pts) w [cx; cy]) = Ok r
  /\ exists dx dy dst dm,
       r = (ONormal,
            vo_state nrows ncols (zlen cells) (zlen pts) i (zlen pts) (nearest N dm0 (cx, cy) pts) ierr idxcell
              xll yll csz dx dy dst dm cells (flat2 pts) w [cx; cy]).
Proof.
  intros Hn.
  apply (loop_rule
           (fun k st => exists done todo dx dy dst dm jm,
              pts = done ++ todo /\ List.length done = k /\
              nearest N dm0 (cx, cy) pts = nearest_from N (cx, cy) todo (Z.of_nat k) dm jm /\
              st = vo_state nrows ncols (zlen cells) (zlen pts) i (Z.of_nat k) jm ierr idxcell
                     xll yll csz dx dy dst dm cells (flat2 pts) w [cx; cy])
           _ (List.length pts)) with (k := O).
  - intros k st (done & todo & dx & dy & dst & dm & jm & Hp & Hk & Hnear & ->).
    assert (Hlen : List.length pts = (k + List.length todo)%nat)
      by (rewrite Hp, app_length; lia).
    split; [lia|].
    unfold vo_state. cbn. rewrite (zlen_eq pts).
    destruct todo as [|[px py] todo].
    + replace (Z.of_nat k <? Z.of_nat (List.length pts)) with false
        by (symmetry; apply Z.ltb_ge; cbn in Hlen; lia).
      exists dx, dy, dst, dm. unfold vo_state. rewrite ?(zlen_eq pts), Hnear.
      replace (List.length pts) with k by (cbn in Hlen; lia). reflexivity.
    + replace (Z.of_nat k <? Z.of_nat (List.length pts)) with true
        by (symmetry; apply Z.ltb_lt; cbn in Hlen; lia).
      assert (Hg0 : zget (flat2 pts) (2 * Z.of_nat k) = Some px)
        by (rewrite Hp; apply (flat2_get0 done (px, py)); lia).
      assert (Hg1 : zget (flat2 pts) (2 * Z.of_nat k + 1) = Some py)
        by (rewrite Hp; apply (flat2_get1 done (px, py)); lia).
      cbn. rewrite Hg0. cbn. rewrite Hg1. cbn. rewrite truth_b2z.
      assert (Hd : nsqrt N (nadd N (nmul N (nsub N cx px) (nsub N cx px))
                              (nmul N (nsub N cy py) (nsub N cy py))) = dist N (cx, cy) (px, py))
        by reflexivity.
      rewrite Hd.
      assert (Hnf : nearest_from N (cx, cy) ((px, py) :: todo) (Z.of_nat k) dm jm =
                    if nltb N (dist N (cx, cy) (px, py)) dm
                    then nearest_from N (cx, cy) todo (Z.of_nat k + 1) (dist N (cx, cy) (px, py)) (Z.of_nat k)
                    else nearest_from N (cx, cy) todo (Z.of_nat k + 1) dm jm) by reflexivity.
      rewrite Hnf in Hnear.
      destruct (nltb N (dist N (cx, cy) (px, py)) dm) eqn:Hlt; cbn.
      * exists (done ++ [(px, py)]), todo, (nsub N cx px), (nsub N cy py), (dist N (cx, cy) (px, py)),
          (dist N (cx, cy) (px, py)), (Z.of_nat k).
        split; [rewrite <- app_assoc; exact Hp|].
        split; [rewrite app_length; cbn; lia|].
        replace (Z.of_nat (S k)) with (Z.of_nat k + 1) by lia.
        split; [exact Hnear|].
        norm_state. unfold vo_state. rewrite ?(zlen_eq pts). reflexivity.
      * exists (done ++ [(px, py)]), todo, (nsub N cx px), (nsub N cy py), (dist N (cx, cy) (px, py)),
          dm, jm.
        split; [rewrite <- app_assoc; exact Hp|].
        split; [rewrite app_length; cbn; lia|].
        replace (Z.of_nat (S k)) with (Z.of_nat k + 1) by lia.
        split; [exact Hnear|].
        norm_state. unfold vo_state. rewrite ?(zlen_eq pts). reflexivity.
  - exists [], pts, dx0, dy0, dst0, dm0, 0. repeat split.
  - lia.
Qed.

End Vor.

(* ---- loop 2: the loop over the cells of the catchment ---- *)

Section VorCells.
Variables (nrows ncols : Z) (xll yll csz : T) (cells : list Z) (pts : list (T * T)) (DM : T).

Definition vc_st (i j jm idc : Z) (dx dy dst dm : T) (w : list T) (a b : T) : state T :=
  vo_state nrows ncols (zlen cells) (zlen pts) i j jm 0 idc xll yll csz dx dy dst dm
    cells (flat2 pts) w [a; b].

Definition vc_counts (l : list Z) : list T := voronoi_counts N DM nrows ncols xll yll csz l pts.

Definition vc_inv (i : nat) (st : state T) : Prop :=
  exists done todo j jm idc dx dy dst dm a b,
    cells = done ++ todo /\ List.length done = i /\
    forallb (valid_cell nrows ncols) done = true /\
    st = vc_st (Z.of_nat i) j jm idc dx dy dst dm (vc_counts done) a b.

Definition vc_post (r : outcome T * state T) : Prop :=
  (forallb (valid_cell nrows ncols) cells = true /\
   exists j jm idc dx dy dst dm a b,
     r = (ONormal, vc_st (zlen cells) j jm idc dx dy dst dm (vc_counts cells) a b))
  \/
  (exists code pre bad post, 0 < code /\ cells = pre ++ bad :: post /\
     forallb (valid_cell nrows ncols) pre = true /\ valid_cell nrows ncols bad = false /\
     exists i j jm idc dx dy dst dm a b,
       r = (ORet (RI code), vc_st i j jm idc dx dy dst dm (vc_counts pre) a b)).

Lemma cells_loop n c1 c2 fb num den j0 jm0 idc0 dx0 dy0 dst0 dm0 a0 b0 :
  DM = nlit X fb num den ->
  0 <= c1 -> 0 <= c2 ->
  nofZ N 1 = n1 N -> HalfLit -> ncols <> 0 -> pts <> [] ->
  (List.length cells < n)%nat -> (List.length pts < n)%nat -> (2 <= n)%nat ->
  exists r,
  loop n (cond_of N X (ICmp CLt (IVar "i") (IVar "ncells")))
    (for_body
       (exec N X (exec_fun N X program n) n
          (SSeq (SSetI "idxcell" (IArr "idxcells_area" (IVar "i")))
             (SSeq
                (SIf
                   (IOr (ICmp CLt (IVar "idxcell") (IConst 0))
                      (ICmp CGe (IVar "idxcell") (IBin IMul (IVar "nrows") (IVar "ncols"))))
                   (SRetI (IBin IAdd (IConst 50000) (IConst c1))) SSkip)
                (SSeq
                   (SCall (DI "ierr") "getcoord"
                      [AI (IVar "nrows"); AI (IVar "ncols"); AF (FVar "xll"); AF (FVar "yll");
                       AF (FVar "csz"); AI (IVar "idxcell"); AArrF "xy" (IConst 0)])
                   (SSeq
                      (SIf (ICmp CGt (IVar "ierr") (IConst 0)) (SRetI (IBin IAdd (IConst 50000) (IConst c2)))
                         SSkip)
                      (SSeq (SSetF "distmin" (FLit fb num den))
                         (SSeq (SSetI "jmin" (IConst 0))
                            (SSeq (SSetI "j" (IConst 0))
                               (SSeq
                                  (SFor (ICmp CLt (IVar "j") (IVar "npoints"))
                                     (SSetI "j" (IBin IAdd (IVar "j") (IConst 1)))
                                     (SSeq
                                        (SSetF "dx"
                                           (FBin FSub (FArr "xy" (IConst 0))
                                              (FArr "xypoints" (IBin IMul (IConst 2) (IVar "j")))))
                                        (SSeq
                                           (SSetF "dy"
                                              (FBin FSub (FArr "xy" (IConst 1))
                                                 (FArr "xypoints"
                                                    (IBin IAdd (IBin IMul (IConst 2) (IVar "j")) (IConst 1)))))
                                           (SSeq
                                              (SSetF "dist"
                                                 (FUn FSqrt
                                                    (FBin FAdd (FBin FMul (FVar "dx") (FVar "dx"))
                                                       (FBin FMul (FVar "dy") (FVar "dy")))))
                                              (SIf (IFCmp CLt (FVar "dist") (FVar "distmin"))
                                                 (SSeq (SSetF "distmin" (FVar "dist")) (SSetI "jmin" (IVar "j")))
                                                 SSkip)))))
                                  (SStoreF "weights" (IVar "jmin")
                                     (FBin FAdd (FArr "weights" (IVar "jmin")) (FOfInt (IConst 1)))))))))))))
       (exec N X (exec_fun N X program n) n (SSetI "i" (IBin IAdd (IVar "i") (IConst 1)))))
    (vc_st 0 j0 jm0 idc0 dx0 dy0 dst0 dm0 (vc_counts []) a0 b0) = Ok r
  /\ vc_post r.
Proof.
  intros HDM Hc1 Hc2 H1 HH Hnc Hpts Hn Hnp Hn2.
  apply (loop_rule vc_inv vc_post (List.length cells)) with (k := O).
  - intros i st (done & todo & j & jm & idc & dx & dy & dst & dm & a & b & Hcells & Hi & Hval & ->).
    assert (Hlen : List.length cells = (i + List.length todo)%nat)
      by (rewrite Hcells, app_length; lia).
    split; [lia|].
    unfold vc_st, vo_state. cbn. rewrite (zlen_eq cells).
    destruct todo as [|c todo].
    + replace (Z.of_nat i <? Z.of_nat (List.length cells)) with false
        by (symmetry; apply Z.ltb_ge; cbn in Hlen; lia).
      left. rewrite app_nil_r in Hcells. subst done. split; [exact Hval|].
      exists j, jm, idc, dx, dy, dst, dm, a, b. unfold vc_st, vo_state. rewrite (zlen_eq cells).
      replace (List.length cells) with i by (cbn in Hlen; lia). reflexivity.
    + replace (Z.of_nat i <? Z.of_nat (List.length cells)) with true
        by (symmetry; apply Z.ltb_lt; cbn in Hlen; lia).
      assert (Hg : zget cells (Z.of_nat i) = Some c) by (rewrite Hcells; apply zget_app; lia).
      cbn. rewrite Hg. cbn. rewrite ?truth_b2z, ?b2z_truth_b2z, ?or_ok. rewrite ?truth_b2z.
      destruct ((c <? 0) || (nrows * ncols <=? c)) eqn:Hv.
      * (* invalid cell number: error return *)
        cbn. right. exists (50000 + c1), done, c, todo.
        split; [lia|]. split; [exact Hcells|]. split; [exact Hval|].
        split; [unfold valid_cell; rewrite Hv; reflexivity|].
        exists (Z.of_nat i), j, jm, c, dx, dy, dst, dm, a, b.
        unfold vc_st, vo_state. rewrite (zlen_eq cells). reflexivity.
      * cbn. rewrite (getcoord_run n nrows ncols xll yll csz c a b HH Hnc Hn2). cbn.
        set (gc := getcoord N nrows ncols xll yll csz c).
        rewrite <- (zlen_eq cells).
        match goal with
        | |- context[loop n _ _ ?s] =>
            change s with (vo_state nrows ncols (zlen cells) (zlen pts) (Z.of_nat i) 0 0 0 c
                             xll yll csz dx dy dst (nlit X fb num den) cells (flat2 pts)
                             (vc_counts done) [fst gc; snd gc])
        end.
        destruct (near_loop nrows ncols xll yll csz cells pts (exec_fun N X program n) n (Z.of_nat i) 0 c
                    dx dy dst (nlit X fb num den) (vc_counts done) (fst gc) (snd gc) Hnp)
          as (r & Hlp & dx' & dy' & dst' & dm' & ->).
        rewrite Hlp. rewrite <- HDM.
        replace (fst gc, snd gc) with gc by (destruct gc; reflexivity).
        set (jn := nearest N DM gc pts).
        assert (Hjn : 0 <= jn < Z.of_nat (List.length (vc_counts done))).
        { unfold vc_counts. rewrite counts_length. apply nearest_range. exact Hpts. }
        unfold vo_state. cbn.
        rewrite (zget_ok (vc_counts done) jn (n0 N)) by exact Hjn. cbn.
        rewrite zset_upd by exact Hjn. cbn.
        exists (done ++ [c]), todo, (zlen pts), jn, c, dx', dy', dst', dm', (fst gc), (snd gc).
        split; [rewrite <- app_assoc; exact Hcells|].
        split; [rewrite app_length; cbn; lia|].
        split; [rewrite forallb_app, Hval; cbn; unfold valid_cell; rewrite Hv; reflexivity|].
        norm_state. unfold vc_st, vo_state.
        replace (Z.of_nat i + 1) with (Z.of_nat (S i)) by lia.
        unfold vc_counts at 3. rewrite counts_snoc. fold (vc_counts done). fold gc. fold jn.
        unfold incr, zn. rewrite H1. reflexivity.
  - exists [], cells, j0, jm0, idc0, dx0, dy0, dst0, dm0, a0, b0. repeat split.
  - lia.
Qed.

End VorCells.

(* the initial value of distmin: the literal 1e30 of the C text, as this arithmetic reads it *)
Definition vdistmax : T := nlit X VORONOI_DISTMAX_F 1000000000000000000000000000000 1.

Lemma vor_err1 nrows ncols xll yll csz cells pts w0 n :
  (zlen pts <? 1) = true ->
  exists code, 0 < code /\
    exec_fun N X program (S n) "c_voronoi"
      [AVI nrows; AVI ncols; AVF xll; AVF yll; AVF csz; AVI (zlen cells); AVArrI cells;
       AVI (zlen pts); AVArrF (flat2 pts); AVArrF w0]
    = Ok (RI code, [VArrI cells; VArrF (flat2 pts); VArrF w0]).
Proof.
  intros E1. enter_fun.
  eexists. split; [|cbn; rewrite !truth_b2z, E1; cbn; reflexivity]. lia.
Qed.

Lemma vor_err2 nrows ncols xll yll csz cells pts w0 n :
  (zlen pts <? 1) = false -> (nrows <? 1) || (ncols <? 1) = true ->
  exists code, 0 < code /\
    exec_fun N X program (S n) "c_voronoi"
      [AVI nrows; AVI ncols; AVF xll; AVF yll; AVF csz; AVI (zlen cells); AVArrI cells;
       AVI (zlen pts); AVArrF (flat2 pts); AVArrF w0]
    = Ok (RI code, [VArrI cells; VArrF (flat2 pts); VArrF w0]).
Proof.
  intros E1 E2. enter_fun.
  eexists. split; [|cbn; rewrite !truth_b2z, E1; cbn; rewrite ?truth_b2z, ?b2z_truth_b2z, ?or_ok;
                    rewrite ?truth_b2z, E2; cbn; reflexivity]. lia.
Qed.

(* c_voronoi: for EVERY grid shape, every list of cell numbers (valid or not), every list of
   points (NaN coordinates included) and every initial content of the weights buffer:
   - no point, or an empty grid: a positive error code, nothing written;
   - otherwise, if all the cell numbers are valid: 0 and the model's weights;
   - otherwise: a positive error code at the first invalid cell number [bad], the weights buffer
     holding the (not yet normalised) counts of the cells [pre] before it. *)
Theorem refine_voronoi nrows ncols xll yll csz cells pts w0 n :
  nofZ N 0 = n0 N -> nofZ N 1 = n1 N -> HalfLit ->
  List.length w0 = List.length pts ->
  (Nat.max (List.length cells) (List.length pts) + 1 < n)%nat ->
  let run := exec_fun N X program (S n) "c_voronoi"
               [AVI nrows; AVI ncols; AVF xll; AVF yll; AVF csz; AVI (zlen cells); AVArrI cells;
                AVI (zlen pts); AVArrF (flat2 pts); AVArrF w0] in
  if (zlen pts <? 1) || ((nrows <? 1) || (ncols <? 1)) then
    exists code, 0 < code /\ run = Ok (RI code, [VArrI cells; VArrF (flat2 pts); VArrF w0])
  else if forallb (valid_cell nrows ncols) cells then
    run = Ok (RI 0, [VArrI cells; VArrF (flat2 pts);
                     VArrF (voronoi N vdistmax nrows ncols xll yll csz cells pts)])
  else
    exists code pre bad post, 0 < code /\ cells = pre ++ bad :: post /\
      forallb (valid_cell nrows ncols) pre = true /\ valid_cell nrows ncols bad = false /\
      run = Ok (RI code, [VArrI cells; VArrF (flat2 pts);
                          VArrF (voronoi_counts N vdistmax nrows ncols xll yll csz pre pts)]).
Proof.
  intros H0 H1 HH Hw Hn run. subst run.
  destruct (zlen pts <? 1) eqn:E1; cbn [orb].
  { apply vor_err1. exact E1. }
  destruct ((nrows <? 1) || (ncols <? 1)) eqn:E2.
  { apply vor_err2; assumption. }
  assert (Hnc : ncols <> 0).
  { apply orb_false_iff in E2. destruct E2 as [_ E2]. apply Z.ltb_ge in E2. lia. }
  assert (Hpts : pts <> []).
  { intros ->. cbn in E1. discriminate E1. }
  enter_fun.
  (* the two argument checks *)
  erewrite exec_seq_ok; [| cbn; rewrite !truth_b2z, E1; cbn; reflexivity].
  erewrite exec_seq_ok;
    [| cbn; rewrite ?truth_b2z, ?b2z_truth_b2z, ?or_ok; rewrite ?truth_b2z, E2; cbn; reflexivity].
  step_seq.
  (* loop 1 *)
  erewrite exec_seq_ok;
    [| cbn [exec];
       match goal with
       | |- context[loop n _ _ ?s] =>
           change s with (vo_state nrows ncols (zlen cells) (zlen pts) 0 0 0 0 0 xll yll csz
                            (nofZ N 0) (nofZ N 0) (nofZ N 0) (nofZ N 0) cells (flat2 pts) w0 [n0 N; n0 N])
       end;
       rewrite zero_loop by (try assumption; lia); reflexivity].
  rewrite !H0.
  erewrite exec_seq_ok; [| cbn; reflexivity].
  (* loop 2 *)
  match goal with
  | |- context[SRetI (IBin IAdd (IConst 50000) (IConst ?c1))] =>
    match goal with
    | |- context[SSeq (SIf _ (SRetI (IBin IAdd (IConst 50000) (IConst c1))) SSkip)
                   (SSeq _ (SSeq (SIf _ (SRetI (IBin IAdd (IConst 50000) (IConst ?c2))) SSkip)
                                 (SSeq (SSetF "distmin" (FLit ?fb ?num ?den)) _)))] =>
        destruct (cells_loop nrows ncols xll yll csz cells pts vdistmax n c1 c2 fb num den
                    (zlen pts) 0 0 (n0 N) (n0 N) (n0 N) (n0 N) (n0 N) (n0 N))
          as (r & Hlp & Hpost); try assumption; try reflexivity; try lia
    end
  end.
  destruct Hpost as [[Hall (j & jm & idc & dx & dy & dst & dm & a & b & ->)]
                    |(code & pre & bad & post & Hcode & Hcells & Hpre & Hbad &
                      i & j & jm & idc & dx & dy & dst & dm & a & b & ->)].
  - rewrite Hall.
    erewrite exec_seq_ok;
      [| cbn [exec];
         match goal with
         | |- context[loop n _ _ ?s] =>
             change s with (vc_st nrows ncols xll yll csz cells pts 0 (zlen pts) 0 0 (n0 N) (n0 N) (n0 N) (n0 N)
                              (vc_counts nrows ncols xll yll csz pts vdistmax []) (n0 N) (n0 N))
         end;
         rewrite Hlp; reflexivity].
    unfold vc_st, vo_state. step_seq.
    erewrite exec_seq_ok;
      [| cbn [exec];
         match goal with
         | |- context[loop n _ _ ?s] =>
             change s with (vo_state nrows ncols (zlen cells) (zlen pts) (zlen cells) 0 jm 0 idc xll yll csz
                              dx dy dst dm cells (flat2 pts)
                              (vc_counts nrows ncols xll yll csz pts vdistmax cells) [a; b])
         end;
         rewrite div_loop by (try (unfold vc_counts; apply counts_length); lia); reflexivity].
    cbn. unfold voronoi, vc_counts. rewrite zlen_eq. reflexivity.
  - assert (Hall : forallb (valid_cell nrows ncols) cells = false).
    { rewrite Hcells, forallb_app. cbn [forallb]. rewrite Hbad, andb_false_r. reflexivity. }
    rewrite Hall. exists code, pre, bad, post.
    split; [exact Hcode|]. split; [exact Hcells|]. split; [exact Hpre|]. split; [exact Hbad|].
    erewrite exec_seq_ret;
      [| cbn [exec];
         match goal with
         | |- context[loop n _ _ ?s] =>
             change s with (vc_st nrows ncols xll yll csz cells pts 0 (zlen pts) 0 0 (n0 N) (n0 N) (n0 N) (n0 N)
                              (vc_counts nrows ncols xll yll csz pts vdistmax []) (n0 N) (n0 N))
         end;
         rewrite Hlp; reflexivity].
    unfold vc_st. cbn. reflexivity.
Qed.

End Refine.

(* ================================================================== *)
(* Instances: the real numbers (RR, XRR) and the reals with NaN (RN, XRN) *)
(* ================================================================== *)

Lemma Int_part_IZR z : Int_part (IZR z) = z.
Proof.
  unfold Int_part. assert (H : (z + 1) = up (IZR z)).
  { apply tech_up; rewrite plus_IZR; lra. }
  rewrite <- H. lia.
Qed.

Lemma in_range_R (z n : Z) :
  Rleb (IZR 0) (IZR z) && Rltb (IZR z) (IZR n) = true <-> 0 <= z < n.
Proof.
  rewrite andb_true_iff, Rleb_true, Rltb_true. split.
  - intros [H1 H2]. split; [apply le_IZR; exact H1|apply lt_IZR; exact H2].
  - intros [H1 H2]. split; [apply IZR_le; exact H1|apply IZR_lt; exact H2].
Qed.

Lemma R_trunc_IZR z : 0 <= z -> R_trunc (IZR z) = Some z.
Proof.
  intros H. unfold R_trunc. destruct (Rle_dec 0 (IZR z)) as [_|Hn].
  - rewrite Int_part_IZR. reflexivity.
  - exfalso. apply Hn. apply (IZR_le 0 z). exact H.
Qed.

Theorem floor_laws_RR : FloorLaws RR XRR MAXLL (fun q => IZR (Int_part q)).
Proof.
  split.
  - apply Z.le_refl.
  - intros q. reflexivity.
  - intros q n _ H. apply in_range_R in H. exists (Int_part q).
    split; [apply R_trunc_IZR; lia|]. split; [reflexivity|exact H].
  - intros q n _ H. change (nfloor RR q) with (Some (Int_part q)).
    destruct (Z_lt_dec (Int_part q) 0) as [Hl|Hl]; [left; exact Hl|].
    destruct (Z_le_dec n (Int_part q)) as [Hg|Hg]; [right; exact Hg|].
    exfalso. assert (Ht : Rleb (IZR 0) (IZR (Int_part q)) && Rltb (IZR (Int_part q)) (IZR n) = true)
      by (apply in_range_R; lia).
    change (nleb RR (nofZ RR 0) (IZR (Int_part q)) && nltb RR (IZR (Int_part q)) (nofZ RR n))
      with (Rleb (IZR 0) (IZR (Int_part q)) && Rltb (IZR (Int_part q)) (IZR n)) in H.
    rewrite Ht in H. discriminate H.
Qed.

Theorem floor_laws_RN :
  FloorLaws RN XRN MAXLL (fun q => match q with Some x => Some (IZR (Int_part x)) | None => None end).
Proof.
  split.
  - apply Z.le_refl.
  - intros [x|]; reflexivity.
  - intros [x|] n _ H; [|discriminate H].
    change (Rleb (IZR 0) (IZR (Int_part x)) && Rltb (IZR (Int_part x)) (IZR n) = true) in H.
    apply in_range_R in H. exists (Int_part x).
    split; [apply R_trunc_IZR; lia|]. split; [reflexivity|exact H].
  - intros [x|] n _ H; [|exact I]. change (nfloor RN (Some x)) with (Some (Int_part x)).
    change (Rleb (IZR 0) (IZR (Int_part x)) && Rltb (IZR (Int_part x)) (IZR n) = false) in H.
    destruct (Z_lt_dec (Int_part x) 0) as [Hl|Hl]; [left; exact Hl|].
    destruct (Z_le_dec n (Int_part x)) as [Hg|Hg]; [right; exact Hg|].
    exfalso. assert (Ht : Rleb (IZR 0) (IZR (Int_part x)) && Rltb (IZR (Int_part x)) (IZR n) = true)
      by (apply in_range_R; lia).
    rewrite Ht in H. discriminate H.
Qed.

Lemma half_lit_RR : HalfLit RR XRR.
Proof. unfold HalfLit, nhalf. cbn. unfold lit_R. lra. Qed.

Lemma half_lit_RN : HalfLit RN XRN.
Proof. unfold HalfLit, nhalf. cbn. unfold lit_R. f_equal; lra. Qed.

Lemma vdistmax_RR : vdistmax XRR = VORONOI_DISTMAX_R.
Proof. unfold vdistmax, VORONOI_DISTMAX_R. cbn. unfold lit_R. lra. Qed.

(* the two refinement theorems on the real numbers: no hypothesis left but the shape of the
   buffers (and nrows, ncols being long long values) *)
Theorem refine_intersect_RR nrows ncols xll yll csz csz_area xys np0 idx0 w0 n :
  nrows <= MAXLL -> ncols <= MAXLL ->
  List.length w0 = List.length idx0 ->
  Z.max 0 (nrows * ncols) <= Z.of_nat (List.length idx0) ->
  (List.length xys + 2 < n)%nat ->
  exec_fun RR XRR program (S n) "c_intersect"
    [AVI nrows; AVI ncols; AVF xll; AVF yll; AVF csz; AVF csz_area; AVI (zlen xys);
     AVArrF (flat2 xys); AVI (zlen idx0); AVArrI [np0]; AVArrI idx0; AVArrF w0]
  = Ok (RI 0,
        let acc := c_intersect RR nrows ncols xll yll csz csz_area xys in
        [VArrF (flat2 xys); VArrI [zlen acc];
         VArrI (map fst acc ++ skipn (List.length acc) idx0);
         VArrF (map snd acc ++ skipn (List.length acc) w0)]).
Proof.
  intros. apply (refine_intersect_grid RR XRR MAXLL (fun q => IZR (Int_part q))); try assumption.
  exact floor_laws_RR.
Qed.

Theorem refine_intersect_RN nrows ncols xll yll csz csz_area xys np0 idx0 w0 n :
  nrows <= MAXLL -> ncols <= MAXLL ->
  List.length w0 = List.length idx0 ->
  Z.max 0 (nrows * ncols) <= Z.of_nat (List.length idx0) ->
  (List.length xys + 2 < n)%nat ->
  exec_fun RN XRN program (S n) "c_intersect"
    [AVI nrows; AVI ncols; AVF xll; AVF yll; AVF csz; AVF csz_area; AVI (zlen xys);
     AVArrF (flat2 xys); AVI (zlen idx0); AVArrI [np0]; AVArrI idx0; AVArrF w0]
  = Ok (RI 0,
        let acc := c_intersect RN nrows ncols xll yll csz csz_area xys in
        [VArrF (flat2 xys); VArrI [zlen acc];
         VArrI (map fst acc ++ skipn (List.length acc) idx0);
         VArrF (map snd acc ++ skipn (List.length acc) w0)]).
Proof.
  intros. eapply (refine_intersect_grid RN XRN MAXLL); try eassumption.
  exact floor_laws_RN.
Qed.

Theorem refine_voronoi_RR nrows ncols xll yll csz cells pts w0 n :
  List.length w0 = List.length pts ->
  (Nat.max (List.length cells) (List.length pts) + 1 < n)%nat ->
  let run := exec_fun RR XRR program (S n) "c_voronoi"
               [AVI nrows; AVI ncols; AVF xll; AVF yll; AVF csz; AVI (zlen cells); AVArrI cells;
                AVI (zlen pts); AVArrF (flat2 pts); AVArrF w0] in
  if (zlen pts <? 1) || ((nrows <? 1) || (ncols <? 1)) then
    exists code, 0 < code /\ run = Ok (RI code, [VArrI cells; VArrF (flat2 pts); VArrF w0])
  else if forallb (valid_cell nrows ncols) cells then
    run = Ok (RI 0, [VArrI cells; VArrF (flat2 pts);
                     VArrF (voronoi RR VORONOI_DISTMAX_R nrows ncols xll yll csz cells pts)])
  else
    exists code pre bad post, 0 < code /\ cells = pre ++ bad :: post /\
      forallb (valid_cell nrows ncols) pre = true /\ valid_cell nrows ncols bad = false /\
      run = Ok (RI code, [VArrI cells; VArrF (flat2 pts);
                          VArrF (voronoi_counts RR VORONOI_DISTMAX_R nrows ncols xll yll csz pre pts)]).
Proof.
  intros Hw Hn. rewrite <- vdistmax_RR.
  apply (refine_voronoi RR XRR); try assumption; try reflexivity; try exact half_lit_RR.
Qed.

(* FINDING (buffer size): the kernel never compares j with ncells.  With a buffer shorter than
   the number of distinct cells hit, the store idxcells[j] is out of bounds (the Cython wrapper
   accepts any length; only grid.py allocates nrows*ncols entries).  Binary64 witness: a 1x1
   grid, one point inside, empty output buffers. *)
Example intersect_short_buffer_oob :
  exec_fun F64 XF64 program 10 "c_intersect"
    [AVI 1; AVI 1; AVF 0%float; AVF 0%float; AVF 1%float; AVF 1%float; AVI 1;
     AVArrF [0x1p-1%float; 0x1p-1%float]; AVI 0; AVArrI [0]; AVArrI []; AVArrF []]
  = Err (OOB "idxcells" 0).
Proof. vm_compute. reflexivity. Qed.

(* FINDING (binary64 only, grids wider than 2^53 columns): the guard fx<(double)ncols compares
   with the ROUNDED dimension.  ncols = 2^53+1 is rounded to 2^53, so a point in column 2^53 is
   declared outside by the kernel while the model (exact integer comparison) accepts it.  This is
   why [FloorLaws] carries the bound [B] (2^53 at most in binary64).  No practical grid is
   concerned (the cell numbers of such a grid overflow long long as soon as nrows > 1023). *)
Example coord2cell_binary64_rounded_guard :
  exec_fun F64 XF64 program 10 "c_coord2cell"
    [AVI 1; AVI 9007199254740993; AVF 0%float; AVF 0%float; AVF 1%float; AVI 1;
     AVArrF [0x1p53%float; 0x1p-1%float]; AVArrI [0]]
  = Ok (RI 0, [VArrF [0x1p53%float; 0x1p-1%float]; VArrI [-1]])
  /\ coord2cell F64 1 9007199254740993 0%float 0%float 1%float (0x1p53%float, 0x1p-1%float)
     = 9007199254740992.
Proof. split; vm_compute; reflexivity. Qed.
