(* Non-vacuity witnesses for the hypotheses of the C10 theorems. *)
From Coq Require Import ZArith Bool List Reals Lra Lia Permutation Sorted.
From Hy Require Import Base.Num Gen.Consts Gen.ConstsC10 Model.Dscore
  Proofs.DscoreProofs Proofs.DscoreStatProofs Proofs.DscoreRankProofs.
Import ListNotations.
Open Scope R_scope.

Lemma dscore_hyps_example :
  (2 <= length [0; 1; 2])%nat /\
  0 < sdot (centred RR [0; 1; 2]) (centred RR [0; 1; 2]) /\
  0 < sdot (centred RR [1; 5/2; 5/2]) (centred RR [1; 5/2; 5/2]).
Proof.
  split; [simpl; lia|].
  unfold sdot, centred, tmean, tsum. cbn. split; lra.
Qed.

Ltac sep_cases :=
  match goal with
  | H : In _ (_ :: _) |- _ => destruct H as [<-|H]; sep_cases
  | H : In _ [] |- _ => destruct H
  | _ => idtac
  end.

Lemma F_hyps_example :
  0 < 1 / 1000000 /\ [1; 2; 2] <> [] /\ separated (1 / 1000000) ([1; 2; 2] ++ [2; 3; 1]) /\
  wm_sum [1; 2; 2] [2; 3; 1] = 7 / 2.
Proof.
  split; [lra|]. split; [discriminate|]. split.
  - intros a b Ha Hb. simpl in Ha, Hb. cbn. unfold DS_CMP_TOL_R.
    destruct Ha as [<-|[<-|[<-|[<-|[<-|[<-|[]]]]]]];
    destruct Hb as [<-|[<-|[<-|[<-|[<-|[<-|[]]]]]]];
      first [left; reflexivity
            | right; unfold Rabs; match goal with |- context [Rcase_abs ?x] => destruct (Rcase_abs x) end; split; lra].
  - unfold wm_sum, wm. simpl.
    repeat match goal with
    | |- context [Rltb ?a ?b] =>
        first [rewrite (proj2 (Rltb_true a b)) by lra | rewrite (proj2 (Rltb_false a b)) by lra]
    | |- context [Reqb ?a ?b] =>
        first [rewrite (proj2 (Reqb_true a b)) by lra | rewrite (proj2 (Reqb_false a b)) by (intro; lra)]
    end. lra.
Qed.

Lemma pit_jitter_example :
  length [1 / 20000000000; - (1 / 10000000000)] = length [1; 3] /\
  Rabs (1 / 30000000000) <= k_eps KR /\
  Forall (fun d => Rabs d <= k_eps KR) [1 / 20000000000; - (1 / 10000000000)] /\
  Forall (fun x => 2 * k_eps KR < Rabs (x - 2)) [1; 3].
Proof.
  cbn [k_eps KR]. unfold EPS_metrics_R.
  split; [reflexivity|]. split; [unfold Rabs; destruct (Rcase_abs _); lra|].
  split; repeat constructor; unfold Rabs; destruct (Rcase_abs _); lra.
Qed.

Lemma perm3_example : Permutation [1/4; 1/2; 3/4] [3/4; 1/4; 1/2].
Proof.
  apply Permutation_sym.
  change [3/4; 1/4; 1/2] with ([3/4] ++ [1/4; 1/2]).
  change [1/4; 1/2; 3/4] with ([1/4; 1/2] ++ [3/4]).
  apply Permutation_app_comm.
Qed.

Lemma sorted3_example : StronglySorted Rle [1/4; 1/2; 3/4].
Proof. repeat constructor; lra. Qed.

Lemma cvm_hyps_example :
  [3/4; 1/4; 1/2] <> [] /\ Permutation [1/4; 1/2; 3/4] [3/4; 1/4; 1/2] /\
  StronglySorted Rle [1/4; 1/2; 3/4].
Proof. split; [discriminate|]. split; [exact perm3_example|exact sorted3_example]. Qed.

Lemma ad_hyps_example :
  [3/4; 1/4; 1/2] <> [] /\ Forall (fun x => 0 < x < 1) [3/4; 1/4; 1/2] /\
  Permutation [1/4; 1/2; 3/4] [3/4; 1/4; 1/2] /\ StronglySorted Rle [1/4; 1/2; 3/4].
Proof.
  split; [discriminate|]. split; [repeat constructor; lra|].
  split; [exact perm3_example|exact sorted3_example].
Qed.

Lemma cvm_pvalue_hyps_example :
  StronglySorted Rlt [0; 1/2; 1] /\ [0; 1/2; 1] <> [] /\
  Forall (fun c => length c = length [0; 1/2; 1] /\ Forall (fun y => 0 <= y <= 1) c)
         [[1; 1/2; 0]; [1; 1/4; 1/8]] /\
  (closest_col 7 [5%Z; 10%Z] < length [[1; 1/2; 0]; [1; 1/4; 1/8]])%nat.
Proof.
  split; [repeat constructor; lra|]. split; [discriminate|].
  split; [repeat constructor; lra|]. vm_compute. lia.
Qed.

Lemma ad_reject_example :
  In None [Some (1/2); None; Some (1/4)] /\ ~ ad_value_ok None /\
  In (Some (3/2)) [Some (3/2)] /\ ~ ad_value_ok (Some (3/2)) /\
  In (Some (-1/1000)) [Some (-1/1000)] /\ ~ ad_value_ok (Some (-1/1000)).
Proof.
  repeat split; simpl; auto; try tauto; intros H; lra.
Qed.

(* two ensembles of two members ordered like the keys 1 < 2 *)
Ltac in_cases H :=
  repeat match type of H with
         | _ \/ _ => destruct H as [H|H]
         end.

Lemma ordered_rows_example :
  0 < 1 / 1000000 /\ nltb RR (1 / 1000000) (k_eps_min KR) = false /\
  (2 <= length [1; 2])%nat /\ length [[1; 2]; [3; 4]] = length [1; 2] /\ NoDup [1; 2] /\ (2 <= 2)%nat /\
  ordered_rows (1 / 1000000) 2 (combine [1; 2] [[1; 2]; [3; 4]]) /\
  ordered_rows (1 / 1000000) 2 (combine (map Ropp [1; 2]) [[3; 4]; [1; 2]]).
Proof.
  split; [lra|]. split; [apply Rltb_false; cbn; unfold DS_EPS_MIN_R; lra|].
  split; [simpl; lia|]. split; [reflexivity|].
  split; [repeat constructor; simpl; intros H; in_cases H; try lra; contradiction|].
  split; [lia|].
  assert (Hsep : forall la lb : list R,
            In la [[1; 2]; [3; 4]] -> In lb [[1; 2]; [3; 4]] -> separated (1 / 1000000) (la ++ lb)).
  { intros la lb Ha Hb x y Hx Hy. cbn [k_cmp_tol KR]. unfold DS_CMP_TOL_R.
    simpl in Ha, Hb. in_cases Ha; in_cases Hb; try contradiction; subst la lb;
    simpl in Hx, Hy; in_cases Hx; in_cases Hy; try contradiction; subst x y;
      first [left; reflexivity
            | right; unfold Rabs; match goal with |- context [Rcase_abs ?t] => destruct (Rcase_abs t) end;
              split; lra]. }
  split.
  - split; [|split].
    + intros a Ha. simpl in Ha. in_cases Ha; try contradiction; subst a; reflexivity.
    + intros a b Ha Hb. apply Hsep.
      * simpl in Ha. in_cases Ha; try contradiction; subst a; simpl; auto.
      * simpl in Hb. in_cases Hb; try contradiction; subst b; simpl; auto.
    + intros a b Ha Hb Hlt x y Hx Hy. simpl in Ha, Hb.
      in_cases Ha; in_cases Hb; try contradiction; subst a b; simpl in *;
      in_cases Hx; in_cases Hy; try contradiction; subst; lra.
  - split; [|split].
    + intros a Ha. simpl in Ha. in_cases Ha; try contradiction; subst a; reflexivity.
    + intros a b Ha Hb. apply Hsep.
      * simpl in Ha. in_cases Ha; try contradiction; subst a; simpl; auto.
      * simpl in Hb. in_cases Hb; try contradiction; subst b; simpl; auto.
    + intros a b Ha Hb Hlt x y Hx Hy. simpl in Ha, Hb.
      in_cases Ha; in_cases Hb; try contradiction; subst a b; simpl in *;
      in_cases Hx; in_cases Hy; try contradiction; subst; lra.
Qed.

Lemma single_member_example :
  (2 <= length [1; 3; 2])%nat /\ length [10; 30; 20] = length [1; 3; 2] /\
  NoDup [1; 3; 2] /\ NoDup [10; 30; 20] /\
  (forall a b, In a (combine [1; 3; 2] [10; 30; 20]) -> In b (combine [1; 3; 2] [10; 30; 20]) ->
               fst b < fst a -> snd b < snd a).
Proof.
  split; [simpl; lia|]. split; [reflexivity|].
  split; [repeat constructor; simpl; intros H; in_cases H; try lra; contradiction|].
  split; [repeat constructor; simpl; intros H; in_cases H; try lra; contradiction|].
  intros a b Ha Hb Hlt. simpl in Ha, Hb.
  in_cases Ha; in_cases Hb; try contradiction; subst a b; simpl in *; lra.
Qed.

(* ---- binary64 witnesses (evaluated by vm_compute on the F64 instance) ---- *)
From Coq Require Import PrimFloat.

(* pinned pit(random=False): 11 members all below the observation give
   percentileofscore/100 = 1.0000000000000002 *)
Definition eleven_below : list float :=
  [0; 1; 2; 3; 4; 5; 6; 7; 8; 9; 10]%float.

Lemma pit_rank_noclip_exceeds_one_F64 :
  PrimFloat.ltb 1%float (pit_rank_noclip F64 KF 11%float eleven_below) = true /\
  PrimFloat.eqb (pit_rank F64 KF 11%float eleven_below) 1%float = true.
Proof. split; vm_compute; reflexivity. Qed.

(* pinned c_ensrank: with eps > 1 the sentinel value+1 hides the first and the
   last tie sequence: two identical single-member ensembles get F = -1 instead
   of 1/2; the repaired scan gives 1/2.  Same for values beyond 2^53. *)
Lemma sentinel_scan_wrong_F64 :
  (PrimFloat.eqb (pairF_sentinel F64 KF 2 [0x1p+3] [0x1p+3]) (-1) = true /\
   PrimFloat.eqb (pairF F64 KF 2 [0x1p+3] [0x1p+3]) 0.5 = true /\
   PrimFloat.eqb (pairF_sentinel F64 KF 0x1p-20 [0x1p+62] [0x1p+61]) (-1) = true /\
   PrimFloat.eqb (pairF F64 KF 0x1p-20 [0x1p+62] [0x1p+61]) 1 = true)%float.
Proof. repeat split; vm_compute; reflexivity. Qed.

