(* Theorems about Model/Dutils.v, part 3: facts that hold for EVERY arithmetic
   instance - binary64 ([F64]) included - because they do not depend on how
   sums round: the kernels work group by group, the number of outputs is the
   number of groups, a group beyond maxnan gives NaN, the tail operator
   returns the last non-missing input itself, the max operator returns one of
   the non-missing inputs, flathomogen keeps the length and the missing
   entries.  (Property C08.) *)
From Coq Require Import ZArith Bool List Lia.
From Hy Require Import Base.Num Gen.ConstsC08 Model.Dutils Proofs.DutilsProofs.
Import ListNotations.
Open Scope Z_scope.

Section Generic.
Context {T : Type} (N : NumOps T).

Definition validN (g : list T) : list T := filter (fun x => negb (nisnan N x)) g.
Definition nmissN (g : list T) : Z := Z.of_nat (length (filter (nisnan N) g)).

(* ------------------------------------------------------------------ *)
(* aggregate: group by group                                            *)

Section Agg.
Variable upd : Z -> T -> Z -> bool -> T -> T.
Variables op maxnan : Z.

(* the part of the state a group's value depends on *)
Definition core (s : aggst (T:=T)) : T * Z * Z := (ag_agg s, ag_n s, ag_nan s).

Definition core_next (c : T * Z * Z) (x : T) : T * Z * Z :=
  let '(agg, n, nan) := c in
  let valid := negb (nisnan N x) in
  let inp := if valid then x else n0 N in
  let n' := if valid then n + 1 else n in
  (upd op agg n' valid inp, n', if valid then nan else nan + 1).

Definition core_close (c : T * Z * Z) : T :=
  let '(agg, n, nan) := c in
  let a := if (op =? 1) && (0 <? n) then ndiv N agg (nofZ N n) else agg in
  if maxnan <? nan then nnan N else a.

(* the value the kernel stores for a group: a left fold over the group alone *)
Definition group_core (g : list T) : T * Z * Z := fold_left core_next g (n0 N, 0, 0).
Definition group_value (g : list T) : T := core_close (group_core g).

Lemma core_agg_next s x : core (agg_next N upd op s x) = core_next (core s) x.
Proof. unfold core, agg_next, core_next. simpl. reflexivity. Qed.

Lemma close_core s : agg_close N op maxnan s = core_close (core s).
Proof. reflexivity. Qed.

Lemma group_core_snoc g x : group_core (g ++ [x]) = core_next (group_core g) x.
Proof. unfold group_core. rewrite fold_left_app. reflexivity. Qed.

Lemma agg_loop_groupwise nval : forall l s g,
  core s = group_core g ->
  nondecr_from (ag_prev s) (map fst l) ->
  ag_count s + Z.of_nat (length l) < nval ->
  exists s',
    agg_loop N upd op maxnan nval l s = KDone s' /\
    ag_out s' ++ [agg_close N op maxnan s'] =
      ag_out s ++ map (fun kg => group_value (snd kg)) (runs_acc (ag_prev s) g l) /\
    ag_count s' + 1 = ag_count s + Z.of_nat (length (runs_acc (ag_prev s) g l)).
Proof.
  induction l as [|[ia x] l IH]; intros s g Hr Hs Hc.
  - exists s. simpl. rewrite close_core, Hr. repeat split; lia.
  - rewrite agg_loop_cons. simpl in Hs. destruct Hs as [Hle Hs].
    destruct (Z.ltb_spec ia (ag_prev s)); [lia|].
    simpl length in Hc.
    destruct (Z.eqb_spec ia (ag_prev s)) as [E|Hne]; cbn [negb andb].
    + set (s2 := agg_next N upd op s x).
      assert (Hr2 : core s2 = group_core (g ++ [x])).
      { unfold s2. rewrite core_agg_next, Hr, group_core_snoc. reflexivity. }
      destruct (IH s2 (g ++ [x]) Hr2) as (s' & E1 & E2 & E3).
      * change (ag_prev s2) with (ag_prev s). rewrite <- E. exact Hs.
      * change (ag_count s2) with (ag_count s). lia.
      * exists s'. simpl runs_acc. rewrite (proj2 (Z.eqb_eq ia (ag_prev s)) E).
        change (ag_prev s2) with (ag_prev s) in E2, E3.
        change (ag_out s2) with (ag_out s) in E2.
        change (ag_count s2) with (ag_count s) in E3. auto.
    + destruct (Z.leb_spec nval (ag_count s + 1)); [lia|].
      set (s1 := agg_flushed N op maxnan ia s).
      set (s2 := agg_next N upd op s1 x).
      assert (Hr2 : core s2 = group_core [x]).
      { unfold s2. rewrite core_agg_next. reflexivity. }
      destruct (IH s2 [x] Hr2) as (s' & E1 & E2 & E3).
      * exact Hs.
      * change (ag_count s2) with (ag_count s + 1). lia.
      * exists s'. simpl runs_acc. rewrite (proj2 (Z.eqb_neq ia (ag_prev s)) Hne).
        change (ag_prev s2) with ia in E2, E3.
        change (ag_out s2) with (ag_out s ++ [agg_close N op maxnan s]) in E2.
        change (ag_count s2) with (ag_count s + 1) in E3.
        rewrite (close_core s), Hr in E2.
        split; [exact E1|]. split.
        -- rewrite E2. simpl. rewrite <- app_assoc. reflexivity.
        -- simpl length. lia.
Qed.

Theorem aggregate_groupwise idx (xs : list T) :
  length idx = length xs -> (1 <= length xs)%nat ->
  Forall in_int32 idx -> nondecr idx ->
  py_aggregate N upd op maxnan idx xs =
  DOk (map (fun kg => group_value (snd kg)) (runs (combine idx xs))).
Proof.
  intros Hlen Hpos H32 Hs. unfold py_aggregate.
  rewrite (proj2 (Nat.eqb_eq _ _) Hlen). cbn [negb].
  rewrite map_to_int32_id by exact H32.
  destruct idx as [|k0 idx]; [simpl in Hlen; lia|].
  destruct xs as [|x0 xs]; [simpl in Hpos; lia|].
  unfold c_aggregate. cbn [combine]. rewrite agg_loop_cons.
  cbn [ag_prev ag_count]. rewrite Z.ltb_irrefl, Z.eqb_refl. cbn [negb andb].
  set (s0 := mkAgg k0 (n0 N) 0 0 0 (@nil T)).
  set (s2 := agg_next N upd op s0 x0).
  assert (Hr2 : core s2 = group_core [x0]) by (unfold s2; rewrite core_agg_next; reflexivity).
  simpl in Hlen. injection Hlen as Hlen.
  destruct (agg_loop_groupwise (Z.of_nat (length (x0 :: xs))) (combine idx xs) s2 [x0] Hr2)
    as (s' & E1 & E2 & E3).
  - change (ag_prev s2) with k0. rewrite map_fst_combine by exact Hlen. exact Hs.
  - change (ag_count s2) with 0. rewrite combine_length, Hlen, Nat.min_id. simpl length. lia.
  - rewrite E1. change (ag_prev s2) with k0 in E2, E3.
    change (ag_out s2) with (@nil T) in E2. change (ag_count s2) with 0 in E3.
    simpl app in E2. rewrite E2.
    set (res := map (fun kg => group_value (snd kg)) (runs_acc k0 [x0] (combine idx xs))).
    assert (El : ag_count s' + 1 = Z.of_nat (length res)).
    { unfold res. rewrite map_length. lia. }
    rewrite El, Nat2Z.id, firstn_app, firstn_all, Nat.sub_diag, firstn_O, app_nil_r.
    unfold res, runs. cbn [runs_acc]. rewrite Z.eqb_refl. reflexivity.
Qed.

(* one output per group *)
Corollary aggregate_output_count idx (xs : list T) :
  length idx = length xs -> (1 <= length xs)%nat ->
  Forall in_int32 idx -> nondecr idx ->
  exists out, py_aggregate N upd op maxnan idx xs = DOk out /\
              length out = length (runs (combine idx xs)).
Proof.
  intros. eexists. split; [apply aggregate_groupwise; assumption|apply map_length].
Qed.

(* counters of a group *)
Lemma group_core_counts g :
  snd (fst (group_core g)) = Z.of_nat (length (validN g)) /\
  snd (group_core g) = nmissN g.
Proof.
  induction g as [|x g IH] using rev_ind.
  - split; reflexivity.
  - rewrite group_core_snoc. destruct (group_core g) as [[agg n] nan]. simpl in IH.
    destruct IH as [IH1 IH2]. subst n nan.
    unfold validN, nmissN. rewrite !filter_app, !app_length. cbn [core_next filter].
    destruct (nisnan N x); cbn [negb length fst snd]; split; lia.
Qed.

(* a group with more than maxnan missing values gives NaN *)
Theorem group_value_beyond_maxnan g : maxnan < nmissN g -> group_value g = nnan N.
Proof.
  intros H. unfold group_value. pose proof (group_core_counts g) as [_ H2].
  destruct (group_core g) as [[agg n] nan]. simpl in H2. subst nan.
  unfold core_close. destruct (Z.ltb_spec maxnan (nmissN g)); [reflexivity|lia].
Qed.

End Agg.

(* the repaired reduction step, any instance: tail = the last non-missing
   input itself; max = one of the non-missing inputs *)
Lemma tail_core g :
  fst (fst (group_core (agg_upd N) 3 g)) = last (validN g) (n0 N).
Proof.
  induction g as [|x g IH] using rev_ind.
  - reflexivity.
  - rewrite group_core_snoc. destruct (group_core (agg_upd N) 3 g) as [[agg n] nan].
    simpl in IH. subst agg. unfold validN. rewrite filter_app. cbn [core_next filter fst].
    unfold agg_upd. cbn [Z.leb Z.eqb Z.compare Pos.compare Pos.compare_cont Pos.eqb].
    destruct (nisnan N x); cbn [negb].
    + rewrite app_nil_r. reflexivity.
    + rewrite last_last. reflexivity.
Qed.

Theorem tail_value_any_instance maxnan g :
  nmissN g <= maxnan ->
  group_value (agg_upd N) 3 maxnan g = last (validN g) (n0 N).
Proof.
  intros H. unfold group_value.
  pose proof (tail_core g) as H1. pose proof (group_core_counts (agg_upd N) 3 g) as [_ H2].
  destruct (group_core (agg_upd N) 3 g) as [[agg n] nan]. simpl in H1, H2. subst agg nan.
  unfold core_close. cbn [Z.eqb Pos.eqb andb].
  destruct (Z.ltb_spec maxnan (nmissN g)); [lia|reflexivity].
Qed.

Lemma max_core g :
  validN g <> [] -> In (fst (fst (group_core (agg_upd N) 2 g))) (validN g).
Proof.
  induction g as [|x g IH] using rev_ind; [intros H; exfalso; apply H; reflexivity|].
  intros H. rewrite group_core_snoc.
  pose proof (group_core_counts (agg_upd N) 2 g) as [Hn _].
  destruct (group_core (agg_upd N) 2 g) as [[agg n] nan]. simpl in IH, Hn. subst n.
  unfold validN in *. rewrite filter_app in *. cbn [core_next filter fst] in *.
  unfold agg_upd. cbn [Z.leb Z.eqb Z.compare Pos.compare Pos.compare_cont Pos.eqb].
  destruct (nisnan N x); cbn [negb] in *.
  - rewrite app_nil_r in *. apply IH. exact H.
  - apply in_or_app.
    destruct (filter (fun x0 => negb (nisnan N x0)) g) as [|v0 vr] eqn:Ev.
    + right; left. reflexivity.
    + destruct ((Z.of_nat (length (v0 :: vr)) + 1 =? 1) || nltb N agg x).
      * right; left; reflexivity.
      * left. apply IH. discriminate.
Qed.

Theorem max_value_any_instance maxnan g :
  nmissN g <= maxnan -> validN g <> [] ->
  In (group_value (agg_upd N) 2 maxnan g) (validN g).
Proof.
  intros H Hv. unfold group_value.
  pose proof (max_core g Hv) as H1. pose proof (group_core_counts (agg_upd N) 2 g) as [_ H2].
  destruct (group_core (agg_upd N) 2 g) as [[agg n] nan]. simpl in H1, H2. subst nan.
  unfold core_close. cbn [Z.eqb Pos.eqb andb].
  destruct (Z.ltb_spec maxnan (nmissN g)); [lia|exact H1].
Qed.


(* ------------------------------------------------------------------ *)
(* flathomogen: group by group, any instance                            *)

Section Flat.
Variable maxnan : Z.

Definition fcore (s : flatst (T:=T)) : T * Z * Z * list T :=
  (fl_agg s, fl_n s, fl_nan s, fl_grp s).

Definition fcore_next (c : T * Z * Z * list T) (x : T) : T * Z * Z * list T :=
  let '(agg, n, nan, grp) := c in
  let valid := negb (nisnan N x) in
  (nadd N agg (if valid then x else n0 N),
   if valid then n + 1 else n, if valid then nan else nan + 1, grp ++ [x]).

Definition fcore_emit (c : T * Z * Z * list T) : list T :=
  let '(agg, n, nan, grp) := c in
  let a := if maxnan <? nan then nnan N else agg in
  map (fun inp => if nisnan N inp then nnan N else ndiv N a (nofZ N n)) grp.

Definition flat_group_core (g : list T) : T * Z * Z * list T :=
  fold_left fcore_next g (n0 N, 0, 0, []).
Definition flat_groupN (g : list T) : list T := fcore_emit (flat_group_core g).

Lemma fcore_flat_next s x : fcore (flat_next N s x) = fcore_next (fcore s) x.
Proof. reflexivity. Qed.

Lemma emit_fcore s : flat_emit N maxnan s = fcore_emit (fcore s).
Proof. reflexivity. Qed.

Lemma flat_group_core_snoc g x :
  flat_group_core (g ++ [x]) = fcore_next (flat_group_core g) x.
Proof. unfold flat_group_core. rewrite fold_left_app. reflexivity. Qed.

Lemma flat_group_core_grp g : snd (flat_group_core g) = g.
Proof.
  induction g as [|x g IH] using rev_ind; [reflexivity|].
  rewrite flat_group_core_snoc. destruct (flat_group_core g) as [[[agg n] nan] grp].
  simpl in IH. subst grp. reflexivity.
Qed.

Lemma flat_loop_groupwise : forall l s g,
  fcore s = flat_group_core g -> nondecr_from (fl_prev s) (map fst l) ->
  exists s',
    flat_loop N maxnan l s = KDone s' /\
    fl_out s' ++ flat_emit N maxnan s' =
      fl_out s ++ concat (map (fun kg => flat_groupN (snd kg)) (runs_acc (fl_prev s) g l)).
Proof.
  induction l as [|[ia x] l IH]; intros s g Hr Hs.
  - exists s. simpl. rewrite emit_fcore, Hr, app_nil_r. auto.
  - rewrite flat_loop_cons. simpl in Hs. destruct Hs as [Hle Hs].
    destruct (Z.ltb_spec ia (fl_prev s)); [lia|].
    destruct (Z.eqb_spec ia (fl_prev s)) as [E|Hne]; cbn [negb].
    + set (s2 := flat_next N s x).
      assert (Hr2 : fcore s2 = flat_group_core (g ++ [x])).
      { unfold s2. rewrite fcore_flat_next, Hr, flat_group_core_snoc. reflexivity. }
      destruct (IH s2 (g ++ [x]) Hr2) as (s' & E1 & E2).
      * change (fl_prev s2) with (fl_prev s). rewrite <- E. exact Hs.
      * exists s'. simpl runs_acc. rewrite (proj2 (Z.eqb_eq ia (fl_prev s)) E).
        change (fl_prev s2) with (fl_prev s) in E2.
        change (fl_out s2) with (fl_out s) in E2. auto.
    + set (s1 := flat_flushed N maxnan ia s).
      set (s2 := flat_next N s1 x).
      assert (Hr2 : fcore s2 = flat_group_core [x]) by reflexivity.
      destruct (IH s2 [x] Hr2) as (s' & E1 & E2).
      * exact Hs.
      * exists s'. simpl runs_acc. rewrite (proj2 (Z.eqb_neq ia (fl_prev s)) Hne).
        change (fl_prev s2) with ia in E2.
        change (fl_out s2) with (fl_out s ++ flat_emit N maxnan s) in E2.
        rewrite (emit_fcore s), Hr in E2.
        split; [exact E1|]. rewrite E2. simpl. rewrite <- app_assoc. reflexivity.
Qed.

Theorem flathomogen_groupwise idx (xs : list T) :
  length idx = length xs -> (1 <= length xs)%nat ->
  Forall in_int32 idx -> nondecr idx ->
  py_flathomogen N maxnan idx xs =
  DOk (concat (map (fun kg => flat_groupN (snd kg)) (runs (combine idx xs)))).
Proof.
  intros Hlen Hpos H32 Hs. unfold py_flathomogen.
  rewrite (proj2 (Nat.eqb_eq _ _) Hlen). cbn [negb].
  rewrite map_to_int32_id by exact H32.
  destruct idx as [|k0 idx]; [simpl in Hlen; lia|].
  destruct xs as [|x0 xs]; [simpl in Hpos; lia|].
  unfold c_flathomogen. cbn [combine]. rewrite flat_loop_cons.
  cbn [fl_prev]. rewrite Z.ltb_irrefl, Z.eqb_refl. cbn [negb].
  set (s0 := mkFlat k0 (n0 N) 0 0 (@nil T) (@nil T)).
  assert (Hr2 : fcore (flat_next N s0 x0) = flat_group_core [x0]) by reflexivity.
  simpl in Hlen. injection Hlen as Hlen.
  destruct (flat_loop_groupwise (combine idx xs) _ _ Hr2) as (s' & E1 & E2).
  - change (fl_prev (flat_next N s0 x0)) with k0.
    rewrite map_fst_combine by exact Hlen. exact Hs.
  - rewrite E1. change (fl_prev (flat_next N s0 x0)) with k0 in E2.
    change (fl_out (flat_next N s0 x0)) with (@nil T) in E2. simpl app in E2.
    rewrite E2. unfold runs. cbn [runs_acc]. rewrite Z.eqb_refl. reflexivity.
Qed.

(* inside a group: same length; a missing input gives the missing value *)
Lemma flat_groupN_pointwise g :
  Forall2 (fun x o => nisnan N x = true -> o = nnan N) g (flat_groupN g).
Proof.
  unfold flat_groupN. pose proof (flat_group_core_grp g) as Hg.
  destruct (flat_group_core g) as [[[agg n] nan] grp]. simpl in Hg. subst grp.
  unfold fcore_emit. generalize (if maxnan <? nan then nnan N else agg). intros a.
  induction g as [|x g IH]; simpl; constructor; [|exact IH].
  intros Hx. rewrite Hx. reflexivity.
Qed.

Theorem flathomogen_any_instance idx (xs : list T) :
  length idx = length xs -> (1 <= length xs)%nat ->
  Forall in_int32 idx -> nondecr idx ->
  exists out, py_flathomogen N maxnan idx xs = DOk out /\
              length out = length xs /\
              Forall2 (fun x o => nisnan N x = true -> o = nnan N) xs out.
Proof.
  intros Hlen Hpos H32 Hs. eexists. split; [apply flathomogen_groupwise; assumption|].
  assert (F : Forall2 (fun x o => nisnan N x = true -> o = nnan N) xs
     (concat (map (fun kg => flat_groupN (snd kg)) (runs (combine idx xs))))).
  { rewrite <- (map_snd_combine idx xs Hlen) at 1. rewrite <- runs_concat.
    apply Forall2_concat. generalize (runs (combine idx xs)). intros gs.
    induction gs as [|kg gs IH]; simpl; constructor; [|exact IH].
    apply flat_groupN_pointwise. }
  split; [symmetry; eapply Forall2_length; exact F|exact F].
Qed.

End Flat.

End Generic.
