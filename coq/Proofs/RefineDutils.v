(* Refinement: the MiniC program regenerated from src/hydrodiy/data/c_dutils.c
   (Gen/KernelsAst.v: c_aggregate, c_flathomogen) computes, for ALL inputs, what
   the hand-written model of Model/Dutils.v computes (c_aggregate with agg_upd,
   c_flathomogen), error returns included.  Main results:
     refine_aggregate, refine_flathomogen  (generic over NumOps / NumLit, under
     the hypothesis nofZ N 0 = n0 N, which holds in F64, RR, RN: see the end),
     c_aggregate_no_errcount (the "count >= nval" return is dead code when nval
     is the length of the index). *)
From Coq Require Import ZArith Bool List String Lia.
From Coq Require Import PrimFloat.
From Hy Require Import Base.Num Base.MiniC Gen.KernelsAst Model.Dutils.
Import ListNotations.
Open Scope string_scope.
Open Scope list_scope.
Open Scope Z_scope.

(* ================================================================== *)
(* Generic helpers about MiniC (candidates for Base/MiniC.v)            *)
(* ================================================================== *)

(* Controlled symbolic execution.  [cbn] on [exec] applied to a long statement
   whose control flow is blocked on a symbolic condition unfolds the whole
   continuation on a symbolic state: the tactic is fast, but the conversion
   check at [Qed] does not terminate in reasonable time (> 10 min for the
   prefix of c_aggregate).  In this file [exec] is therefore never unfolded by
   [cbn]: statements are executed one at a time by rewriting with the
   (definitional) equations below, the continuation staying folded. *)
#[local] Arguments exec : simpl never.

Section ExecLemmas.
Context {T : Type} (N : NumOps T) (X : NumLit T) (cf : callee T) (fuel : nat).
Notation exec := (exec N X cf fuel).

Lemma exec_SSeq a b st :
  exec (SSeq a b) st =
  match exec a st with Ok (ONormal, st') => exec b st' | r => r end.
Proof. reflexivity. Qed.
Lemma exec_SSkip st : exec SSkip st = Ok (ONormal, st).
Proof. reflexivity. Qed.
Lemma exec_SSetI x e st :
  exec (SSetI x e) st = (do v <- eval_i N X st e; Ok (ONormal, set_i st x v)).
Proof. reflexivity. Qed.
Lemma exec_SSetF x e st :
  exec (SSetF x e) st = (do v <- eval_f N X st e; Ok (ONormal, set_f st x v)).
Proof. reflexivity. Qed.
Lemma exec_SStoreI a i e st : exec (SStoreI a i e) st =
  (do k <- eval_i N X st i; do v <- eval_i N X st e; do st' <- write_i st a k v; Ok (ONormal, st')).
Proof. reflexivity. Qed.
Lemma exec_SStoreF a i e st : exec (SStoreF a i e) st =
  (do k <- eval_i N X st i; do v <- eval_f N X st e; do st' <- write_f st a k v; Ok (ONormal, st')).
Proof. reflexivity. Qed.
Lemma exec_SIf c a b st : exec (SIf c a b) st =
  (do v <- eval_i N X st c; if truth v then exec a st else exec b st).
Proof. reflexivity. Qed.
Lemma exec_SRetI e st : exec (SRetI e) st = (do v <- eval_i N X st e; Ok (ORet (RI v), st)).
Proof. reflexivity. Qed.
Lemma exec_SFor c step b st : exec (SFor c step b) st =
  loop fuel (cond_of N X c) (for_body (exec b) (exec step)) st.
Proof. reflexivity. Qed.
End ExecLemmas.

(* unfold [exec] at the head statement(s) whose state is explicit *)
Ltac xhead :=
  match goal with
  | |- context[exec ?N ?X ?cf ?fu (SSeq ?a ?b) ?st] => rewrite (exec_SSeq N X cf fu a b st)
  | |- context[exec ?N ?X ?cf ?fu (SSetI ?x ?e) ?st] => rewrite (exec_SSetI N X cf fu x e st)
  | |- context[exec ?N ?X ?cf ?fu (SSetF ?x ?e) ?st] => rewrite (exec_SSetF N X cf fu x e st)
  | |- context[exec ?N ?X ?cf ?fu (SStoreI ?a ?i ?e) ?st] => rewrite (exec_SStoreI N X cf fu a i e st)
  | |- context[exec ?N ?X ?cf ?fu (SStoreF ?a ?i ?e) ?st] => rewrite (exec_SStoreF N X cf fu a i e st)
  | |- context[exec ?N ?X ?cf ?fu (SRetI ?e) ?st] => rewrite (exec_SRetI N X cf fu e st)
  | |- context[exec ?N ?X ?cf ?fu SSkip ?st] => rewrite (exec_SSkip N X cf fu st)
  end.
Ltac xnorm := cbn; rewrite ?truth_b2z, ?b2z_truth_b2z, ?or_ok, ?and_ok; norm_state.
(* one straight-line statement; [xrun]: as many as possible (stops at a blocked
   array access, at [SIf], at a loop) *)
Ltac xs := repeat xhead; xnorm.
Ltac xrun := repeat (progress xs).
(* expose the condition of the [SIf] at the head:
   [if <cond> then exec a st else exec b st] *)
Ltac xif :=
  try match goal with
  | |- context[exec ?N ?X ?cf ?fu (SSeq ?a ?b) ?st] => rewrite (exec_SSeq N X cf fu a b st)
  end;
  match goal with
  | |- context[exec ?N ?X ?cf ?fu (SIf ?c ?a ?b) ?st] => rewrite (exec_SIf N X cf fu c a b st)
  end; xnorm.
Ltac xfor :=
  try match goal with
  | |- context[exec ?N ?X ?cf ?fu (SSeq ?a ?b) ?st] => rewrite (exec_SSeq N X cf fu a b st)
  end;
  match goal with
  | |- context[exec ?N ?X ?cf ?fu (SFor ?c ?s ?b) ?st] => rewrite (exec_SFor N X cf fu c s b st)
  end.

Lemma skipn_lt_cons {A} (l : list A) (c : nat) :
  (c < List.length l)%nat -> exists y, skipn c l = y :: skipn (S c) l.
Proof.
  revert c; induction l as [|x l IH]; intros c H; cbn in H; [lia|].
  destruct c as [|c]; [exists x; reflexivity|].
  destruct (IH c) as [y Hy]; [lia|]. exists y. exact Hy.
Qed.

(* [merge_if] of Base/MiniC.v with a fallback when anti-unification of two
   applications yields an ill-typed term (heads of different arity) *)
Ltac merge_terms' b A B :=
  match A with
  | B => A
  | ?f ?x =>
      match B with
      | ?g ?y =>
          let fg := merge_terms' b f g in
          let xy := merge_terms' b x y in
          constr:(fg xy)
      end
  | _ => constr:(if b then A else B)
  end.
Ltac merge_if' :=
  match goal with
  | |- context[if ?b then Ok ?A else Ok ?B] =>
      let t := merge_terms' b A B in
      replace (if b then Ok A else Ok B) with (Ok t) by (destruct b; reflexivity)
  end.

Lemma skipn_skipn' {A} (a b : nat) (l : list A) : skipn a (skipn b l) = skipn (b + a) l.
Proof.
  revert l; induction b as [|b IH]; intros l; [reflexivity|].
  destruct l as [|x l]; [destruct a; reflexivity|]. cbn. apply IH.
Qed.

(* ============ end of the generic block ============================ *)

Section Refine.
Context {T : Type} (N : NumOps T) (X : NumLit T).

(* ================================================================== *)
(* c_aggregate                                                          *)
(* ================================================================== *)

Notation aggstT := (aggst (T:=T)).

Definition ag_next (op : Z) (s1 : aggstT) (x : T) : aggstT :=
  let valid := negb (nisnan N x) in
  let inp := if valid then x else n0 N in
  let n' := if valid then ag_n s1 + 1 else ag_n s1 in
  let nan' := if valid then ag_nan s1 else ag_nan s1 + 1 in
  mkAgg (ag_prev s1) (agg_upd N op (ag_agg s1) n' valid inp) n' nan' (ag_count s1) (ag_out s1).

Definition ag_flush (op maxnan ia : Z) (s : aggstT) : aggstT :=
  mkAgg ia (n0 N) 0 0 (ag_count s + 1) (ag_out s ++ [agg_close N op maxnan s]).

Lemma ag_loop_cons op maxnan nval ia x l s :
  agg_loop N (agg_upd N) op maxnan nval ((ia, x) :: l) s =
  if ia <? ag_prev s then KErrOrder
  else if negb (ia =? ag_prev s) && (nval <=? ag_count s + 1) then KErrCount
  else agg_loop N (agg_upd N) op maxnan nval l
         (ag_next op (if negb (ia =? ag_prev s) then ag_flush op maxnan ia s else s) x).
Proof. reflexivity. Qed.

Definition ag_state (nval op maxnan : Z) (idx : list Z) (xs : list T) (ie : list Z)
   (s : aggstT) (i ia isvalid : Z) (inp : T) (outs : list T) : state T :=
  {| s_i := [("nval", nval); ("operator", op); ("maxnan", maxnan); ("i", i);
             ("nagg", ag_n s); ("nagg_nan", ag_nan s); ("count", ag_count s);
             ("ia", ia); ("iaprev", ag_prev s); ("isvalid", isvalid)];
     s_f := [("agg", ag_agg s); ("inp", inp); ("nan", nnan N); ("zero", nlit X 0%float 0 1)];
     s_ai := [("aggindex", idx); ("iend", ie)];
     s_af := [("inputs", xs); ("outputs", outs)] |}.

Definition ag_outs (s : aggstT) (outbuf : list T) : list T :=
  ag_out s ++ skipn (List.length (ag_out s)) outbuf.

Lemma ag_outs_length s outbuf :
  (List.length (ag_out s) <= List.length outbuf)%nat ->
  List.length (ag_outs s outbuf) = List.length outbuf.
Proof. intros H. unfold ag_outs. rewrite app_length, skipn_length. lia. Qed.

Lemma ag_outs_set s outbuf v :
  ag_count s = Z.of_nat (List.length (ag_out s)) ->
  (List.length (ag_out s) < List.length outbuf)%nat ->
  zset (ag_outs s outbuf) (ag_count s) v =
  Some ((ag_out s ++ [v]) ++ skipn (List.length (ag_out s ++ [v])) outbuf).
Proof.
  intros Hc Hlt. unfold ag_outs.
  destruct (skipn_lt_cons outbuf _ Hlt) as [y Hy]. rewrite Hy.
  rewrite zset_app by exact Hc. rewrite <- app_assoc. cbn [app].
  rewrite app_length. cbn [List.length]. rewrite Nat.add_1_r. reflexivity.
Qed.

Definition ag_inv nval op maxnan (l : list (Z * T)) outbuf ie s0 (k : nat) (st : state T) : Prop :=
  exists done todo s ia isvalid inp,
    l = done ++ todo /\ List.length done = k /\
    agg_loop N (agg_upd N) op maxnan nval l s0 = agg_loop N (agg_upd N) op maxnan nval todo s /\
    ag_count s = Z.of_nat (List.length (ag_out s)) /\ ag_count s < nval /\
    st = ag_state nval op maxnan (map fst l) (map snd l) ie s (Z.of_nat k) ia isvalid inp
           (ag_outs s outbuf).

Definition ag_post nval op maxnan (l : list (Z * T)) outbuf ie s0 (r : outcome T * state T) : Prop :=
  match agg_loop N (agg_upd N) op maxnan nval l s0 with
  | KDone s => exists ia isvalid inp,
      ag_count s = Z.of_nat (List.length (ag_out s)) /\ ag_count s < nval /\
      r = (ONormal, ag_state nval op maxnan (map fst l) (map snd l) ie s (Z.of_nat (List.length l))
                      ia isvalid inp (ag_outs s outbuf))
  | KUndef => False
  | _ => exists code st' out', 0 < code /\ r = (ORet (RI code), st') /\
      s_ai st' = [("aggindex", map fst l); ("iend", ie)] /\
      s_af st' = [("inputs", map snd l); ("outputs", out')] /\
      List.length out' = List.length outbuf
  end.

Definition ag_args (op maxnan : Z) (l : list (Z * T)) (outbuf : list T) (ie : Z) : list (argval T) :=
  [AVI (zlen l); AVI op; AVI maxnan; AVArrI (map fst l); AVArrF (map snd l);
   AVArrF outbuf; AVArrI [ie]].

(* what the model says about the result [r] of the kernel *)
Definition ag_final op maxnan (l : list (Z * T)) outbuf (ie : Z) (s0 : aggstT)
           (r : retval T * list (arrval T)) : Prop :=
  match agg_loop N (agg_upd N) op maxnan (zlen l) l s0 with
  | KDone s =>
      let written := ag_out s ++ [agg_close N op maxnan s] in
      r = (RI 0, [VArrI (map fst l); VArrF (map snd l);
                  VArrF (written ++ skipn (List.length written) outbuf);
                  VArrI [ag_count s + 1]])
  | KUndef => False
  | _ => exists code out', 0 < code /\ List.length out' = List.length outbuf /\
      r = (RI code, [VArrI (map fst l); VArrF (map snd l); VArrF out'; VArrI [ie]])
  end.

(* the kernel on a non-empty input given as a list of (index, value) pairs *)
Lemma aggregate_run (HZ : nofZ N 0 = n0 N) op maxnan k0 x0 (l' : list (Z*T)) outbuf ie n :
  List.length outbuf = S (List.length l') ->
  (S (List.length l') < n)%nat ->
  let l := (k0, x0) :: l' in
  exists r, exec_fun N X program (S n) "c_aggregate" (ag_args op maxnan l outbuf ie) = Ok r /\
            ag_final op maxnan l outbuf ie (mkAgg k0 (n0 N) 0 0 0 []) r.
Proof.
  intros Hob Hn l. unfold ag_args, ag_final.
  assert (Hnval : zlen l = Z.of_nat (List.length l)) by apply zlen_eq.
  assert (Hlen : List.length l = S (List.length l')) by reflexivity.
  assert (Hhd : zget (map fst l) 0 = Some k0) by reflexivity.
  clearbody l.
  remember (zlen l) as nval eqn:Env.
  set (s0 := mkAgg k0 (n0 N) 0 0 0 []).
  cbn. xrun. xif.
  replace (nval <? 1) with false by (symmetry; apply Z.ltb_ge; lia).
  xs. rewrite Hhd. xrun. rewrite HZ. xfor.
  loop_with (ag_inv nval op maxnan l outbuf [ie] s0) (ag_post nval op maxnan l outbuf [ie] s0) (List.length l).
  - intros k st (done & todo & s & ia & isv & inp & Hl & Hk & Hloop & Hc & Hcn & ->).
    assert (Hlen2 : List.length l = (k + List.length todo)%nat)
      by (rewrite Hl, app_length; lia).
    split; [lia|].
    unfold ag_post. rewrite Hloop.
    unfold ag_state. cbn.
    destruct todo as [|[ia' x] todo].
    + replace (Z.of_nat k <? nval) with false by (symmetry; apply Z.ltb_ge; cbn in Hlen2; lia).
      cbn. exists ia, isv, inp. split; [exact Hc|]. split; [exact Hcn|].
      replace (List.length l) with k by (cbn in Hlen2; lia). reflexivity.
    + replace (Z.of_nat k <? nval) with true by (symmetry; apply Z.ltb_lt; cbn in Hlen2; lia).
      rewrite ag_loop_cons in Hloop |- *.
      assert (Hgi : zget (map fst l) (Z.of_nat k) = Some ia')
        by (rewrite Hl, map_app; apply zget_app; rewrite map_length; lia).
      assert (Hgx : zget (map snd l) (Z.of_nat k) = Some x)
        by (rewrite Hl, map_app; apply zget_app; rewrite map_length; lia).
      assert (Hlo : (List.length (ag_out s) < List.length outbuf)%nat) by lia.
      cbn. xs. rewrite Hgi. xs. xif.
      destruct (ia' <? ag_prev s) eqn:Hord.
      * (* the index decreases: error return *)
        xs. do 3 eexists. split; [|split; [reflexivity|]]; [lia|].
        cbn. repeat split. apply ag_outs_length. lia.
      * xs. xif.
        destruct (ia' =? ag_prev s) eqn:Hfl; cbn [negb andb] in Hloop |- *.
        2:{ (* a new group: close the previous one *)
            xif. xs. merge_if'. xs. xif. xs. merge_if'. xs.
            change (if maxnan <? ag_nan s then nnan N else
                    if (op =? 1) && (0 <? ag_n s) then ndiv N (ag_agg s) (nofZ N (ag_n s)) else ag_agg s)
              with (agg_close N op maxnan s).
            rewrite ag_outs_set by (try exact Hc; lia).
            xs. xs. xif.
            destruct (nval <=? ag_count s + 1) eqn:Hcnt.
            { xs. do 3 eexists. split; [|split; [reflexivity|]]; [lia|].
              cbn. repeat split. rewrite ?app_length, skipn_length, ?app_length. cbn. lia. }
            apply Z.leb_gt in Hcnt.
            xrun. rewrite Hgx. xrun. xif.
            destruct (nisnan N x) eqn:Hnan;
            (xrun; xif;
             destruct (op <=? 1) eqn:Hop1;
               [|xif; destruct (op =? 2) eqn:Hop2;
                 [xif|xif; destruct (op =? 3) eqn:Hop3; [xif|]]];
             xrun; rewrite ?if_ok; xrun;
             exists (done ++ [(ia', x)]), todo, (ag_next op (ag_flush op maxnan ia' s) x);
             do 3 eexists;
             (split; [rewrite <- app_assoc; exact Hl|]);
             (split; [rewrite app_length; cbn; lia|]);
             (split; [exact Hloop|]);
             (split; [unfold ag_next, ag_flush; cbn; rewrite app_length; cbn; lia|]);
             (split; [unfold ag_next, ag_flush; cbn; lia|]);
             unfold ag_state, ag_outs, ag_next, ag_flush, agg_upd;
             cbn [ag_prev ag_agg ag_n ag_nan ag_count ag_out];
             rewrite ?Hnan, ?Hop1, ?Hop2, ?Hop3; cbn;
             rewrite ?HZ; replace (Z.of_nat k + 1) with (Z.of_nat (S k)) by lia;
             reflexivity). }
        (* same group *)
        xrun. rewrite Hgx. xrun. xif.
        destruct (nisnan N x) eqn:Hnan;
            (xrun; xif;
             destruct (op <=? 1) eqn:Hop1;
               [|xif; destruct (op =? 2) eqn:Hop2;
                 [xif|xif; destruct (op =? 3) eqn:Hop3; [xif|]]];
             xrun; rewrite ?if_ok; xrun;
             exists (done ++ [(ia', x)]), todo, (ag_next op s x);
             do 3 eexists;
             (split; [rewrite <- app_assoc; exact Hl|]);
             (split; [rewrite app_length; cbn; lia|]);
             (split; [exact Hloop|]);
             (split; [unfold ag_next; cbn; lia|]);
             (split; [unfold ag_next; cbn; lia|]);
             unfold ag_state, ag_outs, ag_next, agg_upd;
             cbn [ag_prev ag_agg ag_n ag_nan ag_count ag_out];
             rewrite ?Hnan, ?Hop1, ?Hop2, ?Hop3; cbn;
             rewrite ?HZ; replace (Z.of_nat k + 1) with (Z.of_nat (S k)) by lia;
             reflexivity).
  - exists [], l, s0, 0, 0, (n0 N). cbn.
    repeat split; try reflexivity; lia.
  - lia.
  - destruct HL as (r & -> & HP). unfold ag_post in HP.
    destruct (agg_loop N (agg_upd N) op maxnan nval l s0) as [| | |s] eqn:E.
    + contradiction.
    + destruct HP as (code & st' & out' & Hcode & -> & Hai & Haf & Hlo).
      cbn. unfold get_ai, get_af. rewrite Hai, Haf. cbn.
      eexists; split; [reflexivity|]. exists code, out'. repeat split; assumption.
    + destruct HP as (code & st' & out' & Hcode & -> & Hai & Haf & Hlo).
      cbn. unfold get_ai, get_af. rewrite Hai, Haf. cbn.
      eexists; split; [reflexivity|]. exists code, out'. repeat split; assumption.
    + destruct HP as (ia & isv & inp & Hc & Hcn & ->).
      unfold ag_state. cbn. xif. xs. merge_if'. xs. xif. xs. merge_if'. xs.
      change (if maxnan <? ag_nan s then nnan N else
              if (op =? 1) && (0 <? ag_n s) then ndiv N (ag_agg s) (nofZ N (ag_n s)) else ag_agg s)
        with (agg_close N op maxnan s).
      rewrite ag_outs_set by (try exact Hc; lia).
      xrun. eexists; split; reflexivity.
Qed.


Lemma map_fst_combine' {A B} (l1 : list A) (l2 : list B) :
  List.length l1 = List.length l2 -> map fst (combine l1 l2) = l1.
Proof.
  revert l2; induction l1 as [|a l1 IH]; intros [|b l2] H; cbn in *;
    try discriminate; [reflexivity|]. f_equal. apply IH. lia.
Qed.
Lemma map_snd_combine' {A B} (l1 : list A) (l2 : list B) :
  List.length l1 = List.length l2 -> map snd (combine l1 l2) = l2.
Proof.
  revert l2; induction l1 as [|a l1 IH]; intros [|b l2] H; cbn in *;
    try discriminate; [reflexivity|]. f_equal. apply IH. lia.
Qed.

(* c_aggregate.  Hypotheses = what the Cython wrapper guarantees: aggindex,
   inputs, outputs have the same length nval, iend has one entry.
   [HZ]: the C text initialises doubles with the int literal 0 ((double)0), the
   model with the constant [n0]; the two agree in F64, RR and RN.
   - idx <> []: the kernel's return value / arrays are those of the model;
     error returns (index decreasing; count >= nval) give a positive code,
     leave aggindex, inputs, iend untouched (outputs: partially written).
   - idx = [] (the model says KUndef): the kernel returns 0 and sets iend[0]=0. *)
Theorem refine_aggregate (HZ : nofZ N 0 = n0 N) op maxnan idx xs outbuf ie n :
  List.length xs = List.length idx -> List.length outbuf = List.length idx ->
  (List.length idx < n)%nat ->
  let run := exec_fun N X program (S n) "c_aggregate"
               [AVI (zlen idx); AVI op; AVI maxnan; AVArrI idx; AVArrF xs;
                AVArrF outbuf; AVArrI [ie]] in
  match c_aggregate N (agg_upd N) (zlen idx) op maxnan idx xs outbuf with
  | KDone (out, iend) => run = Ok (RI 0, [VArrI idx; VArrF xs; VArrF out; VArrI [iend]])
  | KUndef => run = Ok (RI 0, [VArrI idx; VArrF xs; VArrF outbuf; VArrI [0]])
  | KErrOrder | KErrCount =>
      exists code out', 0 < code /\ List.length out' = List.length outbuf /\
        run = Ok (RI code, [VArrI idx; VArrF xs; VArrF out'; VArrI [ie]])
  end.
Proof.
  intros Hxs Hob Hn run. subst run.
  destruct idx as [|k0 idx'].
  - destruct xs; [|discriminate]. destruct outbuf; [|discriminate].
    cbn. xrun. xif. xrun. reflexivity.
  - destruct xs as [|x0 xs']; [discriminate|].
    cbn [List.length] in *.
    assert (Hl' : List.length idx' = List.length xs') by lia.
    pose proof (aggregate_run HZ op maxnan k0 x0 (combine idx' xs') outbuf ie n) as H.
    rewrite combine_length, <- Hl', Nat.min_id in H.
    specialize (H Hob Hn). cbv zeta in H. destruct H as (r & Hr & HF).
    unfold ag_args in Hr. cbn [map fst snd] in Hr.
    rewrite (map_fst_combine' _ _ Hl'), (map_snd_combine' _ _ Hl') in Hr.
    replace (zlen ((k0, x0) :: combine idx' xs')) with (zlen (k0 :: idx')) in Hr
      by (rewrite !zlen_eq; cbn [List.length]; rewrite combine_length, <- Hl', Nat.min_id; reflexivity).
    rewrite Hr. unfold ag_final in HF. cbn [map fst snd] in HF.
    rewrite (map_fst_combine' _ _ Hl'), (map_snd_combine' _ _ Hl') in HF.
    replace (zlen ((k0, x0) :: combine idx' xs')) with (zlen (k0 :: idx')) in HF
      by (rewrite !zlen_eq; cbn [List.length]; rewrite combine_length, <- Hl', Nat.min_id; reflexivity).
    unfold c_aggregate. cbn [combine].
    destruct (agg_loop N (agg_upd N) op maxnan (zlen (k0 :: idx')) ((k0, x0) :: combine idx' xs')
                {| ag_prev := k0; ag_agg := n0 N; ag_n := 0; ag_nan := 0; ag_count := 0; ag_out := [] |})
      as [| | |s].
    + contradiction.
    + destruct HF as (code & out' & H1 & H2 & ->). exists code, out'. auto.
    + destruct HF as (code & out' & H1 & H2 & ->). exists code, out'. auto.
    + cbv zeta in HF. rewrite HF. reflexivity.
Qed.


(* ================================================================== *)
(* c_flathomogen                                                        *)
(* ================================================================== *)

Notation flatstT := (flatst (T:=T)).

Definition fl_st (nval maxnan i j nagg nnanc start ia iaprev : Z) (agg inp : T)
           (idx : list Z) (xs outs : list T) : state T :=
  {| s_i := [("nval", nval); ("maxnan", maxnan); ("i", i); ("j", j); ("nagg", nagg);
             ("nagg_nan", nnanc); ("start", start); ("ia", ia); ("iaprev", iaprev)];
     s_f := [("agg", agg); ("inp", inp); ("nan", nnan N); ("zero", nlit X 0%float 0 1)];
     s_ai := [("aggindex", idx)];
     s_af := [("inputs", xs); ("outputs", outs)] |}.

(* the inner loop:  for(j=start; j<i; j++) outputs[j] = isnan(inputs[j]) ? nan : agg/nagg *)
Local Notation fe_cond := (ICmp CLt (IVar "j") (IVar "i")).
Local Notation fe_step := (SSetI "j" (IBin IAdd (IVar "j") (IConst 1))).
Local Notation fe_body :=
  (SSeq (SSetF "inp" (FArr "inputs" (IVar "j")))
        (SIf (IIsnan (FVar "inp"))
             (SStoreF "outputs" (IVar "j") (FVar "nan"))
             (SStoreF "outputs" (IVar "j") (FBin FDiv (FVar "agg") (FOfInt (IVar "nagg")))))).

Definition fe_f (agg : T) (nagg : Z) (inp : T) : T :=
  if nisnan N inp then nnan N else ndiv N agg (nofZ N nagg).

Lemma flat_emit_loop cf fuel nval maxnan i nagg nnanc start ia iaprev agg inp0 idx
      (pre grp post opre omid opost : list T) :
  List.length opre = List.length pre -> List.length omid = List.length grp ->
  start = Z.of_nat (List.length pre) -> i = start + Z.of_nat (List.length grp) ->
  (List.length grp < fuel)%nat ->
  loop fuel (cond_of N X fe_cond)
       (for_body (exec N X cf fuel fe_body) (exec N X cf fuel fe_step))
       (fl_st nval maxnan i start nagg nnanc start ia iaprev agg inp0 idx
              (pre ++ grp ++ post) (opre ++ omid ++ opost))
  = Ok (ONormal,
        fl_st nval maxnan i i nagg nnanc start ia iaprev agg (last grp inp0) idx
              (pre ++ grp ++ post) (opre ++ map (fe_f agg nagg) grp ++ opost)).
Proof.
  intros Hop Hom Hst Hi Hfuel.
  apply (loop_rule_eq
    (fun k st => exists gdone gtodo odone otodo,
       grp = gdone ++ gtodo /\ omid = odone ++ otodo /\
       List.length gdone = k /\ List.length odone = k /\
       st = fl_st nval maxnan i (start + Z.of_nat k) nagg nnanc start ia iaprev agg
                  (last gdone inp0) idx (pre ++ grp ++ post)
                  (opre ++ map (fe_f agg nagg) gdone ++ otodo ++ opost))
    _ (List.length grp)).
  - intros k st (gdone & gtodo & odone & otodo & Hg & Ho & Hk & Hk' & ->).
    assert (Hlg : List.length grp = (k + List.length gtodo)%nat)
      by (rewrite Hg, app_length; lia).
    assert (Hlo : List.length omid = (k + List.length otodo)%nat)
      by (rewrite Ho, app_length; lia).
    split; [lia|].
    unfold fl_st. cbn.
    destruct gtodo as [|x gtodo].
    + replace (start + Z.of_nat k <? i) with false
        by (symmetry; apply Z.ltb_ge; cbn in Hlg; lia).
      cbn. destruct otodo; [|cbn in *; lia].
      rewrite app_nil_r in Hg. subst gdone.
      replace (start + Z.of_nat k) with i by (cbn in Hlg; lia).
      reflexivity.
    + replace (start + Z.of_nat k <? i) with true
        by (symmetry; apply Z.ltb_lt; cbn in Hlg; lia).
      destruct otodo as [|o otodo]; [cbn in *; lia|].
      assert (Hgx : zget (pre ++ grp ++ post) (start + Z.of_nat k) = Some x).
      { rewrite Hg. rewrite <- (app_assoc gdone), app_assoc. cbn [app].
        apply zget_app. rewrite app_length. lia. }
      assert (Hset : forall v, zset (opre ++ map (fe_f agg nagg) gdone ++ (o :: otodo) ++ opost)
                                    (start + Z.of_nat k) v
                = Some (opre ++ map (fe_f agg nagg) gdone ++ (v :: otodo) ++ opost)).
      { intros v. rewrite !(app_assoc opre). cbn [app].
        apply zset_app. rewrite app_length, map_length. lia. }
      xnorm. xs. rewrite Hgx. xs. xif.
      assert (Hfin : forall j' inp',
        j' = start + Z.of_nat k + 1 -> inp' = x ->
        exists gdone0 gtodo0 odone0 otodo0 : list T,
         grp = gdone0 ++ gtodo0 /\ omid = odone0 ++ otodo0 /\
         List.length gdone0 = S k /\ List.length odone0 = S k /\
         fl_st nval maxnan i j' nagg nnanc start ia iaprev agg inp' idx (pre ++ grp ++ post)
               (opre ++ map (fe_f agg nagg) gdone ++ (fe_f agg nagg x :: otodo) ++ opost) =
         fl_st nval maxnan i (start + Z.of_nat (S k)) nagg nnanc start ia iaprev agg
               (last gdone0 inp0) idx (pre ++ grp ++ post)
               (opre ++ map (fe_f agg nagg) gdone0 ++ otodo0 ++ opost)).
      { intros j' inp' -> ->. exists (gdone ++ [x]), gtodo, (odone ++ [o]), otodo.
        split; [rewrite <- app_assoc; exact Hg|].
        split; [rewrite <- app_assoc; exact Ho|].
        split; [rewrite app_length; cbn; lia|].
        split; [rewrite app_length; cbn; lia|].
        rewrite last_last, map_app, <- !app_assoc. cbn [map app].
        replace (start + Z.of_nat k + 1) with (start + Z.of_nat (S k)) by lia. reflexivity. }
      unfold fe_f in Hfin at 2.
      destruct (nisnan N x) eqn:Hnan; xs; rewrite Hset; xrun; apply Hfin; reflexivity.
  - exists [], grp, [], omid. cbn. rewrite Z.add_0_r. repeat split; reflexivity.
  - exact Hfuel.
Qed.


Definition fl_next (s1 : flatstT) (x : T) : flatstT :=
  let valid := negb (nisnan N x) in
  let inp := if valid then x else n0 N in
  mkFlat (fl_prev s1) (nadd N (fl_agg s1) inp)
         (if valid then fl_n s1 + 1 else fl_n s1)
         (if valid then fl_nan s1 else fl_nan s1 + 1)
         (fl_grp s1 ++ [x]) (fl_out s1).

Definition fl_flush (maxnan ia : Z) (s : flatstT) : flatstT :=
  mkFlat ia (n0 N) 0 0 [] (fl_out s ++ flat_emit N maxnan s).

Lemma fl_loop_cons maxnan ia x l s :
  flat_loop N maxnan ((ia, x) :: l) s =
  if ia <? fl_prev s then KErrOrder
  else flat_loop N maxnan l
         (fl_next (if negb (ia =? fl_prev s) then fl_flush maxnan ia s else s) x).
Proof. reflexivity. Qed.

Definition fl_outs (s : flatstT) (outbuf : list T) : list T :=
  fl_out s ++ skipn (List.length (fl_out s)) outbuf.

Lemma flat_emit_fe maxnan s :
  flat_emit N maxnan s =
  map (fe_f (if maxnan <? fl_nan s then nnan N else fl_agg s) (fl_n s)) (fl_grp s).
Proof. reflexivity. Qed.

Lemma flat_emit_length maxnan s : List.length (flat_emit N maxnan s) = List.length (fl_grp s).
Proof. unfold flat_emit. apply map_length. Qed.

Lemma fl_outs_split s outbuf :
  fl_outs s outbuf =
  fl_out s ++ firstn (List.length (fl_grp s)) (skipn (List.length (fl_out s)) outbuf)
           ++ skipn (List.length (fl_grp s)) (skipn (List.length (fl_out s)) outbuf).
Proof. unfold fl_outs. rewrite firstn_skipn. reflexivity. Qed.

Lemma fl_outs_flush maxnan ia s outbuf :
  fl_out s ++ flat_emit N maxnan s
    ++ skipn (List.length (fl_grp s)) (skipn (List.length (fl_out s)) outbuf)
  = fl_outs (fl_flush maxnan ia s) outbuf.
Proof.
  unfold fl_outs, fl_flush. cbn [fl_out]. rewrite <- app_assoc. do 2 f_equal.
  rewrite skipn_skipn', app_length, flat_emit_length. reflexivity.
Qed.

Definition fl_inv nval maxnan (l : list (Z * T)) outbuf s0 (k : nat) (st : state T) : Prop :=
  exists done todo s xpre start j ia inp,
    l = done ++ todo /\ List.length done = k /\
    flat_loop N maxnan l s0 = flat_loop N maxnan todo s /\
    map snd done = xpre ++ fl_grp s /\ List.length xpre = List.length (fl_out s) /\
    start = Z.of_nat (List.length (fl_out s)) /\
    st = fl_st nval maxnan (Z.of_nat k) j (fl_n s) (fl_nan s) start ia (fl_prev s)
               (fl_agg s) inp (map fst l) (map snd l) (fl_outs s outbuf).

Definition fl_post nval maxnan (l : list (Z * T)) outbuf s0 (r : outcome T * state T) : Prop :=
  match flat_loop N maxnan l s0 with
  | KDone s => exists xpre start j ia inp,
      map snd l = xpre ++ fl_grp s /\ List.length xpre = List.length (fl_out s) /\
      start = Z.of_nat (List.length (fl_out s)) /\
      r = (ONormal, fl_st nval maxnan (Z.of_nat (List.length l)) j (fl_n s) (fl_nan s) start ia
                          (fl_prev s) (fl_agg s) inp (map fst l) (map snd l) (fl_outs s outbuf))
  | KErrOrder => exists code st' out', 0 < code /\ r = (ORet (RI code), st') /\
      s_ai st' = [("aggindex", map fst l)] /\
      s_af st' = [("inputs", map snd l); ("outputs", out')] /\
      List.length out' = List.length outbuf
  | _ => False
  end.

Definition fl_args (maxnan : Z) (l : list (Z * T)) (outbuf : list T) : list (argval T) :=
  [AVI (zlen l); AVI maxnan; AVArrI (map fst l); AVArrF (map snd l); AVArrF outbuf].

Definition fl_final maxnan (l : list (Z * T)) (outbuf : list T) (s0 : flatstT)
           (r : retval T * list (arrval T)) : Prop :=
  match flat_loop N maxnan l s0 with
  | KDone s =>
      r = (RI 0, [VArrI (map fst l); VArrF (map snd l);
                  VArrF (fl_out s ++ flat_emit N maxnan s)])
  | KErrOrder => exists code out', 0 < code /\ List.length out' = List.length outbuf /\
      r = (RI code, [VArrI (map fst l); VArrF (map snd l); VArrF out'])
  | _ => False
  end.

Lemma fl_outs_length s outbuf :
  (List.length (fl_out s) <= List.length outbuf)%nat ->
  List.length (fl_outs s outbuf) = List.length outbuf.
Proof. intros H. unfold fl_outs. rewrite app_length, skipn_length. lia. Qed.

Lemma flathomogen_run (HZ : nofZ N 0 = n0 N) maxnan k0 x0 (l' : list (Z*T)) outbuf n :
  List.length outbuf = S (List.length l') ->
  (S (List.length l') < n)%nat ->
  let l := (k0, x0) :: l' in
  exists r, exec_fun N X program (S n) "c_flathomogen" (fl_args maxnan l outbuf) = Ok r /\
            fl_final maxnan l outbuf (mkFlat k0 (n0 N) 0 0 [] []) r.
Proof.
  intros Hob Hn l. unfold fl_args, fl_final.
  assert (Hnval : zlen l = Z.of_nat (List.length l)) by apply zlen_eq.
  assert (Hlen : List.length l = S (List.length l')) by reflexivity.
  assert (Hhd : zget (map fst l) 0 = Some k0) by reflexivity.
  clearbody l.
  remember (zlen l) as nval eqn:Env.
  set (s0 := mkFlat k0 (n0 N) 0 0 [] []).
  cbn. xrun. xif.
  replace (nval <? 1) with false by (symmetry; apply Z.ltb_ge; lia).
  xs. rewrite Hhd. xrun. rewrite HZ. xfor.
  loop_with (fl_inv nval maxnan l outbuf s0) (fl_post nval maxnan l outbuf s0) (List.length l).
  - intros k st (done & todo & s & xpre & start & j & ia & inp & Hl & Hk & Hloop & Hpre & Hxp & Hst & ->).
    assert (Hlen2 : List.length l = (k + List.length todo)%nat)
      by (rewrite Hl, app_length; lia).
    assert (Hkk : k = (List.length xpre + List.length (fl_grp s))%nat)
      by (rewrite <- Hk, <- (map_length snd done), Hpre, app_length; reflexivity).
    split; [lia|].
    unfold fl_post. rewrite Hloop.
    unfold fl_st. cbn.
    destruct todo as [|[ia' x] todo].
    + replace (Z.of_nat k <? nval) with false by (symmetry; apply Z.ltb_ge; cbn in Hlen2; lia).
      cbn. exists xpre, start, j, ia, inp.
      assert (done = l) by (rewrite Hl, app_nil_r; reflexivity). subst done.
      split; [exact Hpre|]. split; [exact Hxp|]. split; [exact Hst|].
      rewrite Hk. reflexivity.
    + replace (Z.of_nat k <? nval) with true by (symmetry; apply Z.ltb_lt; cbn in Hlen2; lia).
      rewrite fl_loop_cons in Hloop |- *.
      assert (Hgi : zget (map fst l) (Z.of_nat k) = Some ia')
        by (rewrite Hl, map_app; apply zget_app; rewrite map_length; lia).
      assert (Hgx : zget (map snd l) (Z.of_nat k) = Some x)
        by (rewrite Hl, map_app; apply zget_app; rewrite map_length; lia).
      cbn. xs. rewrite Hgi. xs. xif.
      destruct (ia' <? fl_prev s) eqn:Hord.
      * xs. do 3 eexists. split; [|split; [reflexivity|]]; [lia|].
        cbn. repeat split. apply fl_outs_length. lia.
      * xs. xif.
        destruct (ia' =? fl_prev s) eqn:Hfl; cbn [negb] in Hloop |- *.
        2:{ (* a new group: emit the previous one *)
            xif. xs. merge_if'. xs. xs. xfor.
            assert (Hinl : map snd l = xpre ++ fl_grp s ++ x :: map snd todo)
              by (rewrite Hl, map_app, Hpre, <- app_assoc; reflexivity).
            assert (Hin := flat_emit_loop (exec_fun N X program n) n nval maxnan (Z.of_nat k)
                     (fl_n s) (fl_nan s) start ia' (fl_prev s)
                     (if maxnan <? fl_nan s then nnan N else fl_agg s) inp (map fst l)
                     xpre (fl_grp s) (x :: map snd todo) (fl_out s)
                     (firstn (List.length (fl_grp s)) (skipn (List.length (fl_out s)) outbuf))
                     (skipn (List.length (fl_grp s)) (skipn (List.length (fl_out s)) outbuf))).
            rewrite <- Hinl, <- fl_outs_split in Hin. unfold fl_st in Hin.
            rewrite Hin; clear Hin;
              [| symmetry; exact Hxp | rewrite firstn_length, skipn_length; lia | lia | lia | lia ].
            rewrite <- flat_emit_fe, fl_outs_flush with (ia := ia').
            xrun. rewrite Hgx. xrun. xif.
            destruct (nisnan N x) eqn:Hnan; xrun;
            (exists (done ++ [(ia', x)]), todo, (fl_next (fl_flush maxnan ia' s) x),
                    (map snd done), (Z.of_nat k);
             do 3 eexists;
             (split; [rewrite <- app_assoc; exact Hl|]);
             (split; [rewrite app_length; cbn; lia|]);
             (split; [exact Hloop|]);
             (split; [rewrite map_app; reflexivity|]);
             (split; [rewrite map_length; cbn; rewrite app_length, flat_emit_length; lia|]);
             (split; [cbn; rewrite app_length, flat_emit_length; lia|]);
             unfold fl_st, fl_outs, fl_next, fl_flush;
             cbn [fl_prev fl_agg fl_n fl_nan fl_grp fl_out];
             rewrite ?Hnan; cbn;
             rewrite ?HZ; replace (Z.of_nat k + 1) with (Z.of_nat (S k)) by lia;
             reflexivity). }
        (* same group *)
        xrun. rewrite Hgx. xrun. xif.
        destruct (nisnan N x) eqn:Hnan; xrun;
            (exists (done ++ [(ia', x)]), todo, (fl_next s x), xpre, start;
             do 3 eexists;
             (split; [rewrite <- app_assoc; exact Hl|]);
             (split; [rewrite app_length; cbn; lia|]);
             (split; [exact Hloop|]);
             (split; [rewrite map_app, Hpre, <- app_assoc; reflexivity|]);
             (split; [exact Hxp|]);
             (split; [exact Hst|]);
             unfold fl_st, fl_outs, fl_next;
             cbn [fl_prev fl_agg fl_n fl_nan fl_grp fl_out];
             rewrite ?Hnan; cbn;
             rewrite ?HZ; replace (Z.of_nat k + 1) with (Z.of_nat (S k)) by lia;
             reflexivity).
  - exists [], l, s0, [], 0, 0, 0, (n0 N). cbn.
    repeat split; try reflexivity.
  - lia.
  - destruct HL as (r & -> & HP). unfold fl_post in HP.
    destruct (flat_loop N maxnan l s0) as [| | |s] eqn:E; try contradiction.
    + destruct HP as (code & st' & out' & Hcode & -> & Hai & Haf & Hlo).
      cbn. unfold get_ai, get_af. rewrite Hai, Haf. cbn.
      eexists; split; [reflexivity|]. exists code, out'. repeat split; assumption.
    + destruct HP as (xpre & start & j & ia & inp & Hpre & Hxp & Hst & ->).
      assert (Hkk : List.length l = (List.length xpre + List.length (fl_grp s))%nat)
        by (rewrite <- (map_length snd l), Hpre, app_length; reflexivity).
      unfold fl_st. cbn. xif. xs. merge_if'. xs. xs. xfor.
      assert (Hinl : map snd l = xpre ++ fl_grp s ++ []) by (rewrite app_nil_r; exact Hpre).
      assert (Hin := flat_emit_loop (exec_fun N X program n) n nval maxnan (Z.of_nat (List.length l))
                     (fl_n s) (fl_nan s) start ia (fl_prev s)
                     (if maxnan <? fl_nan s then nnan N else fl_agg s) inp (map fst l)
                     xpre (fl_grp s) [] (fl_out s)
                     (firstn (List.length (fl_grp s)) (skipn (List.length (fl_out s)) outbuf))
                     (skipn (List.length (fl_grp s)) (skipn (List.length (fl_out s)) outbuf))).
      rewrite <- Hinl, <- fl_outs_split in Hin. unfold fl_st in Hin.
      rewrite Hin; clear Hin;
        [| symmetry; exact Hxp | rewrite firstn_length, skipn_length; lia | lia | lia | lia ].
      rewrite <- flat_emit_fe.
      rewrite skipn_skipn', skipn_all2 by lia. rewrite app_nil_r.
      xrun. eexists; split; reflexivity.
Qed.



(* c_flathomogen.  Hypotheses = what the Cython wrapper guarantees: aggindex,
   inputs, outputs have the same length nval.  [HZ]: see refine_aggregate.
   - idx <> []: return value and final outputs are those of the model; when the
     index decreases the kernel returns a positive code, aggindex and inputs are
     untouched (outputs: the groups closed so far are written).
   - idx = [] (the model says KUndef): the kernel returns 0, nothing is written. *)
Theorem refine_flathomogen (HZ : nofZ N 0 = n0 N) maxnan idx xs outbuf n :
  List.length xs = List.length idx -> List.length outbuf = List.length idx ->
  (List.length idx < n)%nat ->
  let run := exec_fun N X program (S n) "c_flathomogen"
               [AVI (zlen idx); AVI maxnan; AVArrI idx; AVArrF xs; AVArrF outbuf] in
  match c_flathomogen N maxnan idx xs with
  | KDone out => run = Ok (RI 0, [VArrI idx; VArrF xs; VArrF out])
  | KUndef => run = Ok (RI 0, [VArrI idx; VArrF xs; VArrF outbuf])
  | KErrOrder | KErrCount =>
      exists code out', 0 < code /\ List.length out' = List.length outbuf /\
        run = Ok (RI code, [VArrI idx; VArrF xs; VArrF out'])
  end.
Proof.
  intros Hxs Hob Hn run. subst run.
  destruct idx as [|k0 idx'].
  - destruct xs; [|discriminate]. destruct outbuf; [|discriminate].
    cbn. xrun. xif. xrun. reflexivity.
  - destruct xs as [|x0 xs']; [discriminate|].
    cbn [List.length] in *.
    assert (Hl' : List.length idx' = List.length xs') by lia.
    pose proof (flathomogen_run HZ maxnan k0 x0 (combine idx' xs') outbuf n) as H.
    rewrite combine_length, <- Hl', Nat.min_id in H.
    specialize (H Hob Hn). cbv zeta in H. destruct H as (r & Hr & HF).
    unfold fl_args in Hr. cbn [map fst snd] in Hr.
    rewrite (map_fst_combine' _ _ Hl'), (map_snd_combine' _ _ Hl') in Hr.
    replace (zlen ((k0, x0) :: combine idx' xs')) with (zlen (k0 :: idx')) in Hr
      by (rewrite !zlen_eq; cbn [List.length]; rewrite combine_length, <- Hl', Nat.min_id; reflexivity).
    rewrite Hr. unfold fl_final in HF. cbn [map fst snd] in HF.
    rewrite (map_fst_combine' _ _ Hl'), (map_snd_combine' _ _ Hl') in HF.
    unfold c_flathomogen. cbn [combine].
    destruct (flat_loop N maxnan ((k0, x0) :: combine idx' xs')
                {| fl_prev := k0; fl_agg := n0 N; fl_n := 0; fl_nan := 0; fl_grp := []; fl_out := [] |})
      as [| | |s]; try contradiction.
    + destruct HF as (code & out' & H1 & H2 & ->). exists code, out'. auto.
    + rewrite HF. reflexivity.
Qed.

(* Remark: with nval = length of the index (the wrapper's call), the second error
   return of c_aggregate (count >= nval) is unreachable. *)
Lemma agg_loop_no_errcount upd op maxnan nval : forall (l : list (Z * T)) s,
  ag_count s + Z.of_nat (List.length l) < nval ->
  agg_loop N upd op maxnan nval l s <> KErrCount.
Proof.
  induction l as [|[ia x] l IH]; intros s H; cbn [agg_loop]; [discriminate|].
  destruct (ia <? ag_prev s); [discriminate|].
  cbn [List.length] in H.
  destruct (negb (ia =? ag_prev s)) eqn:Hf; cbn [andb].
  - replace (nval <=? ag_count s + 1) with false by (symmetry; apply Z.leb_gt; lia).
    apply IH. cbn. lia.
  - apply IH. cbn. lia.
Qed.

Lemma c_aggregate_no_errcount upd op maxnan idx (xs outbuf : list T) :
  List.length xs = List.length idx ->
  c_aggregate N upd (zlen idx) op maxnan idx xs outbuf <> KErrCount.
Proof.
  intros Hxs. unfold c_aggregate. destruct idx as [|k0 idx]; [discriminate|].
  destruct xs as [|x0 xs]; [discriminate|]. cbn [combine agg_loop ag_prev].
  rewrite Z.ltb_irrefl, Z.eqb_refl. cbn [negb andb].
  match goal with |- context[agg_loop N upd op maxnan ?nv ?l ?s] =>
    pose proof (agg_loop_no_errcount upd op maxnan nv l s) as H;
    destruct (agg_loop N upd op maxnan nv l s) end; try discriminate.
  exfalso. apply H; [|reflexivity]. cbn.
  rewrite zlen_eq, combine_length. cbn [List.length] in *. lia.
Qed.

End Refine.

(* the hypothesis [nofZ N 0 = n0 N] holds in the three arithmetic instances *)
Lemma HZ_F64 : nofZ F64 0 = n0 F64. Proof. reflexivity. Qed.
Lemma HZ_RR : nofZ RR 0 = n0 RR. Proof. reflexivity. Qed.
Lemma HZ_RN : nofZ RN 0 = n0 RN. Proof. reflexivity. Qed.

Definition refine_aggregate_F64 := refine_aggregate F64 XF64 HZ_F64.
Definition refine_aggregate_RR := refine_aggregate RR XRR HZ_RR.
Definition refine_aggregate_RN := refine_aggregate RN XRN HZ_RN.
Definition refine_flathomogen_F64 := refine_flathomogen F64 XF64 HZ_F64.
Definition refine_flathomogen_RR := refine_flathomogen RR XRR HZ_RR.
Definition refine_flathomogen_RN := refine_flathomogen RN XRN HZ_RN.
