(* C16 on the regenerated program: the property theorems of Proofs/IntersectProofs.v
   (cells listed once, weight = area ratio x number of centres in the cell, counts
   partition the centres inside the grid, area conserved) and Proofs/VoronoiProofs.v
   (weights = fractions of the catchment, non-negative, summing to 1) transported
   through the refinement theorems of Proofs/RefineIntersect.v.  Every statement is
   about [exec_fun RR XRR program] - the MiniC translation of c_intersect / c_voronoi
   (src/hydrodiy/gis/c_grid.c) regenerated from the tree under test - run on reals. *)
From Coq Require Import ZArith Bool List String Lia Reals Lra.
From Hy Require Import Base.Num Base.MiniC Gen.KernelsAst Gen.Consts Gen.ConstsC16 Model.Grid Model.Intersect
  Proofs.GridGeomProofs Proofs.IntersectProofs Proofs.VoronoiProofs Proofs.IntersectExtraProofs Proofs.IntersectExamples
  Proofs.RefineIntersect.
Import ListNotations.
Open Scope string_scope.
Open Scope list_scope.

(* the call made by grid.py: grid shape and geometry, cell size of the catchment
   grid, the centres of the catchment cells (n,2), buffer length, npoints[1], the
   cell-number and weight buffers *)
Definition run_intersect (n : nat) (nrows ncols : Z) (xll yll csz csz_area : R)
    (xys : list (R * R)) (np0 : Z) (idx0 : list Z) (w0 : list R) :=
  exec_fun RR XRR program (S n) "c_intersect"
    [AVI nrows; AVI ncols; AVF xll; AVF yll; AVF csz; AVF csz_area; AVI (MiniC.zlen xys);
     AVArrF (flat2 xys); AVI (MiniC.zlen idx0); AVArrI [np0]; AVArrI idx0; AVArrF w0].

Definition run_voronoi (n : nat) (nrows ncols : Z) (xll yll csz : R)
    (cells : list Z) (pts : list (R * R)) (w0 : list R) :=
  exec_fun RR XRR program (S n) "c_voronoi"
    [AVI nrows; AVI ncols; AVF xll; AVF yll; AVF csz; AVI (MiniC.zlen cells); AVArrI cells;
     AVI (MiniC.zlen pts); AVArrF (flat2 pts); AVArrF w0].

(* [run_intersect] / [run_voronoi] are executions of the translated program *)
Lemma run_intersect_is_exec n nrows ncols xll yll csz csz_area xys np0 idx0 w0 :
  run_intersect n nrows ncols xll yll csz csz_area xys np0 idx0 w0 =
  exec_fun RR XRR program (S n) "c_intersect"
    [AVI nrows; AVI ncols; AVF xll; AVF yll; AVF csz; AVF csz_area; AVI (MiniC.zlen xys);
     AVArrF (flat2 xys); AVI (MiniC.zlen idx0); AVArrI [np0]; AVArrI idx0; AVArrF w0].
Proof. reflexivity. Qed.
Lemma run_voronoi_is_exec n nrows ncols xll yll csz cells pts w0 :
  run_voronoi n nrows ncols xll yll csz cells pts w0 =
  exec_fun RR XRR program (S n) "c_voronoi"
    [AVI nrows; AVI ncols; AVF xll; AVF yll; AVF csz; AVI (MiniC.zlen cells); AVArrI cells;
     AVI (MiniC.zlen pts); AVArrF (flat2 pts); AVArrF w0].
Proof. reflexivity. Qed.

Lemma combine_fst_snd {A B} (l : list (A * B)) : combine (map fst l) (map snd l) = l.
Proof. induction l as [|[a b] l IH]; [reflexivity|]. cbn. rewrite IH. reflexivity. Qed.

(* number of points the grid locates inside = number of points inside the extent *)
Lemma cnt_inside_extent nrows ncols xll yll csz xys :
  (0 < csz)%R ->
  cnt_inside (coord2cell RR nrows ncols xll yll csz) xys =
  countb (in_extent_b nrows ncols xll yll csz) xys.
Proof.
  intros Hcsz. unfold cnt_inside. apply countb_ext. intros xy _.
  destruct (in_extent_b nrows ncols xll yll csz xy) eqn:E.
  - apply Z.leb_le. apply coord2cell_inside_iff; [assumption|]. apply in_extent_b_true, E.
  - apply Z.leb_gt.
    destruct (Z_lt_le_dec (coord2cell RR nrows ncols xll yll csz xy) 0) as [|Hn]; [assumption|].
    apply coord2cell_inside_iff in Hn; [|assumption]. apply in_extent_b_true in Hn. congruence.
Qed.

(* number of points located in cell (row, col) = number of points in its footprint *)
Lemma cnt_footprint nrows ncols xll yll csz row col xys :
  (0 < csz)%R -> (0 <= col < ncols)%Z -> (0 <= row < nrows)%Z ->
  cnt (coord2cell RR nrows ncols xll yll csz) (row * ncols + col) xys =
  countb (in_footprint_b nrows xll yll csz row col) xys.
Proof.
  intros Hcsz Hc Hr. unfold cnt. apply countb_ext. intros xy _.
  destruct (in_footprint_b nrows xll yll csz row col xy) eqn:E.
  - apply Z.eqb_eq. apply coord2cell_footprint_iff; try assumption. apply in_footprint_b_true, E.
  - apply Z.eqb_neq. intros E'. apply coord2cell_footprint_iff in E'; try assumption.
    apply in_footprint_b_true in E'. congruence.
Qed.

(* MAIN COROLLARY (intersection).  Positive grid cell size, grid dimensions that are
   long long values, buffers of at least nrows*ncols entries (what grid.py allocates),
   any points: the translated c_intersect returns 0, stores the number of cells
   found in npoints[0] and writes, in front of the untouched rest of the buffers,
   cell numbers [cells] and weights [ws] such that
   - the cells are pairwise distinct;
   - they are exactly the valid grid cells whose (closed-open) footprint holds a point;
   - the weight of cell (row, col) is (csz_area/csz)^2 x the number of points in its
     footprint (and that number is positive);
   - the per-cell numbers of points add up to the number of points inside the grid;
   - sum(weights) x csz^2 = #{points inside the grid} x csz_area^2 (area conserved). *)
Theorem kernel_intersect_weights nrows ncols xll yll csz csz_area xys np0 idx0 w0 n :
  (0 < csz)%R ->
  (nrows <= MAXLL)%Z -> (ncols <= MAXLL)%Z ->
  List.length w0 = List.length idx0 ->
  (Z.max 0 (nrows * ncols) <= Z.of_nat (List.length idx0))%Z ->
  (List.length xys + 2 < n)%nat ->
  exists (cells : list Z) (ws : list R),
    run_intersect n nrows ncols xll yll csz csz_area xys np0 idx0 w0 =
    Ok (RI 0%Z, [VArrF (flat2 xys); VArrI [Z.of_nat (List.length cells)];
                 VArrI (cells ++ skipn (List.length cells) idx0);
                 VArrF (ws ++ skipn (List.length cells) w0)]) /\
    List.length ws = List.length cells /\
    (List.length cells <= List.length idx0)%nat /\
    NoDup cells /\
    (forall k, In k cells <->
       exists row col, (0 <= col < ncols)%Z /\ (0 <= row < nrows)%Z /\ k = (row * ncols + col)%Z /\
         exists xy, In xy xys /\ in_footprint nrows xll yll csz row col xy) /\
    (forall row col w, (0 <= col < ncols)%Z -> (0 <= row < nrows)%Z ->
       In ((row * ncols + col)%Z, w) (combine cells ws) ->
       (0 < countb (in_footprint_b nrows xll yll csz row col) xys)%nat /\
       w = (csz_area / csz * (csz_area / csz) *
            INR (countb (in_footprint_b nrows xll yll csz row col) xys))%R) /\
    fold_right Nat.add O
      (map (fun k => countb (fun xy => (coord2cell RR nrows ncols xll yll csz xy =? k)%Z) xys) cells) =
      countb (in_extent_b nrows ncols xll yll csz) xys /\
    (Rsum ws * (csz * csz))%R =
      (INR (countb (in_extent_b nrows ncols xll yll csz) xys) * (csz_area * csz_area))%R.
Proof.
  intros Hcsz Hnr Hnc Hw Hbuf Hn.
  set (acc := c_intersect RR nrows ncols xll yll csz csz_area xys).
  exists (map fst acc), (map snd acc).
  pose proof (c_intersect_fits_buffer RR nrows ncols xll yll csz csz_area xys) as Hfit.
  fold acc in Hfit.
  split; [|split; [|split; [|split; [|split; [|split; [|split]]]]]].
  - unfold run_intersect.
    rewrite (refine_intersect_RR nrows ncols xll yll csz csz_area xys np0 idx0 w0 n Hnr Hnc Hw Hbuf Hn).
    cbv zeta. fold acc. rewrite MiniC.zlen_eq, !map_length. reflexivity.
  - rewrite !map_length. reflexivity.
  - rewrite map_length. lia.
  - apply intersect_nodup.
  - intros k. apply c_intersect_cells. exact Hcsz.
  - intros row col w Hc Hr Hin. rewrite combine_fst_snd in Hin.
    split.
    + unfold acc, c_intersect in Hin. apply intersect_weight_RR in Hin.
      destruct Hin as (_ & Hpos & _).
      rewrite (cnt_footprint nrows ncols xll yll csz row col xys Hcsz Hc Hr) in Hpos. exact Hpos.
    + exact (c_intersect_weight nrows ncols xll yll csz csz_area xys row col w Hcsz Hc Hr Hin).
  - rewrite <- (cnt_inside_extent nrows ncols xll yll csz xys Hcsz).
    exact (sum_cnt_keys RR (coord2cell RR nrows ncols xll yll csz) (areafactor RR csz csz_area) xys).
  - exact (c_intersect_area_conserved nrows ncols xll yll csz csz_area xys Hcsz).
Qed.

(* hence the weighted area never exceeds the catchment area, with equality when the
   grid covers every centre *)
Theorem kernel_intersect_area_bounds nrows ncols xll yll csz csz_area xys np0 idx0 w0 n :
  (0 < csz)%R ->
  (nrows <= MAXLL)%Z -> (ncols <= MAXLL)%Z ->
  List.length w0 = List.length idx0 ->
  (Z.max 0 (nrows * ncols) <= Z.of_nat (List.length idx0))%Z ->
  (List.length xys + 2 < n)%nat ->
  exists (cells : list Z) (ws : list R),
    run_intersect n nrows ncols xll yll csz csz_area xys np0 idx0 w0 =
    Ok (RI 0%Z, [VArrF (flat2 xys); VArrI [Z.of_nat (List.length cells)];
                 VArrI (cells ++ skipn (List.length cells) idx0);
                 VArrF (ws ++ skipn (List.length cells) w0)]) /\
    (Rsum ws * (csz * csz) <= INR (List.length xys) * (csz_area * csz_area))%R /\
    ((forall xy, In xy xys -> in_extent nrows ncols xll yll csz xy) ->
     (Rsum ws * (csz * csz))%R = (INR (List.length xys) * (csz_area * csz_area))%R).
Proof.
  intros Hcsz Hnr Hnc Hw Hbuf Hn.
  set (acc := c_intersect RR nrows ncols xll yll csz csz_area xys).
  exists (map fst acc), (map snd acc). split; [|split].
  - unfold run_intersect.
    rewrite (refine_intersect_RR nrows ncols xll yll csz csz_area xys np0 idx0 w0 n Hnr Hnc Hw Hbuf Hn).
    cbv zeta. fold acc. rewrite MiniC.zlen_eq, !map_length. reflexivity.
  - exact (intersect_area_le nrows ncols xll yll csz csz_area xys Hcsz).
  - intros Hall. exact (intersect_area_full nrows ncols xll yll csz csz_area xys Hcsz Hall).
Qed.

(* ------------------------------------------------------------------ *)
(* Voronoi weights *)

Lemma forallb_valid nrows ncols cells :
  (forall c, In c cells -> (0 <= c < nrows * ncols)%Z) ->
  forallb (valid_cell nrows ncols) cells = true.
Proof.
  intros H. apply forallb_forall. intros c Hc. specialize (H c Hc). unfold valid_cell.
  destruct (Z.ltb_spec c 0); [lia|]. destruct (Z.leb_spec (nrows * ncols) c); [lia|]. reflexivity.
Qed.

(* MAIN COROLLARY (Voronoi).  At least one point, a non-empty catchment of valid cells
   of a grid with at least one row and one column: the translated c_voronoi returns 0,
   leaves cells and points untouched and writes one weight per point such that
   - weight q = fraction of the catchment cells whose centre is nearest to point q
     (lowest index among equidistant points: C16_voronoi_choice_is_nearest_lowest_index);
   - every weight is non-negative (and at most 1);
   - the weights sum to 1. *)
Theorem kernel_voronoi_weights nrows ncols xll yll csz cells pts w0 n :
  pts <> [] -> cells <> [] ->
  (1 <= nrows)%Z -> (1 <= ncols)%Z ->
  (forall c, In c cells -> (0 <= c < nrows * ncols)%Z) ->
  List.length w0 = List.length pts ->
  (Nat.max (List.length cells) (List.length pts) + 1 < n)%nat ->
  exists ws : list R,
    run_voronoi n nrows ncols xll yll csz cells pts w0 =
    Ok (RI 0%Z, [VArrI cells; VArrF (flat2 pts); VArrF ws]) /\
    List.length ws = List.length pts /\
    (forall q, (0 <= q < Z.of_nat (List.length pts))%Z ->
       zn ws q 0%R =
       (INR (countb (fun c => (nearest RR VORONOI_DISTMAX_R (getcoord RR nrows ncols xll yll csz c) pts =? q)%Z)
                    cells)
        / INR (List.length cells))%R) /\
    (forall w, In w ws -> (0 <= w)%R) /\
    (forall q, (0 <= q < Z.of_nat (List.length pts))%Z -> (zn ws q 0 <= 1)%R) /\
    Rsum ws = 1%R.
Proof.
  intros Hpts Hcells Hnr Hnc Hvalid Hw Hn.
  exists (voronoi RR VORONOI_DISTMAX_R nrows ncols xll yll csz cells pts).
  split; [|split; [|split; [|split; [|split]]]].
  - pose proof (refine_voronoi_RR nrows ncols xll yll csz cells pts w0 n Hw Hn) as H.
    cbv zeta in H.
    assert (E1 : (MiniC.zlen pts <? 1)%Z = false).
    { apply Z.ltb_ge. rewrite MiniC.zlen_eq. destruct pts; [congruence|cbn [List.length]; lia]. }
    assert (E2 : (nrows <? 1)%Z = false) by (apply Z.ltb_ge; lia).
    assert (E3 : (ncols <? 1)%Z = false) by (apply Z.ltb_ge; lia).
    rewrite E1, E2, E3 in H. cbn [orb] in H.
    rewrite (forallb_valid nrows ncols cells Hvalid) in H. exact H.
  - apply voronoi_length. exact Hpts.
  - intros q Hq. apply (voronoi_weight VORONOI_DISTMAX_R); assumption.
  - intros w Hin. exact (voronoi_nonneg VORONOI_DISTMAX_R nrows ncols xll yll csz cells pts Hpts w Hcells Hin).
  - intros q Hq. exact (voronoi_le_one VORONOI_DISTMAX_R nrows ncols xll yll csz cells pts q Hpts Hcells Hq).
  - exact (voronoi_sum_one VORONOI_DISTMAX_R nrows ncols xll yll csz cells pts Hpts Hcells).
Qed.

(* no point, or a grid without rows / columns: a positive code, weights untouched;
   an invalid catchment cell: a positive code (the wrapper raises ValueError) *)
Theorem kernel_voronoi_rejects nrows ncols xll yll csz cells pts w0 n :
  List.length w0 = List.length pts ->
  (Nat.max (List.length cells) (List.length pts) + 1 < n)%nat ->
  pts = [] \/ (nrows < 1)%Z \/ (ncols < 1)%Z \/
    (exists c, In c cells /\ ~ (0 <= c < nrows * ncols)%Z) ->
  exists code ws,
    (0 < code)%Z /\
    run_voronoi n nrows ncols xll yll csz cells pts w0 =
    Ok (RI code, [VArrI cells; VArrF (flat2 pts); VArrF ws]).
Proof.
  intros Hw Hn Hbad.
  pose proof (refine_voronoi_RR nrows ncols xll yll csz cells pts w0 n Hw Hn) as H.
  cbv zeta in H.
  destruct ((MiniC.zlen pts <? 1)%Z || ((nrows <? 1)%Z || (ncols <? 1)%Z)) eqn:E.
  - destruct H as (code & Hc & Hrun). exists code, w0. split; assumption.
  - apply orb_false_iff in E. destruct E as [E1 E]. apply orb_false_iff in E. destruct E as [E2 E3].
    apply Z.ltb_ge in E1, E2, E3.
    destruct (forallb (valid_cell nrows ncols) cells) eqn:Ef.
    + exfalso. destruct Hbad as [->|[Hb|[Hb|(c & Hin & Hc)]]]; try lia.
      * cbn in E1. lia.
      * rewrite forallb_forall in Ef. specialize (Ef c Hin). unfold valid_cell in Ef.
        apply negb_true_iff, orb_false_iff in Ef. destruct Ef as [F1 F2].
        apply Z.ltb_ge in F1. apply Z.leb_gt in F2. lia.
    + destruct H as (code & pre & bad & post & Hc & _ & _ & _ & Hrun).
      eexists code, _. split; [exact Hc|exact Hrun].
Qed.

(* ------------------------------------------------------------------ *)
(* the hypotheses are satisfiable (the instances of Props/C16.v) *)

(* three centres, two of them inside a 1x1 grid of cell size 2, catchment cells of
   size 1: one cell, weight 2 x (1/2)^2 *)
Example kernel_intersect_example :
  run_intersect 6 1 1 0 0 2 1 [(1 / 2, 1 / 2); (3 / 2, 1 / 2); (5, 5)]%R 0 [0%Z] [0%R] =
  Ok (RI 0%Z, [VArrF [1 / 2; 1 / 2; 3 / 2; 1 / 2; 5; 5]%R; VArrI [1%Z]; VArrI [0%Z];
               VArrF [(1 / 2)%R]]).
Proof.
  assert (H1 : (0 < 2)%R) by lra.
  assert (H2 : (1 <= MAXLL)%Z) by (unfold MAXLL; lia).
  assert (H3 : (Z.max 0 (1 * 1) <= Z.of_nat (List.length [0%Z]))%Z) by (cbn; lia).
  assert (H4 : (List.length [(1 / 2, 1 / 2); (3 / 2, 1 / 2); (5, 5)]%R + 2 < 6)%nat) by (cbn; lia).
  destruct (kernel_intersect_weights 1 1 0 0 2 1 [(1 / 2, 1 / 2); (3 / 2, 1 / 2); (5, 5)]%R 0 [0%Z] [0%R] 6
              H1 H2 H2 eq_refl H3 H4)
    as (cells & ws & Hrun & Hlw & Hfit & Hnd & Hcells & Hwt & _ & _).
  cbn [List.length] in Hfit.
  assert (H0 : In 0%Z cells).
  { apply Hcells. exists 0%Z, 0%Z. repeat split; try lia.
    exists (1 / 2, 1 / 2)%R. split; [left; reflexivity|].
    unfold in_footprint. cbn [fst snd]. simpl. lra. }
  destruct cells as [|k [|k2 r]]; [contradiction| |cbn [List.length] in Hfit; lia].
  destruct H0 as [->|[]].
  destruct ws as [|w [|w2 r]]; try discriminate.
  assert (Ew : w = (1 / 2)%R).
  { destruct (Hwt 0%Z 0%Z w) as (_ & ->); try lia; [left; reflexivity|].
    unfold countb, in_footprint_b. cbn [filter fst snd]. simpl IZR. rbool. cbn. lra. }
  subst w. exact Hrun.
Qed.

Example kernel_voronoi_example :
  exists ws : list R,
    run_voronoi 5 2 2 0 0 1 [0; 1; 2]%Z [(1 / 2, 3 / 2); (3, 3)]%R [0; 0]%R =
    Ok (RI 0%Z, [VArrI [0; 1; 2]%Z; VArrF [1 / 2; 3 / 2; 3; 3]%R; VArrF ws]) /\
    List.length ws = 2%nat /\ (forall w, In w ws -> (0 <= w)%R) /\ Rsum ws = 1%R.
Proof.
  assert (H1 : [(1 / 2, 3 / 2); (3, 3)]%R <> []) by discriminate.
  assert (H2 : [0; 1; 2]%Z <> []) by discriminate.
  assert (H3 : forall c, In c [0; 1; 2]%Z -> (0 <= c < 2 * 2)%Z) by (intros c Hc; cbn [In] in Hc; lia).
  assert (H4 : (Nat.max (List.length [0; 1; 2]%Z) (List.length [(1 / 2, 3 / 2); (3, 3)]%R) + 1 < 5)%nat)
    by (cbn; lia).
  destruct (kernel_voronoi_weights 2 2 0 0 1 [0; 1; 2]%Z [(1 / 2, 3 / 2); (3, 3)]%R [0; 0]%R 5
              H1 H2 ltac:(lia) ltac:(lia) H3 eq_refl H4)
    as (ws & Hrun & Hl & _ & Hnn & _ & Hs).
  exists ws. split; [exact Hrun|]. split; [exact Hl|]. split; [exact Hnn|exact Hs].
Qed.
