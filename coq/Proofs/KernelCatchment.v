(* C06 on the regenerated program (MiniC translation of src/hydrodiy/gis/c_catchment.c,
   Gen/KernelsAst.v): catchment delineation is upstream reachability, flow-path lengths are
   the lengths of the downstream chains, river traces follow the downstream chain - the
   model theorems of Proofs/AreaProofs.v and Proofs/PathProofs.v transported through the
   refinement theorems of Proofs/RefineArea.v and Proofs/RefineRiver.v.
   (Proofs/KernelFlow.v has the inverse relation upstream / downstream.) *)
From Coq Require Import ZArith Bool List String Lia Reals PrimFloat.
From Hy Require Import Base.Num Base.MiniC Gen.KernelsAst Gen.Consts Model.Grid Model.Catchment
  Proofs.FlowProofs Proofs.AreaProofs Proofs.PathProofs Proofs.RefineArea Proofs.RefineRiver.
Import ListNotations.
Open Scope string_scope.
Open Scope list_scope.
Open Scope Z_scope.

(* ================================================================== *)
(* c_delineate_area (integers only: any arithmetic instance)            *)
(* ================================================================== *)
Section Area.
Context {T : Type} (N : NumOps T) (X : NumLit T).

(* what a run of the translated kernel that RETURNS 0 has written: the model's result *)
Lemma area_run_zero nrows ncols fd outlet inlets area0 b10 b20 n outs :
  0 <= ncols -> Z.of_nat (List.length fd) = nrows * ncols ->
  List.length b10 = List.length area0 -> List.length b20 = List.length area0 ->
  (List.length inlets < n)%nat -> (List.length area0 < n)%nat -> (13 < n)%nat ->
  da_call N X n nrows ncols fd outlet inlets area0 b10 b20 = Ok (RI 0, outs) ->
  exists res b1 b2,
    delineate_area nrows ncols fd outlet inlets (Z.of_nat (List.length area0)) = DOk res /\
    outs = [VArrI FLOWDIRCODE; VArrI fd; VArrI inlets;
            VArrI (res ++ skipn (List.length res) area0); VArrI b1; VArrI b2].
Proof.
  intros Hnc Hfd Hl1 Hl2 Hn Hna Hn13 Hrun.
  pose proof (refine_c_delineate_area N X nrows ncols fd outlet inlets area0 b10 b20 n
                Hnc Hfd Hl1 Hl2 Hn Hna Hn13) as H.
  destruct (delineate_area nrows ncols fd outlet inlets (Z.of_nat (List.length area0))) as [| |res].
  - destruct H as (code & a & b1 & b2 & Hcode & Hrun' & _).
    rewrite Hrun in Hrun'. injection Hrun' as Hc _. lia.
  - destruct H.
  - rewrite Hrun in H. injection H as ->. eexists. eexists. eexists. split; reflexivity.
Qed.

(* For every grid (cycles in the flow directions included), every valid outlet, every list of
   inlets and every initial content of the three work arrays of equal lengths: WHEN THE
   TRANSLATED c_delineate_area RETURNS 0, idxcells_area holds a list [res] of cells followed by
   the untouched tail of the array, where [res] is exactly the outlet plus every cell whose
   downstream chain reaches the outlet without passing through an inlet ([reach k x]: k steps,
   none of x .. down^(k-1) x an inlet; empty when nothing drains to the outlet), each cell
   once when the outlet does not drain back into itself.  The flow directions and the inlets
   are returned unchanged. *)
Theorem kernel_area_is_reachability nrows ncols fd outlet inlets area0 b10 b20 n outs :
  0 < ncols -> 0 <= outlet < nrows * ncols ->
  Z.of_nat (List.length fd) = nrows * ncols ->
  List.length b10 = List.length area0 -> List.length b20 = List.length area0 ->
  (List.length inlets < n)%nat -> (List.length area0 < n)%nat -> (13 < n)%nat ->
  da_call N X n nrows ncols fd outlet inlets area0 b10 b20 = Ok (RI 0, outs) ->
  exists res b1 b2,
    outs = [VArrI FLOWDIRCODE; VArrI fd; VArrI inlets;
            VArrI (res ++ skipn (List.length res) area0); VArrI b1; VArrI b2] /\
    (forall x, In x res <->
       ((exists k, (1 <= k)%nat /\ reach nrows ncols fd inlets outlet k x) \/
        (x = outlet /\ exists y, reach nrows ncols fd inlets outlet 1 y))) /\
    (forall x, In x res -> 0 <= x < nrows * ncols) /\
    ((forall m, (1 <= m)%nat -> ~ reach nrows ncols fd inlets outlet m outlet) -> NoDup res).
Proof.
  intros Hnc Hout Hfd Hl1 Hl2 Hn Hna Hn13 Hrun.
  destruct (area_run_zero nrows ncols fd outlet inlets area0 b10 b20 n outs
              ltac:(lia) Hfd Hl1 Hl2 Hn Hna Hn13 Hrun) as (res & b1 & b2 & Hmodel & Houts).
  pose proof (area_is_reachability nrows ncols fd inlets outlet Hnc Hout _ res Hmodel) as Hreach.
  exists res, b1, b2. split; [exact Houts|]. split; [exact Hreach|]. split.
  - intros x Hx. apply Hreach in Hx. destruct Hx as [(k & _ & Hk)|[-> _]].
    + exact (reach_valid nrows ncols fd inlets outlet Hout k x Hk).
    + exact Hout.
  - intros Hloop. exact (area_nodup nrows ncols fd inlets outlet Hnc Hout _ res Hloop Hmodel).
Qed.

Lemma skipn_repeat {A} (x : A) j m : skipn j (repeat x m) = repeat x (m - j).
Proof.
  revert j; induction m as [|m IH]; intros j; [destruct j; reflexivity|].
  destruct j as [|j]; [reflexivity|]. cbn [repeat skipn Nat.sub]. apply IH.
Qed.

Lemma filter_nonneg_area res k :
  (forall x, In x res -> 0 <= x) -> filter (fun x => 0 <=? x) (res ++ repeat (-1) k) = res.
Proof.
  intros Hpos. rewrite filter_app.
  replace (filter (fun x => 0 <=? x) (repeat (-1) k)) with (@nil Z)
    by (induction k as [|k IH]; [reflexivity|cbn; exact IH]).
  rewrite app_nil_r. induction res as [|a r IH]; [reflexivity|]. cbn [filter].
  destruct (Z.leb_spec 0 a) as [_|Hneg]; [|specialize (Hpos a (or_introl eq_refl)); lia].
  f_equal. apply IH. intros x Hx. apply Hpos. right. exact Hx.
Qed.

(* the same with the call convention of grid.py (Catchment.delineate_area): the three arrays
   are initialised with -1 and the area is read back as the non-negative entries of
   idxcells_area; those entries are exactly the reachability set, each cell once *)
Theorem kernel_area_python_convention nrows ncols fd outlet inlets nval n a b1 b2 :
  0 < ncols -> 0 <= outlet < nrows * ncols ->
  Z.of_nat (List.length fd) = nrows * ncols ->
  (List.length inlets < n)%nat -> (nval < n)%nat -> (13 < n)%nat ->
  da_call N X n nrows ncols fd outlet inlets (repeat (-1) nval) (repeat (-1) nval) (repeat (-1) nval)
    = Ok (RI 0, [VArrI FLOWDIRCODE; VArrI fd; VArrI inlets; VArrI a; VArrI b1; VArrI b2]) ->
  let cells := filter (fun x => 0 <=? x) a in
  (forall x, In x cells <->
     ((exists k, (1 <= k)%nat /\ reach nrows ncols fd inlets outlet k x) \/
      (x = outlet /\ exists y, reach nrows ncols fd inlets outlet 1 y))) /\
  ((forall m, (1 <= m)%nat -> ~ reach nrows ncols fd inlets outlet m outlet) -> NoDup cells).
Proof.
  intros Hnc Hout Hfd Hn Hna Hn13 Hrun cells.
  destruct (kernel_area_is_reachability nrows ncols fd outlet inlets
              (repeat (-1) nval) (repeat (-1) nval) (repeat (-1) nval) n _
              Hnc Hout Hfd eq_refl eq_refl Hn ltac:(rewrite repeat_length; exact Hna) Hn13 Hrun)
    as (res & b1' & b2' & Houts & Hreach & Hvalid & Hnodup).
  injection Houts as Ha _ _.
  assert (Ecells : cells = res).
  { unfold cells. rewrite Ha.
    assert (Hskip : exists k, skipn (List.length res) (repeat (-1) nval) = repeat (-1) k)
      by (eexists; apply skipn_repeat).
    destruct Hskip as [k ->]. apply filter_nonneg_area. intros x Hx. apply Hvalid in Hx. lia. }
  rewrite Ecells. split; [exact Hreach|exact Hnodup].
Qed.

(* invalid buffer size, outlet or inlet: a positive code, nothing written *)
Theorem kernel_area_rejects nrows ncols fd outlet inlets area0 b10 b20 n :
  0 <= ncols -> Z.of_nat (List.length fd) = nrows * ncols ->
  List.length b10 = List.length area0 -> List.length b20 = List.length area0 ->
  (List.length inlets < n)%nat -> (List.length area0 < n)%nat -> (13 < n)%nat ->
  Z.of_nat (List.length area0) < 1 \/ outlet < 0 \/ nrows * ncols <= outlet \/
    (exists i, In i inlets /\ (i < 0 \/ nrows * ncols <= i)) ->
  exists code, 0 < code /\
    da_call N X n nrows ncols fd outlet inlets area0 b10 b20
    = Ok (RI code, [VArrI FLOWDIRCODE; VArrI fd; VArrI inlets; VArrI area0; VArrI b10; VArrI b20]).
Proof.
  intros Hnc Hfd Hl1 Hl2 Hn Hna Hn13 Hbad.
  apply (refine_c_delineate_area_rejected N X); try assumption.
  unfold da_rejected. rewrite !orb_true_iff, !negb_true_iff.
  destruct Hbad as [H|[H|[H|(i & Hi & H)]]].
  - left. left. apply Z.ltb_lt. exact H.
  - left. right. unfold valid_cell. apply negb_false_iff, orb_true_iff. left. apply Z.ltb_lt. exact H.
  - left. right. unfold valid_cell. apply negb_false_iff, orb_true_iff. right. apply Z.leb_le. exact H.
  - right. destruct (forallb (valid_cell nrows ncols) inlets) eqn:E; [|reflexivity]. exfalso.
    rewrite forallb_forall in E. specialize (E i Hi). unfold valid_cell in E.
    apply negb_true_iff, orb_false_iff in E. destruct E as [E1 E2].
    apply Z.ltb_ge in E1. apply Z.leb_gt in E2. lia.
Qed.

End Area.

(* ================================================================== *)
(* c_delineate_flowpathlengths_in_catchment, over the reals            *)
(* ================================================================== *)

Definition run_flowpaths (n : nat) nrows ncols (fd area : list Z) (outlet : Z) (buf : list R) :=
  exec_fun RR XRR program (S n) "c_delineate_flowpathlengths_in_catchment"
    [AVI nrows; AVI ncols; AVArrI FLOWDIRCODE; AVArrI fd; AVI (MiniC.zlen area); AVArrI area;
     AVI outlet; AVArrF buf].

Lemma fp_flat_len (rows : list (Z * Z * R)) : List.length (fp_flat RR rows) = (3 * List.length rows)%nat.
Proof.
  induction rows as [|r rows IH]; [reflexivity|].
  unfold fp_flat in *. cbn [flat_map fp_row app List.length]. rewrite IH. lia.
Qed.

Lemma fp_flat_nth (rows : list (Z * Z * R)) i :
  (i < List.length rows)%nat ->
  nth (3 * i) (fp_flat RR rows) 0%R = IZR (fst (fst (nth i rows (0, 0, 0%R)))) /\
  nth (3 * i + 1) (fp_flat RR rows) 0%R = IZR (snd (fst (nth i rows (0, 0, 0%R)))) /\
  nth (3 * i + 2) (fp_flat RR rows) 0%R = snd (nth i rows (0, 0, 0%R)).
Proof.
  revert i; induction rows as [|r rows IH]; intros i Hi; [cbn in Hi; lia|].
  destruct i as [|i].
  - cbn. auto.
  - cbn [List.length] in Hi. specialize (IH i ltac:(lia)).
    replace (3 * S i)%nat with (S (S (S (3 * i)))) by lia.
    replace (S (S (S (3 * i))) + 1)%nat with (S (S (S (3 * i + 1)))) by lia.
    replace (S (S (S (3 * i))) + 2)%nat with (S (S (S (3 * i + 2)))) by lia.
    unfold fp_flat in *. cbn [flat_map fp_row app nth]. exact IH.
Qed.

(* For every grid, list of cells (valid or not), outlet and initial content of the output: the
   translated kernel returns 0, leaves its inputs unchanged and writes three numbers per cell
   of the list (row i = entries 3i, 3i+1, 3i+2).  For a cell x of the list whose downstream
   chain x, mids, outlet reaches the outlet in fewer steps than the list has cells, the row
   holds x, the outlet and THE LENGTH OF THAT CHAIN ([path_len]: each step counts
   [steplen RR], which is 1 for an orthogonal step and sqrt 2 for a diagonal one -
   C06_steplen_cases); the row of the outlet itself holds the length 0. *)
Theorem kernel_flowpath_is_chain_length nrows ncols fd area outlet buf n :
  nrows * ncols <= Z.of_nat (List.length fd) -> 0 <= outlet ->
  List.length buf = (3 * List.length area)%nat -> (Nat.max (List.length area) 12 < n)%nat ->
  exists out,
    run_flowpaths n nrows ncols fd area outlet buf
      = Ok (RI 0, [VArrI FLOWDIRCODE; VArrI fd; VArrI area; VArrF out]) /\
    List.length out = (3 * List.length area)%nat /\
    (forall i x mids, (i < List.length area)%nat -> nth i area 0 = x ->
       x <> outlet -> chain nrows ncols fd (x :: mids ++ [outlet]) ->
       Forall (fun c => c <> outlet) mids ->
       Z.of_nat (List.length mids) + 1 < Z.of_nat (List.length area) ->
       nth (3 * i) out 0%R = IZR x /\ nth (3 * i + 1) out 0%R = IZR outlet /\
       nth (3 * i + 2) out 0%R = path_len ncols (x :: mids ++ [outlet])) /\
    (forall i, (i < List.length area)%nat -> nth i area 0 = outlet ->
       nth (3 * i) out 0%R = IZR outlet /\ nth (3 * i + 2) out 0%R = 0%R).
Proof.
  intros Hfd Hout Hbuf Hn.
  exists (fp_flat RR (flowpaths RR nrows ncols fd outlet area)).
  assert (Hlen : List.length (flowpaths RR nrows ncols fd outlet area) = List.length area)
    by (unfold flowpaths; apply map_length).
  assert (Hnth : forall i, (i < List.length area)%nat ->
            nth i (flowpaths RR nrows ncols fd outlet area) (0, 0, 0%R)
            = flowpath RR nrows ncols fd outlet (Z.of_nat (List.length area)) (nth i area 0)).
  { intros i Hi. unfold flowpaths.
    rewrite (nth_indep _ (0, 0, 0%R)
               (flowpath RR nrows ncols fd outlet (Catchment.zlen area) 0))
      by (rewrite map_length; exact Hi).
    rewrite map_nth. reflexivity. }
  split; [|split; [|split]].
  - unfold run_flowpaths.
    apply (refine_delineate_flowpathlengths_in_catchment RR XRR); try assumption. reflexivity.
  - rewrite fp_flat_len, Hlen. reflexivity.
  - intros i x mids Hi Hx Hne Hchain Hmids Hsteps.
    destruct (fp_flat_nth (flowpaths RR nrows ncols fd outlet area) i ltac:(rewrite Hlen; exact Hi))
      as (E0 & E1 & E2).
    rewrite E0, E1, E2, (Hnth i Hi), Hx.
    rewrite (flowpath_is_chain_length nrows ncols fd outlet _ x mids Hne Hout Hchain Hmids Hsteps).
    cbn [fst snd]. auto.
  - intros i Hi Hx.
    destruct (fp_flat_nth (flowpaths RR nrows ncols fd outlet area) i ltac:(rewrite Hlen; exact Hi))
      as (E0 & _ & E2).
    rewrite E0, E2, (Hnth i Hi), Hx. split.
    + unfold flowpath.
      destruct (walk RR (Z.to_nat (Z.of_nat (List.length area))) nrows ncols fd outlet
                  (Z.of_nat (List.length area)) outlet (-1) (n0 RR) 0) as [[[up down] len] ipath].
      reflexivity.
    + apply flowpath_outlet_zero.
Qed.

(* ================================================================== *)
(* c_delineate_river, over the reals                                    *)
(* ================================================================== *)

Definition run_river (n : nat) nrows ncols (xll yll csz : R) (fd : list Z) (start np0 : Z)
           (cbuf : list Z) (dbuf : list R) :=
  exec_fun RR XRR program (S n) "c_delineate_river"
    [AVI nrows; AVI ncols; AVF xll; AVF yll; AVF csz; AVArrI FLOWDIRCODE; AVArrI fd; AVI start;
     AVI (MiniC.zlen cbuf); AVArrI [np0]; AVArrI cbuf; AVArrF dbuf].

Lemma rv_cell_rcell (rows : list (Z * R * R * R * R * R)) : map rv_cell rows = map rcell rows.
Proof. apply map_ext. intros [[[[[c d] dx] dy] x] y]. reflexivity. Qed.

(* For every grid, valid start cell and buffers for at least one cell (5 numbers per cell in the
   data buffer): the translated kernel returns 0 and writes the number of rows, the cells and
   the data of a trace [rows] such that
   - the cells are THE DOWNSTREAM CHAIN of the start cell (each one is the non-negative
     downstream cell of the previous one), starting at the start cell with distance 0;
   - there are at most as many as the buffer holds, and the trace stops before the buffer is
     full only where the chain leaves the grid or reaches a sink (downstream cell negative);
   - along the trace dx, dy are the column / row differences of consecutive cells and the
     distance advances by sqrt(dx^2 + dy^2) ([river_dists_ok]);
   the rest of both buffers is untouched. *)
Theorem kernel_river_follows_downstream_chain nrows ncols xll yll csz fd start np0 cbuf dbuf n :
  0 < ncols -> 0 <= start < nrows * ncols ->
  nrows * ncols <= Z.of_nat (List.length fd) ->
  (1 <= List.length cbuf)%nat -> List.length dbuf = (5 * List.length cbuf)%nat ->
  (Nat.max (List.length cbuf) 12 < n)%nat ->
  exists rows,
    run_river n nrows ncols xll yll csz fd start np0 cbuf dbuf
      = Ok (RI 0, [VArrI FLOWDIRCODE; VArrI fd; VArrI [Z.of_nat (List.length rows)];
                   VArrI (map rcell rows ++ skipn (List.length rows) cbuf);
                   VArrF (flat_map rv_data rows ++ skipn (5 * List.length rows) dbuf)]) /\
    (1 <= List.length rows <= List.length cbuf)%nat /\
    chain nrows ncols fd (map rcell rows) /\
    (exists row rest, rows = row :: rest /\ rcell row = start /\ rdist row = 0%R) /\
    ((List.length rows < List.length cbuf)%nat ->
       forall d, downstream nrows ncols fd (last (map rcell rows) start) = Some d -> d < 0) /\
    river_dists_ok ncols rows.
Proof.
  intros Hnc Hstart Hfd Hc1 Hd Hn.
  pose proof (refine_delineate_river_RR nrows ncols xll yll csz fd start np0 cbuf dbuf n Hfd Hd Hn)
    as Hrun.
  assert (Hnval : 1 <= MiniC.zlen cbuf) by (rewrite zlen_eq; lia).
  destruct (river RR nrows ncols xll yll csz fd start (MiniC.zlen cbuf)) as [rows|] eqn:Eriver.
  - exists rows.
    destruct (river_starts_at_zero nrows ncols fd xll yll csz start _ rows Hnval Eriver)
      as (row & rest & Hrows & Hcell & Hdist).
    unfold river in Eriver. destruct (valid_cell nrows ncols start); [|discriminate].
    injection Eriver as Eriver.
    assert (Hfuel : Z.to_nat (MiniC.zlen cbuf) = List.length cbuf) by (rewrite zlen_eq; lia).
    rewrite Hfuel in Eriver.
    destruct (river_cells_chain nrows ncols fd Hnc (List.length cbuf) xll yll csz start
                0%R 0%R 0%R Hc1) as (Hchain & Hle & Hstop).
    pose proof (river_distances nrows ncols fd (List.length cbuf) xll yll csz start
                  0%R 0%R 0%R) as Hdists.
    rewrite Eriver in Hchain, Hle, Hstop, Hdists.
    split; [|split; [|split; [|split; [|split]]]].
    + unfold run_river. rewrite <- rv_cell_rcell. exact Hrun.
    + split; [rewrite Hrows; cbn; lia|exact Hle].
    + exact Hchain.
    + exists row, rest. auto.
    + exact Hstop.
    + exact Hdists.
  - exfalso. unfold river in Eriver.
    assert (Hv : valid_cell nrows ncols start = true).
    { unfold valid_cell. destruct (Z.ltb_spec start 0); [lia|].
      destruct (Z.leb_spec (nrows * ncols) start); [lia|]. reflexivity. }
    rewrite Hv in Eriver. discriminate.
Qed.

(* the abbreviations used in the statements above, unfolded *)
Theorem kernel_catchment_defs :
  (forall {T} (N : NumOps T) (X : NumLit T) n nrows ncols fd outlet inlets area0 b10 b20,
     da_call N X n nrows ncols fd outlet inlets area0 b10 b20
     = exec_fun N X program (S n) "c_delineate_area"
         [AVI nrows; AVI ncols; AVArrI FLOWDIRCODE; AVArrI fd; AVI outlet;
          AVI (Z.of_nat (List.length inlets)); AVArrI inlets;
          AVI (Z.of_nat (List.length area0)); AVArrI area0; AVArrI b10; AVArrI b20]) /\
  (forall n nrows ncols fd area outlet buf,
     run_flowpaths n nrows ncols fd area outlet buf
     = exec_fun RR XRR program (S n) "c_delineate_flowpathlengths_in_catchment"
         [AVI nrows; AVI ncols; AVArrI FLOWDIRCODE; AVArrI fd; AVI (MiniC.zlen area); AVArrI area;
          AVI outlet; AVArrF buf]) /\
  (forall n nrows ncols xll yll csz fd start np0 cbuf dbuf,
     run_river n nrows ncols xll yll csz fd start np0 cbuf dbuf
     = exec_fun RR XRR program (S n) "c_delineate_river"
         [AVI nrows; AVI ncols; AVF xll; AVF yll; AVF csz; AVArrI FLOWDIRCODE; AVArrI fd; AVI start;
          AVI (MiniC.zlen cbuf); AVArrI [np0]; AVArrI cbuf; AVArrF dbuf]) /\
  (forall (c : Z) (dist dx dy x y : R),
     rcell (c, dist, dx, dy, x, y) = c /\ rdist (c, dist, dx, dy, x, y) = dist /\
     rv_data (c, dist, dx, dy, x, y) = [dist; dx; dy; x; y]).
Proof. repeat split; reflexivity. Qed.

(* ================================================================== *)
(* non-vacuity                                                          *)
(* ================================================================== *)

(* 2 x 2 grid, cells 0 1 / 2 3, flow directions: 0 -> 3 (code 2), 1 -> 3 (code 4), 2 -> 3
   (code 1), 3 a sink; outlet 3, no inlet, buffers of 6 entries: the translated kernel returns 0
   in binary64 (vm_compute), so the hypotheses of kernel_area_python_convention hold *)
Example kernel_area_example_run :
  exists a b1 b2,
    da_call F64 XF64 40 2 2 [2; 4; 1; 0] 3 [] (repeat (-1) 6) (repeat (-1) 6) (repeat (-1) 6)
    = Ok (RI 0, [VArrI FLOWDIRCODE; VArrI [2; 4; 1; 0]; VArrI []; VArrI a; VArrI b1; VArrI b2]) /\
    filter (fun x => 0 <=? x) a = [0; 1; 2; 3].
Proof. eexists. eexists. eexists. split; vm_compute; reflexivity. Qed.

Example kernel_area_example :
  exists cells,
    (forall x, In x cells <->
       ((exists k, (1 <= k)%nat /\ reach 2 2 [2; 4; 1; 0] [] 3 k x) \/
        (x = 3 /\ exists y, reach 2 2 [2; 4; 1; 0] [] 3 1 y))) /\
    cells = [0; 1; 2; 3].
Proof.
  destruct kernel_area_example_run as (a & b1 & b2 & Hrun & Hcells).
  exists (filter (fun x => 0 <=? x) a). split; [|exact Hcells].
  apply (kernel_area_python_convention F64 XF64 2 2 [2; 4; 1; 0] 3 [] 6 40 a b1 b2);
    [lia|lia|reflexivity|cbn; lia|lia|lia|exact Hrun].
Qed.

(* the 3 x 2 grid of C06_nonvacuous_chain, outlet 4: cell 1 -> 2 -> 4, one diagonal and one
   orthogonal step; the list of cells is [1; 2; 4; 0] *)
Example kernel_flowpath_example :
  exists out,
    run_flowpaths 13 3 2 [4; 8; 4; 4; 4; 0] [1; 2; 4; 0] 4 (repeat 0%R 12)
      = Ok (RI 0, [VArrI FLOWDIRCODE; VArrI [4; 8; 4; 4; 4; 0]; VArrI [1; 2; 4; 0]; VArrF out]) /\
    nth 2 out 0%R = path_len 2 [1; 2; 4] /\ nth 8 out 0%R = 0%R.
Proof.
  destruct (kernel_flowpath_is_chain_length 3 2 [4; 8; 4; 4; 4; 0] [1; 2; 4; 0] 4 (repeat 0%R 12) 13)
    as (out & Hrun & _ & Hchain & Houtlet); [cbn; lia|lia|reflexivity|cbn; lia|].
  exists out. split; [exact Hrun|]. split.
  - apply (Hchain 0%nat 1 [2]); [cbn; lia|reflexivity|lia|exact flowpath_example| |cbn; lia].
    constructor; [lia|constructor].
  - apply (Houtlet 2%nat); [cbn; lia|reflexivity].
Qed.

Example kernel_river_example :
  exists rows,
    run_river 13 3 2 0 0 1 [4; 8; 4; 4; 4; 0] 1 0 [9; 9; 9; 9; 9] (repeat 0%R 25)
      = Ok (RI 0, [VArrI FLOWDIRCODE; VArrI [4; 8; 4; 4; 4; 0]; VArrI [Z.of_nat (List.length rows)];
                   VArrI (map rcell rows ++ skipn (List.length rows) [9; 9; 9; 9; 9]);
                   VArrF (flat_map rv_data rows ++ skipn (5 * List.length rows) (repeat 0%R 25))]) /\
    chain 3 2 [4; 8; 4; 4; 4; 0] (map rcell rows).
Proof.
  destruct (kernel_river_follows_downstream_chain 3 2 0 0 1 [4; 8; 4; 4; 4; 0] 1 0
              [9; 9; 9; 9; 9] (repeat 0%R 25) 13)
    as (rows & Hrun & _ & Hchain & _); [lia|lia|cbn; lia|cbn; lia|reflexivity|cbn; lia|].
  exists rows. split; assumption.
Qed.

(* the same two runs in binary64 (vm_compute of the interpreter on the translated kernels):
   lengths sqrt 2 + 1 for cell 1, 1 for cell 2, 0 for the outlet; the river from cell 1 visits
   1, 2, 4 and stops where the chain leaves the grid (3 rows written, the rest untouched) *)
Example kernel_catchment_examples_F64 :
  (exists out,
     exec_fun F64 XF64 program 14 "c_delineate_flowpathlengths_in_catchment"
       [AVI 3; AVI 2; AVArrI FLOWDIRCODE; AVArrI [4; 8; 4; 4; 4; 0]; AVI 4; AVArrI [1; 2; 4; 0];
        AVI 4; AVArrF (repeat 0%float 12)]
     = Ok (RI 0, [VArrI FLOWDIRCODE; VArrI [4; 8; 4; 4; 4; 0]; VArrI [1; 2; 4; 0]; VArrF out]) /\
     nth 2 out 0%float = (sqrt 2 + 1)%float /\ nth 5 out 0%float = 1%float /\
     nth 8 out 0%float = 0%float) /\
  (exists cells data,
     exec_fun F64 XF64 program 14 "c_delineate_river"
       [AVI 3; AVI 2; AVF 0%float; AVF 0%float; AVF 1%float; AVArrI FLOWDIRCODE;
        AVArrI [4; 8; 4; 4; 4; 0]; AVI 1; AVI 5; AVArrI [0]; AVArrI [9; 9; 9; 9; 9];
        AVArrF (repeat 0%float 25)]
     = Ok (RI 0, [VArrI FLOWDIRCODE; VArrI [4; 8; 4; 4; 4; 0]; VArrI [3]; VArrI cells; VArrF data]) /\
     cells = [1; 2; 4; 9; 9]).
Proof.
  split.
  - eexists. split; [vm_compute; reflexivity|]. repeat split; vm_compute; reflexivity.
  - eexists. eexists. split; vm_compute; reflexivity.
Qed.
