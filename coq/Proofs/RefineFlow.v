(* Refinement: the MiniC translations (Gen/KernelsAst.v, regenerated from
   src/hydrodiy/gis/c_grid.c) of c_downstream and c_upstream compute, for ALL inputs
   admitted by the Cython wrapper (any grid shape, any number of cells, any content of
   the flow-direction grid, of the code table and of the cell list - valid or not),
   what the model of Model/Grid.v computes (downstream_with, upstream_hits_with / pad9),
   error returns included.  Generic over the arithmetic (N, X): the kernels are pure
   integer code.

   Main statements (end of the file), for an arbitrary 9-entry code table:
     refine_downstream, refine_downstream_error, refine_downstream_total
     refine_upstream,   refine_upstream_error,   refine_upstream_total
   and for the table of the library (FLOWDIRCODE; model functions downstream / upstream):
     refine_downstream_std, refine_downstream_error_std,
     refine_upstream_std,   refine_upstream_error_std
   No interpreter error (OOB, DivZero, ...) is reachable under the wrapper's guarantees:
   the theorems are also memory-safety theorems for the two kernels. *)
From Coq Require Import ZArith Bool List String Lia.
From Hy Require Import Base.Num Base.MiniC Gen.Consts Gen.KernelsAst Model.Grid Proofs.RefineGrid.
Import ListNotations.
Open Scope string_scope.
Open Scope list_scope.
Open Scope Z_scope.

(* ================================================================== *)
(* GENERIC BLOCK (nothing specific to the flow kernels): candidates for *)
(* Base/MiniC.v                                                         *)
(* ================================================================== *)

(* [merge_if] of Base/MiniC.v builds an ill-typed term when the two branches differ
   by heads of different types (e.g. [-1] = [Z.neg 1] against [a + b]): this variant
   falls back to [if b then A else B] at the smallest well-typed level. *)
Ltac merge2 b A B :=
  lazymatch A with
  | B => A
  | ?f ?x =>
      lazymatch B with
      | ?g ?y =>
          match constr:(Set) with
          | _ => let fg := merge2 b f g in
                 let xy := merge2 b x y in
                 constr:(fg xy)
          | _ => constr:(if b then A else B)
          end
      | _ => constr:(if b then A else B)
      end
  | _ => constr:(if b then A else B)
  end.
Ltac merge_if2 :=
  match goal with
  | |- context[if ?b then Ok ?A else Ok ?B] =>
      let t := merge2 b A B in
      replace (if b then Ok A else Ok B) with (Ok t) by (destruct b; reflexivity)
  end.

Ltac mstep := cbn; rewrite ?truth_b2z, ?b2z_truth_b2z, ?or_ok, ?and_ok; try merge_if2; norm_state.

(* a loop with a constant number of iterations, under symbolic fuel [f]: run it with
   the literal fuel [k] (tactic [tac] must solve [loop k c b s = Ok ?r], typically by
   repeated [mstep] then [reflexivity]) and transport the result with [loop_mono] *)
Ltac run_loop k tac :=
  match goal with
  | |- context[loop ?f ?c ?b ?s] =>
      let H := fresh "HRL" in
      eassert (H : loop k c b s = Ok _);
      [ tac | rewrite (loop_mono c b k s _ H f) by lia; clear H ]
  end.

Lemma skipn_cons_ex {A} (n : nat) (l : list A) : (n < List.length l)%nat ->
  exists x tl, skipn n l = x :: tl /\ skipn (S n) l = tl.
Proof.
  revert l; induction n as [|n IH]; intros [|y l] H; cbn in H; try lia.
  - exists y, l. split; reflexivity.
  - destruct (IH l) as (x & tl & E1 & E2); [lia|]. exists x, tl. split; assumption.
Qed.

Lemma skipn_skipn_add {A} (a b : nat) (l : list A) : skipn a (skipn b l) = skipn (b + a) l.
Proof.
  revert l; induction b as [|b IH]; intros l; [reflexivity|].
  destruct l as [|x l]; [destruct a; reflexivity|]. cbn [skipn Nat.add]. apply IH.
Qed.

Lemma repeat_snoc {A} (a : A) n : repeat a (S n) = repeat a n ++ [a].
Proof. induction n as [|n IH]; [reflexivity|]. cbn [repeat app] in *. rewrite <- IH. reflexivity. Qed.

Lemma flat_map_le1 {A B} (f : A -> list B) l :
  (forall x, List.length (f x) <= 1)%nat -> (List.length (flat_map f l) <= List.length l)%nat.
Proof.
  intros H. induction l as [|x l IH]; [cbn; lia|]. cbn [flat_map]. rewrite app_length.
  specialize (H x). cbn [List.length]. lia.
Qed.

(* normalise only the state the (first) loop of the goal starts from *)
Ltac norm_loop_state :=
  match goal with
  | |- context[loop ?f ?c ?b ?s] =>
      let s' := eval cbv [set_i set_f set_ai set_af aupd s_i s_f s_ai s_af
                          String.eqb Ascii.eqb Bool.eqb] in s in
      change s with s'
  end.

(* the split of a list at its first element violating P is unique *)
Lemma first_bad_unique (P : Z -> Prop) d1 b1 r1 d2 b2 r2 :
  d1 ++ b1 :: r1 = d2 ++ b2 :: r2 ->
  Forall P d1 -> ~ P b1 -> Forall P d2 -> ~ P b2 ->
  d1 = d2 /\ b1 = b2 /\ r1 = r2.
Proof.
  revert d2. induction d1 as [|x d1 IH]; intros d2 E F1 B1 F2 B2.
  - destruct d2 as [|y d2]; cbn in E.
    + injection E as -> ->. auto.
    + injection E as -> _. inversion F2; subst. contradiction.
  - destruct d2 as [|y d2]; cbn in E.
    + injection E as -> _. inversion F1; subst. contradiction.
    + injection E as -> E. inversion F1; subst. inversion F2; subst.
      destruct (IH d2 E) as (-> & -> & ->); auto.
Qed.


(* ================================================================== *)
(* model side                                                           *)
(* ================================================================== *)

Lemma firstn_slots_S (j : nat) : (j < 9)%nat ->
  firstn (S j) slots = firstn j slots ++ [Z.of_nat j].
Proof.
  intros H. do 9 (destruct j as [|j]; [reflexivity|]). lia.
Qed.

(* Model/Grid.v defines [upstream] for the table FLOWDIRCODE only; the same function
   for an arbitrary table (the kernel receives the table as an argument) *)
Definition upstream_with (codes : list Z) (nrows ncols : Z) (fd : list Z) (idx : Z)
  : option (list Z) :=
  if valid_cell nrows ncols idx then Some (pad9 (upstream_hits_with codes nrows ncols fd idx))
  else None.

Lemma upstream_with_std : upstream_with FLOWDIRCODE = upstream.
Proof. reflexivity. Qed.

Lemma downstream_with_std : downstream_with FLOWDIRCODE = downstream.
Proof. reflexivity. Qed.

Section Refine.
Context {T : Type} (N : NumOps T) (X : NumLit T).

(* ================================================================== *)
(* the callee c_neighbours on a valid cell (its error path and the     *)
(* statement for an arbitrary cell belong to the refinement of          *)
(* c_neighbours itself; c_downstream / c_upstream only call it after    *)
(* their own validity test)                                             *)
(* ================================================================== *)


Lemma neighbours_run n nrows ncols idx a0 a1 a2 a3 a4 a5 a6 a7 a8 :
  valid_cell nrows ncols idx = true ->
  (4 <= n)%nat ->
  exec_fun N X program (S n) "c_neighbours"
    [AVI nrows; AVI ncols; AVI idx; AVArrI [a0;a1;a2;a3;a4;a5;a6;a7;a8]]
  = Ok (RI 0, [VArrI (neighbours_raw nrows ncols idx)]).
Proof.
  intros Hv Hn. 
  unfold valid_cell in Hv. apply negb_true_iff in Hv.
  assert (Hnc : ncols <> 0).
  { apply orb_false_iff in Hv. destruct Hv as [H1 H2]. apply Z.ltb_ge in H1. apply Z.leb_gt in H2. nia. }
  cbn. rewrite ?truth_b2z, ?b2z_truth_b2z, ?or_ok, ?truth_b2z. rewrite Hv. cbn.
  destruct n as [|n]; [lia|].
  rewrite getnxy_run by assumption. 
  remember (S n) as m eqn:Hm.
  cbn. norm_state.
  run_loop 4%nat ltac:(idtac).
  { cbn.
    do 3 (run_loop 4%nat ltac:(repeat (progress mstep); reflexivity); repeat (progress mstep)).
    reflexivity. }
  cbn. reflexivity.
Qed.

Lemma neighbours_run_list n nrows ncols idx (nb : list Z) :
  List.length nb = 9%nat ->
  valid_cell nrows ncols idx = true ->
  (4 <= n)%nat ->
  exec_fun N X program (S n) "c_neighbours" [AVI nrows; AVI ncols; AVI idx; AVArrI nb]
  = Ok (RI 0, [VArrI (neighbours_raw nrows ncols idx)]).
Proof.
  intros HL. do 9 (destruct nb as [|? nb]; [discriminate HL|]).
  destruct nb; [|discriminate HL]. apply neighbours_run.
Qed.


(* ================================================================== *)
Section Flow.
Variables (nrows ncols : Z) (codes fdl : list Z).
Notation valid c := (valid_cell nrows ncols c = true).

(* every entry of the neighbour table is -1 or a valid index of the flow-direction grid *)
Definition nb_ok (v : Z) : Prop := v = -1 \/ 0 <= v < Z.of_nat (List.length fdl).

Lemma neighbour_at_ok nx0 ny0 o :
  Z.of_nat (List.length fdl) = nrows * ncols -> nb_ok (neighbour_at nrows ncols nx0 ny0 o).
Proof.
  intros Hfd. destruct o as [ix iy]. unfold neighbour_at, nb_ok.
  destruct ((ix =? 0) && (iy =? 0)); [left; reflexivity|].
  destruct ((nx0 + ix <? 0) || (ncols - 1 <? nx0 + ix) || (ny0 + iy <? 0) || (nrows - 1 <? ny0 + iy)) eqn:E;
    [left; reflexivity|].
  right. rewrite !orb_false_iff in E. destruct E as [[[E1 E2] E3] E4].
  apply Z.ltb_ge in E1, E2, E3, E4. rewrite Hfd. nia.
Qed.

Lemma neighbours_raw_ok c :
  Z.of_nat (List.length fdl) = nrows * ncols -> Forall nb_ok (neighbours_raw nrows ncols c).
Proof.
  intros Hfd. unfold neighbours_raw. apply Forall_forall. intros v Hin.
  apply in_map_iff in Hin. destruct Hin as (o & <- & _). apply neighbour_at_ok. assumption.
Qed.

Lemma neighbours_raw_length c : List.length (neighbours_raw nrows ncols c) = 9%nat.
Proof. unfold neighbours_raw. rewrite map_length. reflexivity. Qed.

Lemma neighbours_run_ge n idx (nb : list Z) :
  List.length nb = 9%nat -> valid idx -> (5 <= n)%nat ->
  exec_fun N X program n "c_neighbours" [AVI nrows; AVI ncols; AVI idx; AVArrI nb]
  = Ok (RI 0, [VArrI (neighbours_raw nrows ncols idx)]).
Proof.
  intros HL Hv Hn. destruct n as [|n]; [lia|]. apply neighbours_run_list; try assumption. lia.
Qed.


(* ---------------- c_downstream ---------------- *)
Definition dn_F (f : Z) (ng : list Z) (acc j : Z) : Z :=
  if f =? zn codes j 0 then zn ng j (-1) else acc.

Lemma dn_F_eq f ng acc j :
  dn_F f ng acc j = if f =? zn codes j 0 then zn ng j (-1) else acc.
Proof. reflexivity. Qed.

Definition dn_state (idx : list Z) (k : nat) (j fdv icell : Z) (out ng : list Z) : state T :=
  {| s_i := [("nrows", nrows); ("ncols", ncols); ("nval", zlen idx); ("i", Z.of_nat k);
             ("j", j); ("fd", fdv); ("idxcell", icell)];
     s_f := [];
     s_ai := [("flowdircode", codes); ("flowdir", fdl); ("idxup", idx); ("idxdown", out);
              ("neighbours", ng)];
     s_af := [] |}.

Definition dn_in_inv idx k fdv icell dout x jrest ng (jj : nat) (st : state T) : Prop :=
  (jj <= 9)%nat /\ st = dn_state idx k (Z.of_nat jj) fdv icell
         (dout ++ fold_left (dn_F fdv ng) (firstn jj slots) x :: jrest) ng.

Lemma dn_inner (cf : callee T) m idx k fdv icell dout x jrest ng :
  List.length codes = 9%nat -> List.length ng = 9%nat -> List.length dout = k -> (9 < m)%nat ->
  loop m (cond_of N X (ICmp CLt (IVar "j") (IConst 9)))
    (for_body
       (exec N X cf m
          (SIf (ICmp CEq (IVar "fd") (IArr "flowdircode" (IVar "j")))
             (SSeq (SStoreI "idxdown" (IVar "i") (IArr "neighbours" (IVar "j"))) SContinue)
             SSkip))
       (exec N X cf m (SSetI "j" (IBin IAdd (IVar "j") (IConst 1)))))
    (dn_state idx k 0 fdv icell (dout ++ x :: jrest) ng)
  = Ok (ONormal, dn_state idx k 9 fdv icell (dout ++ fold_left (dn_F fdv ng) slots x :: jrest) ng).
Proof.
  intros Hc Hg Hd Hm.
  apply (loop_rule_eq (dn_in_inv idx k fdv icell dout x jrest ng) _ 9%nat); [|split; [lia|reflexivity]|lia].
  intros jj st [Hj9 ->]. split; [lia|].
  assert (jj = 9%nat \/ (jj < 9)%nat) as [->|Hj] by lia.
  - unfold dn_state. cbn. reflexivity.
  - unfold dn_state. cbn.
    replace (Z.of_nat jj <? 9) with true by (symmetry; apply Z.ltb_lt; lia).
    cbn. rewrite (zget_ok codes _ 0) by lia. cbn.
    rewrite ?truth_b2z.
    fold (zn codes (Z.of_nat jj) 0).
    destruct (fdv =? zn codes (Z.of_nat jj) 0) eqn:E.
    + cbn. rewrite (zget_ok ng _ (-1)) by lia. cbn.
      rewrite (zset_app dout jrest) by lia. cbn.
      unfold dn_in_inv, dn_state. norm_state. split; [lia|].
      rewrite firstn_slots_S by assumption. rewrite fold_left_app. cbn [fold_left].
      rewrite dn_F_eq, E. fold (zn ng (Z.of_nat jj) (-1)).
      replace (Z.of_nat jj + 1) with (Z.of_nat (S jj)) by lia. reflexivity.
    + cbn. unfold dn_in_inv, dn_state. norm_state. split; [lia|].
      rewrite firstn_slots_S by assumption. rewrite fold_left_app. cbn [fold_left].
      rewrite dn_F_eq, E.
      replace (Z.of_nat jj + 1) with (Z.of_nat (S jj)) by lia. reflexivity.
Qed.

Definition dn_get (c : Z) : Z :=
  match downstream_with codes nrows ncols fdl c with Some v => v | None => -1 end.

Lemma dn_get_valid c : valid c ->
  dn_get c = if zn fdl c 0 =? 0 then -2
             else fold_left (dn_F (zn fdl c 0) (neighbours_raw nrows ncols c)) slots (-1).
Proof.
  intros H. unfold dn_get, downstream_with. rewrite H.
  destruct (zn fdl c 0 =? 0); reflexivity.
Qed.

Definition dn_inv (idx junk : list Z) (k : nat) (st : state T) : Prop :=
  exists done todo jdone jtodo j fdv icell ng,
    idx = done ++ todo /\ junk = jdone ++ jtodo /\
    List.length done = k /\ List.length jdone = k /\
    Forall (fun c => valid c) done /\ List.length ng = 9%nat /\
    st = dn_state idx k j fdv icell (map dn_get done ++ jtodo) ng.

Definition dn_post (idx junk : list Z) (r : outcome T * state T) : Prop :=
  (Forall (fun c => valid c) idx /\
   exists j fdv icell ng,
     r = (ONormal, dn_state idx (List.length idx) j fdv icell (map dn_get idx) ng))
  \/
  (exists done bad rest jdone jtodo j fdv ng code,
     idx = done ++ bad :: rest /\ junk = jdone ++ jtodo /\
     List.length jdone = List.length done /\
     Forall (fun c => valid c) done /\ valid_cell nrows ncols bad = false /\ 0 < code /\
     r = (ORet (RI code), dn_state idx (List.length done) j fdv bad (map dn_get done ++ jtodo) ng)).

Lemma dn_main idx junk n :
  List.length codes = 9%nat ->
  Z.of_nat (List.length fdl) = nrows * ncols ->
  List.length junk = List.length idx ->
  (List.length idx < n)%nat -> (9 < n)%nat ->
  exists r,
    loop n (cond_of N X (ICmp CLt (IVar "i") (IVar "nval")))
      (for_body
         (exec N X (exec_fun N X program n) n
            (SSeq (SSetI "idxcell" (IArr "idxup" (IVar "i")))
               (SSeq
                  (SIf
                     (IOr (ICmp CLt (IVar "idxcell") (IConst 0))
                        (ICmp CGe (IVar "idxcell") (IBin IMul (IVar "nrows") (IVar "ncols"))))
                     (SRetI (IBin IAdd (IConst 50000) (IConst 1))) SSkip)
                  (SSeq
                     (SCall DNone "c_neighbours"
                        [AI (IVar "nrows"); AI (IVar "ncols"); AI (IVar "idxcell");
                         AArrI "neighbours" (IConst 0)])
                     (SSeq (SSetI "fd" (IArr "flowdir" (IVar "idxcell")))
                        (SSeq (SStoreI "idxdown" (IVar "i") (IUn INeg (IConst 1)))
                           (SSeq
                              (SIf (ICmp CEq (IVar "fd") (IConst 0))
                                 (SSeq (SStoreI "idxdown" (IVar "i") (IUn INeg (IConst 2)))
                                    SContinue) SSkip)
                              (SSeq (SSetI "j" (IConst 0))
                                 (SFor (ICmp CLt (IVar "j") (IConst 9))
                                    (SSetI "j" (IBin IAdd (IVar "j") (IConst 1)))
                                    (SIf (ICmp CEq (IVar "fd") (IArr "flowdircode" (IVar "j")))
                                       (SSeq
                                          (SStoreI "idxdown" (IVar "i")
                                             (IArr "neighbours" (IVar "j"))) SContinue)
                                       SSkip))))))))))
         (exec N X (exec_fun N X program n) n (SSetI "i" (IBin IAdd (IVar "i") (IConst 1)))))
      (dn_state idx 0 0 0 0 junk [0; 0; 0; 0; 0; 0; 0; 0; 0]) = Ok r /\ dn_post idx junk r.
Proof.
  intros Hc Hfd HJ Hn Hn9.
  apply (loop_rule (dn_inv idx junk) (dn_post idx junk) (List.length idx)) with (k := O); [| |lia].
  2:{ exists [], idx, [], junk, 0, 0, 0, [0; 0; 0; 0; 0; 0; 0; 0; 0]. repeat split; auto. }
  intros k st (done & todo & jdone & jtodo & j & fdv & icell & ng & Hidx & Hjunk & Hk & Hjk & Hval & Hng & ->).
  assert (Hlen : List.length idx = (k + List.length todo)%nat) by (rewrite Hidx, app_length; lia).
  assert (Hlenj : List.length jtodo = List.length todo).
  { rewrite Hjunk, Hidx, !app_length in HJ. lia. }
  split; [lia|].
  unfold dn_state. cbn. rewrite zlen_eq.
  destruct todo as [|c todo].
  - replace (Z.of_nat k <? Z.of_nat (List.length idx)) with false
      by (symmetry; apply Z.ltb_ge; cbn in Hlen; lia).
    cbn. left. destruct jtodo; [|discriminate]. rewrite app_nil_r in *. subst done.
    split; [assumption|]. exists j, fdv, icell, ng. unfold dn_state. rewrite zlen_eq, Hk. reflexivity.
  - replace (Z.of_nat k <? Z.of_nat (List.length idx)) with true
      by (symmetry; apply Z.ltb_lt; cbn in Hlen; lia).
    destruct jtodo as [|j0 jtodo]; [discriminate|].
    subst idx. cbn. rewrite (zget_app done todo c) by lia. cbn.
    rewrite ?truth_b2z, ?b2z_truth_b2z, ?or_ok, ?truth_b2z.
    destruct (valid_cell nrows ncols c) eqn:Hv.
    + assert (Hv' := Hv). unfold valid_cell in Hv'. apply negb_true_iff in Hv'. rewrite Hv'.
      cbn. rewrite zlen_eq, Hng. change (Z.of_nat 9 <? 0) with false. cbn.
      rewrite neighbours_run_ge by (assumption || lia).
      assert (Hngc := neighbours_raw_length c).
      remember (neighbours_raw nrows ncols c) as ngc eqn:Engc.
      cbn.
      assert (Hcr : 0 <= c < Z.of_nat (List.length fdl)).
      { apply orb_false_iff in Hv'. destruct Hv' as [H1 H2].
        apply Z.ltb_ge in H1. apply Z.leb_gt in H2. lia. }
      rewrite (zget_ok fdl c 0) by exact Hcr. fold (zn fdl c 0). cbn.
      rewrite (zset_app (map dn_get done) jtodo) by (rewrite map_length; lia). cbn.
      rewrite ?truth_b2z.
      destruct (zn fdl c 0 =? 0) eqn:Ef.
      * rewrite (zset_app (map dn_get done) jtodo) by (rewrite map_length; lia). cbn.
        exists (done ++ [c]), todo, (jdone ++ [j0]), jtodo, j, (zn fdl c 0), c, ngc.
        split; [rewrite <- app_assoc; reflexivity|].
        split; [rewrite <- app_assoc; assumption|].
        split; [rewrite app_length; cbn; lia|].
        split; [rewrite app_length; cbn; lia|].
        split; [apply Forall_app; split; [assumption|constructor; [assumption|constructor]]|].
        split; [assumption|].
        norm_state. unfold dn_state. rewrite zlen_eq.
        rewrite map_app. cbn [map]. rewrite dn_get_valid, Ef by assumption.
        rewrite <- !app_assoc. cbn [app].
        replace (Z.of_nat k + 1) with (Z.of_nat (S k)) by lia. reflexivity.
      * norm_state. rewrite <- (zlen_eq (done ++ c :: todo)).
        fold (dn_state (done ++ c :: todo) k 0 (zn fdl c 0) c (map dn_get done ++ -1 :: jtodo) ngc).
        rewrite dn_inner by (assumption || (rewrite map_length; assumption)).
        cbn.
        exists (done ++ [c]), todo, (jdone ++ [j0]), jtodo, 9, (zn fdl c 0), c, ngc.
        split; [rewrite <- app_assoc; reflexivity|].
        split; [rewrite <- app_assoc; assumption|].
        split; [rewrite app_length; cbn; lia|].
        split; [rewrite app_length; cbn; lia|].
        split; [apply Forall_app; split; [assumption|constructor; [assumption|constructor]]|].
        split; [assumption|].
        norm_state. unfold dn_state.
        rewrite map_app. cbn [map]. rewrite dn_get_valid, Ef by assumption.
        rewrite <- !app_assoc. cbn [app]. subst ngc.
        replace (Z.of_nat k + 1) with (Z.of_nat (S k)) by lia. reflexivity.
    + assert (Hv' := Hv). unfold valid_cell in Hv'. apply negb_false_iff in Hv'. rewrite Hv'.
      cbn. right.
      exists done, c, todo, jdone, (j0 :: jtodo), j, fdv, ng, 50001.
      repeat (split; [first [reflexivity | assumption | lia]|]).
      unfold dn_state. rewrite zlen_eq, Hk. reflexivity.
Qed.

Lemma dn_run idx junk n :
  List.length codes = 9%nat ->
  Z.of_nat (List.length fdl) = nrows * ncols ->
  List.length junk = List.length idx ->
  (List.length idx < n)%nat -> (9 < n)%nat ->
  (Forall (fun c => valid c) idx /\
   exec_fun N X program (S n) "c_downstream"
     [AVI nrows; AVI ncols; AVArrI codes; AVArrI fdl; AVI (zlen idx); AVArrI idx; AVArrI junk]
   = Ok (RI 0, [VArrI codes; VArrI fdl; VArrI idx; VArrI (map dn_get idx)]))
  \/
  (exists done bad rest code,
     idx = done ++ bad :: rest /\ Forall (fun c => valid c) done /\
     valid_cell nrows ncols bad = false /\ 0 < code /\
     exec_fun N X program (S n) "c_downstream"
       [AVI nrows; AVI ncols; AVArrI codes; AVArrI fdl; AVI (zlen idx); AVArrI idx; AVArrI junk]
     = Ok (RI code, [VArrI codes; VArrI fdl; VArrI idx;
                     VArrI (map dn_get done ++ skipn (List.length done) junk)])).
Proof.
  intros Hc Hfd HJ Hn Hn9.
  destruct (dn_main idx junk n Hc Hfd HJ Hn Hn9) as (r & Hr & HP).
  unfold dn_state in Hr. change (Z.of_nat 0) with 0 in Hr.
  cbn. norm_state. rewrite Hr. clear Hr.
  destruct HP as [(Hall & j & fdv & icell & ng & ->) |
                  (done & bad & rest & jdone & jtodo & j & fdv & ng & code & Hidx & Hjunk & Hjl & Hd & Hb & Hcode & ->)].
  - left. split; [assumption|]. cbn. reflexivity.
  - right. exists done, bad, rest, code. repeat (split; [assumption|]).
    cbn. subst junk. rewrite <- Hjl, skipn_app, skipn_all, Nat.sub_diag. reflexivity.
Qed.


(* ---------------- c_upstream ---------------- *)
Definition up_G (ng : list Z) (j : Z) : list Z :=
  let nb := zn ng j (-1) in
  if nb =? -1 then []
  else let f := zn fdl nb 0 in
       if f =? 0 then [] else if f =? zn codes (8 - j) 0 then [nb] else [].

Lemma up_G_eq ng j :
  up_G ng j = if zn ng j (-1) =? -1 then []
              else if zn fdl (zn ng j (-1)) 0 =? 0 then []
              else if zn fdl (zn ng j (-1)) 0 =? zn codes (8 - j) 0 then [zn ng j (-1)] else [].
Proof. reflexivity. Qed.

Lemma up_G_le1 ng j : (List.length (up_G ng j) <= 1)%nat.
Proof.
  rewrite up_G_eq. destruct (_ =? -1); [cbn; lia|]. destruct (_ =? 0); [cbn; lia|].
  destruct (_ =? _); cbn; lia.
Qed.

Lemma hits_eq c :
  upstream_hits_with codes nrows ncols fdl c = flat_map (up_G (neighbours_raw nrows ncols c)) slots.
Proof. reflexivity. Qed.

Definition up_state (idx : list Z) (kk : nat) (j kv fdv icell inb : Z) (out ng : list Z) : state T :=
  {| s_i := [("nrows", nrows); ("ncols", ncols); ("nval", zlen idx); ("i", Z.of_nat kk);
             ("j", j); ("k", kv); ("fd", fdv); ("idxcell", icell); ("idxneighb", inb)];
     s_f := [];
     s_ai := [("flowdircode", codes); ("flowdir", fdl); ("idxdown", idx); ("idxup", out);
              ("neighbours", ng)];
     s_af := [] |}.

Definition up1_inv idx kk icell dout tail ng (jj : nat) (st : state T) : Prop :=
  (jj <= 9)%nat /\
  exists fdv inb,
    st = up_state idx kk (Z.of_nat jj)
           (Z.of_nat (List.length (flat_map (up_G ng) (firstn jj slots)))) fdv icell inb
           (dout ++ flat_map (up_G ng) (firstn jj slots)
                 ++ skipn (List.length (flat_map (up_G ng) (firstn jj slots))) tail) ng.

Definition up1_post idx kk icell dout tail ng (r : outcome T * state T) : Prop :=
  exists fdv inb,
    r = (ONormal,
         up_state idx kk 9 (Z.of_nat (List.length (flat_map (up_G ng) slots))) fdv icell inb
           (dout ++ flat_map (up_G ng) slots
                 ++ skipn (List.length (flat_map (up_G ng) slots)) tail) ng).

Lemma up_inner1 (cf : callee T) m idx kk fdv icell inb dout tail ng :
  List.length codes = 9%nat -> List.length ng = 9%nat -> Forall nb_ok ng ->
  List.length dout = (9 * kk)%nat -> (9 <= List.length tail)%nat -> (9 < m)%nat ->
  exists r,
  loop m (cond_of N X (ICmp CLt (IVar "j") (IConst 9)))
    (for_body
       (exec N X cf m
          (SSeq (SSetI "idxneighb" (IArr "neighbours" (IVar "j")))
             (SSeq (SIf (ICmp CEq (IVar "idxneighb") (IUn INeg (IConst 1))) SContinue SSkip)
                (SSeq (SSetI "fd" (IArr "flowdir" (IVar "idxneighb")))
                   (SSeq (SIf (ICmp CEq (IVar "fd") (IConst 0)) SContinue SSkip)
                      (SIf (ICmp CEq (IVar "fd")
                              (IArr "flowdircode" (IBin ISub (IConst 8) (IVar "j"))))
                         (SSeq
                            (SStoreI "idxup"
                               (IBin IAdd (IBin IMul (IConst 9) (IVar "i")) (IVar "k"))
                               (IVar "idxneighb"))
                            (SSetI "k" (IBin IAdd (IVar "k") (IConst 1)))) SSkip))))))
       (exec N X cf m (SSetI "j" (IBin IAdd (IVar "j") (IConst 1)))))
    (up_state idx kk 0 0 fdv icell inb (dout ++ tail) ng) = Ok r /\
  up1_post idx kk icell dout tail ng r.
Proof.
  intros Hc Hg Hok Hd Ht Hm.
  apply (loop_rule (up1_inv idx kk icell dout tail ng) (up1_post idx kk icell dout tail ng) 9%nat)
    with (k := O); [| |lia].
  2:{ split; [lia|]. exists fdv, inb. reflexivity. }
  intros jj st [Hj9 (fdv' & inb' & ->)]. split; [lia|].
  assert (jj = 9%nat \/ (jj < 9)%nat) as [->|Hj] by lia.
  - unfold up_state. cbn. exists fdv', inb'. reflexivity.
  - set (H := flat_map (up_G ng) (firstn jj slots)).
    assert (HH : (List.length H <= jj)%nat).
    { unfold H. etransitivity; [apply flat_map_le1; apply up_G_le1|]. rewrite firstn_length. lia. }
    unfold up_state. cbn.
    replace (Z.of_nat jj <? 9) with true by (symmetry; apply Z.ltb_lt; lia).
    cbn. rewrite (zget_ok ng _ (-1)) by lia. fold (zn ng (Z.of_nat jj) (-1)). cbn.
    rewrite ?truth_b2z.
    assert (Hnew : flat_map (up_G ng) (firstn (S jj) slots) = H ++ up_G ng (Z.of_nat jj)).
    { rewrite firstn_slots_S by assumption. rewrite flat_map_app. cbn [flat_map].
      rewrite app_nil_r. reflexivity. }
    rewrite up_G_eq in Hnew.
    assert (Hnb : nb_ok (zn ng (Z.of_nat jj) (-1))).
    { rewrite Forall_forall in Hok. apply Hok. unfold zn. apply nth_In. lia. }
    destruct (zn ng (Z.of_nat jj) (-1) =? -1) eqn:E1.
    + cbn. split; [lia|]. exists fdv', (zn ng (Z.of_nat jj) (-1)).
      rewrite Hnew, app_nil_r. fold H. unfold up_state. norm_state.
      replace (Z.of_nat jj + 1) with (Z.of_nat (S jj)) by lia. reflexivity.
    + cbn. apply Z.eqb_neq in E1. destruct Hnb as [Hnb|Hnb]; [contradiction|].
      rewrite (zget_ok fdl _ 0) by exact Hnb. fold (zn fdl (zn ng (Z.of_nat jj) (-1)) 0). cbn.
      rewrite ?truth_b2z.
      destruct (zn fdl (zn ng (Z.of_nat jj) (-1)) 0 =? 0) eqn:E2.
      * cbn. split; [lia|]. exists (zn fdl (zn ng (Z.of_nat jj) (-1)) 0), (zn ng (Z.of_nat jj) (-1)).
        rewrite Hnew, app_nil_r. fold H. unfold up_state. norm_state.
        replace (Z.of_nat jj + 1) with (Z.of_nat (S jj)) by lia. reflexivity.
      * cbn. rewrite (zget_ok codes _ 0) by lia. fold (zn codes (8 - Z.of_nat jj) 0). cbn.
        rewrite ?truth_b2z.
        destruct (zn fdl (zn ng (Z.of_nat jj) (-1)) 0 =? zn codes (8 - Z.of_nat jj) 0) eqn:E3.
        -- cbn.
           destruct (skipn_cons_ex (List.length H) tail) as (x & tl & Hs1 & Hs2); [lia|].
           fold H. rewrite Hs1. rewrite app_assoc.
           rewrite (zset_app (dout ++ H) tl x) by (rewrite app_length; lia).
           cbn. split; [lia|].
           exists (zn fdl (zn ng (Z.of_nat jj) (-1)) 0), (zn ng (Z.of_nat jj) (-1)).
           rewrite Hnew. unfold up_state. norm_state.
           rewrite app_length. cbn [List.length]. rewrite Nat.add_1_r, Hs2.
           rewrite <- !app_assoc. cbn [app].
           replace (Z.of_nat jj + 1) with (Z.of_nat (S jj)) by lia.
           replace (Z.of_nat (List.length H) + 1) with (Z.of_nat (S (List.length H))) by lia.
           reflexivity.
        -- cbn. split; [lia|].
           exists (zn fdl (zn ng (Z.of_nat jj) (-1)) 0), (zn ng (Z.of_nat jj) (-1)).
           rewrite Hnew, app_nil_r. fold H. unfold up_state. norm_state.
           replace (Z.of_nat jj + 1) with (Z.of_nat (S jj)) by lia. reflexivity.
Qed.



Definition up2_inv idx kk (j0 d : nat) kv fdv icell inb pre tail2 ng (t : nat) (st : state T) : Prop :=
  (t <= d)%nat /\
  st = up_state idx kk (Z.of_nat (j0 + t)) kv fdv icell inb
         (pre ++ repeat (-1) t ++ skipn t tail2) ng.

Lemma up_inner2 (cf : callee T) m idx kk (j0 d : nat) kv fdv icell inb pre tail2 ng :
  (j0 + d = 9)%nat -> List.length pre = (9 * kk + j0)%nat ->
  (d <= List.length tail2)%nat -> (9 < m)%nat ->
  loop m (cond_of N X (ICmp CLt (IVar "j") (IConst 9)))
    (for_body
       (exec N X cf m
          (SStoreI "idxup" (IBin IAdd (IBin IMul (IConst 9) (IVar "i")) (IVar "j"))
             (IUn INeg (IConst 1))))
       (exec N X cf m (SSetI "j" (IBin IAdd (IVar "j") (IConst 1)))))
    (up_state idx kk (Z.of_nat j0) kv fdv icell inb (pre ++ tail2) ng)
  = Ok (ONormal, up_state idx kk 9 kv fdv icell inb
                   (pre ++ repeat (-1) d ++ skipn d tail2) ng).
Proof.
  intros Hj0 Hpre Ht Hm.
  apply (loop_rule_eq (up2_inv idx kk j0 d kv fdv icell inb pre tail2 ng) _ 9%nat); [| |lia].
  2:{ split; [lia|]. rewrite Nat.add_0_r. reflexivity. }
  intros t st [Ht9 ->]. split; [lia|].
  assert (t = d \/ (t < d)%nat) as [->|Hlt] by lia.
  - unfold up_state. cbn.
    replace (Z.of_nat (j0 + d) <? 9) with false by (symmetry; apply Z.ltb_ge; lia).
    replace (Z.of_nat (j0 + d)) with 9 by lia. reflexivity.
  - unfold up_state. cbn.
    replace (Z.of_nat (j0 + t) <? 9) with true by (symmetry; apply Z.ltb_lt; lia).
    cbn.
    destruct (skipn_cons_ex t tail2) as (x & tl & Hs1 & Hs2); [lia|].
    rewrite Hs1. rewrite app_assoc.
    rewrite (zset_app (pre ++ repeat (-1) t) tl x) by (rewrite app_length, repeat_length; lia).
    cbn. split; [lia|]. unfold up_state. norm_state.
    rewrite repeat_snoc, Hs2. rewrite <- !app_assoc. cbn [app].
    replace (Z.of_nat (j0 + t) + 1) with (Z.of_nat (j0 + S t)) by lia. reflexivity.
Qed.


Definition up_get (c : Z) : list Z := pad9 (upstream_hits_with codes nrows ncols fdl c).
Definition up_out (l : list Z) : list Z := flat_map up_get l.

Lemma hits_length c : (List.length (upstream_hits_with codes nrows ncols fdl c) <= 9)%nat.
Proof. rewrite hits_eq. etransitivity; [apply flat_map_le1; apply up_G_le1|]. cbn. lia. Qed.

Lemma up_get_length c : List.length (up_get c) = 9%nat.
Proof.
  unfold up_get, pad9. rewrite app_length, repeat_length. pose proof (hits_length c). lia.
Qed.

Lemma up_out_length l : List.length (up_out l) = (9 * List.length l)%nat.
Proof.
  induction l as [|c l IH]; [reflexivity|]. unfold up_out in *. cbn [flat_map].
  rewrite app_length, up_get_length, IH. cbn [List.length]. lia.
Qed.

Lemma up_out_snoc l c : up_out (l ++ [c]) = up_out l ++ up_get c.
Proof. unfold up_out. rewrite flat_map_app. cbn [flat_map]. rewrite app_nil_r. reflexivity. Qed.

Definition up_inv (idx junk : list Z) (k : nat) (st : state T) : Prop :=
  exists done todo jdone jtodo j kv fdv icell inb ng,
    idx = done ++ todo /\ junk = jdone ++ jtodo /\
    List.length done = k /\ List.length jdone = (9 * k)%nat /\
    Forall (fun c => valid c) done /\ List.length ng = 9%nat /\
    st = up_state idx k j kv fdv icell inb (up_out done ++ jtodo) ng.

Definition up_post (idx junk : list Z) (r : outcome T * state T) : Prop :=
  (Forall (fun c => valid c) idx /\
   exists j kv fdv icell inb ng,
     r = (ONormal, up_state idx (List.length idx) j kv fdv icell inb (up_out idx) ng))
  \/
  (exists done bad rest jdone jtodo j kv fdv inb ng code,
     idx = done ++ bad :: rest /\ junk = jdone ++ jtodo /\
     List.length jdone = (9 * List.length done)%nat /\
     Forall (fun c => valid c) done /\ valid_cell nrows ncols bad = false /\ 0 < code /\
     r = (ORet (RI code),
          up_state idx (List.length done) j kv fdv bad inb (up_out done ++ jtodo) ng)).

Lemma up_main idx junk n :
  List.length codes = 9%nat ->
  Z.of_nat (List.length fdl) = nrows * ncols ->
  List.length junk = (9 * List.length idx)%nat ->
  (List.length idx < n)%nat -> (9 < n)%nat ->
  exists r,
    loop n (cond_of N X (ICmp CLt (IVar "i") (IVar "nval")))
      (for_body
         (exec N X (exec_fun N X program n) n
            (SSeq (SSetI "idxcell" (IArr "idxdown" (IVar "i")))
               (SSeq
                  (SIf
                     (IOr (ICmp CLt (IVar "idxcell") (IConst 0))
                        (ICmp CGe (IVar "idxcell") (IBin IMul (IVar "nrows") (IVar "ncols"))))
                     (SRetI (IBin IAdd (IConst 50000) (IConst 1))) SSkip)
                  (SSeq
                     (SCall DNone "c_neighbours"
                        [AI (IVar "nrows"); AI (IVar "ncols"); AI (IVar "idxcell");
                         AArrI "neighbours" (IConst 0)])
                     (SSeq (SSetI "k" (IConst 0))
                        (SSeq (SSetI "j" (IConst 0))
                           (SSeq
                              (SFor (ICmp CLt (IVar "j") (IConst 9))
                                 (SSetI "j" (IBin IAdd (IVar "j") (IConst 1)))
                                 (SSeq (SSetI "idxneighb" (IArr "neighbours" (IVar "j")))
                                    (SSeq
                                       (SIf (ICmp CEq (IVar "idxneighb") (IUn INeg (IConst 1)))
                                          SContinue SSkip)
                                       (SSeq (SSetI "fd" (IArr "flowdir" (IVar "idxneighb")))
                                          (SSeq
                                             (SIf (ICmp CEq (IVar "fd") (IConst 0)) SContinue SSkip)
                                             (SIf
                                                (ICmp CEq (IVar "fd")
                                                   (IArr "flowdircode"
                                                      (IBin ISub (IConst 8) (IVar "j"))))
                                                (SSeq
                                                   (SStoreI "idxup"
                                                      (IBin IAdd (IBin IMul (IConst 9) (IVar "i"))
                                                         (IVar "k")) (IVar "idxneighb"))
                                                   (SSetI "k" (IBin IAdd (IVar "k") (IConst 1))))
                                                SSkip))))))
                              (SSeq (SSetI "j" (IVar "k"))
                                 (SFor (ICmp CLt (IVar "j") (IConst 9))
                                    (SSetI "j" (IBin IAdd (IVar "j") (IConst 1)))
                                    (SStoreI "idxup"
                                       (IBin IAdd (IBin IMul (IConst 9) (IVar "i")) (IVar "j"))
                                       (IUn INeg (IConst 1))))))))))))
         (exec N X (exec_fun N X program n) n (SSetI "i" (IBin IAdd (IVar "i") (IConst 1)))))
      (up_state idx 0 0 0 0 0 0 junk [0; 0; 0; 0; 0; 0; 0; 0; 0]) = Ok r /\ up_post idx junk r.
Proof.
  intros Hc Hfd HJ Hn Hn9.
  apply (loop_rule (up_inv idx junk) (up_post idx junk) (List.length idx)) with (k := O); [| |lia].
  2:{ exists [], idx, [], junk, 0, 0, 0, 0, 0, [0; 0; 0; 0; 0; 0; 0; 0; 0]. repeat split; auto. }
  intros k st (done & todo & jdone & jtodo & j & kv & fdv & icell & inb & ng &
               Hidx & Hjunk & Hk & Hjk & Hval & Hng & ->).
  assert (Hlen : List.length idx = (k + List.length todo)%nat) by (rewrite Hidx, app_length; lia).
  assert (Hlenj : List.length jtodo = (9 * List.length todo)%nat).
  { rewrite Hjunk, Hidx, !app_length in HJ. lia. }
  split; [lia|].
  unfold up_state. cbn. rewrite zlen_eq.
  destruct todo as [|c todo].
  - replace (Z.of_nat k <? Z.of_nat (List.length idx)) with false
      by (symmetry; apply Z.ltb_ge; cbn in Hlen; lia).
    cbn. left. destruct jtodo; [|discriminate]. rewrite app_nil_r in *. subst done.
    split; [assumption|]. exists j, kv, fdv, icell, inb, ng. unfold up_state.
    rewrite zlen_eq, Hk. reflexivity.
  - replace (Z.of_nat k <? Z.of_nat (List.length idx)) with true
      by (symmetry; apply Z.ltb_lt; cbn in Hlen; lia).
    subst idx. cbn. rewrite (zget_app done todo c) by lia. cbn.
    rewrite ?truth_b2z, ?b2z_truth_b2z, ?or_ok, ?truth_b2z.
    destruct (valid_cell nrows ncols c) eqn:Hv.
    + assert (Hv' := Hv). unfold valid_cell in Hv'. apply negb_true_iff in Hv'. rewrite Hv'.
      cbn. rewrite zlen_eq, Hng. change (Z.of_nat 9 <? 0) with false. cbn.
      rewrite neighbours_run_ge by (assumption || lia).
      assert (Hngc := neighbours_raw_length c).
      assert (Hngok := neighbours_raw_ok c Hfd).
      pose proof (hits_eq c) as Hhits.
      remember (neighbours_raw nrows ncols c) as ngc eqn:Engc.
      cbn. norm_loop_state. rewrite <- (zlen_eq (done ++ c :: todo)).
      fold (up_state (done ++ c :: todo) k 0 0 fdv c inb (up_out done ++ jtodo) ngc).
      destruct (up_inner1 (exec_fun N X program n) n (done ++ c :: todo) k fdv c inb
                  (up_out done) jtodo ngc) as (r1 & Hr1 & fdv1 & inb1 & ->);
        try assumption; try lia.
      { rewrite up_out_length. lia. }
      { cbn [List.length] in Hlenj. lia. }
      rewrite Hr1. clear Hr1.
      rewrite <- Hhits.
      assert (HHl := hits_length c).
      remember (upstream_hits_with codes nrows ncols fdl c) as H eqn:EH.
      remember (9 - List.length H)%nat as d eqn:Ed.
      unfold up_state. cbn. norm_loop_state.
      rewrite app_assoc.
      fold (up_state (done ++ c :: todo) k (Z.of_nat (List.length H)) (Z.of_nat (List.length H))
              fdv1 c inb1 ((up_out done ++ H) ++ skipn (List.length H) jtodo) ngc).
      rewrite (up_inner2 _ _ _ _ (List.length H) d).
      2: lia. 2:{ rewrite app_length, up_out_length. lia. }
      2:{ rewrite skipn_length. cbn [List.length] in Hlenj. lia. } 2: lia.
      unfold up_state. cbn.
      exists (done ++ [c]), todo, (jdone ++ firstn 9 jtodo), (skipn 9 jtodo), 9,
             (Z.of_nat (List.length H)), fdv1, c, inb1, ngc.
      split; [rewrite <- app_assoc; reflexivity|].
      split; [rewrite <- app_assoc, firstn_skipn; assumption|].
      split; [rewrite app_length; cbn; lia|].
      split; [rewrite app_length, firstn_length; cbn [List.length] in Hlenj; lia|].
      split; [apply Forall_app; split; [assumption|constructor; [assumption|constructor]]|].
      split; [assumption|].
      norm_state. unfold up_state. rewrite zlen_eq.
      rewrite up_out_snoc. unfold up_get. rewrite <- EH. unfold pad9. rewrite <- Ed.
      rewrite skipn_skipn_add. replace (List.length H + d)%nat with 9%nat by lia.
      rewrite <- !app_assoc.
      replace (Z.of_nat k + 1) with (Z.of_nat (S k)) by lia. reflexivity.
    + assert (Hv' := Hv). unfold valid_cell in Hv'. apply negb_false_iff in Hv'. rewrite Hv'.
      cbn. right.
      exists done, c, todo, jdone, jtodo, j, kv, fdv, inb, ng, 50001.
      repeat (split; [first [reflexivity | assumption | lia]|]).
      unfold up_state. rewrite zlen_eq, Hk. reflexivity.
Qed.

Lemma up_run idx junk n :
  List.length codes = 9%nat ->
  Z.of_nat (List.length fdl) = nrows * ncols ->
  List.length junk = (9 * List.length idx)%nat ->
  (List.length idx < n)%nat -> (9 < n)%nat ->
  (Forall (fun c => valid c) idx /\
   exec_fun N X program (S n) "c_upstream"
     [AVI nrows; AVI ncols; AVArrI codes; AVArrI fdl; AVI (zlen idx); AVArrI idx; AVArrI junk]
   = Ok (RI 0, [VArrI codes; VArrI fdl; VArrI idx; VArrI (up_out idx)]))
  \/
  (exists done bad rest code,
     idx = done ++ bad :: rest /\ Forall (fun c => valid c) done /\
     valid_cell nrows ncols bad = false /\ 0 < code /\
     exec_fun N X program (S n) "c_upstream"
       [AVI nrows; AVI ncols; AVArrI codes; AVArrI fdl; AVI (zlen idx); AVArrI idx; AVArrI junk]
     = Ok (RI code, [VArrI codes; VArrI fdl; VArrI idx;
                     VArrI (up_out done ++ skipn (9 * List.length done) junk)])).
Proof.
  intros Hc Hfd HJ Hn Hn9.
  destruct (up_main idx junk n Hc Hfd HJ Hn Hn9) as (r & Hr & HP).
  unfold up_state in Hr. change (Z.of_nat 0) with 0 in Hr.
  destruct HP as [(Hall & j & kv & fdv & icell & inb & ng & ->) |
                  (done & bad & rest & jdone & jtodo & j & kv & fdv & inb & ng & code &
                   Hidx & Hjunk & Hjl & Hd & Hb & Hcode & ->)].
  - left. split; [assumption|]. cbn. norm_state. rewrite Hr. cbn. reflexivity.
  - right. exists done, bad, rest, code. repeat (split; [assumption|]).
    replace (skipn (9 * List.length done) junk) with jtodo
      by (subst junk; rewrite <- Hjl, skipn_app, skipn_all, Nat.sub_diag; reflexivity).
    cbn. norm_state. rewrite Hr. cbn. reflexivity.
Qed.

(* ---------------- statements in terms of the model only ---------------- *)
Notation dw := (downstream_with codes nrows ncols fdl).
Notation uw := (upstream_with codes nrows ncols fdl).

Lemma dw_some c v : dw c = Some v -> valid c /\ dn_get c = v.
Proof.
  intros H. unfold dn_get. rewrite H. split; [|reflexivity].
  unfold downstream_with in H. destruct (valid_cell nrows ncols c); [reflexivity|discriminate].
Qed.

Lemma dw_none c : dw c = None <-> valid_cell nrows ncols c = false.
Proof.
  unfold downstream_with. destruct (valid_cell nrows ncols c).
  - destruct (zn fdl c 0 =? 0); split; discriminate.
  - split; reflexivity.
Qed.

Lemma dw_F2 idx out :
  Forall2 (fun c v => dw c = Some v) idx out -> Forall (fun c => valid c) idx /\ out = map dn_get idx.
Proof.
  induction 1 as [|c v idx out H _ [IH1 IH2]]; [split; [constructor|reflexivity]|].
  destruct (dw_some c v H) as [Hv <-]. split; [constructor; assumption|]. cbn [map]. rewrite IH2. reflexivity.
Qed.

Lemma dw_F2_map idx :
  Forall (fun c => valid c) idx -> Forall2 (fun c v => dw c = Some v) idx (map dn_get idx).
Proof.
  induction 1 as [|c idx Hv _ IH]; [constructor|]. cbn [map]. constructor; [|exact IH].
  unfold dn_get, downstream_with. rewrite Hv. destruct (zn fdl c 0 =? 0); reflexivity.
Qed.

Lemma uw_some c l : uw c = Some l -> valid c /\ up_get c = l.
Proof.
  unfold upstream_with, up_get. destruct (valid_cell nrows ncols c); [|discriminate].
  intros [= <-]. split; reflexivity.
Qed.

Lemma uw_none c : uw c = None <-> valid_cell nrows ncols c = false.
Proof. unfold upstream_with. destruct (valid_cell nrows ncols c); split; (reflexivity || discriminate). Qed.

Lemma uw_F2 idx outs :
  Forall2 (fun c l => uw c = Some l) idx outs ->
  Forall (fun c => valid c) idx /\ List.concat outs = up_out idx.
Proof.
  induction 1 as [|c l idx outs H _ [IH1 IH2]]; [split; [constructor|reflexivity]|].
  destruct (uw_some c l H) as [Hv <-]. split; [constructor; assumption|].
  unfold up_out in *. cbn [List.concat flat_map]. rewrite IH2. reflexivity.
Qed.

Lemma uw_F2_map idx :
  Forall (fun c => valid c) idx -> Forall2 (fun c l => uw c = Some l) idx (map up_get idx).
Proof.
  induction 1 as [|c idx Hv _ IH]; [constructor|]. cbn [map]. constructor; [|exact IH].
  unfold upstream_with, up_get. rewrite Hv. reflexivity.
Qed.

Lemma not_all_valid done bad rest :
  valid_cell nrows ncols bad = false -> ~ Forall (fun c => valid c) (done ++ bad :: rest).
Proof.
  intros Hb HF. apply Forall_app in HF. destruct HF as [_ HF]. inversion HF; subst. congruence.
Qed.

(* c_downstream, all cell numbers valid: returns 0, the three input arrays are unchanged
   and idxdown holds the model's downstream cell of every entry of idxup *)
Theorem refine_downstream idx junk out n :
  List.length codes = 9%nat ->
  Z.of_nat (List.length fdl) = nrows * ncols ->
  List.length junk = List.length idx ->
  Forall2 (fun c v => dw c = Some v) idx out ->
  (List.length idx < n)%nat -> (9 < n)%nat ->
  exec_fun N X program (S n) "c_downstream"
    [AVI nrows; AVI ncols; AVArrI codes; AVArrI fdl; AVI (zlen idx); AVArrI idx; AVArrI junk]
  = Ok (RI 0, [VArrI codes; VArrI fdl; VArrI idx; VArrI out]).
Proof.
  intros Hc Hfd HJ HF Hn Hn9. destruct (dw_F2 idx out HF) as [Hall ->].
  destruct (dn_run idx junk n Hc Hfd HJ Hn Hn9) as [[_ E]|(done & bad & rest & code & Hidx & _ & Hb & _)].
  - exact E.
  - exfalso. subst idx. exact (not_all_valid _ _ _ Hb Hall).
Qed.

(* c_downstream, first invalid cell number at position [length done]: a positive error
   code is returned; the entries of idxdown before that position are already written,
   the others are untouched *)
Theorem refine_downstream_error done bad rest junk outd n :
  List.length codes = 9%nat ->
  Z.of_nat (List.length fdl) = nrows * ncols ->
  List.length junk = List.length (done ++ bad :: rest) ->
  Forall2 (fun c v => dw c = Some v) done outd -> dw bad = None ->
  (List.length (done ++ bad :: rest) < n)%nat -> (9 < n)%nat ->
  exists code, 0 < code /\
  exec_fun N X program (S n) "c_downstream"
    [AVI nrows; AVI ncols; AVArrI codes; AVArrI fdl; AVI (zlen (done ++ bad :: rest));
     AVArrI (done ++ bad :: rest); AVArrI junk]
  = Ok (RI code, [VArrI codes; VArrI fdl; VArrI (done ++ bad :: rest);
                  VArrI (outd ++ skipn (List.length done) junk)]).
Proof.
  intros Hc Hfd HJ HF Hbad Hn Hn9. destruct (dw_F2 done outd HF) as [Hall ->].
  apply dw_none in Hbad.
  destruct (dn_run (done ++ bad :: rest) junk n Hc Hfd HJ Hn Hn9)
    as [[Hall' _]|(done' & bad' & rest' & code & Hidx & Hd' & Hb' & Hcode & E)].
  - exfalso. exact (not_all_valid _ _ _ Hbad Hall').
  - destruct (first_bad_unique (fun c => valid c) _ _ _ _ _ _ Hidx Hall) as (<- & <- & <-);
      try assumption; try congruence.
    exists code. split; [assumption|exact E].
Qed.

(* every input: one of the two cases above applies *)
Theorem refine_downstream_total idx junk n :
  List.length codes = 9%nat ->
  Z.of_nat (List.length fdl) = nrows * ncols ->
  List.length junk = List.length idx ->
  (List.length idx < n)%nat -> (9 < n)%nat ->
  (exists out,
     Forall2 (fun c v => dw c = Some v) idx out /\
     exec_fun N X program (S n) "c_downstream"
       [AVI nrows; AVI ncols; AVArrI codes; AVArrI fdl; AVI (zlen idx); AVArrI idx; AVArrI junk]
     = Ok (RI 0, [VArrI codes; VArrI fdl; VArrI idx; VArrI out]))
  \/
  (exists done bad rest outd code,
     idx = done ++ bad :: rest /\
     Forall2 (fun c v => dw c = Some v) done outd /\ dw bad = None /\ 0 < code /\
     exec_fun N X program (S n) "c_downstream"
       [AVI nrows; AVI ncols; AVArrI codes; AVArrI fdl; AVI (zlen idx); AVArrI idx; AVArrI junk]
     = Ok (RI code, [VArrI codes; VArrI fdl; VArrI idx;
                     VArrI (outd ++ skipn (List.length done) junk)])).
Proof.
  intros Hc Hfd HJ Hn Hn9.
  destruct (dn_run idx junk n Hc Hfd HJ Hn Hn9)
    as [[Hall E]|(done & bad & rest & code & Hidx & Hd & Hb & Hcode & E)].
  - left. exists (map dn_get idx). split; [apply dw_F2_map; assumption|exact E].
  - right. exists done, bad, rest, (map dn_get done), code.
    split; [assumption|]. split; [apply dw_F2_map; assumption|].
    split; [apply dw_none; assumption|]. split; [assumption|exact E].
Qed.

(* c_upstream, all cell numbers valid: returns 0 and idxup holds, for every entry of
   idxdown, the 9 entries of the model (upstream cells packed to the front, padded with -1) *)
Theorem refine_upstream idx junk outs n :
  List.length codes = 9%nat ->
  Z.of_nat (List.length fdl) = nrows * ncols ->
  List.length junk = (9 * List.length idx)%nat ->
  Forall2 (fun c l => uw c = Some l) idx outs ->
  (List.length idx < n)%nat -> (9 < n)%nat ->
  exec_fun N X program (S n) "c_upstream"
    [AVI nrows; AVI ncols; AVArrI codes; AVArrI fdl; AVI (zlen idx); AVArrI idx; AVArrI junk]
  = Ok (RI 0, [VArrI codes; VArrI fdl; VArrI idx; VArrI (List.concat outs)]).
Proof.
  intros Hc Hfd HJ HF Hn Hn9. destruct (uw_F2 idx outs HF) as [Hall ->].
  destruct (up_run idx junk n Hc Hfd HJ Hn Hn9) as [[_ E]|(done & bad & rest & code & Hidx & _ & Hb & _)].
  - exact E.
  - exfalso. subst idx. exact (not_all_valid _ _ _ Hb Hall).
Qed.

Theorem refine_upstream_error done bad rest junk outsd n :
  List.length codes = 9%nat ->
  Z.of_nat (List.length fdl) = nrows * ncols ->
  List.length junk = (9 * List.length (done ++ bad :: rest))%nat ->
  Forall2 (fun c l => uw c = Some l) done outsd -> uw bad = None ->
  (List.length (done ++ bad :: rest) < n)%nat -> (9 < n)%nat ->
  exists code, 0 < code /\
  exec_fun N X program (S n) "c_upstream"
    [AVI nrows; AVI ncols; AVArrI codes; AVArrI fdl; AVI (zlen (done ++ bad :: rest));
     AVArrI (done ++ bad :: rest); AVArrI junk]
  = Ok (RI code, [VArrI codes; VArrI fdl; VArrI (done ++ bad :: rest);
                  VArrI (List.concat outsd ++ skipn (9 * List.length done) junk)]).
Proof.
  intros Hc Hfd HJ HF Hbad Hn Hn9. destruct (uw_F2 done outsd HF) as [Hall ->].
  apply uw_none in Hbad.
  destruct (up_run (done ++ bad :: rest) junk n Hc Hfd HJ Hn Hn9)
    as [[Hall' _]|(done' & bad' & rest' & code & Hidx & Hd' & Hb' & Hcode & E)].
  - exfalso. exact (not_all_valid _ _ _ Hbad Hall').
  - destruct (first_bad_unique (fun c => valid c) _ _ _ _ _ _ Hidx Hall) as (<- & <- & <-);
      try assumption; try congruence.
    exists code. split; [assumption|exact E].
Qed.

Theorem refine_upstream_total idx junk n :
  List.length codes = 9%nat ->
  Z.of_nat (List.length fdl) = nrows * ncols ->
  List.length junk = (9 * List.length idx)%nat ->
  (List.length idx < n)%nat -> (9 < n)%nat ->
  (exists outs,
     Forall2 (fun c l => uw c = Some l) idx outs /\
     exec_fun N X program (S n) "c_upstream"
       [AVI nrows; AVI ncols; AVArrI codes; AVArrI fdl; AVI (zlen idx); AVArrI idx; AVArrI junk]
     = Ok (RI 0, [VArrI codes; VArrI fdl; VArrI idx; VArrI (List.concat outs)]))
  \/
  (exists done bad rest outsd code,
     idx = done ++ bad :: rest /\
     Forall2 (fun c l => uw c = Some l) done outsd /\ uw bad = None /\ 0 < code /\
     exec_fun N X program (S n) "c_upstream"
       [AVI nrows; AVI ncols; AVArrI codes; AVArrI fdl; AVI (zlen idx); AVArrI idx; AVArrI junk]
     = Ok (RI code, [VArrI codes; VArrI fdl; VArrI idx;
                     VArrI (List.concat outsd ++ skipn (9 * List.length done) junk)])).
Proof.
  intros Hc Hfd HJ Hn Hn9.
  assert (Hcat : forall l, List.concat (map up_get l) = up_out l).
  { intros l. unfold up_out. rewrite flat_map_concat_map. reflexivity. }
  destruct (up_run idx junk n Hc Hfd HJ Hn Hn9)
    as [[Hall E]|(done & bad & rest & code & Hidx & Hd & Hb & Hcode & E)].
  - left. exists (map up_get idx). split; [apply uw_F2_map; assumption|]. rewrite Hcat. exact E.
  - right. exists done, bad, rest, (map up_get done), code.
    split; [assumption|]. split; [apply uw_F2_map; assumption|].
    split; [apply uw_none; assumption|]. split; [assumption|]. rewrite Hcat. exact E.
Qed.

End Flow.

(* ================================================================== *)
(* the statements for the table of the library (FLOWDIRCODE, re-extracted *)
(* from grid.py into Gen/Consts.v) and the model functions downstream /  *)
(* upstream that the property theorems (Proofs/FlowProofs.v, Props/C06.v) *)
(* are about                                                             *)
(* ================================================================== *)

Theorem refine_downstream_std nrows ncols fdl idx junk out n :
  Z.of_nat (List.length fdl) = nrows * ncols ->
  List.length junk = List.length idx ->
  Forall2 (fun c v => downstream nrows ncols fdl c = Some v) idx out ->
  (List.length idx < n)%nat -> (9 < n)%nat ->
  exec_fun N X program (S n) "c_downstream"
    [AVI nrows; AVI ncols; AVArrI FLOWDIRCODE; AVArrI fdl; AVI (zlen idx); AVArrI idx; AVArrI junk]
  = Ok (RI 0, [VArrI FLOWDIRCODE; VArrI fdl; VArrI idx; VArrI out]).
Proof. intros. apply refine_downstream; try assumption. reflexivity. Qed.

Theorem refine_downstream_error_std nrows ncols fdl done bad rest junk outd n :
  Z.of_nat (List.length fdl) = nrows * ncols ->
  List.length junk = List.length (done ++ bad :: rest) ->
  Forall2 (fun c v => downstream nrows ncols fdl c = Some v) done outd ->
  downstream nrows ncols fdl bad = None ->
  (List.length (done ++ bad :: rest) < n)%nat -> (9 < n)%nat ->
  exists code, 0 < code /\
  exec_fun N X program (S n) "c_downstream"
    [AVI nrows; AVI ncols; AVArrI FLOWDIRCODE; AVArrI fdl; AVI (zlen (done ++ bad :: rest));
     AVArrI (done ++ bad :: rest); AVArrI junk]
  = Ok (RI code, [VArrI FLOWDIRCODE; VArrI fdl; VArrI (done ++ bad :: rest);
                  VArrI (outd ++ skipn (List.length done) junk)]).
Proof. intros. apply refine_downstream_error; try assumption. reflexivity. Qed.

Theorem refine_upstream_std nrows ncols fdl idx junk outs n :
  Z.of_nat (List.length fdl) = nrows * ncols ->
  List.length junk = (9 * List.length idx)%nat ->
  Forall2 (fun c l => upstream nrows ncols fdl c = Some l) idx outs ->
  (List.length idx < n)%nat -> (9 < n)%nat ->
  exec_fun N X program (S n) "c_upstream"
    [AVI nrows; AVI ncols; AVArrI FLOWDIRCODE; AVArrI fdl; AVI (zlen idx); AVArrI idx; AVArrI junk]
  = Ok (RI 0, [VArrI FLOWDIRCODE; VArrI fdl; VArrI idx; VArrI (List.concat outs)]).
Proof. intros. apply refine_upstream; try assumption. reflexivity. Qed.

Theorem refine_upstream_error_std nrows ncols fdl done bad rest junk outsd n :
  Z.of_nat (List.length fdl) = nrows * ncols ->
  List.length junk = (9 * List.length (done ++ bad :: rest))%nat ->
  Forall2 (fun c l => upstream nrows ncols fdl c = Some l) done outsd ->
  upstream nrows ncols fdl bad = None ->
  (List.length (done ++ bad :: rest) < n)%nat -> (9 < n)%nat ->
  exists code, 0 < code /\
  exec_fun N X program (S n) "c_upstream"
    [AVI nrows; AVI ncols; AVArrI FLOWDIRCODE; AVArrI fdl; AVI (zlen (done ++ bad :: rest));
     AVArrI (done ++ bad :: rest); AVArrI junk]
  = Ok (RI code, [VArrI FLOWDIRCODE; VArrI fdl; VArrI (done ++ bad :: rest);
                  VArrI (List.concat outsd ++ skipn (9 * List.length done) junk)]).
Proof. intros. apply refine_upstream_error; try assumption. reflexivity. Qed.

End Refine.

(* closed under the global context:
Print Assumptions refine_downstream_total.
Print Assumptions refine_upstream_total. *)
