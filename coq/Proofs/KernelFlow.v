(* C06 on the regenerated program: upstream / downstream of src/hydrodiy/gis/c_grid.c
   (MiniC translation, Gen/KernelsAst.v) are inverse relations - the model theorem
   of Proofs/FlowProofs.v transported through the refinement theorems of
   Proofs/RefineFlow.v. *)
From Coq Require Import ZArith Bool List String Lia.
From Hy Require Import Base.Num Base.MiniC Gen.KernelsAst Gen.Consts Model.Grid
  Proofs.FlowProofs Proofs.RefineFlow.
Import ListNotations.
Open Scope string_scope.
Open Scope list_scope.
Open Scope Z_scope.

Lemma valid_cell_true nrows ncols c : 0 <= c < nrows * ncols -> valid_cell nrows ncols c = true.
Proof.
  intros H. unfold valid_cell.
  destruct (Z.ltb_spec c 0); [lia|]. destruct (Z.leb_spec (nrows * ncols) c); [lia|]. reflexivity.
Qed.

Lemma downstream_some nrows ncols fd c :
  0 <= c < nrows * ncols -> exists d, downstream nrows ncols fd c = Some d.
Proof.
  intros H. unfold downstream, downstream_with. rewrite (valid_cell_true _ _ _ H).
  destruct (zn fd c 0 =? 0); eexists; reflexivity.
Qed.

Lemma in_pad9 (l : list Z) c : 0 <= c -> (In c (pad9 l) <-> In c l).
Proof.
  intros Hc. unfold pad9. rewrite in_app_iff. split; [|tauto].
  intros [H|H]; [exact H|]. apply repeat_spec in H. lia.
Qed.

Section K.
Context {T : Type} (N : NumOps T) (X : NumLit T).

Definition run_upstream (n : nat) nrows ncols (fd idx buf : list Z) :=
  exec_fun N X program (S n) "c_upstream"
    [AVI nrows; AVI ncols; AVArrI FLOWDIRCODE; AVArrI fd; AVI (zlen idx); AVArrI idx; AVArrI buf].
Definition run_downstream (n : nat) nrows ncols (fd idx buf : list Z) :=
  exec_fun N X program (S n) "c_downstream"
    [AVI nrows; AVI ncols; AVArrI FLOWDIRCODE; AVArrI fd; AVI (zlen idx); AVArrI idx; AVArrI buf].

(* on every grid, for valid cells c and d: the translated c_upstream lists c among the
   cells upstream of d exactly when the translated c_downstream answers d for c *)
Theorem kernel_up_down_inverse nrows ncols fd c d buf9 buf1 n :
  0 < ncols -> Z.of_nat (List.length fd) = nrows * ncols ->
  0 <= c < nrows * ncols -> 0 <= d < nrows * ncols ->
  List.length buf9 = 9%nat -> List.length buf1 = 1%nat -> (9 < n)%nat ->
  exists ups dn,
    run_upstream n nrows ncols fd [d] buf9
      = Ok (RI 0, [VArrI FLOWDIRCODE; VArrI fd; VArrI [d]; VArrI ups]) /\
    run_downstream n nrows ncols fd [c] buf1
      = Ok (RI 0, [VArrI FLOWDIRCODE; VArrI fd; VArrI [c]; VArrI [dn]]) /\
    List.length ups = 9%nat /\
    (In c ups <-> dn = d).
Proof.
  intros Hnc Hfd Hc Hd H9 H1 Hn.
  destruct (downstream_some nrows ncols fd c Hc) as [dn Hdn].
  exists (pad9 (upstream_hits nrows ncols fd d)), dn.
  split; [|split; [|split]].
  - unfold run_upstream.
    replace (pad9 (upstream_hits nrows ncols fd d))
      with (List.concat [pad9 (upstream_hits nrows ncols fd d)]) by (cbn; apply app_nil_r).
    apply (refine_upstream_std N X); try assumption; cbn [List.length]; try lia.
    constructor; [|constructor]. unfold upstream. rewrite (valid_cell_true _ _ _ Hd). reflexivity.
  - unfold run_downstream.
    apply (refine_downstream_std N X); try assumption; cbn [List.length]; try lia.
    constructor; [exact Hdn|constructor].
  - unfold pad9. rewrite app_length, repeat_length.
    pose proof (FlowProofs.hits_length FLOWDIRCODE nrows ncols fd d). unfold upstream_hits. lia.
  - rewrite in_pad9 by lia.
    rewrite (FlowProofs.up_down_inverse FLOWDIRCODE flowdircode_wf nrows ncols fd Hnc c d Hd).
    change (downstream_with FLOWDIRCODE nrows ncols fd c) with (downstream nrows ncols fd c).
    rewrite Hdn. split.
    + intros [_ E]. congruence.
    + intros ->. split; [assumption|reflexivity].
Qed.

(* memory safety (C05) of both kernels under the wrappers' contracts (3x3 code table,
   flowdir of nrows*ncols cells, one / nine output entries per input cell): for EVERY
   content - invalid cell numbers, unknown codes, any grid shape - the execution ends
   with a return code and never leaves a buffer *)
Theorem kernel_flow_memsafe nrows ncols codes fd idx bufd bufu n :
  List.length codes = 9%nat -> Z.of_nat (List.length fd) = nrows * ncols ->
  List.length bufd = List.length idx -> List.length bufu = (9 * List.length idx)%nat ->
  (List.length idx < n)%nat -> (9 < n)%nat ->
  (exists r out, exec_fun N X program (S n) "c_downstream"
       [AVI nrows; AVI ncols; AVArrI codes; AVArrI fd; AVI (zlen idx); AVArrI idx; AVArrI bufd]
     = Ok (RI r, [VArrI codes; VArrI fd; VArrI idx; VArrI out])) /\
  (exists r out, exec_fun N X program (S n) "c_upstream"
       [AVI nrows; AVI ncols; AVArrI codes; AVArrI fd; AVI (zlen idx); AVArrI idx; AVArrI bufu]
     = Ok (RI r, [VArrI codes; VArrI fd; VArrI idx; VArrI out])).
Proof.
  intros Hc Hfd Hd Hu Hn Hn9. split.
  - destruct (refine_downstream_total N X nrows ncols codes fd idx bufd n Hc Hfd Hd Hn Hn9)
      as [(out & _ & E)|(dn & bad & rest & outd & code & _ & _ & _ & _ & E)];
      eexists; eexists; exact E.
  - destruct (refine_upstream_total N X nrows ncols codes fd idx bufu n Hc Hfd Hu Hn Hn9)
      as [(out & _ & E)|(dn & bad & rest & outd & code & _ & _ & _ & _ & E)];
      eexists; eexists; exact E.
Qed.

End K.
