(* C10 (ensemble ranks) on the regenerated program: what Proofs/DscoreRankProofs.v proves about
   the model [ensrank] - F = the pairwise mid-rank comparison of Weigel and Mason (2011), the
   ranks = 1 + the accumulated increments, ranks of ordered forecasts, invariance under a
   permutation of the members and under a strictly increasing rescaling - stated about the
   OUTPUT of [exec_fun RR XRR program .. "c_ensrank"], the MiniC translation of
   src/hydrodiy/stat/c_dscore.c regenerated from the tree under test (qsort = glibc's merge sort
   with the translated comparator), through Proofs/RefineEnsrank.v (refine_c_ensrank_RR,
   pairs_preorder_agree). *)
From Coq Require Import ZArith Bool List String Lia Reals Lra Permutation PrimFloat.
From Hy Require Import Base.Num Base.MiniC Gen.KernelsAst Gen.Consts Gen.ConstsC10 Model.Dscore
  Proofs.DscoreRankProofs Proofs.RefineEnsrank.
Import ListNotations.
Open Scope string_scope.
Open Scope list_scope.

(* the call made by the Cython wrapper: nval, ncol = sim.shape, the forecasts row-major *)
Definition run_ensrank (n : nat) (eps : R) (ncol : nat) (sim : list (list R)) (fmat ranks : list R) :=
  exec_fun RR XRR program (S n) "c_ensrank"
    [AVF eps; AVI (Z.of_nat (List.length sim)); AVI (Z.of_nat ncol); AVArrF (List.concat sim);
     AVArrF fmat; AVArrF ranks].

(* the wrapper's contract on the shapes: sim is nval x ncol with nval, ncol >= 1, fmat is
   nval x nval, ranks has nval entries; [n] bounds the fuel of the interpreter *)
Definition ens_shapes (ncol : nat) (sim : list (list R)) (fmat ranks : list R) (n : nat) : Prop :=
  (1 <= ncol)%nat /\ sim <> [] /\ Forall (fun r => List.length r = ncol) sim /\
  List.length fmat = (List.length sim * List.length sim)%nat /\
  List.length ranks = List.length sim /\
  (Nat.max (List.length sim) (2 * ncol) < n)%nat.

(* any two values of any two forecasts (or of one forecast) are equal, or farther apart than the
   comparator tolerance 1e-8 and at least eps apart *)
Definition all_separated (eps : R) (sim : list (list R)) : Prop :=
  forall r1 r2, In r1 sim -> In r2 sim -> separated eps (r1 ++ r2).

(* ---------------- the preorder hypothesis follows from separation ---------------- *)

Lemma separated_cmp_preorder eps (r1 r2 : list R) :
  separated eps (r1 ++ r2) -> cmp_preorder RR KR (pool r1 r2).
Proof.
  intros Hsep.
  assert (Hin : forall a, In a (pool r1 r2) -> In (fst a) (r1 ++ r2)).
  { intros a Ha. rewrite <- pool_fst. apply in_map. exact Ha. }
  split.
  - intros a b Ha Hb.
    rewrite (ens_le_is_lev eps _ a b Hsep (Hin a Ha) (Hin b Hb)).
    rewrite (ens_le_is_lev eps _ b a Hsep (Hin b Hb) (Hin a Ha)).
    unfold lev. destruct (Rle_dec (fst a) (fst b)) as [H|H].
    + left. apply Rleb_true. exact H.
    + right. apply Rleb_true. lra.
  - intros a b c Ha Hb Hc.
    rewrite (ens_le_is_lev eps _ a b Hsep (Hin a Ha) (Hin b Hb)).
    rewrite (ens_le_is_lev eps _ b c Hsep (Hin b Hb) (Hin c Hc)).
    rewrite (ens_le_is_lev eps _ a c Hsep (Hin a Ha) (Hin c Hc)).
    unfold lev. rewrite !Rleb_true. lra.
Qed.

(* [pairs_preorder], the hypothesis of the refinement theorem, holds for separated forecasts *)
Lemma all_separated_preorder eps sim : all_separated eps sim -> pairs_preorder RR KR sim.
Proof.
  induction sim as [|r1 rest IH]; intros Hsep; [exact I|]. split.
  - apply Forall_forall. intros r2 Hr2. apply (separated_cmp_preorder eps).
    apply Hsep; [left; reflexivity|right; exact Hr2].
  - apply IH. intros a b Ha Hb. apply Hsep; right; assumption.
Qed.

(* ---------------- the model on accepted inputs ---------------- *)

Lemma eps_ok (eps : R) : (DS_EPS_MIN_R <= eps)%R -> nltb RR eps (k_eps_min KR) = false /\ (0 < eps)%R.
Proof.
  intros H. split.
  - cbn [nltb RR k_eps_min KR]. apply Rltb_false. exact H.
  - unfold DS_EPS_MIN_R in H. lra.
Qed.

Lemma ensrank_accepts eps ncol (sim : list (list R)) :
  (DS_EPS_MIN_R <= eps)%R -> (1 <= ncol)%nat -> sim <> [] ->
  Forall (fun r => List.length r = ncol) sim ->
  ensrank RR KR eps sim
  = EnsOk (pairs_from RR KR eps 0 sim)
          (map (fun d => (1 + d)%R) (delta ncol eps sim)).
Proof.
  intros Heps Hnc Hne Hrows.
  assert (Hhd : List.length (hd [] sim) = ncol).
  { destruct sim as [|r rest]; [congruence|]. inversion Hrows; subst. reflexivity. }
  destruct (ensrank RR KR eps sim) as [code|fs rk] eqn:E.
  - exfalso. unfold ensrank in E. rewrite (proj1 (eps_ok eps Heps)) in E.
    destruct sim as [|r rest]; [congruence|]. cbn [hd] in Hhd. rewrite Hhd in E.
    cbn [List.length] in E.
    destruct ncol as [|k]; [lia|]. cbn [Nat.eqb orb] in E. discriminate.
  - pose proof (ensrank_ranks eps sim fs rk E) as Hrk. rewrite Hhd in Hrk. subst rk.
    f_equal. unfold ensrank in E. rewrite (proj1 (eps_ok eps Heps)) in E.
    destruct (_ || _); [discriminate|]. injection E as <- _. reflexivity.
Qed.

(* the F matrix written by the kernel for a result of the model *)
Definition fm_out (eps : R) (sim : list (list R)) (fmat : list R) : list R :=
  fold_left (fmat_set (Z.of_nat (List.length sim))) (pairs_from RR KR eps 0 sim) fmat.

Lemma run_ensrank_model eps ncol sim fmat ranks n :
  (DS_EPS_MIN_R <= eps)%R -> pairs_preorder RR KR sim -> ens_shapes ncol sim fmat ranks n ->
  run_ensrank n eps ncol sim fmat ranks
  = Ok (RI 0%Z, [VArrF (List.concat sim); VArrF (fm_out eps sim fmat);
                 VArrF (map (fun d => (1 + d)%R) (delta ncol eps sim))]).
Proof.
  intros Heps Hpre (Hnc & Hne & Hrows & Hfm & Hrk & Hn). unfold run_ensrank.
  rewrite (refine_c_ensrank_RR eps sim ncol fmat ranks n
             (pairs_preorder_agree RR KR sim Hpre) Hrows Hfm Hrk Hn).
  rewrite (ensrank_accepts eps ncol sim Heps Hnc Hne Hrows). reflexivity.
Qed.

(* ---------------- entries of the F matrix ---------------- *)

Lemma In_zenum {A} (d : A) (l : list A) : forall i k r,
  In (k, r) (zenum i l) <->
  exists j, (j < List.length l)%nat /\ k = (i + Z.of_nat j)%Z /\ r = nth j l d.
Proof.
  induction l as [|a l IH]; intros i k r; cbn [zenum In List.length].
  - split; [intros []|intros (j & Hj & _); lia].
  - rewrite IH. split.
    + intros [E|(j & Hj & -> & ->)].
      * injection E as <- <-. exists 0%nat. split; [lia|]. split; [lia|reflexivity].
      * exists (S j). split; [lia|]. split; [lia|reflexivity].
    + intros (j & Hj & -> & ->). destruct j as [|j].
      * left. f_equal. lia.
      * right. exists j. split; [lia|]. split; [lia|reflexivity].
Qed.

Lemma In_pairs_from eps (rows : list (list R)) : forall i0 p,
  In p (pairs_from RR KR eps i0 rows) <->
  exists a b, (a < b < List.length rows)%nat /\
    p = ((i0 + Z.of_nat a)%Z, (i0 + Z.of_nat b)%Z,
         pairF RR KR eps (nth a rows []) (nth b rows [])).
Proof.
  induction rows as [|r1 rest IH]; intros i0 p; cbn [pairs_from].
  - split; [intros []|intros (a & b & H & _); cbn in H; lia].
  - rewrite in_app_iff, in_map_iff, IH. split.
    + intros [([k r] & <- & Hin)|(a & b & Hab & ->)].
      * apply (In_zenum []) in Hin. destruct Hin as (j & Hj & -> & ->). cbn [fst snd].
        exists 0%nat, (S j). split; [cbn [List.length]; lia|]. cbn [nth]. f_equal. f_equal; lia.
      * exists (S a), (S b). split; [cbn [List.length]; lia|]. cbn [nth]. f_equal. f_equal; lia.
    + intros (a & b & Hab & ->). cbn [List.length] in Hab. destruct a as [|a].
      * left. destruct b as [|b]; [lia|].
        exists (Z.of_nat b, nth b rest []). split.
        -- cbn [fst snd nth]. f_equal. f_equal; lia.
        -- apply (In_zenum []). exists b. split; [lia|]. split; [lia|reflexivity].
      * right. destruct b as [|b]; [lia|].
        exists a, b. split; [lia|]. cbn [nth]. f_equal. f_equal; lia.
Qed.

Definition fpos (nval : Z) (p : Z * Z * R) : nat := Z.to_nat (fst (fst p) * nval + snd (fst p)).

Lemma fmat_set_upd nval (fm : list R) p : fmat_set nval fm p = upd_nth (fpos nval p) (fun _ => snd p) fm.
Proof. destruct p as [[i1 i2] F]. reflexivity. Qed.

Lemma nth_upd_nth_same {A} (f : A -> A) d : forall (l : list A) k,
  (k < List.length l)%nat -> nth k (upd_nth k f l) d = f (nth k l d).
Proof.
  induction l as [|a l IH]; intros k Hk; cbn [List.length] in Hk; [lia|].
  destruct k as [|k]; [reflexivity|]. cbn [upd_nth nth]. apply IH. lia.
Qed.

Lemma nth_upd_nth_other {A} (f : A -> A) d : forall (l : list A) j k,
  k <> j -> nth k (upd_nth j f l) d = nth k l d.
Proof.
  induction l as [|a l IH]; intros j k Hkj; [destruct j; reflexivity|].
  destruct j as [|j], k as [|k]; cbn [upd_nth nth]; try reflexivity; [lia|]. apply IH. lia.
Qed.

Lemma fold_set_length nval (l : list (Z * Z * R)) : forall fm,
  List.length (fold_left (fmat_set nval) l fm) = List.length fm.
Proof.
  induction l as [|p l IH]; intros fm; [reflexivity|]. cbn [fold_left].
  rewrite IH, fmat_set_upd. apply DscoreRankProofs.upd_nth_length.
Qed.

(* a position no write addresses keeps its content *)
Lemma fold_set_untouched nval (l : list (Z * Z * R)) k : forall fm,
  (forall p, In p l -> fpos nval p <> k) ->
  nth k (fold_left (fmat_set nval) l fm) 0%R = nth k fm 0%R.
Proof.
  induction l as [|p l IH]; intros fm Hno; [reflexivity|]. cbn [fold_left].
  rewrite IH by (intros q Hq; apply Hno; right; exact Hq).
  rewrite fmat_set_upd. apply nth_upd_nth_other.
  intros E. apply (Hno p (or_introl eq_refl)). symmetry. exact E.
Qed.

(* a position some write addresses holds the value of one of the writes addressing it *)
Lemma fold_set_written nval (l : list (Z * Z * R)) k : forall fm,
  (k < List.length fm)%nat -> (exists p, In p l /\ fpos nval p = k) ->
  exists q, In q l /\ fpos nval q = k /\ nth k (fold_left (fmat_set nval) l fm) 0%R = snd q.
Proof.
  induction l as [|p l IH]; intros fm Hk (p0 & Hp0 & Epos); [destruct Hp0|]. cbn [fold_left].
  destruct (Exists_dec (fun q => fpos nval q = k) l (fun q => Nat.eq_dec (fpos nval q) k)) as [Hex|Hno].
  - apply Exists_exists in Hex. destruct Hex as (q0 & Hq0 & Eq0).
    destruct (IH (fmat_set nval fm p)) as (q & Hq & Eq & Hv).
    + rewrite fmat_set_upd, DscoreRankProofs.upd_nth_length. exact Hk.
    + exists q0. auto.
    + exists q. split; [right; exact Hq|]. auto.
  - assert (Hno' : forall q, In q l -> fpos nval q <> k).
    { intros q Hq E. apply Hno. apply Exists_exists. exists q. auto. }
    destruct Hp0 as [<-|Hp0]; [|exfalso; exact (Hno' p0 Hp0 Epos)].
    exists p. split; [left; reflexivity|]. split; [exact Epos|].
    rewrite (fold_set_untouched nval l k _ Hno'), fmat_set_upd, Epos.
    apply nth_upd_nth_same. exact Hk.
Qed.

(* entry (i1, i2), i1 < i2, of the F matrix written by the kernel; the other entries are untouched *)
Lemma fm_out_entry eps sim fmat i1 i2 :
  List.length fmat = (List.length sim * List.length sim)%nat ->
  (i1 < i2 < List.length sim)%nat ->
  nth (i1 * List.length sim + i2) (fm_out eps sim fmat) 0%R
  = pairF RR KR eps (nth i1 sim []) (nth i2 sim []).
Proof.
  intros Hfm Hi. unfold fm_out. set (nv := List.length sim) in *.
  destruct (fold_set_written (Z.of_nat nv) (pairs_from RR KR eps 0 sim) (i1 * nv + i2) fmat)
    as (q & Hq & Eq & Hv).
  - rewrite Hfm. nia.
  - exists (0 + Z.of_nat i1, 0 + Z.of_nat i2, pairF RR KR eps (nth i1 sim []) (nth i2 sim []))%Z.
    split; [apply In_pairs_from; exists i1, i2; split; [exact Hi|reflexivity]|].
    unfold fpos. cbn [fst snd]. nia.
  - rewrite Hv. apply In_pairs_from in Hq. destruct Hq as (a & b & Hab & ->).
    unfold fpos in Eq. cbn [fst snd] in *. fold nv in Hab.
    assert (Ea : a = i1 /\ b = i2).
    { assert (E : (Z.of_nat a * Z.of_nat nv + Z.of_nat b = Z.of_nat i1 * Z.of_nat nv + Z.of_nat i2)%Z) by nia.
      assert (a = i1) by nia. subst a. split; [reflexivity|nia]. }
    destruct Ea as [-> ->]. reflexivity.
Qed.

Lemma fm_out_lower eps sim fmat i1 i2 :
  (i2 <= i1)%nat -> (i2 < List.length sim)%nat ->
  nth (i1 * List.length sim + i2) (fm_out eps sim fmat) 0%R = nth (i1 * List.length sim + i2) fmat 0%R.
Proof.
  intros Hle Hi2. unfold fm_out. apply fold_set_untouched.
  intros p Hp. apply In_pairs_from in Hp. destruct Hp as (a & b & Hab & ->).
  unfold fpos. cbn [fst snd]. set (nv := List.length sim) in *. intros E.
  assert (E' : (Z.of_nat a * Z.of_nat nv + Z.of_nat b = Z.of_nat i1 * Z.of_nat nv + Z.of_nat i2)%Z) by nia.
  assert (a = i1) by nia. subst a. assert (b = i2) by nia. lia.
Qed.

(* ================================================================== *)
(* the corollaries                                                      *)
(* ================================================================== *)

Lemma sim_row_nonempty ncol (sim : list (list R)) i :
  (1 <= ncol)%nat -> Forall (fun r => List.length r = ncol) sim -> (i < List.length sim)%nat ->
  List.length (nth i sim []) = ncol /\ nth i sim [] <> [].
Proof.
  intros Hnc Hrows Hi. rewrite Forall_forall in Hrows.
  pose proof (Hrows _ (nth_In sim [] Hi)) as Hlen. split; [exact Hlen|].
  intros E. rewrite E in Hlen. cbn in Hlen. lia.
Qed.

(* F IS THE MID-RANK COMPARISON OF WEIGEL AND MASON, ranks = 1 + accumulated increments.
   For every number of forecasts and of members, every eps accepted by the kernel, every tie
   pattern inside and across the ensembles - provided any two values are equal or farther apart
   than both tolerances - and any initial content of fmat and ranks, the translated c_ensrank
   returns 0, leaves sim unchanged and writes
   - in fmat[i1, i2], i1 < i2:  sum over the members a of forecast i1 and b of forecast i2 of
     (1 if a > b, 1/2 if a = b, 0 otherwise), divided by ncol^2;  the entries on and below the
     diagonal keep their initial content;
   - in ranks: 1 + the increments accumulated over the pairs ([delta]: u for the first
     forecast of a pair, 1 - u for the second, u = 0, 1/2 or 1 as F is below, at or above 1/2). *)
Theorem kernel_ensrank_F_is_midrank eps ncol sim fmat ranks n :
  (DS_EPS_MIN_R <= eps)%R -> all_separated eps sim -> ens_shapes ncol sim fmat ranks n ->
  exists fm rk,
    run_ensrank n eps ncol sim fmat ranks
      = Ok (RI 0%Z, [VArrF (List.concat sim); VArrF fm; VArrF rk]) /\
    List.length fm = List.length fmat /\
    (forall i1 i2, (i1 < i2 < List.length sim)%nat ->
       nth (i1 * List.length sim + i2) fm 0%R
       = (wm_sum (nth i1 sim []) (nth i2 sim []) / (INR ncol * INR ncol))%R) /\
    (forall i1 i2, (i2 <= i1)%nat -> (i2 < List.length sim)%nat ->
       nth (i1 * List.length sim + i2) fm 0%R = nth (i1 * List.length sim + i2) fmat 0%R) /\
    rk = map (fun d => (1 + d)%R) (delta ncol eps sim) /\
    (forall i1 i2, (i1 < List.length sim)%nat -> (i2 < List.length sim)%nat ->
       let F := pairF RR KR eps (nth i1 sim []) (nth i2 sim []) in
       uF ncol eps (nth i1 sim []) (nth i2 sim [])
       = (if Rltb F (1 / 2) then 0 else if Rltb (1 / 2) F then 1 else 1 / 2)%R).
Proof.
  intros Heps Hsep Hshapes.
  pose proof Hshapes as (Hnc & Hne & Hrows & Hfm & Hrk & Hn).
  exists (fm_out eps sim fmat), (map (fun d => (1 + d)%R) (delta ncol eps sim)).
  split; [|split; [|split; [|split; [|split]]]].
  - apply run_ensrank_model; try assumption. apply (all_separated_preorder eps). exact Hsep.
  - unfold fm_out. apply fold_set_length.
  - intros i1 i2 Hi. rewrite (fm_out_entry eps sim fmat i1 i2 Hfm Hi).
    destruct (sim_row_nonempty ncol sim i1 Hnc Hrows ltac:(lia)) as [Hlen Hnil].
    rewrite F_is_midrank; [rewrite Hlen; reflexivity|exact (proj2 (eps_ok eps Heps))|exact Hnil|].
    apply Hsep; apply nth_In; lia.
  - intros i1 i2 Hle Hi2. apply fm_out_lower; assumption.
  - reflexivity.
  - intros i1 i2 Hi1 Hi2 F. unfold uF.
    destruct (sim_row_nonempty ncol sim i1 Hnc Hrows Hi1) as [Hlen Hnil].
    rewrite <- Hlen. apply u_of_F_is_sign; [exact (proj2 (eps_ok eps Heps))|exact Hnil|].
    apply Hsep; apply nth_In; assumption.
Qed.

(* the ranks under the preorder hypothesis alone (no separation): whenever the tolerance
   comparator is total and transitive on every pooled pair of forecasts, the ranks written by the
   translated kernel are 1 + [delta] *)
Theorem kernel_ensrank_ranks eps ncol sim fmat ranks n :
  (DS_EPS_MIN_R <= eps)%R -> pairs_preorder RR KR sim -> ens_shapes ncol sim fmat ranks n ->
  exists fm,
    run_ensrank n eps ncol sim fmat ranks
      = Ok (RI 0%Z, [VArrF (List.concat sim); VArrF fm;
                     VArrF (map (fun d => (1 + d)%R) (delta ncol eps sim))]) /\
    List.length fm = List.length fmat.
Proof.
  intros Heps Hpre Hshapes. exists (fm_out eps sim fmat). split.
  - apply run_ensrank_model; assumption.
  - unfold fm_out. apply fold_set_length.
Qed.

(* FORECASTS THAT ORDER A LIST OF DISTINCT KEYS: when a forecast with a larger key has all its
   members above all members of a forecast with a smaller key, the rank the translated kernel
   writes for each forecast is 1 + the number of forecasts with a smaller key *)
Theorem kernel_ensrank_ordered_rows eps m (ks : list (R * list R)) fmat ranks n :
  (DS_EPS_MIN_R <= eps)%R -> NoDup (map fst ks) -> ordered_rows eps m ks ->
  ens_shapes m (map snd ks) fmat ranks n ->
  exists fm,
    run_ensrank n eps m (map snd ks) fmat ranks
      = Ok (RI 0%Z, [VArrF (List.concat (map snd ks)); VArrF fm;
                     VArrF (map (fun a => (1 + cntR (fun b : R * list R => Rltb (fst b) (fst a)) ks)%R) ks)]) /\
    List.length fm = List.length fmat.
Proof.
  intros Heps Hnd Hord Hshapes. pose proof Hshapes as (Hm & _).
  assert (Hsep : all_separated eps (map snd ks)).
  { intros r1 r2 H1 H2. apply in_map_iff in H1. apply in_map_iff in H2.
    destruct H1 as (a & <- & Ha). destruct H2 as (b & <- & Hb).
    destruct Hord as (_ & Hs & _). apply Hs; assumption. }
  destruct (kernel_ensrank_ranks eps m (map snd ks) fmat ranks n Heps
              (all_separated_preorder eps _ Hsep) Hshapes) as (fm & Hrun & Hlen).
  exists fm. split; [|exact Hlen]. rewrite Hrun.
  rewrite (delta_ordered eps m ks (proj2 (eps_ok eps Heps)) Hm Hnd Hord), map_map. reflexivity.
Qed.

(* ---------------- invariances ---------------- *)

Lemma pairs_from_ext (P : list R -> list R -> Prop) eps eps' :
  forall (rows rows' : list (list R)),
  Forall2 P rows rows' ->
  (forall r1 r1' r2 r2', In r1 rows -> In r2 rows -> P r1 r1' -> P r2 r2' ->
     pairF RR KR eps' r1' r2' = pairF RR KR eps r1 r2) ->
  forall i0, pairs_from RR KR eps' i0 rows' = pairs_from RR KR eps i0 rows.
Proof.
  intros rows rows' HF. induction HF as [|r1 r1' rest rest' Hr1 Hrest IH]; intros Hpair i0; [reflexivity|].
  cbn [pairs_from]. f_equal.
  - assert (Hblock : forall k, map (fun kr : Z * list R => (i0, (i0 + 1 + fst kr)%Z, pairF RR KR eps' r1' (snd kr)))
                                   (zenum k rest')
                               = map (fun kr : Z * list R => (i0, (i0 + 1 + fst kr)%Z, pairF RR KR eps r1 (snd kr)))
                                   (zenum k rest)).
    { assert (Hp : forall r2 r2', In r2 rest -> P r2 r2' -> pairF RR KR eps' r1' r2' = pairF RR KR eps r1 r2).
      { intros r2 r2' Hin HP. apply Hpair; [left; reflexivity|right; exact Hin|exact Hr1|exact HP]. }
      clear IH Hpair. induction Hrest as [|r2 r2' t t' H2 Ht IHt]; intros k; [reflexivity|].
      cbn [zenum map fst snd]. f_equal.
      - f_equal. apply Hp; [left; reflexivity|exact H2].
      - apply IHt. intros a a' Ha HP. apply Hp; [right; exact Ha|exact HP]. }
    apply Hblock.
  - apply IH. intros a a' b b' Ha Hb. apply Hpair; right; assumption.
Qed.

Lemma Forall2_length_eq {A B} (P : A -> B -> Prop) l l' : Forall2 P l l' -> List.length l' = List.length l.
Proof. induction 1; cbn; congruence. Qed.

(* the outputs on two inputs with the same number of forecasts on which the model agrees *)
Lemma run_ensrank_same eps eps' ncol sim sim' fmat ranks n (P : list R -> list R -> Prop) :
  (DS_EPS_MIN_R <= eps)%R -> (DS_EPS_MIN_R <= eps')%R ->
  pairs_preorder RR KR sim -> pairs_preorder RR KR sim' ->
  ens_shapes ncol sim fmat ranks n ->
  Forall2 P sim sim' -> (forall r r', P r r' -> List.length r' = List.length r) ->
  (forall r1 r1' r2 r2', In r1 sim -> In r2 sim -> P r1 r1' -> P r2 r2' ->
     pairF RR KR eps' r1' r2' = pairF RR KR eps r1 r2) ->
  exists fm rk,
    run_ensrank n eps ncol sim fmat ranks = Ok (RI 0%Z, [VArrF (List.concat sim); VArrF fm; VArrF rk]) /\
    run_ensrank n eps' ncol sim' fmat ranks = Ok (RI 0%Z, [VArrF (List.concat sim'); VArrF fm; VArrF rk]).
Proof.
  intros Heps Heps' Hpre Hpre' Hshapes HF Hlen Hpair.
  pose proof Hshapes as (Hnc & Hne & Hrows & Hfm & Hrk & Hn).
  pose proof (Forall2_length_eq P sim sim' HF) as HL.
  assert (Hshapes' : ens_shapes ncol sim' fmat ranks n).
  { split; [exact Hnc|]. split; [intros ->; destruct sim; [congruence|discriminate HL]|].
    split; [|rewrite HL; auto].
    clear -HF Hrows Hlen. induction HF as [|r r' t t' Hr Ht IH]; [constructor|].
    inversion Hrows; subst. constructor; [rewrite (Hlen _ _ Hr); reflexivity|apply IH; assumption]. }
  pose proof (ensrank_accepts eps ncol sim Heps Hnc Hne Hrows) as E.
  destruct Hshapes' as (_ & Hne' & Hrows' & _).
  pose proof (ensrank_accepts eps' ncol sim' Heps' Hnc Hne' Hrows') as E'.
  rewrite (pairs_from_ext P eps eps' sim sim' HF Hpair 0%Z) in E'.
  (* the ranks are a function of the pairs *)
  assert (Erk : map (fun d => (1 + d)%R) (delta ncol eps' sim') = map (fun d => (1 + d)%R) (delta ncol eps sim)).
  { pose proof E as E1. pose proof E' as E1'. unfold ensrank in E1, E1'.
    rewrite (proj1 (eps_ok eps Heps)) in E1. rewrite (proj1 (eps_ok eps' Heps')) in E1'.
    assert (Hc : match sim' with r :: _ => List.length r | [] => 0%nat end
                 = match sim with r :: _ => List.length r | [] => 0%nat end).
    { destruct HF as [|r r' t t' Hr _]; [reflexivity|]. apply (Hlen _ _ Hr). }
    rewrite Hc, HL in E1'.
    destruct (_ || _); [discriminate|].
    rewrite (pairs_from_ext P eps eps' sim sim' HF Hpair 0%Z) in E1'.
    injection E1 as E1. injection E1' as E1'.
    rewrite <- E1, <- E1'. f_equal.
    clear -HL. revert sim' HL. induction sim as [|a l IH]; intros [|a' l'] HL; try discriminate; [reflexivity|].
    cbn [map]. f_equal. apply IH. cbn in HL. lia. }
  exists (fm_out eps sim fmat), (map (fun d => (1 + d)%R) (delta ncol eps sim)). split.
  - apply run_ensrank_model; assumption.
  - unfold run_ensrank.
    rewrite (refine_c_ensrank_RR eps' sim' ncol fmat ranks n
               (pairs_preorder_agree RR KR sim' Hpre') Hrows'
               ltac:(rewrite HL; exact Hfm) ltac:(rewrite HL; exact Hrk) ltac:(rewrite HL; exact Hn)).
    rewrite E'. cbn [ens_outputs]. rewrite Erk, HL. reflexivity.
Qed.

(* INVARIANCE UNDER A PERMUTATION OF THE MEMBERS: permuting the members inside each forecast
   (row) changes neither the F matrix nor the ranks written by the translated kernel *)
Theorem kernel_ensrank_member_permutation_invariant eps ncol sim sim' fmat ranks n :
  (DS_EPS_MIN_R <= eps)%R -> all_separated eps sim -> ens_shapes ncol sim fmat ranks n ->
  Forall2 (@Permutation R) sim sim' ->
  exists fm rk,
    run_ensrank n eps ncol sim fmat ranks = Ok (RI 0%Z, [VArrF (List.concat sim); VArrF fm; VArrF rk]) /\
    run_ensrank n eps ncol sim' fmat ranks = Ok (RI 0%Z, [VArrF (List.concat sim'); VArrF fm; VArrF rk]).
Proof.
  intros Heps Hsep Hshapes HF.
  pose proof Hshapes as (Hnc & Hne & Hrows & _).
  assert (Hsep' : all_separated eps sim').
  { intros r1' r2' H1 H2.
    assert (Hback : forall r', In r' sim' -> exists r, In r sim /\ Permutation r r').
    { clear -HF. induction HF as [|r r' t t' Hr Ht IH]; intros x Hx; [destruct Hx|].
      destruct Hx as [<-|Hx]; [exists r; split; [left; reflexivity|exact Hr]|].
      destruct (IH x Hx) as (y & Hy & Hp). exists y. split; [right; exact Hy|exact Hp]. }
    destruct (Hback _ H1) as (r1 & Hr1 & P1). destruct (Hback _ H2) as (r2 & Hr2 & P2).
    apply (separated_perm eps (r1 ++ r2)); [apply Permutation_app; assumption|].
    apply Hsep; assumption. }
  apply (run_ensrank_same eps eps ncol sim sim' fmat ranks n (@Permutation R));
    try assumption; try (apply (all_separated_preorder eps); assumption).
  - intros r r' Hp. symmetry. apply Permutation_length. exact Hp.
  - intros r1 r1' r2 r2' H1 H2 P1 P2.
    apply F_member_permutation_invariant; try assumption.
    + exact (proj2 (eps_ok eps Heps)).
    + rewrite Forall_forall in Hrows. pose proof (Hrows r1 H1) as Hl. intros ->. cbn in Hl. lia.
    + apply Hsep; assumption.
Qed.

(* INVARIANCE UNDER A STRICTLY INCREASING RESCALING: applying a strictly increasing function g to
   every forecast value (with a tolerance eps' for which the rescaled values are again
   separated) changes neither the F matrix nor the ranks written by the translated kernel *)
Theorem kernel_ensrank_increasing_map_invariant eps eps' (g : R -> R) ncol sim fmat ranks n :
  (DS_EPS_MIN_R <= eps)%R -> (DS_EPS_MIN_R <= eps')%R ->
  (forall x y, (x < y)%R -> (g x < g y)%R) ->
  all_separated eps sim -> all_separated eps' (map (map g) sim) ->
  ens_shapes ncol sim fmat ranks n ->
  exists fm rk,
    run_ensrank n eps ncol sim fmat ranks = Ok (RI 0%Z, [VArrF (List.concat sim); VArrF fm; VArrF rk]) /\
    run_ensrank n eps' ncol (map (map g) sim) fmat ranks
      = Ok (RI 0%Z, [VArrF (List.concat (map (map g) sim)); VArrF fm; VArrF rk]).
Proof.
  intros Heps Heps' Hg Hsep Hsep' Hshapes.
  pose proof Hshapes as (Hnc & Hne & Hrows & _).
  apply (run_ensrank_same eps eps' ncol sim (map (map g) sim) fmat ranks n (fun r r' => r' = map g r));
    try assumption.
  - apply (all_separated_preorder eps); assumption.
  - apply (all_separated_preorder eps'); assumption.
  - clear. induction sim as [|r t IH]; constructor; [reflexivity|exact IH].
  - intros r r' ->. apply map_length.
  - intros r1 r1' r2 r2' H1 H2 -> ->.
    apply F_increasing_map_invariant; try assumption.
    + exact (proj2 (eps_ok eps Heps)).
    + exact (proj2 (eps_ok eps' Heps')).
    + rewrite Forall_forall in Hrows. pose proof (Hrows r1 H1) as Hl. intros ->. cbn in Hl. lia.
    + apply Hsep; assumption.
    + apply Hsep'; apply in_map; assumption.
Qed.

(* the abbreviations used in the statements above, unfolded; the last clause: the preorder
   hypothesis of the refinement theorem holds for separated forecasts *)
Theorem kernel_ensrank_defs :
  (forall n eps ncol sim fmat ranks,
     run_ensrank n eps ncol sim fmat ranks
     = exec_fun RR XRR program (S n) "c_ensrank"
         [AVF eps; AVI (Z.of_nat (List.length sim)); AVI (Z.of_nat ncol); AVArrF (List.concat sim);
          AVArrF fmat; AVArrF ranks]) /\
  (forall ncol sim fmat ranks n,
     ens_shapes ncol sim fmat ranks n <->
     (1 <= ncol)%nat /\ sim <> [] /\ Forall (fun r => List.length r = ncol) sim /\
     List.length fmat = (List.length sim * List.length sim)%nat /\
     List.length ranks = List.length sim /\
     (Nat.max (List.length sim) (2 * ncol) < n)%nat) /\
  (forall eps sim,
     all_separated eps sim <->
     (forall r1 r2, In r1 sim -> In r2 sim -> separated eps (r1 ++ r2))) /\
  (forall eps sim, all_separated eps sim -> pairs_preorder RR KR sim).
Proof.
  split; [reflexivity|]. split; [intros; split; intros H; exact H|].
  split; [intros; split; intros H; exact H|]. exact all_separated_preorder.
Qed.

(* ================================================================== *)
(* non-vacuity                                                          *)
(* ================================================================== *)
From Hy Require Import Proofs.DscoreExamples.

(* two forecasts of two members, keys 1 < 2, members {1, 2} below {3, 4}, eps = 1e-6: the
   hypotheses of the corollaries hold (ordered_rows_example of Proofs/DscoreExamples.v) *)
Definition ex_ks : list (R * list R) := combine [1; 2]%R [[1; 2]; [3; 4]]%R.

Lemma ex_eps : (DS_EPS_MIN_R <= 1 / 1000000)%R.
Proof. unfold DS_EPS_MIN_R. lra. Qed.

Lemma ex_shapes : ens_shapes 2 (map snd ex_ks) [9; 9; 9; 9]%R [9; 9]%R 5.
Proof.
  unfold ens_shapes, ex_ks. cbn [combine map snd List.length].
  split; [lia|]. split; [discriminate|]. split; [repeat constructor|].
  split; [reflexivity|]. split; [reflexivity|]. cbn. lia.
Qed.

Lemma ex_separated : all_separated (1 / 1000000) (map snd ex_ks).
Proof.
  destruct ordered_rows_example as (_ & _ & _ & _ & _ & _ & (_ & Hs & _) & _).
  intros r1 r2 H1 H2. apply in_map_iff in H1. apply in_map_iff in H2.
  destruct H1 as (a & <- & Ha). destruct H2 as (b & <- & Hb). apply Hs; assumption.
Qed.

(* the main corollary applied: F[0,1] is the Weigel-Mason sum of {1,2} against {3,4} over 2^2 *)
Example kernel_ensrank_example :
  exists fm rk,
    run_ensrank 5 (1 / 1000000) 2 [[1; 2]; [3; 4]]%R [9; 9; 9; 9]%R [9; 9]%R
      = Ok (RI 0%Z, [VArrF [1; 2; 3; 4]%R; VArrF fm; VArrF rk]) /\
    nth 1 fm 0%R = (wm_sum [1; 2] [3; 4] / (INR 2 * INR 2))%R /\ nth 2 fm 0%R = 9%R.
Proof.
  destruct (kernel_ensrank_F_is_midrank (1 / 1000000) 2 (map snd ex_ks) [9; 9; 9; 9]%R [9; 9]%R 5
              ex_eps ex_separated ex_shapes) as (fm & rk & Hrun & _ & Hup & Hlow & _).
  exists fm, rk. split; [exact Hrun|]. split.
  - apply (Hup 0%nat 1%nat). cbn. lia.
  - apply (Hlow 1%nat 0%nat); cbn; lia.
Qed.

(* ... and the ranks are 1 + the number of forecasts with a smaller key: 1, 2 *)
Example kernel_ensrank_ordered_example :
  exists fm,
    run_ensrank 5 (1 / 1000000) 2 [[1; 2]; [3; 4]]%R [9; 9; 9; 9]%R [9; 9]%R
      = Ok (RI 0%Z, [VArrF [1; 2; 3; 4]%R; VArrF fm;
                     VArrF (map (fun a => (1 + cntR (fun b : R * list R => Rltb (fst b) (fst a)) ex_ks)%R) ex_ks)]).
Proof.
  destruct ordered_rows_example as (_ & _ & _ & _ & Hnd & _ & Hord & _).
  destruct (kernel_ensrank_ordered_rows (1 / 1000000) 2 ex_ks [9; 9; 9; 9]%R [9; 9]%R 5
              ex_eps Hnd Hord ex_shapes) as (fm & Hrun & _).
  exists fm. exact Hrun.
Qed.

(* the same run in binary64 (vm_compute of the interpreter on the translated kernel): F = 0
   for the pair (0, 1), ranks 1 and 2 *)
Example kernel_ensrank_example_F64 :
  exec_fun F64 XF64 program 10 "c_ensrank"
    [AVF 0x1p-20%float; AVI 2; AVI 2; AVArrF [1; 2; 3; 4]%float; AVArrF [9; 9; 9; 9]%float;
     AVArrF [9; 9]%float]
  = Ok (RI 0%Z, [VArrF [1; 2; 3; 4]%float; VArrF [9; 0; 9; 9]%float; VArrF [1; 2]%float]).
Proof. vm_compute. reflexivity. Qed.
