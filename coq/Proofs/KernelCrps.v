(* C03 on the regenerated program: the property theorems of Proofs/CrpsMain.v
   (crps = its definition, exact decomposition, signs, uncertainty = CRPS of the
   climatology, the reliability table) transported through the refinement theorem
   of Proofs/RefineCrps.v.  Every statement is about [exec_fun RR XRR program] - the
   MiniC translation of src/hydrodiy/stat/c_crps.c regenerated from the tree under
   test (qsort = merge sort with the translated comparator) - run on real numbers
   with the arguments metrics.py passes (use_weights = 0, is_sorted = 0). *)
From Coq Require Import ZArith Bool List String Lia Reals Lra.
From Hy Require Import Base.Num Base.MiniC Gen.KernelsAst Gen.Consts Gen.ConstsC03 Model.Crps
  Proofs.CrpsSort Proofs.CrpsProofs Proofs.CrpsDefProofs Proofs.CrpsMain Proofs.RefineCrps.
Import ListNotations.
Open Scope string_scope.
Open Scope list_scope.

(* the call made by metrics.crps: nval forecasts, ncol members, no weights, unsorted
   ensembles; [wv] the (unused) weight vector, [rt0] the table buffer, five zeros
   for the decomposition *)
Definition run_crps (n : nat) (rows : list (R * list R)) (m : nat) (wv rt0 : list R) :=
  exec_fun RR XRR program (S n) "c_crps"
    [AVI (Z.of_nat (List.length rows)); AVI (Z.of_nat m); AVI CRPS_USE_WEIGHTS; AVI CRPS_IS_SORTED;
     AVArrF (map fst rows); AVArrF (List.concat (map snd rows)); AVArrF wv; AVArrF rt0;
     AVArrF [0%R; 0%R; 0%R; 0%R; 0%R]].

(* [run_crps] is the execution of the translated program, nothing else *)
Lemma run_crps_is_exec n rows m wv rt0 :
  run_crps n rows m wv rt0 =
  exec_fun RR XRR program (S n) "c_crps"
    [AVI (Z.of_nat (List.length rows)); AVI (Z.of_nat m); AVI 0%Z; AVI 0%Z;
     AVArrF (map fst rows); AVArrF (List.concat (map snd rows)); AVArrF wv; AVArrF rt0;
     AVArrF [0%R; 0%R; 0%R; 0%R; 0%R]].
Proof. reflexivity. Qed.

(* the run, with the model's output as the witness *)
Lemma kernel_crps_run m rows wv rt0 n :
  wfrows m rows ->
  List.length rt0 = (7 * S m)%nat ->
  (Nat.max (List.length rows) (S m) < n)%nat ->
  exists out, crps RR rows = Some out /\
    run_crps n rows m wv rt0 =
    Ok (RI 0%Z, [VArrF (map fst rows); VArrF (List.concat (map snd rows)); VArrF wv;
                 VArrF (table_vals (o_table out));
                 VArrF [o_crps out; o_reli out; o_resol out; o_unc out; o_pot out]]).
Proof.
  intros Hwf Hrt Hn. pose proof Hwf as (Hm & Hne & Hlen).
  pose proof (filter_valid_RR m rows Hm Hlen) as Hf.
  destruct (refine_c_crps_RR rows m wv rt0 n) as (out & Hout & Hrun).
  - rewrite Hf. exact Hne.
  - rewrite Hf. exact Hlen.
  - exact Hrt.
  - rewrite Hf. exact Hn.
  - exists out. split; [exact Hout|]. rewrite Hf in Hrun. exact Hrun.
Qed.

(* MAIN COROLLARY.  For EVERY n >= 1 forecasts of EVERY common size m >= 1 (ties of
   any kind), the translated kernel returns 0, leaves its three input arrays
   untouched and writes five numbers [crps; reli; resol; unc; pot] such that
     crps  = mean over the forecasts of E|X-y| - 1/2 E|X-X'|   (crps_def),
     crps  = reli + pot,   resol = unc - pot,
     reli, pot, unc, crps >= 0,
     unc   = the CRPS (same definition) of the observed climatology. *)
Theorem kernel_crps_decomposition m rows wv rt0 n :
  wfrows m rows ->
  List.length rt0 = (7 * S m)%nat ->
  (Nat.max (List.length rows) (S m) < n)%nat ->
  exists (table : list R) (crps reli resol unc pot : R),
    run_crps n rows m wv rt0 =
    Ok (RI 0%Z, [VArrF (map fst rows); VArrF (List.concat (map snd rows)); VArrF wv;
                 VArrF table; VArrF [crps; reli; resol; unc; pot]]) /\
    List.length table = (7 * S m)%nat /\
    crps = crps_def rows /\
    crps = (reli + pot)%R /\
    resol = (unc - pot)%R /\
    (0 <= reli)%R /\ (0 <= pot)%R /\ (0 <= unc)%R /\ (0 <= crps)%R /\
    unc = crps_def (climatology rows).
Proof.
  intros Hwf Hrt Hn.
  destruct (kernel_crps_run m rows wv rt0 n Hwf Hrt Hn) as (out & Hout & Hrun).
  pose proof (main_nonneg m rows out Hwf Hout) as (Hr & Hp & Hu).
  pose proof (main_table_rows m rows out Hwf Hout) as (Htl & _).
  exists (table_vals (o_table out)), (o_crps out), (o_reli out), (o_resol out), (o_unc out), (o_pot out).
  split; [exact Hrun|].
  split; [rewrite table_vals_length, Htl; reflexivity|].
  split; [exact (main_crps_is_definition m rows out Hwf Hout)|].
  split; [exact (main_crps_reli_pot m rows out Hwf Hout)|].
  split; [exact (main_resolution m rows out Hwf Hout)|].
  split; [exact Hr|]. split; [exact Hp|]. split; [exact Hu|].
  split; [exact (main_crps_nonneg m rows out Hwf Hout)|].
  exact (main_uncertainty_climatology m rows out Hwf Hout).
Qed.

(* one member per forecast: the number the translated kernel writes first is the
   mean absolute error *)
Theorem kernel_crps_single_member_is_mae rows wv rt0 n :
  wfrows 1 rows ->
  List.length rt0 = 14%nat ->
  (Nat.max (List.length rows) 2 < n)%nat ->
  exists (table : list R) (reli resol unc pot : R),
    run_crps n rows 1 wv rt0 =
    Ok (RI 0%Z, [VArrF (map fst rows); VArrF (List.concat (map snd rows)); VArrF wv;
                 VArrF table;
                 VArrF [(Rsum (map (fun r => Rabs (hd 0 (snd r) - fst r)) rows)
                           / INR (List.length rows))%R; reli; resol; unc; pot]]).
Proof.
  intros Hwf Hrt Hn.
  destruct (kernel_crps_run 1 rows wv rt0 n Hwf Hrt Hn) as (out & Hout & Hrun).
  exists (table_vals (o_table out)), (o_reli out), (o_resol out), (o_unc out), (o_pot out).
  rewrite <- (main_single_member rows out Hwf Hout). exact Hrun.
Qed.

(* the reliability table the translated kernel writes: m+1 rows of 7 numbers
   (freq, a, b, g, rank, reliability, potential - [trow_vals]); in every row the CRPS
   term a p^2 + b (1-p)^2 equals reliability + potential (g_r, g_c: the two columns
   where g > 0, else 0) with both parts non-negative, and in every row that counts
   (g > 0) the rank column is a frequency in [0,1] *)
Theorem kernel_crps_table m rows wv rt0 n :
  wfrows m rows ->
  List.length rt0 = (7 * S m)%nat ->
  (Nat.max (List.length rows) (S m) < n)%nat ->
  exists (tb : list trow) (dec : list R),
    run_crps n rows m wv rt0 =
    Ok (RI 0%Z, [VArrF (map fst rows); VArrF (List.concat (map snd rows)); VArrF wv;
                 VArrF (flat_map trow_vals tb); VArrF dec]) /\
    List.length tb = S m /\
    Forall (fun r => crps_term RR r = (g_r r + g_c r)%R /\ (0 <= g_r r)%R /\ (0 <= g_c r)%R) tb /\
    Forall (fun r => (0 < t_g r)%R -> (0 <= t_o r <= 1)%R) tb.
Proof.
  intros Hwf Hrt Hn.
  destruct (kernel_crps_run m rows wv rt0 n Hwf Hrt Hn) as (out & Hout & Hrun).
  pose proof (main_table_rows m rows out Hwf Hout) as (Htl & Htr).
  pose proof (main_table_frequencies m rows out Hwf Hout) as (Hfr & _).
  exists (o_table out), [o_crps out; o_reli out; o_resol out; o_unc out; o_pot out].
  split; [exact Hrun|]. split; [exact Htl|]. split; [exact Htr|exact Hfr].
Qed.

(* the hypotheses are satisfiable: three forecasts, three members, ties between
   members and between a member and the observation (CrpsMain.example_rows) *)
Example kernel_crps_example :
  exists (table : list R) (crps reli resol unc pot : R),
    run_crps 10 [(1, [2; 1; 1]); (0, [1; 3; 2]); (5, [4; 4; 0])]%R 3 [0%R] (repeat 0%R 28) =
    Ok (RI 0%Z, [VArrF [1; 0; 5]%R; VArrF [2; 1; 1; 1; 3; 2; 4; 4; 0]%R; VArrF [0%R];
                 VArrF table; VArrF [crps; reli; resol; unc; pot]]) /\
    crps = (reli + pot)%R /\ resol = (unc - pot)%R /\
    (0 <= reli)%R /\ (0 <= pot)%R /\ (0 <= unc)%R.
Proof.
  destruct (kernel_crps_decomposition 3 example_rows [0%R] (repeat 0%R 28) 10 example_wf)
    as (table & c & re & rs & u & p & Hrun & _ & _ & H1 & H2 & H3 & H4 & H5 & _).
  - reflexivity.
  - cbn. lia.
  - exists table, c, re, rs, u, p. repeat split; assumption.
Qed.
