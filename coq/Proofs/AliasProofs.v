(* C18 - proofs about the provenance model (Model/Alias.v). *)
From Coq Require Import ZArith List Bool String Lia Arith.
From Hy Require Import Base.Num Gen.ConstsC18 Model.Alias.
Import ListNotations.
Open Scope string_scope.

(* ------------------------------------------------------------------ *)
(* the enumeration of input classes is complete                         *)

Lemma all_desc_complete : forall d, In d all_desc.
Proof.
  intros [c t n l]. unfold all_desc.
  apply in_flat_map. exists c. split; [destruct c; simpl; tauto|].
  apply in_flat_map. exists t. split; [destruct t; simpl; tauto|].
  apply in_flat_map. exists n. split; [destruct n; simpl; tauto|].
  apply in_map. destruct l; simpl; tauto.
Qed.

(* ------------------------------------------------------------------ *)
(* view / copy families of idioms                                       *)

Definition is_fresh_idiom (o : op) : bool :=
  match o with OAstype _ | ONpArray | OMask | OArith | OCopy => true | _ => false end.

Definition is_view_idiom (o : op) : bool :=
  match o with
  | OAtleast1d | OAtleast2d | OSqueeze | OGuard1d | OId | OSlice | OTranspose | ONeedAttr => true
  | _ => false
  end.

Lemma fresh_idioms_copy : forall o d d' v,
  is_fresh_idiom o = true -> apply_op o d = Some (d', v) -> v = false.
Proof.
  intros o [c t n l] d' v Hf H. destruct o; try discriminate Hf; cbn in H.
  - destruct c; inversion H; reflexivity.
  - destruct c; cbn in H; inversion H; reflexivity.
  - destruct c, n; inversion H; reflexivity.
  - destruct c; inversion H; reflexivity.
  - destruct c; inversion H; reflexivity.
Qed.

Lemma view_idioms_alias : forall o d d' v,
  is_view_idiom o = true -> d_cont d = CNd -> apply_op o d = Some (d', v) -> v = true.
Proof.
  intros o [c t n l] d' v Hv Hc H. cbn in Hc. subst c.
  destruct o; try discriminate Hv; cbn in H; try (destruct n; inversion H; reflexivity);
    inversion H; reflexivity.
Qed.

(* np.ascontiguousarray(x, dtype=t) of an ndarray aliases x exactly when nothing has to change *)
Lemma ascontig_dt_view_iff : forall t d d',
  d_cont d = CNd -> d_nd d <> N0 ->
  (apply_op (OAsContigDt t) d = Some (d', true) <-> (d_dt d = t /\ d_lay d = LC /\ d' = d)).
Proof.
  intros t [c dt n l] d' Hc Hn. cbn in Hc, Hn. subst c. cbn.
  destruct dt, t, l, n; cbn; try congruence;
    (split; [intro H; inversion H; auto | intros [? [? ?]]; try discriminate; subst; reflexivity]).
Qed.

Lemma ascontig_view_iff : forall d d',
  d_cont d = CNd -> d_nd d <> N0 ->
  (apply_op OAsContig d = Some (d', true) <-> (d_lay d = LC /\ d' = d)).
Proof.
  intros [c dt n l] d' Hc Hn. cbn in Hc, Hn. subst c. cbn.
  destruct l, n; cbn; try congruence;
    (split; [intro H; inversion H; auto | intros [? ?]; try discriminate; subst; reflexivity]).
Qed.

(* ------------------------------------------------------------------ *)
(* provenance through a pipeline                                        *)

Lemma run_ops_app : forall ops1 ops2 d p,
  run_ops (ops1 ++ ops2) d p =
  match run_ops ops1 d p with Some (d1, p1) => run_ops ops2 d1 p1 | None => None end.
Proof.
  induction ops1 as [|o r IH]; intros ops2 d p; cbn; [reflexivity|].
  destruct (apply_op o d) as [[d' v]|]; [apply IH | reflexivity].
Qed.

Lemma run_ops_fresh_stays : forall ops d d' pr,
  run_ops ops d PFresh = Some (d', pr) -> pr = PFresh.
Proof.
  induction ops as [|o r IH]; intros d d' pr H; cbn in H.
  - inversion H; reflexivity.
  - destruct (apply_op o d) as [[d1 v]|]; [|discriminate].
    destruct v; eapply IH; eassumption.
Qed.

(* the result is the operand's memory or a fresh array, nothing else *)
Lemma run_ops_prov : forall ops d p d' pr,
  run_ops ops d p = Some (d', pr) -> pr = p \/ pr = PFresh.
Proof.
  induction ops as [|o r IH]; intros d p d' pr H; cbn in H.
  - inversion H; auto.
  - destruct (apply_op o d) as [[d1 v]|]; [|discriminate].
    destruct v; [eapply IH; eassumption | right; eapply run_ops_fresh_stays; eassumption].
Qed.

(* any pipeline, of any length, that contains astype / np.array / mask / arithmetic / copy
   hands a fresh array to whatever follows *)
Lemma copy_in_pipeline_fresh : forall ops1 o ops2 d p d' pr,
  is_fresh_idiom o = true ->
  run_ops (ops1 ++ o :: ops2) d p = Some (d', pr) -> pr = PFresh.
Proof.
  intros ops1 o ops2 d p d' pr Hf H. rewrite run_ops_app in H.
  destruct (run_ops ops1 d p) as [[d1 p1]|]; [|discriminate]. cbn in H.
  destruct (apply_op o d1) as [[d2 v]|] eqn:E; [|discriminate].
  rewrite (fresh_idioms_copy _ _ _ _ Hf E) in H.
  eapply run_ops_fresh_stays; eassumption.
Qed.

(* ------------------------------------------------------------------ *)
(* concrete runs refine the provenance analysis                         *)

Section Refine.
Variable A : Type.
Variable copyf : op -> A -> A.
Variable initf : desc -> A.

Notation crun := (crun_ops A copyf).
Notation cevals := (ceval_src A copyf initf).
Notation cevalp := (ceval_params A copyf initf).

Lemma upd_other : forall (h : heap A) b a x, x <> b -> upd A h b a x = h x.
Proof.
  intros h b a x Hx. unfold upd. destruct (Nat.eqb x b) eqn:E; [|reflexivity].
  apply Nat.eqb_eq in E. contradiction.
Qed.

Lemma crun_ops_abs : forall ops b d h n b' d' h' n' p,
  crun ops b d h n = Some (b', d', h', n') ->
  exists pr, run_ops ops d p = Some (d', pr) /\ n <= n' /\
             (forall x, x < n -> h' x = h x) /\
             ((pr = p /\ b' = b) \/ (pr = PFresh /\ n <= b' /\ b' < n')).
Proof.
  induction ops as [|o r IH]; intros b d h n b' d' h' n' p H; cbn in H.
  - inversion H; subst. exists p. cbn. repeat split; auto.
  - cbn. destruct (apply_op o d) as [[d1 v]|]; [|discriminate]. destruct v.
    + apply IH with (p := p) in H. exact H.
    + apply IH with (p := PFresh) in H. destruct H as [pr [H1 [H2 [H3 H4]]]].
      exists pr. split; [exact H1|]. split; [lia|]. split.
      * intros x Hx. rewrite H3 by lia. apply upd_other. lia.
      * right. destruct H4 as [[Hp Hb]|[Hp Hb]]; subst; (split; [reflexivity|]); lia.
Qed.

(* which block a provenance denotes *)
Definition prov_block (e : env) (lo hi : block) (pr : prov) (b : block) : Prop :=
  match pr with
  | PArg i => exists d, nth_error (e_args e) i = Some (b, d)
  | PGrid => exists d, e_self e = Some (b, d)
  | PState => b = e_state e
  | PGlobal => b = e_global e
  | PFresh => lo <= b /\ b < hi
  end.

Definition adescs (e : env) : list desc := map snd (e_args e).
Definition sdesc (e : env) : option desc := option_map snd (e_self e).

Lemma nth_error_adescs : forall e i b d,
  nth_error (e_args e) i = Some (b, d) -> nth_error (adescs e) i = Some d.
Proof.
  intros e i b d H. unfold adescs. rewrite nth_error_map, H. reflexivity.
Qed.

Lemma ceval_src_abs : forall s e h n b d' h' n',
  cevals s e h n = Some (b, d', h', n') ->
  exists pr, eval_src s (adescs e) (sdesc e) = Some (d', pr) /\ n <= n' /\
             (forall x, x < n -> h' x = h x) /\ prov_block e n n' pr b.
Proof.
  intros s e h n b d' h' n' H. destruct s as [i ops|ops|i ops|d|d|d]; cbn in H.
  - destruct (nth_error (e_args e) i) as [[b0 d0]|] eqn:E; [|discriminate].
    apply crun_ops_abs with (p := PArg i) in H. destruct H as [pr [H1 [H2 [H3 H4]]]].
    exists pr. cbn. rewrite (nth_error_adescs _ _ _ _ E). repeat split; auto.
    destruct H4 as [[Hp Hb]|[Hp Hb]]; subst; cbn; [exists d0; exact E | lia].
  - destruct (e_self e) as [[b0 d0]|] eqn:E; [|discriminate].
    apply crun_ops_abs with (p := PGrid) in H. destruct H as [pr [H1 [H2 [H3 H4]]]].
    exists pr. cbn. unfold sdesc. rewrite E. cbn. repeat split; auto.
    destruct H4 as [[Hp Hb]|[Hp Hb]]; subst; cbn; [exists d0; exact E | lia].
  - destruct (nth_error (e_args e) i) as [[b0 d0]|] eqn:E; [|discriminate].
    destruct (crun ops b0 d0 h n) as [[[[b1 d1] h1] n1]|] eqn:E1; [|discriminate].
    inversion H; subst. clear H.
    apply crun_ops_abs with (p := PArg i) in E1. destruct E1 as [pr [H1 [H2 [H3 H4]]]].
    exists PFresh. cbn. rewrite (nth_error_adescs _ _ _ _ E), H1. repeat split; try lia.
    intros x Hx. rewrite upd_other by lia. apply H3; exact Hx.
  - inversion H; subst. exists PState. cbn. repeat split; auto.
  - inversion H; subst. exists PGlobal. cbn. repeat split; auto.
  - inversion H; subst. exists PFresh. cbn. repeat split; try lia.
    intros x Hx. apply upd_other. lia.
Qed.

Lemma ceval_params_abs : forall ps e h n l h' n',
  cevalp ps e h n = Some (l, h', n') ->
  n <= n' /\ (forall x, x < n -> h' x = h x) /\
  forall p b d, In (p, b, d) l ->
    exists s pr, In (p, s) ps /\ eval_src s (adescs e) (sdesc e) = Some (d, pr) /\
                 prov_block e n n' pr b.
Proof.
  induction ps as [|[p s] r IH]; intros e h n l h' n' H; cbn in H.
  - inversion H; subst. repeat split; auto. intros p b d [].
  - destruct (cevals s e h n) as [[[[b1 d1] h1] n1]|] eqn:E; [|discriminate].
    destruct (cevalp r e h1 n1) as [[[l2 h2] n2]|] eqn:E2; [|discriminate].
    inversion H; subst. clear H.
    apply ceval_src_abs in E. destruct E as [pr [H1 [H2 [H3 H4]]]].
    apply IH in E2. destruct E2 as [G1 [G2 G3]].
    split; [lia|]. split.
    + intros x Hx. rewrite G2 by lia. apply H3; exact Hx.
    + intros p0 b d [Heq|Hin].
      * inversion Heq; subst. exists s, pr. split; [left; reflexivity|]. split; [exact H1|].
        destruct pr; cbn in *; auto. lia.
      * destruct (G3 _ _ _ Hin) as [s0 [pr0 [I1 [I2 I3]]]].
        exists s0, pr0. split; [right; exact I1|]. split; [exact I2|].
        destruct pr0; cbn in *; auto. lia.
Qed.

(* the static check speaks about the class the argument really has *)
Lemma src_ok_sound : forall en p s args self d pr,
  src_ok en p s = true -> eval_src s args self = Some (d, pr) ->
  accepted en p d = true -> written en p = true -> writable pr = true.
Proof.
  intros en p s args self d pr Hok Hev Hacc Hw.
  destruct s as [i ops|ops|i ops|d0|d0|d0]; unfold src_ok in Hok; cbn [eval_src] in Hev.
  - destruct (nth_error args i) as [d1|]; [|discriminate].
    rewrite forallb_forall in Hok. specialize (Hok d1 (all_desc_complete d1)).
    rewrite Hev in Hok. unfold result_ok in Hok. rewrite Hacc, Hw in Hok. exact Hok.
  - destruct self as [d1|]; [|discriminate].
    rewrite forallb_forall in Hok. specialize (Hok d1 (all_desc_complete d1)).
    rewrite Hev in Hok. unfold result_ok in Hok. rewrite Hacc, Hw in Hok. exact Hok.
  - destruct (nth_error args i) as [d1|]; [|discriminate].
    destruct (run_ops ops d1 (PArg i)) as [[d2 p2]|]; [|discriminate].
    inversion Hev; reflexivity.
  - inversion Hev; subst. unfold result_ok in Hok. rewrite Hacc, Hw in Hok. exact Hok.
  - inversion Hev; subst. unfold result_ok in Hok. rewrite Hacc, Hw in Hok. exact Hok.
  - inversion Hev; reflexivity.
Qed.

Lemma all_accepted_in : forall en l p b d,
  all_accepted en l = true -> In (p, b, d) l -> accepted en p d = true.
Proof.
  intros en l p b d H Hin. unfold all_accepted in H. rewrite forallb_forall in H.
  exact (H _ Hin).
Qed.

(* THE FRAME PROPERTY.  Whatever the kernels do within their write-sets,
   whatever the classes of the arguments, wherever the wrapper stops: every
   block that existed before the call, other than the object's own derived
   state, holds what it held. *)
Theorem exec_frame : forall e cs h n h' n',
  exec A copyf initf e cs h n h' n' ->
  forall n0, env_wf e n0 -> n0 <= n -> forallb call_ok cs = true ->
  forall x, x < n0 -> x <> e_state e -> h' x = h x.
Proof.
  intros e cs h n h' n' Hex. induction Hex; intros n0 Hwf Hn Hok x Hx Hxs.
  - reflexivity.
  - reflexivity.
  - apply ceval_params_abs in H. destruct H as [_ [H2 _]]. apply H2. lia.
  - cbn in Hok. apply andb_prop in Hok. destruct Hok as [Hc Hcs].
    pose proof (ceval_params_abs _ _ _ _ _ _ _ H) as [G1 [G2 G3]].
    rewrite (IHHex n0 Hwf ltac:(lia) Hcs x Hx Hxs).
    rewrite (H1 x); [apply G2; lia|].
    intros p b' d Hin Hw Hb. subst b'.
    destruct (G3 _ _ _ Hin) as [s [pr [I1 [I2 I3]]]].
    unfold call_ok in Hc. rewrite forallb_forall in Hc. specialize (Hc _ I1). cbn in Hc.
    pose proof (src_ok_sound _ _ _ _ _ _ _ Hc I2 (all_accepted_in _ _ _ _ _ H0 Hin) Hw) as Hwr.
    destruct pr; cbn in Hwr; try discriminate; cbn in I3.
    + contradiction.
    + lia.
Qed.

End Refine.

Theorem pipeline_sound : forall (A : Type) (copyf : op -> A -> A) (initf : desc -> A)
    (w : wrapper) (e : env) (h0 : heap A) (n0 : block) (h' : heap A) (n' : block),
  check w = true -> env_wf e n0 ->
  exec A copyf initf e (w_calls w) h0 n0 h' n' ->
  forall x, x < n0 -> x <> e_state e -> h' x = h0 x.
Proof.
  intros A copyf initf w e h0 n0 h' n' Hc Hwf Hex x Hx Hxs.
  exact (exec_frame A copyf initf e _ _ _ _ _ Hex n0 Hwf (le_n _) Hc x Hx Hxs).
Qed.

(* in particular the caller's arguments, the grid of the object and the module constant *)
Corollary arguments_untouched : forall (A : Type) copyf initf (w : wrapper) (e : env) (h0 : heap A) n0 h' n',
  check w = true -> env_wf e n0 ->
  exec A copyf initf e (w_calls w) h0 n0 h' n' ->
  (forall b d, In (b, d) (e_args e) -> h' b = h0 b) /\
  (forall b d, e_self e = Some (b, d) -> h' b = h0 b) /\
  h' (e_global e) = h0 (e_global e).
Proof.
  intros A copyf initf w e h0 n0 h' n' Hc Hwf Hex.
  pose proof (pipeline_sound A copyf initf w e h0 n0 h' n' Hc Hwf Hex) as P.
  destruct Hwf as [W1 [W2 [W3 [W4 W5]]]].
  split; [|split].
  - intros b d Hin. destruct (W1 _ _ Hin). apply P; assumption.
  - intros b d Hs. destruct (W2 _ _ Hs). apply P; assumption.
  - apply P; assumption.
Qed.

(* ------------------------------------------------------------------ *)
(* every transcribed wrapper passes the check (against the regenerated
   write-sets and contracts)                                            *)

Lemma all_wrappers_checked : forallb check WRAPPERS = true.
Proof. vm_compute. reflexivity. Qed.

Lemma callsites_all_covered : callsites_covered = true.
Proof. vm_compute. reflexivity. Qed.

Lemma wrappers_well_formed : wrappers_wf = true.
Proof. vm_compute. reflexivity. Qed.

Lemma wrapper_checked : forall w, In w WRAPPERS -> check w = true.
Proof.
  intros w Hin. pose proof all_wrappers_checked as H. rewrite forallb_forall in H. exact (H w Hin).
Qed.


(* one statement per transcribed wrapper *)
Lemma check_crps : check w_crps = true.
Proof. vm_compute. reflexivity. Qed.
Lemma check_ad : check w_ad = true.
Proof. vm_compute. reflexivity. Qed.
Lemma check_alpha : check w_alpha = true.
Proof. vm_compute. reflexivity. Qed.
Lemma check_dscore : check w_dscore = true.
Proof. vm_compute. reflexivity. Qed.
Lemma check_pareto : check w_pareto = true.
Proof. vm_compute. reflexivity. Qed.
Lemma check_arsim : check w_arsim = true.
Proof. vm_compute. reflexivity. Qed.
Lemma check_arres : check w_arres = true.
Proof. vm_compute. reflexivity. Qed.
Lemma check_aggregate : check w_aggregate = true.
Proof. vm_compute. reflexivity. Qed.
Lemma check_flathomogen : check w_flathomogen = true.
Proof. vm_compute. reflexivity. Qed.
Lemma check_goue : check w_goue = true.
Proof. vm_compute. reflexivity. Qed.
Lemma check_var2h : check w_var2h = true.
Proof. vm_compute. reflexivity. Qed.
Lemma check_islinear : check w_islinear = true.
Proof. vm_compute. reflexivity. Qed.
Lemma check_eckhardt : check w_eckhardt = true.
Proof. vm_compute. reflexivity. Qed.
Lemma check_coord2cell : check w_coord2cell = true.
Proof. vm_compute. reflexivity. Qed.
Lemma check_cell2coord : check w_cell2coord = true.
Proof. vm_compute. reflexivity. Qed.
Lemma check_cell2rowcol : check w_cell2rowcol = true.
Proof. vm_compute. reflexivity. Qed.
Lemma check_neighbours : check w_neighbours = true.
Proof. vm_compute. reflexivity. Qed.
Lemma check_slice : check w_slice = true.
Proof. vm_compute. reflexivity. Qed.
Lemma check_pip : check w_pip = true.
Proof. vm_compute. reflexivity. Qed.
Lemma check_cells_inside : check w_cells_inside = true.
Proof. vm_compute. reflexivity. Qed.
Lemma check_upstream : check w_upstream = true.
Proof. vm_compute. reflexivity. Qed.
Lemma check_downstream : check w_downstream = true.
Proof. vm_compute. reflexivity. Qed.
Lemma check_delineate_area : check w_delineate_area = true.
Proof. vm_compute. reflexivity. Qed.
Lemma check_boundary : check w_boundary = true.
Proof. vm_compute. reflexivity. Qed.
Lemma check_boundary_mask : check w_boundary_mask = true.
Proof. vm_compute. reflexivity. Qed.
Lemma check_flowpaths : check w_flowpaths = true.
Proof. vm_compute. reflexivity. Qed.
Lemma check_intersect : check w_intersect = true.
Proof. vm_compute. reflexivity. Qed.
Lemma check_river : check w_river = true.
Proof. vm_compute. reflexivity. Qed.
Lemma check_accumulate : check w_accumulate = true.
Proof. vm_compute. reflexivity. Qed.
Lemma check_slope : check w_slope = true.
Proof. vm_compute. reflexivity. Qed.
Lemma check_voronoi : check w_voronoi = true.
Proof. vm_compute. reflexivity. Qed.

(* the kernels that store through an INPUT parameter (the reason the property exists) *)
Lemma ad_test_sorts_its_input : written "stat.ad_test" "unifdata" = true.
Proof. vm_compute. reflexivity. Qed.
Lemma delineate_boundary_sorts_its_input : written "gis.delineate_boundary" "idxcells_area" = true.
Proof. vm_compute. reflexivity. Qed.

(* ... and a wrapper that handed the caller's array to such a kernel would not pass *)
Definition w_ad_nocopy := mkw "metrics.anderson_darling_test"
  [mkcall "stat.ad_test" [("unifdata", SArg 0 [OAtleast1d; OAsContigDt DF64]); ("outputs", SAlloc (a1 DF64))]].
Lemma ad_without_copy_rejected : check w_ad_nocopy = false.
Proof. vm_compute. reflexivity. Qed.

(* ------------------------------------------------------------------ *)
(* witnesses                                                            *)

Definition ex_env : env := mkenv [(0, mkd CNd DF64 N1 LC)] None 1 2.
Definition ex_h0 : heap nat := fun b => match b with 0 => 42 | 1 => 7 | 2 => 9 | _ => 0 end.

Lemma ex_env_wf : env_wf ex_env 3.
Proof.
  unfold env_wf, ex_env; cbn. repeat split; try lia.
  - destruct H as [H|[]]. inversion H; lia.
  - destruct H as [H|[]]. inversion H; lia.
  - discriminate.
  - discriminate.
Qed.

(* a run of anderson_darling_test in which the kernel does overwrite (sort) its
   input buffer: the hypotheses of [pipeline_sound] are met by an execution that
   really writes - into block 3, the copy made by astype *)
Lemma ad_exec_example :
  exists h' n', exec nat (fun _ a => a) (fun _ => 0) ex_env (w_calls w_ad) ex_h0 3 h' n' /\
                h' 3 <> ex_h0 0 /\ h' 0 = ex_h0 0.
Proof.
  set (h1 := upd nat (upd nat ex_h0 3 42) 4 0).
  exists (upd nat (upd nat h1 3 5) 4 6), 5. split; [|split; [cbn; discriminate | reflexivity]].
  unfold w_ad; cbn [w_calls].
  eapply ex_call with (l := [("unifdata", 3, mkd CNd DF64 N1 LC); ("outputs", 4, mkd CNd DF64 N1 LC)])
                      (h1 := h1) (n1 := 5) (h2 := upd nat (upd nat h1 3 5) 4 6).
  - reflexivity.
  - vm_compute. reflexivity.
  - intros b Hb. unfold upd.
    destruct (Nat.eqb b 4) eqn:E4.
    + apply Nat.eqb_eq in E4. subst b. exfalso.
      apply (Hb "outputs" 4 (mkd CNd DF64 N1 LC)); [right; left; reflexivity | vm_compute; reflexivity | reflexivity].
    + destruct (Nat.eqb b 3) eqn:E3.
      * apply Nat.eqb_eq in E3. subst b. exfalso.
        apply (Hb "unifdata" 3 (mkd CNd DF64 N1 LC)); [left; reflexivity | vm_compute; reflexivity | reflexivity].
      * unfold h1, upd. rewrite E4, E3. reflexivity.
  - apply ex_done.
Qed.

(* the pinned putils.kde: `xy += noise` on (a transposed view of) the caller's
   array.  The check rejects it, and there is an execution that changes the
   caller's block. *)
Lemma kde_pinned_check : check w_kde_pinned = false.
Proof. vm_compute. reflexivity. Qed.

Lemma kde_pinned_mutates :
  exists h' n', exec nat (fun _ a => a) (fun _ => 0)
                     (mkenv [(0, mkd CNd DF64 N2 LC)] None 1 2) (w_calls w_kde_pinned) ex_h0 3 h' n' /\
                h' 0 <> ex_h0 0.
Proof.
  exists (upd nat ex_h0 0 43), 3. split; [|cbn; discriminate].
  unfold w_kde_pinned; cbn [w_calls].
  eapply ex_call with (l := [("self", 0, mkd CNd DF64 N2 LF)]) (h1 := ex_h0) (n1 := 3)
                      (h2 := upd nat ex_h0 0 43).
  - reflexivity.
  - vm_compute. reflexivity.
  - intros b Hb. apply upd_other. intro; subst b.
    apply (Hb "self" 0 (mkd CNd DF64 N2 LF)); [left; reflexivity | vm_compute; reflexivity | reflexivity].
  - apply ex_done.
Qed.

Lemma kde_repaired_check : check w_kde = true.
Proof. vm_compute. reflexivity. Qed.

(* the pinned sutils.lstsq(add_intercept=True): X.loc[:, "intercept"] = ones on the caller's frame *)
Lemma lstsq_pinned_check : check w_lstsq_pinned = false.
Proof. vm_compute. reflexivity. Qed.

Lemma lstsq_pinned_mutates :
  exists h' n', exec nat (fun _ a => a) (fun _ => 0)
                     (mkenv [(0, mkd CFrame DF64 N2 LF)] None 1 2) (w_calls w_lstsq_pinned) ex_h0 3 h' n' /\
                h' 0 <> ex_h0 0.
Proof.
  exists (upd nat ex_h0 0 43), 3. split; [|cbn; discriminate].
  unfold w_lstsq_pinned; cbn [w_calls].
  eapply ex_call with (l := [("self", 0, mkd CFrame DF64 N2 LF)]) (h1 := ex_h0) (n1 := 3)
                      (h2 := upd nat ex_h0 0 43).
  - reflexivity.
  - vm_compute. reflexivity.
  - intros b Hb. apply upd_other. intro; subst b.
    apply (Hb "self" 0 (mkd CFrame DF64 N2 LF)); [left; reflexivity | vm_compute; reflexivity | reflexivity].
  - apply ex_done.
Qed.

Lemma lstsq_repaired_check : check w_lstsq = true.
Proof. vm_compute. reflexivity. Qed.

(* Python-level stores of the listed functions go into copies *)
Lemma pystores_checked : forallb check PYSTORES = true.
Proof. vm_compute. reflexivity. Qed.
