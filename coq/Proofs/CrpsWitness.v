(* C03: binary64 witness for the defect of the pinned kernel (outlier frequency
   o[0] = sum of n copies of 1/n > 1 makes the potential CRPS negative), and
   the same input through the repaired kernel.  Computed by vm_compute on the
   F64 instance of the model; the same input is replayed on the real code by
   the harness (corpus/C03/potential_negative_n9.json). *)
From Coq Require Import ZArith Bool List PrimFloat.
From Hy Require Import Base.Num Gen.ConstsC03 Model.Crps.
Import ListNotations.
Open Scope float_scope.

(* nine forecasts, every observation (0) below its whole ensemble {1, 2} *)
Definition witness_rows : list (float * list float) := repeat (0, [1; 2]) 9.

Definition pot_negative (o : option (@crout float)) : bool :=
  match o with Some out => PrimFloat.ltb (o_pot out) 0 | None => false end.
Definition pot_nonneg (o : option (@crout float)) : bool :=
  match o with Some out => PrimFloat.leb 0 (o_pot out) | None => false end.

Lemma pinned_potential_negative :
  exists rows, pot_negative (crps_pinned F64 rows) = true.
Proof. exists witness_rows. vm_compute. reflexivity. Qed.

Lemma repaired_potential_on_witness :
  pot_nonneg (crps F64 witness_rows) = true.
Proof. vm_compute. reflexivity. Qed.
