(* Theorems about Model/GridIO.v (property C13), part 4: Grid.clip over the
   real numbers - the clip is the block of parent cells spanned by the cells of
   the two corners; every clip cell has the centre and the value of the parent
   cell it coincides with. *)
From Coq Require Import ZArith Bool List String Reals Lra Lia Psatz.
From Hy Require Import Base.Num Gen.ConstsC13 Model.Grid Model.GridIO
  Proofs.GridGeomProofs Proofs.GridIOHeaderProofs.
Import ListNotations.
Open Scope list_scope. Open Scope Z_scope.

(* ---------------- windows of a row-major array ---------------- *)
Lemma zrange_length s n : List.length (zrange s n) = n.
Proof. revert s. induction n; intros s; simpl; [reflexivity|]. rewrite IHn. reflexivity. Qed.

Lemma nth_zrange n : forall s i d, (i < n)%nat -> nth i (zrange s n) d = s + Z.of_nat i.
Proof.
  induction n; intros s i d H; [lia|]. destruct i; simpl.
  - lia.
  - rewrite IHn by lia. lia.
Qed.

Lemma nth_flat_map_rows {A B} (f : A -> list B) (w : nat) (d : B) (a0 : A) :
  (forall r, List.length (f r) = w) ->
  forall rows i j, (j < w)%nat -> (i < List.length rows)%nat ->
  nth (i * w + j) (flat_map f rows) d = nth j (f (nth i rows a0)) d.
Proof.
  intros Hw. induction rows as [|a rows IH]; intros i j Hj Hi; [simpl in Hi; lia|].
  cbn [flat_map]. destruct i.
  - simpl. rewrite app_nth1 by (rewrite Hw; assumption). reflexivity.
  - replace (S i * w + j)%nat with (List.length (f a) + (i * w + j))%nat by (rewrite Hw; lia).
    rewrite app_nth2_plus. cbn [nth]. apply IH; [assumption | simpl in Hi; lia].
Qed.

Lemma window_cell nc data row0 nrows' col0 ncols' i j :
  0 <= i < nrows' -> 0 <= j < ncols' ->
  zn (window nc data row0 nrows' col0 ncols') (i * ncols' + j) 0 =
  zn data ((row0 + i) * nc + (col0 + j)) 0.
Proof.
  intros Hi Hj. unfold window, zn.
  replace (Z.to_nat (i * ncols' + j)) with (Z.to_nat i * Z.to_nat ncols' + Z.to_nat j)%nat by nia.
  rewrite (nth_flat_map_rows _ (Z.to_nat ncols') 0 0).
  - rewrite nth_zrange by lia.
    rewrite (nth_indep _ 0 (nth (Z.to_nat ((row0 + Z.of_nat (Z.to_nat i)) * nc + col0)) data 0)).
    2:{ rewrite map_length, zrange_length. lia. }
    rewrite (map_nth (fun c => nth (Z.to_nat ((row0 + Z.of_nat (Z.to_nat i)) * nc + c)) data 0)
                     (zrange col0 (Z.to_nat ncols')) col0).
    rewrite nth_zrange by lia. rewrite !Z2Nat.id by lia. reflexivity.
  - intros r. rewrite map_length, zrange_length. reflexivity.
  - lia.
  - rewrite zrange_length. lia.
Qed.

(* ---------------- a point inside the extent lies in a cell ---------------- *)
Open Scope R_scope.

Lemma Int_part_mono a b : a <= b -> (Int_part a <= Int_part b)%Z.
Proof.
  intros H. destruct (base_Int_part a) as [A1 _]. destruct (base_Int_part b) as [_ B2].
  assert (IZR (Int_part a) < IZR (Int_part b + 1)) by (rewrite plus_IZR; lra).
  apply lt_IZR in H0. lia.
Qed.

Lemma Int_part_lt x (k : Z) : x < IZR k -> (Int_part x < k)%Z.
Proof. intros H. destruct (base_Int_part x) as [A _]. apply lt_IZR. lra. Qed.

Lemma inside_cell nrows ncols x0 y0 csz x y :
  0 < csz -> x0 <= x < x0 + csz * IZR ncols -> y0 <= y < y0 + csz * IZR nrows ->
  let fx := Int_part ((x - x0) / csz) in
  let fy := Int_part ((y - y0) / csz) in
  (0 <= fx < ncols)%Z /\ (0 <= fy < nrows)%Z /\
  coord2cell RR nrows ncols x0 y0 csz (x, y) = ((nrows - 1 - fy) * ncols + fx)%Z.
Proof.
  intros Hc Hx Hy fx fy.
  set (qx := (x - x0) / csz) in *. set (qy := (y - y0) / csz) in *.
  assert (Ex : x - x0 = qx * csz) by (unfold qx; field; lra).
  assert (Ey : y - y0 = qy * csz) by (unfold qy; field; lra).
  assert (Qx : 0 <= qx < IZR ncols) by (split; nra).
  assert (Qy : 0 <= qy < IZR nrows) by (split; nra).
  assert (Fx : (0 <= fx < ncols)%Z) by (split; [apply (floor_ge qx 0); lra | apply Int_part_lt; lra]).
  assert (Fy : (0 <= fy < nrows)%Z) by (split; [apply (floor_ge qy 0); lra | apply Int_part_lt; lra]).
  split; [assumption|]. split; [assumption|].
  unfold coord2cell. cbn [nfloor RR R_floor fst snd nsub ndiv]. fold qx qy fx fy.
  destruct ((fx <? 0) || (ncols <=? fx) || (nrows - 1 - fy <? 0) || (nrows <=? nrows - 1 - fy))%Z eqn:E;
    [|reflexivity].
  rewrite !orb_true_iff, !Z.ltb_lt, !Z.leb_le in E. lia.
Qed.

Lemma ntwo_RR : ntwo RR = 2.
Proof. unfold ntwo; cbn. lra. Qed.

(* ---------------- Grid.clip ---------------- *)
Theorem clip_centres (IO : IoOps R) (m : gmeta R) (data : list Z) (xll yll xur yur : R) :
  0 < g_csz m -> (0 < g_nrows m < 2 ^ 63)%Z -> (0 < g_ncols m < 2 ^ 63)%Z ->
  conv_nodata RR IO (g_dtype m) (g_nodata m) = Some (g_nodata m) ->
  g_xll m <= xll <= xur -> xur < g_xll m + g_csz m * IZR (g_ncols m) ->
  g_yll m <= yll <= yur -> yur < g_yll m + g_csz m * IZR (g_nrows m) ->
  exists r,
    clip RR IO m data xll yll xur yur = Some r /\
    (0 <= k_row0 r <= k_row1 r)%Z /\ (k_row1 r < g_nrows m)%Z /\
    (0 <= k_col0 r <= k_col1 r)%Z /\ (k_col1 r < g_ncols m)%Z /\
    g_nrows (k_meta r) = (k_row1 r - k_row0 r + 1)%Z /\
    g_ncols (k_meta r) = (k_col1 r - k_col0 r + 1)%Z /\
    coord2cell RR (g_nrows m) (g_ncols m) (g_xll m) (g_yll m) (g_csz m) (xll, yll)
      = (k_row1 r * g_ncols m + k_col0 r)%Z /\
    coord2cell RR (g_nrows m) (g_ncols m) (g_xll m) (g_yll m) (g_csz m) (xur, yur)
      = (k_row0 r * g_ncols m + k_col1 r)%Z /\
    g_csz (k_meta r) = g_csz m /\ g_dtype (k_meta r) = g_dtype m /\ g_nodata (k_meta r) = g_nodata m /\
    (* parent bookkeeping *)
    lookup "parentgrid_rows_start" (g_parent (k_meta r)) = Some (PInt (k_row0 r)) /\
    lookup "parentgrid_rows_end" (g_parent (k_meta r)) = Some (PInt (k_row1 r)) /\
    lookup "parentgrid_cols_start" (g_parent (k_meta r)) = Some (PInt (k_col0 r)) /\
    lookup "parentgrid_cols_end" (g_parent (k_meta r)) = Some (PInt (k_col1 r)) /\
    forall i j, (0 <= i < g_nrows (k_meta r))%Z -> (0 <= j < g_ncols (k_meta r))%Z ->
      cell2coord RR (g_nrows (k_meta r)) (g_ncols (k_meta r)) (g_xll (k_meta r)) (g_yll (k_meta r))
                 (g_csz (k_meta r)) (i * g_ncols (k_meta r) + j) =
      cell2coord RR (g_nrows m) (g_ncols m) (g_xll m) (g_yll m) (g_csz m)
                 ((k_row0 r + i) * g_ncols m + (k_col0 r + j)) /\
      zn (k_data r) (i * g_ncols (k_meta r) + j) 0%Z =
      zn data ((k_row0 r + i) * g_ncols m + (k_col0 r + j)) 0%Z.
Proof.
  destruct m as [name nc nr csz x0 y0 d nd comment par].
  cbn [g_name g_ncols g_nrows g_csz g_xll g_yll g_dtype g_nodata g_comment g_parent].
  intros Hc Hnr Hnc Hnd Hx Hx2 Hy Hy2.
  destruct (inside_cell nr nc x0 y0 csz xll yll Hc) as (Fx0 & Fy0 & E0); [lra | lra |].
  destruct (inside_cell nr nc x0 y0 csz xur yur Hc) as (Fx1 & Fy1 & E1); [lra | lra |].
  set (fx0 := Int_part ((xll - x0) / csz)) in *. set (fy0 := Int_part ((yll - y0) / csz)) in *.
  set (fx1 := Int_part ((xur - x0) / csz)) in *. set (fy1 := Int_part ((yur - y0) / csz)) in *.
  assert (Mx : (fx0 <= fx1)%Z).
  { apply Int_part_mono. apply Rmult_le_compat_r; [left; apply Rinv_0_lt_compat; assumption | lra]. }
  assert (My : (fy0 <= fy1)%Z).
  { apply Int_part_mono. apply Rmult_le_compat_r; [left; apply Rinv_0_lt_compat; assumption | lra]. }
  set (r0 := (nr - 1 - fy0)%Z) in *. set (r1 := (nr - 1 - fy1)%Z) in *.
  assert (P63 : (0 < 2 ^ 63)%Z) by reflexivity.
  unfold clip. cbn [g_name g_ncols g_nrows g_csz g_xll g_yll g_dtype g_nodata g_comment g_parent].
  rewrite E0, E1.
  destruct ((r0 * nc + fx0 <? 0) || (r1 * nc + fx1 <? 0))%Z eqn:G1.
  { rewrite orb_true_iff, !Z.ltb_lt in G1. nia. }
  rewrite !cell2rowcol_rowcol by (unfold r0, r1; lia). cbn [fst snd].
  destruct ((r0 - r1 + 1 <? 1) || (fx1 - fx0 + 1 <? 1))%Z eqn:G2.
  { rewrite orb_true_iff, !Z.ltb_lt in G2. unfold r0, r1 in G2. lia. }
  rewrite cell2coord_centre by (unfold r0; lia). cbn [fst snd].
  rewrite (mk_grid_ok RR IO _ _ _ _ _ _ _ _ nd) by (unfold r0, r1; try lia; assumption).
  eexists. split; [reflexivity|].
  cbn [k_meta k_data k_row0 k_row1 k_col0 k_col1 g_name g_ncols g_nrows g_csz g_xll g_yll g_dtype
       g_nodata g_comment g_parent].
  split; [unfold r0, r1; lia|]. split; [unfold r0; lia|]. split; [lia|]. split; [lia|].
  split; [reflexivity|]. split; [reflexivity|]. split; [reflexivity|]. split; [reflexivity|].
  split; [reflexivity|]. split; [reflexivity|]. split; [reflexivity|].
  split; [reflexivity|]. split; [reflexivity|]. split; [reflexivity|]. split; [reflexivity|].
  intros i j Hi Hj. split.
  - rewrite !cell2coord_centre by (unfold r0, r1 in *; lia).
    rewrite ntwo_RR. cbn [nsub ndiv RR].
    replace (nr - 1 - (r1 + i))%Z with ((nr - 1 - r0) + (r0 - r1 + 1 - 1 - i))%Z by lia.
    rewrite !plus_IZR. f_equal; field.
  - apply window_cell; lia.
Qed.

(* non-vacuity: a 4x3 grid, box from inside cell (3,0) to inside cell (1,2) *)
Definition clip_io : IoOps R :=
  mkIoOps R (fun _ => EmptyString) (fun _ => None) (fun _ _ => EmptyString) (fun _ _ => None)
          (fun _ x => x) 0.
Definition clip_grid : gmeta R :=
  mkG "g"%string 3%Z 4%Z 2 10 20 (KInt, 2%Z) (NInt (-1)%Z) ""%string [].
Definition clip_data : list Z := [0; 1; 2; 10; 11; 12; 20; 21; 22; 30; 31; 32]%Z.

Example clip_example :
  exists r,
    clip RR clip_io clip_grid clip_data 10.5 20.5 15 25 = Some r /\
    (k_row0 r = 1 /\ k_row1 r = 3 /\ k_col0 r = 0 /\ k_col1 r = 2)%Z /\
    k_data r = [10; 11; 12; 20; 21; 22; 30; 31; 32]%Z.
Proof.
  destruct (clip_centres clip_io clip_grid clip_data 10.5 20.5 15 25)
    as (r & E & Hr0 & Hr1 & Hc0 & Hc1 & Hnr & Hnc & E0 & E1 & _);
    cbn [clip_grid g_csz g_nrows g_ncols g_xll g_yll g_dtype g_nodata];
    try lra; try (split; [lia | reflexivity]); try reflexivity.
  exists r. split; [exact E|].
  assert (A0 : coord2cell RR 4%Z 3%Z 10 20 2 (10.5, 20.5) = (3 * 3 + 0)%Z)
    by (apply coord2cell_footprint; simpl; try lia; lra).
  assert (A1 : coord2cell RR 4%Z 3%Z 10 20 2 (15, 25) = (1 * 3 + 2)%Z)
    by (apply coord2cell_footprint; simpl; try lia; lra).
  cbn [clip_grid g_csz g_nrows g_ncols g_xll g_yll] in E0, E1. rewrite A0 in E0. rewrite A1 in E1.
  assert (R : (k_row0 r = 1 /\ k_row1 r = 3 /\ k_col0 r = 0 /\ k_col1 r = 2)%Z)
    by (cbn [clip_grid g_nrows g_ncols] in *; lia).
  split; [exact R|].
  unfold clip in E.
  cbn [clip_grid g_csz g_nrows g_ncols g_xll g_yll g_dtype g_nodata g_name g_comment g_parent] in E.
  rewrite A0, A1 in E. cbn -[cell2coord mk_grid] in E.
  destruct (mk_grid RR clip_io _ _ _ _ _ _ _ _ _) in E; [|discriminate].
  injection E as <-. reflexivity.
Qed.

(* square cells pass the XDIM/YDIM test of from_stream for any non-negative tolerance *)
Lemma esri_square_RR (tol x : R) : 0 <= tol -> nltb RR tol (nabs RR (nsub RR x x)) = false.
Proof.
  intros H. cbn. apply Rltb_false. unfold Rminus. rewrite Rplus_opp_r, Rabs_R0. exact H.
Qed.

Lemma ydim_tol_nonneg : 0 <= STREAM_YDIM_TOL_R.
Proof. unfold STREAM_YDIM_TOL_R. lra. Qed.
