(* Theorems about Model/Summary.v (property C20), part 4:
   percentile levels, order statistics, numpy's linear percentile, box-plot statistics,
   group-wise statistics, violin quantiles, profile abscissae and normalisation. *)
From Coq Require Import ZArith Bool List Reals Lra Lia Permutation Sorted.
From Coq Require PrimFloat.
From Hy Require Import Base.Num Gen.ConstsC20 Model.Summary Proofs.SummaryProofs Proofs.SummaryLhsProofs.
Import ListNotations.
Open Scope R_scope.

(* =====================================================================
   percentile levels
   ===================================================================== *)

Lemma compute_percentiles_RR c : compute_percentiles RR c = ((100 - c) / 2, 100 - (100 - c) / 2).
Proof.
  unfold compute_percentiles. rewrite !qc_RR. cbn [ndiv nsub RR].
  unfold PCT_TOTAL_NUM, PCT_TOTAL_DEN, PCT_HALVE_NUM, PCT_HALVE_DEN, PCT_COMPL_NUM, PCT_COMPL_DEN.
  f_equal; lra.
Qed.

Lemma box_levels_RR box wh :
  box_levels RR box wh =
  [(100 - wh) / 2; (100 - box) / 2; 50; 100 - (100 - box) / 2; 100 - (100 - wh) / 2].
Proof.
  unfold box_levels. rewrite !compute_percentiles_RR. cbn [fst snd]. rewrite qc_RR.
  unfold PCT_MEDIAN_NUM, PCT_MEDIAN_DEN. repeat f_equal. lra.
Qed.

Lemma coverages_ok_RR box wh :
  coverages_ok RR box wh = true <-> BOX_COVERAGE_MIN_R <= box /\ box < wh.
Proof.
  unfold coverages_ok. rewrite andb_true_iff, !negb_true_iff. cbn [nltb nleb RR].
  rewrite Rltb_false, Rleb_false.
  destruct consts_R_agree as (_ & _ & _ & _ & _ & _ & -> & _). tauto.
Qed.

(* w_lo < b_lo <= 30 < 50 < 70 <= b_hi < w_hi, all inside [0, 100] *)
Theorem box_levels_ordered box wh : 40 <= box -> box < wh -> wh <= 100 ->
  exists w1 b1 b2 w2, box_levels RR box wh = [w1; b1; 50; b2; w2] /\
    0 <= w1 /\ w1 < b1 /\ b1 <= 30 /\ 70 <= b2 /\ b2 < w2 /\ w2 <= 100 /\
    w1 + w2 = 100 /\ b1 + b2 = 100 /\ w2 - w1 = wh /\ b2 - b1 = box.
Proof.
  intros. rewrite box_levels_RR. do 4 eexists. split; [reflexivity|]. repeat split; lra.
Qed.

(* =====================================================================
   sorting
   ===================================================================== *)

Lemma insert_perm x l : Permutation (x :: l) (insert_le Rleb x l).
Proof.
  induction l as [|y l IH]; simpl; auto.
  destruct (Rleb x y); auto.
  eapply perm_trans; [apply perm_swap|]. constructor. exact IH.
Qed.

Lemma isort_perm l : Permutation l (isort_le Rleb l).
Proof.
  induction l as [|x l IH]; simpl; auto.
  eapply perm_trans; [|apply insert_perm]. constructor. exact IH.
Qed.

Lemma insert_sorted x l : StronglySorted Rle l -> StronglySorted Rle (insert_le Rleb x l).
Proof.
  induction l as [|y l IH]; intros Hs; simpl.
  - constructor; constructor.
  - inversion Hs as [|? ? Hs' Hall]; subst.
    destruct (Rleb x y) eqn:E; rb.
    + constructor; [exact Hs|]. constructor; [exact E|].
      rewrite Forall_forall in *. intros z Hz. specialize (Hall z Hz). lra.
    + constructor; [apply IH; exact Hs'|].
      rewrite Forall_forall in *. intros z Hz.
      apply (Permutation_in _ (Permutation_sym (insert_perm x l))) in Hz.
      destruct Hz as [<-|Hz]; [lra | auto].
Qed.

Lemma isort_sorted l : StronglySorted Rle (isort_le Rleb l).
Proof. induction l; simpl; [constructor | apply insert_sorted; assumption]. Qed.

Theorem sort_values_spec l :
  StronglySorted Rle (sort_values RR l) /\ Permutation l (sort_values RR l).
Proof. split; [apply isort_sorted | apply isort_perm]. Qed.

Lemma sorted_nth s i j : StronglySorted Rle s -> (i <= j < length s)%nat ->
  nth i s 0 <= nth j s 0.
Proof.
  intros Hs. revert i j. induction Hs as [|a s Hs IH Hall]; intros i j Hij; simpl in Hij; [lia|].
  destruct i, j; simpl; try lia; try lra.
  - rewrite Forall_forall in Hall. apply Hall. apply nth_In. lia.
  - apply IH. lia.
Qed.

Lemma last_is_nth (s : list R) d : s <> [] -> last s d = nth (length s - 1) s d.
Proof.
  induction s as [|a s IH]; [congruence|]. intros _.
  destruct s as [|b s]; [reflexivity|].
  change (last (a :: b :: s) d) with (last (b :: s) d). rewrite IH by congruence.
  simpl. rewrite Nat.sub_0_r. reflexivity.
Qed.

(* =====================================================================
   numpy's linear percentile over the reals
   ===================================================================== *)

Lemma lerp_RR a b t : lerp RR a b t = a + (b - a) * t.
Proof.
  unfold lerp. cbn [nleb nsub nmul nadd n1 RR]. destruct (Rleb (qc RR 1 2) t); lra.
Qed.

Lemma Int_part_bounds v : IZR (Int_part v) <= v < IZR (Int_part v) + 1.
Proof. destruct (base_Int_part v). lra. Qed.

Lemma Int_part_mono u v : u <= v -> (Int_part u <= Int_part v)%Z.
Proof.
  intros H. destruct (Int_part_bounds u), (Int_part_bounds v).
  assert (IZR (Int_part u) < IZR (Int_part v + 1)) by (rewrite plus_IZR; lra).
  apply lt_IZR in H4. lia.
Qed.

Lemma Int_part_nonneg v : 0 <= v -> (0 <= Int_part v)%Z.
Proof.
  intros H. destruct (Int_part_bounds v).
  assert (IZR (-1) < IZR (Int_part v)) by (simpl; lra). apply lt_IZR in H2. lia.
Qed.

Lemma Int_part_lt v k : v < IZR k -> (Int_part v < k)%Z.
Proof. intros H. destruct (Int_part_bounds v). apply lt_IZR. lra. Qed.

(* value of the sorted sample at the virtual index v (linear interpolation between the
   neighbouring order statistics; the last one from n-1 on) *)
Definition at_index (s : list R) (v : R) : R :=
  if Rle_dec (IZR (Z.of_nat (length s) - 1)) v then nth (length s - 1) s 0
  else let lo := Int_part v in
       nth (Z.to_nat lo) s 0 +
       (nth (Z.to_nat (lo + 1)) s 0 - nth (Z.to_nat lo) s 0) * (v - IZR lo).

Definition vindex (s : list R) (p : R) : R := IZR (Z.of_nat (length s) - 1) * (p / 100).

Lemma vindex_nonneg s p : s <> [] -> 0 <= p -> 0 <= vindex s p.
Proof.
  intros Hne Hp. unfold vindex.
  assert (0 <= IZR (Z.of_nat (length s) - 1)).
  { apply IZR_le. destruct s; [congruence | simpl length; lia]. }
  apply Rmult_le_pos; lra.
Qed.

Lemma vindex_mono s p1 p2 : s <> [] -> p1 <= p2 -> vindex s p1 <= vindex s p2.
Proof.
  intros Hne Hp. unfold vindex.
  assert (0 <= IZR (Z.of_nat (length s) - 1)).
  { apply IZR_le. destruct s; [congruence | simpl length; lia]. }
  apply Rmult_le_compat_l; lra.
Qed.

Theorem percentile_at_index s p : s <> [] -> 0 <= p ->
  percentile RR s p = at_index s (vindex s p).
Proof.
  intros Hne Hp. assert (Hv := vindex_nonneg s p Hne Hp).
  unfold percentile, at_index. cbn [nleb nltb nmul ndiv nofZ nfloor nsub n0 nnan RR R_floor].
  fold (vindex s p).
  destruct (Rle_dec (IZR (Z.of_nat (length s) - 1)) (vindex s p)) as [H|H].
  - replace (Rleb (IZR (Z.of_nat (length s) - 1)) (vindex s p)) with true
      by (symmetry; apply Rleb_true; exact H).
    apply last_is_nth. exact Hne.
  - replace (Rleb (IZR (Z.of_nat (length s) - 1)) (vindex s p)) with false
      by (symmetry; apply Rleb_false; lra).
    replace (Rltb (vindex s p) 0) with false by (symmetry; apply Rltb_false; lra).
    apply lerp_RR.
Qed.

Section AtIndex.
Variable s : list R.
Hypothesis Hs : StronglySorted Rle s.
Hypothesis Hne : s <> [].

Lemma len_pos : (1 <= length s)%nat.
Proof. destruct s; [congruence | simpl; lia]. Qed.

(* below n-1 the two neighbours are valid indices and the weight is in [0,1) *)
Lemma at_index_interp v : 0 <= v -> v < IZR (Z.of_nat (length s) - 1) ->
  let lo := Int_part v in
  (Z.to_nat lo < length s)%nat /\ (Z.to_nat (lo + 1) < length s)%nat /\
  Z.to_nat (lo + 1) = S (Z.to_nat lo) /\ 0 <= v - IZR lo < 1 /\
  nth (Z.to_nat lo) s 0 <= nth (Z.to_nat (lo + 1)) s 0.
Proof.
  intros H0 H1 lo.
  assert (L0 := Int_part_nonneg v H0). assert (L1 := Int_part_lt v _ H1).
  assert (B := Int_part_bounds v). fold lo in L0, L1, B.
  repeat split; try lia; try lra.
  apply sorted_nth; auto. lia.
Qed.

Theorem at_index_bounds v : 0 <= v ->
  nth 0 s 0 <= at_index s v <= nth (length s - 1) s 0.
Proof.
  intros H0. assert (HL := len_pos). unfold at_index.
  destruct (Rle_dec (IZR (Z.of_nat (length s) - 1)) v) as [H|H].
  - split; [apply sorted_nth; auto; lia | lra].
  - destruct (at_index_interp v H0 ltac:(lra)) as (I1 & I2 & I3 & I4 & I5).
    set (lo := Int_part v) in *.
    assert (nth 0 s 0 <= nth (Z.to_nat lo) s 0) by (apply sorted_nth; auto; lia).
    assert (nth (Z.to_nat (lo + 1)) s 0 <= nth (length s - 1) s 0) by (apply sorted_nth; auto; lia).
    set (a := nth (Z.to_nat lo) s 0) in *. set (b := nth (Z.to_nat (lo + 1)) s 0) in *.
    set (t := v - IZR lo) in *. split; nra.
Qed.

Theorem at_index_mono u v : 0 <= u -> u <= v -> at_index s u <= at_index s v.
Proof.
  intros H0 Huv. assert (HL := len_pos).
  destruct (Rle_dec (IZR (Z.of_nat (length s) - 1)) v) as [Hv|Hv].
  - replace (at_index s v) with (nth (length s - 1) s 0)
      by (unfold at_index; destruct (Rle_dec _ v); [reflexivity | contradiction]).
    apply at_index_bounds. exact H0.
  - assert (Hu : ~ IZR (Z.of_nat (length s) - 1) <= u) by lra.
    unfold at_index.
    destruct (Rle_dec _ u); [contradiction|]. destruct (Rle_dec _ v); [contradiction|].
    destruct (at_index_interp u H0 ltac:(lra)) as (U1 & U2 & U3 & U4 & U5).
    destruct (at_index_interp v ltac:(lra) ltac:(lra)) as (V1 & V2 & V3 & V4 & V5).
    assert (M := Int_part_mono u v Huv).
    set (lu := Int_part u) in *. set (lv := Int_part v) in *.
    destruct (Z.eq_dec lu lv) as [E|E].
    + rewrite E in *.
      set (a := nth (Z.to_nat lv) s 0) in *. set (b := nth (Z.to_nat (lv + 1)) s 0) in *.
      assert (0 <= b - a) by lra.
      assert ((b - a) * (u - IZR lv) <= (b - a) * (v - IZR lv)) by (apply Rmult_le_compat_l; lra).
      lra.
    + assert (L0 := Int_part_nonneg u H0). fold lu in L0.
      assert (nth (Z.to_nat (lu + 1)) s 0 <= nth (Z.to_nat lv) s 0) by (apply sorted_nth; auto; lia).
      set (a := nth (Z.to_nat lu) s 0) in *. set (b := nth (Z.to_nat (lu + 1)) s 0) in *.
      set (c := nth (Z.to_nat lv) s 0) in *. set (d := nth (Z.to_nat (lv + 1)) s 0) in *.
      set (tu := u - IZR lu) in *. set (tv := v - IZR lv) in *.
      assert (a + (b - a) * tu <= b) by nra.
      assert (c <= c + (d - c) * tv) by nra.
      lra.
Qed.

(* the percentile is monotone in the level and lies between the extreme order statistics *)
Theorem percentile_bounds p : 0 <= p ->
  nth 0 s 0 <= percentile RR s p <= nth (length s - 1) s 0.
Proof.
  intros Hp. rewrite percentile_at_index by assumption.
  apply at_index_bounds. apply vindex_nonneg; assumption.
Qed.

Theorem percentile_mono p1 p2 : 0 <= p1 -> p1 <= p2 ->
  percentile RR s p1 <= percentile RR s p2.
Proof.
  intros H1 H2. rewrite !percentile_at_index by (auto; lra).
  apply at_index_mono; [apply vindex_nonneg | apply vindex_mono]; auto.
Qed.

(* level 0 is the minimum, level 100 the maximum *)
Theorem percentile_0 : percentile RR s 0 = nth 0 s 0.
Proof.
  assert (HL := len_pos). rewrite percentile_at_index by (auto; lra).
  unfold vindex. replace (0 / 100) with 0 by lra. rewrite Rmult_0_r.
  unfold at_index. destruct (Rle_dec (IZR (Z.of_nat (length s) - 1)) 0) as [H|H].
  - assert (IZR (Z.of_nat (length s) - 1) = 0).
    { assert (0 <= IZR (Z.of_nat (length s) - 1)) by (apply IZR_le; lia). lra. }
    apply eq_IZR in H0. f_equal. lia.
  - replace (Int_part 0) with 0%Z by (symmetry; apply (Int_part_unique 0 0); simpl; lra).
    simpl. lra.
Qed.

Theorem percentile_100 : percentile RR s 100 = nth (length s - 1) s 0.
Proof.
  rewrite percentile_at_index by (auto; lra).
  unfold vindex. replace (100 / 100) with 1 by lra. rewrite Rmult_1_r.
  unfold at_index. destruct (Rle_dec _ _) as [H|H]; [reflexivity | lra].
Qed.

End AtIndex.

(* =====================================================================
   minimum, maximum, mean
   ===================================================================== *)

Lemma fold_min_spec r x :
  let m := fold_left (fun a y => if Rltb y a then y else a) r x in
  In m (x :: r) /\ m <= x /\ forall y, In y r -> m <= y.
Proof.
  revert x; induction r as [|z r IH]; intros x; simpl.
  - split; [auto|]. split; [lra | intros y []].
  - destruct (Rltb z x) eqn:E; rb.
    + destruct (IH z) as (I1 & I2 & I3). split; [|split].
      * destruct I1 as [<-|I1]; auto.
      * lra.
      * intros y [<-|Hy]; auto.
    + destruct (IH x) as (I1 & I2 & I3). split; [|split].
      * destruct I1 as [<-|I1]; auto.
      * exact I2.
      * intros y [<-|Hy]; [lra | auto].
Qed.

Lemma fold_max_spec r x :
  let m := fold_left (fun a y => if Rltb a y then y else a) r x in
  In m (x :: r) /\ x <= m /\ forall y, In y r -> y <= m.
Proof.
  revert x; induction r as [|z r IH]; intros x; simpl.
  - split; [auto|]. split; [lra | intros y []].
  - destruct (Rltb x z) eqn:E; rb.
    + destruct (IH z) as (I1 & I2 & I3). split; [|split].
      * destruct I1 as [<-|I1]; auto.
      * lra.
      * intros y [<-|Hy]; auto.
    + destruct (IH x) as (I1 & I2 & I3). split; [|split].
      * destruct I1 as [<-|I1]; auto.
      * exact I2.
      * intros y [<-|Hy]; [lra | auto].
Qed.

Theorem tmin_spec l : l <> [] -> In (tmin RR l) l /\ forall y, In y l -> tmin RR l <= y.
Proof.
  destruct l as [|x r]; [congruence|]. intros _. unfold tmin. cbn [nltb RR].
  destruct (fold_min_spec r x) as (I1 & I2 & I3). split; [exact I1|].
  intros y [<-|Hy]; auto.
Qed.

Theorem tmax_spec l : l <> [] -> In (tmax RR l) l /\ forall y, In y l -> y <= tmax RR l.
Proof.
  destruct l as [|x r]; [congruence|]. intros _. unfold tmax. cbn [nltb RR].
  destruct (fold_max_spec r x) as (I1 & I2 & I3). split; [exact I1|].
  intros y [<-|Hy]; auto.
Qed.

Fixpoint rsum (l : list R) : R := match l with [] => 0 | x :: r => x + rsum r end.

Lemma tsum_RR l : tsum RR l = rsum l.
Proof.
  unfold tsum. cbn [nadd n0 RR].
  assert (G : forall a, fold_left Rplus l a = a + rsum l).
  { induction l as [|x l IH]; intros a; simpl; [lra | rewrite IH; lra]. }
  rewrite G. lra.
Qed.

Lemma rsum_bounds l lo hi : (forall y, In y l -> lo <= y <= hi) ->
  INR (length l) * lo <= rsum l <= INR (length l) * hi.
Proof.
  induction l as [|x l IH]; intros H.
  - simpl. lra.
  - assert (lo <= x <= hi) by (apply H; simpl; auto).
    assert (INR (length l) * lo <= rsum l <= INR (length l) * hi) by (apply IH; intros; apply H; simpl; auto).
    change (length (x :: l)) with (S (length l)). rewrite S_INR. simpl rsum. lra.
Qed.

(* the mean lies between the minimum and the maximum *)
Theorem tmean_bounds l : l <> [] -> tmin RR l <= tmean RR l <= tmax RR l.
Proof.
  intros Hne. destruct (tmin_spec l Hne) as [_ Hmin]. destruct (tmax_spec l Hne) as [_ Hmax].
  unfold tmean. cbn [ndiv nofZ RR]. rewrite tsum_RR, <- INR_IZR_INZ.
  assert (Hn : 0 < INR (length l)).
  { apply lt_0_INR. destruct l; [congruence | simpl; lia]. }
  destruct (rsum_bounds l (tmin RR l) (tmax RR l)) as [B1 B2]; [intros y Hy; split; auto|].
  split.
  - apply Rmult_le_reg_r with (INR (length l)); [exact Hn|].
    unfold Rdiv. rewrite Rmult_assoc, Rinv_l by lra. lra.
  - apply Rmult_le_reg_r with (INR (length l)); [exact Hn|].
    unfold Rdiv. rewrite Rmult_assoc, Rinv_l by lra. lra.
Qed.

(* =====================================================================
   the finite-value mask (any arithmetic instance)
   ===================================================================== *)

Lemma filter_idem {A} (f : A -> bool) l : filter f (filter f l) = filter f l.
Proof.
  induction l as [|a l IH]; simpl; auto.
  destruct (f a) eqn:E; simpl; [rewrite E, IH|]; auto.
Qed.

Section Mask.
Context {T : Type} (N : NumOps T).

(* "count" is the number of finite values, whatever the branch *)
Theorem boxplot_stats_count data box wh :
  bs_count (boxplot_stats N data box wh) = Z.of_nat (length (finite_values N data)).
Proof. unfold boxplot_stats. destruct (_ <? _)%Z; reflexivity. Qed.

(* the statistics only depend on the finite values *)
Theorem boxplot_stats_mask data box wh :
  boxplot_stats N data box wh = boxplot_stats N (finite_values N data) box wh.
Proof. unfold boxplot_stats, finite_values. rewrite filter_idem. reflexivity. Qed.

(* fewer than 4 finite values: the NaN row *)
Theorem boxplot_stats_small data box wh :
  (Z.of_nat (length (finite_values N data)) <= BOX_NOK_MIN)%Z ->
  boxplot_stats N data box wh = bstats_nan N (Z.of_nat (length (finite_values N data))).
Proof.
  intros H. unfold boxplot_stats.
  replace (_ <? _)%Z with false by (symmetry; apply Z.ltb_ge; exact H). reflexivity.
Qed.

Theorem boxplot_stats_large data box wh :
  (BOX_NOK_MIN < Z.of_nat (length (finite_values N data)))%Z ->
  let fin := finite_values N data in
  boxplot_stats N data box wh =
  mkBstats (Z.of_nat (length fin)) (map (percentile N (sort_values N fin)) (box_levels N box wh))
           (tmean N fin) (tmax N fin) (tmin N fin).
Proof.
  intros H fin. unfold boxplot_stats. fold fin.
  replace (_ <? _)%Z with true by (symmetry; apply Z.ltb_lt; exact H). reflexivity.
Qed.

Theorem violin_stats_mask data : violin_stats N data = violin_stats N (finite_values N data).
Proof. unfold violin_stats, finite_values. rewrite filter_idem. reflexivity. Qed.

(* ---------- group-wise statistics ---------- *)
Lemma zinsert_uniq_In x l z : In z (zinsert_uniq x l) <-> z = x \/ In z l.
Proof.
  induction l as [|y l IH]; simpl; [intuition|].
  destruct (x <? y)%Z eqn:E1; [simpl; intuition|].
  destruct (Z.eqb_spec x y); [subst; simpl; intuition|].
  simpl. rewrite IH. intuition.
Qed.

Lemma zcats_In l z : In z (zcats l) <-> In z l.
Proof.
  induction l as [|x l IH]; simpl; [tauto|].
  rewrite zinsert_uniq_In, IH. intuition.
Qed.

Lemma zinsert_uniq_sorted x l : StronglySorted Z.lt l -> StronglySorted Z.lt (zinsert_uniq x l).
Proof.
  induction l as [|y l IH]; intros Hs; simpl; [repeat constructor|].
  inversion Hs as [|? ? Hs' Hall]; subst.
  destruct (x <? y)%Z eqn:E1.
  - apply Z.ltb_lt in E1. constructor; auto. constructor; auto.
    rewrite Forall_forall in *. intros z Hz. specialize (Hall z Hz). lia.
  - apply Z.ltb_ge in E1. destruct (Z.eqb_spec x y); [exact Hs|].
    constructor; [apply IH; exact Hs'|].
    rewrite Forall_forall in *. intros z Hz. apply zinsert_uniq_In in Hz.
    destruct Hz as [->|Hz]; [lia | auto].
Qed.

Lemma zcats_sorted l : StronglySorted Z.lt (zcats l).
Proof. induction l; simpl; [constructor | apply zinsert_uniq_sorted; assumption]. Qed.

(* one column per category present in `by`, in increasing order, each holding the statistics of
   the values that carry this label - i.e. of the group taken alone *)
Theorem boxplot_by_groups by_ data box wh l :
  boxplot_by N by_ data box wh = Some l ->
  map fst l = zcats by_ /\ StronglySorted Z.lt (map fst l) /\
  (forall c, In c (map fst l) <-> In c by_) /\
  forall c st, In (c, st) l -> st = boxplot_stats N (select_by c by_ data) box wh.
Proof.
  unfold boxplot_by. destruct (Nat.eqb _ 1); [discriminate|].
  destruct (coverages_ok N box wh); [|discriminate]. cbn [negb].
  intros E; inversion E; subst l; clear E.
  assert (M : map fst (map (fun c => (c, boxplot_stats N (select_by c by_ data) box wh)) (zcats by_))
              = zcats by_) by (rewrite map_map; cbn [fst]; apply map_id).
  rewrite M. split; [reflexivity|]. split; [apply zcats_sorted|]. split; [apply zcats_In|].
  intros c st Hin. apply in_map_iff in Hin. destruct Hin as (c' & Heq & _).
  inversion Heq; subst. reflexivity.
Qed.

Theorem boxplot_by_rejects by_ data box wh :
  length (zcats by_) = 1%nat \/ coverages_ok N box wh = false ->
  boxplot_by N by_ data box wh = None.
Proof.
  unfold boxplot_by. intros [H|H].
  - rewrite H. reflexivity.
  - rewrite H. destruct (Nat.eqb _ 1); reflexivity.
Qed.

(* ---------- violin: number of points of the profile ---------- *)
Lemma isort_length {A} (le : A -> A -> bool) l : length (isort_le le l) = length l.
Proof.
  assert (I : forall x l, length (insert_le le x l) = S (length l)).
  { intros x l0; induction l0 as [|y l0 IH]; simpl; auto. destruct (le x y); simpl; auto. }
  induction l; simpl; auto. rewrite I, IHl. reflexivity.
Qed.

Lemma linspace_length_gen a b num : length (linspace N a b num) = Z.to_nat num.
Proof.
  unfold linspace.
  assert (L : forall f g : T -> T,
            length (map g (map f (map (nofZ N) (zseq 0 (Z.to_nat num))))) = Z.to_nat num)
    by (intros; rewrite !map_length, zseq_length; reflexivity).
  destruct (1 <? num)%Z; [rewrite set_last_length|];
    destruct (0 <? num - 1)%Z; try destruct (neqb N _ _); apply L.
Qed.

Lemma map2_length_min {A B C} (f : A -> B -> C) la lb :
  length (map2 f la lb) = Nat.min (length la) (length lb).
Proof. revert lb; induction la; intros [|b lb]; simpl; auto. Qed.

Lemma violin_kde_x_gen_length nreg data npts u :
  (0 <= nreg)%Z -> (0 <= npts)%Z -> length u = Z.to_nat (npts / 2) ->
  length (violin_kde_x_gen N nreg data npts u) = Z.to_nat (nreg + npts / 2).
Proof.
  intros H0 H1 Hu. unfold violin_kde_x_gen, sort_values.
  rewrite isort_length, app_length, linspace_length_gen, map2_length_min, !map_length,
    linspace_length_gen, Hu, Nat.min_id.
  assert (0 <= npts / 2)%Z by (apply Z.div_pos; lia). lia.
Qed.

(* repaired code: as many abscissae as rows of the profile frame *)
Theorem violin_kde_x_length data npts u :
  (0 <= npts)%Z -> length u = Z.to_nat (npts / 2) ->
  length (violin_kde_x N data npts u) = Z.to_nat npts.
Proof.
  intros H0 Hu. unfold violin_kde_x.
  assert (0 <= npts / 2 <= npts)%Z.
  { split; [apply Z.div_pos; lia|]. apply Z.div_le_upper_bound; lia. }
  rewrite violin_kde_x_gen_length by (auto; lia). f_equal. lia.
Qed.

(* pinned code: one abscissa short whenever the number of points is odd *)
Theorem violin_kde_x_pinned_length data npts u :
  (0 <= npts)%Z -> length u = Z.to_nat (npts / 2) ->
  length (violin_kde_x_pinned N data npts u) = Z.to_nat (2 * (npts / 2)).
Proof.
  intros H0 Hu. unfold violin_kde_x_pinned.
  assert (0 <= npts / 2)%Z by (apply Z.div_pos; lia).
  rewrite violin_kde_x_gen_length by (auto; lia). f_equal. lia.
Qed.

End Mask.

Theorem violin_kde_x_pinned_refuted :
  exists data npts u, (0 <= npts)%Z /\ length u = Z.to_nat (npts / 2) /\
    length (violin_kde_x_pinned RR data npts u) <> Z.to_nat npts.
Proof.
  exists [1; 2; 3], 101%Z, (repeat 0 50). split; [lia|]. split; [reflexivity|].
  rewrite violin_kde_x_pinned_length; [|lia|reflexivity]. vm_compute. lia.
Qed.

Theorem violin_npoints_range nrows :
  (VIOLIN_NPOINTS_LO <= violin_npoints nrows <= VIOLIN_NPOINTS_HI)%Z /\
  ((VIOLIN_NPOINTS_LO <= nrows <= VIOLIN_NPOINTS_HI)%Z -> violin_npoints nrows = nrows).
Proof. unfold violin_npoints, VIOLIN_NPOINTS_LO, VIOLIN_NPOINTS_HI. lia. Qed.

(* =====================================================================
   box-plot statistics of a finite sample (real numbers)
   ===================================================================== *)

Lemma finite_values_RR data : finite_values RR data = data.
Proof.
  unfold finite_values. induction data as [|x l IH]; simpl; auto.
  rewrite IH. reflexivity.
Qed.

Lemma sorted_first_is_min l : l <> [] -> nth 0 (sort_values RR l) 0 = tmin RR l.
Proof.
  intros Hne. destruct (sort_values_spec l) as [Hs Hp].
  destruct (tmin_spec l Hne) as [Hin Hmin].
  assert (Hlen : length (sort_values RR l) = length l) by (symmetry; apply Permutation_length; exact Hp).
  assert (Hpos : (0 < length l)%nat) by (destruct l; [congruence | simpl; lia]).
  apply Rle_antisym.
  - apply (Permutation_in _ Hp) in Hin.
    destruct (In_nth _ _ 0 Hin) as (k & Hk & <-). apply sorted_nth; auto. lia.
  - apply Hmin. apply (Permutation_in _ (Permutation_sym Hp)). apply nth_In. lia.
Qed.

Lemma sorted_last_is_max l : l <> [] ->
  nth (length (sort_values RR l) - 1) (sort_values RR l) 0 = tmax RR l.
Proof.
  intros Hne. destruct (sort_values_spec l) as [Hs Hp].
  destruct (tmax_spec l Hne) as [Hin Hmax].
  assert (Hlen : length (sort_values RR l) = length l) by (symmetry; apply Permutation_length; exact Hp).
  assert (Hpos : (0 < length l)%nat) by (destruct l; [congruence | simpl; lia]).
  apply Rle_antisym.
  - apply Hmax. apply (Permutation_in _ (Permutation_sym Hp)). apply nth_In. lia.
  - apply (Permutation_in _ Hp) in Hin.
    destruct (In_nth _ _ 0 Hin) as (k & Hk & <-). apply sorted_nth; auto. lia.
Qed.

Lemma sort_values_nonempty l : l <> [] -> sort_values RR l <> [].
Proof.
  intros Hne E. destruct (sort_values_spec l) as [_ Hp]. rewrite E in Hp.
  apply Permutation_sym, Permutation_nil in Hp. congruence.
Qed.

(* count, the five percentiles at the levels implied by the coverages, in non-decreasing
   order between min and max; the mean between min and max; min and max are sample values *)
Theorem boxplot_stats_RR_ordered data box wh :
  (BOX_NOK_MIN < Z.of_nat (length data))%Z -> 40 <= box -> box < wh -> wh <= 100 ->
  let s := sort_values RR data in
  let P := fun p => percentile RR s p in
  boxplot_stats RR data box wh =
    mkBstats (Z.of_nat (length data))
             [P ((100 - wh) / 2); P ((100 - box) / 2); P 50;
              P (100 - (100 - box) / 2); P (100 - (100 - wh) / 2)]
             (tmean RR data) (tmax RR data) (tmin RR data) /\
  tmin RR data <= P ((100 - wh) / 2) /\ P ((100 - wh) / 2) <= P ((100 - box) / 2) /\
  P ((100 - box) / 2) <= P 50 /\ P 50 <= P (100 - (100 - box) / 2) /\
  P (100 - (100 - box) / 2) <= P (100 - (100 - wh) / 2) /\
  P (100 - (100 - wh) / 2) <= tmax RR data /\
  tmin RR data <= tmean RR data <= tmax RR data /\
  In (tmin RR data) data /\ In (tmax RR data) data.
Proof.
  intros Hn H1 H2 H3 s P.
  assert (Hne : data <> []) by (intros ->; unfold BOX_NOK_MIN in Hn; simpl in Hn; lia).
  assert (Hs : StronglySorted Rle s) by apply sort_values_spec.
  assert (Hsn : s <> []) by (apply sort_values_nonempty; exact Hne).
  split.
  - rewrite boxplot_stats_large by (rewrite finite_values_RR; exact Hn).
    rewrite finite_values_RR, box_levels_RR. reflexivity.
  - assert (B := fun p Hp => percentile_bounds s Hs Hsn p Hp).
    assert (M := fun p q Hp Hq => percentile_mono s Hs Hsn p q Hp Hq).
    assert (E0 : tmin RR data = nth 0 s 0) by (symmetry; apply sorted_first_is_min; exact Hne).
    assert (E1 : tmax RR data = nth (length s - 1) s 0)
      by (symmetry; apply sorted_last_is_max; exact Hne).
    unfold P. repeat split.
    + rewrite E0. apply B; lra.
    + apply M; lra.
    + apply M; lra.
    + apply M; lra.
    + apply M; lra.
    + rewrite E1. apply B; lra.
    + apply tmean_bounds; exact Hne.
    + apply tmean_bounds; exact Hne.
    + apply tmin_spec; exact Hne.
    + apply tmax_spec; exact Hne.
Qed.

Example boxplot_stats_example :
  (BOX_NOK_MIN < Z.of_nat (length [3; 1; 2; 5; 4]))%Z /\ 40 <= 50 /\ 50 < 90 /\ 90 <= 100.
Proof. unfold BOX_NOK_MIN. simpl. repeat split; try lia; lra. Qed.

(* =====================================================================
   violin quantiles of a finite sample
   ===================================================================== *)

Lemma list5_eq (a b c d e a' b' c' d' e' : R) :
  a = a' -> b = b' -> c = c' -> d = d' -> e = e' -> [a; b; c; d; e] = [a'; b'; c'; d'; e'].
Proof. intros; subst; reflexivity. Qed.

Lemma violin_qlevels_RR : violin_qlevels RR = [0; 1/4; 1/2; 3/4; 1].
Proof.
  unfold violin_qlevels. rewrite !compute_percentiles_RR, !qc_RR. cbn [fst snd ndiv nofZ RR].
  unfold VIOLIN_COVERAGE_CENTER_NUM, VIOLIN_COVERAGE_CENTER_DEN,
    VIOLIN_COVERAGE_EXTREMES_NUM, VIOLIN_COVERAGE_EXTREMES_DEN.
  apply list5_eq; lra.
Qed.

Lemma pd_quantile_RR s q : pd_quantile RR s q = percentile RR s (q * 100).
Proof. reflexivity. Qed.

Theorem violin_stats_RR data : data <> [] ->
  let s := sort_values RR data in
  violin_stats RR data =
    [tmin RR data; percentile RR s 25; percentile RR s 50; percentile RR s 75; tmax RR data] /\
  tmin RR data <= percentile RR s 25 /\ percentile RR s 25 <= percentile RR s 50 /\
  percentile RR s 50 <= percentile RR s 75 /\ percentile RR s 75 <= tmax RR data.
Proof.
  intros Hne s.
  assert (Hs : StronglySorted Rle s) by apply sort_values_spec.
  assert (Hsn : s <> []) by (apply sort_values_nonempty; exact Hne).
  assert (E0 : percentile RR s 0 = tmin RR data)
    by (rewrite percentile_0 by assumption; apply sorted_first_is_min; exact Hne).
  assert (E1 : percentile RR s 100 = tmax RR data)
    by (rewrite percentile_100 by assumption; apply sorted_last_is_max; exact Hne).
  split.
  - unfold violin_stats. rewrite finite_values_RR. fold s.
    destruct data as [|x r]; [congruence|].
    rewrite violin_qlevels_RR. cbn [map]. rewrite !pd_quantile_RR.
    replace (0 * 100) with 0 by lra. replace (1 / 4 * 100) with 25 by lra.
    replace (1 / 2 * 100) with 50 by lra. replace (3 / 4 * 100) with 75 by lra.
    replace (1 * 100) with 100 by lra. rewrite E0, E1. reflexivity.
  - rewrite <- E0, <- E1. repeat split; apply percentile_mono; auto; lra.
Qed.

(* the pinned code took the quantiles over the non-NaN values, infinities included:
   binary64 witness [1;2;3;4;+inf;5] (Q100 is NaN instead of 5, Q75 is 4.75 instead of 4) *)
Theorem violin_stats_pinned_refuted :
  exists data, list_same f_same (violin_stats_pinned F64 data) (violin_stats F64 data) = false.
Proof.
  exists [nofZ F64 1; nofZ F64 2; nofZ F64 3; nofZ F64 4; PrimFloat.infinity; nofZ F64 5].
  vm_compute. reflexivity.
Qed.

(* =====================================================================
   min-max normalisation of a density profile
   ===================================================================== *)

Theorem normalise_unit y : tmin RR y < tmax RR y ->
  length (normalise RR y) = length y /\
  Forall (fun v => 0 <= v <= 1) (normalise RR y) /\
  In 0 (normalise RR y) /\ In 1 (normalise RR y).
Proof.
  intros H.
  assert (Hne : y <> []) by (intros ->; unfold tmin, tmax in H; simpl in H; lra).
  destruct (tmin_spec y Hne) as [Imin Hmin]. destruct (tmax_spec y Hne) as [Imax Hmax].
  unfold normalise. cbn [ndiv nsub RR].
  set (mn := tmin RR y) in *. set (mx := tmax RR y) in *.
  split; [apply map_length|]. split; [|split].
  - rewrite Forall_forall. intros v Hv. apply in_map_iff in Hv. destruct Hv as (w & <- & Hw).
    assert (mn <= w) by auto. assert (w <= mx) by auto. split.
    + apply Rmult_le_reg_r with (mx - mn); [lra|].
      unfold Rdiv. rewrite Rmult_assoc, Rinv_l by lra. lra.
    + apply Rmult_le_reg_r with (mx - mn); [lra|].
      unfold Rdiv. rewrite Rmult_assoc, Rinv_l by lra. lra.
  - apply in_map_iff. exists mn. split; [|exact Imin]. unfold Rdiv. lra.
  - apply in_map_iff. exists mx. split; [|exact Imax]. field. lra.
Qed.

Example normalise_example : tmin RR [2; 5; 3] < tmax RR [2; 5; 3].
Proof.
  destruct (tmin_spec [2; 5; 3]) as [_ H1]; [discriminate|].
  destruct (tmax_spec [2; 5; 3]) as [_ H2]; [discriminate|].
  assert (tmin RR [2; 5; 3] <= 2) by (apply H1; simpl; auto).
  assert (5 <= tmax RR [2; 5; 3]) by (apply H2; simpl; auto).
  lra.
Qed.
