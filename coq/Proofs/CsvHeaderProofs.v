(* Proofs about the header half of Model/CsvHeader.v (property C09):
   the comment dictionary given to _csvhead comes back from _header2comment. *)
From Coq Require Import ZArith NArith Bool List String Ascii Lia Permutation DecimalString DecimalN DecimalPos.
From Hy Require Import Base.Num Gen.ConstsC09 Model.CsvHeader.
Import ListNotations.
Open Scope string_scope.

(* ------------------------------------------------------------------ *)
(* predicates of the statements                                        *)

Fixpoint ends_nonspace (s : string) : bool :=
  match s with
  | EmptyString => false
  | String c EmptyString => negb (is_space c)
  | String _ r => ends_nonspace r
  end.
Definition starts_nonspace (s : string) : bool :=
  match s with String c _ => negb (is_space c) | EmptyString => false end.

(* a key character: not a blank (space, tab, line break...), not upper case, not a colon *)
Definition keychar_ok (c : ascii) : bool :=
  negb (is_space c) && negb (is_upper c) && negb (Ascii.eqb c ":").

Definition KEY_MAX : nat := 25.   (* the property's bound on the length of a key *)

(* the form of a key: non-empty, key characters only, at most 25 characters, does not
   start with a dashed rule, does not look like the keys given to colon-less lines *)
Definition keyform (k : string) : bool :=
  negb (is_empty k) && sforall keychar_ok k && (String.length k <=? KEY_MAX)%nat
  && negb (is_rule k) && negb (prefix "comment_" k).
(* a caller's key: moreover not one of the keys the header records itself *)
Definition okkey (k : string) : bool :=
  keyform k && negb (existsb (String.eqb k) reserved_keys).
(* a value: a single line, not empty, no blank at either end (colons, hashes, dashes allowed) *)
Definition okval (v : string) : bool :=
  starts_nonspace v && ends_nonspace v && negb (contains NL v).

Definition no_nl (s : string) : bool := negb (contains NL s).

(* ------------------------------------------------------------------ *)
(* elementary facts                                                    *)

Lemma app_assoc_s : forall a b c : string, (a ++ b) ++ c = a ++ (b ++ c).
Proof. induction a; simpl; intros; [reflexivity | now rewrite IHa]. Qed.

Lemma app_empty_r : forall a : string, a ++ "" = a.
Proof. induction a; simpl; [reflexivity | now rewrite IHa]. Qed.

Lemma length_app : forall a b : string, String.length (a ++ b) = (String.length a + String.length b)%nat.
Proof. induction a; simpl; intros; [reflexivity | now rewrite IHa]. Qed.

Lemma app_inv_head_s : forall a b c : string, a ++ b = a ++ c -> b = c.
Proof. induction a; simpl; intros b c H; [exact H | injection H; auto]. Qed.

Lemma is_empty_false : forall s, is_empty s = false <-> s <> "".
Proof. destruct s; simpl; split; intros; try discriminate; try congruence; auto. Qed.

Lemma sforall_app : forall f a b, sforall f (a ++ b) = sforall f a && sforall f b.
Proof. induction a; simpl; intros; [reflexivity | now rewrite IHa, andb_assoc]. Qed.

Lemma sforall_impl : forall (f g : ascii -> bool) s,
  (forall c, f c = true -> g c = true) -> sforall f s = true -> sforall g s = true.
Proof.
  induction s; simpl; intros Hfg H; [reflexivity|].
  apply andb_true_iff in H as [H1 H2]. rewrite (Hfg _ H1), IHs; auto.
Qed.

(* --- lookup / dset --- *)
Lemma lookup_dset_same : forall {B} k (v : B) d, lookup k (dset k v d) = Some v.
Proof.
  induction d as [|[k' v'] d IH]; simpl.
  - now rewrite String.eqb_refl.
  - destruct (String.eqb k k') eqn:E; simpl; rewrite E; [reflexivity | exact IH].
Qed.

Lemma lookup_dset_other : forall {B} k k' (v : B) d, k <> k' -> lookup k (dset k' v d) = lookup k d.
Proof.
  induction d as [|[k2 v2] d IH]; simpl; intros Hne.
  - apply String.eqb_neq in Hne. now rewrite Hne.
  - destruct (String.eqb k' k2) eqn:E; simpl.
    + apply String.eqb_eq in E. subst k2. apply String.eqb_neq in Hne. now rewrite Hne.
    + destruct (String.eqb k k2); [reflexivity | now apply IH].
Qed.

Lemma lookup_none_notin : forall {B} k (d : list (string * B)), lookup k d = None <-> ~ In k (map fst d).
Proof.
  induction d as [|[k' v'] d IH]; simpl.
  - split; auto.
  - destruct (String.eqb k k') eqn:E.
    + apply String.eqb_eq in E. subst. split; [discriminate | intros H; exfalso; apply H; now left].
    + apply String.eqb_neq in E. rewrite IH. split.
      * intros H [H1 | H1]; [congruence | auto].
      * intros H H1; apply H; now right.
Qed.

Lemma dset_fresh : forall {B} k (v : B) d, ~ In k (map fst d) -> dset k v d = (d ++ [(k, v)])%list.
Proof.
  induction d as [|[k' v'] d IH]; simpl; intros H; [reflexivity|].
  destruct (String.eqb k k') eqn:E.
  - apply String.eqb_eq in E. subst. exfalso; apply H; now left.
  - rewrite IH; auto.
Qed.

Lemma lookup_app_fresh : forall {B} k (v : B) d, ~ In k (map fst d) -> lookup k (d ++ [(k, v)])%list = Some v.
Proof.
  intros. rewrite <- dset_fresh by assumption. apply lookup_dset_same.
Qed.

(* ------------------------------------------------------------------ *)
(* string functions on a line  key ++ " : " ++ value                    *)

Definition nocolon (s : string) : bool := sforall (fun c => negb (Ascii.eqb c ":")) s.

Lemma before_colon_app : forall k r, nocolon k = true -> before_colon (k ++ String ":" r) = k.
Proof.
  induction k; simpl; intros r H; [reflexivity|].
  apply andb_true_iff in H as [H1 H2]. apply negb_true_iff in H1. rewrite H1, IHk; auto.
Qed.

Lemma after_colon_app : forall k r, nocolon k = true -> after_colon (k ++ String ":" r) = r.
Proof.
  induction k; simpl; intros r H; [reflexivity|].
  apply andb_true_iff in H as [H1 H2]. apply negb_true_iff in H1. rewrite H1, IHk; auto.
Qed.

Lemma colon_within_app : forall k r n, (String.length k < n)%nat -> colon_within n (k ++ String ":" r) = true.
Proof.
  induction k; simpl; intros r n H.
  - destruct n; [lia | reflexivity].
  - destruct n; [lia|]. simpl. rewrite IHk by lia. apply orb_true_r.
Qed.

Lemma colon_within_nocolon : forall s n, nocolon s = true -> colon_within n s = false.
Proof.
  induction s; intros n H; destruct n; simpl; try reflexivity.
  simpl in H. apply andb_true_iff in H as [H1 H2]. apply negb_true_iff in H1. rewrite H1, IHs; auto.
Qed.

Lemma dash_prefix_app_nondash : forall k c r n,
  Ascii.eqb c "-" = false -> dash_prefix n (k ++ String c r) = dash_prefix n k.
Proof.
  induction k; simpl; intros c r n Hc.
  - destruct n; simpl; [reflexivity | now rewrite Hc].
  - destruct n; simpl; [reflexivity | now rewrite IHk].
Qed.

Lemma lstrip_id : forall s, starts_nonspace s = true -> lstrip s = s.
Proof. destruct s; simpl; intros H; [reflexivity|]. apply negb_true_iff in H. now rewrite H. Qed.

Lemma ends_nonspace_nonempty : forall s, ends_nonspace s = true -> s <> "".
Proof. destruct s; simpl; intros; [discriminate | congruence]. Qed.

Lemma rstrip_id : forall s, ends_nonspace s = true -> rstrip s = s.
Proof.
  induction s as [|c r IH]; intros H; [discriminate|].
  destruct r as [|c2 r2].
  - simpl in *. apply negb_true_iff in H. now rewrite H.
  - assert (Hr : ends_nonspace (String c2 r2) = true) by exact H.
    specialize (IH Hr).
    change (rstrip (String c (String c2 r2)))
      with (let r' := rstrip (String c2 r2) in if is_space c && is_empty r' then "" else String c r').
    rewrite IH. simpl. now rewrite andb_false_r.
Qed.

Lemma py_strip_id : forall s, starts_nonspace s = true -> ends_nonspace s = true -> py_strip s = s.
Proof. intros. unfold py_strip. rewrite lstrip_id by assumption. now apply rstrip_id. Qed.

(* one blank on the left is removed *)
Lemma py_strip_space_l : forall s, starts_nonspace s = true -> ends_nonspace s = true ->
  py_strip (String " " s) = s.
Proof. intros. unfold py_strip. simpl lstrip. rewrite lstrip_id by assumption. now apply rstrip_id. Qed.

Lemma rstrip_space_r : forall s, ends_nonspace s = true -> rstrip (s ++ " ") = s.
Proof.
  induction s as [|c r IH]; intros H; [discriminate|].
  destruct r as [|c2 r2].
  - simpl in *. apply negb_true_iff in H. now rewrite H.
  - assert (Hr : ends_nonspace (String c2 r2) = true) by exact H.
    specialize (IH Hr).
    change (rstrip (String c (String c2 r2) ++ " "))
      with (let r' := rstrip (String c2 r2 ++ " ") in if is_space c && is_empty r' then "" else String c r').
    rewrite IH. simpl. now rewrite andb_false_r.
Qed.

Lemma sforall_nonspace_ends : forall s, s <> "" -> sforall (fun c => negb (is_space c)) s = true ->
  ends_nonspace s = true.
Proof.
  induction s as [|c r IH]; intros Hne H; [congruence|].
  simpl in H. apply andb_true_iff in H as [H1 H2].
  destruct r as [|c2 r2]; [exact H1|].
  change (ends_nonspace (String c2 r2) = true). apply IH; [discriminate | exact H2].
Qed.

Lemma sforall_nonspace_starts : forall s, s <> "" -> sforall (fun c => negb (is_space c)) s = true ->
  starts_nonspace s = true.
Proof.
  destruct s; intros Hne H; [congruence|]. simpl in *. now apply andb_true_iff in H as [H1 _].
Qed.

Lemma lower_id : forall s, sforall (fun c => negb (is_upper c)) s = true -> lower s = s.
Proof.
  induction s; intros H; [reflexivity|].
  cbn [sforall] in H. apply andb_true_iff in H as [H1 H2]. apply negb_true_iff in H1.
  unfold lower in *. cbn [smap]. unfold lower_char at 1. rewrite H1. f_equal. now apply IHs.
Qed.

Lemma sub_spaces_id : forall s b, sforall (fun c => negb (Ascii.eqb c " ")) s = true -> sub_spaces b s = s.
Proof.
  induction s; simpl; intros b H; [reflexivity|].
  apply andb_true_iff in H as [H1 H2]. apply negb_true_iff in H1. rewrite H1. f_equal. now apply IHs.
Qed.

Lemma sfilter_id : forall f s, sforall f s = true -> sfilter f s = s.
Proof.
  induction s; simpl; intros H; [reflexivity|].
  apply andb_true_iff in H as [H1 H2]. rewrite H1. f_equal. now apply IHs.
Qed.

Lemma space_is_space : forall c, Ascii.eqb c " " = true -> is_space c = true.
Proof. intros c H. apply Ascii.eqb_eq in H. subst. reflexivity. Qed.

(* ------------------------------------------------------------------ *)
(* consequences of keyform / okval                                      *)

Record keyfacts (k : string) : Prop := {
  kf_nonempty : k <> "";
  kf_nospace : sforall (fun c => negb (is_space c)) k = true;
  kf_noblank : sforall (fun c => negb (Ascii.eqb c " ")) k = true;
  kf_noupper : sforall (fun c => negb (is_upper c)) k = true;
  kf_nocolon : nocolon k = true;
  kf_len : (String.length k <= KEY_MAX)%nat;
  kf_norule : is_rule k = false;
  kf_nocomment : prefix "comment_" k = false
}.

Lemma keyform_facts : forall k, keyform k = true -> keyfacts k.
Proof.
  intros k H. unfold keyform in H.
  apply andb_true_iff in H as [H Hcom]. apply andb_true_iff in H as [H Hrule].
  apply andb_true_iff in H as [H Hlen]. apply andb_true_iff in H as [H Hch].
  apply negb_true_iff in H. apply is_empty_false in H.
  assert (Hk : forall c, keychar_ok c = true ->
            negb (is_space c) = true /\ negb (is_upper c) = true /\ negb (Ascii.eqb c ":") = true).
  { intros c Hc. unfold keychar_ok in Hc. apply andb_true_iff in Hc as [Hc H3].
    apply andb_true_iff in Hc as [H1 H2]. auto. }
  assert (Hs : sforall (fun c => negb (is_space c)) k = true).
  { eapply sforall_impl; [|exact Hch]. intros c Hc. now apply Hk. }
  constructor; auto.
  - eapply sforall_impl; [|exact Hs]. intros c Hc.
    cbv beta in Hc. destruct (Ascii.eqb c " ") eqn:E; [|reflexivity].
    apply space_is_space in E. rewrite E in Hc. discriminate.
  - eapply sforall_impl; [|exact Hch]. intros c Hc. now apply Hk.
  - eapply sforall_impl; [|exact Hch]. intros c Hc. now apply Hk.
  - now apply Nat.leb_le.
  - now apply negb_true_iff.
  - now apply negb_true_iff.
Qed.

Lemma okkey_keyform : forall k, okkey k = true -> keyform k = true.
Proof. intros k H. unfold okkey in H. now apply andb_true_iff in H as [H _]. Qed.

Lemma okkey_not_reserved : forall k, okkey k = true -> ~ In k reserved_keys.
Proof.
  intros k H Hin. unfold okkey in H. apply andb_true_iff in H as [_ H].
  apply negb_true_iff in H.
  assert (existsb (String.eqb k) reserved_keys = true).
  { apply existsb_exists. exists k. split; [exact Hin | apply String.eqb_refl]. }
  congruence.
Qed.

Lemma okval_facts : forall v, okval v = true ->
  starts_nonspace v = true /\ ends_nonspace v = true /\ no_nl v = true.
Proof.
  intros v H. unfold okval in H. repeat (apply andb_true_iff in H; destruct H as [H ?]). auto.
Qed.

(* ------------------------------------------------------------------ *)
(* one header line of the writer through the parser                     *)

Lemma KEY_window : (KEY_MAX + 1 < KEY_LENGTH_MAX)%nat.
Proof. vm_compute. lia. Qed.

Lemma strip_hash_comment_line : forall k v, keyfacts k ->
  strip_hash (comment_line (k, v)) = k ++ " : " ++ v.
Proof.
  intros k v F. unfold comment_line, strip_hash. simpl.
  destruct k as [|c k']; [destruct (kf_nonempty _ F); reflexivity|].
  pose proof (kf_noblank _ F) as Hb. simpl in Hb. apply andb_true_iff in Hb as [Hb _].
  apply negb_true_iff in Hb. simpl. now rewrite Hb.
Qed.

Lemma parse_user_line : forall k v i, keyfacts k -> okval v = true ->
  parse_line is_rule i (k ++ " : " ++ v) = (Some (k, v), i).
Proof.
  intros k v i F Hv. destruct (okval_facts _ Hv) as (Hs & He & _).
  unfold parse_line.
  change (" : " ++ v) with (String " " (String ":" (String " " v))).
  assert (Hrule : is_rule (k ++ String " " (String ":" (String " " v))) = false).
  { unfold is_rule. rewrite dash_prefix_app_nondash by reflexivity. apply (kf_norule _ F). }
  rewrite Hrule.
  assert (Hsplit : k ++ String " " (String ":" (String " " v)) = (k ++ " ") ++ String ":" (String " " v)).
  { rewrite app_assoc_s. reflexivity. }
  assert (Hnc : nocolon (k ++ " ") = true).
  { unfold nocolon. rewrite sforall_app. fold (nocolon k). rewrite (kf_nocolon _ F). reflexivity. }
  rewrite Hsplit.
  rewrite colon_within_app.
  2:{ rewrite length_app. simpl. pose proof (kf_len _ F). pose proof KEY_window. lia. }
  rewrite after_colon_app, before_colon_app by exact Hnc.
  rewrite py_strip_space_l by assumption.
  destruct v as [|cv rv]; [discriminate|]. simpl is_empty. cbv iota.
  unfold py_strip. rewrite lstrip_id.
  2:{ destruct k; [destruct (kf_nonempty _ F); reflexivity|].
      pose proof (kf_nospace _ F) as H0. simpl in H0. apply andb_true_iff in H0 as [H0 _]. exact H0. }
  rewrite rstrip_space_r.
  2:{ apply sforall_nonspace_ends; [apply (kf_nonempty _ F) | apply (kf_nospace _ F)]. }
  rewrite lower_id by apply (kf_noupper _ F).
  rewrite sub_spaces_id by apply (kf_noblank _ F).
  reflexivity.
Qed.

(* the dashed rule written by _csvhead is skipped *)
Lemma rule_line_skipped : forall i, parse_line is_rule i (strip_hash HEAD_RULE) = (None, i).
Proof.
  intros i. unfold parse_line.
  replace (is_rule (strip_hash HEAD_RULE)) with true by (vm_compute; reflexivity). reflexivity.
Qed.

(* ------------------------------------------------------------------ *)
(* the loop of _header2comment                                          *)

(* no line of [lines] assigns key k, whatever the counter *)
Definition untouched (rule : string -> bool) (k : string) (lines : list string) : Prop :=
  forall l i k' v' i', In l lines -> parse_line rule i l = (Some (k', v'), i') -> k' <> k.

Lemma h2c_untouched : forall rule k lines i d,
  untouched rule k lines -> lookup k (h2c_from rule i d lines) = lookup k d.
Proof.
  induction lines as [|l rest IH]; intros i d H; simpl; [reflexivity|].
  destruct (parse_line rule i l) as [[[k' v']|] i'] eqn:E.
  - rewrite IH. 2:{ intros l0 j a b c Hin. apply H. now right. }
    apply lookup_dset_other. intro Heq. subst k'. eapply H; [left; reflexivity | exact E | reflexivity].
  - apply IH. intros l0 j a b c Hin. apply H. now right.
Qed.

Lemma h2c_cons_none : forall rule i i' d l rest,
  parse_line rule i l = (None, i') -> h2c_from rule i d (l :: rest) = h2c_from rule i' d rest.
Proof. intros. simpl. now rewrite H. Qed.

Lemma h2c_assigned : forall rule k v pre l post i d,
  (forall j, parse_line rule j l = (Some (k, v), j)) ->
  untouched rule k post ->
  lookup k (h2c_from rule i d (pre ++ l :: post)%list) = Some v.
Proof.
  induction pre as [|p pre IH]; intros l post i d Hl Hpost; simpl.
  - rewrite Hl. rewrite h2c_untouched by assumption. apply lookup_dset_same.
  - destruct (parse_line rule i p) as [[[k' v']|] i']; apply IH; assumption.
Qed.

(* ------------------------------------------------------------------ *)
(* sorted(comments) and the dictionary built from the caller's one      *)

Lemma insert_kv_perm : forall kv l, Permutation (insert_kv kv l) (kv :: l).
Proof.
  induction l as [|h t IH]; simpl; [apply Permutation_refl|].
  destruct (String.leb (fst kv) (fst h)); [apply Permutation_refl|].
  eapply Permutation_trans; [apply perm_skip, IH | apply perm_swap].
Qed.

Lemma sort_kv_perm : forall l, Permutation (sort_kv l) l.
Proof.
  induction l as [|h t IH]; simpl; [constructor|].
  eapply Permutation_trans; [apply insert_kv_perm | now apply perm_skip].
Qed.

Lemma norm_key_id : forall k, keyfacts k -> norm_key k = k.
Proof.
  intros k F. unfold norm_key. rewrite sfilter_id by apply (kf_nocolon _ F).
  apply lower_id, (kf_noupper _ F).
Qed.

Lemma comments_of_dict_id : forall d,
  NoDup (map fst d) -> Forall (fun kv => keyfacts (fst kv)) d -> comments_of (CDict d) = d.
Proof.
  intros d Hnd Hk. unfold comments_of.
  assert (G : forall (d acc : dict), NoDup (map fst acc ++ map fst d)%list ->
              Forall (fun kv => keyfacts (fst kv)) d ->
              fold_left (fun acc kv => dset (norm_key (fst kv)) (snd kv) acc) d acc = (acc ++ d)%list).
  { clear. induction d as [|[k v] d IH]; intros acc Hnd Hk; simpl.
    - now rewrite app_nil_r.
    - inversion Hk as [|? ? Hk1 Hk2]; subst. simpl in Hk1. rewrite norm_key_id by assumption.
      rewrite dset_fresh.
      2:{ apply NoDup_remove_2 in Hnd. intro Hin. apply Hnd. apply in_or_app. now left. }
      rewrite IH; auto.
      + now rewrite <- app_assoc.
      + rewrite map_app. simpl. rewrite <- app_assoc. exact Hnd. }
  apply (G d []); simpl; assumption.
Qed.

(* ------------------------------------------------------------------ *)
(* the caller's lines among the lines of the header                      *)

Lemma user_lines_untouched : forall k (l : dict),
  ~ In k (map fst l) ->
  Forall (fun kv => keyfacts (fst kv) /\ okval (snd kv) = true) l ->
  untouched is_rule k (map (fun kv => strip_hash (comment_line kv)) l).
Proof.
  intros k l Hnin Hall ln i k' v' i' Hin Hp.
  apply in_map_iff in Hin as [[k2 v2] [Heq Hin2]]. subst ln.
  rewrite Forall_forall in Hall. destruct (Hall _ Hin2) as [F V]. simpl in F, V.
  rewrite strip_hash_comment_line in Hp by assumption.
  rewrite parse_user_line in Hp by assumption. inversion Hp; subst.
  intro Heq; subst. apply Hnin. apply in_map_iff. exists (k, v'). auto.
Qed.

Lemma untouched_app : forall rule k a b,
  untouched rule k a -> untouched rule k b -> untouched rule k (a ++ b)%list.
Proof.
  intros rule k a b Ha Hb l i k' v' i' Hin. apply in_app_or in Hin as [Hin | Hin]; eauto.
Qed.

Lemma untouched_rule : forall k, untouched is_rule k [strip_hash HEAD_RULE].
Proof.
  intros k l i k' v' i' [Hin | []] Hp. subst l. rewrite rule_line_skipped in Hp. discriminate.
Qed.

(* [kvs]: all the (key, value) lines of the header (nrow, ncol, caller's comments),
   [gen]: the generated lines that follow.  Every pair of [kvs] is returned. *)
Lemma header_returns_pairs : forall (kvs : dict) (gen : list string) k v,
  NoDup (map fst kvs) ->
  Forall (fun kv => keyfacts (fst kv) /\ okval (snd kv) = true) kvs ->
  untouched is_rule k (map strip_hash gen) ->
  In (k, v) kvs ->
  lookup k (header2comment (map strip_hash
     (HEAD_RULE :: map comment_line kvs ++ gen ++ [HEAD_RULE])%list)) = Some v.
Proof.
  intros kvs gen k v Hnd Hall Hgen Hin.
  apply in_split in Hin as (l1 & l2 & Heq). subst kvs.
  unfold header2comment. rewrite map_cons.
  rewrite (h2c_cons_none _ _ _ _ _ _ (rule_line_skipped 1)).
  rewrite (map_app comment_line), (map_cons comment_line).
  rewrite <- app_assoc, <- app_comm_cons.
  rewrite (map_app strip_hash), (map_cons strip_hash), !map_app, !map_map.
  assert (Hall' := Hall). rewrite Forall_forall in Hall'.
  destruct (Hall' (k, v)) as [F V]; [apply in_or_app; right; now left|]. simpl in F, V.
  apply h2c_assigned.
  - intros j. rewrite strip_hash_comment_line by assumption. now apply parse_user_line.
  - apply untouched_app; [|apply untouched_app; [exact Hgen | apply untouched_rule]].
    apply user_lines_untouched.
    + rewrite map_app in Hnd. simpl in Hnd. apply NoDup_remove_2 in Hnd.
      intro Hi. apply Hnd. apply in_or_app. now right.
    + apply Forall_app in Hall as [_ Hall]. now inversion Hall.
Qed.

(* ------------------------------------------------------------------ *)
(* decimal numerals are values                                          *)

Definition is_digit (c : ascii) : bool := ((48 <=? code c) && (code c <=? 57))%nat.

Lemma uint_digits : forall d, sforall is_digit (NilEmpty.string_of_uint d) = true.
Proof. induction d; simpl; auto. Qed.

Lemma dec_uint_digits : forall d, sforall is_digit (NilZero.string_of_uint d) = true /\
                                  NilZero.string_of_uint d <> "".
Proof.
  intros d. unfold NilZero.string_of_uint. destruct d; simpl; split;
    try reflexivity; try discriminate; apply uint_digits.
Qed.

Lemma digit_props : forall c, is_digit c = true ->
  negb (is_space c) = true /\ negb (Ascii.eqb c NL) = true.
Proof.
  intros c H. unfold is_digit in H. apply andb_true_iff in H as [H1 H2].
  apply Nat.leb_le in H1, H2. unfold is_space.
  assert (E : Ascii.eqb c NL = false).
  { apply Ascii.eqb_neq. intro; subst c. vm_compute in H1. lia. }
  rewrite E. split; [|reflexivity].
  apply negb_true_iff. apply orb_false_iff. split; apply andb_false_iff.
  - right. apply Nat.leb_gt. lia.
  - right. apply Nat.leb_gt. lia.
Qed.

Lemma digits_okval : forall s, s <> "" -> sforall is_digit s = true -> okval s = true.
Proof.
  intros s Hne H. unfold okval.
  assert (Hs : sforall (fun c => negb (is_space c)) s = true).
  { eapply sforall_impl; [|exact H]. intros c Hc. now apply digit_props. }
  rewrite sforall_nonspace_starts, sforall_nonspace_ends by assumption. simpl.
  unfold contains. rewrite negb_involutive.
  eapply sforall_impl; [|exact H]. intros c Hc. now apply digit_props.
Qed.

Lemma dec_N_okval : forall n, okval (dec_N n) = true.
Proof.
  intros n. unfold dec_N. destruct (dec_uint_digits (N.to_uint n)). now apply digits_okval.
Qed.

(* the recorded count can be read back as the number *)
Lemma dec_N_parses : forall n,
  option_map N.of_uint (NilZero.uint_of_string (dec_N n)) = Some n.
Proof.
  intros n. unfold dec_N. rewrite NilZero.usu.
  - simpl. f_equal. apply DecimalN.Unsigned.of_to.
  - destruct n; simpl; [discriminate | apply DecimalPos.Unsigned.to_uint_nonnil].
Qed.

(* ------------------------------------------------------------------ *)
(* a line "# key : rest" with a well-formed key, whatever follows        *)

Lemma parse_fixed_key : forall k rest i, keyfacts k ->
  parse_line is_rule i (k ++ " : " ++ rest) =
    (if is_empty (py_strip (String " " rest)) then None else Some (k, py_strip (String " " rest)), i).
Proof.
  intros k v i F. unfold parse_line.
  change (" : " ++ v) with (String " " (String ":" (String " " v))).
  assert (Hrule : is_rule (k ++ String " " (String ":" (String " " v))) = false).
  { unfold is_rule. rewrite dash_prefix_app_nondash by reflexivity. apply (kf_norule _ F). }
  rewrite Hrule.
  assert (Hsplit : k ++ String " " (String ":" (String " " v)) = (k ++ " ") ++ String ":" (String " " v)).
  { rewrite app_assoc_s. reflexivity. }
  assert (Hnc : nocolon (k ++ " ") = true).
  { unfold nocolon. rewrite sforall_app. fold (nocolon k). rewrite (kf_nocolon _ F). reflexivity. }
  rewrite Hsplit.
  rewrite colon_within_app.
  2:{ rewrite length_app. simpl. pose proof (kf_len _ F). pose proof KEY_window. lia. }
  rewrite after_colon_app, before_colon_app by exact Hnc.
  replace (sub_spaces false (lower (py_strip (k ++ " ")))) with k; [reflexivity|].
  unfold py_strip. rewrite lstrip_id.
  2:{ destruct k; [destruct (kf_nonempty _ F); reflexivity|].
      pose proof (kf_nospace _ F) as H0. simpl in H0. apply andb_true_iff in H0 as [H0 _]. exact H0. }
  rewrite rstrip_space_r.
  2:{ apply sforall_nonspace_ends; [apply (kf_nonempty _ F) | apply (kf_nospace _ F)]. }
  rewrite lower_id by apply (kf_noupper _ F).
  rewrite sub_spaces_id by apply (kf_noblank _ F).
  reflexivity.
Qed.

Lemma fixed_key_line_key : forall k rest i k' v' i', keyfacts k ->
  parse_line is_rule i (strip_hash (comment_line (k, rest))) = (Some (k', v'), i') -> k' = k.
Proof.
  intros k rest i k' v' i' F H. rewrite strip_hash_comment_line in H by assumption.
  rewrite parse_fixed_key in H by assumption.
  destruct (is_empty (py_strip (String " " rest))); inversion H; reflexivity.
Qed.

(* ------------------------------------------------------------------ *)
(* the generated lines only define reserved keys or comment_NN keys     *)

Definition env_ok (e : envinfo) : Prop :=
  match e with WithSys s => nocolon (s_osname s) = true | NoSys _ => True end.

Lemma reserved_keyfacts : forall k, In k reserved_keys -> keyfacts k.
Proof.
  intros k H. apply keyform_facts. simpl in H.
  repeat (destruct H as [H | H]; [subst k; vm_compute; reflexivity|]). contradiction.
Qed.

Lemma prefix_app_self : forall a b, prefix a (a ++ b) = true.
Proof.
  induction a; simpl; intros; [destruct b; reflexivity|].
  destruct (ascii_dec a a); [apply IHa | congruence].
Qed.

Lemma pyenv_line_key : forall os i k v i', nocolon os = true ->
  parse_line is_rule i (strip_hash ("# python_environment " ++ os)) = (Some (k, v), i') ->
  prefix "comment_" k = true.
Proof.
  intros os i k v i' Hos H.
  change (strip_hash ("# python_environment " ++ os)) with ("python_environment " ++ os) in H.
  unfold parse_line in H.
  change (is_rule ("python_environment " ++ os)) with false in H. cbv iota in H.
  rewrite colon_within_nocolon in H.
  2:{ unfold nocolon. rewrite sforall_app. fold (nocolon os). rewrite Hos. reflexivity. }
  simpl is_empty in H. inversion H. unfold comment_key. apply prefix_app_self.
Qed.

Definition generated_keys : list string :=
  ["time_generated"; "author"; "source_file"; "work_dir";
   "python_version"; "pandas_version"; "numpy_version"; "python_inc"; "python_lib"].

Lemma reserved_keys_split : reserved_keys = ("nrow" :: "ncol" :: generated_keys)%list.
Proof. reflexivity. Qed.

Lemma gen_lines_keys : forall time author e l i k v i',
  env_ok e ->
  In l (map strip_hash (gen_lines time author e)) ->
  parse_line is_rule i l = (Some (k, v), i') ->
  In k generated_keys \/ prefix "comment_" k = true.
Proof.
  intros time author e l i k v i' He Hin Hp.
  assert (FK : forall key rest, In key generated_keys -> l = strip_hash (comment_line (key, rest)) ->
               In k generated_keys \/ prefix "comment_" k = true).
  { intros key rest Hk Hl. subst l. left.
    apply fixed_key_line_key in Hp; [subst k; exact Hk|].
    apply reserved_keyfacts. rewrite reserved_keys_split. now do 2 right. }
  unfold gen_lines in Hin. rewrite map_app in Hin. apply in_app_or in Hin as [Hin | Hin].
  - simpl in Hin. destruct Hin as [Hin | [Hin | []]].
    + apply (FK "time_generated" time); [simpl; tauto | now rewrite <- Hin].
    + apply (FK "author" author); [simpl; tauto | now rewrite <- Hin].
  - destruct e as [s | name].
    + rewrite map_app in Hin. apply in_app_or in Hin as [Hin | Hin].
      * simpl in Hin.
        destruct Hin as [Hin | [Hin | [Hin | [Hin | [Hin | [Hin | []]]]]]].
        -- apply (FK "source_file" (s_source s)); [simpl; tauto | now rewrite <- Hin].
        -- apply (FK "work_dir" (s_workdir s)); [simpl; tauto | now rewrite <- Hin].
        -- right. subst l. eapply pyenv_line_key; [exact He | exact Hp].
        -- apply (FK "python_version" (s_python s)); [simpl; tauto | now rewrite <- Hin].
        -- apply (FK "pandas_version" (s_pandas s)); [simpl; tauto | now rewrite <- Hin].
        -- apply (FK "numpy_version" (s_numpy s)); [simpl; tauto | now rewrite <- Hin].
      * destruct (s_distutils s) as [[inc lib]|]; simpl in Hin; [|contradiction].
        destruct Hin as [Hin | [Hin | []]].
        -- apply (FK "python_inc" inc); [simpl; tauto | now rewrite <- Hin].
        -- apply (FK "python_lib" lib); [simpl; tauto | now rewrite <- Hin].
    + simpl in Hin. destruct Hin as [Hin | []].
      apply (FK "source_file" name); [simpl; tauto | now rewrite <- Hin].
Qed.

(* ------------------------------------------------------------------ *)
(* the comment dictionary comes back (core theorem)                     *)

Definition okpair (kv : string * string) : Prop := okkey (fst kv) = true /\ okval (snd kv) = true.

Lemma csvhead_shape : forall nrow ncol c gen,
  csvhead nrow ncol c gen =
  (HEAD_RULE :: map comment_line (("nrow", dec_N nrow) :: ("ncol", dec_N ncol) :: sort_kv (comments_of c))
     ++ gen ++ [HEAD_RULE])%list.
Proof. reflexivity. Qed.

Lemma okkey_facts : forall k, okkey k = true -> keyfacts k.
Proof. intros. now apply keyform_facts, okkey_keyform. Qed.

Theorem comments_roundtrip_gen : forall nrow ncol (d : dict) (gen : list string),
  NoDup (map fst d) -> Forall okpair d ->
  (forall k, In k ("nrow" :: "ncol" :: map fst d) -> untouched is_rule k (map strip_hash gen)) ->
  let c := header2comment (map strip_hash (csvhead nrow ncol (CDict d) gen)) in
  lookup "nrow" c = Some (dec_N nrow) /\ lookup "ncol" c = Some (dec_N ncol) /\
  forall k v, In (k, v) d -> lookup k c = Some v.
Proof.
  intros nrow ncol d gen Hnd Hok Hgen c. subst c. rewrite csvhead_shape.
  assert (HF : Forall (fun kv => keyfacts (fst kv)) d).
  { eapply Forall_impl; [|exact Hok]. intros kv [H _]. now apply okkey_facts. }
  rewrite comments_of_dict_id by assumption.
  set (kvs := ("nrow", dec_N nrow) :: ("ncol", dec_N ncol) :: sort_kv d).
  assert (Hperm : Permutation (sort_kv d) d) by apply sort_kv_perm.
  assert (Hres : forall k, In k (map fst d) -> ~ In k reserved_keys).
  { intros k Hk. apply in_map_iff in Hk as [[k0 v0] [Hk Hin]]. simpl in Hk. subst k0.
    rewrite Forall_forall in Hok. destruct (Hok _ Hin) as [H _]. now apply okkey_not_reserved. }
  assert (Hkeys : forall k, In k (map fst (sort_kv d)) <-> In k (map fst d)).
  { intros k. split; apply Permutation_in; [|apply Permutation_sym]; now apply Permutation_map. }
  assert (Hnd' : NoDup (map fst kvs)).
  { unfold kvs. simpl. constructor; [|constructor].
    - intros [H | H]; [discriminate|]. apply Hkeys in H. apply (Hres _ H). simpl; tauto.
    - intros H. apply Hkeys in H. apply (Hres _ H). simpl; tauto.
    - eapply Permutation_NoDup; [apply Permutation_sym, Permutation_map, Hperm | exact Hnd]. }
  assert (Hall : Forall (fun kv => keyfacts (fst kv) /\ okval (snd kv) = true) kvs).
  { unfold kvs. constructor; [|constructor].
    - split; [apply reserved_keyfacts; simpl; tauto | apply dec_N_okval].
    - split; [apply reserved_keyfacts; simpl; tauto | apply dec_N_okval].
    - eapply Permutation_Forall; [apply Permutation_sym, Hperm|].
      eapply Forall_impl; [|exact Hok]. intros kv [H1 H2]. split; [now apply okkey_facts | exact H2]. }
  repeat split.
  - apply header_returns_pairs; auto. { apply Hgen. simpl; tauto. } unfold kvs; simpl; tauto.
  - apply header_returns_pairs; auto. { apply Hgen. simpl; tauto. } unfold kvs; simpl; tauto.
  - intros k v Hin. apply header_returns_pairs; auto.
    + apply Hgen. right; right. apply in_map_iff. exists (k, v). auto.
    + unfold kvs. right; right. eapply Permutation_in; [apply Permutation_sym, Hperm | exact Hin].
Qed.

Lemma okkey_not_comment : forall k, okkey k = true -> prefix "comment_" k = false.
Proof. intros. apply (kf_nocomment _ (okkey_facts _ H)). Qed.

(* with the lines _csvhead generates itself *)
Theorem comments_roundtrip : forall nrow ncol (d : dict) time author e,
  NoDup (map fst d) -> Forall okpair d -> env_ok e ->
  let c := header2comment (map strip_hash (csvhead nrow ncol (CDict d) (gen_lines time author e))) in
  lookup "nrow" c = Some (dec_N nrow) /\ lookup "ncol" c = Some (dec_N ncol) /\
  forall k v, In (k, v) d -> lookup k c = Some v.
Proof.
  intros nrow ncol d time author e Hnd Hok He. apply comments_roundtrip_gen; auto.
  intros k Hk l i k' v' i' Hin Hp Heq. subst k'.
  destruct (gen_lines_keys _ _ _ _ _ _ _ _ He Hin Hp) as [Hr | Hc].
  - destruct Hk as [Hk | [Hk | Hk]];
      try (subst k; simpl in Hr; repeat (destruct Hr as [Hr | Hr]; [discriminate|]); contradiction).
    apply in_map_iff in Hk as [[k0 v0] [Hk0 Hin0]]. simpl in Hk0. subst k0.
    rewrite Forall_forall in Hok. destruct (Hok _ Hin0) as [H _].
    apply (okkey_not_reserved _ H). rewrite reserved_keys_split. now do 2 right.
  - destruct Hk as [Hk | [Hk | Hk]]; try (subst k; vm_compute in Hc; discriminate).
    apply in_map_iff in Hk as [[k0 v0] [Hk0 Hin0]]. simpl in Hk0. subst k0.
    rewrite Forall_forall in Hok. destruct (Hok _ Hin0) as [H _]. simpl in H.
    rewrite (okkey_not_comment _ H) in Hc. discriminate.
Qed.

(* ------------------------------------------------------------------ *)
(* the keys named by the property: lower-case letters, digits, underscore *)

Definition is_lower (c : ascii) : bool := ((97 <=? code c) && (code c <=? 122))%nat.
Definition plain_keychar (c : ascii) : bool := is_lower c || is_digit c || Ascii.eqb c "_".

Lemma plain_keychar_ok : forall c, plain_keychar c = true ->
  keychar_ok c = true /\ Ascii.eqb c "-" = false.
Proof.
  intros c. destruct c as [[] [] [] [] [] [] [] []]; vm_compute; intros H; try discriminate; auto.
Qed.

Lemma RULE_DASHES_pos : exists n, RULE_DASHES = S n.
Proof. eexists. reflexivity. Qed.

Lemma plain_key_okkey : forall k,
  k <> "" -> sforall plain_keychar k = true -> (String.length k <= KEY_MAX)%nat ->
  ~ In k reserved_keys -> prefix "comment_" k = false -> okkey k = true.
Proof.
  intros k Hne Hch Hlen Hres Hcom.
  assert (H1 : sforall keychar_ok k = true).
  { eapply sforall_impl; [|exact Hch]. intros c Hc. now apply plain_keychar_ok. }
  assert (H2 : is_rule k = false).
  { unfold is_rule. destruct RULE_DASHES_pos as [n ->].
    destruct k as [|c r]; [reflexivity|]. simpl in Hch. apply andb_true_iff in Hch as [Hc _].
    simpl. destruct (plain_keychar_ok _ Hc) as [_ Hd]. now rewrite Hd. }
  assert (H3 : existsb (String.eqb k) reserved_keys = false).
  { destruct (existsb (String.eqb k) reserved_keys) eqn:E; [|reflexivity].
    apply existsb_exists in E as [x [Hx Hk]]. apply String.eqb_eq in Hk. subst x. contradiction. }
  apply is_empty_false in Hne. apply Nat.leb_le in Hlen.
  unfold okkey, keyform. rewrite Hne, H1, Hlen, H2, Hcom, H3. reflexivity.
Qed.

(* ------------------------------------------------------------------ *)
(* the pinned parser (ten dashes anywhere in the line) loses comments   *)

Definition example_dict : dict :=
  [("k1", "v: 1 # x"); ("k2", "---------- x"); ("site_id_01", "410734: Queanbeyan # gauge -- 2")].

Lemma example_dict_ok : NoDup (map fst example_dict) /\ Forall okpair example_dict.
Proof.
  split.
  - simpl. repeat constructor; simpl; intuition discriminate.
  - repeat constructor.
Qed.

Lemma dashes_pinned_refuted :
  lookup "k2" (header2comment_pinned (map strip_hash
     (csvhead 2 3 (CDict example_dict) (gen_lines "2026-01-01 00:00:00" "me" (NoSys "s.py"))))) = None
  /\
  lookup "k2" (header2comment (map strip_hash
     (csvhead 2 3 (CDict example_dict) (gen_lines "2026-01-01 00:00:00" "me" (NoSys "s.py")))))
    = Some "---------- x".
Proof. split; vm_compute; reflexivity. Qed.

(* ------------------------------------------------------------------ *)
(* comment given as a single string: stored under the key "comment"     *)

Theorem string_comment_roundtrip : forall nrow ncol s time author e,
  okval s = true -> env_ok e ->
  let c := header2comment (map strip_hash (csvhead nrow ncol (CStr s) (gen_lines time author e))) in
  lookup "nrow" c = Some (dec_N nrow) /\ lookup "ncol" c = Some (dec_N ncol) /\
  lookup "comment" c = Some s.
Proof.
  intros nrow ncol s time author e Hs He.
  change (csvhead nrow ncol (CStr s) (gen_lines time author e))
    with (csvhead nrow ncol (CDict [("comment", s)]) (gen_lines time author e)).
  destruct (comments_roundtrip nrow ncol [("comment", s)] time author e) as (H1 & H2 & H3); auto.
  - repeat constructor. intros [].
  - repeat constructor. simpl. exact Hs.
  - repeat split; auto. apply H3. now left.
Qed.
