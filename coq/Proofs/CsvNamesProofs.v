(* Proofs about the file-name half of Model/CsvHeader.v (property C09):
   what write_csv stores under a name, read_csv finds under that name. *)
From Coq Require Import ZArith NArith Bool List String Ascii Lia.
From Hy Require Import Base.Num Gen.ConstsC09 Model.CsvHeader Proofs.CsvHeaderProofs.
Import ListNotations.
Open Scope string_scope.

Definition nodot (s : string) : bool := sforall (fun c => negb (Ascii.eqb c ".")) s.

Lemma split_last_dot_nodot : forall s, nodot s = true -> split_last_dot s = None.
Proof.
  induction s; simpl; intros H; [reflexivity|].
  apply andb_true_iff in H as [H1 H2]. apply negb_true_iff in H1. now rewrite IHs, H1.
Qed.

Lemma split_last_dot_app : forall st ext, nodot ext = true ->
  split_last_dot (st ++ String "." ext) = Some (st, ext).
Proof.
  induction st; simpl; intros ext H.
  - now rewrite split_last_dot_nodot.
  - now rewrite IHst.
Qed.

Lemma split_last_dot_none : forall s, split_last_dot s = None -> nodot s = true.
Proof.
  induction s; intros H; [reflexivity|]. simpl in H.
  destruct (split_last_dot s) as [[? ?]|]; [discriminate|].
  destruct (Ascii.eqb a ".") eqn:Ea; [discriminate|].
  unfold nodot in *. cbn [sforall]. rewrite Ea. simpl. now apply IHs.
Qed.

(* what split_last_dot returns, when it returns something *)
Lemma split_last_dot_spec : forall s b a, split_last_dot s = Some (b, a) ->
  s = b ++ String "." a /\ nodot a = true.
Proof.
  induction s; simpl; intros b a0 H; [discriminate|].
  destruct (split_last_dot s) as [[b' a']|] eqn:E.
  - inversion H; subst. destruct (IHs _ _ eq_refl) as [H1 H2]. subst s. split; auto.
  - destruct (Ascii.eqb a ".") eqn:Ea; [|discriminate].
    inversion H; subst. apply Ascii.eqb_eq in Ea. subst a. split; [reflexivity|].
    now apply split_last_dot_none.
Qed.

(* the decomposition pathlib makes: name = stem ++ suffix *)
Lemma stem_suffix_spec : forall name,
  name = stem name ++ suffix name /\
  (suffix name = "" /\ stem name = name \/
   exists a, suffix name = String "." a /\ a <> "" /\ nodot a = true /\ stem name <> "").
Proof.
  intros name. unfold stem, suffix, stem_suffix.
  destruct (split_last_dot name) as [[b a]|] eqn:E.
  - destruct (split_last_dot_spec _ _ _ E) as [H1 H2].
    destruct (is_empty b || is_empty a) eqn:Em; simpl.
    + split; [now rewrite app_empty_r | left; auto].
    + apply orb_false_iff in Em as [Eb Ea]. apply is_empty_false in Eb, Ea.
      split; [exact H1 | right; exists a; auto].
  - simpl. split; [now rewrite app_empty_r | left; auto].
Qed.

Lemma stem_nonempty : forall name, name <> "" -> stem name <> "".
Proof.
  intros name Hne. destruct (stem_suffix_spec name) as [_ [[_ H] | [a (_ & _ & _ & H)]]]; congruence.
Qed.

Lemma stem_suffix_app : forall st ext, st <> "" -> ext <> "" -> nodot ext = true ->
  stem_suffix (st ++ String "." ext) = (st, String "." ext).
Proof.
  intros st ext Hs He Hn. unfold stem_suffix. rewrite split_last_dot_app by assumption.
  apply is_empty_false in Hs, He. now rewrite Hs, He.
Qed.

Lemma append_neq_self : forall a b : string, b <> "" -> a ++ b <> a.
Proof.
  intros a b Hb H. assert (L : String.length (a ++ b) = String.length a) by now rewrite H.
  rewrite length_app in L. destruct b; [congruence | simpl in L; lia].
Qed.

(* a name whose suffix is not .zip is not its own zip container *)
Lemma name_not_container : forall name, suffix name <> ".zip" -> name <> stem name ++ ".zip".
Proof.
  intros name Hs Heq. destruct (stem_suffix_spec name) as [Hn [[H1 H2] | [a (H1 & _)]]].
  - rewrite H2 in Heq. symmetry in Heq. revert Heq. apply append_neq_self. discriminate.
  - rewrite Hn in Heq at 1. apply app_inv_head_s in Heq. congruence.
Qed.

Lemma exists_in_dset : forall fs name k n,
  exists_in (dset name k fs) n = if String.eqb n name then true else exists_in fs n.
Proof.
  intros. unfold exists_in. destruct (String.eqb n name) eqn:E.
  - apply String.eqb_eq in E. subst. now rewrite lookup_dset_same.
  - apply String.eqb_neq in E. now rewrite lookup_dset_other.
Qed.

(* the extensions _check_name tries before "zip" *)
Fixpoint before_zip (l : list string) : list string :=
  match l with
  | [] => []
  | e :: r => if String.eqb e "zip" then [] else e :: before_zip r
  end.

Lemma zip_is_tried : In "zip" CHECK_EXTENSIONS.
Proof. simpl. tauto. Qed.

Lemma find_zip : forall (ex : string -> bool) st exts,
  In "zip" exts ->
  Forall (fun e => ex (st ++ "." ++ e) = false) (before_zip exts) ->
  ex (st ++ ".zip") = true ->
  find ex (map (fun e => st ++ "." ++ e) exts) = Some (st ++ ".zip").
Proof.
  induction exts as [|e r IH]; intros Hin Hb Hz; [contradiction|].
  simpl. simpl in Hb. destruct (String.eqb e "zip") eqn:E.
  - apply String.eqb_eq in E. subst e. change (st ++ "." ++ "zip") with (st ++ ".zip"). now rewrite Hz.
  - inversion Hb; subst. rewrite H1. apply IH; auto.
    destruct Hin as [Hin | Hin]; [|exact Hin]. subst e. discriminate.
Qed.

(* ------------------------------------------------------------------ *)
(* compress=True: any non-empty name                                    *)

Theorem compress_roundtrip : forall (fs : fsys) name tag,
  name <> "" ->
  (* no stale file that read_csv would prefer: the name itself (unless it is the
     zip file that is written) and <stem>.<ext> for the extensions tried before zip *)
  (suffix name <> ".zip" ->
     exists_in fs name = false /\
     Forall (fun e => exists_in fs (stem name ++ "." ++ e) = false) (before_zip CHECK_EXTENSIONS)) ->
  read_file (write_file Compress name tag fs) name = ROk tag.
Proof.
  intros fs name tag Hne Hstale. unfold write_file, write_gen, write_container, write_member.
  destruct (String.eqb (suffix name) ".zip") eqn:Ez.
  - (* the name is the container *)
    apply String.eqb_eq in Ez. unfold read_file, check_name.
    rewrite exists_in_dset, String.eqb_refl. rewrite lookup_dset_same. rewrite Ez. simpl.
    now rewrite String.eqb_refl.
  - apply String.eqb_neq in Ez. destruct (Hstale Ez) as [Hn Hg].
    set (c := stem name ++ ".zip").
    assert (Hnc : name <> c) by now apply name_not_container.
    assert (Hst : stem name <> "") by now apply stem_nonempty.
    unfold read_file, check_name. rewrite exists_in_dset.
    apply String.eqb_neq in Hnc. rewrite Hnc, Hn.
    rewrite (find_zip _ (stem name) CHECK_EXTENSIONS zip_is_tried).
    + fold c. rewrite lookup_dset_same.
      assert (Hsuf : suffix c = ".zip").
      { unfold suffix, c. change (stem name ++ ".zip") with (stem name ++ String "." "zip").
        rewrite stem_suffix_app; auto. discriminate. }
      rewrite Hsuf. simpl. now rewrite String.eqb_refl.
    + (* the candidates tried before <stem>.zip do not exist *)
      assert (G : forall l, Forall (fun e => exists_in fs (stem name ++ "." ++ e) = false) (before_zip l) ->
                  Forall (fun e => exists_in (dset c (KZip [(stem name ++ ".csv", tag)]) fs)
                                     (stem name ++ "." ++ e) = false) (before_zip l)).
      { induction l as [|e r IH]; simpl; intros H; [constructor|].
        destruct (String.eqb e "zip") eqn:E; [constructor|].
        inversion H; subst. constructor; [|now apply IH].
        rewrite exists_in_dset.
        assert (Hd : String.eqb (stem name ++ String "." e) c = false).
        { apply String.eqb_neq. unfold c. intro Heq. apply app_inv_head_s in Heq.
          injection Heq as Heq. subst e. discriminate. }
        rewrite Hd. assumption. }
      apply G, Hg.
    + rewrite exists_in_dset. fold c. now rewrite String.eqb_refl.
Qed.

Corollary compress_roundtrip_fresh : forall name tag,
  name <> "" -> read_file (write_file Compress name tag []) name = ROk tag.
Proof.
  intros. apply compress_roundtrip; auto. intros _. split; [reflexivity|].
  rewrite Forall_forall. reflexivity.
Qed.

(* what is created: <stem>.zip (the name itself when it ends in .zip) holding <stem>.csv *)
Theorem compress_creates : forall fs name tag,
  lookup (write_container Compress name) (write_file Compress name tag fs)
    = Some (KZip [(stem name ++ ".csv", tag)]) /\
  (suffix name = ".zip" -> write_container Compress name = name) /\
  (suffix name <> ".zip" -> write_container Compress name = stem name ++ ".zip").
Proof.
  intros. unfold write_file, write_gen. rewrite lookup_dset_same. repeat split.
  - intros H. unfold write_container. now rewrite H.
  - intros H. unfold write_container. apply String.eqb_neq in H. now rewrite H.
Qed.

(* ------------------------------------------------------------------ *)
(* plain text file: any name that does not announce a compressed file  *)

Theorem plain_roundtrip : forall (fs : fsys) name tag,
  suffix name <> ".gz" -> suffix name <> ".zip" ->
  read_file (write_file Plain name tag fs) name = ROk tag.
Proof.
  intros fs name tag Hg Hz. unfold write_file, write_gen, write_container, read_file, check_name.
  rewrite exists_in_dset, String.eqb_refl, lookup_dset_same.
  apply String.eqb_neq in Hg, Hz. now rewrite Hg, Hz.
Qed.

(* a plain file under a .zip / .gz name cannot be read back: the hypotheses above are needed *)
Lemma plain_zip_name_fails : read_file (write_file Plain "t.zip" 7 []) "t.zip" = RBadFile.
Proof. vm_compute. reflexivity. Qed.

(* ------------------------------------------------------------------ *)
(* archive member                                                       *)

Theorem archive_roundtrip : forall arc path tag arc',
  write_archive path tag arc = Some arc' -> read_archive arc' path = ROk tag.
Proof.
  intros arc path tag arc' H. unfold write_archive in H.
  destruct (lookup (posix_norm path) arc) eqn:E; [discriminate|]. inversion H; subst.
  unfold read_archive. rewrite lookup_app_fresh; [reflexivity|]. now apply lookup_none_notin.
Qed.

(* an existing member is never overwritten: the call is refused *)
Theorem archive_refuses_existing : forall arc path tag,
  write_archive path tag arc = None <-> In (posix_norm path) (map fst arc).
Proof.
  intros. unfold write_archive. destruct (lookup (posix_norm path) arc) eqn:E.
  - split; [intros _ | reflexivity]. destruct (in_dec string_dec (posix_norm path) (map fst arc)); auto.
    apply lookup_none_notin in n. congruence.
  - split; [discriminate|]. intros H. apply lookup_none_notin in E. contradiction.
Qed.

(* the members already in the archive are still read after the addition *)
Theorem archive_keeps_members : forall arc path tag arc' p t,
  write_archive path tag arc = Some arc' -> lookup (posix_norm p) arc = Some t ->
  read_archive arc' p = ROk t.
Proof.
  intros arc path tag arc' p t H Hp. unfold write_archive in H.
  destruct (lookup (posix_norm path) arc) eqn:E; [discriminate|]. inversion H; subst.
  unfold read_archive.
  assert (G : forall (l : list (string * Z)) k v x, lookup k l = Some v -> lookup k (l ++ x)%list = Some v).
  { induction l as [|[k' v'] l IH]; simpl; intros; [discriminate|].
    destruct (String.eqb k k'); auto. }
  now rewrite (G _ _ _ _ Hp).
Qed.

(* ------------------------------------------------------------------ *)
(* the pinned code (member named after the file) does not round-trip    *)

Lemma compress_pinned_refuted :
  read_file (write_file_pinned Compress "t.zip" 7 []) "t.zip" = RNoMember /\
  read_file (write_file_pinned Compress "t" 7 []) "t" = RNoMember /\
  read_file (write_file_pinned Compress "t.txt" 7 []) "t.txt" = RNoMember /\
  read_file (write_file_pinned Compress "t.csv" 7 []) "t.csv" = ROk 7.
Proof. vm_compute. repeat split; reflexivity. Qed.
