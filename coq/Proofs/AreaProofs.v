(* Catchment area = upstream reachability (Model/Catchment.v, property C06). *)
From Coq Require Import ZArith Bool List Lia.
From Hy Require Import Base.Num Gen.Consts Model.Grid Model.Catchment
     Proofs.GridGeomProofs Proofs.FlowProofs.
Import ListNotations.
Open Scope Z_scope.

Fixpoint iter_n {A} (k : nat) (f : A -> A) (x : A) : A :=
  match k with O => x | S k' => f (iter_n k' f x) end.

Section Area.
Variables nrows ncols : Z.
Variables fd inlets : list Z.
Variable outlet : Z.
Hypothesis Hncols : 0 < ncols.
Hypothesis Hout : 0 <= outlet < nrows * ncols.

Notation dn := (downstream nrows ncols fd).
Notation hits := (upstream_hits nrows ncols fd).
Notation nxt := (next_layer nrows ncols fd inlets).
Notation valid c := (0 <= c < nrows * ncols).

Lemma udi c d : valid d -> (In c (hits d) <-> (valid c /\ dn c = Some d)).
Proof. apply (up_down_inverse FLOWDIRCODE flowdircode_wf nrows ncols fd Hncols). Qed.

(* x reaches the outlet in exactly k downstream steps, none of the k cells
   x, down x, ..., down^(k-1) x being an inlet *)
Fixpoint reach (k : nat) (x : Z) : Prop :=
  match k with
  | O => x = outlet
  | S k' => valid x /\ is_inlet inlets x = false /\
            exists b, valid b /\ dn x = Some b /\ reach k' b
  end.

Definition layer (k : nat) : list Z := iter_n k nxt [outlet].

Lemma reach_valid k x : reach k x -> valid x.
Proof. destruct k; cbn [reach]; [intros ->; exact Hout | tauto]. Qed.

Lemma in_next L x :
  (forall b, In b L -> valid b) ->
  (In x (nxt L) <-> exists b, In b L /\ valid x /\ is_inlet inlets x = false /\ dn x = Some b).
Proof.
  intros HL. unfold next_layer. rewrite in_flat_map. split.
  - intros [b [Hb Hin]]. apply filter_In in Hin. destruct Hin as [Hin Hf].
    apply udi in Hin; [|apply HL; assumption]. apply negb_true_iff in Hf.
    exists b. tauto.
  - intros (b & Hb & Hv & Hi & Hd). exists b. split; [assumption|].
    apply filter_In. split; [apply udi; [apply HL; assumption|tauto]|].
    apply negb_true_iff. assumption.
Qed.

Lemma layer_S k : layer (S k) = nxt (layer k).
Proof. reflexivity. Qed.

Lemma in_layer k x : In x (layer k) <-> reach k x.
Proof.
  revert x; induction k as [|k IH]; intros x.
  - cbn. split; [intros [H|[]]; auto | intros ->; auto].
  - rewrite layer_S, in_next.
    + cbn [reach]. split.
      * intros (b & Hb & Hv & Hi & Hd). apply IH in Hb. repeat split; try tauto.
        exists b. repeat split; try tauto. apply (reach_valid k b Hb). apply (reach_valid k b Hb).
      * intros (Hv & Hi & b & Hvb & Hd & Hr). exists b. apply IH in Hr. tauto.
    + intros b Hb. apply IH in Hb. apply (reach_valid k b Hb).
Qed.

Lemma layer_valid k b : In b (layer k) -> valid b.
Proof. intros H. apply in_layer in H. apply (reach_valid k b H). Qed.

Lemma layer_nodup k : NoDup (layer k).
Proof.
  induction k as [|k IH].
  - cbn. constructor; [intros []|constructor].
  - rewrite layer_S. unfold next_layer. apply nodup_flat_map.
    + exact IH.
    + intros b Hb. apply NoDup_filter.
      apply (hits_nodup FLOWDIRCODE flowdircode_wf). apply (layer_valid k b Hb).
    + intros b b' x Hb Hb' Hx Hx'. apply filter_In in Hx, Hx'.
      destruct Hx as [Hx _], Hx' as [Hx' _].
      apply udi in Hx; [|apply (layer_valid k b Hb)].
      apply udi in Hx'; [|apply (layer_valid k b' Hb')].
      destruct Hx as [_ E1], Hx' as [_ E2]. congruence.
Qed.

(* two different step counts to the outlet put the outlet on a cycle *)
Lemma reach_split j m x : reach (j + m) x -> reach j x -> reach m outlet.
Proof.
  revert x; induction j as [|j IH]; intros x H1 H2.
  - cbn in H2. subst x. exact H1.
  - cbn [Nat.add reach] in H1, H2.
    destruct H1 as (_ & _ & b & _ & Hd & Hr). destruct H2 as (_ & _ & b' & _ & Hd' & Hr').
    assert (b = b') by congruence. subst b'. apply (IH b); assumption.
Qed.

Lemma next_nil : nxt [] = [].
Proof. reflexivity. Qed.

Lemma iter_nil m : iter_n m nxt [] = [].
Proof. induction m as [|m IH]; [reflexivity|]. cbn [iter_n]. rewrite IH. reflexivity. Qed.

Lemma iter_shift m L : iter_n m nxt (nxt L) = iter_n (S m) nxt L.
Proof. induction m as [|m IH]; [reflexivity|]. cbn [iter_n] in *. rewrite IH. reflexivity. Qed.

Lemma layer_add k m : iter_n m nxt (layer k) = layer (k + m).
Proof.
  induction m as [|m IH].
  - rewrite Nat.add_0_r. reflexivity.
  - cbn [iter_n]. rewrite IH. replace (k + S m)%nat with (S (k + m)) by lia. reflexivity.
Qed.

Lemma layer_empty_after k m : layer k = [] -> layer (k + m) = [].
Proof. intros H. rewrite <- layer_add, H. apply iter_nil. Qed.

(* ---------------- the loop ---------------- *)
Lemma loop_false fuel nval L area res :
  area_loop fuel nrows ncols fd inlets outlet nval false L area = DOk res ->
  exists n, res = area ++ List.concat (map (fun j => iter_n j nxt L) (seq 1 n)) /\
            iter_n (S n) nxt L = [].
Proof.
  revert L area res; induction fuel as [|fuel IH]; intros L area res H; [discriminate|].
  cbn [area_loop] in H.
  destruct (nval <=? zlen area + zlen (nxt L)); [discriminate|].
  destruct (nxt L) as [|c rest] eqn:En.
  - injection H as <-. exists 0%nat. cbn [seq map List.concat iter_n]. rewrite En. split; reflexivity.
  - apply IH in H. destruct H as (n & -> & Hend).
    exists (S n). split.
    + rewrite <- app_assoc. f_equal.
      rewrite <- cons_seq. cbn [map List.concat]. change (iter_n 1 nxt L) with (nxt L). rewrite En. f_equal.
      rewrite <- (seq_shift n 1), map_map. f_equal. apply map_ext. intros j.
      rewrite <- En. apply iter_shift.
    + rewrite <- En in Hend. rewrite iter_shift in Hend. exact Hend.
Qed.

(* shape of a successful delineation *)
Lemma delineate_shape nval res :
  delineate_area nrows ncols fd outlet inlets nval = DOk res ->
  (layer 1 = [] /\ res = []) \/
  (layer 1 <> [] /\ exists n,
     res = layer 1 ++ outlet :: List.concat (map layer (seq 2 n)) /\ layer (S (S n)) = []).
Proof.
  unfold delineate_area.
  destruct (nval <? 1); [discriminate|].
  destruct (negb (valid_cell nrows ncols outlet)); [discriminate|].
  destruct (negb (forallb (valid_cell nrows ncols) inlets)); [discriminate|].
  cbn [area_loop]. change (nxt [outlet]) with (layer 1).
  destruct (nval <=? zlen (@nil Z) + zlen (layer 1)); [discriminate|].
  destruct (layer 1) as [|c rest] eqn:E1.
  - intros H. injection H as <-. left. auto.
  - destruct (zlen ([] ++ c :: rest) =? nval - 1); [discriminate|].
    intros H. apply loop_false in H. destruct H as (n & -> & Hend). right.
    split; [discriminate|]. exists n. rewrite <- E1 in *. split.
    + cbn [app]. rewrite <- app_assoc. cbn [app]. f_equal. f_equal.
      rewrite <- (seq_shift n 1), map_map. f_equal. apply map_ext. intros j.
      change (layer 1) with (layer 1). rewrite (layer_add 1 j). reflexivity.
    + rewrite (layer_add 1 (S n)) in Hend. exact Hend.
Qed.

Lemma in_concat_layers a n x :
  In x (List.concat (map layer (seq a n))) <-> exists k, (a <= k < a + n)%nat /\ In x (layer k).
Proof.
  rewrite in_concat. split.
  - intros [l [Hl Hx]]. apply in_map_iff in Hl. destruct Hl as [k [<- Hk]].
    apply in_seq in Hk. exists k. auto.
  - intros [k [Hk Hx]]. exists (layer k). split; [|assumption].
    apply in_map_iff. exists k. split; [reflexivity|]. apply in_seq. lia.
Qed.

(* soundness and completeness: the area is the outlet plus every cell whose
   downstream chain reaches the outlet without passing through an inlet;
   it is empty when nothing drains to the outlet *)
Theorem area_is_reachability nval res :
  delineate_area nrows ncols fd outlet inlets nval = DOk res ->
  forall x, In x res <->
            ((exists k, (1 <= k)%nat /\ reach k x) \/ (x = outlet /\ exists y, reach 1 y)).
Proof.
  intros H x. destruct (delineate_shape nval res H) as [[E1 ->]|[N1 (n & -> & Hend)]].
  - split; [intros []|].
    intros [[k [Hk Hr]]|[_ [y Hy]]].
    + apply in_layer in Hr. replace k with (1 + (k - 1))%nat in Hr by lia.
      rewrite (layer_empty_after 1 (k - 1) E1) in Hr. destruct Hr.
    + apply in_layer in Hy. rewrite E1 in Hy. destruct Hy.
  - rewrite in_app_iff. cbn [In]. rewrite in_concat_layers. split.
    + intros [H1|[<-|[k [Hk Hx]]]].
      * left. exists 1%nat. split; [lia|]. apply in_layer. assumption.
      * right. split; [reflexivity|]. destruct (layer 1) as [|y l] eqn:E; [contradiction|].
        exists y. apply in_layer. rewrite E. left; reflexivity.
      * left. exists k. split; [lia|]. apply in_layer. assumption.
    + intros [[k [Hk Hr]]|[-> _]]; [|right; left; reflexivity].
      apply in_layer in Hr.
      destruct (Nat.eq_dec k 1) as [->|Hk1]; [left; assumption|].
      right. right. exists k. split; [|assumption].
      destruct (le_lt_dec (S (S n)) k) as [Hge|Hlt]; [|lia].
      exfalso. replace k with (S (S n) + (k - S (S n)))%nat in Hr by lia.
      rewrite (layer_empty_after _ _ Hend) in Hr. destruct Hr.
Qed.

(* each cell is listed once, provided the outlet does not drain back to itself *)
Lemma NoDup_concat_seq {A} (F : nat -> list A) a n :
  (forall j, NoDup (F j)) ->
  (forall i j x, i <> j -> In x (F i) -> ~ In x (F j)) ->
  NoDup (List.concat (map F (seq a n))).
Proof.
  intros Hnd Hdis. revert a; induction n as [|n IH]; intros a; [constructor|].
  cbn [seq map List.concat]. apply NoDup_app_intro; [apply Hnd | apply IH |].
  intros x Hx Hin. apply in_concat in Hin. destruct Hin as [l [Hl Hxl]].
  apply in_map_iff in Hl. destruct Hl as [j [<- Hj]]. apply in_seq in Hj.
  apply (Hdis a j x); [lia|assumption|assumption].
Qed.

Lemma layers_disjoint i j x :
  (forall m, (1 <= m)%nat -> ~ reach m outlet) ->
  i <> j -> In x (layer i) -> ~ In x (layer j).
Proof.
  intros Hac Hij Hi Hj. apply in_layer in Hi, Hj.
  destruct (lt_dec i j) as [Hlt|Hge].
  - replace j with (i + (j - i))%nat in Hj by lia.
    apply (Hac (j - i)%nat); [lia|]. apply (reach_split i (j - i) x); assumption.
  - replace i with (j + (i - j))%nat in Hi by lia.
    apply (Hac (i - j)%nat); [lia|]. apply (reach_split j (i - j) x); assumption.
Qed.

Theorem area_nodup nval res :
  (forall m, (1 <= m)%nat -> ~ reach m outlet) ->
  delineate_area nrows ncols fd outlet inlets nval = DOk res -> NoDup res.
Proof.
  intros Hac H. destruct (delineate_shape nval res H) as [[_ ->]|[_ (n & -> & _)]]; [constructor|].
  assert (Hout_not : forall k, (1 <= k)%nat -> ~ In outlet (layer k)).
  { intros k Hk Hin. apply in_layer in Hin. apply (Hac k Hk Hin). }
  apply NoDup_app_intro.
  - apply layer_nodup.
  - constructor.
    + rewrite in_concat_layers. intros [k [Hk Hin]]. apply (Hout_not k); [lia|assumption].
    + apply NoDup_concat_seq; [apply layer_nodup|].
      intros i j x Hij. apply layers_disjoint; assumption.
  - intros x Hx [<-|Hin].
    + apply (Hout_not 1%nat); [lia|assumption].
    + apply in_concat_layers in Hin. destruct Hin as [k [Hk Hin]].
      apply (layers_disjoint 1 k x Hac); [lia|assumption|assumption].
Qed.

(* ---------------- termination: fuel is never exhausted, cycles included ---------------- *)
Lemma loop_fuel fuel nval first L area :
  zlen area <= nval -> nval - zlen area < Z.of_nat fuel ->
  area_loop fuel nrows ncols fd inlets outlet nval first L area <> DFuel.
Proof.
  revert first L area; induction fuel as [|fuel IH]; intros first L area Hle Hf.
  - exfalso. lia.
  - cbn [area_loop].
    destruct (nval <=? zlen area + zlen (nxt L)) eqn:E; [discriminate|].
    apply Z.leb_gt in E.
    destruct (nxt L) as [|c rest] eqn:En; [discriminate|].
    assert (Hlen : zlen (area ++ c :: rest) = zlen area + zlen (c :: rest)).
    { unfold zlen. rewrite app_length. lia. }
    assert (Hpos : 1 <= zlen (c :: rest)) by (unfold zlen; cbn [List.length]; lia).
    destruct first.
    + destruct (zlen (area ++ c :: rest) =? nval - 1); [discriminate|].
      assert (Hlen2 : zlen ((area ++ c :: rest) ++ [outlet]) = zlen (area ++ c :: rest) + 1).
      { unfold zlen. rewrite (app_length (area ++ c :: rest)). cbn [List.length]. lia. }
      apply IH; lia.
    + apply IH; lia.
Qed.

Theorem delineate_terminates nval :
  delineate_area nrows ncols fd outlet inlets nval <> DFuel.
Proof.
  unfold delineate_area.
  destruct (nval <? 1) eqn:E; [discriminate|]. apply Z.ltb_ge in E.
  destruct (negb (valid_cell nrows ncols outlet)); [discriminate|].
  destruct (negb (forallb (valid_cell nrows ncols) inlets)); [discriminate|].
  apply loop_fuel; unfold zlen; cbn [List.length]; lia.
Qed.

End Area.

(* invalid outlet / inlets / buffer size are rejected *)
Theorem delineate_rejects nrows ncols fd outlet inlets nval :
  nval < 1 \/ outlet < 0 \/ nrows * ncols <= outlet \/
  (exists i, In i inlets /\ (i < 0 \/ nrows * ncols <= i)) ->
  delineate_area nrows ncols fd outlet inlets nval = DErr.
Proof.
  intros H. unfold delineate_area.
  destruct (nval <? 1) eqn:E1; [reflexivity|]. apply Z.ltb_ge in E1.
  destruct (valid_cell nrows ncols outlet) eqn:E2; [|reflexivity]. cbn [negb].
  apply valid_cell_true in E2.
  destruct (forallb (valid_cell nrows ncols) inlets) eqn:E3; [|reflexivity]. exfalso.
  destruct H as [H|[H|[H|[i [Hi Hbad]]]]]; try lia.
  rewrite forallb_forall in E3. specialize (E3 i Hi). apply valid_cell_true in E3. lia.
Qed.

(* non-vacuity: a 2x2 grid draining to cell 3; cells 0,1,2 form its catchment *)
Example area_example :
  delineate_area 2 2 [2; 4; 1; 0] 3 [] 10 = DOk [0; 1; 2; 3].
Proof. vm_compute. reflexivity. Qed.
