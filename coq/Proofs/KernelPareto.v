(* C20 (pareto_front) on the regenerated program: the theorems of
   Proofs/SummaryParetoProofs.v about the model [paretofront] transported through the
   refinement theorem of Proofs/RefinePareto.v.  Every statement is about
   [exec_fun RN XRN program] - the MiniC translation of src/hydrodiy/stat/c_paretofront.c
   regenerated from the tree under test - run on real numbers with an explicit missing
   value ([None] = NaN), the instance in which the model theorems are stated. *)
From Coq Require Import ZArith Bool List String Lia Reals PrimFloat.
From Hy Require Import Base.Num Base.MiniC Gen.KernelsAst Model.Summary
  Proofs.SummaryParetoProofs Proofs.RefinePareto.
Import ListNotations.
Open Scope string_scope.
Open Scope list_scope.
Open Scope Z_scope.

(* the call made by the Cython wrapper: nval, ncol = data.shape, the data row-major *)
Definition run_pareto (n : nat) (orientation : Z) (ncol : nat) (data : list (list (option R)))
           (buf : list Z) :=
  exec_fun RN XRN program (S n) "c_paretofront"
    [AVI (Z.of_nat (List.length data)); AVI (Z.of_nat ncol); AVI orientation;
     AVArrF (List.concat data); AVArrI buf].

Lemma run_pareto_model n o ncol data buf :
  Forall (fun r => List.length r = ncol) data ->
  List.length buf = List.length data ->
  (Nat.max (List.length data) ncol < n)%nat ->
  run_pareto n o ncol data buf
  = Ok (RI 0, [VArrF (List.concat data); VArrI (paretofront RN o data)]).
Proof.
  intros Hrows Hbuf Hn. unfold run_pareto.
  apply (refine_paretofront RN XRN); [reflexivity|assumption|assumption|assumption].
Qed.

(* Any number of points and columns (0 included), any orientation code, NaN anywhere, any
   initial content of the output: the translated kernel returns 0, leaves the data
   unchanged and writes one flag per point; the flag of point i is 1 exactly when ANOTHER
   point is strictly better in every coordinate whose difference is not missing, and 0
   exactly when no such point exists. *)
Theorem kernel_pareto_flag_iff_dominated o ncol data buf n :
  Forall (fun r => List.length r = ncol) data ->
  List.length buf = List.length data ->
  (Nat.max (List.length data) ncol < n)%nat ->
  exists flags,
    run_pareto n o ncol data buf = Ok (RI 0, [VArrF (List.concat data); VArrI flags]) /\
    List.length flags = List.length data /\
    forall i, (i < List.length data)%nat ->
      (nth i flags 0 = 1 <->
       exists j, (j < List.length data)%nat /\ j <> i /\
                 dominates o (nth j data []) (nth i data [])) /\
      (nth i flags 0 = 0 <->
       ~ exists j, (j < List.length data)%nat /\ j <> i /\
                   dominates o (nth j data []) (nth i data [])).
Proof.
  intros Hrows Hbuf Hn. exists (paretofront RN o data). split; [|split].
  - apply run_pareto_model; assumption.
  - apply paretofront_length.
  - intros i Hi. apply paretofront_flag_iff. exact Hi.
Qed.

(* Complete data (no NaN), at least one point and one column: the translated kernel
   leaves at least one point unflagged - the non-dominated set is not empty. *)
Theorem kernel_pareto_front_nonempty o ncol (rows : list (list R)) buf n :
  rows <> [] -> (1 <= ncol)%nat ->
  Forall (fun r => List.length r = ncol) rows ->
  List.length buf = List.length rows ->
  (Nat.max (List.length rows) ncol < n)%nat ->
  exists flags i,
    run_pareto n o ncol (complete rows) buf
      = Ok (RI 0, [VArrF (List.concat (complete rows)); VArrI flags]) /\
    List.length flags = List.length rows /\
    (i < List.length rows)%nat /\ nth i flags 0 = 0.
Proof.
  intros Hne Hcol Hrows Hbuf Hn.
  assert (HL : List.length (complete rows) = List.length rows) by (unfold complete; apply map_length).
  assert (Hrows' : Forall (fun r => List.length r = ncol) (complete rows)).
  { unfold complete. rewrite Forall_map. eapply Forall_impl; [|exact Hrows].
    cbv beta. intros r Hr. rewrite map_length. exact Hr. }
  assert (Hnonnil : forall r, In r rows -> r <> []).
  { intros r Hr. rewrite Forall_forall in Hrows. specialize (Hrows r Hr).
    intros ->. cbn in Hrows. lia. }
  destruct (paretofront_nonempty o rows Hne Hnonnil) as (i & Hi & Hflag).
  exists (paretofront RN o (complete rows)), i. split; [|split; [|split]].
  - apply run_pareto_model; [exact Hrows'|rewrite HL; exact Hbuf|rewrite HL; exact Hn].
  - rewrite paretofront_length. exact HL.
  - exact Hi.
  - exact Hflag.
Qed.

(* Reversing the orientation equals negating the data: the translated kernel run with
   orientation -o on the data and with orientation o on the negated data (NaN stays NaN)
   writes the same flags. *)
Theorem kernel_pareto_reverse_is_negation o ncol data buf1 buf2 n :
  Forall (fun r => List.length r = ncol) data ->
  List.length buf1 = List.length data -> List.length buf2 = List.length data ->
  (Nat.max (List.length data) ncol < n)%nat ->
  exists flags,
    run_pareto n (- o) ncol data buf1 = Ok (RI 0, [VArrF (List.concat data); VArrI flags]) /\
    run_pareto n o ncol (negate data) buf2
      = Ok (RI 0, [VArrF (List.concat (negate data)); VArrI flags]).
Proof.
  intros Hrows Hb1 Hb2 Hn.
  assert (HL : List.length (negate data) = List.length data) by (unfold negate; apply map_length).
  assert (Hrows' : Forall (fun r => List.length r = ncol) (negate data)).
  { unfold negate. rewrite Forall_map. eapply Forall_impl; [|exact Hrows].
    cbv beta. intros r Hr. rewrite map_length. exact Hr. }
  exists (paretofront RN (- o) data). split.
  - apply run_pareto_model; assumption.
  - rewrite paretofront_reverse.
    apply run_pareto_model; [exact Hrows'|rewrite HL; exact Hb2|rewrite HL; exact Hn].
Qed.

(* the abbreviation used in the statements above, unfolded *)
Theorem kernel_pareto_defs :
  forall n o ncol data buf,
    run_pareto n o ncol data buf
    = exec_fun RN XRN program (S n) "c_paretofront"
        [AVI (Z.of_nat (List.length data)); AVI (Z.of_nat ncol); AVI o;
         AVArrF (List.concat data); AVArrI buf].
Proof. reflexivity. Qed.

(* ---- non-vacuity ---- *)
(* the data of C20_pareto_nonvacuous: (1,NaN) is dominated by (2,0), (0,3) by (1,NaN)
   (the missing coordinate is skipped), (2,0) is not dominated: the hypotheses of the main
   corollary hold and the flags it characterises are 1, 0, 1 *)
Example kernel_pareto_example :
  run_pareto 4 1 2 [[Some 1%R; None]; [Some 2%R; Some 0%R]; [Some 0%R; Some 3%R]] [7; 7; 7]
  = Ok (RI 0, [VArrF [Some 1%R; None; Some 2%R; Some 0%R; Some 0%R; Some 3%R]; VArrI [1; 0; 1]]).
Proof.
  rewrite run_pareto_model.
  - rewrite pareto_example. reflexivity.
  - repeat constructor.
  - reflexivity.
  - cbn. lia.
Qed.

Example kernel_pareto_example_hyps :
  exists flags,
    run_pareto 4 1 2 [[Some 1%R; None]; [Some 2%R; Some 0%R]; [Some 0%R; Some 3%R]] [7; 7; 7]
      = Ok (RI 0, [VArrF (List.concat [[Some 1%R; None]; [Some 2%R; Some 0%R]; [Some 0%R; Some 3%R]]);
                   VArrI flags]) /\
    List.length flags = 3%nat /\ nth 1 flags 0 = 0.
Proof.
  destruct (kernel_pareto_flag_iff_dominated 1 2
              [[Some 1%R; None]; [Some 2%R; Some 0%R]; [Some 0%R; Some 3%R]] [7; 7; 7] 4)
    as (flags & Hrun & Hlen & Hflags).
  - repeat constructor.
  - reflexivity.
  - cbn. lia.
  - exists flags. split; [exact Hrun|]. split; [exact Hlen|].
    pose proof Hrun as Hrun'. rewrite kernel_pareto_example in Hrun'.
    injection Hrun' as <-. reflexivity.
Qed.

(* the same run in binary64 (vm_compute of the interpreter on the translated kernel) *)
Example kernel_pareto_example_F64 :
  exec_fun F64 XF64 program 5 "c_paretofront"
    [AVI 3; AVI 2; AVI 1; AVArrF [1; nan; 2; 0; 0; 3]%float; AVArrI [7; 7; 7]]
  = Ok (RI 0, [VArrF [1; nan; 2; 0; 0; 3]%float; VArrI [1; 0; 1]]).
Proof. vm_compute. reflexivity. Qed.
