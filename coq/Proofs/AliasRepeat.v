(* C18 - second clause in the model: two runs of a wrapper from heaps that agree
   on the pre-existing blocks make the same observations, whatever allocation
   addresses they get; hence two consecutive calls return the same result when
   the kernels are deterministic functions of the contents of their parameters. *)
From Coq Require Import ZArith List Bool String Lia Arith.
From Hy Require Import Base.Num Gen.ConstsC18 Model.Alias Proofs.AliasProofs.
Import ListNotations.
Open Scope string_scope.
Open Scope nat_scope.

Section Repeat.
Variable A : Type.
Variable copyf : op -> A -> A.
Variable initf : desc -> A.
Variable kfun : string -> list A -> list A.

Notation crun := (crun_ops A copyf).
Notation cevals := (ceval_src A copyf initf).
Notation cevalp := (ceval_params A copyf initf).

(* the deterministic run is one of the executions of the relational semantics *)
Lemma kstore_frame : forall en l outs h b,
  (forall p b' d, In (p, b', d) l -> written en p = true -> b' <> b) ->
  kstore A en l outs h b = h b.
Proof.
  induction l as [|[[p b0] d] l IH]; intros outs h b H; cbn; [reflexivity|].
  destruct outs as [|v outs]; [reflexivity|].
  rewrite IH.
  - destruct (written en p) eqn:W; [|reflexivity].
    apply upd_other. intro; subst b0. exact (H p b d (or_introl eq_refl) W eq_refl).
  - intros p' b' d' Hin Hw. apply (H p' b' d'); [right; exact Hin | exact Hw].
Qed.

Lemma drun_exec : forall e cs h n o h' n',
  drun A copyf initf kfun e cs h n = (o, h', n') -> exec A copyf initf e cs h n h' n'.
Proof.
  intros e cs. induction cs as [|c r IH]; intros h n o h' n' H; cbn in H.
  - inversion H; subst. apply ex_done.
  - destruct (cevalp (k_params c) e h n) as [[[l h1] n1]|] eqn:E.
    + destruct (all_accepted (k_entry c) l) eqn:Acc.
      * destruct (drun A copyf initf kfun e r _ n1) as [[o3 h3] n3] eqn:D.
        inversion H; subst. eapply ex_call; [exact E | exact Acc | | eapply IH; exact D].
        intros b Hb. apply kstore_frame. exact Hb.
      * inversion H; subst. eapply ex_rejected; eassumption.
    + inversion H; subst. apply ex_raise_before. exact E.
Qed.

(* ---- simulation between two runs: pre-existing blocks coincide, the blocks
   allocated by the first run (from n0 on) sit k places further in the second *)
Variable n0 k : nat.

Definition shift (b : block) : block := if b <? n0 then b else b + k.

Definition hsim (n : block) (h h2 : heap A) : Prop := forall x, x < n -> h2 (shift x) = h x.

Lemma shift_lt : forall b, b < n0 -> shift b = b.
Proof. intros b H. unfold shift. destruct (Nat.ltb_spec b n0); lia. Qed.
Lemma shift_ge : forall b, n0 <= b -> shift b = b + k.
Proof. intros b H. unfold shift. destruct (Nat.ltb_spec b n0); lia. Qed.
Lemma shift_inj : forall a b, shift a = shift b -> a = b.
Proof.
  intros a b. unfold shift. destruct (Nat.ltb_spec a n0), (Nat.ltb_spec b n0); lia.
Qed.

Lemma hsim_upd : forall n h h2 b v, hsim n h h2 -> hsim n (upd A h b v) (upd A h2 (shift b) v).
Proof.
  intros n h h2 b v H x Hx. unfold upd.
  destruct (Nat.eqb x b) eqn:E.
  - apply Nat.eqb_eq in E. subst x. rewrite Nat.eqb_refl. reflexivity.
  - destruct (Nat.eqb (shift x) (shift b)) eqn:E2.
    + apply Nat.eqb_eq in E2. apply shift_inj in E2. apply Nat.eqb_neq in E. contradiction.
    + apply H; exact Hx.
Qed.

Lemma hsim_alloc : forall n h h2 v, n0 <= n -> hsim n h h2 ->
  hsim (S n) (upd A h n v) (upd A h2 (n + k) v).
Proof.
  intros n h h2 v Hn H x Hx. rewrite <- (shift_ge n Hn).
  destruct (Nat.eq_dec x n) as [->|Hne].
  - unfold upd. rewrite !Nat.eqb_refl. reflexivity.
  - rewrite (hsim_upd n h h2 n v H x) by lia. reflexivity.
Qed.

Lemma crun_sim : forall ops b d h n b' d' h' n' h2,
  crun ops b d h n = Some (b', d', h', n') -> b < n -> n0 <= n -> hsim n h h2 ->
  exists h2', crun ops (shift b) d h2 (n + k) = Some (shift b', d', h2', n' + k) /\
              hsim n' h' h2' /\ b' < n' /\ n <= n'.
Proof.
  induction ops as [|o r IH]; intros b d h n b' d' h' n' h2 H Hb Hn Hs; cbn in H.
  - inversion H; subst. exists h2. cbn. auto.
  - cbn. destruct (apply_op o d) as [[d1 v]|]; [|discriminate]. destruct v.
    + eapply IH; eassumption.
    + rewrite (Hs b Hb).
      destruct (IH n d1 _ (S n) b' d' h' n' (upd A h2 (n + k) (copyf o (h b))) H) as [h2' [G1 [G2 [G3 G4]]]];
        [lia | lia | apply hsim_alloc; assumption |].
      exists h2'. rewrite (shift_ge n Hn) in G1. repeat split; auto. lia.
Qed.

Hypothesis e : env.
Hypothesis Hwf : env_wf e n0.

Lemma ceval_src_sim : forall s h n b d h' n' h2,
  cevals s e h n = Some (b, d, h', n') -> n0 <= n -> hsim n h h2 ->
  exists h2', cevals s e h2 (n + k) = Some (shift b, d, h2', n' + k) /\
              hsim n' h' h2' /\ b < n' /\ n <= n'.
Proof.
  destruct Hwf as [W1 [W2 [W3 [W4 W5]]]].
  intros s h n b d h' n' h2 H Hn Hs. destruct s as [i ops|ops|i ops|d0|d0|d0]; cbn in H; cbn.
  - destruct (nth_error (e_args e) i) as [[b0 dd]|] eqn:E; [|discriminate].
    destruct (W1 _ _ (nth_error_In _ _ E)) as [Hb0 _].
    destruct (crun_sim _ _ _ _ _ _ _ _ _ h2 H ltac:(lia) Hn Hs) as [h2' [G1 G2]].
    rewrite (shift_lt b0 Hb0) in G1. exists h2'. split; [exact G1 | exact G2].
  - destruct (e_self e) as [[b0 dd]|] eqn:E; [|discriminate].
    destruct (W2 _ _ eq_refl) as [Hb0 _].
    destruct (crun_sim _ _ _ _ _ _ _ _ _ h2 H ltac:(lia) Hn Hs) as [h2' [G1 G2]].
    rewrite (shift_lt b0 Hb0) in G1. exists h2'. split; [exact G1 | exact G2].
  - destruct (nth_error (e_args e) i) as [[b0 dd]|] eqn:E; [|discriminate].
    destruct (W1 _ _ (nth_error_In _ _ E)) as [Hb0 _].
    destruct (crun ops b0 dd h n) as [[[[b1 d1] h1] n1]|] eqn:E1; [|discriminate].
    destruct (crun_sim _ _ _ _ _ _ _ _ _ h2 E1 ltac:(lia) Hn Hs) as [h2' [G1 [G2 [G3 G4]]]].
    rewrite (shift_lt b0 Hb0) in G1. rewrite G1.
    injection H as Hb Hd Hh Hn'. subst b d h' n'.
    exists (upd A h2' (n1 + k) (initf d1)).
    rewrite (shift_ge n1) by lia.
    split; [reflexivity|]. split; [apply hsim_alloc; [lia | exact G2] | lia].
  - inversion H; subst. exists h2. rewrite (shift_lt _ W3). repeat split; auto. lia.
  - inversion H; subst. exists h2. rewrite (shift_lt _ W4). repeat split; auto. lia.
  - injection H as Hb Hd Hh Hn'. subst b d h' n'.
    exists (upd A h2 (n + k) (initf d0)). rewrite (shift_ge n Hn).
    split; [reflexivity|]. split; [apply hsim_alloc; assumption | lia].
Qed.

Definition shiftl (l : list (string * block * desc)) : list (string * block * desc) :=
  map (fun q => match q with (p, b, d) => (p, shift b, d) end) l.

Lemma hsim_mono : forall n m h h2, n <= m -> hsim m h h2 -> hsim n h h2.
Proof. intros n m h h2 Hnm H x Hx. apply H. lia. Qed.

Lemma ceval_params_sim : forall ps h n l h' n' h2,
  cevalp ps e h n = Some (l, h', n') -> n0 <= n -> hsim n h h2 ->
  exists h2', cevalp ps e h2 (n + k) = Some (shiftl l, h2', n' + k) /\
              hsim n' h' h2' /\ n <= n' /\ (forall p b d, In (p, b, d) l -> b < n').
Proof.
  induction ps as [|[p s] r IH]; intros h n l h' n' h2 H Hn Hs; cbn in H.
  - inversion H; subst. exists h2. cbn. repeat split; auto. intros p b d [].
  - destruct (cevals s e h n) as [[[[b1 d1] h1] n1]|] eqn:E; [|discriminate].
    destruct (cevalp r e h1 n1) as [[[l2 hh] nn]|] eqn:E2; [|discriminate].
    inversion H; subst. clear H.
    destruct (ceval_src_sim _ _ _ _ _ _ _ h2 E Hn Hs) as [h21 [G1 [G2 [G3 G4]]]].
    destruct (IH _ _ _ _ _ h21 E2 ltac:(lia) G2) as [h22 [I1 [I2 [I3 I4]]]].
    exists h22. cbn. rewrite G1, I1. cbn. repeat split; auto; try lia.
    intros p0 b d [Heq|Hin]; [inversion Heq; subst; lia | eapply I4; exact Hin].
Qed.

Lemma contents_sim : forall n h h2 l,
  hsim n h h2 -> (forall p b d, In (p, b, d) l -> b < n) ->
  contents A h2 (shiftl l) = contents A h l.
Proof.
  intros n h h2 l Hs. induction l as [|[[p b] d] l IH]; intros Hl; cbn; [reflexivity|].
  rewrite (Hs b) by (eapply Hl; left; reflexivity).
  f_equal. apply IH. intros p' b' d' Hin. eapply Hl. right; exact Hin.
Qed.

Lemma kstore_sim : forall en n l outs h h2,
  hsim n h h2 -> hsim n (kstore A en l outs h) (kstore A en (shiftl l) outs h2).
Proof.
  intros en n l. induction l as [|[[p b] d] l IH]; intros outs h h2 Hs; cbn; [exact Hs|].
  destruct outs as [|v outs]; [exact Hs|].
  apply IH. destruct (written en p); [apply hsim_upd; exact Hs | exact Hs].
Qed.

Lemma all_accepted_shift : forall en l, all_accepted en (shiftl l) = all_accepted en l.
Proof.
  intros en l. unfold all_accepted, shiftl.
  induction l as [|[[p b] d] l IH]; cbn; [reflexivity|]. rewrite IH. reflexivity.
Qed.

Lemma drun_sim : forall cs h n h2 o h' n',
  drun A copyf initf kfun e cs h n = (o, h', n') -> n0 <= n -> hsim n h h2 ->
  exists h2', drun A copyf initf kfun e cs h2 (n + k) = (o, h2', n' + k) /\ hsim n' h' h2'.
Proof.
  induction cs as [|c r IH]; intros h n h2 o h' n' H Hn Hs; cbn in H.
  - inversion H; subst. exists h2. cbn. auto.
  - cbn. destruct (cevalp (k_params c) e h n) as [[[l h1] n1]|] eqn:E.
    + destruct (ceval_params_sim _ _ _ _ _ _ h2 E Hn Hs) as [h21 [G1 [G2 [G3 G4]]]].
      rewrite G1, all_accepted_shift.
      destruct (all_accepted (k_entry c) l).
      * rewrite (contents_sim _ _ _ _ G2 G4).
        destruct (drun A copyf initf kfun e r _ n1) as [[o3 h3] n3] eqn:D.
        injection H as Ho Hh Hn'. subst o h' n'.
        pose proof (kstore_sim (k_entry c) n1 l (kfun (k_entry c) (contents A h1 l)) h1 h21 G2) as Ks.
        destruct (IH _ _ _ _ _ _ D ltac:(lia) Ks) as [h23 [J1 J2]].
        rewrite J1, (contents_sim _ _ _ _ Ks G4). exists h23. auto.
      * injection H as Ho Hh Hn'. subst o h' n'. exists h21. auto.
    + (* the first run raises before the kernel: so does the second *)
      injection H as Ho Hh Hn'. subst o h' n'.
      assert (cevalp (k_params c) e h2 (n + k) = None) as N.
      { clear IH. revert h n h2 Hn Hs E. induction (k_params c) as [|[p s] ps IHp]; intros h n h2 Hn Hs E;
          cbn in E; [discriminate|]. cbn.
        destruct (cevals s e h n) as [[[[b1 d1] h1] n1]|] eqn:Es.
        - destruct (ceval_src_sim _ _ _ _ _ _ _ h2 Es Hn Hs) as [h21 [G1 [G2 [G3 G4]]]]. rewrite G1.
          destruct (cevalp ps e h1 n1) as [[[l2 hh] nn]|] eqn:E2; [discriminate|].
          rewrite (IHp h1 n1 h21 ltac:(lia) G2 E2). reflexivity.
        - (* a source raises only through [apply_op], which does not look at blocks *)
          assert (cevals s e h2 (n + k) = None) as Ns.
          { assert (forall ops b d hh nn b2 hh2 nn2, crun ops b d hh nn = None -> crun ops b2 d hh2 nn2 = None) as Cn.
            { induction ops as [|o r0 IHo]; intros b d hh nn b2 hh2 nn2 Hc; cbn in Hc; [discriminate|]. cbn.
              destruct (apply_op o d) as [[d1 v]|]; [|reflexivity].
              destruct v; eapply IHo; exact Hc. }
            destruct s as [i ops|ops|i ops|d0|d0|d0]; cbn in Es; cbn; try discriminate.
            - destruct (nth_error (e_args e) i) as [[b0 dd]|]; [|reflexivity]. eapply Cn; exact Es.
            - destruct (e_self e) as [[b0 dd]|]; [|reflexivity]. eapply Cn; exact Es.
            - destruct (nth_error (e_args e) i) as [[b0 dd]|]; [|reflexivity].
              destruct (crun ops b0 dd h n) as [[[[b1 d1] h1] n1]|] eqn:E1; [discriminate|].
              rewrite (Cn _ _ _ _ _ b0 h2 (n + k) E1). reflexivity. }
          rewrite Ns. reflexivity. }
      rewrite N. exists h2. auto.
Qed.

End Repeat.

(* REPEATABILITY in the model.  For any wrapper that passes the check, whose
   first run leaves the object's derived state as it was (no state parameter in
   a write-set, or an idempotent effect such as sorting a sorted list): the
   second of two consecutive calls - which starts from the heap and the
   allocation pointer the first one left behind - makes exactly the same
   observations (contents of every kernel parameter after every kernel call). *)
Theorem second_call_same : forall (A : Type) copyf initf (kfun : string -> list A -> list A)
    (w : wrapper) (e : env) (h0 : heap A) (n0 : block) o1 h1 n1 o2 h2 n2,
  check w = true -> env_wf e n0 ->
  drun A copyf initf kfun e (w_calls w) h0 n0 = (o1, h1, n1) ->
  h1 (e_state e) = h0 (e_state e) ->
  drun A copyf initf kfun e (w_calls w) h1 n1 = (o2, h2, n2) ->
  o2 = o1.
Proof.
  intros A copyf initf kfun w e h0 n0 o1 h1 n1 o2 h2 n2 Hc Hwf D1 Hst D2.
  pose proof (drun_exec A copyf initf kfun e _ _ _ _ _ _ D1) as Ex.
  assert (n0 <= n1) as Hle.
  { clear -Ex. induction Ex; try lia.
    - apply (ceval_params_abs A copyf initf) in H. lia.
    - apply (ceval_params_abs A copyf initf) in H. lia. }
  assert (hsim A n0 (n1 - n0) n0 h0 h1) as Hs.
  { intros x Hx. rewrite shift_lt by exact Hx.
    destruct (Nat.eq_dec x (e_state e)) as [->|Hne]; [exact Hst|].
    exact (pipeline_sound A copyf initf w e h0 n0 h1 n1 Hc Hwf Ex x Hx Hne). }
  destruct (drun_sim A copyf initf kfun n0 (n1 - n0) e Hwf _ _ _ h1 _ _ _ D1 (le_n _) Hs) as [h2' [J _]].
  replace (n0 + (n1 - n0)) with n1 in J by lia.
  rewrite J in D2. inversion D2; reflexivity.
Qed.
