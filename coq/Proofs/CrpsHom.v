(* C03, part 5: the model commutes with every homomorphism of arithmetic
   instances.  Instance: reals -> reals with an explicit missing value
   ([Some]), which turns the real-number theorems into statements about data
   in which observations may be missing. *)
From Coq Require Import ZArith Bool List Reals.
From Hy Require Import Base.Num Gen.ConstsC03 Model.Crps.
Import ListNotations.

(* the kernel call of [crps_gen] on the list of valid forecasts *)
Definition crps_core {T} (N : NumOps T) (clamp : bool) (m : nat) (v : list (T * list T))
  : option (@crout T) :=
  let w := weight N (Z.of_nat (length v)) in
  let sorted := map (fun r => (fst r, presort N (snd r))) v in
  if existsb (fun r => unsorted N (snd r)) sorted then None
  else Some (finish N clamp (Z.of_nat m)
               (fold_left (row_step N w) sorted (acc0 N (m - 1)))
               (unc_loop N w [] (map fst v) (n0 N))).

Lemma crps_gen_core {T} (N : NumOps T) c rows :
  crps_gen N c rows =
  match filter (row_valid N) rows with
  | [] => None
  | r0 :: v' => crps_core N c (length (snd r0)) (r0 :: v')
  end.
Proof. reflexivity. Qed.

Section Hom.
Context {A B : Type} (NA : NumOps A) (NB : NumOps B) (h : A -> B).

Record is_hom : Prop := mkHom {
  h_0 : h (n0 NA) = n0 NB;
  h_1 : h (n1 NA) = n1 NB;
  h_add : forall x y, h (nadd NA x y) = nadd NB (h x) (h y);
  h_sub : forall x y, h (nsub NA x y) = nsub NB (h x) (h y);
  h_mul : forall x y, h (nmul NA x y) = nmul NB (h x) (h y);
  h_div : forall x y, h (ndiv NA x y) = ndiv NB (h x) (h y);
  h_abs : forall x, h (nabs NA x) = nabs NB (h x);
  h_ltb : forall x y, nltb NB (h x) (h y) = nltb NA x y;
  h_leb : forall x y, nleb NB (h x) (h y) = nleb NA x y;
  h_eqb : forall x y, neqb NB (h x) (h y) = neqb NA x y;
  h_nan : forall x, nisnan NB (h x) = nisnan NA x;
  h_ofZ : forall z, h (nofZ NA z) = nofZ NB z }.

Hypothesis H : is_hom.

Definition hp (p : A * A) : B * B := (h (fst p), h (snd p)).
Definition hrow (r : A * list A) : B * list B := (h (fst r), map h (snd r)).
Definition hacc (s : @acc A) : @acc B :=
  mkAcc (map hp (ac_ab s)) (h (ac_b0 s)) (h (ac_aN s)) (h (ac_o0 s)) (h (ac_oN s)).
Definition htrow (r : @trow A) : @trow B :=
  mkTrow (h (t_p r)) (h (t_a r)) (h (t_b r)) (h (t_g r)) (h (t_o r)) (h (t_r r)) (h (t_c r)).
Definition hout (o : @crout A) : @crout B :=
  mkCrout (h (o_crps o)) (h (o_reli o)) (h (o_resol o)) (h (o_unc o)) (h (o_pot o))
          (map htrow (o_table o)).

Ltac hrw := repeat first
  [ rewrite (h_add H) | rewrite (h_sub H) | rewrite (h_mul H) | rewrite (h_div H)
  | rewrite (h_abs H) | rewrite (h_ltb H) | rewrite (h_leb H) | rewrite (h_eqb H)
  | rewrite (h_nan H) | rewrite (h_ofZ H) | rewrite (h_0 H) | rewrite (h_1 H) ].
Ltac hrwb := repeat first
  [ rewrite <- (h_add H) | rewrite <- (h_sub H) | rewrite <- (h_mul H) | rewrite <- (h_div H)
  | rewrite <- (h_abs H) | rewrite <- (h_ofZ H) | rewrite <- (h_0 H) | rewrite <- (h_1 H) ].

Lemma insert_hom x l : insert NB (h x) (map h l) = map h (insert NA x l).
Proof.
  induction l as [|y l IH]; [reflexivity|]. cbn [map insert]. rewrite (h_leb H).
  destruct (nleb NA x y); [reflexivity|]. cbn [map]. rewrite IH. reflexivity.
Qed.

Lemma sort_hom l : sort NB (map h l) = map h (sort NA l).
Proof.
  induction l as [|x l IH]; [reflexivity|]. cbn [map]. unfold sort in *. cbn [fold_right].
  rewrite IH. apply insert_hom.
Qed.

Lemma unsorted_hom l : unsorted NB (map h l) = unsorted NA l.
Proof.
  induction l as [|x l IH]; [reflexivity|]. destruct l as [|y l]; [reflexivity|].
  change (unsorted NB (map h (x :: y :: l))) with (nltb NB (h y) (h x) || unsorted NB (map h (y :: l)))%bool.
  change (unsorted NA (x :: y :: l)) with (nltb NA y x || unsorted NA (y :: l))%bool.
  rewrite IH, (h_ltb H). reflexivity.
Qed.

Lemma bin_upd_hom y w a b p :
  bin_upd NB (h y) (h w) (h a) (h b) (hp p) = hp (bin_upd NA y w a b p).
Proof.
  unfold bin_upd, hp. cbn [fst snd]. rewrite !(h_leb H), !(h_ltb H).
  destruct (nleb NA y a), (nleb NA b y), (nltb NA a y && nltb NA y b)%bool;
    cbn [fst snd]; hrw; reflexivity.
Qed.

Lemma bins_upd_cons' {T} (N : NumOps T) y w x x' e p ab :
  bins_upd N y w (x :: x' :: e) (p :: ab) =
  bin_upd N y w x x' p :: bins_upd N y w (x' :: e) ab.
Proof. reflexivity. Qed.

Lemma bins_upd_hom y w e ab :
  bins_upd NB (h y) (h w) (map h e) (map hp ab) = map hp (bins_upd NA y w e ab).
Proof.
  revert ab; induction e as [|x1 e IH]; intros ab; [reflexivity|].
  destruct e as [|x2 e]; [reflexivity|]. destruct ab as [|p ab]; [reflexivity|].
  cbn [map]. rewrite !bins_upd_cons'. cbn [map]. rewrite bin_upd_hom. f_equal. apply IH.
Qed.

Lemma hd_hom e : hd (n0 NB) (map h e) = h (hd (n0 NA) e).
Proof. destruct e; cbn; [symmetry; apply (h_0 H) | reflexivity]. Qed.

Lemma last_hom e : last (map h e) (n0 NB) = h (last e (n0 NA)).
Proof.
  induction e as [|x e IH]; [cbn; symmetry; apply (h_0 H)|].
  destruct e as [|y e]; [reflexivity|].
  change (last (map h (x :: y :: e)) (n0 NB)) with (last (map h (y :: e)) (n0 NB)).
  change (last (x :: y :: e) (n0 NA)) with (last (y :: e) (n0 NA)). exact IH.
Qed.

Lemma row_step_hom w s r :
  row_step NB (h w) (hacc s) (hrow r) = hacc (row_step NA w s r).
Proof.
  unfold row_step, hacc, hrow. cbn [fst snd ac_ab ac_b0 ac_aN ac_o0 ac_oN].
  rewrite hd_hom, last_hom, bins_upd_hom, !(h_ltb H), !(h_leb H).
  f_equal.
  - destruct (nltb NA (fst r) (hd (n0 NA) (snd r))); hrw; reflexivity.
  - destruct (nleb NA (last (snd r) (n0 NA)) (fst r)); hrw; reflexivity.
  - destruct (nltb NA (fst r) (hd (n0 NA) (snd r))); hrw; reflexivity.
  - destruct (nltb NA (fst r) (last (snd r) (n0 NA))); hrw; reflexivity.
Qed.

Lemma fold_step_hom w rows s :
  fold_left (row_step NB (h w)) (map hrow rows) (hacc s) =
  hacc (fold_left (row_step NA w) rows s).
Proof.
  revert s; induction rows as [|r rows IH]; intros s; [reflexivity|].
  cbn [map fold_left]. rewrite row_step_hom. apply IH.
Qed.

Lemma acc0_hom n : hacc (acc0 NA n) = acc0 NB n.
Proof.
  unfold hacc, acc0. cbn [ac_ab ac_b0 ac_aN ac_o0 ac_oN]. rewrite !(h_0 H). f_equal.
  induction n as [|n IH]; [reflexivity|]. cbn [repeat map]. rewrite IH. f_equal.
  unfold hp; cbn [fst snd]. rewrite (h_0 H). reflexivity.
Qed.

Lemma unc_row_hom w y seen u :
  unc_row NB (h w) (h y) (map h seen) (h u) = h (unc_row NA w y seen u).
Proof.
  unfold unc_row. revert u; induction seen as [|z seen IH]; intros u; [reflexivity|].
  cbn [map fold_left].
  assert (E : nadd NB (h u) (nmul NB (nmul NB (h w) (h w)) (nabs NB (nsub NB (h z) (h y)))) =
              h (nadd NA u (nmul NA (nmul NA w w) (nabs NA (nsub NA z y)))))
    by (hrw; reflexivity).
  rewrite E. apply IH.
Qed.

Lemma unc_loop_hom w seen rest u :
  unc_loop NB (h w) (map h seen) (map h rest) (h u) = h (unc_loop NA w seen rest u).
Proof.
  revert seen u; induction rest as [|y rest IH]; intros seen u; [reflexivity|].
  cbn [map unc_loop]. rewrite unc_row_hom.
  replace (map h seen ++ [h y]) with (map h (seen ++ [y])) by (rewrite map_app; reflexivity).
  apply IH.
Qed.

Lemma mkrow_hom p a b g o :
  mkrow NB (h p) (h a) (h b) (h g) (h o) = htrow (mkrow NA p a b g o).
Proof.
  unfold mkrow, htrow, sq. cbn [t_p t_a t_b t_g t_o t_r t_c]. hrw. reflexivity.
Qed.

Lemma prob_hom j m : prob NB j m = h (prob NA j m).
Proof. unfold prob. hrw. reflexivity. Qed.

Lemma row_first_hom m b0 o0 :
  row_first NB m (h b0) (h o0) = htrow (row_first NA m b0 o0).
Proof.
  unfold row_first. rewrite <- mkrow_hom, prob_hom, <- (h_0 H), (h_eqb H).
  destruct (neqb NA o0 (n0 NA)); cbn [negb]; hrw; reflexivity.
Qed.

Lemma row_last_hom m aN oN :
  row_last NB m (h aN) (h oN) = htrow (row_last NA m aN oN).
Proof.
  unfold row_last. rewrite <- mkrow_hom, prob_hom, <- (h_1 H), (h_eqb H).
  destruct (neqb NA oN (n1 NA)); cbn [negb]; hrw; reflexivity.
Qed.

Lemma rows_interior_hom m j ab :
  rows_interior NB m j (map hp ab) = map htrow (rows_interior NA m j ab).
Proof.
  revert j; induction ab as [|p ab IH]; intros j; [reflexivity|].
  cbn [map rows_interior]. rewrite IH. f_equal.
  unfold hp; cbn [fst snd]. rewrite <- mkrow_hom, prob_hom. hrw. reflexivity.
Qed.

Lemma clamp1_hom c o : clamp1 NB c (h o) = h (clamp1 NA c o).
Proof.
  unfold clamp1. rewrite <- (h_1 H), (h_ltb H).
  destruct (c && nltb NA (n1 NA) o)%bool; reflexivity.
Qed.

Lemma table_hom c m s : table NB c m (hacc s) = map htrow (table NA c m s).
Proof.
  unfold table, hacc. cbn [ac_ab ac_b0 ac_aN ac_o0 ac_oN map].
  rewrite map_app. cbn [map].
  rewrite !clamp1_hom, row_first_hom, row_last_hom, rows_interior_hom. reflexivity.
Qed.

Lemma crps_term_hom r : crps_term NB (htrow r) = h (crps_term NA r).
Proof. unfold crps_term, htrow, sq. cbn [t_p t_a t_b]. hrw. reflexivity. Qed.

Lemma gt0_hom x : nltb NB (n0 NB) (h x) = nltb NA (n0 NA) x.
Proof. rewrite <- (h_0 H). apply (h_ltb H). Qed.

Lemma fold_crps_hom tb s :
  fold_left (fun s r => nadd NB s (crps_term NB r)) (map htrow tb) (h s) =
  h (fold_left (fun s r => nadd NA s (crps_term NA r)) tb s).
Proof.
  revert s; induction tb as [|r tb IH]; intros s; [reflexivity|].
  cbn [map fold_left]. rewrite crps_term_hom, <- (h_add H). apply IH.
Qed.

Lemma fold_reli_hom tb s :
  fold_left (fun s r => if nltb NB (n0 NB) (t_g r) then nadd NB s (t_r r) else s)
            (map htrow tb) (h s) =
  h (fold_left (fun s r => if nltb NA (n0 NA) (t_g r) then nadd NA s (t_r r) else s) tb s).
Proof.
  revert s; induction tb as [|r tb IH]; intros s; [reflexivity|].
  cbn [map fold_left]. change (t_g (htrow r)) with (h (t_g r)).
  change (t_r (htrow r)) with (h (t_r r)). rewrite gt0_hom.
  destruct (nltb NA (n0 NA) (t_g r)); [rewrite <- (h_add H)|]; apply IH.
Qed.

Lemma fold_pot_hom tb s :
  fold_left (fun s r => if nltb NB (n0 NB) (t_g r) then nadd NB s (t_c r) else s)
            (map htrow tb) (h s) =
  h (fold_left (fun s r => if nltb NA (n0 NA) (t_g r) then nadd NA s (t_c r) else s) tb s).
Proof.
  revert s; induction tb as [|r tb IH]; intros s; [reflexivity|].
  cbn [map fold_left]. change (t_g (htrow r)) with (h (t_g r)).
  change (t_c (htrow r)) with (h (t_c r)). rewrite gt0_hom.
  destruct (nltb NA (n0 NA) (t_g r)); [rewrite <- (h_add H)|]; apply IH.
Qed.

Lemma sum_crps_hom tb : sum_crps NB (map htrow tb) = h (sum_crps NA tb).
Proof. unfold sum_crps. rewrite <- fold_crps_hom, (h_0 H). reflexivity. Qed.
Lemma sum_reli_hom tb : sum_reli NB (map htrow tb) = h (sum_reli NA tb).
Proof. unfold sum_reli. rewrite <- fold_reli_hom, (h_0 H). reflexivity. Qed.
Lemma sum_pot_hom tb : sum_pot NB (map htrow tb) = h (sum_pot NA tb).
Proof. unfold sum_pot. rewrite <- fold_pot_hom, (h_0 H). reflexivity. Qed.

Lemma finish_hom c m s u :
  finish NB c m (hacc s) (h u) = hout (finish NA c m s u).
Proof.
  unfold finish, hout. cbn [o_crps o_reli o_resol o_unc o_pot o_table].
  rewrite table_hom, sum_crps_hom, sum_reli_hom, sum_pot_hom. hrw. reflexivity.
Qed.

Lemma weight_hom n : weight NB n = h (weight NA n).
Proof. unfold weight. destruct (CRPS_USE_WEIGHTS =? 1)%Z; hrw; reflexivity. Qed.

Lemma presort_hom e : presort NB (map h e) = map h (presort NA e).
Proof. unfold presort. destruct (CRPS_IS_SORTED =? 0)%Z; [apply sort_hom | reflexivity]. Qed.

Lemma row_valid_hom r : row_valid NB (hrow r) = row_valid NA r.
Proof.
  unfold row_valid, hrow. cbn [fst snd]. rewrite (h_nan H). f_equal.
  induction (snd r) as [|x e IH]; [reflexivity|]. cbn [map existsb]. rewrite (h_nan H), IH.
  reflexivity.
Qed.

Lemma filter_valid_hom rows :
  filter (row_valid NB) (map hrow rows) = map hrow (filter (row_valid NA) rows).
Proof.
  induction rows as [|r rows IH]; [reflexivity|]. cbn [map filter].
  rewrite row_valid_hom. destruct (row_valid NA r); cbn [map]; rewrite IH; reflexivity.
Qed.

Theorem crps_core_hom c m v :
  crps_core NB c m (map hrow v) = option_map hout (crps_core NA c m v).
Proof.
  unfold crps_core. rewrite map_length, weight_hom.
  assert (Hs : map (fun r : B * list B => (fst r, presort NB (snd r))) (map hrow v) =
               map hrow (map (fun r : A * list A => (fst r, presort NA (snd r))) v)).
  { rewrite !map_map. apply map_ext. intros r. unfold hrow. cbn [fst snd].
    rewrite presort_hom. reflexivity. }
  rewrite Hs.
  assert (Hu : forall l, existsb (fun r : B * list B => unsorted NB (snd r)) (map hrow l) =
               existsb (fun r : A * list A => unsorted NA (snd r)) l).
  { induction l as [|r l IH]; [reflexivity|]. cbn [map existsb].
    change (snd (hrow r)) with (map h (snd r)). rewrite unsorted_hom, IH. reflexivity. }
  rewrite Hu.
  destruct (existsb _ _); [reflexivity|]. cbn [option_map]. f_equal.
  rewrite <- acc0_hom, fold_step_hom.
  assert (Hf : map fst (map hrow v) = map h (map fst v))
    by (rewrite !map_map; reflexivity).
  rewrite Hf. change (@nil B) with (map h (@nil A)). rewrite <- (h_0 H), unc_loop_hom.
  apply finish_hom.
Qed.

Theorem crps_gen_hom c rows :
  crps_gen NB c (map hrow rows) = option_map hout (crps_gen NA c rows).
Proof.
  rewrite !crps_gen_core, filter_valid_hom.
  destruct (filter (row_valid NA) rows) as [|r0 v']; [reflexivity|].
  change (map hrow (r0 :: v')) with (hrow r0 :: map hrow v').
  cbv iota. change (snd (hrow r0)) with (map h (snd r0)). rewrite map_length.
  change (hrow r0 :: map hrow v') with (map hrow (r0 :: v')).
  apply crps_core_hom.
Qed.

End Hom.

(* ---------- reals -> reals with a missing value ---------- *)
Lemma some_is_hom : is_hom RR RN Some.
Proof. constructor; reflexivity. Qed.

Open Scope R_scope.

(* data in which observations may be missing, members are real numbers *)
Definition lift_row (r : option R * list R) : option R * list (option R) :=
  (fst r, map Some (snd r)).
(* the forecasts that have an observation *)
Fixpoint with_obs (rows : list (option R * list R)) : list (R * list R) :=
  match rows with
  | [] => []
  | (Some y, e) :: rest => (y, e) :: with_obs rest
  | (None, _) :: rest => with_obs rest
  end.

Lemma filter_lift rows :
  filter (row_valid RN) (map lift_row rows) =
  filter (row_valid RN) (map (hrow Some) (with_obs rows)).
Proof.
  induction rows as [|[[y|] e] rows IH]; [reflexivity| |].
  - cbn [map with_obs filter]. unfold lift_row at 1, hrow at 1. cbn [fst snd].
    rewrite IH. reflexivity.
  - cbn [map with_obs filter]. unfold row_valid at 1. cbn. exact IH.
Qed.

Theorem crps_with_missing_obs c rows :
  crps_gen RN c (map lift_row rows) =
  option_map (hout Some) (crps_gen RR c (with_obs rows)).
Proof.
  rewrite <- (crps_gen_hom RR RN Some some_is_hom).
  unfold crps_gen. rewrite filter_lift. reflexivity.
Qed.
