(* Theorems about Model/Summary.v (property C20), part 5: data with non-finite entries.
   Instance RN: [None] stands for any non-finite datum (NaN, +inf, -inf: all are removed by
   the mask before any arithmetic).  The statistics computed on such data are the
   real-number statistics of the finite values. *)
From Coq Require Import ZArith Bool List Reals Lra Lia Permutation Sorted.
From Hy Require Import Base.Num Gen.ConstsC20 Model.Summary.
From Hy Require Import Proofs.SummaryProofs Proofs.SummaryLhsProofs Proofs.SummaryStatsProofs.
Import ListNotations.
Open Scope R_scope.

(* the finite values of a column *)
Fixpoint somes (l : list (option R)) : list R :=
  match l with
  | [] => []
  | Some x :: r => x :: somes r
  | None :: r => somes r
  end.

Lemma finite_values_RN data : finite_values RN data = map Some (somes data).
Proof.
  unfold finite_values. induction data as [|[x|] r IH]; simpl; auto.
  rewrite IH. reflexivity.
Qed.

Lemma somes_map_Some l : somes (map Some l) = l.
Proof. induction l; simpl; congruence. Qed.

Lemma qc_RN a b : qc RN a b = Some (qc RR a b).
Proof. reflexivity. Qed.

(* ---------- sorting ---------- *)
Lemma insert_RN x l :
  insert_le (nleb RN) (Some x) (map Some l) = map Some (insert_le (nleb RR) x l).
Proof.
  induction l as [|y l IH]; cbn [insert_le map]; auto.
  change (nleb RN (Some x) (Some y)) with (Rleb x y). change (nleb RR x y) with (Rleb x y).
  destruct (Rleb x y); cbn [map]; [reflexivity | rewrite IH; reflexivity].
Qed.

Lemma sort_values_RN l : sort_values RN (map Some l) = map Some (sort_values RR l).
Proof.
  unfold sort_values, isort_le. induction l as [|x l IH]; cbn [map fold_right]; auto.
  rewrite IH. apply insert_RN.
Qed.

(* ---------- percentile ---------- *)
Lemma lerp_RN a b t : lerp RN (Some a) (Some b) (Some t) = Some (lerp RR a b t).
Proof.
  unfold lerp. rewrite qc_RN. cbn [nleb nsub nmul nadd n1 RN RR olift2 ocmp].
  destruct (Rleb (qc RR 1 2) t); reflexivity.
Qed.

Lemma nth_map_Some (s : list R) k : (k < length s)%nat ->
  nth k (map Some s) None = Some (nth k s 0).
Proof. intros H. rewrite nth_indep with (d' := Some 0) by (rewrite map_length; lia). apply map_nth. Qed.

Lemma last_map_Some (s : list R) : s <> [] -> last (map Some s) None = Some (last s 0).
Proof.
  induction s as [|a s IH]; [congruence|]. intros _.
  destruct s as [|b s]; [reflexivity|].
  change (last (map Some (a :: b :: s)) None) with (last (map Some (b :: s)) None).
  change (last (a :: b :: s) 0) with (last (b :: s) 0). apply IH. congruence.
Qed.

Theorem percentile_RN s p : s <> [] ->
  percentile RN (map Some s) (Some p) = Some (percentile RR s p).
Proof.
  intros Hne. unfold percentile. rewrite map_length.
  cbn [nleb nltb nmul ndiv nofZ nfloor nsub n0 nnan RN RR olift2 ocmp obind R_floor].
  set (v := IZR (Z.of_nat (length s) - 1) * (p / IZR 100)).
  destruct (Rleb (IZR (Z.of_nat (length s) - 1)) v) eqn:E1.
  - apply last_map_Some. exact Hne.
  - destruct (Rltb v 0) eqn:E2.
    + destruct s; [congruence | reflexivity].
    + rb.
      assert (L0 := Int_part_nonneg v E2). assert (L1 := Int_part_lt v _ E1).
      rewrite !nth_map_Some by lia. apply lerp_RN.
Qed.

(* ---------- sum, mean, extremes ---------- *)
Lemma tsum_RN l : tsum RN (map Some l) = Some (tsum RR l).
Proof.
  unfold tsum. cbn [n0 RN RR].
  assert (G : forall a, fold_left (nadd RN) (map Some l) (Some a) = Some (fold_left (nadd RR) l a)).
  { induction l as [|x l IH]; intros a; simpl; auto. }
  apply G.
Qed.

Lemma tmean_RN l : tmean RN (map Some l) = Some (tmean RR l).
Proof. unfold tmean. rewrite tsum_RN, map_length. reflexivity. Qed.

Lemma tmax_RN l : l <> [] -> tmax RN (map Some l) = Some (tmax RR l).
Proof.
  destruct l as [|x r]; [congruence|]. intros _. unfold tmax. cbn [map].
  revert x; induction r as [|y r IH]; intros x; simpl; auto.
  destruct (Rltb x y); apply IH.
Qed.

Lemma tmin_RN l : l <> [] -> tmin RN (map Some l) = Some (tmin RR l).
Proof.
  destruct l as [|x r]; [congruence|]. intros _. unfold tmin. cbn [map].
  revert x; induction r as [|y r IH]; intros x; simpl; auto.
  destruct (Rltb y x); apply IH.
Qed.

Lemma compute_percentiles_RN c :
  compute_percentiles RN (Some c) =
  (Some (fst (compute_percentiles RR c)), Some (snd (compute_percentiles RR c))).
Proof. reflexivity. Qed.

Lemma box_levels_RN box wh : box_levels RN (Some box) (Some wh) = map Some (box_levels RR box wh).
Proof. reflexivity. Qed.

Lemma map_percentile_RN s levels : s <> [] ->
  map (percentile RN (map Some s)) (map Some levels) = map Some (map (percentile RR s) levels).
Proof.
  intros Hne. induction levels as [|p r IH]; cbn [map]; auto.
  rewrite percentile_RN by exact Hne. rewrite IH. reflexivity.
Qed.

(* ---------- box-plot statistics of a column with non-finite entries ---------- *)
Definition lift_bstats (r : bstats (T:=R)) : bstats (T:=option R) :=
  mkBstats (bs_count r) (map Some (bs_prc r)) (Some (bs_mean r)) (Some (bs_max r)) (Some (bs_min r)).

(* more than 3 finite values: every entry of the row is the real-number statistic of the
   finite values of the column *)
Theorem boxplot_stats_RN data box wh :
  (BOX_NOK_MIN < Z.of_nat (length (somes data)))%Z ->
  boxplot_stats RN data (Some box) (Some wh) =
  lift_bstats (boxplot_stats RR (somes data) box wh).
Proof.
  intros H.
  assert (Hne : somes data <> []) by (intros E; rewrite E in H; unfold BOX_NOK_MIN in H; simpl in H; lia).
  rewrite boxplot_stats_large by (rewrite finite_values_RN, map_length; exact H).
  rewrite (boxplot_stats_large RR) by (rewrite finite_values_RR; exact H).
  rewrite finite_values_RN, finite_values_RR, map_length, sort_values_RN, box_levels_RN.
  rewrite map_percentile_RN by (apply sort_values_nonempty; exact Hne).
  rewrite tmean_RN, tmax_RN, tmin_RN by exact Hne. reflexivity.
Qed.

(* at most 3 finite values: the count and the NaN row *)
Theorem boxplot_stats_RN_small data box wh :
  (Z.of_nat (length (somes data)) <= BOX_NOK_MIN)%Z ->
  boxplot_stats RN data box wh = bstats_nan RN (Z.of_nat (length (somes data))).
Proof.
  intros H. rewrite boxplot_stats_small by (rewrite finite_values_RN, map_length; exact H).
  rewrite finite_values_RN, map_length. reflexivity.
Qed.

(* ---------- violin quantiles of a column with non-finite entries ---------- *)
Lemma violin_qlevels_RN : violin_qlevels RN = map Some (violin_qlevels RR).
Proof. reflexivity. Qed.

Lemma pd_quantile_RN s q : s <> [] ->
  pd_quantile RN (map Some s) (Some q) = Some (pd_quantile RR s q).
Proof. intros H. unfold pd_quantile. cbn [nmul nofZ RN RR olift2]. apply percentile_RN. exact H. Qed.

Lemma map_pd_quantile_RN s levels : s <> [] ->
  map (pd_quantile RN (map Some s)) (map Some levels) = map Some (map (pd_quantile RR s) levels).
Proof.
  intros Hne. induction levels as [|q r IH]; cbn [map]; auto.
  rewrite pd_quantile_RN by exact Hne. rewrite IH. reflexivity.
Qed.

Theorem violin_stats_RN data : somes data <> [] ->
  violin_stats RN data = map Some (violin_stats RR (somes data)).
Proof.
  intros Hne. unfold violin_stats. rewrite finite_values_RN, finite_values_RR, sort_values_RN.
  destruct (somes data) as [|x r] eqn:E; [congruence|]. cbn [map].
  change (Some x :: map Some r) with (map Some (x :: r)).
  rewrite violin_qlevels_RN.
  apply map_pd_quantile_RN. apply sort_values_nonempty. congruence.
Qed.

Theorem violin_stats_RN_empty data : somes data = [] ->
  violin_stats RN data = [None; None; None; None; None].
Proof.
  intros E. unfold violin_stats. rewrite finite_values_RN, E. reflexivity.
Qed.

(* non-vacuity: a column with NaN and infinities *)
Definition example_column : list (option R) :=
  [Some 3; None; Some 1; Some 2; None; Some 5; Some 4].
Example boxplot_stats_RN_example :
  (BOX_NOK_MIN < Z.of_nat (length (somes example_column)))%Z /\ somes example_column <> [].
Proof. unfold BOX_NOK_MIN. simpl. split; [lia | discriminate]. Qed.
