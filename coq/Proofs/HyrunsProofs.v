(* Theorems about Model/Hyruns.v (property C19). *)
From Coq Require Import ZArith Bool List String Lia FinFun.
From Hy Require Import Model.Hyruns.
Import ListNotations.
Open Scope Z_scope.
Ltac Zify.zify_post_hook ::= Z.div_mod_to_equations.

(* ---------------- zseq ---------------- *)
Lemma zseq_length a n : List.length (zseq a n) = n.
Proof. revert a; induction n as [|n IH]; intros a; simpl; auto. Qed.

Lemma zseq_app a x y : zseq a (x + y) = zseq a x ++ zseq (a + Z.of_nat x) y.
Proof.
  revert a; induction x as [|x IH]; intros a.
  - simpl. f_equal. lia.
  - cbn [Nat.add zseq app]. f_equal. rewrite IH. f_equal. f_equal. lia.
Qed.

Lemma in_zseq a n x : In x (zseq a n) <-> a <= x < a + Z.of_nat n.
Proof.
  revert a; induction n as [|n IH]; intros a; simpl.
  - lia.
  - rewrite IH. lia.
Qed.

Lemma zseq_nodup a n : NoDup (zseq a n).
Proof.
  revert a; induction n as [|n IH]; intros a; simpl; constructor; auto.
  rewrite in_zseq. lia.
Qed.

(* ---------------- batch arithmetic ---------------- *)
Lemma batch_start_0 n k : 0 < k -> batch_start n k 0 = 0.
Proof. intros; unfold batch_start. lia. Qed.

Lemma batch_start_k n k : 0 < k -> batch_start n k k = n.
Proof. intros; unfold batch_start. nia. Qed.

Lemma batch_start_succ n k i :
  0 < k -> 0 <= i -> batch_start n k (i + 1) = batch_start n k i + batch_size n k i.
Proof.
  intros Hk Hi. unfold batch_start, batch_size.
  destruct (i <? n mod k) eqn:E; [apply Z.ltb_lt in E | apply Z.ltb_ge in E]; nia.
Qed.

Lemma batch_size_nonneg n k i : 0 < k -> 0 <= n -> 0 <= batch_size n k i.
Proof. intros; unfold batch_size. destruct (i <? n mod k); nia. Qed.

Theorem batch_size_pos n k i : 0 < k <= n -> 1 <= batch_size n k i.
Proof. intros; unfold batch_size. destruct (i <? n mod k); nia. Qed.

Theorem batch_sizes_differ_by_at_most_one n k i j :
  0 < k -> Z.abs (batch_size n k i - batch_size n k j) <= 1.
Proof.
  intros; unfold batch_size. destruct (i <? n mod k), (j <? n mod k); lia.
Qed.

Theorem batch_sizes_nonincreasing n k i j :
  0 < k -> i <= j -> batch_size n k j <= batch_size n k i.
Proof.
  intros; unfold batch_size.
  destruct (i <? n mod k) eqn:E1, (j <? n mod k) eqn:E2; try lia.
  all: apply Z.ltb_ge in E1; apply Z.ltb_lt in E2; lia.
Qed.

(* the accepted calls and what they return *)
Theorem get_batch_accepts n k i :
  1 <= k <= n -> 0 <= i < k ->
  get_batch n k i = Some (zseq (batch_start n k i) (Z.to_nat (batch_size n k i))).
Proof.
  intros Hk Hi. unfold get_batch.
  destruct (n <? 1) eqn:E1; [apply Z.ltb_lt in E1; lia|].
  destruct (n <? k) eqn:E2; [apply Z.ltb_lt in E2; lia|].
  destruct (i <? 0) eqn:E3; [apply Z.ltb_lt in E3; lia|].
  destruct (k <=? i) eqn:E4; [apply Z.leb_le in E4; lia|]. reflexivity.
Qed.

Theorem get_batch_rejects n k i :
  n < 1 \/ n < k \/ i < 0 \/ k <= i -> get_batch n k i = None.
Proof.
  intros H. unfold get_batch.
  destruct (n <? 1) eqn:E1; [reflexivity|apply Z.ltb_ge in E1].
  destruct (n <? k) eqn:E2; [reflexivity|apply Z.ltb_ge in E2].
  destruct (i <? 0) eqn:E3; [reflexivity|apply Z.ltb_ge in E3].
  destruct (k <=? i) eqn:E4; [reflexivity|apply Z.leb_gt in E4]. lia.
Qed.

(* all batches, in order *)
Definition batch (n k i : Z) : list Z :=
  zseq (batch_start n k i) (Z.to_nat (batch_size n k i)).
Definition all_batches (n k : Z) : list (list Z) :=
  map (batch n k) (zseq 0 (Z.to_nat k)).

Lemma zseq_snoc a n : zseq a (S n) = zseq a n ++ [a + Z.of_nat n].
Proof. replace (S n) with (n + 1)%nat by lia. rewrite zseq_app. reflexivity. Qed.

Lemma concat_batches_prefix n k j :
  0 < k -> 0 <= n ->
  List.concat (map (batch n k) (zseq 0 j)) = zseq 0 (Z.to_nat (batch_start n k (Z.of_nat j))).
Proof.
  intros Hk Hn. induction j as [|j IH].
  - simpl. rewrite batch_start_0 by lia. reflexivity.
  - rewrite zseq_snoc, map_app, concat_app, IH. cbn [map List.concat]. rewrite app_nil_r.
    replace (Z.of_nat (S j)) with (Z.of_nat j + 1) by lia.
    rewrite batch_start_succ by lia.
    assert (H0 : 0 <= batch_start n k (Z.of_nat j)).
    { unfold batch_start. assert (0 <= n / k) by (apply Z.div_pos; lia).
      assert (0 <= n mod k) by (apply Z.mod_pos_bound; lia). nia. }
    pose proof (batch_size_nonneg n k (Z.of_nat j) Hk Hn) as H1.
    rewrite Z2Nat.inj_add by lia. rewrite zseq_app. unfold batch.
    rewrite Z2Nat.id by lia. rewrite Z.add_0_l. reflexivity.
Qed.

(* contiguous, ordered, pairwise disjoint, covering: the concatenation of the
   batches 0..k-1 IS the list 0..n-1 *)
Theorem batches_partition n k :
  1 <= k <= n -> List.concat (all_batches n k) = zseq 0 (Z.to_nat n).
Proof.
  intros H. unfold all_batches. rewrite concat_batches_prefix by lia.
  rewrite Z2Nat.id by lia. rewrite batch_start_k by lia. reflexivity.
Qed.

Corollary batches_cover_once n k :
  1 <= k <= n ->
  NoDup (List.concat (all_batches n k)) /\
  forall x, In x (List.concat (all_batches n k)) <-> 0 <= x < n.
Proof.
  intros H. rewrite batches_partition by assumption. split.
  - apply zseq_nodup.
  - intros x. rewrite in_zseq. lia.
Qed.

Theorem all_batches_are_get_batch n k i :
  1 <= k <= n -> 0 <= i < k ->
  nth_error (all_batches n k) (Z.to_nat i) = get_batch n k i.
Proof.
  intros Hk Hi. rewrite get_batch_accepts by assumption. unfold all_batches.
  rewrite nth_error_map.
  assert (E : nth_error (zseq 0 (Z.to_nat k)) (Z.to_nat i) = Some i).
  { replace (Z.to_nat k) with (Z.to_nat i + S (Z.to_nat (k - i - 1)))%nat by lia.
    rewrite zseq_app. rewrite nth_error_app2 by (rewrite zseq_length; lia).
    rewrite zseq_length, Nat.sub_diag. cbn. f_equal. lia. }
  rewrite E. reflexivity.
Qed.

(* ---------------- SiteBatch.search ---------------- *)
Lemma batch_start_mono n k i : 0 < k -> 0 <= n -> 0 <= i ->
  batch_start n k i <= batch_start n k (i + 1).
Proof.
  intros. rewrite batch_start_succ by lia.
  pose proof (batch_size_nonneg n k i); lia.
Qed.

Lemma batch_start_nonneg n k i : 0 < k -> 0 <= n -> 0 <= i -> 0 <= batch_start n k i.
Proof.
  intros. unfold batch_start. assert (0 <= n / k) by (apply Z.div_pos; lia).
  assert (0 <= n mod k) by (apply Z.mod_pos_bound; lia). nia.
Qed.

Section SearchProofs.
Context {A : Type} (eqb : A -> A -> bool).
Hypothesis eqb_spec : forall a b, eqb a b = true <-> a = b.

Lemma existsb_sites sites d idx s :
  existsb (eqb s) (sites_of sites d idx) = true <->
  exists j, In j idx /\ nth (Z.to_nat j) sites d = s.
Proof.
  unfold sites_of. rewrite existsb_exists. split.
  - intros [x [Hin He]]. apply in_map_iff in Hin. destruct Hin as [j [Hj Hin]].
    exists j. split; auto. apply eqb_spec in He. congruence.
  - intros [j [Hin Hj]]. exists s. split; [|apply eqb_spec; reflexivity].
    apply in_map_iff. exists j. auto.
Qed.

(* the site at position j of a duplicate-free list is found in the batch that
   holds position j *)
Theorem search_finds_batch sites d k j :
  NoDup sites -> 1 <= k <= Z.of_nat (List.length sites) ->
  (j < List.length sites)%nat ->
  exists i, search eqb sites d k (nth j sites d) = Some i /\ 0 <= i < k /\
            batch_start (Z.of_nat (List.length sites)) k i <= Z.of_nat j
              < batch_start (Z.of_nat (List.length sites)) k (i + 1).
Proof.
  intros Hnd Hk Hj. set (n := Z.of_nat (List.length sites)) in *.
  unfold search.
  assert (G : forall fuel i, 0 <= i -> Z.of_nat fuel + i = k ->
              batch_start n k i <= Z.of_nat j ->
              exists i', search_from eqb sites d k fuel i (nth j sites d) = Some i' /\
                         0 <= i' < k /\
                         batch_start n k i' <= Z.of_nat j < batch_start n k (i' + 1)).
  { induction fuel as [|fuel IH]; intros i Hi Hf Hs.
    - exfalso. assert (i = k) by lia. subst i. rewrite batch_start_k in Hs by lia. lia.
    - cbn [search_from]. fold n. rewrite get_batch_accepts by lia.
      destruct (existsb (eqb (nth j sites d))
                  (sites_of sites d (zseq (batch_start n k i) (Z.to_nat (batch_size n k i))))) eqn:E.
      + exists i. split; [reflexivity|]. split; [lia|].
        apply existsb_sites in E. destruct E as [j' [Hin Heq]].
        apply in_zseq in Hin.
        pose proof (batch_size_nonneg n k i ltac:(lia) ltac:(lia)) as Hsz.
        rewrite Z2Nat.id in Hin by lia.
        pose proof (batch_start_nonneg n k i ltac:(lia) ltac:(lia) Hi) as Hs0.
        assert (Hlt : batch_start n k (i + 1) <= n).
        { rewrite <- (batch_start_k n k) at 2 by lia.
          (* monotone in i up to k *)
          clear - Hk Hi Hf. unfold batch_start, n in *.
          assert (0 <= Z.of_nat (List.length sites) / k) by (apply Z.div_pos; lia).
          assert (0 <= Z.of_nat (List.length sites) mod k < k) by (apply Z.mod_pos_bound; lia).
          nia. }
        pose proof (batch_start_succ n k i ltac:(lia) Hi) as Hsucc.
        assert (Hj' : Z.to_nat j' = j).
        { apply (proj1 (NoDup_nth sites d) Hnd); [unfold n in *; lia | lia | exact Heq]. }
        lia.
      + apply IH; try lia.
        rewrite batch_start_succ by lia.
        (* j is not in batch i, and start i <= j: so j >= start i + size i *)
        destruct (Z_lt_ge_dec (Z.of_nat j) (batch_start n k i + batch_size n k i)) as [Hlt|Hge]; [|lia].
        exfalso. assert (T : existsb (eqb (nth j sites d))
                  (sites_of sites d (zseq (batch_start n k i) (Z.to_nat (batch_size n k i)))) = true).
        { apply existsb_sites. exists (Z.of_nat j). split.
          - apply in_zseq.
            pose proof (batch_size_nonneg n k i ltac:(lia) ltac:(lia)). rewrite Z2Nat.id by lia. lia.
          - rewrite Nat2Z.id. reflexivity. }
        congruence. }
  apply (G (Z.to_nat k) 0); try lia.
  rewrite batch_start_0 by lia. lia.
Qed.
End SearchProofs.

(* ---------------- cartesian product ---------------- *)
Lemma length_flat_map_const {A B} (f : A -> list B) l c :
  (forall x, List.length (f x) = c) -> List.length (flat_map f l) = (List.length l * c)%nat.
Proof.
  intros H. induction l as [|a l IH]; simpl; [reflexivity|].
  rewrite app_length, H, IH. reflexivity.
Qed.

Theorem product_length {A} (opts : list (list A)) :
  List.length (product opts) = fold_right (fun vs acc => (List.length vs * acc)%nat) 1%nat opts.
Proof.
  induction opts as [|vs rest IH]; [reflexivity|]. cbn [product fold_right].
  rewrite (length_flat_map_const _ _ (List.length (product rest))).
  - rewrite IH. reflexivity.
  - intros x. apply map_length.
Qed.

Theorem in_product {A} (opts : list (list A)) (t : list A) :
  In t (product opts) <-> Forall2 (fun v vs => In v vs) t opts.
Proof.
  revert t; induction opts as [|vs rest IH]; intros t; cbn [product].
  - split.
    + intros [H|[]]. subst. constructor.
    + intros H. inversion H. left. reflexivity.
  - rewrite in_flat_map. split.
    + intros [v [Hv Hin]]. apply in_map_iff in Hin. destruct Hin as [t' [Ht Hin]]. subst t.
      constructor; [assumption|]. apply IH. assumption.
    + intros H. inversion H as [|v vs' t' rest' Hv Hrest]; subst.
      exists v. split; [assumption|]. apply in_map_iff. exists t'. split; [reflexivity|].
      apply IH. assumption.
Qed.

Lemma NoDup_app_intro {A} (l1 l2 : list A) :
  NoDup l1 -> NoDup l2 -> (forall x, In x l1 -> ~ In x l2) -> NoDup (l1 ++ l2).
Proof.
  induction l1 as [|a l1 IH]; intros H1 H2 H; simpl; [assumption|].
  inversion H1; subst. constructor.
  - rewrite in_app_iff. intros [Hin|Hin]; [contradiction|]. apply (H a); simpl; auto.
  - apply IH; auto. intros x Hx. apply H. simpl; auto.
Qed.

Lemma nodup_flat_map_cons {A} (vs : list A) (P : list (list A)) :
  NoDup vs -> NoDup P -> NoDup (flat_map (fun v => map (cons v) P) vs).
Proof.
  intros Hvs HP. induction vs as [|v vs IHv]; cbn [flat_map]; [constructor|].
  inversion Hvs as [|x l Hnot Hvs']; subst. apply NoDup_app_intro.
  - apply FinFun.Injective_map_NoDup; [|exact HP]. intros a b E. congruence.
  - apply IHv. exact Hvs'.
  - intros t Hin Hin2. apply in_map_iff in Hin. destruct Hin as [t' [Ht _]]. subst t.
    apply in_flat_map in Hin2. destruct Hin2 as [v' [Hv' Hin2]].
    apply in_map_iff in Hin2. destruct Hin2 as [t'' [Ht'' _]].
    injection Ht'' as E1 E2. subst. contradiction.
Qed.

Theorem product_nodup {A} (opts : list (list A)) :
  Forall (@NoDup A) opts -> NoDup (product opts).
Proof.
  induction opts as [|vs rest IH]; intros H; cbn [product].
  - constructor; [intros []|constructor].
  - inversion H as [|x l Hvs Hrest]; subst.
    apply nodup_flat_map_cons; [exact Hvs | apply IH; exact Hrest].
Qed.

(* ---------------- find ---------------- *)
Lemma val_eqb_spec a b : val_eqb a b = true <-> a = b.
Proof.
  destruct a, b; simpl; split; intros H; try discriminate; try congruence.
  - apply Z.eqb_eq in H. congruence.
  - injection H as H. apply Z.eqb_eq. assumption.
  - apply String.eqb_eq in H. congruence.
  - injection H as H. apply String.eqb_eq. assumption.
Qed.

Lemma find_from_spec key v tasks i0 i :
  In i (find_from key v i0 tasks) <->
  i0 <= i /\ exists t, nth_error tasks (Z.to_nat (i - i0)) = Some t /\ lookup key t = Some v.
Proof.
  revert i0; induction tasks as [|t r IH]; intros i0; cbn [find_from].
  - split; [intros []|]. intros [_ [t [H _]]]. destruct (Z.to_nat (i - i0)); discriminate.
  - assert (Hrest : (i0 + 1 <= i /\ exists t0, nth_error r (Z.to_nat (i - (i0 + 1))) = Some t0 /\
                      lookup key t0 = Some v) <->
                    (i0 < i /\ exists t0, nth_error (t :: r) (Z.to_nat (i - i0)) = Some t0 /\
                      lookup key t0 = Some v)).
    { split; intros [Hle [t0 [Hn Hl]]]; (split; [lia|]); exists t0; split; auto.
      - replace (Z.to_nat (i - i0)) with (S (Z.to_nat (i - (i0 + 1)))) by lia. exact Hn.
      - replace (Z.to_nat (i - i0)) with (S (Z.to_nat (i - (i0 + 1)))) in Hn by lia. exact Hn. }
    destruct (lookup key t) as [x|] eqn:El.
    + destruct (val_eqb x v) eqn:Ev.
      * apply val_eqb_spec in Ev. subst x. cbn [In]. rewrite IH, Hrest. split.
        -- intros [H|[Hlt H]]; [subst i|]; (split; [lia|]).
           ++ exists t. rewrite Z.sub_diag. auto.
           ++ exact H.
        -- intros [Hle [t0 [Hn Hl]]]. destruct (Z.eq_dec i0 i) as [E|NE]; [left; assumption|right].
           split; [lia|]. exists t0; auto.
      * rewrite IH, Hrest. split.
        -- intros [Hlt H]. split; [lia|exact H].
        -- intros [Hle [t0 [Hn Hl]]]. destruct (Z.eq_dec i0 i) as [E|NE].
           ++ subst i. rewrite Z.sub_diag in Hn. cbn in Hn. injection Hn as <-.
              rewrite El in Hl. injection Hl as <-.
              assert (val_eqb x x = true) by (apply val_eqb_spec; reflexivity). congruence.
           ++ split; [lia|]. exists t0; auto.
    + rewrite IH, Hrest. split.
      * intros [Hlt H]. split; [lia|exact H].
      * intros [Hle [t0 [Hn Hl]]]. destruct (Z.eq_dec i0 i) as [E|NE].
        -- subst i. rewrite Z.sub_diag in Hn. cbn in Hn. injection Hn as <-. congruence.
        -- split; [lia|]. exists t0; auto.
Qed.

(* find returns exactly the ids of the tasks whose option equals the value *)
Theorem find_spec key v tasks i :
  In i (find key v tasks) <->
  0 <= i /\ exists t, nth_error tasks (Z.to_nat i) = Some t /\ lookup key t = Some v.
Proof. unfold find. rewrite find_from_spec. rewrite Z.sub_0_r. reflexivity. Qed.

(* ---------------- dictionary round trip ---------------- *)
Lemma lookup_dset_same {B} k (v : B) d : lookup k (dset k v d) = Some v.
Proof.
  induction d as [|[k' v'] d IH]; cbn [dset lookup].
  - rewrite String.eqb_refl. reflexivity.
  - destruct (String.eqb k k') eqn:E; cbn [lookup]; rewrite E; auto.
Qed.

Lemma lookup_dset_other {B} k k' (v : B) d : k <> k' -> lookup k (dset k' v d) = lookup k d.
Proof.
  intros Hne. induction d as [|[k'' v''] d IH]; cbn [dset lookup].
  - destruct (String.eqb k k') eqn:E; [apply String.eqb_eq in E; contradiction|reflexivity].
  - destruct (String.eqb k' k'') eqn:E; cbn [lookup].
    + apply String.eqb_eq in E. subst k''.
      destruct (String.eqb k k') eqn:E2; [apply String.eqb_eq in E2; contradiction|reflexivity].
    + rewrite IH. reflexivity.
Qed.

Definition keys_ok (kn : keynames) : Prop :=
  k_context kn <> k_manopt kn /\
  k_context kn <> "name"%string /\ k_context kn <> "tasks"%string /\
  k_manopt kn <> "name"%string /\ k_manopt kn <> "tasks"%string /\
  k_context kn <> k_taskopt kn /\
  k_context kn <> "taskid"%string /\ k_taskopt kn <> "taskid"%string.

Lemma task_options_roundtrip kn id c o :
  keys_ok kn -> task_options_of kn (task_to_dict kn id c o) = Some o.
Proof.
  intros (H1 & H2 & H3 & H4 & H5 & H6 & H7 & H8).
  unfold task_options_of, task_to_dict.
  rewrite lookup_dset_same.
  rewrite (lookup_dset_other (k_context kn) (k_taskopt kn)) by assumption.
  rewrite lookup_dset_same.
  rewrite (lookup_dset_other "taskid"%string (k_taskopt kn)) by congruence.
  rewrite (lookup_dset_other "taskid"%string (k_context kn)) by congruence.
  rewrite lookup_dset_same. reflexivity.
Qed.

Lemma all_tasks_roundtrip kn c i ts :
  keys_ok kn -> all_some (map (task_options_of kn) (tasks_to_dicts kn c i ts)) = Some ts.
Proof.
  intros Hk. revert i; induction ts as [|t r IH]; intros i; [reflexivity|].
  cbn [tasks_to_dicts map all_some]. rewrite task_options_roundtrip by assumption.
  rewrite IH. reflexivity.
Qed.

Theorem dict_roundtrip kn m :
  keys_ok kn -> from_dict kn (to_dict kn m) = Some m.
Proof.
  intros Hk. pose proof Hk as (H1 & H2 & H3 & H4 & H5 & H6 & H7 & H8).
  unfold from_dict, to_dict.
  rewrite (lookup_dset_other "name"%string "tasks"%string) by discriminate.
  rewrite (lookup_dset_other "name"%string (k_manopt kn)) by congruence.
  rewrite (lookup_dset_other "name"%string (k_context kn)) by congruence.
  rewrite lookup_dset_same.
  rewrite (lookup_dset_other (k_context kn) "tasks"%string) by assumption.
  rewrite (lookup_dset_other (k_context kn) (k_manopt kn)) by assumption.
  rewrite lookup_dset_same.
  rewrite (lookup_dset_other (k_manopt kn) "tasks"%string) by assumption.
  rewrite lookup_dset_same.
  rewrite lookup_dset_same.
  rewrite all_tasks_roundtrip by assumption.
  destruct m; reflexivity.
Qed.

(* __eq__ is reflexive on dictionaries with unique keys; with the round trip
   this gives equality in both directions *)
Lemma list_eqb_refl {B} (eqb : B -> B -> bool) l :
  (forall x, eqb x x = true) -> list_eqb eqb l l = true.
Proof. intros H; induction l as [|a l IH]; simpl; [reflexivity|]. rewrite H, IH. reflexivity. Qed.

Lemma val_eqb_refl v : val_eqb v v = true.
Proof. apply val_eqb_spec. reflexivity. Qed.

Lemma included_refl {B} (eqb : B -> B -> bool) (d : list (string * B)) :
  (forall x, eqb x x = true) -> NoDup (map fst d) -> included eqb d d = true.
Proof.
  intros Hr Hnd. unfold included. apply forallb_forall. intros [k v] Hin.
  cbn [fst snd].
  assert (E : lookup k d = Some v).
  { induction d as [|[k' v'] d IH]; [destruct Hin|]. cbn [lookup].
    cbn [map fst] in Hnd. inversion Hnd as [|x l Hnot Hnd']; subst.
    destruct Hin as [Hin|Hin].
    - injection Hin as -> ->. rewrite String.eqb_refl. reflexivity.
    - destruct (String.eqb k k') eqn:E.
      + apply String.eqb_eq in E. subst k'. exfalso. apply Hnot.
        apply in_map_iff. exists (k, v). auto.
      + apply IH; assumption. }
  rewrite E. apply Hr.
Qed.

Theorem manager_eq_refl m :
  NoDup (map fst (m_context m)) -> NoDup (map fst (m_options m)) -> manager_eq m m = true.
Proof.
  intros H1 H2. unfold manager_eq.
  rewrite (included_refl val_eqb) by (auto using val_eqb_refl).
  rewrite (included_refl (list_eqb val_eqb))
    by (auto; intros; apply list_eqb_refl; apply val_eqb_refl).
  rewrite Z.eqb_refl. cbn [andb].
  apply list_eqb_refl. intros t. apply list_eqb_refl. intros [k v]. unfold pair_eqb.
  cbn [fst snd]. rewrite String.eqb_refl, val_eqb_refl. reflexivity.
Qed.

Theorem roundtrip_equal_both_directions kn m :
  keys_ok kn -> NoDup (map fst (m_context m)) -> NoDup (map fst (m_options m)) ->
  exists m', from_dict kn (to_dict kn m) = Some m' /\
             manager_eq m m' = true /\ manager_eq m' m = true.
Proof.
  intros Hk H1 H2. exists m. split; [apply dict_roundtrip; assumption|].
  split; apply manager_eq_refl; assumption.
Qed.

Lemma Forall2_len {A B} (R : A -> B -> Prop) l1 l2 :
  Forall2 R l1 l2 -> List.length l1 = List.length l2.
Proof. induction 1; simpl; congruence. Qed.

(* tasks of a cartesian-product manager: every combination exactly once *)
Theorem make_tasks_enumerates (options : optdict) :
  Forall (fun kv => NoDup (snd kv)) options ->
  NoDup (make_tasks options) /\
  List.length (make_tasks options) =
    fold_right (fun vs acc => (List.length vs * acc)%nat) 1%nat (map snd options) /\
  forall t, In t (product (map snd options)) <->
            Forall2 (fun v vs => In v vs) t (map snd options).
Proof.
  intros H. unfold make_tasks. split; [|split].
  - assert (Hp : NoDup (product (map snd options))).
    { apply product_nodup. apply Forall_map. exact H. }
    assert (Hlen : forall t, In t (product (map snd options)) ->
                   List.length t = List.length (map fst options)).
    { intros t Hin. apply in_product in Hin. apply Forall2_len in Hin.
      rewrite !map_length in *. assumption. }
    revert Hp Hlen. generalize (product (map snd options)) as P. generalize (map fst options) as ks.
    intros ks P. induction P as [|t P IH]; intros Hp Hlen; cbn [map]; constructor.
    + inversion Hp; subst. intros Hin. apply in_map_iff in Hin. destruct Hin as [t' [E Hin]].
      assert (t' = t).
      { assert (L1 := Hlen t (or_introl eq_refl)). assert (L2 := Hlen t' (or_intror Hin)).
        clear - E L1 L2. revert t t' E L1 L2. induction ks as [|k ks IHk]; intros t t' E L1 L2.
        - destruct t, t'; try discriminate; reflexivity.
        - destruct t, t'; try discriminate. cbn in E. injection E as E1 E2.
          f_equal; [assumption|]. apply IHk; auto. }
      subst. contradiction.
    + inversion Hp; subst. apply IH; auto. intros t' Hin. apply Hlen. right. assumption.
  - rewrite map_length. apply product_length.
  - intros t. apply in_product.
Qed.

(* non-vacuity *)
Example batches_example :
  all_batches 20 5 = [[0;1;2;3]; [4;5;6;7]; [8;9;10;11]; [12;13;14;15]; [16;17;18;19]]
  /\ all_batches 7 3 = [[0;1;2]; [3;4]; [5;6]].
Proof. vm_compute. auto. Qed.

Example keys_ok_default :
  keys_ok {| k_context := "context"; k_taskopt := "options"; k_manopt := "options" |}.
Proof. unfold keys_ok; cbn; repeat split; discriminate. Qed.
